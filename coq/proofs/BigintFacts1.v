(** * BigintFacts1: the big-integer operations of model/Bigint.v compute the corresponding
    operation on natural numbers, and (stack back-end) fail exactly when the result does not fit. *)
From Coq Require Import ZArith List Bool Lia Znumtheory.
From Coq Require Import ZifyBool.
From ML Require Import base.RustSem model.Fmt model.Vec model.Number model.Bigint proofs.LimbVal.
From ML Require Import gen.Consts gen.PowDump.
Import ListNotations.
Open Scope Z_scope.
Local Opaque Z.pow.
Arguments Z.pow : simpl never.

(** ** generalities *)
Definition b2z (b : bool) : Z := if b then 1 else 0.

Lemma B64_gt1 : 1 < B64. Proof. reflexivity. Qed.

Lemma B64pow_pos n : 0 < B64 ^ n \/ n < 0.
Proof. destruct (Z_lt_le_dec n 0); [right; lia|left; apply Z.pow_pos_nonneg; [reflexivity|lia]]. Qed.

Lemma B64pow_pos' n : 0 <= n -> 0 < B64 ^ n.
Proof. intros; apply Z.pow_pos_nonneg; [reflexivity|lia]. Qed.

Lemma B64pow_ge1 n : 0 <= n -> 1 <= B64 ^ n.
Proof. intros H. pose proof (B64pow_pos' n H). lia. Qed.

Lemma B64pow_succ n : 0 <= n -> B64 ^ (n + 1) = B64 * B64 ^ n.
Proof. intros. rewrite Z.pow_add_r by lia. rewrite Z.pow_1_r. ring. Qed.

Lemma B64pow_mono a b : 0 <= a <= b -> B64 ^ a <= B64 ^ b.
Proof. intros. apply Z.pow_le_mono_r; [reflexivity|lia]. Qed.

Lemma B64pow_lt a b : 0 <= a < b -> B64 * B64 ^ a <= B64 ^ b.
Proof.
  intros. rewrite <- B64pow_succ by lia. apply B64pow_mono. lia.
Qed.

Lemma zlen_nonneg {A} (l : list A) : 0 <= zlen l.
Proof. unfold zlen. lia. Qed.

Lemma zlen_nil {A} : zlen (@nil A) = 0. Proof. reflexivity. Qed.

Lemma zlen_cons {A} (x : A) l : zlen (x :: l) = zlen l + 1.
Proof. unfold zlen. cbn [length]. lia. Qed.

Lemma zlen_app {A} (l1 l2 : list A) : zlen (l1 ++ l2) = zlen l1 + zlen l2.
Proof. unfold zlen. rewrite app_length. lia. Qed.

Lemma zlen_0_nil {A} (l : list A) : zlen l = 0 -> l = [].
Proof. destruct l; [reflexivity|rewrite zlen_cons; pose proof (zlen_nonneg l); lia]. Qed.

Lemma zlen_repeat {A} (x : A) n : zlen (repeat x n) = Z.of_nat n.
Proof. unfold zlen. rewrite repeat_length. reflexivity. Qed.

Lemma zlen_firstn {A} (l : list A) n : (n <= length l)%nat -> zlen (firstn n l) = Z.of_nat n.
Proof. intros. unfold zlen. rewrite firstn_length_le by lia. reflexivity. Qed.

Lemma zlen_skipn {A} (l : list A) n : zlen (skipn n l) = zlen l - Z.of_nat (Nat.min n (length l)).
Proof. unfold zlen. rewrite skipn_length. lia. Qed.

Lemma limbs_ok_nil : limbs_ok []. Proof. constructor. Qed.

Lemma limbs_ok_cons x l : limbs_ok (x :: l) <-> 0 <= x < B64 /\ limbs_ok l.
Proof. unfold limbs_ok. split; [intros H; inversion H; auto|intros [H1 H2]; constructor; auto]. Qed.

Lemma limbs_ok_app l1 l2 : limbs_ok (l1 ++ l2) <-> limbs_ok l1 /\ limbs_ok l2.
Proof. unfold limbs_ok. apply Forall_app. Qed.

Lemma limbs_ok_firstn n l : limbs_ok l -> limbs_ok (firstn n l).
Proof.
  intros H. rewrite <- (firstn_skipn n l) in H. apply limbs_ok_app in H. tauto.
Qed.

Lemma limbs_ok_skipn n l : limbs_ok l -> limbs_ok (skipn n l).
Proof.
  intros H. rewrite <- (firstn_skipn n l) in H. apply limbs_ok_app in H. tauto.
Qed.

Lemma limbs_ok_repeat0 n : limbs_ok (repeat 0 n).
Proof. induction n; cbn [repeat]; [constructor|apply limbs_ok_cons; split; [split; [lia|reflexivity]|assumption]]. Qed.

Lemma limbs_ok_rev l : limbs_ok l <-> limbs_ok (rev l).
Proof. unfold limbs_ok. split; intros H; [apply Forall_rev; exact H|rewrite <- (rev_involutive l); apply Forall_rev; exact H]. Qed.

Lemma lval_cons x l : lval (x :: l) = x + B64 * lval l.
Proof. reflexivity. Qed.

Lemma lval_snoc l x : lval (l ++ [x]) = lval l + B64 ^ zlen l * x.
Proof. rewrite lval_app. cbn [lval]. ring. Qed.

Lemma lval_split n l : lval l = lval (firstn n l) + B64 ^ zlen (firstn n l) * lval (skipn n l).
Proof. rewrite <- lval_app, firstn_skipn. reflexivity. Qed.

(** the value determines quotient and remainder *)
Lemma split_unique (M lo hi v : Z) :
  0 < M -> 0 <= lo < M -> lo + M * hi = v -> lo = v mod M /\ hi = v / M.
Proof.
  intros HM Hlo E. subst v.
  replace (lo + M * hi) with (lo + hi * M) by ring.
  rewrite Z.mod_add, Z.div_add by lia.
  rewrite Z.mod_small, Z.div_small by lia. lia.
Qed.

(** ** 1. scalar operations *)
Theorem scalar_add_spec x y :
  0 <= x < B64 -> 0 <= y < B64 ->
  let '(s, c) := scalar_add x y in
  0 <= s < B64 /\ s + B64 * b2z c = x + y /\ (c = true <-> B64 <= x + y).
Proof.
  intros Hx Hy. unfold scalar_add. pose proof B64_pos.
  destruct (B64 <=? x + y) eqn:E; cbn [b2z].
  - assert ((x + y) mod B64 = x + y - B64).
    { symmetry. apply Z.mod_unique_pos with (q := 1); lia. }
    split; [lia|]. split; [lia|]. split; [lia|reflexivity].
  - rewrite Z.mod_small by lia. split; [lia|]. split; [lia|]. split; [discriminate|lia].
Qed.

Theorem scalar_mul_spec x y carry :
  0 <= x < B64 -> 0 <= y < B64 -> 0 <= carry < B64 ->
  let '(lo, hi) := scalar_mul x y carry in
  0 <= lo < B64 /\ 0 <= hi < B64 /\ lo + B64 * hi = x * y + carry.
Proof.
  intros Hx Hy Hc. unfold scalar_mul. pose proof B64_pos.
  assert (0 <= x * y + carry < B64 * B64) by nia.
  pose proof (Z.mod_pos_bound (x * y + carry) B64 ltac:(lia)).
  pose proof (Z.div_mod (x * y + carry) B64 ltac:(lia)).
  split; [lia|]. split; [|lia].
  split; [apply Z.div_pos; lia|apply Z.div_lt_upper_bound; lia].
Qed.

Example scalar_mul_ex :
  scalar_mul (B64 - 1) (B64 - 1) (B64 - 1) = (0, B64 - 1).
Proof. vm_compute. auto. Qed.

Example scalar_add_ex : scalar_add (B64 - 1) 1 = (0, true).
Proof. vm_compute. auto. Qed.

(** ** 2. carry propagation *)
Theorem add_carry_spec : forall l carry,
  limbs_ok l -> 0 <= carry < B64 ->
  let '(l', c') := add_carry l carry in
  lval l' + B64 ^ zlen l * c' = lval l + carry /\ limbs_ok l' /\ length l' = length l /\
  0 <= c' < B64 /\ (l = [] -> c' = carry) /\ (l <> [] -> c' <= 1).
Proof.
  induction l as [|x r IH]; intros carry Hl Hc; cbn [add_carry].
  - rewrite (@zlen_nil Z), Z.pow_0_r. cbn [lval]. repeat split; try lia; try constructor. congruence.
  - apply limbs_ok_cons in Hl. destruct Hl as [Hx Hr].
    destruct (carry =? 0) eqn:E.
    + assert (carry = 0) by lia. subst carry.
      repeat split; try lia; try reflexivity. apply limbs_ok_cons; auto.
    + pose proof (scalar_add_spec x carry Hx Hc) as S.
      destruct (scalar_add x carry) as [s c]. destruct S as [Hs [Es _]].
      assert (Hc1 : 0 <= (if c then 1 else 0) < B64) by (destruct c; split; (lia || reflexivity)).
      specialize (IH (if c then 1 else 0) Hr Hc1).
      destruct (add_carry r (if c then 1 else 0)) as [r' c'].
      destruct IH as [E1 [O1 [L1 [B1 [N1 N2]]]]].
      rewrite zlen_cons, B64pow_succ by apply zlen_nonneg. cbn [lval length].
      unfold b2z in Es.
      split; [|split; [apply limbs_ok_cons; auto|split; [lia|split; [lia|split; [discriminate|]]]]].
      * replace (s + B64 * lval r' + B64 * B64 ^ zlen r * c')
          with (s + B64 * (lval r' + B64 ^ zlen r * c')) by ring.
        rewrite E1. lia.
      * intros _. destruct r as [|x' r''].
        -- rewrite N1 by reflexivity. destruct c; lia.
        -- apply N2. discriminate.
Qed.

(** consequently the outputs are the remainder and quotient by B64^len *)
Corollary add_carry_divmod l carry :
  limbs_ok l -> 0 <= carry < B64 ->
  lval (fst (add_carry l carry)) = (lval l + carry) mod B64 ^ zlen l /\
  snd (add_carry l carry) = (lval l + carry) / B64 ^ zlen l.
Proof.
  intros Hl Hc. pose proof (add_carry_spec l carry Hl Hc) as S.
  destruct (add_carry l carry) as [l' c']. cbn [fst snd].
  destruct S as [E [O [Len _]]].
  apply split_unique; [apply B64pow_pos', zlen_nonneg| |exact E].
  pose proof (lval_bound l' O). pose proof (lval_nonneg l' O).
  unfold zlen in *. rewrite Len in *. lia.
Qed.

Theorem mul_carry_spec : forall l y carry,
  limbs_ok l -> 0 <= y < B64 -> 0 <= carry < B64 ->
  let '(l', c') := mul_carry l y carry in
  lval l' + B64 ^ zlen l * c' = lval l * y + carry /\ limbs_ok l' /\ length l' = length l /\
  0 <= c' < B64.
Proof.
  induction l as [|x r IH]; intros y carry Hl Hy Hc; cbn [mul_carry].
  - rewrite (@zlen_nil Z), Z.pow_0_r. cbn [lval]. repeat split; try lia; constructor.
  - apply limbs_ok_cons in Hl. destruct Hl as [Hx Hr].
    pose proof (scalar_mul_spec x y carry Hx Hy Hc) as S.
    destruct (scalar_mul x y carry) as [lo hi]. destruct S as [Hlo [Hhi Es]].
    specialize (IH y hi Hr Hy Hhi).
    destruct (mul_carry r y hi) as [r' c']. destruct IH as [E1 [O1 [L1 B1]]].
    rewrite zlen_cons, B64pow_succ by apply zlen_nonneg. cbn [lval length].
    split; [|split; [apply limbs_ok_cons; auto|split; [lia|lia]]].
    replace (lo + B64 * lval r' + B64 * B64 ^ zlen r * c')
      with (lo + B64 * (lval r' + B64 ^ zlen r * c')) by ring.
    rewrite E1. lia.
Qed.

Corollary mul_carry_divmod l y carry :
  limbs_ok l -> 0 <= y < B64 -> 0 <= carry < B64 ->
  lval (fst (mul_carry l y carry)) = (lval l * y + carry) mod B64 ^ zlen l /\
  snd (mul_carry l y carry) = (lval l * y + carry) / B64 ^ zlen l.
Proof.
  intros Hl Hy Hc. pose proof (mul_carry_spec l y carry Hl Hy Hc) as S.
  destruct (mul_carry l y carry) as [l' c']. cbn [fst snd].
  destruct S as [E [O [Len _]]].
  apply split_unique; [apply B64pow_pos', zlen_nonneg| |exact E].
  pose proof (lval_bound l' O). pose proof (lval_nonneg l' O).
  unfold zlen in *. rewrite Len in *. lia.
Qed.

Example add_carry_ex :
  add_carry [B64 - 1; B64 - 1; 5] 1 = ([0; 0; 6], 0) /\
  add_carry [B64 - 1; B64 - 1] 7 = ([6; 0], 1) /\ add_carry [] 9 = ([], 9).
Proof. vm_compute. auto. Qed.

Example mul_carry_ex :
  mul_carry [B64 - 1; B64 - 1] (B64 - 1) (B64 - 1) = ([0; 0], B64 - 1) /\
  mul_carry [B64 - 1; B64 - 1] (B64 - 1) 0 = ([1; B64 - 1], B64 - 2).
Proof. vm_compute. auto. Qed.

(** ** 7. normalisation *)
Lemma strip_zeros_spec : forall r,
  exists k, r = repeat 0 k ++ strip_zeros r /\
            match strip_zeros r with 0 :: _ => False | _ => True end.
Proof.
  induction r as [|a r IH]; cbn [strip_zeros].
  - exists 0%nat. split; [reflexivity|exact I].
  - destruct a as [|p|p].
    + destruct IH as [k [E N]]. exists (S k). cbn [repeat app]. split; [congruence|exact N].
    + exists 0%nat. split; [reflexivity|exact I].
    + exists 0%nat. split; [reflexivity|exact I].
Qed.

(** the list is its normal form followed by zero limbs *)
Lemma normalize_list_decomp l :
  exists k, l = normalize_list l ++ repeat 0 k.
Proof.
  unfold normalize_list. destruct (strip_zeros_spec (rev l)) as [k [E _]].
  exists k. rewrite <- (rev_involutive l) at 1. rewrite E at 1.
  rewrite rev_app_distr. f_equal.
  clear. induction k; [reflexivity|]. cbn [repeat rev]. rewrite IHk.
  clear. induction k; [reflexivity|]. cbn [repeat app]. congruence.
Qed.

Lemma is_normalized_normalize l : is_normalized (normalize_list l) = true.
Proof.
  unfold normalize_list, is_normalized. rewrite rev_involutive.
  destruct (strip_zeros_spec (rev l)) as [k [_ N]].
  destruct (strip_zeros (rev l)) as [|[|p|p] r]; tauto.
Qed.

Lemma normalize_list_id l : is_normalized l = true -> normalize_list l = l.
Proof.
  unfold normalize_list, is_normalized. intros H.
  destruct (rev l) as [|[|p|p] r] eqn:E; try discriminate; cbn [strip_zeros];
    rewrite <- E; apply rev_involutive.
Qed.

Lemma is_normalized_snoc l x : is_normalized (l ++ [x]) = negb (x =? 0).
Proof.
  unfold is_normalized. rewrite rev_app_distr. cbn [rev app]. destruct x; reflexivity.
Qed.

Lemma is_normalized_last l : is_normalized l = true <-> (l = [] \/ last l 0 <> 0).
Proof.
  destruct l as [|a r] using rev_ind.
  - split; [auto|reflexivity].
  - rewrite is_normalized_snoc, last_last. split.
    + intros H. right. lia.
    + intros [H|H]; [destruct r; discriminate|lia].
Qed.

Theorem normalize_list_spec l :
  lval (normalize_list l) = lval l /\
  is_normalized (normalize_list l) = true /\
  (limbs_ok l -> limbs_ok (normalize_list l)) /\
  (length (normalize_list l) <= length l)%nat /\
  (is_normalized l = true -> normalize_list l = l) /\
  (exists k, l = normalize_list l ++ repeat 0 k).
Proof.
  destruct (normalize_list_decomp l) as [k E].
  split; [|split; [apply is_normalized_normalize|split; [|split; [|split; [apply normalize_list_id|]]]]].
  - rewrite E at 2. rewrite lval_app, lval_repeat0. ring.
  - intros H. rewrite E in H. apply limbs_ok_app in H. tauto.
  - rewrite E at 2. rewrite app_length. lia.
  - exists k. exact E.
Qed.

(** a normalized non-empty number with [n] limbs is at least B64^(n-1) *)
Theorem normalized_lower_bound l :
  limbs_ok l -> is_normalized l = true -> l <> [] -> B64 ^ (zlen l - 1) <= lval l.
Proof.
  intros Hl Hn Hne. destruct l as [|a r] using rev_ind; [congruence|].
  rewrite is_normalized_snoc in Hn. apply limbs_ok_app in Hl. destruct Hl as [Hr Ha].
  apply limbs_ok_cons in Ha. destruct Ha as [Ha _].
  rewrite lval_snoc, zlen_app. change (zlen [a]) with 1. replace (zlen r + 1 - 1) with (zlen r) by lia.
  pose proof (lval_nonneg r Hr). pose proof (B64pow_pos' (zlen r) (zlen_nonneg r)). nia.
Qed.

(** a normalized list denoting zero is empty *)
Lemma normalized_zero l : limbs_ok l -> is_normalized l = true -> lval l = 0 -> l = [].
Proof.
  intros Hl Hn Hz. destruct l as [|a r]; [reflexivity|].
  pose proof (normalized_lower_bound (a :: r) Hl Hn ltac:(discriminate)) as H.
  pose proof (B64pow_pos' (zlen (a :: r) - 1)) as P. rewrite zlen_cons in *.
  specialize (P ltac:(pose proof (zlen_nonneg r); lia)). lia.
Qed.

Example normalize_ex :
  normalize_list [1; 0; 2; 0; 0] = [1; 0; 2] /\ is_normalized [1; 0; 2; 0; 0] = false /\
  is_normalized [1; 0; 2] = true /\ normalize_list [0; 0] = [].
Proof. vm_compute. auto. Qed.

(** ** 6. comparison *)
Lemma cmp_be_spec : forall x y,
  length x = length y -> limbs_ok x -> limbs_ok y ->
  cmp_be (rev x) (rev y) = (lval x ?= lval y).
Proof.
  induction x as [|a x IH] using rev_ind; intros y Hlen Hx Hy.
  - destruct y; [reflexivity|discriminate].
  - destruct y as [|b y _] using rev_ind.
    { rewrite app_length in Hlen. cbn [length] in Hlen. lia. }
    rewrite !app_length in Hlen. cbn [length] in Hlen.
    apply limbs_ok_app in Hx. destruct Hx as [Hx Ha]. apply limbs_ok_cons in Ha. destruct Ha as [Ha _].
    apply limbs_ok_app in Hy. destruct Hy as [Hy Hb]. apply limbs_ok_cons in Hb. destruct Hb as [Hb _].
    rewrite !rev_app_distr. cbn [rev app cmp_be].
    rewrite !lval_snoc.
    assert (El : zlen y = zlen x) by (unfold zlen; lia). rewrite El.
    pose proof (lval_nonneg x Hx). pose proof (lval_bound x Hx).
    pose proof (lval_nonneg y Hy). pose proof (lval_bound y Hy). rewrite El in *.
    set (M := B64 ^ zlen x) in *.
    destruct (a ?= b) eqn:E.
    + apply Z.compare_eq in E. subst b. rewrite IH by (auto; lia).
      destruct (lval x ?= lval y) eqn:E2; symmetry.
      * apply Z.compare_eq in E2. apply Z.compare_eq_iff. lia.
      * rewrite Z.compare_lt_iff in *. lia.
      * rewrite Z.compare_gt_iff in *. lia.
    + rewrite Z.compare_lt_iff in E. symmetry. apply Z.compare_lt_iff. nia.
    + rewrite Z.compare_gt_iff in E. symmetry. apply Z.compare_gt_iff. nia.
Qed.

(** complete characterisation, arbitrary operands *)
Theorem vcompare_full x y :
  limbs_ok x -> limbs_ok y ->
  vcompare x y = if zlen x =? zlen y then (lval x ?= lval y) else (zlen x ?= zlen y).
Proof.
  intros Hx Hy. unfold vcompare. destruct (zlen x =? zlen y) eqn:E.
  - assert (E' : zlen x = zlen y) by lia. rewrite E', Z.compare_refl.
    apply cmp_be_spec; auto. unfold zlen in E'. lia.
  - destruct (zlen x ?= zlen y) eqn:E2; try reflexivity.
    apply Z.compare_eq in E2. lia.
Qed.

(** normalized operands: numeric comparison *)
Theorem vcompare_spec x y :
  limbs_ok x -> limbs_ok y -> is_normalized x = true -> is_normalized y = true ->
  vcompare x y = (lval x ?= lval y).
Proof.
  intros Hx Hy Nx Ny. rewrite vcompare_full by assumption.
  destruct (zlen x =? zlen y) eqn:E; [reflexivity|].
  assert (forall a b, limbs_ok a -> limbs_ok b -> is_normalized b = true -> zlen a < zlen b ->
                      lval a < lval b) as Lt.
  { intros a b Ha Hb Nb Hlt. pose proof (lval_bound a Ha).
    assert (b <> []) by (intros ->; rewrite (@zlen_nil Z) in Hlt; pose proof (zlen_nonneg a); lia).
    pose proof (normalized_lower_bound b Hb Nb H0).
    pose proof (B64pow_mono (zlen a) (zlen b - 1) ltac:(pose proof (zlen_nonneg a); lia)). lia. }
  destruct (zlen x ?= zlen y) eqn:E2; symmetry.
  - apply Z.compare_eq in E2. lia.
  - rewrite Z.compare_lt_iff in *. apply Lt; auto.
  - rewrite Z.compare_gt_iff in *. apply Lt; auto.
Qed.

Example vcompare_ex :
  vcompare [5; 1] [7; 1] = Lt /\ vcompare [0; 2] [B64 - 1; 1] = Gt /\
  (* not normalized: the length decides *) vcompare [1; 0] [2] = Gt.
Proof. vm_compute. auto. Qed.

(** ** vectors: the push/extend/resize primitives *)
Lemma grow_ge cap req : cap <= grow cap req /\ req <= grow cap req.
Proof. unfold grow. lia. Qed.

Lemma try_push_Some h v x v' :
  try_push h v x = Some v' ->
  vl v' = vl v ++ [x] /\ (h = false -> vcap v' = vcap v /\ zlen (vl v) < vcap v) /\
  vcap v <= vcap v' /\ (zlen (vl v) <= vcap v -> zlen (vl v') <= vcap v').
Proof.
  unfold try_push, vlen. destruct h.
  - intros H. inversion H; subst v'; clear H. cbn [vl vcap]. rewrite zlen_app. change (zlen [x]) with 1.
    split; [reflexivity|]. split; [discriminate|].
    pose proof (grow_ge (vcap v) (zlen (vl v) + 1)).
    destruct (zlen (vl v) =? vcap v) eqn:E; lia.
  - destruct (zlen (vl v) <? vcap v) eqn:E; [|discriminate].
    intros H. inversion H; subst v'; clear H. cbn [vl vcap]. rewrite zlen_app. change (zlen [x]) with 1.
    repeat split; lia.
Qed.

Lemma try_push_None h v x :
  try_push h v x = None <-> h = false /\ vcap v <= zlen (vl v).
Proof.
  unfold try_push, vlen. destruct h.
  - split; [discriminate|intros [H _]; discriminate].
  - destruct (zlen (vl v) <? vcap v) eqn:E.
    + split; [discriminate|intros [_ H]; lia].
    + split; [intros _; split; [reflexivity|lia]|reflexivity].
Qed.

(** ** 3. small_add_from / small_add / small_mul *)
Lemma firstn_app_exact {A} (l1 l2 : list A) n : length l1 = n -> firstn n (l1 ++ l2) = l1.
Proof.
  intros <-. rewrite firstn_app, Nat.sub_diag, firstn_all. cbn [firstn]. apply app_nil_r.
Qed.

Lemma firstn_le_eq {A} (a b : list A) m n :
  firstn m a = firstn m b -> (n <= m)%nat -> firstn n a = firstn n b.
Proof.
  intros H Hn. rewrite <- (Nat.min_l n m Hn), <- !firstn_firstn, H. reflexivity.
Qed.

Lemma small_add_from_unfold c v y start :
  small_add_from c v y start =
  let n := Z.to_nat start in
  let r := add_carry (skipn n (vl v)) y in
  let v' := vset_list v (firstn n (vl v) ++ fst r) in
  if negb (snd r =? 0) then try_push (alloc c) v' (snd r) else Some v'.
Proof.
  unfold small_add_from. cbv zeta. destruct (add_carry _ y) as [suf carry]. reflexivity.
Qed.

(** the in-place part of `small_add_from`: the updated limbs and the carry out of the top *)
Lemma small_add_from_core v y start :
  limbs_ok (vl v) -> 0 <= y < B64 -> 0 <= start <= zlen (vl v) ->
  let n := Z.to_nat start in
  let r := add_carry (skipn n (vl v)) y in
  let l1 := firstn n (vl v) ++ fst r in
  lval l1 + B64 ^ zlen (vl v) * snd r = lval (vl v) + y * B64 ^ start /\
  limbs_ok l1 /\ length l1 = length (vl v) /\ 0 <= snd r < B64 /\
  firstn n l1 = firstn n (vl v) /\
  lval (vl v) + y * B64 ^ start < B64 * B64 ^ zlen (vl v).
Proof.
  intros Hl Hy Hs n r l1.
  assert (Hn : (n <= length (vl v))%nat) by (unfold zlen in Hs; lia).
  pose proof (add_carry_spec (skipn n (vl v)) y (limbs_ok_skipn n _ Hl) Hy) as S.
  fold r in S. destruct r as [suf carry] eqn:Er. cbn [fst snd] in *.
  destruct S as [E [O [Len [Bc _]]]].
  assert (Lpre : zlen (firstn n (vl v)) = start) by (rewrite zlen_firstn by lia; lia).
  assert (Lsuf : zlen (skipn n (vl v)) = zlen (vl v) - start) by (rewrite zlen_skipn; lia).
  rewrite Lsuf in E.
  assert (Ep : B64 ^ zlen (vl v) = B64 ^ start * B64 ^ (zlen (vl v) - start)).
  { rewrite <- Z.pow_add_r by lia. f_equal. lia. }
  assert (Ev : lval l1 + B64 ^ zlen (vl v) * carry = lval (vl v) + y * B64 ^ start).
  { unfold l1. rewrite lval_app, Lpre. rewrite (lval_split n (vl v)) at 1. rewrite Lpre, Ep.
    replace (lval (firstn n (vl v)) + B64 ^ start * lval suf + B64 ^ start * B64 ^ (zlen (vl v) - start) * carry)
      with (lval (firstn n (vl v)) + B64 ^ start * (lval suf + B64 ^ (zlen (vl v) - start) * carry)) by ring.
    rewrite E. ring. }
  assert (Ol : limbs_ok l1) by (apply limbs_ok_app; split; [apply limbs_ok_firstn; exact Hl|exact O]).
  assert (Ll : length l1 = length (vl v)).
  { unfold l1. rewrite app_length, Len, <- app_length, firstn_skipn. reflexivity. }
  repeat split; try assumption; try lia.
  - unfold l1. apply firstn_app_exact. apply firstn_length_le. exact Hn.
  - pose proof (lval_bound _ Hl). pose proof (B64pow_pos' start ltac:(lia)).
    pose proof (B64pow_mono start (zlen (vl v)) ltac:(lia)). nia.
Qed.

Theorem small_add_from_spec c v y start v' :
  limbs_ok (vl v) -> 0 <= y < B64 -> 0 <= start <= zlen (vl v) ->
  small_add_from c v y start = Some v' ->
  lval (vl v') = lval (vl v) + y * B64 ^ start /\
  limbs_ok (vl v') /\
  firstn (Z.to_nat start) (vl v') = firstn (Z.to_nat start) (vl v) /\
  zlen (vl v') = zlen (vl v) + (if B64 ^ zlen (vl v) <=? lval (vl v) + y * B64 ^ start then 1 else 0) /\
  (alloc c = false -> vcap v' = vcap v) /\
  (zlen (vl v') = zlen (vl v) -> vcap v' = vcap v) /\
  vcap v <= vcap v' /\
  (zlen (vl v) <= vcap v -> zlen (vl v') <= vcap v').
Proof.
  intros Hl Hy Hs. rewrite small_add_from_unfold. cbv zeta.
  pose proof (small_add_from_core v y start Hl Hy Hs) as C. cbv zeta in C.
  set (n := Z.to_nat start) in *. set (r := add_carry (skipn n (vl v)) y) in *.
  set (l1 := firstn n (vl v) ++ fst r) in *.
  destruct C as [E [O [Len [Bc [Fst Bnd]]]]].
  assert (Zl : zlen l1 = zlen (vl v)) by (unfold zlen; lia).
  pose proof (lval_nonneg _ O) as Nn. pose proof (lval_bound _ O) as Bd. rewrite Zl in Bd.
  pose proof (B64pow_pos' (zlen (vl v)) (zlen_nonneg _)) as Pp.
  destruct (snd r =? 0) eqn:Ec; cbn [negb].
  - assert (Ez : snd r = 0) by lia. rewrite Ez in E.
    intros H. inversion H; subst v'; clear H. unfold vset_list. cbn [vl vcap].
    replace (B64 ^ zlen (vl v) <=? lval (vl v) + y * B64 ^ start) with false by lia.
    repeat split; try assumption; try lia.
  - intros H. apply try_push_Some in H. unfold vset_list in H. cbn [vl vcap] in H.
    destruct H as [Hv [Hst [Hcap Hinv]]]. rewrite Hv in Hinv |- *.
    rewrite lval_snoc, limbs_ok_app, zlen_app, Zl in *. change (zlen [snd r]) with 1 in *.
    assert (B64 ^ zlen (vl v) <= lval (vl v) + y * B64 ^ start) by nia.
    replace (B64 ^ zlen (vl v) <=? lval (vl v) + y * B64 ^ start) with true by lia.
    split; [lia|]. split; [split; [exact O|apply limbs_ok_cons; split; [lia|constructor]]|].
    split; [rewrite firstn_app; replace (n - length l1)%nat with 0%nat by (unfold zlen in Hs; lia);
            cbn [firstn]; rewrite app_nil_r; exact Fst|].
    split; [reflexivity|]. split; [intros Hh; apply Hst; exact Hh|]. split; [lia|]. split; [lia|exact Hinv].
Qed.

(** failure: only the stack back-end fails, exactly when the vector is full and a carry leaves
    the top limb *)
Theorem small_add_from_None c v y start :
  limbs_ok (vl v) -> 0 <= y < B64 -> 0 <= start <= zlen (vl v) ->
  (small_add_from c v y start = None <->
   alloc c = false /\ vcap v <= zlen (vl v) /\ B64 ^ zlen (vl v) <= lval (vl v) + y * B64 ^ start).
Proof.
  intros Hl Hy Hs. rewrite small_add_from_unfold. cbv zeta.
  pose proof (small_add_from_core v y start Hl Hy Hs) as C. cbv zeta in C.
  set (n := Z.to_nat start) in *. set (r := add_carry (skipn n (vl v)) y) in *.
  set (l1 := firstn n (vl v) ++ fst r) in *.
  destruct C as [E [O [Len [Bc [Fst Bnd]]]]].
  assert (Zl : zlen l1 = zlen (vl v)) by (unfold zlen; lia).
  pose proof (lval_nonneg _ O) as Nn. pose proof (lval_bound _ O) as Bd. rewrite Zl in Bd.
  pose proof (B64pow_pos' (zlen (vl v)) (zlen_nonneg _)) as Pp.
  destruct (snd r =? 0) eqn:Ec; cbn [negb].
  - assert (Ez : snd r = 0) by lia. rewrite Ez in E. split; [discriminate|]. intros [_ [_ H]]. lia.
  - rewrite try_push_None. unfold vset_list. cbn [vl vcap]. rewrite Zl.
    assert (B64 ^ zlen (vl v) <= lval (vl v) + y * B64 ^ start) by nia. tauto.
Qed.

(** for a vector within its capacity: failure iff the exact sum does not fit in the capacity *)
Corollary small_add_from_None_iff_overflow c v y start :
  limbs_ok (vl v) -> 0 <= y < B64 -> 0 <= start <= zlen (vl v) ->
  alloc c = false -> zlen (vl v) <= vcap v ->
  (small_add_from c v y start = None <-> B64 ^ vcap v <= lval (vl v) + y * B64 ^ start).
Proof.
  intros Hl Hy Hs Ha Hc. rewrite small_add_from_None by assumption.
  pose proof (small_add_from_core v y start Hl Hy Hs) as C. cbv zeta in C.
  destruct C as [_ [_ [_ [_ [_ Bnd]]]]].
  split.
  - intros [_ [H1 H2]]. replace (vcap v) with (zlen (vl v)) by lia. exact H2.
  - intros H. split; [exact Ha|].
    destruct (Z_lt_le_dec (zlen (vl v)) (vcap v)) as [Lt|Ge].
    + pose proof (B64pow_lt (zlen (vl v)) (vcap v) ltac:(pose proof (zlen_nonneg (vl v)); lia)). lia.
    + split; [lia|]. replace (zlen (vl v)) with (vcap v) by lia. exact H.
Qed.

Corollary small_add_from_heap c v y start :
  limbs_ok (vl v) -> 0 <= y < B64 -> 0 <= start <= zlen (vl v) ->
  alloc c = true -> small_add_from c v y start <> None.
Proof.
  intros Hl Hy Hs Ha H. apply small_add_from_None in H; try assumption. destruct H as [H _]. congruence.
Qed.

(** a shorter-than-capacity vector never fails *)
Corollary small_add_from_short c v y start :
  limbs_ok (vl v) -> 0 <= y < B64 -> 0 <= start <= zlen (vl v) ->
  zlen (vl v) < vcap v -> small_add_from c v y start <> None.
Proof.
  intros Hl Hy Hs Ha H. apply small_add_from_None in H; try assumption. lia.
Qed.

(** [small_add] *)
Theorem small_add_spec c v y v' :
  limbs_ok (vl v) -> 0 <= y < B64 ->
  small_add c v y = Some v' ->
  lval (vl v') = lval (vl v) + y /\
  limbs_ok (vl v') /\
  zlen (vl v') = zlen (vl v) + (if B64 ^ zlen (vl v) <=? lval (vl v) + y then 1 else 0) /\
  (alloc c = false -> vcap v' = vcap v) /\
  (zlen (vl v') = zlen (vl v) -> vcap v' = vcap v) /\
  vcap v <= vcap v' /\
  (zlen (vl v) <= vcap v -> zlen (vl v') <= vcap v').
Proof.
  intros Hl Hy H. unfold small_add in H.
  apply small_add_from_spec in H; try assumption; [|pose proof (zlen_nonneg (vl v)); lia].
  rewrite Z.pow_0_r, Z.mul_1_r in H. tauto.
Qed.

Theorem small_add_None c v y :
  limbs_ok (vl v) -> 0 <= y < B64 ->
  (small_add c v y = None <->
   alloc c = false /\ vcap v <= zlen (vl v) /\ B64 ^ zlen (vl v) <= lval (vl v) + y).
Proof.
  intros Hl Hy. unfold small_add.
  rewrite small_add_from_None by (try assumption; pose proof (zlen_nonneg (vl v)); lia).
  rewrite Z.pow_0_r, Z.mul_1_r. tauto.
Qed.

Corollary small_add_None_iff_overflow c v y :
  limbs_ok (vl v) -> 0 <= y < B64 -> alloc c = false -> zlen (vl v) <= vcap v ->
  (small_add c v y = None <-> B64 ^ vcap v <= lval (vl v) + y).
Proof.
  intros Hl Hy Ha Hc. unfold small_add.
  rewrite small_add_from_None_iff_overflow by (try assumption; pose proof (zlen_nonneg (vl v)); lia).
  rewrite Z.pow_0_r, Z.mul_1_r. tauto.
Qed.

(** the state left behind by a failed `small_add`: the sum modulo B64^len *)
Theorem small_add_failed_spec v y :
  limbs_ok (vl v) -> 0 <= y < B64 ->
  lval (vl (small_add_failed v y)) = (lval (vl v) + y) mod B64 ^ zlen (vl v) /\
  limbs_ok (vl (small_add_failed v y)) /\
  length (vl (small_add_failed v y)) = length (vl v) /\
  vcap (small_add_failed v y) = vcap v.
Proof.
  intros Hl Hy. unfold small_add_failed, vset_list. cbn [vl vcap].
  pose proof (add_carry_divmod (vl v) y Hl Hy) as [D _].
  pose proof (add_carry_spec (vl v) y Hl Hy) as S.
  destruct (add_carry (vl v) y) as [l' c']. cbn [fst] in *. tauto.
Qed.

(** [small_mul] *)
Lemma small_mul_unfold c v y :
  small_mul c v y =
  let r := mul_carry (vl v) y 0 in
  let v' := vset_list v (fst r) in
  if negb (snd r =? 0) then try_push (alloc c) v' (snd r) else Some v'.
Proof.
  unfold small_mul. cbv zeta. destruct (mul_carry _ y 0) as [l carry]. reflexivity.
Qed.

Lemma small_mul_core l y :
  limbs_ok l -> 0 <= y < B64 ->
  let r := mul_carry l y 0 in
  lval (fst r) + B64 ^ zlen l * snd r = lval l * y /\
  limbs_ok (fst r) /\ length (fst r) = length l /\ 0 <= snd r < B64 /\
  lval l * y < B64 * B64 ^ zlen l.
Proof.
  intros Hl Hy r. pose proof (mul_carry_spec l y 0 Hl Hy ltac:(split; [lia|reflexivity])) as S.
  fold r in S. destruct r as [l' c']. cbn [fst snd]. rewrite Z.add_0_r in S.
  destruct S as [E [O [Len Bc]]]. repeat split; try assumption; try lia.
  pose proof (lval_bound _ Hl). pose proof (lval_nonneg _ Hl). nia.
Qed.

Theorem small_mul_spec c v y v' :
  limbs_ok (vl v) -> 0 <= y < B64 ->
  small_mul c v y = Some v' ->
  lval (vl v') = lval (vl v) * y /\
  limbs_ok (vl v') /\
  zlen (vl v') = zlen (vl v) + (if B64 ^ zlen (vl v) <=? lval (vl v) * y then 1 else 0) /\
  (alloc c = false -> vcap v' = vcap v) /\
  (zlen (vl v') = zlen (vl v) -> vcap v' = vcap v) /\
  vcap v <= vcap v' /\
  (zlen (vl v) <= vcap v -> zlen (vl v') <= vcap v').
Proof.
  intros Hl Hy. rewrite small_mul_unfold. cbv zeta.
  pose proof (small_mul_core (vl v) y Hl Hy) as C. cbv zeta in C.
  set (r := mul_carry (vl v) y 0) in *.
  destruct C as [E [O [Len [Bc Bnd]]]].
  assert (Zl : zlen (fst r) = zlen (vl v)) by (unfold zlen; lia).
  pose proof (lval_nonneg _ O) as Nn. pose proof (lval_bound _ O) as Bd. rewrite Zl in Bd.
  pose proof (B64pow_pos' (zlen (vl v)) (zlen_nonneg _)) as Pp.
  destruct (snd r =? 0) eqn:Ec; cbn [negb].
  - assert (Ez : snd r = 0) by lia. rewrite Ez in E.
    intros H. inversion H; subst v'; clear H. unfold vset_list. cbn [vl vcap].
    replace (B64 ^ zlen (vl v) <=? lval (vl v) * y) with false by lia.
    repeat split; try assumption; try lia.
  - intros H. apply try_push_Some in H. unfold vset_list in H. cbn [vl vcap] in H.
    destruct H as [Hv [Hst [Hcap Hinv]]]. rewrite Hv in Hinv |- *.
    rewrite lval_snoc, limbs_ok_app, zlen_app, Zl in *. change (zlen [snd r]) with 1 in *.
    assert (B64 ^ zlen (vl v) <= lval (vl v) * y) by nia.
    replace (B64 ^ zlen (vl v) <=? lval (vl v) * y) with true by lia.
    split; [lia|]. split; [split; [exact O|apply limbs_ok_cons; split; [lia|constructor]]|].
    split; [reflexivity|]. split; [intros Hh; apply Hst; exact Hh|]. split; [lia|]. split; [lia|exact Hinv].
Qed.

Theorem small_mul_None c v y :
  limbs_ok (vl v) -> 0 <= y < B64 ->
  (small_mul c v y = None <->
   alloc c = false /\ vcap v <= zlen (vl v) /\ B64 ^ zlen (vl v) <= lval (vl v) * y).
Proof.
  intros Hl Hy. rewrite small_mul_unfold. cbv zeta.
  pose proof (small_mul_core (vl v) y Hl Hy) as C. cbv zeta in C.
  set (r := mul_carry (vl v) y 0) in *.
  destruct C as [E [O [Len [Bc Bnd]]]].
  assert (Zl : zlen (fst r) = zlen (vl v)) by (unfold zlen; lia).
  pose proof (lval_nonneg _ O) as Nn. pose proof (lval_bound _ O) as Bd. rewrite Zl in Bd.
  pose proof (B64pow_pos' (zlen (vl v)) (zlen_nonneg _)) as Pp.
  destruct (snd r =? 0) eqn:Ec; cbn [negb].
  - assert (Ez : snd r = 0) by lia. rewrite Ez in E. split; [discriminate|]. intros [_ [_ H]]. lia.
  - rewrite try_push_None. unfold vset_list. cbn [vl vcap]. rewrite Zl.
    assert (B64 ^ zlen (vl v) <= lval (vl v) * y) by nia. tauto.
Qed.

Corollary small_mul_None_iff_overflow c v y :
  limbs_ok (vl v) -> 0 <= y < B64 -> alloc c = false -> zlen (vl v) <= vcap v ->
  (small_mul c v y = None <-> B64 ^ vcap v <= lval (vl v) * y).
Proof.
  intros Hl Hy Ha Hc. rewrite small_mul_None by assumption.
  pose proof (small_mul_core (vl v) y Hl Hy) as C. cbv zeta in C.
  destruct C as [_ [_ [_ [_ Bnd]]]].
  split.
  - intros [_ [H1 H2]]. replace (vcap v) with (zlen (vl v)) by lia. exact H2.
  - intros H. split; [exact Ha|].
    destruct (Z_lt_le_dec (zlen (vl v)) (vcap v)) as [Lt|Ge].
    + pose proof (B64pow_lt (zlen (vl v)) (vcap v) ltac:(pose proof (zlen_nonneg (vl v)); lia)). lia.
    + split; [lia|]. replace (zlen (vl v)) with (vcap v) by lia. exact H.
Qed.

Corollary small_mul_heap c v y :
  limbs_ok (vl v) -> 0 <= y < B64 -> alloc c = true -> small_mul c v y <> None.
Proof.
  intros Hl Hy Ha H. apply small_mul_None in H; try assumption. destruct H as [H _]. congruence.
Qed.

Corollary small_mul_short c v y :
  limbs_ok (vl v) -> 0 <= y < B64 -> zlen (vl v) < vcap v -> small_mul c v y <> None.
Proof.
  intros Hl Hy Ha H. apply small_mul_None in H; try assumption. lia.
Qed.

Theorem small_mul_failed_spec v y :
  limbs_ok (vl v) -> 0 <= y < B64 ->
  lval (vl (small_mul_failed v y)) = (lval (vl v) * y) mod B64 ^ zlen (vl v) /\
  limbs_ok (vl (small_mul_failed v y)) /\
  length (vl (small_mul_failed v y)) = length (vl v) /\
  vcap (small_mul_failed v y) = vcap v.
Proof.
  intros Hl Hy. unfold small_mul_failed, vset_list. cbn [vl vcap].
  pose proof (mul_carry_divmod (vl v) y 0 Hl Hy ltac:(split; [lia|reflexivity])) as [D _].
  rewrite Z.add_0_r in D.
  pose proof (mul_carry_spec (vl v) y 0 Hl Hy ltac:(split; [lia|reflexivity])) as S.
  destruct (mul_carry (vl v) y 0) as [l' c']. cbn [fst] in *. tauto.
Qed.

(** the same in terms of the carry that leaves the top limb *)
Lemma ge_iff_div_nonzero a M : 0 <= a -> 0 < M -> (M <= a <-> a / M <> 0).
Proof.
  intros Ha HM. rewrite Z.div_small_iff by lia. lia.
Qed.

Corollary small_add_None_carry c v y :
  limbs_ok (vl v) -> 0 <= y < B64 ->
  (small_add c v y = None <->
   alloc c = false /\ vcap v <= zlen (vl v) /\ snd (add_carry (vl v) y) <> 0).
Proof.
  intros Hl Hy. rewrite small_add_None by assumption.
  destruct (add_carry_divmod (vl v) y Hl Hy) as [_ D]. rewrite D.
  pose proof (lval_nonneg _ Hl).
  rewrite <- ge_iff_div_nonzero by (try lia; apply B64pow_pos', zlen_nonneg). tauto.
Qed.

Corollary small_mul_None_carry c v y :
  limbs_ok (vl v) -> 0 <= y < B64 ->
  (small_mul c v y = None <->
   alloc c = false /\ vcap v <= zlen (vl v) /\ snd (mul_carry (vl v) y 0) <> 0).
Proof.
  intros Hl Hy. rewrite small_mul_None by assumption.
  destruct (mul_carry_divmod (vl v) y 0 Hl Hy ltac:(split; [lia|reflexivity])) as [_ D].
  rewrite D, Z.add_0_r.
  pose proof (lval_nonneg _ Hl).
  rewrite <- ge_iff_div_nonzero by (try nia; apply B64pow_pos', zlen_nonneg). tauto.
Qed.

(** examples: stack back-end (CFG_s), capacity 62 *)
Definition full_ones : vec := mkVec (repeat (B64 - 1) 62) (BIGINT_LIMBS LIMITS).

Example small_add_full_fails :
  alloc CFG_s = false /\ zlen (vl full_ones) = vcap full_ones /\
  small_add CFG_s full_ones 1 = None /\
  vl (small_add_failed full_ones 1) = repeat 0 62 /\
  small_mul CFG_s full_ones 2 = None /\
  vl (small_mul_failed full_ones 2) = (B64 - 2) :: repeat (B64 - 1) 61 /\
  (* the heap back-end grows instead *)
  option_map (fun v => (zlen (vl v), vcap v)) (small_add CFG_sa full_ones 1) = Some (63, 124).
Proof. vm_compute. repeat split; reflexivity. Qed.

Example small_ops_ex :
  small_add CFG_s (mkVec [B64 - 1; B64 - 1] 62) 1 = Some (mkVec [0; 0; 1] 62) /\
  small_add_from CFG_s (mkVec [7; B64 - 1; 3] 62) 5 1 = Some (mkVec [7; 4; 4] 62) /\
  small_mul CFG_s (mkVec [B64 - 1; B64 - 1] 62) (B64 - 1) = Some (mkVec [1; B64 - 1; B64 - 2] 62) /\
  (* a full vector fails only if a carry leaves the top *)
  small_mul CFG_s (mkVec [B64 - 1; 1] 2) 2 = Some (mkVec [B64 - 2; 3] 2) /\
  small_mul CFG_s (mkVec [B64 - 1; 1] 2) (B64 - 1) = None.
Proof. vm_compute. repeat split; reflexivity. Qed.

(** ** 4. large_add_from / large_add *)
Theorem add_lists_spec : forall y x carry,
  limbs_ok x -> limbs_ok y -> (length y <= length x)%nat ->
  let '(x', cf) := add_lists x y carry in
  lval x' + B64 ^ zlen y * b2z cf = lval x + lval y + b2z carry /\
  limbs_ok x' /\ length x' = length x /\ skipn (length y) x' = skipn (length y) x.
Proof.
  induction y as [|yi y IH]; intros x carry Hx Hy Hlen.
  - destruct x; cbn [add_lists]; rewrite (@zlen_nil Z), Z.pow_0_r; cbn [lval length skipn]; repeat split; try assumption; try reflexivity; lia.
  - destruct x as [|xi x]; [cbn [length] in Hlen; lia|]. cbn [add_lists].
    apply limbs_ok_cons in Hx. destruct Hx as [Hxi Hx].
    apply limbs_ok_cons in Hy. destruct Hy as [Hyi Hy].
    cbn [length] in Hlen.
    pose proof (scalar_add_spec xi yi Hxi Hyi) as S1.
    destruct (scalar_add xi yi) as [s c1]. destruct S1 as [Hs [E1 I1]].
    assert (S2 : let '(s', c2) := (if carry then scalar_add s 1 else (s, false)) in
                 0 <= s' < B64 /\ s' + B64 * b2z (c1 || c2) = xi + yi + b2z carry).
    { destruct carry; cbn [b2z].
      - pose proof (scalar_add_spec s 1 Hs ltac:(split; [lia|reflexivity])) as S2.
        destruct (scalar_add s 1) as [s' c2]. destruct S2 as [Hs' [E2 I2]].
        split; [exact Hs'|]. destruct c1, c2; cbn [orb b2z] in *; lia.
      - split; [exact Hs|]. rewrite orb_false_r. lia. }
    destruct (if carry then scalar_add s 1 else (s, false)) as [s' c2].
    destruct S2 as [Hs' E2].
    specialize (IH x (c1 || c2) Hx Hy ltac:(lia)).
    destruct (add_lists x y (c1 || c2)) as [r cf]. destruct IH as [E [O [Len Sk]]].
    rewrite zlen_cons, B64pow_succ by apply zlen_nonneg. cbn [lval length skipn].
    split; [|split; [apply limbs_ok_cons; auto|split; [lia|exact Sk]]].
    replace (s' + B64 * lval r + B64 * B64 ^ zlen y * b2z cf)
      with (s' + B64 * (lval r + B64 ^ zlen y * b2z cf)) by ring.
    rewrite E. lia.
Qed.

Lemma add_lists_nil x carry : add_lists x [] carry = (x, carry).
Proof. destruct x; reflexivity. Qed.

Example add_lists_ex :
  add_lists [B64 - 1; B64 - 1; 4; 9] [1; B64 - 1] false = ([0; B64 - 1; 4; 9], true) /\
  add_lists [B64 - 1; 0; 4] [B64 - 1; B64 - 1] true = ([B64 - 1; 0; 4], true).
Proof. vm_compute. auto. Qed.

(** length of the vector after the (possible) resize of `large_add_from` *)
Definition large_add_len (v : vec) (y : list Z) (start : Z) : Z :=
  if usize_saturating_sub (zlen (vl v)) start <? zlen y then zlen y + start else zlen (vl v).

Lemma large_add_len_nonempty v y start :
  y <> [] -> 0 <= start -> large_add_len v y start = Z.max (zlen (vl v)) (zlen y + start).
Proof.
  intros Hy Hs. unfold large_add_len, usize_saturating_sub.
  assert (0 < zlen y) by (destruct y; [congruence|rewrite zlen_cons; pose proof (zlen_nonneg y); lia]).
  destruct (_ <? _) eqn:E; lia.
Qed.

Lemma large_add_len_empty v start : large_add_len v [] start = zlen (vl v).
Proof. unfold large_add_len, usize_saturating_sub. rewrite (@zlen_nil Z). destruct (_ <? _) eqn:E; lia. Qed.

Lemma large_add_len_ge v y start : zlen (vl v) <= large_add_len v y start.
Proof. unfold large_add_len, usize_saturating_sub. destruct (_ <? _) eqn:E; lia. Qed.

Lemma resize_list_grow l len x : zlen l <= len -> resize_list l len x = l ++ repeat x (Z.to_nat (len - zlen l)).
Proof.
  intros H. unfold resize_list. destruct (zlen l <? len) eqn:E; [reflexivity|].
  assert (len = zlen l) by lia. subst len. rewrite Z.sub_diag. cbn [Z.to_nat repeat].
  unfold zlen. rewrite Nat2Z.id, firstn_all, app_nil_r. reflexivity.
Qed.

Lemma large_add_prep_Some h v y start v1 :
  0 <= start ->
  (if usize_saturating_sub (vlen v) start <? zlen y then try_resize h v (zlen y + start) 0 else Some v) = Some v1 ->
  (exists k, vl v1 = vl v ++ repeat 0 k) /\
  zlen (vl v1) = large_add_len v y start /\
  zlen y <= zlen (skipn (Z.to_nat start) (vl v1)) /\
  (h = false -> vcap v1 = vcap v) /\ vcap v <= vcap v1 /\
  (zlen (vl v1) = zlen (vl v) -> vcap v1 = vcap v) /\
  (zlen (vl v) <= vcap v -> zlen (vl v1) <= vcap v1).
Proof.
  intros Hs. unfold large_add_len, vlen, usize_saturating_sub.
  pose proof (zlen_nonneg (vl v)) as Hl. pose proof (zlen_nonneg y) as Hy.
  destruct (Z.max 0 (zlen (vl v) - start) <? zlen y) eqn:E.
  - unfold try_resize, vlen. rewrite resize_list_grow by lia.
    set (k := Z.to_nat (zlen y + start - zlen (vl v))).
    assert (Hk : Z.of_nat k = zlen y + start - zlen (vl v)) by lia.
    assert (forall cap, let w := mkVec (vl v ++ repeat 0 k) cap in
            (exists k, vl w = vl v ++ repeat 0 k) /\ zlen (vl w) = zlen y + start /\
            zlen y <= zlen (skipn (Z.to_nat start) (vl w))) as P.
    { intros cap w. unfold w. cbn [vl]. split; [exists k; reflexivity|].
      assert (zlen (vl v ++ repeat 0 k) = zlen y + start) by (rewrite zlen_app, zlen_repeat; lia).
      split; [assumption|]. rewrite zlen_skipn. unfold zlen in *. lia. }
    destruct h.
    + intros H. inversion H; subst v1; clear H. specialize (P (if (zlen (vl v) <? zlen y + start) && (vcap v - zlen (vl v) <? zlen y + start - zlen (vl v))
             then grow (vcap v) (zlen y + start) else vcap v)). cbv zeta in P.
      destruct P as [P1 [P2 P3]]. split; [exact P1|]. split; [exact P2|]. split; [exact P3|].
      cbn [vcap] in *. pose proof (grow_ge (vcap v) (zlen y + start)).
      split; [discriminate|]. rewrite P2.
      destruct ((zlen (vl v) <? zlen y + start) && (vcap v - zlen (vl v) <? zlen y + start - zlen (vl v))) eqn:E2; lia.
    + destruct (vcap v <? zlen y + start) eqn:E2; [discriminate|].
      intros H. inversion H; subst v1; clear H. specialize (P (vcap v)). cbv zeta in P.
      destruct P as [P1 [P2 P3]]. split; [exact P1|]. split; [exact P2|]. split; [exact P3|].
      cbn [vcap] in *. rewrite P2. repeat split; lia.
  - intros H. inversion H; subst v1; clear H.
    split; [exists 0%nat; cbn [repeat]; rewrite app_nil_r; reflexivity|]. split; [reflexivity|].
    split; [rewrite zlen_skipn; unfold zlen in *; lia|]. repeat split; lia.
Qed.

Lemma large_add_prep_None h v (y : list Z) start :
  0 <= start ->
  ((if usize_saturating_sub (vlen v) start <? zlen y then try_resize h v (zlen y + start) 0 else Some v) = None <->
   h = false /\ zlen (vl v) < zlen y + start /\ y <> [] /\ vcap v < zlen y + start).
Proof.
  intros Hs. unfold vlen, usize_saturating_sub.
  pose proof (zlen_nonneg (vl v)) as Hl. pose proof (zlen_nonneg y) as Hy.
  destruct (Z.max 0 (zlen (vl v) - start) <? zlen y) eqn:E.
  - unfold try_resize. destruct h.
    + split; [discriminate|intros [H _]; discriminate].
    + destruct (vcap v <? zlen y + start) eqn:E2.
      * split; [intros _|reflexivity]. repeat split; try lia. intros ->. rewrite (@zlen_nil Z) in E. lia.
      * split; [discriminate|]. lia.
  - split; [discriminate|]. intros [_ [H1 [H2 _]]].
    assert (0 < zlen y) by (destruct y; [congruence|rewrite zlen_cons; pose proof (zlen_nonneg y); lia]). lia.
Qed.

Lemma large_add_from_unfold c v y start :
  large_add_from c v y start =
  match (if usize_saturating_sub (vlen v) start <? zlen y
         then try_resize (alloc c) v (zlen y + start) 0 else Some v) with
  | None => None
  | Some v1 =>
      let n := Z.to_nat start in
      let r := add_lists (skipn n (vl v1)) y false in
      let v2 := vset_list v1 (firstn n (vl v1) ++ fst r) in
      if snd r then small_add_from c v2 1 (zlen y + start) else Some v2
  end.
Proof.
  unfold large_add_from. cbv zeta. destruct (if _ <? _ then _ else _) as [v1|]; [|reflexivity].
  destruct (add_lists _ y false) as [suf carry]. reflexivity.
Qed.

(** the loop of `large_add_from` on the resized vector *)
Lemma large_add_core l1 y start :
  limbs_ok l1 -> limbs_ok y -> 0 <= start ->
  zlen y <= zlen (skipn (Z.to_nat start) l1) ->
  let n := Z.to_nat start in
  let r := add_lists (skipn n l1) y false in
  let l2 := firstn n l1 ++ fst r in
  lval l2 + B64 ^ (zlen y + start) * b2z (snd r) = lval l1 + lval y * B64 ^ start /\
  limbs_ok l2 /\ length l2 = length l1 /\ firstn n l2 = firstn n l1 /\
  (y <> [] -> zlen y + start <= zlen l1).
Proof.
  intros Hl Hy Hs Hlen n r l2.
  pose proof (add_lists_spec y (skipn n l1) false (limbs_ok_skipn n _ Hl) Hy
                ltac:(unfold zlen in Hlen; unfold n; lia)) as S.
  fold r in S. destruct r as [suf cf] eqn:Er. cbn [fst snd] in *.
  destruct S as [E [O [Len Sk]]]. cbn [b2z] in E. rewrite Z.add_0_r in E.
  assert (Ol : limbs_ok l2) by (apply limbs_ok_app; split; [apply limbs_ok_firstn; exact Hl|exact O]).
  assert (Ll : length l2 = length l1).
  { unfold l2. rewrite app_length, Len, <- app_length, firstn_skipn. reflexivity. }
  assert (Fl : firstn n l2 = firstn n l1).
  { unfold l2. destruct (Nat.le_gt_cases n (length l1)) as [Hn|Hn].
    - apply firstn_app_exact. apply firstn_length_le. exact Hn.
    - assert (suf = []) as ->.
      { apply length_zero_iff_nil. rewrite Len, skipn_length. lia. }
      rewrite app_nil_r, firstn_firstn, Nat.min_id.
      reflexivity. }
  destruct y as [|y0 y'].
  - (* nothing is added *)
    unfold r in Er. rewrite add_lists_nil in Er. injection Er as <- <-. cbn [b2z lval].
    unfold l2. rewrite firstn_skipn. repeat split; try assumption; try lia. congruence.
  - assert (Hst : zlen (y0 :: y') + start <= zlen l1).
    { rewrite zlen_skipn in Hlen. rewrite zlen_cons in *. pose proof (zlen_nonneg y'). unfold zlen in *. lia. }
    assert (Lpre : zlen (firstn n l1) = start) by (rewrite zlen_firstn by (unfold zlen in Hst; pose proof (zlen_nonneg (y0 :: y')); unfold zlen in *; lia); lia).
    split; [|repeat split; try assumption; try lia].
    unfold l2. rewrite lval_app, Lpre. rewrite (lval_split n l1) at 1. rewrite Lpre.
    rewrite Z.pow_add_r by (try lia; apply zlen_nonneg).
    replace (lval (firstn n l1) + B64 ^ start * lval suf + B64 ^ zlen (y0 :: y') * B64 ^ start * b2z cf)
      with (lval (firstn n l1) + B64 ^ start * (lval suf + B64 ^ zlen (y0 :: y') * b2z cf)) by ring.
    rewrite E. ring.
Qed.

Theorem large_add_from_spec c v y start v' :
  limbs_ok (vl v) -> limbs_ok y -> 0 <= start ->
  large_add_from c v y start = Some v' ->
  let M := large_add_len v y start in
  lval (vl v') = lval (vl v) + lval y * B64 ^ start /\
  limbs_ok (vl v') /\
  (start <= zlen (vl v) -> firstn (Z.to_nat start) (vl v') = firstn (Z.to_nat start) (vl v)) /\
  zlen (vl v') = M + (if B64 ^ M <=? lval (vl v) + lval y * B64 ^ start then 1 else 0) /\
  (alloc c = false -> vcap v' = vcap v) /\
  (zlen (vl v') = zlen (vl v) -> vcap v' = vcap v) /\
  vcap v <= vcap v' /\
  (zlen (vl v) <= vcap v -> zlen (vl v') <= vcap v').
Proof.
  intros Hl Hy Hs. rewrite large_add_from_unfold.
  destruct (if usize_saturating_sub (vlen v) start <? zlen y then _ else _) as [v1|] eqn:Ep; [|discriminate].
  apply large_add_prep_Some in Ep; [|exact Hs].
  destruct Ep as [[k Ek] [EM [Hlen [Hst [Hcap [Hcap2 Hinv]]]]]].
  assert (Ol1 : limbs_ok (vl v1)) by (rewrite Ek; apply limbs_ok_app; split; [exact Hl|apply limbs_ok_repeat0]).
  assert (Ev1 : lval (vl v1) = lval (vl v)) by (rewrite Ek, lval_app, lval_repeat0; ring).
  pose proof (large_add_core (vl v1) y start Ol1 Hy Hs Hlen) as C. cbv zeta in C |- *.
  set (n := Z.to_nat start) in *. set (r := add_lists (skipn n (vl v1)) y false) in *.
  set (l2 := firstn n (vl v1) ++ fst r) in *.
  destruct C as [E [O [Len [Fst Hys]]]].
  assert (Zl : zlen l2 = large_add_len v y start) by (rewrite <- EM; unfold zlen; lia).
  rewrite Ev1 in E. set (M := large_add_len v y start) in *.
  pose proof (lval_nonneg _ O) as Nn. pose proof (lval_bound _ O) as Bd. rewrite Zl in Bd.
  assert (Fst' : start <= zlen (vl v) -> firstn n l2 = firstn n (vl v)).
  { intros Hle. rewrite Fst, Ek. rewrite firstn_app.
    replace (n - length (vl v))%nat with 0%nat by (unfold zlen in Hle; lia). cbn [firstn]. apply app_nil_r. }
  destruct (snd r) eqn:Ec.
  - (* carry out of the loop *)
    cbn [b2z] in E. intros H.
    assert (Hy0 : y <> []).
    { intros ->. unfold r in Ec. rewrite add_lists_nil in Ec. discriminate. }
    specialize (Hys Hy0).
    apply small_add_from_spec in H; unfold vset_list; cbn [vl vcap];
      [|exact O|split; [lia|reflexivity]|pose proof (zlen_nonneg y); rewrite Zl, <- EM; lia].
    unfold vset_list in H. cbn [vl vcap] in H. rewrite Zl in H.
    destruct H as [Hv [Ov [Hf [Hz [Hc1 [Hc2 [Hc3 Hc4]]]]]]].
    assert (Ex : lval l2 + 1 * B64 ^ (zlen y + start) = lval (vl v) + lval y * B64 ^ start) by lia.
    rewrite Ex in *.
    split; [exact Hv|]. split; [exact Ov|].
    split.
    { intros Hle. rewrite <- (Fst' Hle).
      apply (firstn_le_eq _ _ _ _ Hf). unfold n. pose proof (zlen_nonneg y) as Hy1. clear - Hy1 Hs. lia. }
    split; [exact Hz|]. split; [intros Ha; rewrite Hc1, Hst by exact Ha; reflexivity|].
    pose proof (large_add_len_ge v y start) as HM. fold M in HM.
    split.
    { intros Hzz.
      assert (zlen (vl v') = M /\ zlen (vl v1) = zlen (vl v)) as [Z1 Z2].
      { clear - Hzz Hz HM EM. destruct (B64 ^ M <=? lval (vl v) + lval y * B64 ^ start); lia. }
      rewrite Hc2, Hcap2 by assumption. reflexivity. }
    split; [clear - Hcap Hc3; lia|]. intros Hi. apply Hc4. rewrite <- EM. apply Hinv. exact Hi.
  - cbn [b2z] in E. rewrite Z.mul_0_r, Z.add_0_r in E.
    intros H. inversion H; subst v'; clear H. unfold vset_list. cbn [vl vcap].
    rewrite <- E. replace (B64 ^ M <=? lval l2) with false by lia.
    split; [reflexivity|]. split; [exact O|]. split; [exact Fst'|]. split; [lia|].
    split; [exact Hst|]. split; [intros Hz; apply Hcap2; lia|]. split; [exact Hcap|].
    intros Hi. rewrite Zl, <- EM. apply Hinv. exact Hi.
Qed.

(** the exact sum is below B64^(M+1): at most one limb is appended *)
Lemma large_add_bound v y start :
  limbs_ok (vl v) -> limbs_ok y -> 0 <= start ->
  lval (vl v) + lval y * B64 ^ start < B64 * B64 ^ large_add_len v y start.
Proof.
  intros Hl Hy Hs. pose proof (lval_bound _ Hl) as B1. pose proof (lval_bound _ Hy) as B2.
  pose proof (lval_nonneg _ Hl). pose proof (lval_nonneg _ Hy).
  pose proof (zlen_nonneg (vl v)). pose proof (zlen_nonneg y).
  destruct y as [|y0 y'].
  - rewrite large_add_len_empty. cbn [lval]. pose proof B64_gt1. nia.
  - rewrite large_add_len_nonempty by (congruence || lia).
    set (M := Z.max (zlen (vl v)) (zlen (y0 :: y') + start)).
    pose proof (B64pow_mono (zlen (vl v)) M ltac:(lia)).
    pose proof (B64pow_mono (zlen (y0 :: y') + start) M ltac:(lia)).
    rewrite Z.pow_add_r in * by lia.
    pose proof (B64pow_pos' start Hs). pose proof (B64pow_pos' M ltac:(lia)).
    assert (lval (y0 :: y') * B64 ^ start <= (B64 ^ zlen (y0 :: y') - 1) * B64 ^ start)
      by (apply Z.mul_le_mono_nonneg_r; lia).
    pose proof B64_gt1. nia.
Qed.

(** failure of the stack back-end *)
Theorem large_add_from_None c v y start :
  limbs_ok (vl v) -> limbs_ok y -> 0 <= start ->
  alloc c = false -> zlen (vl v) <= vcap v ->
  (large_add_from c v y start = None <->
   (y <> [] /\ vcap v < zlen y + start) \/ B64 ^ vcap v <= lval (vl v) + lval y * B64 ^ start).
Proof.
  intros Hl Hy Hs Ha Hcv. rewrite large_add_from_unfold. rewrite Ha.
  pose proof (large_add_bound v y start Hl Hy Hs) as Bnd.
  destruct (if usize_saturating_sub (vlen v) start <? zlen y then _ else _) as [v1|] eqn:Ep.
  - pose proof Ep as Ep'.
    apply large_add_prep_Some in Ep; [|exact Hs].
    destruct Ep as [[k Ek] [EM [Hlen [Hst [Hcap [Hcap2 Hinv]]]]]].
    specialize (Hst eq_refl). specialize (Hinv Hcv).
    assert (Hnr : ~ (y <> [] /\ vcap v < zlen y + start)).
    { intros [Hy0 Hlt]. rewrite large_add_len_nonempty in EM by assumption. lia. }
    assert (Ol1 : limbs_ok (vl v1)) by (rewrite Ek; apply limbs_ok_app; split; [exact Hl|apply limbs_ok_repeat0]).
    assert (Ev1 : lval (vl v1) = lval (vl v)) by (rewrite Ek, lval_app, lval_repeat0; ring).
    pose proof (large_add_core (vl v1) y start Ol1 Hy Hs Hlen) as C. cbv zeta in C |- *.
    set (n := Z.to_nat start) in *. set (r := add_lists (skipn n (vl v1)) y false) in *.
    set (l2 := firstn n (vl v1) ++ fst r) in *.
    destruct C as [E [O [Len [Fst Hys]]]].
    assert (Zl : zlen l2 = zlen (vl v1)) by (unfold zlen; lia).
    rewrite Ev1 in E.
    pose proof (lval_nonneg _ O) as Nn. pose proof (lval_bound _ O) as Bd. rewrite Zl in Bd.
    assert (Mono : B64 ^ zlen (vl v1) <= B64 ^ vcap v).
    { apply B64pow_mono. pose proof (zlen_nonneg (vl v1)) as Z0. clear - Z0 Hinv Hst. lia. }
    destruct (snd r) eqn:Ec.
    + assert (Hy0 : y <> []).
      { intros ->. unfold r in Ec. rewrite add_lists_nil in Ec. discriminate. }
      specialize (Hys Hy0). cbn [b2z] in E.
      rewrite small_add_from_None_iff_overflow; unfold vset_list; cbn [vl vcap];
        [|exact O|split; [lia|reflexivity]|pose proof (zlen_nonneg y); rewrite Zl; clear - Hys Hs H; lia
         |exact Ha|rewrite Zl, Hst in *; exact Hinv].
      rewrite Hst.
      replace (lval l2 + 1 * B64 ^ (zlen y + start)) with (lval (vl v) + lval y * B64 ^ start)
        by (clear - E; lia).
      tauto.
    + cbn [b2z] in E. rewrite Z.mul_0_r, Z.add_0_r in E. rewrite <- E.
      split; [discriminate|]. intros [Hc|Hc]; [tauto|]. clear - Hc Bd Mono Hst. lia.
  - split; [intros _|reflexivity]. apply large_add_prep_None in Ep; [|exact Hs].
    left. tauto.
Qed.

(** for a normalized non-empty [y] this is exactly: the sum does not fit in the capacity *)
Corollary large_add_from_None_iff_overflow c v y start :
  limbs_ok (vl v) -> limbs_ok y -> 0 <= start ->
  alloc c = false -> zlen (vl v) <= vcap v -> is_normalized y = true ->
  (large_add_from c v y start = None <-> B64 ^ vcap v <= lval (vl v) + lval y * B64 ^ start).
Proof.
  intros Hl Hy Hs Ha Hcv Hn. rewrite large_add_from_None by assumption.
  split; [|auto]. intros [[Hy0 Hlt]|H]; [|exact H].
  pose proof (normalized_lower_bound y Hy Hn Hy0) as Lb.
  pose proof (lval_nonneg _ Hl).
  assert (0 < zlen y) by (destruct y; [congruence|rewrite zlen_cons; pose proof (zlen_nonneg y); lia]).
  pose proof (zlen_nonneg (vl v)).
  pose proof (B64pow_mono (vcap v) (zlen y - 1 + start) ltac:(lia)) as Mono.
  rewrite Z.pow_add_r in Mono by lia.
  pose proof (B64pow_pos' start Hs). nia.
Qed.

Corollary large_add_from_heap c v y start :
  0 <= start -> alloc c = true -> large_add_from c v y start <> None.
Proof.
  intros Hs Ha. rewrite large_add_from_unfold. rewrite Ha.
  destruct (if usize_saturating_sub (vlen v) start <? zlen y then _ else _) as [v1|] eqn:Ep.
  - cbv zeta. destruct (snd _); [|discriminate].
    rewrite small_add_from_unfold. cbv zeta. rewrite Ha.
    destruct (negb _); [|discriminate]. unfold try_push. discriminate.
  - apply large_add_prep_None in Ep; [|exact Hs]. destruct Ep as [Ep _]. discriminate.
Qed.

(** [large_add] *)
Theorem large_add_spec c v y v' :
  limbs_ok (vl v) -> limbs_ok y ->
  large_add c v y = Some v' ->
  let M := Z.max (zlen (vl v)) (zlen y) in
  lval (vl v') = lval (vl v) + lval y /\
  limbs_ok (vl v') /\
  zlen (vl v') = M + (if B64 ^ M <=? lval (vl v) + lval y then 1 else 0) /\
  (alloc c = false -> vcap v' = vcap v) /\
  (zlen (vl v') = zlen (vl v) -> vcap v' = vcap v) /\
  vcap v <= vcap v' /\
  (zlen (vl v) <= vcap v -> zlen (vl v') <= vcap v').
Proof.
  intros Hl Hy H. unfold large_add in H.
  apply large_add_from_spec in H; try assumption; [|lia]. cbv zeta in H.
  rewrite Z.pow_0_r, Z.mul_1_r in H.
  assert (EM : large_add_len v y 0 = Z.max (zlen (vl v)) (zlen y)).
  { destruct y as [|y0 y'].
    - rewrite large_add_len_empty, (@zlen_nil Z). pose proof (zlen_nonneg (vl v)). lia.
    - rewrite large_add_len_nonempty by (congruence || lia). rewrite Z.add_0_r. reflexivity. }
  rewrite EM in H. cbv zeta. tauto.
Qed.

Theorem large_add_None c v y :
  limbs_ok (vl v) -> limbs_ok y -> alloc c = false -> zlen (vl v) <= vcap v ->
  (large_add c v y = None <->
   vcap v < zlen y \/ B64 ^ vcap v <= lval (vl v) + lval y).
Proof.
  intros Hl Hy Ha Hcv. unfold large_add. rewrite large_add_from_None by (try assumption; lia).
  rewrite Z.pow_0_r, Z.mul_1_r, Z.add_0_r.
  assert (vcap v < zlen y -> y <> []).
  { intros Hlt ->. rewrite (@zlen_nil Z) in Hlt. pose proof (zlen_nonneg (vl v)). lia. }
  tauto.
Qed.

Example large_add_ex :
  large_add_from CFG_s (mkVec [1; 2] 62) [B64 - 1; B64 - 1] 1 = Some (mkVec [1; 1; 0; 1] 62) /\
  large_add_from CFG_s (mkVec [1] 62) [5] 3 = Some (mkVec [1; 0; 0; 5] 62) /\
  large_add CFG_s (mkVec [B64 - 1; B64 - 1] 2) [1] = None /\
  (* an un-normalized y fails although the sum would fit *)
  large_add CFG_s (mkVec [1; 1] 2) [1; 0; 0] = None /\
  large_add CFG_s (mkVec [1; 1] 3) [1; 0; 0] = Some (mkVec [2; 1; 0] 3).
Proof. vm_compute. repeat split; reflexivity. Qed.

(** ** 5. long_mul / large_mul *)
Lemma try_from_Some h L x z :
  try_from h L x = Some z ->
  vl z = x /\ (h = false -> vcap z = BIGINT_LIMBS L /\ zlen x <= BIGINT_LIMBS L) /\
  zlen (vl z) <= vcap z /\ BIGINT_LIMBS L <= vcap z.
Proof.
  unfold try_from, try_extend, vnew, vlen. cbn [vl vcap app]. rewrite (@zlen_nil Z).
  pose proof (grow_ge (BIGINT_LIMBS L) (zlen x)) as G1. pose proof (grow_ge (BIGINT_LIMBS L) (0 + zlen x)) as G2.
  destruct h.
  - intros H0. inversion H0; subst z; clear H0. cbn [vl vcap].
    split; [reflexivity|]. split; [discriminate|].
    destruct (BIGINT_LIMBS L - 0 <? zlen x) eqn:E; lia.
  - destruct (0 + zlen x <=? BIGINT_LIMBS L) eqn:E; [|discriminate].
    intros H0. inversion H0; subst z; clear H0. cbn [vl vcap]. repeat split; lia.
Qed.

Lemma try_from_None h L (x : list Z) :
  try_from h L x = None <-> h = false /\ BIGINT_LIMBS L < zlen x.
Proof.
  unfold try_from, try_extend, vnew, vlen. cbn [vl vcap app]. rewrite (@zlen_nil Z).
  destruct h.
  - split; [discriminate|intros [H _]; discriminate].
  - destruct (0 + zlen x <=? BIGINT_LIMBS L) eqn:E.
    + split; [discriminate|]. lia.
    + split; [intros _; split; [reflexivity|lia]|reflexivity].
Qed.

Lemma long_mul_loop_nil c L x index z : long_mul_loop c L x [] index z = Some z.
Proof. reflexivity. Qed.

Lemma long_mul_loop_cons c L x yi ys index z :
  long_mul_loop c L x (yi :: ys) index z =
  if negb (yi =? 0) then
    match try_from (alloc c) L x with
    | None => None
    | Some zi =>
        match small_mul c zi yi with
        | None => None
        | Some zi' =>
            match large_add_from c z (vl zi') index with
            | None => None
            | Some z' => long_mul_loop c L x ys (index + 1) z'
            end
        end
    end
  else long_mul_loop c L x ys (index + 1) z.
Proof. reflexivity. Qed.

Lemma mul_acc_step (a X yi Ys index : Z) :
  0 <= index ->
  a + X * (yi + B64 * Ys) * B64 ^ index = (a + X * yi * B64 ^ index) + X * Ys * B64 ^ (index + 1).
Proof. intros. rewrite B64pow_succ by lia. ring. Qed.

Lemma long_mul_loop_spec c L x : forall ys index z z',
  limbs_ok x -> limbs_ok ys -> limbs_ok (vl z) -> 0 <= index ->
  long_mul_loop c L x ys index z = Some z' ->
  lval (vl z') = lval (vl z) + lval x * lval ys * B64 ^ index /\
  limbs_ok (vl z') /\
  (alloc c = false -> vcap z' = vcap z) /\ vcap z <= vcap z' /\
  (zlen (vl z) <= vcap z -> zlen (vl z') <= vcap z').
Proof.
  induction ys as [|yi ys IH]; intros index z z' Hx Hys Hz Hi.
  - rewrite long_mul_loop_nil. intros H. inversion H; subst z'; clear H. cbn [lval].
    repeat split; try assumption; try lia.
  - apply limbs_ok_cons in Hys. destruct Hys as [Hyi Hys].
    rewrite long_mul_loop_cons. cbn [lval]. rewrite mul_acc_step by exact Hi.
    destruct (yi =? 0) eqn:E0; cbn [negb].
    + assert (yi = 0) by lia. subst yi. intros H.
      apply IH in H; try assumption; [|lia].
      rewrite Z.mul_0_r, Z.mul_0_l, Z.add_0_r. exact H.
    + destruct (try_from (alloc c) L x) as [zi|] eqn:E1; [|discriminate].
      apply try_from_Some in E1. destruct E1 as [Ezi _].
      destruct (small_mul c zi yi) as [zi'|] eqn:E2; [|discriminate].
      apply small_mul_spec in E2; [|rewrite Ezi; exact Hx|exact Hyi]. rewrite Ezi in E2.
      destruct E2 as [Vzi' [Ozi' _]].
      destruct (large_add_from c z (vl zi') index) as [z1|] eqn:E3; [|discriminate].
      apply large_add_from_spec in E3; [|exact Hz|exact Ozi'|exact Hi]. cbv zeta in E3.
      destruct E3 as [Vz1 [Oz1 [_ [_ [C1 [_ [C2 C3]]]]]]].
      intros H. apply IH in H; try assumption; [|lia].
      destruct H as [V [O [C4 [C5 C6]]]].
      rewrite V, Vz1, Vzi'. split; [reflexivity|]. split; [exact O|].
      split; [intros Ha; rewrite C4, C1 by exact Ha; reflexivity|]. split; [lia|].
      intros Hc. apply C6, C3, Hc.
Qed.

Lemma long_mul_unfold c L x y :
  long_mul c L x y =
  match try_from (alloc c) L x with
  | None => None
  | Some z =>
      match y with
      | [] => Some (vset_list z (normalize_list (vl z)))
      | y0 :: ys =>
          match small_mul c z y0 with
          | None => None
          | Some z1 =>
              match long_mul_loop c L x ys 1 z1 with
              | None => None
              | Some z2 => Some (vset_list z2 (normalize_list (vl z2)))
              end
          end
      end
  end.
Proof. reflexivity. Qed.

(** `long_mul(x, y)` for a non-empty [y]: the product, normalized, in a fresh vector *)
Theorem long_mul_spec c L x y z :
  limbs_ok x -> limbs_ok y -> y <> [] ->
  long_mul c L x y = Some z ->
  lval (vl z) = lval x * lval y /\ limbs_ok (vl z) /\ is_normalized (vl z) = true /\
  (alloc c = false -> vcap z = BIGINT_LIMBS L) /\ BIGINT_LIMBS L <= vcap z /\
  zlen (vl z) <= vcap z.
Proof.
  intros Hx Hy Hy0. rewrite long_mul_unfold.
  destruct (try_from (alloc c) L x) as [z0|] eqn:E1; [|discriminate].
  apply try_from_Some in E1. destruct E1 as [Ez0 [C0 [I0 G0]]].
  destruct y as [|y0 ys]; [congruence|].
  apply limbs_ok_cons in Hy. destruct Hy as [Hy0' Hys].
  destruct (small_mul c z0 y0) as [z1|] eqn:E2; [|discriminate].
  apply small_mul_spec in E2; [|rewrite Ez0; exact Hx|exact Hy0']. rewrite Ez0 in E2.
  destruct E2 as [V1 [O1 [_ [C1 [_ [G1 I1]]]]]].
  destruct (long_mul_loop c L x ys 1 z1) as [z2|] eqn:E3; [|discriminate].
  apply long_mul_loop_spec in E3; try assumption; [|lia].
  destruct E3 as [V2 [O2 [C2 [G2 I2]]]].
  intros H. inversion H; subst z; clear H. unfold vset_list. cbn [vl vcap].
  destruct (normalize_list_spec (vl z2)) as [N1 [N2 [N3 [N4 _]]]].
  rewrite N1, V2, V1, Z.pow_1_r. cbn [lval].
  split; [ring|]. split; [apply N3; exact O2|]. split; [exact N2|].
  split; [intros Ha; rewrite C2, C1 by exact Ha; apply C0; exact Ha|]. split; [lia|].
  rewrite Ez0 in I0. specialize (I2 (I1 I0)). unfold zlen in *. lia.
Qed.

(** `long_mul(x, [])` returns [x] (normalized), not zero: the Rust source has the same behaviour *)
Theorem long_mul_nil c L x z :
  long_mul c L x [] = Some z ->
  vl z = normalize_list x /\ (alloc c = false -> vcap z = BIGINT_LIMBS L) /\ BIGINT_LIMBS L <= vcap z /\
  zlen (vl z) <= vcap z.
Proof.
  rewrite long_mul_unfold.
  destruct (try_from (alloc c) L x) as [z0|] eqn:E1; [|discriminate].
  apply try_from_Some in E1. destruct E1 as [Ez0 [C0 [I0 G0]]].
  intros H. inversion H; subst z; clear H. unfold vset_list. cbn [vl vcap]. rewrite Ez0 in *.
  split; [reflexivity|]. split; [intros Ha; apply C0; exact Ha|]. split; [exact G0|].
  destruct (normalize_list_spec x) as [_ [_ [_ [N4 _]]]]. unfold zlen in *. lia.
Qed.

Example long_mul_ex :
  (* (2^192 - 1) * (2^128 - 1), carries everywhere *)
  long_mul CFG_s LIMITS [B64 - 1; B64 - 1; B64 - 1] [B64 - 1; B64 - 1] =
    Some (mkVec [1; 0; B64 - 1; B64 - 2; B64 - 1] 62) /\
  lval [1; 0; B64 - 1; B64 - 2; B64 - 1] = (2 ^ 192 - 1) * (2 ^ 128 - 1) /\
  (* zero limbs of y are skipped; the result is normalized *)
  long_mul CFG_s LIMITS [7; 0] [0; 3; 0] = Some (mkVec [0; 21] 62) /\
  long_mul CFG_s LIMITS [7; 1] [] = Some (mkVec [7; 1] 62).
Proof. vm_compute. repeat split; reflexivity. Qed.

(** *** failure of the stack back-end *)
Lemma zlen_pos_nonempty {A} (l : list A) : l <> [] -> 0 < zlen l.
Proof. destruct l; [congruence|intros _; rewrite zlen_cons; pose proof (zlen_nonneg l); lia]. Qed.

(** when the loop fails, either the exact value does not fit the capacity, or [x] is not a
    normalized non-zero number and the lengths alone exceed the capacity *)
Lemma long_mul_loop_None c L x : forall ys index z,
  alloc c = false -> limbs_ok x -> limbs_ok ys -> limbs_ok (vl z) ->
  vcap z = BIGINT_LIMBS L -> zlen (vl z) <= BIGINT_LIMBS L -> 0 <= index ->
  long_mul_loop c L x ys index z = None ->
  B64 ^ BIGINT_LIMBS L <= lval (vl z) + lval x * lval ys * B64 ^ index \/
  ((is_normalized x = false \/ x = []) /\ BIGINT_LIMBS L < zlen x + index + zlen ys).
Proof.
  set (cap := BIGINT_LIMBS L).
  induction ys as [|yi ys IH]; intros index z Ha Hx Hys Hz Hcz Hlz Hi.
  - rewrite long_mul_loop_nil. discriminate.
  - apply limbs_ok_cons in Hys. destruct Hys as [Hyi Hys].
    rewrite long_mul_loop_cons. cbn [lval]. rewrite mul_acc_step by exact Hi. rewrite zlen_cons.
    pose proof (lval_nonneg _ Hx) as Nx. pose proof (lval_nonneg _ Hys) as Nys.
    pose proof (lval_nonneg _ Hz) as Nz. pose proof (zlen_nonneg ys) as Lys.
    pose proof (zlen_nonneg x) as Lx.
    pose proof (B64pow_pos' index Hi) as Pi. pose proof (B64pow_pos' (index + 1) ltac:(lia)) as Pi1.
    assert (Nrest : 0 <= lval x * lval ys * B64 ^ (index + 1)).
    { apply Z.mul_nonneg_nonneg; [apply Z.mul_nonneg_nonneg|]; lia. }
    destruct (yi =? 0) eqn:E0; cbn [negb].
    + assert (yi = 0) by lia. subst yi. intros H.
      apply IH in H; try assumption; [|lia].
      rewrite Z.mul_0_r, Z.mul_0_l, Z.add_0_r. destruct H as [H|[H1 H2]]; [left; exact H|right].
      split; [exact H1|lia].
    + assert (Hyi1 : 1 <= yi) by lia.
      assert (Nterm : lval x <= lval x * yi * B64 ^ index).
      { assert (lval x * 1 <= lval x * yi) by (apply Z.mul_le_mono_nonneg_l; lia).
        assert (lval x * yi * 1 <= lval x * yi * B64 ^ index) by (apply Z.mul_le_mono_nonneg_l; lia).
        lia. }
      (* x normalized and non-empty, or not *)
      assert (Dx : (is_normalized x = true /\ x <> []) \/ (is_normalized x = false \/ x = [])).
      { destruct (is_normalized x); [|right; left; reflexivity].
        destruct x; [right; right; reflexivity|left; split; [reflexivity|discriminate]]. }
      rewrite Ha.
      destruct (try_from false L x) as [zi|] eqn:E1.
      * apply try_from_Some in E1. destruct E1 as [Ezi [Czi _]]. specialize (Czi eq_refl).
        destruct Czi as [Czi Lxc]. fold cap in Czi, Lxc.
        destruct (small_mul c zi yi) as [zi'|] eqn:E2.
        -- apply small_mul_spec in E2; [|rewrite Ezi; exact Hx|exact Hyi]. rewrite Ezi in E2.
           destruct E2 as [Vzi' [Ozi' [Lzi' [Czi' _]]]]. specialize (Czi' Ha).
           destruct (large_add_from c z (vl zi') index) as [z1|] eqn:E3.
           ++ apply large_add_from_spec in E3; [|exact Hz|exact Ozi'|exact Hi]. cbv zeta in E3.
              destruct E3 as [Vz1 [Oz1 [_ [_ [C1 [_ [_ C3]]]]]]]. specialize (C1 Ha).
              intros H. apply IH in H; try assumption; try lia.
              rewrite Vz1, Vzi' in H. destruct H as [H|[H1 H2]]; [left; exact H|right].
              split; [exact H1|lia].
           ++ intros _.
              apply large_add_from_None in E3; [|exact Hz|exact Ozi'|exact Hi|exact Ha|lia].
              rewrite Vzi', Hcz in E3. fold cap in E3.
              destruct E3 as [[Hne Hlt]|Hov]; [|left; lia].
              destruct Dx as [[Nx1 Nx2]|Dx].
              ** left.
                 pose proof (normalized_lower_bound x Hx Nx1 Nx2) as Lb.
                 pose proof (zlen_pos_nonempty x Nx2) as Lx1.
                 assert (Lb' : B64 ^ (zlen (vl zi') - 1) <= lval x * yi).
                 { rewrite Lzi'. destruct (B64 ^ zlen x <=? lval x * yi) eqn:Eb.
                   - replace (zlen x + 1 - 1) with (zlen x) by lia. lia.
                   - rewrite Z.add_0_r. assert (lval x * 1 <= lval x * yi) by (apply Z.mul_le_mono_nonneg_l; lia). lia. }
                 assert (Hl1 : 1 <= zlen (vl zi')) by (rewrite Lzi'; destruct (B64 ^ zlen x <=? lval x * yi); lia).
                 assert (Mono : B64 ^ cap <= B64 ^ (zlen (vl zi') - 1) * B64 ^ index).
                 { rewrite <- Z.pow_add_r by lia. apply B64pow_mono. lia. }
                 assert (B64 ^ (zlen (vl zi') - 1) * B64 ^ index <= lval x * yi * B64 ^ index)
                   by (apply Z.mul_le_mono_nonneg_r; lia).
                 lia.
              ** right. split; [exact Dx|].
                 assert (zlen (vl zi') <= zlen x + 1) by (rewrite Lzi'; destruct (B64 ^ zlen x <=? lval x * yi); lia).
                 lia.
        -- intros _. apply small_mul_None in E2; [|rewrite Ezi; exact Hx|exact Hyi].
           rewrite Ezi, Czi in E2. destruct E2 as [_ [E2a E2b]].
           left. replace cap with (zlen x) by lia.
           assert (lval x * yi * 1 <= lval x * yi * B64 ^ index) by (apply Z.mul_le_mono_nonneg_l; nia).
           lia.
      * intros _. apply try_from_None in E1. destruct E1 as [_ E1]. fold cap in E1.
        destruct Dx as [[Nx1 Nx2]|Dx].
        -- left. pose proof (normalized_lower_bound x Hx Nx1 Nx2) as Lb.
           destruct (Z_lt_le_dec cap 0) as [Hneg|Hpos].
           ++ rewrite (Z.pow_neg_r B64 cap Hneg). lia.
           ++ pose proof (B64pow_mono cap (zlen x - 1) ltac:(lia)). lia.
        -- right. split; [exact Dx|lia].
Qed.

(** stack back-end, complete statement for a non-empty [y] *)
Theorem long_mul_None c L x y :
  alloc c = false -> limbs_ok x -> limbs_ok y -> y <> [] ->
  long_mul c L x y = None ->
  (zlen x <= BIGINT_LIMBS L /\ B64 ^ BIGINT_LIMBS L <= lval x * lval y) \/
  BIGINT_LIMBS L < zlen x \/
  ((is_normalized x = false \/ x = []) /\ BIGINT_LIMBS L < zlen x + zlen y).
Proof.
  intros Ha Hx Hy Hy0. rewrite long_mul_unfold. rewrite Ha.
  set (cap := BIGINT_LIMBS L).
  destruct (try_from false L x) as [z0|] eqn:E1.
  - apply try_from_Some in E1. destruct E1 as [Ez0 [C0 _]]. specialize (C0 eq_refl).
    destruct C0 as [C0 Lxc]. fold cap in C0, Lxc.
    destruct y as [|y0 ys]; [congruence|].
    apply limbs_ok_cons in Hy. destruct Hy as [Hy0' Hys].
    pose proof (lval_nonneg _ Hx) as Nx. pose proof (lval_nonneg _ Hys) as Nys.
    assert (Nrest : 0 <= lval x * lval ys * B64 ^ 1).
    { apply Z.mul_nonneg_nonneg; [apply Z.mul_nonneg_nonneg; lia|]. apply Z.pow_nonneg. pose proof B64_pos. lia. }
    assert (Ev : lval x * lval (y0 :: ys) = lval x * y0 + lval x * lval ys * B64 ^ 1)
      by (cbn [lval]; rewrite Z.pow_1_r; ring).
    destruct (small_mul c z0 y0) as [z1|] eqn:E2.
    + apply small_mul_spec in E2; [|rewrite Ez0; exact Hx|exact Hy0']. rewrite Ez0 in E2.
      destruct E2 as [V1 [O1 [_ [C1 [_ [_ I1]]]]]]. specialize (C1 Ha).
      destruct (long_mul_loop c L x ys 1 z1) as [z2|] eqn:E3; [discriminate|]. intros _.
      apply long_mul_loop_None in E3; try assumption;
        [|fold cap; rewrite C1, C0; reflexivity
         |fold cap; rewrite <- C0, <- C1; apply I1; rewrite C0; exact Lxc|lia].
      fold cap in E3. rewrite V1, <- Ev in E3. destruct E3 as [E3|[E3a E3b]].
      * left. split; assumption.
      * right. right. split; [exact E3a|]. rewrite zlen_cons. lia.
    + intros _. apply small_mul_None in E2; [|rewrite Ez0; exact Hx|exact Hy0'].
      rewrite Ez0, C0 in E2. destruct E2 as [_ [E2a E2b]].
      left. split; [exact Lxc|]. replace cap with (zlen x) by lia. rewrite Ev. lia.
  - intros _. apply try_from_None in E1. right. left. tauto.
Qed.

(** success whenever the lengths fit *)
Theorem long_mul_fits_Some c L x y :
  alloc c = false -> limbs_ok x -> limbs_ok y -> y <> [] ->
  zlen x + zlen y <= BIGINT_LIMBS L ->
  long_mul c L x y <> None.
Proof.
  intros Ha Hx Hy Hy0 Hfit H. apply long_mul_None in H; try assumption.
  pose proof (zlen_nonneg x). pose proof (zlen_nonneg y).
  destruct H as [[_ H]|[H|[_ H]]]; try lia.
  pose proof (lval_bound _ Hx). pose proof (lval_bound _ Hy).
  pose proof (lval_nonneg _ Hx). pose proof (lval_nonneg _ Hy).
  pose proof (B64pow_mono (zlen x + zlen y) (BIGINT_LIMBS L) ltac:(lia)) as Mono.
  rewrite Z.pow_add_r in Mono by lia.
  assert (lval x * lval y < B64 ^ zlen x * B64 ^ zlen y) by (apply Z.mul_lt_mono_nonneg; lia).
  lia.
Qed.

(** the heap back-end never fails *)
Lemma small_mul_heap_gen c v y : alloc c = true -> small_mul c v y <> None.
Proof.
  intros Ha. rewrite small_mul_unfold. cbv zeta. rewrite Ha.
  destruct (negb _); unfold try_push; discriminate.
Qed.

Lemma try_from_heap L x : try_from true L x <> None.
Proof. intros H. apply try_from_None in H. destruct H; discriminate. Qed.

Lemma long_mul_loop_heap c L x : forall ys index z,
  alloc c = true -> 0 <= index -> long_mul_loop c L x ys index z <> None.
Proof.
  induction ys as [|yi ys IH]; intros index z Ha Hi; [rewrite long_mul_loop_nil; discriminate|].
  rewrite long_mul_loop_cons. destruct (negb (yi =? 0)); [|apply IH; [exact Ha|lia]].
  rewrite Ha. destruct (try_from true L x) as [zi|] eqn:F1; [|apply try_from_heap in F1; contradiction].
  destruct (small_mul c zi yi) as [zi'|] eqn:F2; [|apply small_mul_heap_gen in F2; [contradiction|exact Ha]].
  destruct (large_add_from c z (vl zi') index) as [z'|] eqn:F3;
    [|apply large_add_from_heap in F3; [contradiction|exact Hi|exact Ha]].
  apply IH; [exact Ha|lia].
Qed.

Theorem long_mul_heap c L x y : alloc c = true -> long_mul c L x y <> None.
Proof.
  intros Ha. rewrite long_mul_unfold. rewrite Ha.
  destruct (try_from true L x) as [z0|] eqn:F1; [|apply try_from_heap in F1; contradiction].
  destruct y as [|y0 ys]; [discriminate|].
  destruct (small_mul c z0 y0) as [z1|] eqn:F2; [|apply small_mul_heap_gen in F2; [contradiction|exact Ha]].
  destruct (long_mul_loop c L x ys 1 z1) as [z2|] eqn:F3; [discriminate|].
  apply long_mul_loop_heap in F3; [contradiction|exact Ha|lia].
Qed.

(** sharp form: for a normalized non-zero [x] that fits, the stack back-end fails exactly when the
    product does not fit in the capacity *)
Theorem long_mul_None_iff_overflow c L x y :
  alloc c = false -> limbs_ok x -> limbs_ok y -> y <> [] ->
  is_normalized x = true -> x <> [] -> zlen x <= BIGINT_LIMBS L ->
  (long_mul c L x y = None <-> B64 ^ BIGINT_LIMBS L <= lval x * lval y).
Proof.
  intros Ha Hx Hy Hy0 Nx Nx0 Lx. split.
  - intros H. apply long_mul_None in H; try assumption.
    destruct H as [[_ H]|[H|[[H|H] _]]]; [exact H|lia|congruence|congruence].
  - intros H. destruct (long_mul c L x y) as [z|] eqn:E; [|reflexivity].
    apply long_mul_spec in E; try assumption.
    destruct E as [V [O [_ [C [_ I]]]]]. rewrite (C Ha) in I.
    pose proof (lval_bound _ O) as Bd. rewrite V in Bd.
    pose proof (B64pow_mono (zlen (vl z)) (BIGINT_LIMBS L) ltac:(pose proof (zlen_nonneg (vl z)); lia)). lia.
Qed.

(** also without the length hypothesis when [y] is not zero *)
Corollary long_mul_None_iff_overflow' c L x y :
  alloc c = false -> limbs_ok x -> limbs_ok y -> lval y <> 0 ->
  is_normalized x = true -> x <> [] -> 0 <= BIGINT_LIMBS L ->
  (long_mul c L x y = None <-> B64 ^ BIGINT_LIMBS L <= lval x * lval y).
Proof.
  intros Ha Hx Hy Hy0 Nx Nx0 Hc.
  assert (Hyn : y <> []) by (intros ->; apply Hy0; reflexivity).
  destruct (Z_le_gt_dec (zlen x) (BIGINT_LIMBS L)) as [Lx|Lx];
    [apply long_mul_None_iff_overflow; assumption|].
  pose proof (lval_nonneg _ Hy). pose proof (lval_nonneg _ Hx).
  pose proof (normalized_lower_bound x Hx Nx Nx0) as Lb.
  pose proof (B64pow_mono (BIGINT_LIMBS L) (zlen x - 1) ltac:(lia)).
  assert (lval x * 1 <= lval x * lval y) by (apply Z.mul_le_mono_nonneg_l; lia).
  split; [intros _; lia|]. intros _. rewrite long_mul_unfold, Ha.
  destruct (try_from false L x) as [z0|] eqn:F1; [|reflexivity].
  apply try_from_Some in F1. destruct F1 as [_ [F1 _]]. specialize (F1 eq_refl). lia.
Qed.

Example long_mul_fail_ex :
  (* 31 + 32 limbs > 62: the product of two normalized numbers needs 62 or 63 limbs *)
  long_mul CFG_s LIMITS (repeat (B64 - 1) 31) (repeat (B64 - 1) 32) = None /\
  option_map (fun z => zlen (vl z)) (long_mul CFG_s LIMITS (repeat 1 31) (repeat 1 32)) = Some 62 /\
  (* an un-normalized x fails on lengths alone although the product is tiny *)
  long_mul CFG_s LIMITS (1 :: repeat 0 61) [1; 1] = None /\
  (* the heap back-end *)
  option_map (fun z => zlen (vl z)) (long_mul CFG_sa LIMITS (repeat (B64 - 1) 31) (repeat (B64 - 1) 32)) = Some 63.
Proof. vm_compute. repeat split; reflexivity. Qed.

(** [large_mul]: `y = [y0]` is `small_mul`; otherwise `long_mul y (vl v)` into a fresh vector *)
Lemma large_mul_unfold c L v y :
  large_mul c L v y = match y with [y0] => small_mul c v y0 | _ => long_mul c L y (vl v) end.
Proof. reflexivity. Qed.

Theorem large_mul_spec c L v y v' :
  limbs_ok (vl v) -> limbs_ok y ->
  vl v <> [] \/ zlen y <= 1 ->
  large_mul c L v y = Some v' ->
  lval (vl v') = lval (vl v) * lval y /\ limbs_ok (vl v') /\
  (zlen y <> 1 -> is_normalized (vl v') = true) /\
  (alloc c = false -> vcap v' = if zlen y =? 1 then vcap v else BIGINT_LIMBS L) /\
  (zlen (vl v) <= vcap v -> zlen (vl v') <= vcap v').
Proof.
  intros Hv Hy Hne. rewrite large_mul_unfold.
  destruct y as [|y0 [|y1 ys]].
  - (* y = [] : long_mul [] (vl v) is the empty number *)
    intros H. cbn [lval]. rewrite Z.mul_0_r.
    destruct (vl v) as [|x0 xs] eqn:Ev.
    + apply long_mul_nil in H. destruct H as [H1 [H2 [H3 H4]]].
      rewrite H1 in *. change (normalize_list []) with (@nil Z) in *. cbn [lval].
      split; [reflexivity|]. split; [apply limbs_ok_nil|]. split; [reflexivity|].
      split; [exact H2|]. intros _. exact H4.
    + apply long_mul_spec in H; [|apply limbs_ok_nil|exact Hv|discriminate].
      destruct H as [V [O [N [C [_ I]]]]]. cbn [lval] in V. rewrite Z.mul_0_l in V.
      split; [exact V|]. split; [exact O|]. split; [intros _; exact N|]. split; [exact C|].
      intros _. exact I.
  - (* y = [y0] *)
    intros H. apply limbs_ok_cons in Hy. destruct Hy as [Hy0 _].
    apply small_mul_spec in H; try assumption.
    destruct H as [V [O [_ [C [_ [_ I]]]]]]. cbn [lval]. rewrite Z.mul_0_r, Z.add_0_r.
    split; [exact V|]. split; [exact O|]. split; [intros Hc; exfalso; apply Hc; reflexivity|].
    split; [exact C|exact I].
  - (* two or more limbs *)
    assert (Hv0 : vl v <> []).
    { destruct Hne as [Hne|Hne]; [exact Hne|]. rewrite !zlen_cons in Hne. pose proof (zlen_nonneg ys). lia. }
    intros H. apply long_mul_spec in H; try assumption.
    destruct H as [V [O [N [C [_ I]]]]].
    split; [rewrite V; ring|]. split; [exact O|]. split; [intros _; exact N|].
    split; [|intros _; exact I].
    intros Ha. rewrite (C Ha). rewrite !zlen_cons.
    replace (zlen ys + 1 + 1 =? 1) with false by (pose proof (zlen_nonneg ys); lia). reflexivity.
Qed.

(** the corner the Rust code shares: an *empty* bigint times a multi-limb [y] is [y], not zero
    (`long_mul(y, &[])` returns `y`).  `Bigint::from_u64(0)` is such an empty bigint. *)
Theorem large_mul_empty_quirk c L v y v' :
  vl v = [] -> 2 <= zlen y -> large_mul c L v y = Some v' -> vl v' = normalize_list y.
Proof.
  intros Ev Hy. rewrite large_mul_unfold.
  destruct y as [|y0 [|y1 ys]]; try (rewrite ?zlen_cons, ?(@zlen_nil Z) in Hy; lia).
  rewrite Ev. intros H. apply long_mul_nil in H. tauto.
Qed.

Example large_mul_empty_quirk_ex :
  large_mul CFG_s LIMITS (mkVec [] 62) [3; 4] = Some (mkVec [3; 4] 62) /\
  large_mul CFG_s LIMITS (mkVec [0] 62) [3; 4] = Some (mkVec [] 62).
Proof. vm_compute. auto. Qed.

(** failure of [large_mul] on the stack back-end, for a normalized multi-limb multiplier [y] *)
Theorem large_mul_None_iff_overflow c L v y :
  alloc c = false -> limbs_ok (vl v) -> limbs_ok y ->
  is_normalized y = true -> 2 <= zlen y -> zlen y <= BIGINT_LIMBS L -> vl v <> [] ->
  (large_mul c L v y = None <-> B64 ^ BIGINT_LIMBS L <= lval (vl v) * lval y).
Proof.
  intros Ha Hv Hy Ny Ly Lc Hv0. rewrite large_mul_unfold.
  destruct y as [|y0 [|y1 ys]]; try (rewrite ?zlen_cons, ?(@zlen_nil Z) in Ly; lia).
  rewrite long_mul_None_iff_overflow; try assumption; [|discriminate].
  rewrite Z.mul_comm. tauto.
Qed.

Theorem large_mul_fits_Some c L v y :
  limbs_ok (vl v) -> limbs_ok y ->
  alloc c = true \/ (zlen (vl v) <= vcap v /\ zlen (vl v) + zlen y <= BIGINT_LIMBS L /\
                     (zlen y = 1 -> zlen (vl v) < vcap v)) ->
  large_mul c L v y <> None.
Proof.
  intros Hv Hy Hc. rewrite large_mul_unfold.
  destruct (alloc c) eqn:Ha.
  - destruct y as [|y0 [|y1 ys]]; try (apply long_mul_heap; exact Ha).
    apply small_mul_heap_gen. exact Ha.
  - destruct Hc as [Hc|[Hc1 [Hc2 Hc3]]]; [discriminate|].
    assert (forall y', y' = [] \/ 2 <= zlen y' -> limbs_ok y' -> zlen (vl v) + zlen y' <= BIGINT_LIMBS L ->
                       long_mul c L y' (vl v) <> None) as P.
    { intros y' Hy' Oy' Hl. pose proof (zlen_nonneg y'). pose proof (zlen_nonneg (vl v)).
      destruct (vl v) as [|x0 xs] eqn:Ev.
      - rewrite long_mul_unfold, Ha. destruct (try_from false L y') as [z|] eqn:E; [discriminate|].
        apply try_from_None in E. lia.
      - apply long_mul_fits_Some; try assumption; [discriminate|lia]. }
    destruct y as [|y0 [|y1 ys]].
    + apply P; [left; reflexivity|exact Hy|exact Hc2].
    + apply limbs_ok_cons in Hy. destruct Hy as [Hy0 _].
      apply small_mul_short; try assumption. apply Hc3. reflexivity.
    + apply P; [right; rewrite !zlen_cons; pose proof (zlen_nonneg ys); lia|exact Hy|exact Hc2].
Qed.

(** ** 8. powers of five *)
From ML Require Import gen.Tables proofs.TableFacts.

Lemma obind_Some {A B} (x : outcome (option A)) (f : A -> outcome (option B)) r :
  obind x f = Ok (Some r) -> exists a, x = Ok (Some a) /\ f a = Ok (Some r).
Proof. unfold obind, bind. destruct x as [[a|]|k|k]; try discriminate. eauto. Qed.

Lemma bind_Ok {A B} (x : outcome A) (f : A -> outcome B) r :
  bind x f = Ok r -> exists a, x = Ok a /\ f a = Ok r.
Proof. unfold bind. destruct x as [a|k|k]; try discriminate. eauto. Qed.

Lemma Ok_inj {A} (a b : A) : Ok a = Ok b -> a = b.
Proof. congruence. Qed.

Lemma limbs_ok_forallb l : forallb (in_u 64) l = true -> limbs_ok l.
Proof.
  intros H. unfold limbs_ok. apply Forall_forall. intros x Hx.
  rewrite forallb_forall in H. specialize (H x Hx). unfold in_u in H.
  change (2 ^ 64) with B64 in H. lia.
Qed.

Lemma lval_pos_nonempty l : 0 < lval l -> l <> [].
Proof. intros H ->. cbn [lval] in H. lia. Qed.

(** the side conditions on the tables, as a boolean *)
Definition pow5_tables_ok (T : tables) : bool :=
  (0 <? LARGE_POW5_STEP T) && (lval (LARGE_POW5 T) =? 5 ^ LARGE_POW5_STEP T) &&
  forallb (in_u 64) (LARGE_POW5 T) &&
  int_pow_ok 5 (SMALL_INT_POW5 T) && (27 <=? zlen (SMALL_INT_POW5 T)).

Lemma pow5_tables_ok_TABLES : pow5_tables_ok TABLES = true.
Proof. vm_compute. reflexivity. Qed.

Lemma pow5_tables_ok_inv T :
  pow5_tables_ok T = true ->
  0 < LARGE_POW5_STEP T /\ lval (LARGE_POW5 T) = 5 ^ LARGE_POW5_STEP T /\ limbs_ok (LARGE_POW5 T) /\
  int_pow_ok 5 (SMALL_INT_POW5 T) = true /\ 27 <= zlen (SMALL_INT_POW5 T).
Proof.
  unfold pow5_tables_ok. rewrite !andb_true_iff. intros [[[[H1 H2] H3] H4] H5].
  split; [lia|]. split; [lia|]. split; [apply limbs_ok_forallb; exact H3|]. split; [exact H4|lia].
Qed.

Lemma max_native5_eq : max_native5 = 5 ^ 27.
Proof. vm_compute. reflexivity. Qed.

Lemma pow5_small_bound k : 0 <= k < 27 -> 0 < 5 ^ k < B64.
Proof.
  intros Hk. split; [apply Z.pow_pos_nonneg; lia|].
  apply Z.le_lt_trans with (5 ^ 26); [apply Z.pow_le_mono_r; lia|vm_compute; reflexivity].
Qed.

Lemma as_usize_small k : 0 <= k < 27 -> as_usize k = k.
Proof.
  intros Hk. unfold as_usize, wrapu. apply Z.mod_small. split; [lia|].
  apply Z.lt_le_trans with 27; [lia|vm_compute; discriminate].
Qed.

Lemma as_u32_small k : 0 <= k < 27 -> as_u32 k = k.
Proof.
  intros Hk. unfold as_u32, wrapu. apply Z.mod_small. split; [lia|].
  apply Z.lt_le_trans with 27; [lia|vm_compute; discriminate].
Qed.

(** `int_pow_fast_path(k, 5)` for k < 27: the table read (or `5u64.pow(k)` in compact builds) *)
Lemma int_pow5_fast c T b k :
  0 <= k < 27 ->
  (compact c = false -> int_pow_ok 5 (SMALL_INT_POW5 T) = true /\ 27 <= zlen (SMALL_INT_POW5 T)) ->
  int_pow_fast_path c T b (as_usize k) false = Ok (5 ^ k).
Proof.
  intros Hk HT. unfold int_pow_fast_path. rewrite as_usize_small by exact Hk.
  destruct (compact c).
  - rewrite as_u32_small by exact Hk. unfold uop, in_u.
    pose proof (pow5_small_bound k Hk) as B. change (2 ^ 64) with B64.
    replace ((0 <=? 5 ^ k) && (5 ^ k <? B64)) with true by lia. reflexivity.
  - destruct (HT eq_refl) as [H1 H2]. unfold index_unchecked.
    fold (zlen (SMALL_INT_POW5 T)).
    replace ((0 <=? k) && (k <? zlen (SMALL_INT_POW5 T))) with true by lia.
    pose proof (check_from_nth0 _ 0 _ H1 k ltac:(lia)) as P. cbv beta in P.
    apply Z.eqb_eq in P. rewrite P. reflexivity.
Qed.

Lemma pow_large_loop_eq c T L fuel v e :
  pow_large_loop c T L fuel v e =
  if LARGE_POW5_STEP T <=? e then
    match fuel with
    | O => None
    | S fuel' =>
        match large_mul c L v (LARGE_POW5 T) with
        | None => None
        | Some v' => pow_large_loop c T L fuel' v' (e - LARGE_POW5_STEP T)
        end
    end
  else Some (v, e).
Proof. destruct fuel; reflexivity. Qed.

Lemma pow_small_loop_eq c fuel v e :
  pow_small_loop c fuel v e =
  if small_step <=? e then
    match fuel with
    | O => None
    | S fuel' =>
        match small_mul c v max_native5 with
        | None => None
        | Some v' => pow_small_loop c fuel' v' (e - small_step)
        end
    end
  else Some (v, e).
Proof. destruct fuel; reflexivity. Qed.

Lemma pow_large_loop_spec c T L : forall fuel v e v1 e1,
  0 < LARGE_POW5_STEP T -> limbs_ok (LARGE_POW5 T) -> lval (LARGE_POW5 T) = 5 ^ LARGE_POW5_STEP T ->
  limbs_ok (vl v) -> 0 < lval (vl v) -> 0 <= e ->
  pow_large_loop c T L fuel v e = Some (v1, e1) ->
  lval (vl v1) * 5 ^ e1 = lval (vl v) * 5 ^ e /\ 0 <= e1 < LARGE_POW5_STEP T /\
  limbs_ok (vl v1) /\ 0 < lval (vl v1) /\
  (zlen (vl v) <= vcap v -> zlen (vl v1) <= vcap v1) /\
  (alloc c = false -> vcap v = BIGINT_LIMBS L -> vcap v1 = BIGINT_LIMBS L).
Proof.
  induction fuel as [|fuel IH]; intros v e v1 e1 Hs HL HV Hv Hp He; rewrite pow_large_loop_eq;
    destruct (LARGE_POW5_STEP T <=? e) eqn:E.
  - discriminate.
  - intros H. inversion H; subst v1 e1. repeat split; try assumption; try lia; auto.
  - destruct (large_mul c L v (LARGE_POW5 T)) as [v'|] eqn:Em; [|discriminate].
    apply large_mul_spec in Em; try assumption; [|left; apply lval_pos_nonempty; exact Hp].
    destruct Em as [V [O [_ [C I]]]].
    assert (P5 : 0 < 5 ^ LARGE_POW5_STEP T) by (apply Z.pow_pos_nonneg; lia).
    intros H. apply IH in H; try assumption; [|rewrite V, HV; apply Z.mul_pos_pos; assumption|lia].
    destruct H as [H1 [H2 [H3 [H4 [H5 H6]]]]].
    split; [|split; [exact H2|split; [exact H3|split; [exact H4|split; [intros Hc; apply H5, I, Hc|]]]]].
    + rewrite H1, V, HV, <- Z.mul_assoc, <- Z.pow_add_r by lia. do 2 f_equal. lia.
    + intros Ha Hc. apply H6; [exact Ha|]. rewrite (C Ha), Hc.
      destruct (zlen (LARGE_POW5 T) =? 1); reflexivity.
  - intros H. inversion H; subst v1 e1. repeat split; try assumption; try lia; auto.
Qed.

Lemma pow_small_loop_spec c : forall fuel v e v1 e1,
  limbs_ok (vl v) -> 0 < lval (vl v) -> 0 <= e ->
  pow_small_loop c fuel v e = Some (v1, e1) ->
  lval (vl v1) * 5 ^ e1 = lval (vl v) * 5 ^ e /\ 0 <= e1 < 27 /\
  limbs_ok (vl v1) /\ 0 < lval (vl v1) /\
  (alloc c = false -> vcap v1 = vcap v) /\
  (zlen (vl v) <= vcap v -> zlen (vl v1) <= vcap v1).
Proof.
  unfold small_step.
  induction fuel as [|fuel IH]; intros v e v1 e1 Hv Hp He; rewrite pow_small_loop_eq; unfold small_step;
    destruct (27 <=? e) eqn:E.
  - discriminate.
  - intros H. inversion H; subst v1 e1. repeat split; try assumption; lia.
  - destruct (small_mul c v max_native5) as [v'|] eqn:Em; [|discriminate].
    rewrite max_native5_eq in Em.
    assert (P5 : 0 < 5 ^ 27 < B64) by (split; vm_compute; reflexivity).
    apply small_mul_spec in Em; try assumption; [|lia].
    destruct Em as [V [O [_ [C [_ [_ I]]]]]].
    intros H. apply IH in H; try assumption; [|rewrite V; apply Z.mul_pos_pos; lia|lia].
    destruct H as [H1 [H2 [H3 [H4 [H5 H6]]]]].
    split; [|split; [exact H2|split; [exact H3|split; [exact H4|split;
      [intros Ha; rewrite H5, C by exact Ha; reflexivity|intros Hc; apply H6, I, Hc]]]]].
    rewrite H1, V, <- Z.mul_assoc, <- Z.pow_add_r by lia. do 2 f_equal. lia.
  - intros H. inversion H; subst v1 e1. repeat split; try assumption; lia.
Qed.

(** `pow(x, exp)`: multiplication by 5^exp *)
Theorem pow5_spec c T L b v e v' :
  (compact c = false -> pow5_tables_ok T = true) ->
  limbs_ok (vl v) -> 0 < lval (vl v) -> 0 <= e ->
  pow5 c T L b v e = Ok (Some v') ->
  lval (vl v') = lval (vl v) * 5 ^ e /\ limbs_ok (vl v') /\
  (zlen (vl v) <= vcap v -> zlen (vl v') <= vcap v').
Proof.
  intros HT Hv Hp He. unfold pow5. intros H.
  apply obind_Some in H. destruct H as [[v1 e1] [H1 H]].
  apply obind_Some in H. destruct H as [[v2 e2] [H2 H]].
  assert (S1 : lval (vl v1) * 5 ^ e1 = lval (vl v) * 5 ^ e /\ 0 <= e1 /\
               limbs_ok (vl v1) /\ 0 < lval (vl v1) /\
               (zlen (vl v) <= vcap v -> zlen (vl v1) <= vcap v1)).
  { destruct (compact c) eqn:Ec.
    - inversion H1; subst v1 e1. repeat split; try assumption; lia.
    - destruct (pow5_tables_ok_inv T (HT eq_refl)) as [T1 [T2 [T3 _]]].
      destruct (LARGE_POW5_STEP T <=? 0) eqn:E0; [discriminate|].
      apply Ok_inj in H1. rename H1 into H1'.
      apply pow_large_loop_spec in H1'; try assumption. intuition lia. }
  destruct S1 as [V1 [He1 [O1 [P1 I1]]]].
  apply Ok_inj in H2. rename H2 into H2'.
  apply pow_small_loop_spec in H2'; try assumption.
  destruct H2' as [V2 [He2 [O2 [P2 [_ I2]]]]].
  destruct (e2 =? 0) eqn:E2; cbn [negb] in H.
  - assert (e2 = 0) by lia. subst e2. inversion H; subst v'.
    rewrite Z.pow_0_r, Z.mul_1_r in V2.
    split; [lia|]. split; [exact O2|]. intros Hc. apply I2, I1, Hc.
  - rewrite int_pow5_fast in H; [|lia|].
    + cbn [bind] in H. apply Ok_inj in H. rename H into H'.
      pose proof (pow5_small_bound e2 ltac:(lia)).
      apply small_mul_spec in H'; try assumption; [|lia].
      destruct H' as [V [O [_ [_ [_ [_ I]]]]]].
      split; [lia|]. split; [exact O|]. intros Hc. apply I, I2, I1, Hc.
    + intros Ec. destruct (pow5_tables_ok_inv T (HT Ec)) as [_ [_ [_ [T4 T5]]]]. split; assumption.
Qed.

(** `Bigint::pow`: base 5 is [pow5]; base 10 is [pow5] followed by the shift *)
Lemma bigint_pow_5 c T L b v e : bigint_pow c T L b v 5 e = pow5 c T L b v e.
Proof.
  unfold bigint_pow. change (Z.rem 5 5 =? 0) with true. change (Z.rem 5 2 =? 0) with false.
  change ((5 =? 2) || (5 =? 5) || (5 =? 10)) with true.
  unfold debug_assert. rewrite andb_false_r. cbn [bind negb]. cbv iota.
  unfold obind. destruct (pow5 c T L b v e) as [[a|]|k|k]; reflexivity.
Qed.

Lemma bigint_pow_10 c T L b v e :
  bigint_pow c T L b v 10 e = obind (pow5 c T L b v e) (fun v1 => shl c L b v1 (as_usize e)).
Proof.
  unfold bigint_pow. change (Z.rem 10 5 =? 0) with true. change (Z.rem 10 2 =? 0) with true.
  change ((10 =? 2) || (10 =? 5) || (10 =? 10)) with true.
  unfold debug_assert. rewrite andb_false_r. cbn [bind negb]. cbv iota. reflexivity.
Qed.

Theorem bigint_pow_5_spec c T L b v e v' :
  (compact c = false -> pow5_tables_ok T = true) ->
  limbs_ok (vl v) -> 0 < lval (vl v) -> 0 <= e ->
  bigint_pow c T L b v 5 e = Ok (Some v') ->
  lval (vl v') = lval (vl v) * 5 ^ e /\ limbs_ok (vl v').
Proof.
  intros HT Hv Hp He. rewrite bigint_pow_5. intros H.
  apply pow5_spec in H; try assumption. tauto.
Qed.

(** base 10: the value handed to the final shift is v * 5^e *)
Theorem bigint_pow_10_five_part c T L b v e v' :
  (compact c = false -> pow5_tables_ok T = true) ->
  limbs_ok (vl v) -> 0 < lval (vl v) -> 0 <= e ->
  bigint_pow c T L b v 10 e = Ok (Some v') ->
  exists v1, pow5 c T L b v e = Ok (Some v1) /\ shl c L b v1 (as_usize e) = Ok (Some v') /\
             lval (vl v1) = lval (vl v) * 5 ^ e /\ limbs_ok (vl v1).
Proof.
  intros HT Hv Hp He. rewrite bigint_pow_10. intros H.
  apply obind_Some in H. destruct H as [v1 [H1 H2]]. exists v1.
  split; [exact H1|]. split; [exact H2|].
  apply pow5_spec in H1; try assumption. tauto.
Qed.

Definition out_val (o : outcome (option vec)) : option Z :=
  match o with Ok (Some v) => Some (lval (vl v)) | _ => None end.

Example pow5_ex :
  out_val (pow5 CFG_s TABLES LIMITS checked_build (mkVec [3] 62) 300) = Some (3 * 5 ^ 300) /\
  out_val (pow5 CFG_sc TABLES LIMITS checked_build (mkVec [3] 62) 300) = Some (3 * 5 ^ 300) /\
  out_val (bigint_pow CFG_s TABLES LIMITS checked_build (mkVec [7; 1] 62) 10 40) = Some ((7 + B64) * 10 ^ 40).
Proof. vm_compute. auto. Qed.

(** a zero bigint and an exponent of at least 2 * 135: the first `large_mul` normalizes the zero
    to the empty vector and the second one returns LARGE_POW5 itself (see
    [large_mul_empty_quirk]); hence the hypothesis [0 < lval (vl v)] of [pow5_spec] *)
Example pow5_zero_quirk :
  out_val (pow5 CFG_s TABLES LIMITS checked_build (mkVec [0] 62) 270) = Some (5 ^ 135).
Proof. vm_compute. reflexivity. Qed.

(** *** [pow5] is total, and `None` means exactly: the result does not fit (stack back-end) *)
Lemma large_mul_heap c L v y : alloc c = true -> large_mul c L v y <> None.
Proof.
  intros Ha. rewrite large_mul_unfold.
  destruct y as [|y0 [|y1 ys]]; try (apply long_mul_heap; exact Ha).
  apply small_mul_heap_gen. exact Ha.
Qed.

(** further side conditions for the failure analysis: LARGE_POW5 is a normalized multi-limb
    number that fits the capacity *)
Definition pow5_large_ok (T : tables) (L : limits) : bool :=
  is_normalized (LARGE_POW5 T) && (2 <=? zlen (LARGE_POW5 T)) && (zlen (LARGE_POW5 T) <=? BIGINT_LIMBS L).

Lemma pow5_large_ok_TABLES : pow5_large_ok TABLES LIMITS = true.
Proof. vm_compute. reflexivity. Qed.

Lemma div_sub_step e s : 0 < s -> (e - s) / s = e / s - 1.
Proof.
  intros Hs. replace (e - s) with (e + (-1) * s) by ring. rewrite Z.div_add by lia. lia.
Qed.

Lemma pow5_mono a e : 0 <= a <= e -> 5 ^ a <= 5 ^ e.
Proof. intros. apply Z.pow_le_mono_r; lia. Qed.

Lemma pow_large_loop_None c T L : forall fuel v e,
  0 < LARGE_POW5_STEP T -> limbs_ok (LARGE_POW5 T) -> lval (LARGE_POW5 T) = 5 ^ LARGE_POW5_STEP T ->
  pow5_large_ok T L = true ->
  limbs_ok (vl v) -> 0 < lval (vl v) -> 0 <= e -> e / LARGE_POW5_STEP T < Z.of_nat fuel ->
  pow_large_loop c T L fuel v e = None ->
  alloc c = false /\ B64 ^ BIGINT_LIMBS L <= lval (vl v) * 5 ^ e.
Proof.
  intros fuel v e Hs HL HV HK. revert v e.
  unfold pow5_large_ok in HK. rewrite !andb_true_iff in HK. destruct HK as [[K1 K2] K3].
  assert (P5 : 0 < 5 ^ LARGE_POW5_STEP T) by (apply Z.pow_pos_nonneg; lia).
  induction fuel as [|fuel IH]; intros v e Hv Hp He Hf; rewrite pow_large_loop_eq;
    destruct (LARGE_POW5_STEP T <=? e) eqn:E; try discriminate.
  - intros _. exfalso.
    assert (1 <= e / LARGE_POW5_STEP T) by (apply Z.div_le_lower_bound; lia). lia.
  - destruct (large_mul c L v (LARGE_POW5 T)) as [v'|] eqn:Em.
    + apply large_mul_spec in Em; try assumption; [|left; apply lval_pos_nonempty; exact Hp].
      destruct Em as [V [O _]].
      intros H. apply IH in H; try assumption.
      * destruct H as [H1 H2]. split; [exact H1|].
        rewrite V, HV, <- Z.mul_assoc, <- Z.pow_add_r in H2 by lia.
        replace (LARGE_POW5_STEP T + (e - LARGE_POW5_STEP T)) with e in H2 by lia. exact H2.
      * rewrite V, HV. apply Z.mul_pos_pos; assumption.
      * lia.
      * rewrite div_sub_step by exact Hs. lia.
    + intros _. destruct (alloc c) eqn:Ha; [apply large_mul_heap in Em; [contradiction|exact Ha]|].
      split; [reflexivity|].
      apply large_mul_None_iff_overflow in Em; try assumption;
        [|lia|lia|apply lval_pos_nonempty; exact Hp].
      rewrite HV in Em.
      assert (lval (vl v) * 5 ^ LARGE_POW5_STEP T <= lval (vl v) * 5 ^ e)
        by (apply Z.mul_le_mono_nonneg_l; [lia|apply pow5_mono; lia]).
      lia.
Qed.

Lemma pow_small_loop_None c L : forall fuel v e,
  limbs_ok (vl v) -> 0 < lval (vl v) -> 0 <= e -> e / 27 < Z.of_nat fuel ->
  (alloc c = false -> vcap v = BIGINT_LIMBS L /\ zlen (vl v) <= vcap v) ->
  pow_small_loop c fuel v e = None ->
  alloc c = false /\ B64 ^ BIGINT_LIMBS L <= lval (vl v) * 5 ^ e.
Proof.
  assert (P5 : 0 < 5 ^ 27 < B64) by (split; vm_compute; reflexivity).
  induction fuel as [|fuel IH]; intros v e Hv Hp He Hf Hc; rewrite pow_small_loop_eq; unfold small_step;
    destruct (27 <=? e) eqn:E; try discriminate.
  - intros _. exfalso.
    assert (1 <= e / 27) by (apply Z.div_le_lower_bound; lia). lia.
  - rewrite max_native5_eq.
    destruct (small_mul c v (5 ^ 27)) as [v'|] eqn:Em.
    + apply small_mul_spec in Em; try assumption; [|lia].
      destruct Em as [V [O [_ [C [_ [_ I]]]]]].
      intros H. apply (IH v' (e - 27)) in H; try assumption.
      * destruct H as [H1 H2]. split; [exact H1|].
        rewrite V, <- Z.mul_assoc, <- Z.pow_add_r in H2 by lia.
        replace (27 + (e - 27)) with e in H2 by lia. exact H2.
      * rewrite V. apply Z.mul_pos_pos; lia.
      * lia.
      * rewrite div_sub_step by lia. lia.
      * intros Ha. destruct (Hc Ha) as [Hc1 Hc2]. rewrite (C Ha). split; [exact Hc1|].
        rewrite <- (C Ha). apply I. exact Hc2.
    + intros _. apply small_mul_None in Em; try assumption; [|lia].
      destruct Em as [Ha [E1 E2]]. split; [exact Ha|].
      destruct (Hc Ha) as [Hc1 Hc2].
      replace (BIGINT_LIMBS L) with (zlen (vl v)) by lia.
      assert (lval (vl v) * 5 ^ 27 <= lval (vl v) * 5 ^ e)
        by (apply Z.mul_le_mono_nonneg_l; [lia|apply pow5_mono; lia]).
      lia.
Qed.

Theorem pow5_total c T L b v e :
  (compact c = false -> pow5_tables_ok T = true /\ pow5_large_ok T L = true) ->
  limbs_ok (vl v) -> 0 < lval (vl v) -> 0 <= e ->
  (alloc c = false -> vcap v = BIGINT_LIMBS L /\ zlen (vl v) <= vcap v) ->
  exists o, pow5 c T L b v e = Ok o /\
    match o with
    | Some v' =>
        lval (vl v') = lval (vl v) * 5 ^ e /\ limbs_ok (vl v') /\
        (alloc c = false -> vcap v' = BIGINT_LIMBS L /\ zlen (vl v') <= vcap v')
    | None => alloc c = false /\ B64 ^ BIGINT_LIMBS L <= lval (vl v) * 5 ^ e
    end.
Proof.
  intros HT Hv Hp He Hc. unfold pow5.
  (* first loop *)
  assert (S1 : (exists v1 e1,
                 (if compact c then Ok (Some (v, e))
                  else if LARGE_POW5_STEP T <=? 0 then Panic PkFuel
                  else Ok (pow_large_loop c T L (S (Z.to_nat (e / LARGE_POW5_STEP T))) v e)) = Ok (Some (v1, e1)) /\
                 lval (vl v1) * 5 ^ e1 = lval (vl v) * 5 ^ e /\ 0 <= e1 /\
                 limbs_ok (vl v1) /\ 0 < lval (vl v1) /\
                 (alloc c = false -> vcap v1 = BIGINT_LIMBS L /\ zlen (vl v1) <= vcap v1)) \/
               ((if compact c then Ok (Some (v, e))
                 else if LARGE_POW5_STEP T <=? 0 then Panic PkFuel
                 else Ok (pow_large_loop c T L (S (Z.to_nat (e / LARGE_POW5_STEP T))) v e)) = Ok None /\
                alloc c = false /\ B64 ^ BIGINT_LIMBS L <= lval (vl v) * 5 ^ e)).
  { destruct (compact c) eqn:Ec.
    - left. exists v, e. repeat split; try assumption; try lia; apply Hc; assumption.
    - destruct (HT eq_refl) as [HT1 HT2].
      destruct (pow5_tables_ok_inv T HT1) as [T1 [T2 [T3 _]]].
      replace (LARGE_POW5_STEP T <=? 0) with false by lia.
      assert (Hf : e / LARGE_POW5_STEP T < Z.of_nat (S (Z.to_nat (e / LARGE_POW5_STEP T)))).
      { assert (0 <= e / LARGE_POW5_STEP T) by (apply Z.div_pos; lia). lia. }
      destruct (pow_large_loop c T L (S (Z.to_nat (e / LARGE_POW5_STEP T))) v e) as [[v1 e1]|] eqn:El.
      + left. exists v1, e1. split; [reflexivity|].
        apply pow_large_loop_spec in El; try assumption.
        destruct El as [E1 [E2 [E3 [E4 [E5 E6]]]]].
        split; [exact E1|]. split; [lia|]. split; [exact E3|]. split; [exact E4|].
        intros Ha. destruct (Hc Ha) as [Hc1 Hc2]. specialize (E6 Ha Hc1). specialize (E5 Hc2).
        split; assumption.
      + right. split; [reflexivity|].
        apply pow_large_loop_None in El; assumption. }
  destruct S1 as [[v1 [e1 [R1 [V1 [He1 [O1 [P1 C1]]]]]]]|[R1 [Ha Hov]]].
  2:{ rewrite R1. exists None. split; [reflexivity|]. split; assumption. }
  rewrite R1. unfold obind at 1. cbn [bind].
  (* second loop *)
  assert (Hf : e1 / 27 < Z.of_nat (S (Z.to_nat (e1 / small_step)))).
  { unfold small_step. assert (0 <= e1 / 27) by (apply Z.div_pos; lia). lia. }
  destruct (pow_small_loop c (S (Z.to_nat (e1 / small_step))) v1 e1) as [[v2 e2]|] eqn:El.
  2:{ apply (pow_small_loop_None c L) in El; try assumption.
      exists None. unfold obind. cbn [bind]. split; [reflexivity|].
      destruct El as [El1 El2]. split; [exact El1|]. rewrite <- V1. exact El2. }
  apply pow_small_loop_spec in El; try assumption.
  destruct El as [V2 [He2 [O2 [P2 [C2 I2]]]]].
  unfold obind. cbn [bind].
  assert (Cv2 : alloc c = false -> vcap v2 = BIGINT_LIMBS L /\ zlen (vl v2) <= vcap v2).
  { intros Ha. destruct (C1 Ha) as [C1a C1b]. split; [rewrite (C2 Ha); exact C1a|apply I2; exact C1b]. }
  destruct (e2 =? 0) eqn:E2; cbn [negb].
  - assert (e2 = 0) by lia. subst e2. rewrite Z.pow_0_r, Z.mul_1_r in V2.
    exists (Some v2). split; [reflexivity|]. split; [lia|]. split; [exact O2|exact Cv2].
  - rewrite int_pow5_fast; [|lia|].
    2:{ intros Ec. destruct (HT Ec) as [HT1 _].
        destruct (pow5_tables_ok_inv T HT1) as [_ [_ [_ [T4 T5]]]]. split; assumption. }
    cbn [bind]. pose proof (pow5_small_bound e2 ltac:(lia)) as B5.
    destruct (small_mul c v2 (5 ^ e2)) as [v'|] eqn:Em.
    + exists (Some v'). split; [reflexivity|].
      apply small_mul_spec in Em; try assumption; [|lia].
      destruct Em as [V [O [_ [C [_ [_ I]]]]]].
      split; [lia|]. split; [exact O|].
      intros Ha. destruct (Cv2 Ha) as [Ca Cb]. split; [rewrite (C Ha); exact Ca|apply I; exact Cb].
    + exists None. split; [reflexivity|].
      apply small_mul_None in Em; try assumption; [|lia].
      destruct Em as [Ha [E3 E4]]. split; [exact Ha|].
      destruct (Cv2 Ha) as [Ca Cb]. replace (BIGINT_LIMBS L) with (zlen (vl v2)) by lia. lia.
Qed.

(** stack back-end: `None` iff the exact result needs more than BIGINT_LIMBS limbs *)
Corollary pow5_None_iff_overflow c T L b v e :
  (compact c = false -> pow5_tables_ok T = true /\ pow5_large_ok T L = true) ->
  limbs_ok (vl v) -> 0 < lval (vl v) -> 0 <= e ->
  alloc c = false -> vcap v = BIGINT_LIMBS L -> zlen (vl v) <= vcap v ->
  (pow5 c T L b v e = Ok None <-> B64 ^ BIGINT_LIMBS L <= lval (vl v) * 5 ^ e).
Proof.
  intros HT Hv Hp He Ha Hc1 Hc2.
  destruct (pow5_total c T L b v e HT Hv Hp He ltac:(auto)) as [o [E S]].
  rewrite E. destruct o as [v'|].
  - destruct S as [V [O C]]. destruct (C Ha) as [Ca Cb].
    pose proof (lval_bound _ O) as Bd.
    pose proof (B64pow_mono (zlen (vl v')) (BIGINT_LIMBS L) ltac:(pose proof (zlen_nonneg (vl v')); lia)).
    split; [discriminate|]. lia.
  - split; [intros _; apply S|reflexivity].
Qed.

Corollary pow5_heap_Some c T L b v e :
  (compact c = false -> pow5_tables_ok T = true /\ pow5_large_ok T L = true) ->
  limbs_ok (vl v) -> 0 < lval (vl v) -> 0 <= e -> alloc c = true ->
  exists v', pow5 c T L b v e = Ok (Some v') /\ lval (vl v') = lval (vl v) * 5 ^ e /\ limbs_ok (vl v').
Proof.
  intros HT Hv Hp He Ha.
  destruct (pow5_total c T L b v e HT Hv Hp He ltac:(intros; congruence)) as [o [E S]].
  destruct o as [v'|]; [|destruct S; congruence].
  exists v'. split; [exact E|]. tauto.
Qed.

Example pow5_overflow_ex :
  (* 5^1708 < 2^3968 = B64^62 <= 5^1709 *)
  out_val (pow5 CFG_s TABLES LIMITS checked_build (mkVec [1] 62) 1708) = Some (5 ^ 1708) /\
  pow5 CFG_s TABLES LIMITS checked_build (mkVec [1] 62) 1709 = Ok None /\
  5 ^ 1708 < B64 ^ 62 <= 5 ^ 1709.
Proof. vm_compute. repeat split; reflexivity || discriminate. Qed.

(** ** the generated tables and limits (every configuration of the crate) *)
Theorem pow5_TABLES_spec c b v e v' :
  limbs_ok (vl v) -> 0 < lval (vl v) -> 0 <= e ->
  pow5 c TABLES LIMITS b v e = Ok (Some v') ->
  lval (vl v') = lval (vl v) * 5 ^ e /\ limbs_ok (vl v').
Proof.
  intros Hv Hp He H. apply pow5_spec in H; try assumption; [tauto|].
  intros _. exact pow5_tables_ok_TABLES.
Qed.

Theorem pow5_TABLES_total c b v e :
  limbs_ok (vl v) -> 0 < lval (vl v) -> 0 <= e ->
  (alloc c = false -> vcap v = 62 /\ zlen (vl v) <= vcap v) ->
  exists o, pow5 c TABLES LIMITS b v e = Ok o /\
    match o with
    | Some v' =>
        lval (vl v') = lval (vl v) * 5 ^ e /\ limbs_ok (vl v') /\
        (alloc c = false -> vcap v' = 62 /\ zlen (vl v') <= vcap v')
    | None => alloc c = false /\ B64 ^ 62 <= lval (vl v) * 5 ^ e
    end.
Proof.
  intros Hv Hp He Hc.
  apply (pow5_total c TABLES LIMITS b v e); try assumption.
  intros _. split; [exact pow5_tables_ok_TABLES|exact pow5_large_ok_TABLES].
Qed.

Theorem pow5_TABLES_None_iff_overflow c b v e :
  limbs_ok (vl v) -> 0 < lval (vl v) -> 0 <= e ->
  alloc c = false -> vcap v = 62 -> zlen (vl v) <= vcap v ->
  (pow5 c TABLES LIMITS b v e = Ok None <-> B64 ^ 62 <= lval (vl v) * 5 ^ e).
Proof.
  intros Hv Hp He Ha Hc1 Hc2.
  apply (pow5_None_iff_overflow c TABLES LIMITS b v e); try assumption.
  intros _. split; [exact pow5_tables_ok_TABLES|exact pow5_large_ok_TABLES].
Qed.

(** ** the hypotheses of the main theorems are satisfiable: concrete instances *)
Ltac limbs := apply limbs_ok_forallb; vm_compute; reflexivity.

Example small_add_from_spec_inst :
  lval [7; 4; 4] = lval [7; B64 - 1; 3] + 5 * B64 ^ 1.
Proof.
  pose proof (small_add_from_spec CFG_s (mkVec [7; B64 - 1; 3] 62) 5 1 (mkVec [7; 4; 4] 62)
                ltac:(limbs) ltac:(split; vm_compute; congruence) ltac:(split; vm_compute; congruence)
                ltac:(vm_compute; reflexivity)) as H.
  apply H.
Qed.

Example small_mul_None_iff_overflow_inst :
  small_mul CFG_s full_ones 2 = None <-> B64 ^ 62 <= lval (vl full_ones) * 2.
Proof.
  apply (small_mul_None_iff_overflow CFG_s full_ones 2);
    [limbs|split; vm_compute; congruence|reflexivity|vm_compute; congruence].
Qed.

Example large_add_from_None_inst :
  large_add_from CFG_s (mkVec [1; 1] 2) [1; 0; 0] 0 = None <->
  ([1; 0; 0] <> [] /\ 2 < zlen [1; 0; 0] + 0) \/ B64 ^ 2 <= lval [1; 1] + lval [1; 0; 0] * B64 ^ 0.
Proof.
  apply (large_add_from_None CFG_s (mkVec [1; 1] 2) [1; 0; 0] 0);
    [limbs|limbs|lia|reflexivity|vm_compute; congruence].
Qed.

Example long_mul_None_iff_overflow_inst :
  long_mul CFG_s LIMITS (repeat (B64 - 1) 31) (repeat (B64 - 1) 32) = None <->
  B64 ^ 62 <= lval (repeat (B64 - 1) 31) * lval (repeat (B64 - 1) 32).
Proof.
  apply (long_mul_None_iff_overflow CFG_s LIMITS);
    [reflexivity|limbs|limbs|discriminate|vm_compute; reflexivity|discriminate|vm_compute; congruence].
Qed.

Example large_mul_spec_inst v' :
  large_mul CFG_s LIMITS (mkVec [3; 9] 62) (LARGE_POW5 TABLES) = Some v' ->
  lval (vl v') = (3 + 9 * B64) * 5 ^ 135.
Proof.
  intros H. apply large_mul_spec in H; [|limbs|limbs|left; discriminate].
  destruct H as [H _]. rewrite H. vm_compute. reflexivity.
Qed.

Example vcompare_spec_inst : vcompare [5; 1] [B64 - 1] = (lval [5; 1] ?= lval [B64 - 1]).
Proof. apply vcompare_spec; [limbs|limbs|reflexivity|reflexivity]. Qed.

Example pow5_spec_inst b v' :
  pow5 CFG_s TABLES LIMITS b (mkVec [3] 62) 1000 = Ok (Some v') -> lval (vl v') = 3 * 5 ^ 1000.
Proof.
  intros H. apply pow5_TABLES_spec in H; [|limbs|vm_compute; reflexivity|lia].
  destruct H as [H _]. rewrite H. reflexivity.
Qed.

Print Assumptions scalar_add_spec.
Print Assumptions scalar_mul_spec.
Print Assumptions add_carry_spec.
Print Assumptions mul_carry_spec.
Print Assumptions small_add_from_spec.
Print Assumptions small_add_from_None.
Print Assumptions small_add_from_None_iff_overflow.
Print Assumptions small_add_spec.
Print Assumptions small_add_None_iff_overflow.
Print Assumptions small_add_failed_spec.
Print Assumptions small_mul_spec.
Print Assumptions small_mul_None.
Print Assumptions small_mul_None_iff_overflow.
Print Assumptions small_mul_failed_spec.
Print Assumptions add_lists_spec.
Print Assumptions large_add_from_spec.
Print Assumptions large_add_from_None.
Print Assumptions large_add_from_None_iff_overflow.
Print Assumptions large_add_spec.
Print Assumptions large_add_None.
Print Assumptions long_mul_spec.
Print Assumptions long_mul_nil.
Print Assumptions long_mul_None.
Print Assumptions long_mul_fits_Some.
Print Assumptions long_mul_heap.
Print Assumptions long_mul_None_iff_overflow.
Print Assumptions large_mul_spec.
Print Assumptions large_mul_empty_quirk.
Print Assumptions large_mul_None_iff_overflow.
Print Assumptions large_mul_fits_Some.
Print Assumptions cmp_be_spec.
Print Assumptions vcompare_full.
Print Assumptions vcompare_spec.
Print Assumptions normalize_list_spec.
Print Assumptions normalized_lower_bound.
Print Assumptions pow5_spec.
Print Assumptions pow5_total.
Print Assumptions pow5_None_iff_overflow.
Print Assumptions bigint_pow_5_spec.
Print Assumptions bigint_pow_10_five_part.
Print Assumptions pow5_TABLES_total.
Print Assumptions pow5_TABLES_None_iff_overflow.
