(** * BellFacts5: soundness of the Bellerophon stage (compact builds), Stages D and E.

    [bellerophon_sound]: in every build mode the function returns normally, and a definite answer
    (non-negative biased exponent) is the correctly rounded value of the input, both for an exact
    significand and for a truncated one (any real in [[w, w+1) * 10^q], for [w >= 2^40]). *)
From Coq Require Import ZArith QArith Qreals Reals List Bool Lia Lra.
From Flocq Require Import Core.Core.
From ML Require Import base.RustSem model.Fmt model.Num model.Number model.Rounding
  model.Bellerophon gen.Consts gen.BTables spec.Decimal spec.Round spec.RoundFacts spec.RneBridge
  proofs.RoundingFactsZ proofs.TableFacts
  proofs.BellFacts0 proofs.BellFacts1 proofs.BellFacts2 proofs.BellFacts3 proofs.BellFacts4.
Open Scope Z_scope.
Local Arguments Z.pow : simpl never.

(** what `extended_to_float` computes from the returned fields *)
Definition pack (f : format) (fp : extfloat) : Z := Z.lor (mant fp) (exp fp * 2 ^ MANTISSA_SIZE f).

(** the side condition on the format: the rounding code's and the specification's own conditions,
    the exponent bookkeeping of [bell_fmt_ok], room for the quarter-cell argument, and the two
    range facts behind the early exits (below the table everything underflows to zero, above it
    everything overflows) *)
Definition bell_ok (f : format) : bool :=
  bell_fmt_ok f && bfmt_ok f && sfmt_ok f && (MANTISSA_SIZE f <=? 58) &&
  (2 ^ 64 * 2 ^ EXPONENT_BIAS f <=? 10 ^ (BIAS + 1)) &&
  (0 <=? NLARGE * STEP - BIAS) && (2 ^ emax f <=? 10 ^ (NLARGE * STEP - BIAS)).

Lemma bell_ok_F32 : bell_ok F32 = true.
Proof. vm_compute. reflexivity. Qed.
Lemma bell_ok_F64 : bell_ok F64 = true.
Proof. vm_compute. reflexivity. Qed.

Lemma bell_ok_props f : bell_ok f = true ->
  bell_fmt_ok f = true /\ bfmt_ok f = true /\ sfmt_ok f = true /\ MANTISSA_SIZE f <= 58 /\
  2 ^ 64 * 2 ^ EXPONENT_BIAS f <= 10 ^ (BIAS + 1) /\
  0 <= NLARGE * STEP - BIAS /\ 2 ^ emax f <= 10 ^ (NLARGE * STEP - BIAS).
Proof.
  unfold bell_ok. intros H.
  apply andb_prop in H. destruct H as [H H6]. apply andb_prop in H. destruct H as [H H5].
  apply andb_prop in H. destruct H as [H H4]. apply andb_prop in H. destruct H as [H H3].
  apply andb_prop in H. destruct H as [H H2]. apply andb_prop in H. destruct H as [H H1].
  repeat split; try assumption; lia.
Qed.

(** ** the two saturated answers, from real-number bounds *)
Lemma RN_zero_R f (v : Q) : rfmt_ok f = true -> sfmt_ok f = true ->
  (0 <= Q2R v <= bpow radix2 (- EXPONENT_BIAS f))%R -> RN f v = 0.
Proof.
  intros Hr Hs [H0 H1]. apply (underflow_threshold f Hs).
  - apply Rle_Qle. rewrite RMicromega.Q2R_0. exact H0.
  - apply Rle_Qle. unfold underflow_thresholdQ. rewrite Q2R_pow2Q.
    rewrite (femin_bias f Hr). replace (1 - EXPONENT_BIAS f - 1) with (- EXPONENT_BIAS f) by lia.
    exact H1.
Qed.

Lemma RN_inf_R f (v : Q) : sfmt_ok f = true ->
  (bpow radix2 (emax f) <= Q2R v)%R -> RN f v = RoundFacts.inf_bits f.
Proof.
  intros Hs H. apply (overflow_threshold f Hs). apply Rle_Qle.
  rewrite (Q2R_overflow_threshold f Hs).
  pose proof (bpow_gt_0 radix2 (emax f - prec f - 1)). lra.
Qed.

(** the hypothesis on the value, as real numbers *)
Lemma value_R (w q : Z) (t : bool) (v : Q) :
  (if t then (inject_Z w * pow10Q q <= v /\ v < inject_Z (w + 1) * pow10Q q)%Q
   else (v == inject_Z w * pow10Q q)%Q) ->
  if t then (IZR w * bpow r10 q <= Q2R v < IZR (w + 1) * bpow r10 q)%R
  else Q2R v = (IZR w * bpow r10 q)%R.
Proof.
  destruct t.
  - intros [H1 H2]. apply Qle_Rle in H1. apply Qlt_Rlt in H2.
    rewrite Q2R_mult, Q2R_inject_Z, Q2R_pow10Q in H1, H2. split; assumption.
  - intros H. apply Qeq_eqR in H. rewrite Q2R_mult, Q2R_inject_Z, Q2R_pow10Q in H. exact H.
Qed.

Lemma lz64_le2 x : 2 ^ 61 <= x < 2 ^ 64 -> 0 <= lz64 x <= 2 /\ 2 ^ 63 <= x * 2 ^ lz64 x < 2 ^ 64.
Proof.
  intros Hx. assert (P61 : 0 < 2 ^ 61) by (vm_compute; reflexivity).
  destruct (lz64_spec x ltac:(lia)) as [Hk Hn]. split; [|exact Hn]. split; [lia|].
  destruct (Z_le_gt_dec (lz64 x) 2) as [|Hgt]; [assumption|exfalso].
  pose proof (pow2_le 3 (lz64 x) ltac:(lia)) as Hle. change (2 ^ 3) with 8 in Hle.
  assert (8 * 2 ^ 61 = 2 ^ 64) by reflexivity. nia.
Qed.

(** the fields of the saturated answers are packed without loss by `extended_to_float` *)
Lemma etf_zero f b : rfmt_ok f = true -> extended_to_float f b bfp_zero = Ok (pack f bfp_zero).
Proof.
  intros Hr. apply (extended_to_float_fields f Hr b bfp_zero).
  destruct (rfmt_ok_props f Hr) as [Pms Pew _ _ _ _ Pinf _ _ _ _].
  pose proof (pow2_le 2 (ewidth f) ltac:(lia)) as H. change (2 ^ 2) with 4 in H.
  pose proof (pow2_pos (MANTISSA_SIZE f) ltac:(lia)).
  unfold fields_shape, bfp_zero. cbn [mant exp]. repeat split; intros; lia.
Qed.

Lemma etf_inf f b : rfmt_ok f = true -> extended_to_float f b (bfp_inf f) = Ok (pack f (bfp_inf f)).
Proof.
  intros Hr. apply (extended_to_float_fields f Hr b (bfp_inf f)).
  destruct (rfmt_ok_props f Hr) as [Pms Pew _ _ _ _ Pinf _ _ _ _].
  pose proof (pow2_le 2 (ewidth f) ltac:(lia)) as H. change (2 ^ 2) with 4 in H.
  pose proof (pow2_pos (MANTISSA_SIZE f) ltac:(lia)).
  unfold fields_shape, bfp_inf. cbn [mant exp]. repeat split; intros; lia.
Qed.

(** ** the theorem *)
Theorem bellerophon_sound_strong : forall f b w q t, bell_ok f = true ->
  0 <= w < 2 ^ 64 -> - 2 ^ 31 <= q < 2 ^ 31 -> (t = true -> 2 ^ 40 <= w) ->
  exists fp, bellerophon BTABLES f b (mkNumber q w t) = Ok fp /\
   (0 <= exp fp ->
      extended_to_float f b fp = Ok (pack f fp) /\
      forall v : Q, (if t then (inject_Z w * pow10Q q <= v /\ v < inject_Z (w + 1) * pow10Q q)%Q
                     else (v == inject_Z w * pow10Q q)%Q) ->
      RN f v = pack f fp).
Proof.
  intros f b w q t Hok Hw Hq Ht.
  destruct (bell_ok_props f Hok) as (Hbf & Hbb & Hs & Hms & Hunder & Htop0 & Hover).
  destruct (bell_fmt_ok_props f Hbf) as (Hr & HB & Hi & Hsum).
  destruct (rfmt_ok_props f Hr) as [Pms Pew _ _ _ _ Pinf _ _ _ _].
  destruct bt_props_true as [[Hs0 Hs1] [Hb0 Hb1] _ _ _ _ [Hl0 Hl1] Htop].
  assert (P40 : 0 < 2 ^ 40) by (vm_compute; reflexivity).
  set (B := EXPONENT_BIAS f) in *.
  (* 1. zero significand *)
  destruct (Z.eq_dec w 0) as [Hw0|Hw0].
  { exists bfp_zero. split; [apply bellerophon_zero_exit; [lia|left; exact Hw0]|].
    intros _. split; [apply etf_zero; exact Hr|]. intros v Hv.
    apply value_R in Hv. destruct t; [specialize (Ht eq_refl); lia|].
    subst w. rewrite Rmult_0_l in Hv.
    unfold pack, bfp_zero. cbn [mant exp]. rewrite Z.mul_0_l, Z.lor_0_l.
    apply RN_zero_R; try assumption. rewrite Hv. split; [lra|apply bpow_ge_0]. }
  (* bounds shared by the exits *)
  assert (Hxw : forall v : Q,
     (if t then (IZR w * bpow r10 q <= Q2R v < IZR (w + 1) * bpow r10 q)%R
      else Q2R v = (IZR w * bpow r10 q)%R) ->
     (bpow r10 q <= Q2R v < c64 * bpow r10 q)%R).
  { intros v Hv. pose proof (bpow_gt_0 r10 q) as P10.
    assert (H1w : (1 <= IZR w)%R) by (apply IZR_le; lia).
    assert (Hw1 : (IZR (w + 1) <= c64)%R) by (rewrite <- c64_IZR; apply IZR_le; lia).
    assert (Hww : (IZR w < IZR (w + 1))%R) by (apply IZR_lt; lia).
    assert (A1 : (bpow r10 q <= IZR w * bpow r10 q)%R) by nra.
    assert (A2 : (IZR (w + 1) * bpow r10 q <= c64 * bpow r10 q)%R) by (apply Rmult_le_compat_r; lra).
    assert (A3 : (IZR w * bpow r10 q < IZR (w + 1) * bpow r10 q)%R) by (apply Rmult_lt_compat_r; lra).
    destruct t; lra. }
  (* 2. below the table: zero *)
  destruct (Z_lt_ge_dec (q + BIAS) 0) as [Hlow|Hlow].
  { exists bfp_zero. split; [apply bellerophon_zero_exit; [lia|right; exact Hlow]|].
    intros _. split; [apply etf_zero; exact Hr|]. intros v Hv. apply value_R in Hv. apply Hxw in Hv.
    unfold pack, bfp_zero. cbn [mant exp]. rewrite Z.mul_0_l, Z.lor_0_l.
    apply RN_zero_R; try assumption. fold B.
    pose proof (bpow_gt_0 r10 q) as P10. split; [lra|].
    apply Rle_trans with (c64 * bpow r10 (- (BIAS + 1)))%R.
    - apply Rlt_le. eapply Rlt_le_trans; [apply Hv|].
      apply Rmult_le_compat_l; [apply bpow_ge_0|]. apply bpow_le. lia.
    - apply IZR_le in Hunder. rewrite mult_IZR, c64_IZR, IZR_pow2, IZR_pow10 in Hunder by lia.
      pose proof (bpow_opp_mul r10 (BIAS + 1)) as I1. pose proof (bpow_opp_mul radix2 B) as I2.
      pose proof (bpow_gt_0 r10 (- (BIAS + 1))) as Q1. pose proof (bpow_gt_0 radix2 (- B)) as Q2.
      pose proof (bpow_gt_0 radix2 B) as Q3. pose proof c64_pos as Q4.
      pose proof (bpow_gt_0 r10 (BIAS + 1)) as Q0.
      set (a := bpow r10 (BIAS + 1)) in *. set (a' := bpow r10 (- (BIAS + 1))) in *.
      set (d := bpow radix2 B) in *. set (d' := bpow radix2 (- B)) in *.
      (* c64 * d <= a  ->  c64 * a' <= d' *)
      apply Rmult_le_reg_r with d; [exact Q3|]. rewrite (Rmult_comm d' d), I2.
      apply Rmult_le_reg_r with a; [lra|].
      replace (c64 * a' * d * a)%R with (c64 * d * (a * a'))%R by ring. rewrite I1. lra. }
  (* 3. above the table: infinity *)
  destruct (Z_le_gt_dec NLARGE (lidx q)) as [Hhigh|Hhigh].
  { assert (Hex : NLARGE * STEP <= q + BIAS).
    { unfold lidx in Hhigh. pose proof (Z.mul_div_le (q + BIAS) STEP ltac:(lia)). nia. }
    exists (bfp_inf f). split; [apply bellerophon_inf_exit; [lia|exact Hw0|exact Hex]|].
    intros _. split; [apply etf_inf; exact Hr|]. intros v Hv. apply value_R in Hv. apply Hxw in Hv.
    unfold pack, bfp_inf. cbn [mant exp]. rewrite Z.lor_0_l.
    rewrite (RN_inf_R f v Hs).
    - unfold RoundFacts.inf_bits. rewrite Pinf. reflexivity.
    - apply Rle_trans with (bpow r10 (NLARGE * STEP - BIAS)).
      + apply IZR_le in Hover. rewrite IZR_pow10 in Hover by lia.
        rewrite IZR_pow2 in Hover; [exact Hover|]. unfold emax. apply Z.lt_le_incl, pow2_pos. lia.
      + eapply Rle_trans; [|apply Hv]. apply bpow_le. lia. }
  (* 4. inside the table *)
  apply Z.ge_le in Hlow. apply Z.gt_lt in Hhigh.
  assert (Hw' : 0 < w < 2 ^ 64) by lia.
  pose proof (bellerophon_core f b q w t Hbf Hw' Hlow Hhigh) as Hcore. cbv zeta in Hcore. fold B in Hcore.
  destruct (index_facts q Hlow Hhigh) as (Hsi & Hli & Hqe).
  destruct (stage2_range q w Hw' Hsi Hli) as [Hx3 He3].
  pose proof (errs_range q w t Hw') as Herr.
  destruct (lz64_le2 _ Hx3) as [Hs4 HM].
  assert (Hbound : forall v : Q,
     (if t then (inject_Z w * pow10Q q <= v /\ v < inject_Z (w + 1) * pow10Q q)%Q
      else (v == inject_Z w * pow10Q q)%Q) ->
     let x3 := fst (stage2 q w) in let e3 := snd (stage2 q w) in let s4 := lz64 x3 in
     (IZR (x3 * 2 ^ s4 - 2 ^ s4) * bpow radix2 (e3 - s4 + B - B) <= Q2R v
      <= IZR (x3 * 2 ^ s4 + errs q w t * 2 ^ s4 - 2) * bpow radix2 (e3 - s4 + B - B))%R).
  { intros v Hv. cbv zeta. apply value_R in Hv.
    pose proof (stage2_bound q w t (Q2R v) Hw' Hlow Hhigh Ht Hv) as [G1 G2]. cbv zeta in G1, G2.
    set (x3 := fst (stage2 q w)) in *. set (e3 := snd (stage2 q w)) in *. set (s4 := lz64 x3) in *.
    replace (e3 - s4 + B - B) with (e3 - s4) by lia.
    assert (Ee : bpow radix2 e3 = (IZR (2 ^ s4) * bpow radix2 (e3 - s4))%R).
    { rewrite IZR_pow2 by lia. rewrite <- bpow_plus. f_equal. lia. }
    pose proof (bpow_gt_0 radix2 (e3 - s4)) as Pe.
    assert (H1s : (1 <= IZR (2 ^ s4))%R).
    { apply IZR_le. pose proof (pow2_pos s4 ltac:(lia)). lia. }
    rewrite Ee in G1, G2.
    split.
    - eapply Rle_trans; [|exact G1]. rewrite minus_IZR, mult_IZR. apply Req_le. ring.
    - eapply Rle_trans; [exact G2|]. rewrite minus_IZR, plus_IZR, !mult_IZR. simpl (IZR 2).
      nra. }
  cbv zeta in Hbound.
  set (x3 := fst (stage2 q w)) in *. set (e3 := snd (stage2 q w)) in *.
  set (s4 := lz64 x3) in *. set (M := x3 * 2 ^ s4) in *.
  set (e5 := e3 - s4 + B) in *. set (err := errs q w t * 2 ^ s4) in *.
  assert (Hp4 : 1 <= 2 ^ s4 <= 4).
  { pose proof (pow2_le s4 2 ltac:(lia)). pose proof (pow2_pos s4 ltac:(lia)). change (2 ^ 2) with 4 in *. lia. }
  assert (H27 : 2 ^ 27 = 134217728) by reflexivity.
  assert (H64 : 2 ^ 64 = 18446744073709551616) by reflexivity.
  assert (H20 : 2 ^ 20 = 1048576) by reflexivity.
  assert (H30 : 2 ^ 30 = 1073741824) by reflexivity.
  assert (Herr4 : 4 <= err <= 2 ^ 30) by (unfold err; nia).
  (* a value below (M + err - 2) * 2^(e5 - B) with M + err - 2 < 2^k and k + e5 <= 0 underflows *)
  assert (Hzero : forall (v : Q) k, 0 <= k -> M + err - 2 < 2 ^ k -> k + e5 <= 0 ->
     (if t then (inject_Z w * pow10Q q <= v /\ v < inject_Z (w + 1) * pow10Q q)%Q
      else (v == inject_Z w * pow10Q q)%Q) -> RN f v = 0).
  { intros v k Hk Hlt Hke Hv. pose proof (Hbound v Hv) as [G1 G2].
    apply RN_zero_R; try assumption. fold B. split.
    - eapply Rle_trans; [|exact G1]. apply Rmult_le_pos; [apply IZR_le; lia|apply bpow_ge_0].
    - eapply Rle_trans; [exact G2|].
      apply Rle_trans with (bpow radix2 k * bpow radix2 (e5 - B))%R.
      + apply Rmult_le_compat_r; [apply bpow_ge_0|]. rewrite <- IZR_pow2 by lia. apply IZR_le. lia.
      + rewrite <- bpow_plus. apply bpow_le. lia. }
  destruct (65 <? 1 - e5) eqn:E1.
  { exists bfp_zero. split; [exact Hcore|]. intros _. split; [apply etf_zero; exact Hr|]. intros v Hv.
    unfold pack, bfp_zero. cbn [mant exp]. rewrite Z.mul_0_l, Z.lor_0_l.
    apply (Hzero v 65); try assumption; try lia. }
  destruct (negb (acc f err M e5)) eqn:E2.
  { exists (mkExt M (e5 + INVALID_FP f)). split; [exact Hcore|]. cbn [exp]. intros Hneg. exfalso.
    unfold e5 in Hneg. lia. }
  apply negb_false_iff in E2.
  destruct (1 - e5 =? 65) eqn:E3.
  { exists bfp_zero. split; [exact Hcore|]. intros _. split; [apply etf_zero; exact Hr|]. intros v Hv.
    unfold pack, bfp_zero. cbn [mant exp]. rewrite Z.mul_0_l, Z.lor_0_l.
    assert (Ee5 : e5 = - 64) by lia.
    unfold acc in E2. cbv zeta in E2. unfold bshift in E2. rewrite Ee5 in E2.
    replace (-64 <=? - (63 - MANTISSA_SIZE f)) with true in E2 by lia.
    change (64 <? 1 - -64) with true in E2. cbv iota in E2.
    apply (Hzero v 64); try assumption; lia. }
  exists (round_spec f (rnd_ne M) e5). split; [exact Hcore|]. intros _. split.
  { destruct (round_ne_packed_Z f Hr b M e5 HM ltac:(lia)) as (_ & G & _). exact G. }
  intros v Hv.
  change (pack f (round_spec f (rnd_ne M) e5)) with (res f M e5).
  apply (band_RN f err (2 ^ s4) M e5 v); try assumption; try lia.
  - unfold err. nia.
  - pose proof (pow2_le 5 (63 - MANTISSA_SIZE f) ltac:(lia)) as H5. change (2 ^ 5) with 32 in H5. lia.
  - pose proof (Hbound v Hv) as [G1 G2]. fold M in G1, G2. split; [exact G1|exact G2].
Qed.

Theorem bellerophon_sound : forall f b w q t, bell_ok f = true ->
  0 <= w < 2 ^ 64 -> - 2 ^ 31 <= q < 2 ^ 31 -> (t = true -> 2 ^ 40 <= w) ->
  exists fp, bellerophon BTABLES f b (mkNumber q w t) = Ok fp /\
   (0 <= exp fp ->
      forall v : Q, (if t then (inject_Z w * pow10Q q <= v /\ v < inject_Z (w + 1) * pow10Q q)%Q
                     else (v == inject_Z w * pow10Q q)%Q) ->
      RN f v = pack f fp).
Proof.
  intros f b w q t Hok Hw Hq Ht.
  destruct (bellerophon_sound_strong f b w q t Hok Hw Hq Ht) as (fp & H1 & H2).
  exists fp. split; [exact H1|]. intros He. exact (proj2 (H2 He)).
Qed.

(** ** examples *)
Example bell_one : bellerophon BTABLES F64 release_build (mkNumber 0 1 false) = Ok (mkExt 0 1023).
Proof. vm_compute. reflexivity. Qed.
Example bell_one_pack : pack F64 (mkExt 0 1023) = 4607182418800017408 /\ RN F64 (1 # 1) = 4607182418800017408.
Proof. split; vm_compute; reflexivity. Qed.

(** the F1 witness (a truncated significand whose dropped digits matter) is now declined *)
Example bell_F1_declined :
  match bellerophon BTABLES F64 checked_build (mkNumber (-324) 1062871587088380183 true) with
  | Ok fp => exp fp <? 0
  | _ => false
  end = true.
Proof. vm_compute. reflexivity. Qed.

(** the hypotheses of the theorem are satisfiable, exact and truncated *)
Example bellerophon_sound_ex1 :
  bellerophon BTABLES F64 checked_build (mkNumber (-3) 123456789 false) = Ok (mkExt 3980286312216265 1039) /\
  RN F64 (inject_Z 123456789 * pow10Q (-3)) = pack F64 (mkExt 3980286312216265 1039).
Proof.
  assert (E : bellerophon BTABLES F64 checked_build (mkNumber (-3) 123456789 false)
              = Ok (mkExt 3980286312216265 1039)) by (vm_compute; reflexivity).
  split; [exact E|].
  destruct (bellerophon_sound F64 checked_build 123456789 (-3) false bell_ok_F64) as (fp & H1 & H2).
  - vm_compute. split; congruence.
  - vm_compute. split; congruence.
  - intros; discriminate.
  - rewrite E in H1. injection H1 as <-. apply H2; [cbn [exp]; lia|reflexivity].
Qed.

(** a truncated 19-digit significand: every real the dropped digits could stand for rounds alike *)
Example bellerophon_sound_ex2 : forall v : Q,
  (inject_Z (10 ^ 18 + 1234567) * pow10Q 5 <= v /\ v < inject_Z (10 ^ 18 + 1234567 + 1) * pow10Q 5)%Q ->
  RN F64 v = pack F64 (mkExt 1456864850175925 1099).
Proof.
  intros v Hv.
  assert (E : bellerophon BTABLES F64 release_build (mkNumber 5 (10 ^ 18 + 1234567) true)
              = Ok (mkExt 1456864850175925 1099)) by (vm_compute; reflexivity).
  destruct (bellerophon_sound F64 release_build (10 ^ 18 + 1234567) 5 true bell_ok_F64) as (fp & H1 & H2).
  - vm_compute. split; congruence.
  - vm_compute. split; congruence.
  - intros _. vm_compute. congruence.
  - rewrite E in H1. injection H1 as <-. apply H2; [cbn [exp]; lia|exact Hv].
Qed.

Example bell_F32_ex :
  bellerophon BTABLES F32 release_build (mkNumber 5 (10 ^ 18 + 7) true) = Ok (mkExt 2713622 203).
Proof. vm_compute. reflexivity. Qed.

(** why the theorem asks [2^40 <= w] for a truncated significand: the cap [min (lz + 1) 24] on the
    truncation count under-counts for shorter significands (never produced by the crate's own
    parser, whose truncated significands have 19 digits).  With [w = 1] the dropped digits can
    stand for anything in [[1, 2)], yet the answer 1.0 is reported as definite. *)
Example small_truncated_corner :
  bellerophon BTABLES F32 checked_build (mkNumber 0 1 true) = Ok (mkExt 0 127) /\
  (inject_Z 1 * pow10Q 0 <= 3 # 2 /\ 3 # 2 < inject_Z (1 + 1) * pow10Q 0)%Q /\
  RN F32 (3 # 2) <> pack F32 (mkExt 0 127).
Proof. split; [vm_compute; reflexivity|]. split; [split; vm_compute; congruence|vm_compute; congruence]. Qed.

Print Assumptions bellerophon_sound_strong.
Print Assumptions bellerophon_sound.
