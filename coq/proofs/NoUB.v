(** * NoUB: the model of `parse_float` never reaches an undefined memory access (property C08).

    In the model every *unchecked* table access of the crate (`get_unchecked` in
    `pow_fast_path` / `int_pow_fast_path`, src/num.rs, non-compact builds) is [index_unchecked],
    whose outcome is [UB UbIndex] when the index is out of range.  This file proves that for
    arbitrary input bytes, lengths and exponents the outcome of [parse_float] is never [UB _]:
    it is [Ok _] (a float is returned) or [Panic _] (a clean panic), provided the tables are
    long enough for the per-format constants ([ub_params_ok], a decidable condition which is
    discharged by computation for the generated data of the eight configurations).

    Scope: [parse_float] of model/Top.v, in which the big-integer vectors are the list-level
    model of model/Vec.v (no raw memory).  The raw-memory operations of the two vector back-ends
    (`set_len`, `push_unchecked`, ... - the other [ub_kind]s) are the subject of model/RawVec.v
    and are not covered by this file; in compact builds `pow_fast_path` is the dumped result of
    `powf/powd` (src/libm.rs), whose own table reads are outside the model. *)
From Coq Require Import ZArith List Bool Lia Znumtheory.
From Coq Require Import ZifyBool.
From ML Require Import base.RustSem model.Fmt model.Mask model.Num model.Rounding model.FloatOps
  model.Number model.Parse model.Lemire model.Bellerophon model.Vec model.Bigint model.Slow
  model.Top gen.Consts gen.Tables gen.BTables gen.PowDump.
Import ListNotations.
Open Scope Z_scope.
Local Opaque Z.pow.

(** ** The predicate and the generic lemmas *)

Definition noUB {A} (x : outcome A) : Prop := forall k, x <> UB k.

Lemma bind_UB {A B} (x : outcome A) (g : A -> outcome B) k :
  bind x g = UB k -> x = UB k \/ exists a, x = Ok a /\ g a = UB k.
Proof.
  destruct x as [a|p|u]; cbn [bind]; intros H.
  - right. exists a. split; [reflexivity|exact H].
  - discriminate H.
  - left. injection H as H. rewrite H. reflexivity.
Qed.

Lemma noUB_Ok {A} (a : A) : noUB (Ok a).
Proof. intros k H. discriminate H. Qed.

Lemma noUB_Panic {A} p : noUB (@Panic A p).
Proof. intros k H. discriminate H. Qed.

Lemma noUB_bind {A B} (x : outcome A) (g : A -> outcome B) :
  noUB x -> (forall a, x = Ok a -> noUB (g a)) -> noUB (bind x g).
Proof.
  intros Hx Hg k H. apply bind_UB in H. destruct H as [H|[a [Ha H]]].
  - exact (Hx k H).
  - exact (Hg a Ha k H).
Qed.

Lemma Ok_inj {A} (a a' : A) : Ok a = Ok a' -> a = a'.
Proof. intros H. injection H as H. exact H. Qed.

Lemma noUB_is_ub {A} (x : outcome A) : noUB x <-> is_ub x = false.
Proof.
  split.
  - intros H. destruct x as [a|p|u]; try reflexivity. exfalso. exact (H u eq_refl).
  - intros H k E. subst x. discriminate H.
Qed.

(** a result that is not UB is a value or a clean panic *)
Lemma noUB_cases {A} (x : outcome A) : noUB x -> (exists a, x = Ok a) \/ (exists p, x = Panic p).
Proof.
  intros H. destruct x as [a|p|u].
  - left. exists a. reflexivity.
  - right. exists p. reflexivity.
  - exfalso. exact (H u eq_refl).
Qed.

Create HintDb noub.
#[export] Hint Resolve noUB_Ok noUB_Panic : noub.

(** one structural step: split a [bind], an [if] or a [match]; close known leaves *)
Ltac nub_step :=
  match goal with
  | |- noUB (Ok _) => apply noUB_Ok
  | |- noUB (Panic _) => apply noUB_Panic
  | |- noUB (bind _ _) => apply noUB_bind; [ | intros ? ?; cbv beta]
  | |- noUB (obind _ _) => unfold obind
  | |- noUB (oret _) => unfold oret
  | |- noUB (if ?c then _ else _) => destruct c eqn:?
  | |- noUB (match ?x with _ => _ end) => destruct x eqn:?
  | |- noUB _ => solve [auto with noub]
  end.
Ltac nub := repeat nub_step.

(** ** base/RustSem.v: the arithmetic helpers and the checked accesses never return UB *)

Lemma noUB_uop b n r : noUB (uop b n r).
Proof. unfold uop. nub. Qed.
Lemma noUB_sop b n r : noUB (sop b n r).
Proof. unfold sop. nub. Qed.
Lemma noUB_shl_u b n x k : noUB (shl_u b n x k).
Proof. unfold shl_u. nub. Qed.
Lemma noUB_shr_u b n x k : noUB (shr_u b n x k).
Proof. unfold shr_u. nub. Qed.
Lemma noUB_shr_s b n x k : noUB (shr_s b n x k).
Proof. unfold shr_s. nub. Qed.
Lemma noUB_debug_assert b c : noUB (debug_assert b c).
Proof. unfold debug_assert. nub. Qed.
Lemma noUB_unwrap {A} (o : option A) : noUB (unwrap o).
Proof. unfold unwrap. nub. Qed.
Lemma noUB_index_checked l i : noUB (index_checked l i).
Proof. unfold index_checked. nub. Qed.
Lemma noUB_index_checked2 l i : noUB (index_checked2 l i).
Proof. unfold index_checked2. nub. Qed.
#[export] Hint Resolve noUB_uop noUB_sop noUB_shl_u noUB_shr_u noUB_shr_s noUB_debug_assert
  noUB_unwrap noUB_index_checked noUB_index_checked2 : noub.

Lemma noUB_u64_add b x y : noUB (u64_add b x y). Proof. apply noUB_uop. Qed.
Lemma noUB_u64_sub b x y : noUB (u64_sub b x y). Proof. apply noUB_uop. Qed.
Lemma noUB_u64_mul b x y : noUB (u64_mul b x y). Proof. apply noUB_uop. Qed.
Lemma noUB_u64_shl b x k : noUB (u64_shl b x k). Proof. apply noUB_shl_u. Qed.
Lemma noUB_u64_shr b x k : noUB (u64_shr b x k). Proof. apply noUB_shr_u. Qed.
Lemma noUB_u32_add b x y : noUB (u32_add b x y). Proof. apply noUB_uop. Qed.
Lemma noUB_u32_shl b x k : noUB (u32_shl b x k). Proof. apply noUB_shl_u. Qed.
Lemma noUB_u8_sub b x y : noUB (u8_sub b x y). Proof. apply noUB_uop. Qed.
Lemma noUB_i32_add b x y : noUB (i32_add b x y). Proof. apply noUB_sop. Qed.
Lemma noUB_i32_sub b x y : noUB (i32_sub b x y). Proof. apply noUB_sop. Qed.
Lemma noUB_i32_mul b x y : noUB (i32_mul b x y). Proof. apply noUB_sop. Qed.
Lemma noUB_i32_neg b x : noUB (i32_neg b x). Proof. apply noUB_sop. Qed.
Lemma noUB_i64_mul b x y : noUB (i64_mul b x y). Proof. apply noUB_sop. Qed.
Lemma noUB_i64_sub b x y : noUB (i64_sub b x y). Proof. apply noUB_sop. Qed.
Lemma noUB_i64_add b x y : noUB (i64_add b x y). Proof. apply noUB_sop. Qed.
Lemma noUB_usize_add b x y : noUB (usize_add b x y). Proof. apply noUB_uop. Qed.
Lemma noUB_usize_sub b x y : noUB (usize_sub b x y). Proof. apply noUB_uop. Qed.
#[export] Hint Resolve noUB_u64_add noUB_u64_sub noUB_u64_mul noUB_u64_shl noUB_u64_shr
  noUB_u32_add noUB_u32_shl noUB_u8_sub noUB_i32_add noUB_i32_sub noUB_i32_mul noUB_i32_neg
  noUB_i64_mul noUB_i64_sub noUB_i64_add noUB_usize_add noUB_usize_sub : noub.

(** ** model/Mask.v *)
Lemma noUB_nth_bit b n : noUB (nth_bit b n).
Proof. unfold nth_bit. nub. Qed.
#[export] Hint Resolve noUB_nth_bit : noub.
Lemma noUB_lower_n_mask b n : noUB (lower_n_mask b n).
Proof. unfold lower_n_mask. nub. Qed.
Lemma noUB_lower_n_halfway b n : noUB (lower_n_halfway b n).
Proof. unfold lower_n_halfway. nub. Qed.
#[export] Hint Resolve noUB_lower_n_mask noUB_lower_n_halfway : noub.

(** ** model/Num.v *)
Lemma noUB_from_bits f b u : noUB (from_bits f b u).
Proof. unfold from_bits. nub. Qed.
Lemma noUB_float_exponent f b x : noUB (float_exponent f b x).
Proof. unfold float_exponent. nub. Qed.
Lemma noUB_float_mantissa f b x : noUB (float_mantissa f b x).
Proof. unfold float_mantissa. nub. Qed.
#[export] Hint Resolve noUB_from_bits noUB_float_exponent noUB_float_mantissa : noub.
Lemma noUB_extended_to_float f b x : noUB (extended_to_float f b x).
Proof. unfold extended_to_float. nub. Qed.
#[export] Hint Resolve noUB_extended_to_float : noub.

(** ** model/Rounding.v *)
Lemma noUB_round_nearest_tie_even b fp s cb : noUB (round_nearest_tie_even b fp s cb).
Proof. unfold round_nearest_tie_even. nub. Qed.
Lemma noUB_round_down b fp s : noUB (round_down b fp s).
Proof. unfold round_down. nub. Qed.
#[export] Hint Resolve noUB_round_nearest_tie_even noUB_round_down : noub.
Lemma noUB_round f b fp cb :
  (forall fp' s, noUB (cb fp' s)) -> noUB (round f b fp cb).
Proof. intros Hcb. unfold round. nub. Qed.

(** ** model/Parse.v: arbitrary bytes, arbitrary lengths, arbitrary exponent *)
Lemma noUB_pnf_loop b l : forall m cnt, noUB (pnf_loop b l m cnt).
Proof.
  induction l as [|c r IH]; intros m cnt; cbn [pnf_loop]; nub.
Qed.
#[export] Hint Resolve noUB_pnf_loop : noub.
Lemma noUB_parse_number_fast b i fr e : noUB (parse_number_fast b i fr e).
Proof. unfold parse_number_fast. nub. Qed.
Lemma noUB_push_digit b m c : noUB (push_digit b m c).
Proof. unfold push_digit. nub. Qed.
#[export] Hint Resolve noUB_parse_number_fast noUB_push_digit : noub.
Lemma noUB_pn_int b l : forall m count, noUB (pn_int b l m count).
Proof.
  induction l as [|c r IH]; intros m count; cbn [pn_int]; nub.
Qed.
Lemma noUB_pn_skip b l : forall m fc, noUB (pn_skip b l m fc).
Proof.
  induction l as [|c r IH]; intros m fc; cbn [pn_skip]; nub.
Qed.
Lemma noUB_pn_frac b l : forall m count fc, noUB (pn_frac b l m count fc).
Proof.
  induction l as [|c r IH]; intros m count fc; cbn [pn_frac]; nub.
Qed.
#[export] Hint Resolve noUB_pn_int noUB_pn_skip noUB_pn_frac : noub.
Lemma noUB_parse_number b i fr e : noUB (parse_number b i fr e).
Proof. unfold parse_number. nub. Qed.
#[export] Hint Resolve noUB_parse_number : noub.

(** ** The side condition on table lengths and constants

    Only non-compact builds read tables without a bounds check.  [fast_table] is the table that
    `pow_fast_path` reads for the format. *)
Definition fast_table (T : tables) (f : format) : list Z :=
  if fbits f =? 32 then SMALL_F32_POW10 T else SMALL_F64_POW10 T.

(** the fast path: the three exponent constants are i32 values ([MIN] can be negated,
    the disguised maximum fits), and the tables cover the index ranges they delimit *)
Definition ub_fast_ok (c : config) (T : tables) (f : format) : bool :=
  compact c ||
  ((i32_min <? MIN_EXPONENT_FAST_PATH f) &&
   (0 <=? MAX_EXPONENT_FAST_PATH f) &&
   (MAX_EXPONENT_DISGUISED_FAST_PATH f <=? i32_max) &&
   (MAX_EXPONENT_FAST_PATH f + 1 <=? zlen (fast_table T f)) &&
   (- MIN_EXPONENT_FAST_PATH f + 1 <=? zlen (fast_table T f)) &&
   (MAX_EXPONENT_DISGUISED_FAST_PATH f - MAX_EXPONENT_FAST_PATH f + 1 <=? zlen (SMALL_INT_POW10 T))).

(** the big-integer code: `10^counter` for a chunk counter up to 19 (`parse_mantissa`) and
    `5^e` for a residual exponent below 27 (`pow`) *)
Definition ub_int_ok (c : config) (T : tables) : bool :=
  compact c ||
  ((pm_step + 1 <=? zlen (SMALL_INT_POW10 T)) && (small_step <=? zlen (SMALL_INT_POW5 T))).

Definition ub_params_ok (c : config) (T : tables) (f : format) : bool :=
  ub_fast_ok c T f && ub_int_ok c T.

(** ** model/Number.v: the unchecked accesses of the fast path *)

Lemma pow2_64_pos : 0 < 2 ^ 64.
Proof. apply Z.pow_pos_nonneg; lia. Qed.

Lemma as_usize_bounds x : 0 <= x -> 0 <= as_usize x <= x.
Proof.
  intros H. unfold as_usize, wrapu. pose proof pow2_64_pos as P.
  pose proof (Z.mod_pos_bound x _ P). pose proof (Z.mod_le x _ H P). lia.
Qed.

Lemma noUB_index_unchecked (l : list Z) i : 0 <= i < zlen l -> noUB (index_unchecked l i).
Proof.
  intros H. unfold index_unchecked. unfold zlen in H.
  destruct ((0 <=? i) && (i <? Z.of_nat (length l))) eqn:E.
  - apply noUB_Ok.
  - exfalso. lia.
Qed.

Lemma noUB_index_unchecked_usize (l : list Z) x : 0 <= x < zlen l -> noUB (index_unchecked l (as_usize x)).
Proof.
  intros H. apply noUB_index_unchecked. pose proof (as_usize_bounds x (proj1 H)). lia.
Qed.

Lemma noUB_pow_fast_path c T f x :
  (compact c = false -> 0 <= x < zlen (fast_table T f)) ->
  noUB (pow_fast_path c T f (as_usize x)).
Proof.
  intros H. unfold pow_fast_path. destruct (compact c) eqn:Ec.
  - nub.
  - apply noUB_index_unchecked_usize. apply H. reflexivity.
Qed.

Lemma noUB_int_pow_fast_path_usize c T b x (ten : bool) :
  (compact c = false ->
   0 <= x < zlen (if ten then SMALL_INT_POW10 T else SMALL_INT_POW5 T)) ->
  noUB (int_pow_fast_path c T b (as_usize x) ten).
Proof.
  intros H. unfold int_pow_fast_path. destruct (compact c) eqn:Ec.
  - nub.
  - apply noUB_index_unchecked_usize. apply H. reflexivity.
Qed.

Lemma noUB_int_pow_fast_path c T b x (ten : bool) :
  (compact c = false ->
   0 <= x < zlen (if ten then SMALL_INT_POW10 T else SMALL_INT_POW5 T)) ->
  noUB (int_pow_fast_path c T b x ten).
Proof.
  intros H. unfold int_pow_fast_path. destruct (compact c) eqn:Ec.
  - nub.
  - apply noUB_index_unchecked. apply H. reflexivity.
Qed.

Lemma in_s32_iff x : in_s 32 x = true <-> i32_min <= x <= i32_max.
Proof.
  unfold in_s, i32_min, i32_max. change (32 - 1) with 31. lia.
Qed.

(** an i32 operation whose exact result is representable returns it, in both build modes *)
Lemma sop32_exact b r x : i32_min <= r <= i32_max -> sop b 32 r = Ok x -> x = r.
Proof.
  intros H E. unfold sop in E. apply in_s32_iff in H. rewrite H in E.
  injection E as E. symmetry. exact E.
Qed.

Lemma ub_fast_ok_elim c T f :
  ub_fast_ok c T f = true -> compact c = false ->
  i32_min < MIN_EXPONENT_FAST_PATH f /\
  0 <= MAX_EXPONENT_FAST_PATH f /\
  MAX_EXPONENT_DISGUISED_FAST_PATH f <= i32_max /\
  MAX_EXPONENT_FAST_PATH f + 1 <= zlen (fast_table T f) /\
  - MIN_EXPONENT_FAST_PATH f + 1 <= zlen (fast_table T f) /\
  MAX_EXPONENT_DISGUISED_FAST_PATH f - MAX_EXPONENT_FAST_PATH f + 1 <= zlen (SMALL_INT_POW10 T).
Proof.
  unfold ub_fast_ok. intros H Ec. rewrite Ec in H. cbn [orb] in H.
  repeat rewrite andb_true_iff in H. lia.
Qed.

(** The real content.  [is_fast_path] bounds the exponent between the format constants, so
    neither `-exponent` nor `exponent - max_exponent` can wrap (in any build mode), the casts
    `as usize` are the identity and the three indices are inside the tables.  No assumption on
    the number [n]. *)
Lemma noUB_try_fast_path c T f b n :
  ub_fast_ok c T f = true -> noUB (try_fast_path c T f b n).
Proof.
  intros Hok. unfold try_fast_path.
  destruct (is_fast_path f n) eqn:Efp; [|apply noUB_Ok].
  unfold is_fast_path in Efp. repeat rewrite andb_true_iff in Efp.
  destruct Efp as [[[Emin Emax] _] _].
  pose proof (ub_fast_ok_elim c T f Hok) as P.
  assert (Hi32 : i32_min = - i32_max - 1 /\ 0 <= i32_max) by (unfold i32_min, i32_max; lia).
  cbv zeta.
  destruct (nexp n <=? MAX_EXPONENT_FAST_PATH f) eqn:E1.
  - destruct (nexp n <? 0) eqn:E2.
    + apply noUB_bind; [auto with noub|]. intros ne Hne.
      apply noUB_bind; [|intros; apply noUB_Ok].
      apply noUB_pow_fast_path. intros Ec. specialize (P Ec).
      apply sop32_exact in Hne; [|lia]. lia.
    + apply noUB_bind; [|intros; apply noUB_Ok].
      apply noUB_pow_fast_path. intros Ec. specialize (P Ec). lia.
  - apply noUB_bind; [auto with noub|]. intros shift Hshift.
    apply noUB_bind.
    + apply noUB_int_pow_fast_path_usize. intros Ec. specialize (P Ec).
      apply sop32_exact in Hshift; [|lia]. lia.
    + intros ip _. destruct (u64_checked_mul (nmant n) ip); [|apply noUB_Ok].
      destruct (MAX_MANTISSA_FAST_PATH f <? z); [apply noUB_Ok|].
      apply noUB_bind; [|intros; apply noUB_Ok].
      apply noUB_pow_fast_path. intros Ec. specialize (P Ec). lia.
Qed.

(** ** model/Lemire.v: only checked accesses, purely structural *)
Lemma noUB_power b q : noUB (power b q).
Proof. unfold power. nub. Qed.
#[export] Hint Resolve noUB_power : noub.
Lemma noUB_compute_product_approx T b q w p : noUB (compute_product_approx T b q w p).
Proof. unfold compute_product_approx, full_multiplication. nub. Qed.
Lemma noUB_compute_error_scaled f b q w lz : noUB (compute_error_scaled f b q w lz).
Proof. unfold compute_error_scaled. nub. Qed.
#[export] Hint Resolve noUB_compute_product_approx noUB_compute_error_scaled : noub.
Lemma noUB_compute_float T f b q w : noUB (compute_float T f b q w).
Proof. unfold compute_float. cbv zeta. nub. Qed.
Lemma noUB_compute_error T f b q w : noUB (compute_error T f b q w).
Proof. unfold compute_error. cbv zeta. nub. Qed.
#[export] Hint Resolve noUB_compute_float noUB_compute_error : noub.
Lemma noUB_lemire T f b n : noUB (lemire T f b n).
Proof. unfold lemire. nub. Qed.
#[export] Hint Resolve noUB_lemire : noub.

(** ** model/Bellerophon.v: only checked accesses, purely structural *)
Lemma noUB_bnormalize b fp : noUB (bnormalize b fp).
Proof. unfold bnormalize. cbv zeta. nub. Qed.
Lemma noUB_bmul b x y : noUB (bmul b x y).
Proof. unfold bmul. cbv zeta. nub. Qed.
Lemma noUB_log2_exp BT b k : noUB (log2_exp BT b k).
Proof. unfold log2_exp. nub. Qed.
#[export] Hint Resolve noUB_bnormalize noUB_bmul noUB_log2_exp : noub.
Lemma noUB_get_small BT b i : noUB (get_small BT b i).
Proof. unfold get_small. nub. Qed.
Lemma noUB_get_large BT b i : noUB (get_large BT b i).
Proof. unfold get_large. nub. Qed.
Lemma noUB_get_small_int BT i : noUB (get_small_int BT i).
Proof. unfold get_small_int. nub. Qed.
Lemma noUB_error_is_accurate f b e fp : noUB (error_is_accurate f b e fp).
Proof. unfold error_is_accurate. cbv zeta. nub. Qed.
#[export] Hint Resolve noUB_get_small noUB_get_large noUB_get_small_int noUB_error_is_accurate
  : noub.
Lemma noUB_bellerophon BT f b n : noUB (bellerophon BT f b n).
Proof.
  unfold bellerophon. cbv zeta. nub.
  all: apply noUB_round; intros; apply noUB_round_nearest_tie_even.
Qed.
#[export] Hint Resolve noUB_bellerophon : noub.

(** ** model/Bigint.v *)
Lemma noUB_shl_bits c L b v n : noUB (shl_bits c L b v n).
Proof. unfold shl_bits. nub. Qed.
Lemma noUB_shl_limbs b v n : noUB (shl_limbs b v n).
Proof. unfold shl_limbs. nub. Qed.
#[export] Hint Resolve noUB_shl_bits noUB_shl_limbs : noub.
Lemma noUB_shl c L b v n : noUB (shl c L b v n).
Proof. unfold shl. cbv zeta. nub. Qed.
Lemma noUB_bit_length L b l : noUB (bit_length L b l).
Proof. unfold bit_length. cbv zeta. nub. Qed.
Lemma noUB_nonzero b l r : noUB (nonzero b l r).
Proof. unfold nonzero. nub. Qed.
Lemma noUB_u64_to_hi64_1 b r0 : noUB (u64_to_hi64_1 b r0).
Proof. unfold u64_to_hi64_1. cbv zeta. nub. Qed.
Lemma noUB_u64_to_hi64_2 b r0 r1 : noUB (u64_to_hi64_2 b r0 r1).
Proof. unfold u64_to_hi64_2. cbv zeta. nub. Qed.
#[export] Hint Resolve noUB_shl noUB_bit_length noUB_nonzero noUB_u64_to_hi64_1
  noUB_u64_to_hi64_2 : noub.
Lemma noUB_hi64 b l : noUB (hi64 b l).
Proof. unfold hi64. nub. Qed.
Lemma noUB_from_u64 c L b x : noUB (from_u64 c L b x).
Proof. unfold from_u64. cbv zeta. nub. Qed.
#[export] Hint Resolve noUB_hi64 noUB_from_u64 : noub.

(** the two reduction loops of `pow` keep the exponent non-negative, and the second one leaves
    it below [small_step] *)
Lemma pow_large_loop_nonneg c T L fuel : forall v e v1 e1,
  pow_large_loop c T L fuel v e = Some (v1, e1) -> 0 <= e -> 0 <= e1.
Proof.
  induction fuel as [|fuel IH]; intros v e v1 e1 H He; cbn [pow_large_loop] in H.
  - destruct (LARGE_POW5_STEP T <=? e) eqn:E; [discriminate H|].
    injection H as _ H. lia.
  - destruct (LARGE_POW5_STEP T <=? e) eqn:E.
    + destruct (large_mul c L v (LARGE_POW5 T)) as [v'|]; [|discriminate H].
      apply IH in H; [exact H|lia].
    + injection H as _ H. lia.
Qed.

Lemma pow_small_loop_bounds c fuel : forall v e v2 e2,
  pow_small_loop c fuel v e = Some (v2, e2) -> 0 <= e -> 0 <= e2 < small_step.
Proof.
  induction fuel as [|fuel IH]; intros v e v2 e2 H He; cbn [pow_small_loop] in H.
  - destruct (small_step <=? e) eqn:E; [discriminate H|].
    injection H as _ H. lia.
  - destruct (small_step <=? e) eqn:E.
    + destruct (small_mul c v max_native5) as [v'|]; [|discriminate H].
      apply IH in H; [exact H|unfold small_step in *; lia].
    + injection H as _ H. lia.
Qed.

Lemma ub_int_ok_elim c T :
  ub_int_ok c T = true -> compact c = false ->
  pm_step + 1 <= zlen (SMALL_INT_POW10 T) /\ small_step <= zlen (SMALL_INT_POW5 T).
Proof.
  unfold ub_int_ok. intros H Ec. rewrite Ec in H. cbn [orb] in H.
  rewrite andb_true_iff in H. lia.
Qed.

(** `pow(x, exp)` is only ever called with an `as u32` argument, hence [0 <= e]; the residual
    exponent that indexes SMALL_INT_POW5 is then in [1, 26] *)
Lemma noUB_pow5 c T L b v e :
  ub_int_ok c T = true -> 0 <= e -> noUB (pow5 c T L b v e).
Proof.
  intros Hok He. unfold pow5, obind.
  apply noUB_bind; [nub|]. intros o1 Ho1.
  destruct o1 as [[v1 e1]|]; [|apply noUB_Ok].
  assert (He1 : 0 <= e1).
  { destruct (compact c).
    - injection Ho1 as _ E. lia.
    - destruct (LARGE_POW5_STEP T <=? 0); [discriminate Ho1|].
      apply Ok_inj in Ho1. apply pow_large_loop_nonneg in Ho1; assumption. }
  apply noUB_bind; [nub|]. intros o2 Ho2.
  destruct o2 as [[v2 e2]|]; [|apply noUB_Ok].
  apply Ok_inj in Ho2. apply pow_small_loop_bounds in Ho2; [|exact He1].
  destruct (negb (e2 =? 0)); [|apply noUB_Ok].
  apply noUB_bind; [|intros; apply noUB_Ok].
  apply noUB_int_pow_fast_path_usize. intros Ec.
  pose proof (ub_int_ok_elim c T Hok Ec). lia.
Qed.

Lemma as_u32_nonneg x : 0 <= as_u32 x.
Proof.
  unfold as_u32, wrapu.
  assert (P : 0 < 2 ^ 32) by (apply Z.pow_pos_nonneg; lia).
  pose proof (Z.mod_pos_bound x _ P). lia.
Qed.

Lemma noUB_bigint_pow c T L b v base e :
  ub_int_ok c T = true -> 0 <= e -> noUB (bigint_pow c T L b v base e).
Proof.
  intros Hok He. unfold bigint_pow, obind.
  apply noUB_bind; [nub|]. intros _ _.
  apply noUB_bind.
  - destruct (Z.rem base 5 =? 0); [apply noUB_pow5; assumption|apply noUB_Ok].
  - intros o _. nub.
Qed.

(** ** model/Slow.v *)
Lemma bind_Ok {A B} (x : outcome A) (g : A -> outcome B) r :
  bind x g = Ok r -> exists a, x = Ok a /\ g a = Ok r.
Proof.
  destruct x as [a|p|u]; cbn [bind]; intros H; try discriminate H.
  exists a. split; [reflexivity|exact H].
Qed.

Lemma noUB_sci_loop b fuel : forall k step m e, noUB (sci_loop b fuel k step m e).
Proof.
  induction fuel as [|fuel IH]; intros k step m e; cbn [sci_loop]; nub.
Qed.
#[export] Hint Resolve noUB_sci_loop : noub.
Lemma noUB_scientific_exponent b n : noUB (scientific_exponent b n).
Proof. unfold scientific_exponent. nub. Qed.
Lemma noUB_float_b f b x : noUB (float_b f b x).
Proof. unfold float_b. nub. Qed.
#[export] Hint Resolve noUB_scientific_exponent noUB_float_b : noub.
Lemma noUB_float_bh f b x : noUB (float_bh f b x).
Proof. unfold float_bh. nub. Qed.
Lemma noUB_pm_add_digit b ch s : noUB (pm_add_digit b ch s).
Proof. unfold pm_add_digit. nub. Qed.
Lemma noUB_pm_mul_add c r p v : noUB (pm_mul_add c r p v).
Proof. unfold pm_mul_add. nub. Qed.
#[export] Hint Resolve noUB_float_bh noUB_pm_add_digit noUB_pm_mul_add : noub.
Lemma noUB_pm_flush_max c s : noUB (pm_flush_max c s).
Proof. unfold pm_flush_max. nub. Qed.
#[export] Hint Resolve noUB_pm_flush_max : noub.
Lemma noUB_pm_round_up c l : forall s, noUB (pm_round_up c l s).
Proof. induction l as [|d r IH]; intros s; cbn [pm_round_up]; nub. Qed.
Lemma noUB_pm_settle c maxd s : noUB (pm_settle c maxd s).
Proof. unfold pm_settle. nub. Qed.
Lemma noUB_pm_skip b l : forall s, noUB (pm_skip b l s).
Proof. induction l as [|d r IH]; intros s; cbn [pm_skip]; nub. Qed.
#[export] Hint Resolve noUB_pm_round_up noUB_pm_settle noUB_pm_skip : noub.

(** the chunk counter of `parse_mantissa` stays in [0, step]; it is [< step] whenever a digit
    is about to be read *)
Definition pm_inv (s : pm_state) : Prop := 0 <= pm_counter s <= pm_step.
Definition pm_inv_read (s : pm_state) : Prop := 0 <= pm_counter s < pm_step.
Definition pm_head_inv (h : pm_head) : Prop :=
  match h with PmRead s => pm_inv_read s | PmFinish s => pm_inv s | PmDiverge => True end.

Lemma pm_add_digit_inv b ch s s' :
  pm_add_digit b ch s = Ok s' -> pm_inv_read s -> pm_inv s'.
Proof.
  unfold pm_add_digit, pm_inv_read, pm_inv. intros H Hs.
  apply bind_Ok in H. destruct H as [d [_ H]].
  apply bind_Ok in H. destruct H as [v1 [_ H]].
  apply bind_Ok in H. destruct H as [v2 [_ H]].
  apply Ok_inj in H. subst s'. cbn [pm_counter]. lia.
Qed.

Lemma pm_settle_inv c maxd s h :
  pm_settle c maxd s = Ok h -> pm_inv s -> pm_head_inv h.
Proof.
  unfold pm_settle, pm_inv. intros H Hs.
  destruct ((pm_counter s <? pm_step) && (pm_count s <? maxd)) eqn:E1.
  - apply Ok_inj in H. subst h. cbn [pm_head_inv]. unfold pm_inv_read. lia.
  - destruct (pm_count s =? maxd) eqn:E2.
    + apply Ok_inj in H. subst h. exact Hs.
    + apply bind_Ok in H. destruct H as [s' [Hs' H]].
      unfold pm_flush_max in Hs'. apply bind_Ok in Hs'. destruct Hs' as [r [_ Hs']].
      apply Ok_inj in Hs'. subst s'. cbn [pm_count] in H.
      destruct (pm_count s <? maxd); apply Ok_inj in H; subst h; cbn [pm_head_inv]; [|exact I].
      unfold pm_inv_read, pm_step. cbn [pm_counter]. lia.
Qed.

(** `add_temporary!(@end ...)`: the only unchecked read of `parse_mantissa`, index = counter *)
Lemma noUB_pm_flush_end c T b s :
  ub_int_ok c T = true -> pm_inv s -> noUB (pm_flush_end c T b s).
Proof.
  intros Hok Hs. unfold pm_flush_end.
  destruct (negb (pm_counter s =? 0)); [|apply noUB_Ok].
  apply noUB_bind; [|intros; nub].
  apply noUB_int_pow_fast_path. intros Ec.
  pose proof (ub_int_ok_elim c T Hok Ec). unfold pm_inv in Hs. lia.
Qed.

Lemma noUB_pm_int c T b maxd fr l :
  ub_int_ok c T = true -> forall s, pm_inv s -> noUB (pm_int c T b maxd l fr s).
Proof.
  intros Hok. induction l as [|ch r IH]; intros s Hs; cbn [pm_int].
  - apply noUB_bind; [apply noUB_pm_settle|]. intros h Hh.
    apply pm_settle_inv in Hh; [|exact Hs].
    destruct h as [s1|s1|]; cbn [pm_head_inv] in Hh; [nub| |nub].
    apply noUB_bind; [apply noUB_pm_flush_end; assumption|intros; nub].
  - apply noUB_bind; [apply noUB_pm_settle|]. intros h Hh.
    apply pm_settle_inv in Hh; [|exact Hs].
    destruct h as [s1|s1|]; cbn [pm_head_inv] in Hh; [| |nub].
    + apply noUB_bind; [apply noUB_pm_add_digit|]. intros s2 Hs2.
      apply IH. eapply pm_add_digit_inv; eassumption.
    + apply noUB_bind; [apply noUB_pm_flush_end; assumption|intros; nub].
Qed.

Lemma pm_int_inl_inv c T b maxd fr l : forall s s',
  pm_int c T b maxd l fr s = Ok (inl s') -> pm_inv s -> pm_inv_read s'.
Proof.
  induction l as [|ch r IH]; intros s s' H Hs; cbn [pm_int] in H;
    apply bind_Ok in H; destruct H as [h [Hh H]];
    apply pm_settle_inv in Hh; try exact Hs;
    destruct h as [s1|s1|]; cbn [pm_head_inv] in Hh; try discriminate H.
  - apply Ok_inj in H. injection H as H. subst s'. exact Hh.
  - exfalso. apply bind_Ok in H. destruct H as [s2 [_ H]].
    apply bind_Ok in H. destruct H as [[s3 hit] [_ H]].
    destruct hit; [discriminate H|].
    apply bind_Ok in H. destruct H as [[s4 hit4] [_ H]]. discriminate H.
  - apply bind_Ok in H. destruct H as [s2 [Hs2 H]].
    eapply IH; [exact H|]. eapply pm_add_digit_inv; eassumption.
  - exfalso. apply bind_Ok in H. destruct H as [s2 [_ H]].
    apply bind_Ok in H. destruct H as [[s3 hit] [_ H]].
    destruct hit; [discriminate H|].
    apply bind_Ok in H. destruct H as [[s4 hit4] [_ H]]. discriminate H.
Qed.

Lemma pm_skip_inv b l : forall s s' r,
  pm_skip b l s = Ok (s', r) -> pm_inv_read s -> pm_inv s'.
Proof.
  induction l as [|ch l IH]; intros s s' r H Hs; cbn [pm_skip] in H.
  - apply Ok_inj in H. injection H as H _. subst s'. unfold pm_inv_read, pm_inv in *. lia.
  - destruct (negb (ch =? 48)).
    + apply bind_Ok in H. destruct H as [s2 [Hs2 H]].
      apply Ok_inj in H. injection H as H _. subst s'.
      eapply pm_add_digit_inv; eassumption.
    + eapply IH; eassumption.
Qed.

Lemma noUB_pm_frac c T b maxd l :
  ub_int_ok c T = true -> forall s, pm_inv s -> noUB (pm_frac c T b maxd l s).
Proof.
  intros Hok. induction l as [|ch r IH]; intros s Hs; cbn [pm_frac].
  - apply noUB_bind; [apply noUB_pm_settle|]. intros h Hh.
    apply pm_settle_inv in Hh; [|exact Hs].
    destruct h as [s1|s1|]; cbn [pm_head_inv] in Hh; [| |nub].
    + apply noUB_bind; [|intros; nub]. apply noUB_pm_flush_end; [assumption|].
      unfold pm_inv_read, pm_inv in *. lia.
    + apply noUB_bind; [apply noUB_pm_flush_end; assumption|intros; nub].
  - apply noUB_bind; [apply noUB_pm_settle|]. intros h Hh.
    apply pm_settle_inv in Hh; [|exact Hs].
    destruct h as [s1|s1|]; cbn [pm_head_inv] in Hh; [| |nub].
    + apply noUB_bind; [apply noUB_pm_add_digit|]. intros s2 Hs2.
      apply IH. eapply pm_add_digit_inv; eassumption.
    + apply noUB_bind; [apply noUB_pm_flush_end; assumption|intros; nub].
Qed.

Lemma noUB_parse_mantissa c T L b i fr maxd :
  ub_int_ok c T = true -> noUB (parse_mantissa c T L b i fr maxd).
Proof.
  intros Hok. unfold parse_mantissa.
  assert (H0 : pm_inv (mkPm 0 0 0 (vnew L))).
  { unfold pm_inv, pm_step. cbn [pm_counter]. lia. }
  apply noUB_bind; [apply noUB_pm_int; assumption|]. intros r Hr.
  destruct r as [s|res]; [|apply noUB_Ok].
  apply pm_int_inl_inv in Hr; [|exact H0].
  apply noUB_bind; [nub|]. intros [s1 fr1] H1.
  apply noUB_pm_frac; [assumption|].
  destruct (pm_count s =? 0).
  - eapply pm_skip_inv; eassumption.
  - apply Ok_inj in H1. injection H1 as H1 _. subst s1.
    unfold pm_inv_read, pm_inv in *. lia.
Qed.

Lemma noUB_positive_digit_comp c T L f b bigmant e :
  ub_int_ok c T = true -> noUB (positive_digit_comp c T L f b bigmant e).
Proof.
  intros Hok. unfold positive_digit_comp.
  apply noUB_bind; [apply noUB_bigint_pow; [assumption|apply as_u32_nonneg]|]. intros o _.
  nub. apply noUB_round. intros. apply noUB_round_nearest_tie_even.
Qed.

Lemma noUB_negative_digit_comp c T L f b bigmant fp e :
  ub_int_ok c T = true -> noUB (negative_digit_comp c T L f b bigmant fp e).
Proof.
  intros Hok. unfold negative_digit_comp.
  assert (HP : forall v base x, noUB (bigint_pow c T L b v base (as_u32 x))).
  { intros. apply noUB_bigint_pow; [assumption|apply as_u32_nonneg]. }
  assert (HR : forall fp0 cb, noUB (round f b fp0 (fun fp1 s => round_nearest_tie_even b fp1 s cb))).
  { intros. apply noUB_round. intros. apply noUB_round_nearest_tie_even. }
  assert (HD : noUB (round f b fp (round_down b))).
  { apply noUB_round. intros. apply noUB_round_down. }
  nub.
Qed.

Lemma noUB_slow c T L f b n fp i fr :
  ub_int_ok c T = true -> noUB (slow c T L f b n fp i fr).
Proof.
  intros Hok. unfold slow.
  pose proof (noUB_parse_mantissa c T L b i fr (MAX_DIGITS f) Hok).
  pose proof (fun bm e => noUB_positive_digit_comp c T L f b bm e Hok).
  pose proof (fun bm fp e => noUB_negative_digit_comp c T L f b bm fp e Hok).
  nub.
Qed.

(** ** model/Top.v *)
Lemma noUB_moderate_path c T BT f b n : noUB (moderate_path c T BT f b n).
Proof. unfold moderate_path. nub. Qed.

(** *** Main theorem (C08): for arbitrary byte lists (any integers, any lengths - digits or
    not, with or without leading / trailing zeros), an arbitrary exponent, either build mode,
    and parameters satisfying [ub_params_ok], [parse_float] never performs an out-of-bounds
    unchecked access: its outcome is a float or a clean panic. *)
Theorem parse_float_no_UB c T BT L f b (i fr : list Z) (e : Z) :
  ub_params_ok c T f = true ->
  forall k, parse_float c T BT L f b i fr e <> UB k.
Proof.
  intros Hok. unfold ub_params_ok in Hok. apply andb_true_iff in Hok.
  destruct Hok as [Hfast Hint].
  change (noUB (parse_float c T BT L f b i fr e)).
  unfold parse_float.
  pose proof (fun n => noUB_try_fast_path c T f b n Hfast).
  pose proof (fun n fp => noUB_slow c T L f b n fp i fr Hint).
  pose proof (noUB_moderate_path c T BT f b).
  nub.
Qed.

Corollary parse_float_float_or_panic c T BT L f b (i fr : list Z) (e : Z) :
  ub_params_ok c T f = true ->
  (exists v, parse_float c T BT L f b i fr e = Ok v) \/
  (exists p, parse_float c T BT L f b i fr e = Panic p).
Proof. intros H. apply noUB_cases. exact (parse_float_no_UB c T BT L f b i fr e H). Qed.

(** ** The side condition holds for the generated data of the eight configurations *)
Lemma ub_params_ok_all :
  forallb (fun c => ub_params_ok c TABLES F32 && ub_params_ok c TABLES F64) ALL_CONFIGS = true.
Proof. vm_compute. reflexivity. Qed.

Lemma ub_params_ok_s_f32 : ub_params_ok CFG_s TABLES F32 = true.
Proof. vm_compute. reflexivity. Qed.
Lemma ub_params_ok_s_f64 : ub_params_ok CFG_s TABLES F64 = true.
Proof. vm_compute. reflexivity. Qed.
Lemma ub_params_ok_sc_f32 : ub_params_ok CFG_sc TABLES F32 = true.
Proof. vm_compute. reflexivity. Qed.
Lemma ub_params_ok_sc_f64 : ub_params_ok CFG_sc TABLES F64 = true.
Proof. vm_compute. reflexivity. Qed.
Lemma ub_params_ok_sa_f32 : ub_params_ok CFG_sa TABLES F32 = true.
Proof. vm_compute. reflexivity. Qed.
Lemma ub_params_ok_sa_f64 : ub_params_ok CFG_sa TABLES F64 = true.
Proof. vm_compute. reflexivity. Qed.
Lemma ub_params_ok_sca_f32 : ub_params_ok CFG_sca TABLES F32 = true.
Proof. vm_compute. reflexivity. Qed.
Lemma ub_params_ok_sca_f64 : ub_params_ok CFG_sca TABLES F64 = true.
Proof. vm_compute. reflexivity. Qed.
Lemma ub_params_ok_n_f32 : ub_params_ok CFG_n TABLES F32 = true.
Proof. vm_compute. reflexivity. Qed.
Lemma ub_params_ok_n_f64 : ub_params_ok CFG_n TABLES F64 = true.
Proof. vm_compute. reflexivity. Qed.
Lemma ub_params_ok_nc_f32 : ub_params_ok CFG_nc TABLES F32 = true.
Proof. vm_compute. reflexivity. Qed.
Lemma ub_params_ok_nc_f64 : ub_params_ok CFG_nc TABLES F64 = true.
Proof. vm_compute. reflexivity. Qed.
Lemma ub_params_ok_na_f32 : ub_params_ok CFG_na TABLES F32 = true.
Proof. vm_compute. reflexivity. Qed.
Lemma ub_params_ok_na_f64 : ub_params_ok CFG_na TABLES F64 = true.
Proof. vm_compute. reflexivity. Qed.
Lemma ub_params_ok_nca_f32 : ub_params_ok CFG_nca TABLES F32 = true.
Proof. vm_compute. reflexivity. Qed.
Lemma ub_params_ok_nca_f64 : ub_params_ok CFG_nca TABLES F64 = true.
Proof. vm_compute. reflexivity. Qed.

(** the condition is not trivially true for the non-compact configurations: the second
    disjunct is what is checked *)
Example ub_params_ok_nontrivial :
  compact CFG_s = false /\ compact CFG_sa = false /\ compact CFG_n = false /\
  compact CFG_na = false.
Proof. repeat split. Qed.

(** *** The shipped crate: every configuration, both formats, both build modes, any tables of
    the compact algorithm [BT] and any limits [L], any input *)
Corollary parse_float_no_UB_shipped c f BT L b (i fr : list Z) (e : Z) :
  In c ALL_CONFIGS -> f = F32 \/ f = F64 ->
  forall k, parse_float c TABLES BT L f b i fr e <> UB k.
Proof.
  intros Hc Hf. apply parse_float_no_UB.
  pose proof ub_params_ok_all as H. rewrite forallb_forall in H.
  specialize (H c Hc). apply andb_true_iff in H. destruct H as [H32 H64].
  destruct Hf; subst f; assumption.
Qed.

Corollary parse_float_no_UB_f32_s b i fr e k :
  parse_float CFG_s TABLES BTABLES LIMITS F32 b i fr e <> UB k.
Proof. apply parse_float_no_UB, ub_params_ok_s_f32. Qed.
Corollary parse_float_no_UB_f64_s b i fr e k :
  parse_float CFG_s TABLES BTABLES LIMITS F64 b i fr e <> UB k.
Proof. apply parse_float_no_UB, ub_params_ok_s_f64. Qed.
Corollary parse_float_no_UB_f32_sc b i fr e k :
  parse_float CFG_sc TABLES BTABLES LIMITS F32 b i fr e <> UB k.
Proof. apply parse_float_no_UB, ub_params_ok_sc_f32. Qed.
Corollary parse_float_no_UB_f64_sc b i fr e k :
  parse_float CFG_sc TABLES BTABLES LIMITS F64 b i fr e <> UB k.
Proof. apply parse_float_no_UB, ub_params_ok_sc_f64. Qed.
Corollary parse_float_no_UB_f32_sa b i fr e k :
  parse_float CFG_sa TABLES BTABLES LIMITS F32 b i fr e <> UB k.
Proof. apply parse_float_no_UB, ub_params_ok_sa_f32. Qed.
Corollary parse_float_no_UB_f64_sa b i fr e k :
  parse_float CFG_sa TABLES BTABLES LIMITS F64 b i fr e <> UB k.
Proof. apply parse_float_no_UB, ub_params_ok_sa_f64. Qed.
Corollary parse_float_no_UB_f32_sca b i fr e k :
  parse_float CFG_sca TABLES BTABLES LIMITS F32 b i fr e <> UB k.
Proof. apply parse_float_no_UB, ub_params_ok_sca_f32. Qed.
Corollary parse_float_no_UB_f64_sca b i fr e k :
  parse_float CFG_sca TABLES BTABLES LIMITS F64 b i fr e <> UB k.
Proof. apply parse_float_no_UB, ub_params_ok_sca_f64. Qed.
Corollary parse_float_no_UB_f32_n b i fr e k :
  parse_float CFG_n TABLES BTABLES LIMITS F32 b i fr e <> UB k.
Proof. apply parse_float_no_UB, ub_params_ok_n_f32. Qed.
Corollary parse_float_no_UB_f64_n b i fr e k :
  parse_float CFG_n TABLES BTABLES LIMITS F64 b i fr e <> UB k.
Proof. apply parse_float_no_UB, ub_params_ok_n_f64. Qed.
Corollary parse_float_no_UB_f32_nc b i fr e k :
  parse_float CFG_nc TABLES BTABLES LIMITS F32 b i fr e <> UB k.
Proof. apply parse_float_no_UB, ub_params_ok_nc_f32. Qed.
Corollary parse_float_no_UB_f64_nc b i fr e k :
  parse_float CFG_nc TABLES BTABLES LIMITS F64 b i fr e <> UB k.
Proof. apply parse_float_no_UB, ub_params_ok_nc_f64. Qed.
Corollary parse_float_no_UB_f32_na b i fr e k :
  parse_float CFG_na TABLES BTABLES LIMITS F32 b i fr e <> UB k.
Proof. apply parse_float_no_UB, ub_params_ok_na_f32. Qed.
Corollary parse_float_no_UB_f64_na b i fr e k :
  parse_float CFG_na TABLES BTABLES LIMITS F64 b i fr e <> UB k.
Proof. apply parse_float_no_UB, ub_params_ok_na_f64. Qed.
Corollary parse_float_no_UB_f32_nca b i fr e k :
  parse_float CFG_nca TABLES BTABLES LIMITS F32 b i fr e <> UB k.
Proof. apply parse_float_no_UB, ub_params_ok_nca_f32. Qed.
Corollary parse_float_no_UB_f64_nca b i fr e k :
  parse_float CFG_nca TABLES BTABLES LIMITS F64 b i fr e <> UB k.
Proof. apply parse_float_no_UB, ub_params_ok_nca_f64. Qed.

(** ** Non-vacuity: [UB] is a reachable outcome of the model, and it is the side condition that
    excludes it *)
Example index_unchecked_oob : index_unchecked [1; 2; 3] 5 = UB UbIndex.
Proof. vm_compute. reflexivity. Qed.

Example index_unchecked_neg : index_unchecked [1; 2; 3] (-1) = UB UbIndex.
Proof. vm_compute. reflexivity. Qed.

(** record update: a copy of [T] whose SMALL_F64_POW10 is [l] *)
Definition with_f64_pow10 (T : tables) (l : list Z) : tables :=
  mkTables (SMALLEST_POWER_OF_FIVE T) (LARGEST_POWER_OF_FIVE T) (POWER_OF_FIVE_128 T)
    (SMALL_INT_POW5 T) (SMALL_INT_POW10 T) (SMALL_F32_POW10 T) l (LARGE_POW5 T)
    (LARGE_POW5_STEP T).
Definition with_int_pow10 (T : tables) (l : list Z) : tables :=
  mkTables (SMALLEST_POWER_OF_FIVE T) (LARGEST_POWER_OF_FIVE T) (POWER_OF_FIVE_128 T)
    (SMALL_INT_POW5 T) l (SMALL_F32_POW10 T) (SMALL_F64_POW10 T) (LARGE_POW5 T)
    (LARGE_POW5_STEP T).
Definition with_int_pow5 (T : tables) (l : list Z) : tables :=
  mkTables (SMALLEST_POWER_OF_FIVE T) (LARGEST_POWER_OF_FIVE T) (POWER_OF_FIVE_128 T)
    l (SMALL_INT_POW10 T) (SMALL_F32_POW10 T) (SMALL_F64_POW10 T) (LARGE_POW5 T)
    (LARGE_POW5_STEP T).

(** SMALL_F64_POW10 truncated to 5 entries: the condition fails and "1e10" (integer digits
    "1", no fraction digits, exponent 10) reads out of bounds on the fast path *)
Definition TABLES_short_f64 : tables := with_f64_pow10 TABLES (firstn 5 (SMALL_F64_POW10 TABLES)).

Example short_f64_params_not_ok : ub_params_ok CFG_s TABLES_short_f64 F64 = false.
Proof. vm_compute. reflexivity. Qed.

Example short_f64_table_UB :
  parse_float CFG_s TABLES_short_f64 BTABLES LIMITS F64 release_build [49] [] 10 = UB UbIndex.
Proof. vm_compute. reflexivity. Qed.

(** ... whereas the same call with the real tables returns the float 1e10 (bit pattern
    0x4202A05F20000000), and the compact configuration never reads the table at all *)
Example real_tables_1e10 :
  parse_float CFG_s TABLES BTABLES LIMITS F64 release_build [49] [] 10 = Ok 4756540486875873280.
Proof. vm_compute. reflexivity. Qed.

Example short_f64_params_ok_compact : ub_params_ok CFG_sc TABLES_short_f64 F64 = true.
Proof. vm_compute. reflexivity. Qed.

(** the hypotheses of the main theorem are satisfiable on non-digit bytes too: the outcome is
    a clean panic (overflow check) or a float, never UB *)
Example garbage_bytes_checked :
  parse_float CFG_s TABLES BTABLES LIMITS F64 checked_build [0; 255; 47] [58] 7 = Panic PkOverflow.
Proof. vm_compute. reflexivity. Qed.
Example garbage_bytes_release :
  is_ok (parse_float CFG_s TABLES BTABLES LIMITS F64 release_build [0; 255; 47] [58] 7) = true.
Proof. vm_compute. reflexivity. Qed.

(** the two bounds of [ub_int_ok] are sharp.  (1) f32 has MAX_DIGITS = 114 = 6 * 19, so an
    input with at least 114 significant digits that reaches the slow path flushes the last
    chunk with counter = 19 and reads SMALL_INT_POW10[19]: with a 19-entry table that read is
    out of bounds (input: 1.000000059604644775390625 0^100 1, i.e. just above the halfway point
    1 + 2^-24). *)
Definition digits (l : list Z) : list Z := map (fun d => 48 + d) l.
Definition frac_f32_halfway_plus : list Z :=
  digits ([0;0;0;0;0;0;0;5;9;6;0;4;6;4;4;7;7;5;3;9;0;6;2;5] ++ repeat 0 100 ++ [1]).
Definition TABLES_pow10_19 : tables := with_int_pow10 TABLES (firstn 19 (SMALL_INT_POW10 TABLES)).

Example pow10_19_params_not_ok : ub_params_ok CFG_s TABLES_pow10_19 F32 = false.
Proof. vm_compute. reflexivity. Qed.
Example pow10_19_UB :
  parse_float CFG_s TABLES_pow10_19 BTABLES LIMITS F32 release_build [49] frac_f32_halfway_plus 0
  = UB UbIndex.
Proof. vm_compute. reflexivity. Qed.
Example pow10_20_ok :
  parse_float CFG_s TABLES BTABLES LIMITS F32 release_build [49] frac_f32_halfway_plus 0
  = Ok 1065353217.
Proof. vm_compute. reflexivity. Qed.

(** (2) for 1 + 2^-53 (f64, exactly halfway, 53 fraction digits) `negative_digit_comp` computes
    5^53 = 5^27 * 5^26 and reads SMALL_INT_POW5[26]: with a 26-entry table that read is out of
    bounds *)
Definition frac_f64_halfway : list Z :=
  digits [0;0;0;0;0;0;0;0;0;0;0;0;0;0;0;1;1;1;0;2;2;3;0;2;4;6;2;5;1;5;6;5;4;0;4;2;3;6;3;1;6;6;8;0;
          9;0;8;2;0;3;1;2;5].
Definition TABLES_pow5_26 : tables := with_int_pow5 TABLES (firstn 26 (SMALL_INT_POW5 TABLES)).

Example pow5_26_params_not_ok : ub_params_ok CFG_s TABLES_pow5_26 F64 = false.
Proof. vm_compute. reflexivity. Qed.
Example pow5_27_params_ok :
  ub_params_ok CFG_s (with_int_pow5 TABLES (firstn 27 (SMALL_INT_POW5 TABLES))) F64 = true.
Proof. vm_compute. reflexivity. Qed.
Example pow5_26_UB :
  parse_float CFG_s TABLES_pow5_26 BTABLES LIMITS F64 release_build [49] frac_f64_halfway 0
  = UB UbIndex.
Proof. vm_compute. reflexivity. Qed.
Example pow5_28_ok :
  parse_float CFG_s TABLES BTABLES LIMITS F64 release_build [49] frac_f64_halfway 0
  = Ok 4607182418800017408.
Proof. vm_compute. reflexivity. Qed.

Print Assumptions parse_float_no_UB.
Print Assumptions parse_float_no_UB_shipped.
