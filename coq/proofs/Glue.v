(** * Glue: short corollaries that combine the per-stage facts into the shape the properties use. *)
From Coq Require Import ZArith QArith List Bool Lia.
From ML Require Import base.RustSem model.Fmt model.Number model.Parse spec.Decimal proofs.ParseFacts gen.Consts.
Import ListNotations.
Open Scope Z_scope.

(** Re-splitting: two ways of cutting the same digit sequence into integer / fraction parts with
    compensating exponents are folded into the SAME [Number] (significand, exponent, truncation
    flag), in any build modes: the first stage cannot distinguish them. *)
Theorem resplit_number_consistent : forall b1 b2 i1 f1 e1 i2 f2 e2,
  valid_inputb i1 f1 e1 = true -> valid_inputb i2 f2 e2 = true ->
  i1 ++ f1 = i2 ++ f2 -> e1 - zlen f1 = e2 - zlen f2 ->
  parse_number b1 i1 f1 e1 = parse_number b2 i2 f2 e2.
Proof.
  intros b1 b2 i1 f1 e1 i2 f2 e2 V1 V2 Hd He.
  rewrite (parse_number_exact b1 _ _ _ V1), (parse_number_exact b2 _ _ _ V2).
  unfold parse_spec. rewrite Hd, He. reflexivity.
Qed.

(** the same value: [dec_value] only depends on the digit sequence and on [e - zlen f] *)
Theorem resplit_value : forall i1 f1 e1 i2 f2 e2,
  i1 ++ f1 = i2 ++ f2 -> e1 - zlen f1 = e2 - zlen f2 ->
  (dec_value i1 f1 e1 == dec_value i2 f2 e2)%Q.
Proof. intros. unfold dec_value. rewrite H, H0. reflexivity. Qed.

Example resplit_ex :
  let i1 := [49;50;51]%Z in let f1 := [52;53]%Z in      (* 123.45e7  *)
  let i2 := [49]%Z in let f2 := [50;51;52;53]%Z in      (* 1.2345e9  *)
  valid_inputb i1 f1 7 = true /\ valid_inputb i2 f2 9 = true /\ i1 ++ f1 = i2 ++ f2 /\
  7 - zlen f1 = 9 - zlen f2.
Proof. vm_compute. repeat split; reflexivity. Qed.

(** ** C18 stated directly against the oracle: the packed result of the shift-and-round primitive is
    RN of  significand * 2^(exponent - bias). *)
From ML Require Import model.Num model.Rounding spec.Round spec.RneZ spec.RneBridge proofs.RoundingFactsZ proofs.RoundingFactsRne.

(** significand * 2^(exp - bias) as a fraction *)
Definition ext_num (f : format) (mant exp : Z) : Z := mant * 2 ^ Z.max 0 (exp - EXPONENT_BIAS f).
Definition ext_den (f : format) (exp : Z) : Z := 2 ^ Z.max 0 (EXPONENT_BIAS f - exp).

Theorem round_nearest_RN : forall f b mant exp,
  rfmt_ok f = true -> bfmt_ok f = true ->
  2 ^ 63 <= mant < 2 ^ 64 -> - 63 <= exp <= 2 ^ 30 ->
  exists r w,
    round f b (mkExt mant exp) (fun fp s => round_nearest_tie_even b fp s cb_nearest_even) = Ok r /\
    extended_to_float f b r = Ok w /\
    w = RN f (ext_num f mant exp # Z.to_pos (ext_den f exp)).
Proof.
  intros f b mant exp Hr Hb Hm He.
  assert (Hd : 0 < ext_den f exp) by (unfold ext_den; apply Z.pow_pos_nonneg; lia).
  assert (Hn : 0 <= ext_num f mant exp).
  { unfold ext_num. apply Z.mul_nonneg_nonneg; [lia|]. apply Z.pow_nonneg. lia. }
  destruct (round_nearest_rne_bits f Hr b mant exp (ext_num f mant exp) (ext_den f exp) Hm He Hd)
    as (r & w & H1 & H2 & H3).
  { unfold same_value, ext_num, ext_den. ring. }
  exists r, w. split; [exact H1|]. split; [exact H2|].
  symmetry. apply (rne_bits_RN f Hb _ _ _ Hn Hd H3).
Qed.

Corollary round_nearest_RN_F64 : forall b mant exp,
  2 ^ 63 <= mant < 2 ^ 64 -> - 63 <= exp <= 2100 ->
  exists r w,
    round F64 b (mkExt mant exp) (fun fp s => round_nearest_tie_even b fp s cb_nearest_even) = Ok r /\
    extended_to_float F64 b r = Ok w /\
    w = RN F64 (ext_num F64 mant exp # Z.to_pos (ext_den F64 exp)).
Proof.
  intros b mant exp Hm He. apply round_nearest_RN; [exact rfmt_ok_F64|exact bfmt_ok_F64|exact Hm|].
  assert (2100 <= 2 ^ 30) by (vm_compute; discriminate). lia.
Qed.

Corollary round_nearest_RN_F32 : forall b mant exp,
  2 ^ 63 <= mant < 2 ^ 64 -> - 63 <= exp <= 320 ->
  exists r w,
    round F32 b (mkExt mant exp) (fun fp s => round_nearest_tie_even b fp s cb_nearest_even) = Ok r /\
    extended_to_float F32 b r = Ok w /\
    w = RN F32 (ext_num F32 mant exp # Z.to_pos (ext_den F32 exp)).
Proof.
  intros b mant exp Hm He. apply round_nearest_RN; [exact rfmt_ok_F32|exact bfmt_ok_F32|exact Hm|].
  assert (320 <= 2 ^ 30) by (vm_compute; discriminate). lia.
Qed.
