(** * DeepFallback: the all-ones fallback of [compute_float] never fires on a value so small that
    the declined estimate has a biased exponent below -64 ("no deep fallback").

    - Part 1: the exact modular search [first a m l r] (DESIGN.md Appendix D), with a proof that
      its answer is a lower bound of every solution [x >= 0] of [l <= (a * x) mod m <= r]
      ([None]: there is no solution).
    - Part 2: what a decline of [compute_float] itself means: the low word of the product pair is
      [2^64 - 1].
    - Part 3: all-ones low word as a range condition on [(v * T128 q) mod 2^(128 - lz)]
      (refined pair), or on [(v * Thi q) mod 2^64] with [lz = 0] (unrefined pair).
    - Part 4: the finite check, per format, by [vm_compute]:
      [declined_at f b q v -> lz64 v <= pw q + EXPONENT_BIAS f].
    - Part 5: [no_deep_fallback]. *)
From Coq Require Import ZArith List Bool Lia Znumtheory.
From Coq Require Import ZifyBool.
From ML Require Import proofs.RoundingFactsZ proofs.NumFacts.
From ML Require Import base.RustSem model.Fmt model.Num model.Number model.Lemire
  gen.Consts gen.Tables spec.RneZ proofs.TableFacts proofs.LemireFacts0 proofs.LemireFacts1
  proofs.LemireFacts5 proofs.LemireFacts6.
Import ListNotations.
Open Scope Z_scope.

Arguments Z.pow : simpl never.
Local Opaque Z.pow.

(** ** Part 1: the modular search *)

(** a lower bound on the least [x >= 0] with [l <= (a * x) mod m <= r]  ([0 <= l <= r < m]);
    [None] when there is none.  Out of fuel: the trivial bound [Some 0]. *)
Fixpoint first (fuel : nat) (a m l r : Z) : option Z :=
  match fuel with
  | O => Some 0
  | S n =>
    let a' := a mod m in
    if l =? 0 then Some 0
    else if a' =? 0 then None
    else let c := (l + a' - 1) / a' in
      if a' * c <=? r then Some c
      else match first n (m mod a') a' (a' * c - r) (a' * c - l) with
           | None => None
           | Some y => Some ((m * y + l + a' - 1) / a')
           end
  end.

Definition below (o : option Z) (x : Z) : Prop :=
  match o with None => False | Some c => c <= x end.

Lemma ceil_div_spec l a : 0 < a -> let c := (l + a - 1) / a in a * (c - 1) < l <= a * c.
Proof.
  intros Ha c. unfold c.
  pose proof (Z.div_mod (l + a - 1) a ltac:(lia)) as E.
  pose proof (Z.mod_pos_bound (l + a - 1) a Ha) as B.
  set (d := (l + a - 1) / a) in *. set (rr := (l + a - 1) mod a) in *. lia.
Qed.

Theorem first_sound fuel : forall a m l r x, 0 < m -> 0 <= l <= r -> r < m -> 0 <= x ->
  l <= (a * x) mod m <= r -> below (first fuel a m l r) x.
Proof.
  induction fuel as [|n IH]; intros a m l r x Hm Hlr Hrm Hx Hsol.
  - cbn [first below]. exact Hx.
  - cbn [first]. cbv zeta.
    destruct (l =? 0) eqn:El; [cbn [below]; exact Hx|].
    assert (Hl : 0 < l) by lia.
    pose proof (Z.mod_pos_bound a m Hm) as Ba.
    set (a' := a mod m) in *.
    assert (Emod : (a * x) mod m = (a' * x) mod m).
    { unfold a'. rewrite Z.mul_mod_idemp_l by lia. reflexivity. }
    rewrite Emod in Hsol.
    destruct (a' =? 0) eqn:Ea.
    { cbn [below]. assert (a' = 0) by lia. rewrite H in Hsol.
      rewrite Z.mul_0_l, Z.mod_0_l in Hsol by lia. lia. }
    assert (Ha : 0 < a') by lia.
    pose proof (ceil_div_spec l a' Ha) as Hc. cbv zeta in Hc.
    set (c := (l + a' - 1) / a') in *.
    pose proof (Z.div_mod (a' * x) m ltac:(lia)) as E.
    pose proof (Z.mod_pos_bound (a' * x) m Hm) as Bv.
    set (y := (a' * x) / m) in *. set (v := (a' * x) mod m) in *.
    assert (Hy : 0 <= y) by (unfold y; apply Z.div_pos; nia).
    destruct (a' * c <=? r) eqn:Ec.
    { (* a multiple of a' lies in [l, r]: every smaller x gives a' * x < l without wrapping *)
      cbn [below].
      destruct (Z_le_gt_dec c x) as [|Hlt]; [assumption|exfalso].
      assert (a' * x <= a' * (c - 1)) by (apply Z.mul_le_mono_nonneg_l; lia).
      assert (0 <= a' * x) by nia.
      assert (v = a' * x) by (unfold v; apply Z.mod_small; lia).
      lia. }
    assert (Hrc : r < a' * c) by lia.
    (* a' * x = m * y + v with v in [l, r]:  (m * y) mod a' = a' * c - v *)
    assert (Erec : ((m mod a') * y) mod a' = a' * c - v).
    { rewrite Z.mul_mod_idemp_l by lia. symmetry.
      apply (Z.mod_unique_pos _ _ (x - c)); [lia|]. lia. }
    assert (Hrec : below (first n (m mod a') a' (a' * c - r) (a' * c - l)) y).
    { apply IH; try lia. }
    destruct (first n (m mod a') a' (a' * c - r) (a' * c - l)) as [y0|]; cbn [below] in *; [|exact Hrec].
    assert (m * y0 <= m * y) by (apply Z.mul_le_mono_nonneg_l; lia).
    assert ((m * y0 + l + a' - 1) / a' < x + 1); [|lia].
    apply Z.div_lt_upper_bound; lia.
Qed.

(** "no solution below [bound]" as a boolean *)
Definition none_below (fuel : nat) (a m l r bound : Z) : bool :=
  match first fuel a m l r with None => true | Some c => bound <=? c end.

Lemma none_below_spec fuel a m l r bound x : 0 < m -> 0 <= l <= r -> r < m ->
  none_below fuel a m l r bound = true -> 0 <= x < bound -> ~ (l <= (a * x) mod m <= r).
Proof.
  intros Hm Hlr Hrm Hnb Hx Hsol. unfold none_below in Hnb.
  pose proof (first_sound fuel a m l r x Hm Hlr Hrm ltac:(lia) Hsol) as Hb.
  destruct (first fuel a m l r); cbn [below] in Hb; [lia|exact Hb].
Qed.

(** sanity checks of the search on small instances, against the definition *)
Example first_ex2 : first 50 7 100 93 95 = Some 42 /\ (7 * 42) mod 100 = 94.
Proof. split; vm_compute; reflexivity. Qed.
Example first_ex3 : first 50 6 100 93 93 = None.
Proof. vm_compute. reflexivity. Qed.
Example first_ex4 :
  forallb (fun x => negb ((93 <=? (7 * x) mod 100) && ((7 * x) mod 100 <=? 95))) (zrange 0 42) = true.
Proof. vm_compute. reflexivity. Qed.

(** ** Part 2: a decline of [compute_float] itself is the all-ones low word *)
Lemma declined_at_inv f b q v : lfmt f -> 0 < v < 2 ^ 64 ->
  SMALLEST_POWER_OF_TEN f <= q <= LARGEST_POWER_OF_TEN f ->
  declined_at f b q v ->
  exists hi, 0 <= hi < 2 ^ 64 /\
    (refined_pair (v * 2 ^ lz64 v) q (2 ^ 64 - 1) hi \/
     unrefined_pair (v * 2 ^ lz64 v) q (61 - MANTISSA_SIZE f) (2 ^ 64 - 1) hi).
Proof.
  intros L Hv Hq (fpx & Hcf & Hneg).
  pose proof (lf_ms f L) as HMS. pose proof (lf_sp10 f L) as Hsp. pose proof (lf_lp10 f L) as Hlp.
  pose proof (lz64_spec v Hv) as (Hlz & Hv').
  destruct (compute_product_approx_spec b q (v * 2 ^ lz64 v) (MANTISSA_SIZE f + 3)
              ltac:(lia) ltac:(lia) ltac:(lia)) as (lo & hi & Hcpa & Hlo & Hhi & Hpair).
  replace (64 - (MANTISSA_SIZE f + 3)) with (61 - MANTISSA_SIZE f) in Hpair by lia.
  pose proof (pair_facts f q _ lo hi L ltac:(lia) Hv' Hlo Hhi Hpair) as [Hhi62 _].
  rewrite (cf_run f b q v lo hi L Hv Hq Hcpa Hlo ltac:(lia)) in Hcf.
  destruct ((lo =? u64_max) && negb ((-27 <=? q) && (q <=? 55))) eqn:Efb.
  - apply andb_prop in Efb. destruct Efb as [Elo _]. unfold u64_max in Elo.
    assert (lo = 2 ^ 64 - 1) by lia. subst lo.
    exists hi. split; [exact Hhi|exact Hpair].
  - exfalso. inversion Hcf; subst fpx.
    pose proof (cf_main_exp_nonneg f q (lz64 v) lo hi L). lia.
Qed.

(** ** Part 3: all-ones low word as a residue range *)
Lemma ones_range P s hi : 0 <= s -> P / 2 ^ s = hi * 2 ^ 64 + (2 ^ 64 - 1) ->
  2 ^ (64 + s) - 2 ^ s <= P mod 2 ^ (64 + s) <= 2 ^ (64 + s) - 1.
Proof.
  intros Hs H. pose proof (pow2_pos s Hs) as Hp.
  pose proof (Z.div_mod P (2 ^ s) ltac:(lia)) as E. rewrite H in E.
  pose proof (Z.mod_pos_bound P (2 ^ s) Hp) as Bd.
  set (rho := P mod 2 ^ s) in *.
  assert (E64 : 2 ^ (64 + s) = 2 ^ 64 * 2 ^ s) by (apply pow2_add; lia).
  rewrite E64.
  assert (EM : P mod (2 ^ 64 * 2 ^ s) = (2 ^ 64 - 1) * 2 ^ s + rho).
  { symmetry. apply (Z.mod_unique_pos _ _ hi); [|lia]. rewrite p2_64 in *. lia. }
  rewrite EM. rewrite p2_64 in *. lia.
Qed.

Lemma refined_ones_range v lz T hi : 0 <= lz <= 63 ->
  hi * 2 ^ 64 + (2 ^ 64 - 1) = (v * 2 ^ lz * T) / 2 ^ 64 ->
  let m := 2 ^ (128 - lz) in
  m - 2 ^ (64 - lz) <= (T * v) mod m <= m - 1.
Proof.
  intros Hlz H m.
  pose proof (pow2_pos lz ltac:(lia)) as Hp1. pose proof (pow2_pos (64 - lz) ltac:(lia)) as Hp2.
  assert (E : (v * 2 ^ lz * T) / 2 ^ 64 = (T * v) / 2 ^ (64 - lz)).
  { rewrite (pow2_split (64 - lz) 64) by lia. replace (64 - (64 - lz)) with lz by lia.
    replace (v * 2 ^ lz * T) with ((T * v) * 2 ^ lz) by ring.
    apply Z.div_mul_cancel_r; lia. }
  rewrite E in H. symmetry in H.
  pose proof (ones_range (T * v) (64 - lz) hi ltac:(lia) H) as R.
  unfold m. replace (128 - lz) with (64 + (64 - lz)) by lia. exact R.
Qed.

Lemma unrefined_ones v lz T hi : 0 <= lz <= 63 ->
  hi * 2 ^ 64 + (2 ^ 64 - 1) = v * 2 ^ lz * T ->
  lz = 0 /\ 2 ^ 64 - 1 <= (T * v) mod 2 ^ 64 <= 2 ^ 64 - 1.
Proof.
  intros Hlz H.
  destruct (Z.eq_dec lz 0) as [->|Hne].
  - split; [reflexivity|]. change (2 ^ 0) with 1 in H.
    assert (E : (T * v) mod 2 ^ 64 = 2 ^ 64 - 1).
    { symmetry. apply (Z.mod_unique_pos _ _ hi); [rewrite p2_64; lia|lia]. }
    lia.
  - exfalso. rewrite (pow2_split 1 lz) in H by lia. change (2 ^ 1) with 2 in H.
    set (Y := v * 2 ^ (lz - 1) * T).
    replace (v * (2 * 2 ^ (lz - 1)) * T) with (2 * Y) in H by (unfold Y; ring).
    rewrite p2_64 in H. lia.
Qed.

(** ** Part 4: the finite check *)
(** [dexp f q]: the declined estimate's biased exponent is [dexp f q - hilz - lz - 62] *)
Definition dexp (f : format) (q : Z) : Z := pw q + EXPONENT_BIAS f.

(** the leading-zero counts [lz > d] *)
Definition lzs (d : Z) : list Z := zrange (Z.max 0 (d + 1)) (64 - Z.max 0 (d + 1)).

Lemma in_lzs d lz : d < lz -> 0 <= lz <= 63 -> In lz (lzs d).
Proof. intros. unfold lzs. apply in_zrange. lia. Qed.

(** no [v < 2^(64 - lz)] puts 64 ones at bits [64 - lz, 128 - lz) of [v * T128 q] *)
Definition chk_refined (q lz : Z) : bool :=
  let m := 2 ^ (128 - lz) in
  none_below 600 (T128 q) m (m - 2 ^ (64 - lz)) (m - 1) (2 ^ (64 - lz)).
(** no [v < 2^64] has [v * Thi q = -1 (mod 2^64)]  (only needed when [lz = 0] is deep) *)
Definition chk_unrefined (q lz : Z) : bool :=
  negb (lz =? 0) || none_below 300 (Thi q) (2 ^ 64) (2 ^ 64 - 1) (2 ^ 64 - 1) (2 ^ 64).

Lemma chk_refined_spec q lz v hi : chk_refined q lz = true -> 0 <= lz <= 63 ->
  0 <= v < 2 ^ (64 - lz) -> ~ refined_pair (v * 2 ^ lz) q (2 ^ 64 - 1) hi.
Proof.
  unfold chk_refined, refined_pair. generalize (T128 q) 600%nat. intros T fuel Hc Hlz Hv HR.
  pose proof (refined_ones_range v lz T hi Hlz HR) as R.
  pose proof (pow2_pos (64 - lz) ltac:(lia)) as Hp2.
  assert (Hm : 2 ^ (64 - lz) < 2 ^ (128 - lz)) by (apply pow2_lt; lia).
  cbv zeta in R, Hc.
  set (m := 2 ^ (128 - lz)) in *. set (s := 2 ^ (64 - lz)) in *.
  exact (none_below_spec fuel T m (m - s) (m - 1) s v ltac:(lia) ltac:(lia) ltac:(lia) Hc Hv R).
Qed.

Lemma chk_unrefined_spec q lz v hi : chk_unrefined q lz = true -> 0 <= lz <= 63 ->
  0 <= v < 2 ^ 64 -> hi * 2 ^ 64 + (2 ^ 64 - 1) <> v * 2 ^ lz * Thi q.
Proof.
  unfold chk_unrefined. generalize (Thi q) 300%nat. intros T fuel Hc Hlz Hv HU.
  pose proof (unrefined_ones v lz T hi Hlz HU) as [E0 R].
  apply orb_prop in Hc. destruct Hc as [Hc|Hc]; [lia|].
  pose proof (pow2_pos 64 ltac:(lia)) as Hp.
  set (m := 2 ^ 64) in *.
  exact (none_below_spec fuel T m (m - 1) (m - 1) m v ltac:(lia) ltac:(lia) ltac:(lia) Hc Hv R).
Qed.

Definition chk_q (f : format) (q : Z) : bool :=
  forallb (fun lz => chk_refined q lz && chk_unrefined q lz) (lzs (dexp f q)).

(** the window of decimal exponents checked: the 24 smallest of the format *)
Definition deep_window : Z := 24.
Definition deep_ok (f : format) : bool :=
  forallb (chk_q f) (zrange (SMALLEST_POWER_OF_TEN f) deep_window) &&
  (63 <=? dexp f (SMALLEST_POWER_OF_TEN f + deep_window)).

Lemma deep_ok_F64 : deep_ok F64 = true.
Proof. vm_cast_no_check (eq_refl true). Qed.
Lemma deep_ok_F32 : deep_ok F32 = true.
Proof. vm_cast_no_check (eq_refl true). Qed.

(** the key fact: [compute_float] declines by itself only when the value is not deep *)
Theorem declined_at_lz f b q v : lfmt f -> deep_ok f = true -> 0 < v < 2 ^ 64 ->
  SMALLEST_POWER_OF_TEN f <= q <= LARGEST_POWER_OF_TEN f ->
  declined_at f b q v -> lz64 v <= dexp f q.
Proof.
  intros L Hok Hv Hq Hd.
  pose proof (lf_sp10 f L) as Hsp. pose proof (lf_lp10 f L) as Hlp.
  pose proof (lz64_spec v Hv) as (Hlz & Hv').
  destruct (Z_le_gt_dec (lz64 v) (dexp f q)) as [|Hdeep]; [assumption|exfalso].
  unfold deep_ok in Hok. apply andb_prop in Hok. destruct Hok as [Hall Hend].
  (* q is in the window *)
  assert (Hwin : q < SMALLEST_POWER_OF_TEN f + deep_window).
  { destruct (Z_lt_le_dec q (SMALLEST_POWER_OF_TEN f + deep_window)) as [|Hge]; [assumption|exfalso].
    pose proof (pw_mono _ _ Hge). unfold dexp in *. lia. }
  pose proof (proj1 (forallb_forall _ _) Hall q
                (in_zrange (SMALLEST_POWER_OF_TEN f) deep_window q ltac:(lia))) as Hcq.
  unfold chk_q in Hcq.
  pose proof (proj1 (forallb_forall _ _) Hcq (lz64 v) (in_lzs (dexp f q) (lz64 v) ltac:(lia) Hlz)) as Hc.
  cbv beta in Hc. apply andb_prop in Hc. destruct Hc as [Hc1 Hc2].
  set (lz := lz64 v) in *.
  pose proof (pow2_pos lz ltac:(lia)) as Hp1. pose proof (pow2_pos (64 - lz) ltac:(lia)) as Hp2.
  assert (Hvb : v < 2 ^ (64 - lz)).
  { rewrite (pow2_split (64 - lz) 64) in Hv' by lia. replace (64 - (64 - lz)) with lz in Hv' by lia. nia. }
  destruct (declined_at_inv f b q v L Hv Hq Hd) as (hi & Hhi & [HR|[HU _]]).
  - exact (chk_refined_spec q lz v hi Hc1 Hlz ltac:(lia) HR).
  - exact (chk_unrefined_spec q lz v hi Hc2 Hlz ltac:(lia) HU).
Qed.

(** ** Part 5: no deep fallback *)
Lemma lz64_succ w : 0 < w -> w + 1 < 2 ^ 64 -> lz64 w <= lz64 (w + 1) + 1.
Proof.
  intros Hw Hw1.
  pose proof (lz64_spec w ltac:(lia)) as (Ha & Hwa).
  pose proof (lz64_spec (w + 1) ltac:(lia)) as (Hc & Hwc).
  set (a := lz64 w) in *. set (c := lz64 (w + 1)) in *.
  destruct (Z_le_gt_dec a (c + 1)) as [|Hgt]; [assumption|exfalso].
  pose proof (pow2_pos c ltac:(lia)) as Hpc.
  assert (E : 2 ^ a = 2 ^ c * 2 ^ (a - c)) by (apply pow2_split; lia).
  assert (H4 : 2 ^ 2 <= 2 ^ (a - c)) by (apply pow2_le; lia). change (2 ^ 2) with 4 in H4.
  assert (Hc62 : 2 ^ c <= 2 ^ 62) by (apply pow2_le; lia).
  change (2 ^ 62) with 4611686018427387904 in Hc62. rewrite p2_63, p2_64 in *.
  rewrite E in Hwa. nia.
Qed.

Lemma declined_at_dec f b q v : declined_at f b q v \/ ~ declined_at f b q v.
Proof.
  unfold declined_at. destruct (compute_float TABLES f b q v) as [fpx| |] eqn:E.
  - destruct (Z_lt_le_dec (exp fpx) 0).
    + left. exists fpx. auto.
    + right. intros (fp' & E' & H'). inversion E'; subst. lia.
  - right. intros (fp' & E' & _). discriminate.
  - right. intros (fp' & E' & _). discriminate.
Qed.

(** generic form, for any format passing the checks *)
Theorem no_deep_fallback_gen f b n fp : lfmt_ok f = true -> rfmt_ok f = true -> deep_ok f = true ->
  0 <= nmant n < 2 ^ 64 ->
  (many n = true -> 2 ^ (MANTISSA_SIZE f + 3) <= nmant n /\ nmant n + 1 < 2 ^ 64) ->
  lemire TABLES f b n = Ok fp -> exp fp < 0 -> - 64 <= exp fp - INVALID_FP f.
Proof.
  intros Lok Hr Hok Hw Hmany Hlem Hneg. pose proof (lfmt_ok_spec f Lok) as L.
  pose proof (lf_ms f L) as HMS. pose proof (lf_sp10 f L) as Hsp. pose proof (lf_lp10 f L) as Hlp.
  assert (Hmany' : many n = true -> 0 < nmant n /\ nmant n + 1 < 2 ^ 64).
  { intros Hm. destruct (Hmany Hm). pose proof (pow2_pos (MANTISSA_SIZE f + 3) ltac:(lia)). lia. }
  destruct (declined_at_dec f b (nexp n) (nmant n)) as [HdA|HnA];
    [|destruct (declined_at_dec f b (nexp n) (nmant n + 1)) as [HdB|HnB]].
  3:{ exact (lemire_declined_exp_ge f b n fp Lok Hr Hw Hmany Hlem Hneg HnA HnB). }
  all: destruct (lemire_declined_shape f b n fp Lok Hw Hmany' Hlem Hneg)
      as (Hw0 & Hq & (lo & hi & Hlo & Hhi & Hpair & Hces) & Hcase).
  all: cbv zeta in Hw0, Hq, Hpair, Hces, Hcase; set (w := nmant n) in *; set (q := nexp n) in *.
  all: pose proof (lz64_spec w ltac:(lia)) as (Hlz & Hw').
  all: rewrite (ces_eq f b q hi (lz64 w) L ltac:(lia) Hhi Hlz) in Hces; inversion Hces as [Hfp]; clear Hces; subst fp.
  all: cbn [mant exp] in *.
  all: assert (Hh : 0 <= hilz_of hi <= 1) by (destruct (hilz_cases hi Hhi) as [[_ H]|[_ H]]; lia).
  - (* compute_float declines at w *)
    pose proof (declined_at_lz f b q w L Hok ltac:(lia) Hq HdA) as K. unfold dexp in K. lia.
  - (* compute_float declines at w + 1 *)
    destruct Hcase as [Hd|(Hm & _)]; [contradiction|].
    destruct (Hmany' Hm) as [_ Hw1]. fold w in Hw1.
    pose proof (declined_at_lz f b q (w + 1) L Hok ltac:(lia) Hq HdB) as K. unfold dexp in K.
    pose proof (lz64_succ w Hw0 Hw1). lia.
Qed.

Theorem no_deep_fallback_unfolded : forall f b n, f = F32 \/ f = F64 ->
  0 <= nmant n < 2 ^ 64 ->
  (many n = true -> 2 ^ (MANTISSA_SIZE f + 3) <= nmant n /\ nmant n + 1 < 2 ^ 64) ->
  forall fp, lemire TABLES f b n = Ok fp -> exp fp < 0 -> - 64 <= exp fp - INVALID_FP f.
Proof.
  intros f b n Hf Hw Hmany fp Hlem Hneg.
  destruct Hf; subst f.
  - exact (no_deep_fallback_gen F32 b n fp lfmt_ok_F32 rfmt_ok_F32 deep_ok_F32 Hw Hmany Hlem Hneg).
  - exact (no_deep_fallback_gen F64 b n fp lfmt_ok_F64 rfmt_ok_F64 deep_ok_F64 Hw Hmany Hlem Hneg).
Qed.

(** the stronger statement about [compute_float] alone, for the two formats *)
Corollary compute_float_fallback_not_deep : forall f b q v, f = F32 \/ f = F64 ->
  0 < v < 2 ^ 64 -> SMALLEST_POWER_OF_TEN f <= q <= LARGEST_POWER_OF_TEN f ->
  forall fpx, compute_float TABLES f b q v = Ok fpx -> exp fpx < 0 ->
  - 63 <= exp fpx - INVALID_FP f.
Proof.
  intros f b q v Hf Hv Hq fpx Hcf Hneg.
  assert (Lok : lfmt_ok f = true) by (destruct Hf; subst; [exact lfmt_ok_F32|exact lfmt_ok_F64]).
  assert (Hok : deep_ok f = true) by (destruct Hf; subst; [exact deep_ok_F32|exact deep_ok_F64]).
  pose proof (lfmt_ok_spec f Lok) as L.
  pose proof (lf_ms f L) as HMS. pose proof (lf_sp10 f L) as Hsp. pose proof (lf_lp10 f L) as Hlp.
  assert (Hd : declined_at f b q v) by (exists fpx; auto).
  pose proof (declined_at_lz f b q v L Hok Hv Hq Hd) as K. unfold dexp in K.
  pose proof (lz64_spec v Hv) as (Hlz & Hv').
  destruct (compute_product_approx_spec b q (v * 2 ^ lz64 v) (MANTISSA_SIZE f + 3)
              ltac:(lia) ltac:(lia) ltac:(lia)) as (lo & hi & Hcpa & Hlo & Hhi & Hpair).
  replace (64 - (MANTISSA_SIZE f + 3)) with (61 - MANTISSA_SIZE f) in Hpair by lia.
  pose proof (pair_facts f q _ lo hi L ltac:(lia) Hv' Hlo Hhi Hpair) as [Hhi62 _].
  rewrite (cf_run f b q v lo hi L Hv Hq Hcpa Hlo ltac:(lia)) in Hcf.
  destruct ((lo =? u64_max) && negb ((-27 <=? q) && (q <=? 55))) eqn:Efb.
  - rewrite (ces_eq f b q hi (lz64 v) L ltac:(lia) ltac:(lia) Hlz) in Hcf. inversion Hcf; subst fpx.
    cbn [exp].
    assert (Hh : 0 <= hilz_of hi <= 1) by (destruct (hilz_cases hi ltac:(lia)) as [[_ H]|[_ H]]; lia).
    lia.
  - exfalso. inversion Hcf; subst fpx.
    pose proof (cf_main_exp_nonneg f q (lz64 v) lo hi L). lia.
Qed.

(** ** Examples *)
(** the deep ranges: decimal exponents [q] with [dexp f q < 63], and [dexp f q]; a decline at
    [(q, v)] is deep (estimate exponent <= -65) only if [lz64 v >= dexp f q + 2 (+1)] *)
Example deep_range_F64 :
  filter (fun p => snd p <? 63) (map (fun q => (q, dexp F64 q)) (zrange (-342) 651)) =
  [(-342, 1); (-341, 5); (-340, 8); (-339, 11); (-338, 15); (-337, 18); (-336, 21); (-335, 25);
   (-334, 28); (-333, 31); (-332, 35); (-331, 38); (-330, 41); (-329, 45); (-328, 48); (-327, 51);
   (-326, 55); (-325, 58); (-324, 61)].
Proof. vm_compute. reflexivity. Qed.
Example deep_range_F32 :
  filter (fun p => snd p <? 63) (map (fun q => (q, dexp F32 q)) (zrange (-65) 104)) =
  [(-65, -3); (-64, 0); (-63, 3); (-62, 7); (-61, 10); (-60, 13); (-59, 17); (-58, 20); (-57, 23);
   (-56, 26); (-55, 30); (-54, 33); (-53, 36); (-52, 40); (-51, 43); (-50, 46); (-49, 50); (-48, 53);
   (-47, 56); (-46, 60)].
Proof. vm_compute. reflexivity. Qed.

(** a genuine all-ones fallback of [compute_float] (not deep): the hypotheses of
    [compute_float_fallback_not_deep] are satisfiable *)
Example ex_fallback_hyps :
  let q := -57 in let v := 10240019805240390365 in
  0 < v < 2 ^ 64 /\ SMALLEST_POWER_OF_TEN F64 <= q <= LARGEST_POWER_OF_TEN F64 /\
  compute_float TABLES F64 checked_build q v = Ok (mkExt 16069411522467108780 (-31883)) /\
  -31883 - INVALID_FP F64 = 885 /\ lz64 v = 0 /\ dexp F64 q = 948.
Proof.
  cbv zeta. rewrite p2_64.
  split; [lia|]. split; [split; vm_compute; discriminate|].
  repeat split; vm_compute; reflexivity.
Qed.

(** the hypotheses of [no_deep_fallback_unfolded] on the deepest declined input known
    (estimate exponent exactly -64, see [ex_declined_m64] in LemireFacts6) *)
Example ex_no_deep_hyps :
  let n := mkNumber (-342) 2470328229206232720 true in
  0 <= nmant n < 2 ^ 64 /\
  (many n = true -> 2 ^ (MANTISSA_SIZE F64 + 3) <= nmant n /\ nmant n + 1 < 2 ^ 64) /\
  lemire TABLES F64 checked_build n = Ok (mkExt 18446744073709551608 (-32832)) /\
  -32832 - INVALID_FP F64 = -64.
Proof.
  cbv zeta. cbn [nmant many]. rewrite p2_64. split; [lia|]. split.
  - intros _. split; [vm_compute; discriminate|lia].
  - split; vm_compute; reflexivity.
Qed.

Print Assumptions first_sound.
Print Assumptions declined_at_lz.
Print Assumptions no_deep_fallback_gen.
Print Assumptions no_deep_fallback_unfolded.
Print Assumptions compute_float_fallback_not_deep.
