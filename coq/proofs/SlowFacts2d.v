(** * SlowFacts2d: `negative_digit_comp` for estimates with exponent -64 and below.

    proofs/RoundingFactsZ.v characterises [round] for [-63 <= exp]; a realistic declined
    Eisel-Lemire estimate has [exp = -64] (the digits of half the smallest subnormal give
    (2^64 - 8, -64)).  There `round` computes `shift = -exp + 1 = 65`, passes
    `debug_assert!(shift <= 65)` and clamps the shift to 64: the truncation `b` is +0.0 and the
    final rounding yields the pattern 0 or 1.

    - [round_low]: [round] for [exp <= -64] ([exp = -64], or any lower exponent in a build
      without debug assertions); [round_low_debug]: with debug assertions [exp <= -65] panics.
    - [negative_digit_comp_correct_64]: the theorem of SlowFacts2c with [-64 <= exp fp].
    - [negative_digit_comp_correct_nodbg]: without debug assertions, no lower bound but i32 range.
    - [negative_digit_comp_exp_m65_debug]: with debug assertions and [exp fp <= -65] the function
      panics (PkAssert) in its first call of `round`: -64 is the exact boundary. *)
From Coq Require Import ZArith List Bool Lia Znumtheory.
From Coq Require Import ZifyBool.
From ML Require Import base.RustSem model.Fmt model.Mask model.Num model.Rounding model.Vec model.Number
  model.Bigint model.Slow.
From ML Require Import gen.Consts gen.PowDump gen.Tables spec.RneZ.
From ML Require Import proofs.LimbVal proofs.BigintFacts2 proofs.BigintFacts1 proofs.RoundingFactsZ
  proofs.NumFacts proofs.SlowFacts2 proofs.SlowFacts2b proofs.SlowFacts2c.
Import ListNotations.
Open Scope Z_scope.
Local Opaque Z.pow.
Arguments Z.pow : simpl never.

(** ** 1. [round] below the range of RoundingFactsZ *)
Section Low.
Variable f : format.
Hypothesis Hf : rfmt_ok f = true.
Hypothesis OK : fmt_ok f = true.

Local Notation ms := (MANTISSA_SIZE f).

(** the subnormal branch with the shift clamped to 64 *)
Lemma round_low b m e cb :
  - 2 ^ 30 <= e <= - 64 -> (e = - 64 \/ dbg b = false) ->
  round f b (mkExt m e) cb =
  (fp1 <- cb (mkExt m e) 64 ;;
   Ok (mkExt (mant fp1) (if HIDDEN_BIT_MASK f <=? mant fp1 then 1 else 0))).
Proof.
  intros He Hd. destruct (rfmt_ok_props f Hf) as [Pms _ _ _ _ _ _ _ _ _ _].
  change (2 ^ 30) with 1073741824 in He.
  unfold round. cbn [mant exp]. cbv zeta.
  unfold i32_neg. rewrite NumFacts.sop32_ok by lia. cbn [bind].
  replace (64 - ms - 1 <=? - e) with true by lia.
  unfold i32_add. rewrite NumFacts.sop32_ok by lia. cbn [bind].
  assert (A : debug_assert b (- e + 1 <=? 65) = Ok tt).
  { destruct Hd as [->|Hd]; [apply debug_assert_true; reflexivity|apply debug_assert_nodbg; exact Hd]. }
  rewrite A. cbn [bind]. replace (Z.min (- e + 1) 64) with 64 by lia. reflexivity.
Qed.

(** with debug assertions, [exp <= -65] trips `debug_assert!(shift <= 65)` *)
Lemma round_low_debug b m e cb :
  - 2 ^ 30 <= e <= - 65 -> dbg b = true -> round f b (mkExt m e) cb = Panic PkAssert.
Proof.
  intros He Hd. destruct (rfmt_ok_props f Hf) as [Pms _ _ _ _ _ _ _ _ _ _].
  change (2 ^ 30) with 1073741824 in He.
  unfold round. cbn [mant exp]. cbv zeta.
  unfold i32_neg. rewrite NumFacts.sop32_ok by lia. cbn [bind].
  replace (64 - ms - 1 <=? - e) with true by lia.
  unfold i32_add. rewrite NumFacts.sop32_ok by lia. cbn [bind].
  rewrite (debug_assert_false_dbg b (- e + 1 <=? 65)) by (auto; lia). reflexivity.
Qed.

Lemma hidden_gt_1 : 2 <= HIDDEN_BIT_MASK f.
Proof.
  destruct (rfmt_ok_props f Hf) as [Pms _ _ Phid _ _ _ _ _ _ _]. rewrite Phid.
  change 2 with (2 ^ 1). apply RoundingFactsZ.pow2_le. lia.
Qed.

(** the truncation: +0.0 *)
Lemma round_down_low b m e :
  0 <= m < 2 ^ 64 -> - 2 ^ 30 <= e <= - 64 -> (e = - 64 \/ dbg b = false) ->
  round f b (mkExt m e) (round_down b) = Ok (mkExt 0 0).
Proof.
  intros Hm He Hd. pose proof hidden_gt_1 as HH.
  rewrite round_low by assumption.
  change (2 ^ 30) with 1073741824 in He.
  rewrite round_down_Z; [|lia|lia|change (2 ^ 31) with 2147483648; lia].
  cbn [bind mant]. rewrite Z.div_small by lia.
  replace (HIDDEN_BIT_MASK f <=? 0) with false by lia. reflexivity.
Qed.

(** the final rounding: 0 or 1, decided by the callback applied to "even" *)
Lemma round_cb_low b m e (cbo : bool -> bool) :
  0 <= m < 2 ^ 64 -> - 2 ^ 30 <= e <= - 64 -> (e = - 64 \/ dbg b = false) ->
  round f b (mkExt m e)
    (fun fp s => round_nearest_tie_even b fp s (fun is_odd _ _ => cbo is_odd))
  = Ok (mkExt (if cbo false then 1 else 0) 0).
Proof.
  intros Hm He Hd. pose proof hidden_gt_1 as HH.
  rewrite round_low by assumption.
  change (2 ^ 30) with 1073741824 in He.
  rewrite round_nearest_tie_even_Z; [|lia|lia|change (2 ^ 31) with 2147483648; lia].
  cbn [bind mant]. unfold rnd_cb. cbv zeta. rewrite Z.div_small by lia.
  change (Z.odd 0) with false. rewrite Z.add_0_l.
  destruct (cbo false).
  - replace (HIDDEN_BIT_MASK f <=? 1) with false by lia. reflexivity.
  - replace (HIDDEN_BIT_MASK f <=? 0) with false by lia. reflexivity.
Qed.

(** [rd_bits] (defined through [round_spec]) is the pattern of +0.0 there, too *)
Lemma rd_bits_low m e : 0 <= m < 2 ^ 64 -> e <= - 64 -> rd_bits f (mkExt m e) = 0.
Proof.
  intros Hm He. destruct (rfmt_ok_props f Hf) as [Pms _ _ _ _ _ _ _ _ _ _].
  unfold rd_bits, rd_fields, round_spec. cbn [mant exp]. cbv zeta.
  replace (e <=? - (63 - ms)) with true by lia.
  assert (Hq : m / 2 ^ (1 - e) = 0).
  { apply Z.div_small. split; [lia|].
    apply Z.lt_le_trans with (2 ^ 64); [lia|]. apply RoundingFactsZ.pow2_le. lia. }
  rewrite Hq. pose proof (RoundingFactsZ.pow2_pos ms ltac:(lia)).
  replace (2 ^ ms <=? 0) with false by lia.
  unfold pack_fields. cbn [mant exp]. reflexivity.
Qed.

Lemma dec_zero : dec_mant f 0 = 0 /\ exp_field f 0 = 0 /\ 0 < inf_bits f.
Proof.
  destruct (rfmt_ok_props f Hf) as [Pms Pew _ _ _ _ _ _ _ _ _].
  pose proof (RoundingFactsZ.pow2_pos ms ltac:(lia)) as Hp.
  assert (EW : 4 <= 2 ^ ewidth f) by (change 4 with (2 ^ 2); apply RoundingFactsZ.pow2_le; lia).
  destruct (pack_spec f OK release_build 0 0 ltac:(lia) ltac:(lia)) as (_ & EF & FF' & _).
  rewrite Z.mul_0_l, Z.add_0_l in EF, FF'.
  split; [unfold dec_mant; rewrite EF, FF'; reflexivity|]. split; [exact EF|].
  unfold inf_bits. apply Z.mul_pos_pos; lia.
Qed.

Lemma pack_small b u : 0 <= u <= 1 -> extended_to_float f b (mkExt u 0) = Ok u.
Proof.
  intros Hu. destruct (rfmt_ok_props f Hf) as [Pms Pew _ _ _ _ _ _ _ _ _].
  pose proof hidden_gt_1 as HH. destruct (rfmt_ok_props f Hf) as [_ _ _ Phid _ _ _ _ _ _ _].
  rewrite Phid in HH.
  assert (EW : 4 <= 2 ^ ewidth f) by (change 4 with (2 ^ 2); apply RoundingFactsZ.pow2_le; lia).
  destruct (pack_spec f OK b 0 u ltac:(lia) ltac:(lia)) as (E & _).
  rewrite Z.mul_0_l, Z.add_0_l in E. exact E.
Qed.

End Low.

(** ** 2. `negative_digit_comp` for [exp fp <= -64] *)
Section Main.
Variable c : config.
Variable T : tables.
Variable L : limits.
Variable f : format.
Variable b : build.
Hypothesis Hf : rfmt_ok f = true.
Hypothesis OK : fmt_ok f = true.
Hypothesis HT : pow5_tables_ok T = true.
Hypothesis HK : pow5_large_ok T L = true.
Hypothesis HL : LIMB_BITS L = 64.
Hypothesis Hcap : 2 <= BIGINT_LIMBS L < 2 ^ 63.

Theorem negative_digit_comp_correct_low_gen bigmant fp exponent N :
  limbs_ok (vl bigmant) -> is_normalized (vl bigmant) = true -> lval (vl bigmant) = N -> 0 < N ->
  BIGINT_LIMBS L <= vcap bigmant -> (alloc c = false -> vcap bigmant = BIGINT_LIMBS L) ->
  zlen (vl bigmant) <= vcap bigmant ->
  2 ^ 63 <= mant fp < 2 ^ 64 -> - 2 ^ 30 <= exp fp <= - 64 -> (exp fp = - 64 \/ dbg b = false) ->
  - 2 ^ 30 <= exponent < 0 ->
  let bbits := rd_bits f fp in
  let Mb := dec_mant f bbits in
  let Eb := dec_exp f bbits in
  let beta := Eb - 1 - exponent in
  N * 2 ^ Z.max 0 (- beta) < B64 ^ BIGINT_LIMBS L ->
  (2 * Mb + 1) * 5 ^ (- exponent) * 2 ^ Z.max 0 beta < B64 ^ BIGINT_LIMBS L ->
  forall w, rne_bits f N (10 ^ (- exponent)) w -> bbits <= w <= bbits + 1 ->
  exists r, negative_digit_comp c T L f b bigmant fp exponent = Ok r /\
            extended_to_float f b r = Ok w.
Proof.
  intros Hbo Hbn HbN HN Hbc0 Hbc Hbl Hm He Hd Hex.
  destruct fp as [m e]. cbn [mant exp] in Hm, He, Hd.
  assert (Hm' : 0 <= m < 2 ^ 64) by (change (2 ^ 63) with 9223372036854775808 in Hm; lia).
  rewrite (rd_bits_low f Hf m e Hm' ltac:(lia)).
  intros bbits Mb Eb beta Hfr Hft w Hr Hw. subst bbits.
  destruct (rfmt_ok_props f Hf) as [Pms Pew _ _ _ _ _ _ _ _ _].
  destruct (dec_zero f Hf OK) as (HM0 & _ & Hinf). fold Mb in HM0.
  rewrite ndc_unfold. cbn [mant exp].
  rewrite (debug_assert_true b _ (land_top_bit m Hm)). cbn [bind].
  rewrite (debug_assert_true b (exponent <? 0)) by lia. cbn [bind].
  rewrite (round_down_low f Hf b m e Hm' He Hd). cbn [bind].
  rewrite (pack_small f Hf OK b 0 ltac:(lia)). cbn [bind].
  rewrite (float_bh_spec f OK b 0). cbn [bind mant exp]. fold Mb Eb.
  (* the scaling code *)
  pose proof (dec_exp_range f OK 0) as HEb. fold Eb in HEb.
  assert (HEb' : - 2 ^ 30 <= Eb - 1 < 2 ^ 30).
  { destruct (fmt_ok_facts f OK). pose proof (emax_double f OK) as ED.
    pose proof (ew_pow_small f OK) as ES.
    change (2 ^ 30) with 1073741824. rewrite ff_denexp, ff_bias in HEb. rewrite ff_maxexp, ff_infpow, ff_bias in HEb.
    lia. }
  assert (HMh : 0 < 2 * Mb + 1 < 2 ^ 64) by (rewrite HM0; change (2 ^ 64) with 18446744073709551616; lia).
  destruct (scale_digits_ok c T L b HT HK HL Hcap (2 * Mb + 1) (Eb - 1) bigmant exponent N
              HMh HEb' Hex Hbo Hbn HbN HN Hbc0 Hbc Hbl Hfr Hft) as (td & rd & ES & EC).
  rewrite ES. cbn [bind]. rewrite EC. clear ES EC.
  set (k := - exponent) in *.
  assert (Hk : 0 < k) by (unfold k; lia).
  pose proof (scaled_compare_mid N (2 * Mb + 1) (Eb - 1) k Hk) as SC. cbv zeta in SC.
  replace (Eb - 1 + k) with (Eb - 1 - exponent) in SC by (unfold k; lia). rewrite SC. clear SC.
  set (ord := sc_num N (Eb - 1) ?= (2 * Mb + 1) * sc_den (10 ^ k) (Eb - 1)).
  (* the final rounding at the clamped shift *)
  rewrite (round_cb_low f Hf b m e (mid_up ord) Hm' He Hd).
  set (u := if mid_up ord false then 1 else 0).
  assert (Hu : 0 <= u <= 1) by (unfold u; destruct (mid_up ord false); lia).
  eexists. split; [reflexivity|]. rewrite (pack_small f Hf OK b u Hu). f_equal.
  (* the characterisation of part A at x = +0.0 *)
  assert (H10 : 0 < 10 ^ k) by (apply Z.pow_pos_nonneg; lia).
  pose proof (rne_bits_succ_mid_cmp f OK Pew 0 N (10 ^ k) w ltac:(lia) HN H10 Hr Hw) as HW.
  cbv zeta in HW. fold Mb Eb ord in HW. rewrite HM0 in HW. change (Z.odd 0) with false in HW.
  fold u in HW. lia.
Qed.

End Main.

(** ** 3. The generated tables and limits: the extended theorems *)

(** the theorem of SlowFacts2c with the lower bound -64 (every configuration, every build mode) *)
Theorem negative_digit_comp_correct_64 c f b bigmant fp exponent N :
  rfmt_ok f = true -> fmt_ok f = true ->
  limbs_ok (vl bigmant) -> is_normalized (vl bigmant) = true -> lval (vl bigmant) = N -> 0 < N ->
  62 <= vcap bigmant -> (alloc c = false -> vcap bigmant = 62) -> zlen (vl bigmant) <= vcap bigmant ->
  2 ^ 63 <= mant fp < 2 ^ 64 -> - 64 <= exp fp <= 2 ^ 30 -> - 2 ^ 30 <= exponent < 0 ->
  let bbits := rd_bits f fp in
  let Mb := dec_mant f bbits in
  let Eb := dec_exp f bbits in
  let beta := Eb - 1 - exponent in
  N * 2 ^ Z.max 0 (- beta) < B64 ^ 62 ->
  (2 * Mb + 1) * 5 ^ (- exponent) * 2 ^ Z.max 0 beta < B64 ^ 62 ->
  forall w, rne_bits f N (10 ^ (- exponent)) w -> bbits <= w <= bbits + 1 ->
  exists r, negative_digit_comp c TABLES LIMITS f b bigmant fp exponent = Ok r /\
            extended_to_float f b r = Ok w.
Proof.
  intros Hf OK Hbo Hbn HbN HN Hbc0 Hbc Hbl Hm He Hex.
  destruct (Z_le_gt_dec (- 63) (exp fp)) as [Hhi|Hlo].
  - apply negative_digit_comp_correct; try assumption. lia.
  - assert (E64 : exp fp = - 64) by lia.
    apply (negative_digit_comp_correct_low_gen c TABLES LIMITS f b Hf OK pow5_tables_ok_TABLES
             pow5_large_ok_TABLES eq_refl LIMITS_cap bigmant fp exponent N); try assumption.
    + rewrite E64. change (2 ^ 30) with 1073741824. lia.
    + left. exact E64.
Qed.

(** builds without debug assertions: any estimate exponent in the i32-safe range *)
Theorem negative_digit_comp_correct_nodbg c f b bigmant fp exponent N :
  rfmt_ok f = true -> fmt_ok f = true -> dbg b = false ->
  limbs_ok (vl bigmant) -> is_normalized (vl bigmant) = true -> lval (vl bigmant) = N -> 0 < N ->
  62 <= vcap bigmant -> (alloc c = false -> vcap bigmant = 62) -> zlen (vl bigmant) <= vcap bigmant ->
  2 ^ 63 <= mant fp < 2 ^ 64 -> - 2 ^ 30 <= exp fp <= 2 ^ 30 -> - 2 ^ 30 <= exponent < 0 ->
  let bbits := rd_bits f fp in
  let Mb := dec_mant f bbits in
  let Eb := dec_exp f bbits in
  let beta := Eb - 1 - exponent in
  N * 2 ^ Z.max 0 (- beta) < B64 ^ 62 ->
  (2 * Mb + 1) * 5 ^ (- exponent) * 2 ^ Z.max 0 beta < B64 ^ 62 ->
  forall w, rne_bits f N (10 ^ (- exponent)) w -> bbits <= w <= bbits + 1 ->
  exists r, negative_digit_comp c TABLES LIMITS f b bigmant fp exponent = Ok r /\
            extended_to_float f b r = Ok w.
Proof.
  intros Hf OK Hd Hbo Hbn HbN HN Hbc0 Hbc Hbl Hm He Hex.
  destruct (Z_le_gt_dec (- 63) (exp fp)) as [Hhi|Hlo].
  - apply negative_digit_comp_correct; try assumption. lia.
  - apply (negative_digit_comp_correct_low_gen c TABLES LIMITS f b Hf OK pow5_tables_ok_TABLES
             pow5_large_ok_TABLES eq_refl LIMITS_cap bigmant fp exponent N); try assumption.
    + lia.
    + right. exact Hd.
Qed.

(** the boundary is exact: with debug assertions an estimate exponent of -65 or less panics in the
    first call of `round` (`debug_assert!(shift <= 65)`), whatever the digits *)
Theorem negative_digit_comp_exp_m65_debug c T L f b bigmant fp exponent :
  rfmt_ok f = true -> dbg b = true ->
  2 ^ 63 <= mant fp < 2 ^ 64 -> - 2 ^ 30 <= exp fp <= - 65 -> exponent < 0 ->
  negative_digit_comp c T L f b bigmant fp exponent = Panic PkAssert.
Proof.
  intros Hf Hd Hm He Hex. destruct fp as [m e]. cbn [mant exp] in *.
  rewrite ndc_unfold. cbn [mant exp].
  rewrite (debug_assert_true b _ (land_top_bit m Hm)). cbn [bind].
  rewrite (debug_assert_true b (exponent <? 0)) by lia. cbn [bind].
  rewrite (round_low_debug f Hf b m e _ He Hd). reflexivity.
Qed.

(** ** 4. Examples *)

(** The witness found by the Eisel-Lemire analysis: the declined estimate of
    2470328229206232720...e-342 (many digits) is (2^64 - 8, -64).  Its digits continue as the
    decimal expansion of 2^-1075 (half the smallest subnormal).  [ex64_N] are the first 79 digits
    of 2^-1075 (a value just *below* the midpoint: result +0.0); [ex64_N + 1] is just *above* it:
    result the smallest subnormal (pattern 1).  The decimal exponent is -402. *)
Definition ex64_N := 2470328229206232720882843964341106861825299013071623822127928412503377536351043.
Definition ex64_fp := mkExt (2 ^ 64 - 8) (-64).

Example ex64_brackets_midpoint :
  ex64_N * 2 ^ 1075 < 10 ^ 402 < (ex64_N + 1) * 2 ^ 1075.
Proof. vm_compute. split; reflexivity. Qed.

(** the hypotheses of [negative_digit_comp_correct_64] hold for the value just above 2^-1075 *)
Example negative_digit_comp_correct_64_hyps :
  let N := ex64_N + 1 in
  let bigmant := big N in
  let bbits := rd_bits F64 ex64_fp in
  let beta := dec_exp F64 bbits - 1 - (-402) in
  rfmt_ok F64 = true /\ fmt_ok F64 = true /\
  limbs_ok (vl bigmant) /\ is_normalized (vl bigmant) = true /\ lval (vl bigmant) = N /\ 0 < N /\
  62 <= vcap bigmant /\ vcap bigmant = 62 /\ zlen (vl bigmant) <= vcap bigmant /\
  2 ^ 63 <= mant ex64_fp < 2 ^ 64 /\ - 64 <= exp ex64_fp <= 2 ^ 30 /\ - 2 ^ 30 <= -402 < 0 /\
  bbits = 0 /\
  N * 2 ^ Z.max 0 (- beta) < B64 ^ 62 /\
  (2 * dec_mant F64 bbits + 1) * 5 ^ (- (-402)) * 2 ^ Z.max 0 beta < B64 ^ 62 /\
  rne_bits F64 N (10 ^ (- (-402))) 1 /\
  bbits <= 1 <= bbits + 1.
Proof.
  cbv zeta.
  split; [vm_compute; reflexivity|]. split; [vm_compute; reflexivity|].
  split; [apply limbs_ok_forallb; vm_compute; reflexivity|].
  split; [vm_compute; reflexivity|]. split; [vm_compute; reflexivity|]. split; [vm_compute; reflexivity|].
  split; [vm_compute; congruence|]. split; [reflexivity|]. split; [vm_compute; congruence|].
  split; [vm_compute; split; congruence|]. split; [vm_compute; split; congruence|].
  split; [vm_compute; split; congruence|].
  split; [vm_compute; reflexivity|]. split; [vm_compute; reflexivity|]. split; [vm_compute; reflexivity|].
  split; [|vm_compute; split; congruence].
  right. right. split; [vm_compute; reflexivity|]. split; [vm_compute; reflexivity|].
  exists 1, (-1074). split; [|split].
  - unfold canon_exp. vm_compute. split; [congruence|]. split; [reflexivity|left; reflexivity].
  - unfold nearest_even. vm_compute. split; [congruence|]. intros H. discriminate H.
  - vm_compute. reflexivity.
Qed.

(** ... hence, for every configuration and every build mode, the smallest subnormal *)
Example negative_digit_comp_64_inst c b :
  exists r, negative_digit_comp c TABLES LIMITS F64 b (big (ex64_N + 1)) ex64_fp (-402) = Ok r /\
            extended_to_float F64 b r = Ok 1.
Proof.
  destruct negative_digit_comp_correct_64_hyps as
    (H1 & H2 & H3 & H4 & H5 & H6 & H7 & H8 & H9 & H10 & H11 & H12 & H13 & H14 & H15 & H16 & H17).
  apply (negative_digit_comp_correct_64 c F64 b (big (ex64_N + 1)) ex64_fp (-402) (ex64_N + 1)); auto.
Qed.

(** direct runs on all eight generated configurations and both build modes: just below the
    midpoint gives +0.0, just above gives the smallest subnormal *)
Example negative_digit_comp_64_runs_all_configs :
  forallb (fun c => forallb (fun b =>
    match (r <- negative_digit_comp c TABLES LIMITS F64 b (big ex64_N) ex64_fp (-402) ;;
           extended_to_float F64 b r),
          (r <- negative_digit_comp c TABLES LIMITS F64 b (big (ex64_N + 1)) ex64_fp (-402) ;;
           extended_to_float F64 b r) with
    | Ok w1, Ok w2 => (w1 =? 0) && (w2 =? 1)
    | _, _ => false
    end) [release_build; checked_build]) ALL_CONFIGS = true.
Proof. vm_compute. reflexivity. Qed.

(** [exp fp = -65] (the same digits with an estimate one binade lower, e.g. a value near 2^-1076,
    here 5^1077 * 10^-1077 = 2^-1077 with estimate (2^63, -65)): builds with debug assertions panic,
    builds without return +0.0 (the correctly rounded value); [exp fp = -64] is fine in both *)
Example negative_digit_comp_exp_m65 :
  negative_digit_comp CFG_s TABLES LIMITS F64 checked_build (big (5 ^ 1077)) (mkExt (2 ^ 63) (-65)) (-1077)
    = Panic PkAssert /\
  negative_digit_comp CFG_s TABLES LIMITS F64 (mkBuild false true) (big (5 ^ 1077)) (mkExt (2 ^ 63) (-65)) (-1077)
    = Panic PkAssert /\
  negative_digit_comp CFG_s TABLES LIMITS F64 release_build (big (5 ^ 1077)) (mkExt (2 ^ 63) (-65)) (-1077)
    = Ok (mkExt 0 0) /\
  negative_digit_comp CFG_s TABLES LIMITS F64 (mkBuild true false) (big (5 ^ 1077)) (mkExt (2 ^ 63) (-65)) (-1077)
    = Ok (mkExt 0 0) /\
  negative_digit_comp CFG_s TABLES LIMITS F64 checked_build (big (5 ^ 1076)) (mkExt (2 ^ 63) (-64)) (-1076)
    = Ok (mkExt 0 0) /\
  round F64 checked_build (mkExt (2 ^ 63) (-65)) (round_down checked_build) = Panic PkAssert /\
  round F64 release_build (mkExt (2 ^ 63) (-65)) (round_down release_build) = Ok (mkExt 0 0) /\
  round F64 checked_build (mkExt (2 ^ 64 - 8) (-64)) (round_down checked_build) = Ok (mkExt 0 0).
Proof. vm_compute. repeat split; reflexivity. Qed.

Print Assumptions negative_digit_comp_correct_low_gen.
Print Assumptions negative_digit_comp_correct_64.
Print Assumptions negative_digit_comp_correct_nodbg.
Print Assumptions negative_digit_comp_exp_m65_debug.
