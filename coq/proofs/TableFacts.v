(** * TableFacts: every power constant equals its definition (C14).
    All statements are over the *generated* tables (gen/): finite domains, decided by
    [vm_compute] and lifted with [forallb_forall] / index lemmas, so they are proofs. *)
From Coq Require Import ZArith List Bool Lia.
From Coq Require Import Floats.SpecFloat.
From ML Require Import base.RustSem model.Fmt model.FloatOps model.Num model.Bellerophon
  gen.Consts gen.Tables gen.BTables gen.PowDump.
Import ListNotations.
Open Scope Z_scope.

(** ** generic: a boolean check over all indices of a list *)
Fixpoint check_from {A} (p : Z -> A -> bool) (i : Z) (l : list A) : bool :=
  match l with
  | [] => true
  | x :: r => p i x && check_from p (i + 1) r
  end.

Lemma check_from_nth {A} (p : Z -> A -> bool) (d : A) :
  forall l i, check_from p i l = true ->
  forall k, (k < length l)%nat -> p (i + Z.of_nat k) (nth k l d) = true.
Proof.
  induction l as [|x r IH]; intros i H k Hk; [inversion Hk|].
  cbn [check_from] in H. apply andb_prop in H. destruct H as [Hx Hr].
  destruct k as [|k].
  - cbn [nth]. replace (i + Z.of_nat 0) with i by lia. exact Hx.
  - cbn [nth]. replace (i + Z.of_nat (S k)) with ((i + 1) + Z.of_nat k) by lia.
    apply IH; [exact Hr|cbn [length] in Hk; lia].
Qed.

Lemma check_from_nth0 {A} (p : Z -> A -> bool) (d : A) (l : list A) :
  check_from p 0 l = true -> forall k, 0 <= k < zlen l -> p k (nth (Z.to_nat k) l d) = true.
Proof.
  intros H k Hk. unfold zlen in Hk.
  pose proof (check_from_nth p d l 0 H (Z.to_nat k) ltac:(lia)) as P.
  rewrite Z2Nat.id in P by lia. replace (0 + k) with k in P by lia. exact P.
Qed.

(** ** integer powers *)
Definition int_pow_ok (r : Z) (l : list Z) : bool := check_from (fun k v => v =? r ^ k) 0 l.

(** ** floating-point powers: the bit pattern decodes to exactly 10^k *)
Definition bits_exact (f : format) (x v : Z) : bool :=
  match sf_of_bits f x with
  | S754_finite false m e =>
      if 0 <=? e then Zpos m * 2 ^ e =? v else Zpos m =? v * 2 ^ (- e)
  | _ => false
  end.
Definition float_pow_ok (f : format) (n : nat) (l : list Z) : bool :=
  check_from (fun k x => bits_exact f x (10 ^ k)) 0 (firstn n l) && (Nat.leb n (length l)).

(** ** the 128-bit Eisel-Lemire entries, as etc/lemire_table.py defines them *)
Fixpoint halve_until (fuel : nat) (c : Z) : Z :=
  match fuel with
  | O => c
  | S k => if 2 ^ 128 <=? c then halve_until k (c / 2) else c
  end.
Fixpoint double_until (fuel : nat) (c : Z) : Z :=
  match fuel with
  | O => c
  | S k => if c <? 2 ^ 127 then double_until k (2 * c) else c
  end.

Definition lemire_def (q : Z) : Z :=
  if 0 <=? q then halve_until 800 (double_until 128 (5 ^ q))
  else
    let p5 := 5 ^ (- q) in
    let z := Z.log2 p5 + 1 in              (* least z with 2^z >= 5^-q: 5^n is never a power of 2 *)
    if -27 <=? q then 2 ^ (z + 127) / p5 + 1
    else halve_until 800 (2 ^ (2 * z + 128) / p5 + 1).

Definition entry128 (e : Z * Z) : Z := fst e * 2 ^ 64 + snd e.

Definition lemire_entry_ok (i : Z) (e : Z * Z) : bool :=
  let q := i + SMALLEST_POWER_OF_FIVE TABLES in
  let t := entry128 e in
  in_u 64 (fst e) && in_u 64 (snd e) &&
  (t =? lemire_def q) && (2 ^ 127 <=? t) && (t <? 2 ^ 128).

(** the brackets the Eisel-Lemire argument consumes: with f = floor(log2 5^q),
    q >= 0:            T * 2^(f-127) <= 5^q < (T+1) * 2^(f-127)   (exact when f <= 127)
    -27 <= q < 0:      (T-1) * 5^-q < 2^b <= ... i.e. T = floor(2^b / 5^-q) + 1, b = z + 127
    q < -27:           T * 2^k <= floor(2^b/5^-q)+1 < (T+1) * 2^k  for the halving count k *)
Definition lemire_bracket_ok (i : Z) (e : Z * Z) : bool :=
  let q := i + SMALLEST_POWER_OF_FIVE TABLES in
  let t := entry128 e in
  if 0 <=? q then
    let fl := Z.log2 (5 ^ q) in
    if fl <=? 127 then t =? 5 ^ q * 2 ^ (127 - fl)
    else (t * 2 ^ (fl - 127) <=? 5 ^ q) && (5 ^ q <? (t + 1) * 2 ^ (fl - 127))
  else
    let p5 := 5 ^ (- q) in
    let z := Z.log2 p5 + 1 in
    if -27 <=? q then
      ((t - 1) * p5 <? 2 ^ (z + 127)) && (2 ^ (z + 127) <? t * p5) && negb (snd e =? 0)
    else
      (* T = floor(c / 2^k) with c = floor(2^(2z+128)/5^n) + 1 and 2^127 <= T < 2^128:
         T * 5^n * 2^k <= 2^(2z+128) + ... ; stated as:  2^(z+127) / 5^n  in (T - 1, T + 1) scaled *)
      let k := z + 1 in   (* c has exactly 128 + k bits when halving stops at 128 bits *)
      (t * p5 * 2 ^ k <? 2 ^ (2 * z + 128) + p5 * 2 ^ k) && (2 ^ (2 * z + 128) <? (t + 1) * p5 * 2 ^ k).

Definition lemire_table_ok : bool :=
  check_from lemire_entry_ok 0 (POWER_OF_FIVE_128 TABLES) &&
  check_from lemire_bracket_ok 0 (POWER_OF_FIVE_128 TABLES) &&
  (zlen (POWER_OF_FIVE_128 TABLES) =? LARGEST_POWER_OF_FIVE TABLES - SMALLEST_POWER_OF_FIVE TABLES + 1) &&
  (zlen (POWER_OF_FIVE_128 TABLES) =? N_POWERS_OF_FIVE).

(** ** Bellerophon significands: floor(10^k * 2^-e) with e from the log2 multiplier, normalised *)
Definition bell_entry_ok (k m e : Z) : bool :=
  (2 ^ 63 <=? m) && (m <? 2 ^ 64) &&
  if 0 <=? k then
    if 0 <=? e then (m * 2 ^ e <=? 10 ^ k) && (10 ^ k <? (m + 1) * 2 ^ e)
    else (m <=? 10 ^ k * 2 ^ (- e)) && (10 ^ k * 2 ^ (- e) <? m + 1)
  else
    (m * 10 ^ (- k) <=? 2 ^ (- e)) && (2 ^ (- e) <? (m + 1) * 10 ^ (- k)) && (e <? 0).

Definition ext_exp_of (o : outcome extfloat) : Z := match o with Ok x => exp x | _ => 0 end.
Definition is_ok_ext (o : outcome extfloat) : bool := match o with Ok _ => true | _ => false end.

Definition bell_small_ok : bool :=
  check_from (fun i m => is_ok_ext (get_small BTABLES checked_build i) &&
                         bell_entry_ok i m (ext_exp_of (get_small BTABLES checked_build i))) 0 (BELL_SMALL BTABLES).
Definition bell_large_ok : bool :=
  check_from (fun i m => is_ok_ext (get_large BTABLES checked_build i) &&
                         bell_entry_ok (i * BELL_STEP BTABLES - BELL_BIAS BTABLES) m
                           (ext_exp_of (get_large BTABLES checked_build i))) 0 (BELL_LARGE BTABLES).
Definition bell_exps_match_dump : bool :=
  check_from (fun i e => ext_exp_of (get_small BTABLES checked_build i) =? e) 0 BELL_SMALL_EXP_data &&
  check_from (fun i e => ext_exp_of (get_large BTABLES checked_build i) =? e) 0 BELL_LARGE_EXP_data.

(** ** large big-integer factor *)
Fixpoint limbs_val (l : list Z) : Z :=
  match l with [] => 0 | x :: r => x + 2 ^ 64 * limbs_val r end.

(** ** the checks, run on the regenerated data *)
Lemma small_int_pow5_ok : int_pow_ok 5 (SMALL_INT_POW5 TABLES) = true /\ length (SMALL_INT_POW5 TABLES) = 28%nat.
Proof. split; vm_compute; reflexivity. Qed.
Lemma small_int_pow10_ok : int_pow_ok 10 (SMALL_INT_POW10 TABLES) = true /\ length (SMALL_INT_POW10 TABLES) = 20%nat.
Proof. split; vm_compute; reflexivity. Qed.
Lemma small_f32_pow10_ok : float_pow_ok F32 11 (SMALL_F32_POW10 TABLES) = true.
Proof. vm_compute; reflexivity. Qed.
Lemma small_f64_pow10_ok : float_pow_ok F64 23 (SMALL_F64_POW10 TABLES) = true.
Proof. vm_compute; reflexivity. Qed.
Lemma lemire_entries_ok : check_from lemire_entry_ok 0 (POWER_OF_FIVE_128 TABLES) = true.
Proof. vm_cast_no_check (eq_refl true). Qed.
Lemma lemire_brackets_ok : check_from lemire_bracket_ok 0 (POWER_OF_FIVE_128 TABLES) = true.
Proof. vm_cast_no_check (eq_refl true). Qed.
Lemma lemire_len_ok : zlen (POWER_OF_FIVE_128 TABLES) = LARGEST_POWER_OF_FIVE TABLES - SMALLEST_POWER_OF_FIVE TABLES + 1.
Proof. vm_cast_no_check (eq_refl (zlen (POWER_OF_FIVE_128 TABLES))). Qed.
Lemma bell_tables_ok : bell_small_ok = true /\ bell_large_ok = true /\ bell_exps_match_dump = true /\
  int_pow_ok 10 (BELL_SMALL_INT BTABLES) = true /\ length (BELL_SMALL_INT BTABLES) = 10%nat /\
  length (BELL_SMALL BTABLES) = 10%nat /\ length (BELL_LARGE BTABLES) = 66%nat.
Proof. vm_cast_no_check (conj (eq_refl true) (conj (eq_refl true) (conj (eq_refl true) (conj (eq_refl true)
  (conj (eq_refl 10%nat) (conj (eq_refl 10%nat) (eq_refl 66%nat))))))). Qed.
Lemma large_pow5_ok : limbs_val (LARGE_POW5 TABLES) = 5 ^ LARGE_POW5_STEP TABLES /\
  forallb (in_u 64) (LARGE_POW5 TABLES) = true /\ LARGE_POW5_STEP TABLES = 135.
Proof. repeat split; vm_compute; reflexivity. Qed.
(** on-demand powers of every configuration (std powf/powd, bundled libm, u64::pow, tables) *)
Lemma on_demand_pow_ok :
  forallb (float_pow_ok F32 11) ALL_POW_F32 = true /\ forallb (float_pow_ok F64 23) ALL_POW_F64 = true /\
  forallb (fun l => int_pow_ok 10 l && (20 <=? zlen l)) ALL_IPOW10 = true /\
  forallb (fun l => int_pow_ok 5 l && (28 <=? zlen l)) ALL_IPOW5 = true /\
  length ALL_POW_F32 = 8%nat /\ length ALL_POW_F64 = 8%nat /\ length ALL_IPOW10 = 8%nat /\ length ALL_IPOW5 = 8%nat.
Proof. repeat split; vm_compute; reflexivity. Qed.

(** ** lifted statements *)
Theorem small_int_pow5_exact : forall k, 0 <= k < 28 -> nth (Z.to_nat k) (SMALL_INT_POW5 TABLES) 0 = 5 ^ k.
Proof.
  intros k Hk. destruct small_int_pow5_ok as [H Hl].
  pose proof (check_from_nth _ 0 _ 0 H (Z.to_nat k)) as P. rewrite Hl in P.
  specialize (P ltac:(lia)). cbv beta in P. rewrite Z2Nat.id in P by lia.
  apply Z.eqb_eq in P. replace (0 + k) with k in P by lia. exact P.
Qed.

Theorem small_int_pow10_exact : forall k, 0 <= k < 20 -> nth (Z.to_nat k) (SMALL_INT_POW10 TABLES) 0 = 10 ^ k.
Proof.
  intros k Hk. destruct small_int_pow10_ok as [H Hl].
  pose proof (check_from_nth _ 0 _ 0 H (Z.to_nat k)) as P. rewrite Hl in P.
  specialize (P ltac:(lia)). cbv beta in P. rewrite Z2Nat.id in P by lia.
  apply Z.eqb_eq in P. replace (0 + k) with k in P by lia. exact P.
Qed.

Lemma nth_firstn_lt {A} (d : A) : forall (l : list A) n k, (k < n)%nat -> nth k (firstn n l) d = nth k l d.
Proof.
  induction l as [|x r IH]; intros n k H; destruct n, k; cbn; try reflexivity; try lia.
  apply IH. lia.
Qed.

Lemma float_pow_nth f n l : float_pow_ok f n l = true ->
  forall k, 0 <= k < Z.of_nat n -> bits_exact f (nth (Z.to_nat k) l 0) (10 ^ k) = true.
Proof.
  unfold float_pow_ok. intros H k Hk. apply andb_prop in H. destruct H as [H Hn].
  apply Nat.leb_le in Hn.
  pose proof (check_from_nth _ 0 _ 0 H (Z.to_nat k)) as P.
  rewrite firstn_length_le in P by lia. specialize (P ltac:(lia)). cbv beta in P.
  rewrite Z2Nat.id in P by lia. replace (0 + k) with k in P by lia.
  rewrite nth_firstn_lt in P by lia. exact P.
Qed.

Theorem small_f32_pow10_exact : forall k, 0 <= k <= 10 ->
  bits_exact F32 (nth (Z.to_nat k) (SMALL_F32_POW10 TABLES) 0) (10 ^ k) = true.
Proof. intros k Hk. apply (float_pow_nth F32 11 _ small_f32_pow10_ok). lia. Qed.

Theorem small_f64_pow10_exact : forall k, 0 <= k <= 22 ->
  bits_exact F64 (nth (Z.to_nat k) (SMALL_F64_POW10 TABLES) 0) (10 ^ k) = true.
Proof. intros k Hk. apply (float_pow_nth F64 23 _ small_f64_pow10_ok). lia. Qed.

Theorem lemire_entry_spec : forall q,
  SMALLEST_POWER_OF_FIVE TABLES <= q <= LARGEST_POWER_OF_FIVE TABLES ->
  lemire_entry_ok (q - SMALLEST_POWER_OF_FIVE TABLES)
    (nth (Z.to_nat (q - SMALLEST_POWER_OF_FIVE TABLES)) (POWER_OF_FIVE_128 TABLES) (0, 0)) = true /\
  lemire_bracket_ok (q - SMALLEST_POWER_OF_FIVE TABLES)
    (nth (Z.to_nat (q - SMALLEST_POWER_OF_FIVE TABLES)) (POWER_OF_FIVE_128 TABLES) (0, 0)) = true.
Proof.
  intros q Hq.
  assert (Hr : 0 <= q - SMALLEST_POWER_OF_FIVE TABLES < zlen (POWER_OF_FIVE_128 TABLES)).
  { rewrite lemire_len_ok. revert Hq.
    generalize (SMALLEST_POWER_OF_FIVE TABLES) (LARGEST_POWER_OF_FIVE TABLES). intros a b Hq. lia. }
  split.
  - exact (check_from_nth0 lemire_entry_ok (0, 0) _ lemire_entries_ok _ Hr).
  - exact (check_from_nth0 lemire_bracket_ok (0, 0) _ lemire_brackets_ok _ Hr).
Qed.

Theorem large_pow5_exact : limbs_val (LARGE_POW5 TABLES) = 5 ^ 135.
Proof. destruct large_pow5_ok as [H [_ Hs]]. rewrite H, Hs. reflexivity. Qed.
