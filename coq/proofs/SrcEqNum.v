(** * gen/Src.v = model: src/num.rs default methods and src/extended_float.rs *)
From Coq Require Import ZArith List Bool Lia Znumtheory.
From Coq Require Import ZifyBool.
From ML Require Import base.RustSem model.Fmt model.FloatOps model.Mask model.Num model.Number
  model.Rounding model.Lemire model.Bellerophon model.Slow gen.Consts gen.Tables gen.BTables.
From ML Require Import gen.Src.
From ML Require Import proofs.SrcEqBase.
Import ListNotations.
Ltac Zify.zify_post_hook ::= Z.div_mod_to_equations.
Open Scope Z_scope.
Open Scope rust_scope.
(** ** num.rs: default methods of [trait Float] *)
Theorem rs_is_denormal_eq : forall f b x, rs_is_denormal f b x = Ok (is_denormal f x).
Proof. reflexivity. Qed.
#[export] Hint Rewrite rs_is_denormal_eq : rs_eq.

Theorem rs_exponent_eq : forall f b x, rs_exponent f b x = float_exponent f b x.
Proof. intros. unfold rs_exponent, float_exponent. rewrite rs_is_denormal_eq. auto_eq. Qed.
#[export] Hint Rewrite rs_exponent_eq : rs_eq.

Theorem rs_mantissa_eq : forall f b x, rs_mantissa f b x = float_mantissa f b x.
Proof. intros. unfold rs_mantissa, float_mantissa. rewrite rs_is_denormal_eq. auto_eq. Qed.
#[export] Hint Rewrite rs_mantissa_eq : rs_eq.

(** ** extended_float.rs *)
Theorem rs_extended_to_float_eq : forall f b x,
  rs_extended_to_float f b x = extended_to_float f b x.
Proof. intros. unfold rs_extended_to_float, extended_to_float. auto_eq. Qed.
#[export] Hint Rewrite rs_extended_to_float_eq : rs_eq.


Print Assumptions rs_is_denormal_eq.
Print Assumptions rs_exponent_eq.
Print Assumptions rs_mantissa_eq.
Print Assumptions rs_extended_to_float_eq.
