(** * gen/Src.v = model: src/number.rs (fast path) *)
From Coq Require Import ZArith List Bool Lia Znumtheory.
From Coq Require Import ZifyBool.
From ML Require Import base.RustSem model.Fmt model.FloatOps model.Mask model.Num model.Number
  model.Rounding model.Lemire model.Bellerophon model.Slow gen.Consts gen.Tables gen.BTables.
From ML Require Import gen.Src.
From ML Require Import proofs.SrcEqBase.
Import ListNotations.
Ltac Zify.zify_post_hook ::= Z.div_mod_to_equations.
Open Scope Z_scope.
Open Scope rust_scope.
(** ** number.rs *)
Theorem rs_is_fast_path_eq : forall f b n, rs_is_fast_path f b n = Ok (is_fast_path f n).
Proof. reflexivity. Qed.

Theorem rs_try_fast_path_eq : forall c T f b n,
  rs_try_fast_path c T f b n = try_fast_path c T f b n.
Proof.
  intros. unfold rs_try_fast_path, try_fast_path. rewrite rs_is_fast_path_eq. auto_eq.
Qed.


Print Assumptions rs_is_fast_path_eq.
Print Assumptions rs_try_fast_path_eq.
