(** * gen/Src.v = model: src/slow.rs scientific_exponent *)
From Coq Require Import ZArith List Bool Lia Znumtheory.
From Coq Require Import ZifyBool.
From ML Require Import base.RustSem model.Fmt model.FloatOps model.Mask model.Num model.Number
  model.Rounding model.Lemire model.Bellerophon model.Slow gen.Consts gen.Tables gen.BTables.
From ML Require Import gen.Src.
From ML Require Import proofs.SrcEqBase.
Import ListNotations.
Ltac Zify.zify_post_hook ::= Z.div_mod_to_equations.
Open Scope Z_scope.
Open Scope rust_scope.
Lemma rs_while_sci b k stp : (k =? 0) = false -> forall fuel m e,
  rs_while fuel (fun '(v_e, v_m) => Ok (k <=? v_m))
    (fun '(v_e, v_m) => t1 <- u64_div b v_m k ;; t2 <- i32_add b v_e stp ;; Ok (t2, t1)) (e, m)
  = '(m', e') <- sci_loop b fuel k stp m e ;; Ok (e', m').
Proof.
  intros Hk.
  assert (Hd : forall x, u64_div b x k = Ok (x / k)) by (intros; unfold u64_div; rewrite Hk; reflexivity).
  induction fuel as [|fuel IH]; intros m e; cbn [rs_while sci_loop bind];
    destruct (k <=? m); try reflexivity.
  rewrite (Hd m). cbn [bind].
  destruct (i32_add b e stp); cbn [bind]; try reflexivity. apply IH.
Qed.

Theorem rs_scientific_exponent_eq : forall b n,
  rs_scientific_exponent b n = scientific_exponent b n.
Proof.
  intros. unfold rs_scientific_exponent, scientific_exponent.
  rewrite (rs_while_sci b 10000 4 eq_refl 20). heads.
  step. destruct a as [m1 e1]. heads.
  rewrite (rs_while_sci b 100 2 eq_refl 20). heads.
  step. destruct a as [m2 e2]. heads.
  rewrite (rs_while_sci b 10 1 eq_refl 20). heads.
  step. destruct a as [m3 e3]. reflexivity.
Qed.


Example rs_scientific_exponent_example :
  rs_scientific_exponent release_build (mkNumber (-3) 123456789 false) = Ok 5.
Proof. vm_compute. reflexivity. Qed.

Print Assumptions rs_scientific_exponent_eq.
