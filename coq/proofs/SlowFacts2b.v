(** * SlowFacts2b (part B): the big-integer digit comparison of `negative_digit_comp`.

    Both back-ends.  Under explicit size hypotheses (the two scaled integers fit [BIGINT_LIMBS]
    limbs: the fixed capacity of the stack vector, and a lower bound of the heap vector's
    capacity, which `shl_limbs` tests) the scaling code does not panic, keeps both operands
    normalised, and [vcompare] of the results is the comparison of the exact integers
      N * 2^max(0,-beta)   and   Mh * 5^k * 2^max(0,beta),
    which is the comparison of N / 10^k with Mh * 2^e ([scaled_compare_mid]). *)
From Coq Require Import ZArith List Bool Lia Znumtheory.
From Coq Require Import ZifyBool.
From ML Require Import base.RustSem model.Fmt model.Vec model.Number model.Bigint.
From ML Require Import gen.Consts gen.PowDump gen.Tables spec.RneZ.
From ML Require Import proofs.LimbVal proofs.BigintFacts2 proofs.BigintFacts1 proofs.SlowFacts2.
Import ListNotations.
Open Scope Z_scope.
Local Opaque Z.pow.
Arguments Z.pow : simpl never.

(** ** 1. Normalisation and a capacity lower bound are preserved by the multiplications of [pow5] *)

Lemma small_mul_normalized c v y v' :
  limbs_ok (vl v) -> is_normalized (vl v) = true -> 0 < lval (vl v) -> 0 < y < B64 ->
  small_mul c v y = Some v' -> is_normalized (vl v') = true.
Proof.
  intros Hl Hn Hp Hy H.
  apply small_mul_spec in H; [|assumption|lia]. destruct H as (V & O & Z' & _).
  assert (Hne : vl v <> []) by (apply lval_pos_nonempty; exact Hp).
  pose proof (normalized_lower_bound _ Hl Hn Hne) as LB.
  assert (Hpos' : 0 < lval (vl v')) by (rewrite V; apply Z.mul_pos_pos; lia).
  assert (Hne' : vl v' <> []) by (apply lval_pos_nonempty; exact Hpos').
  apply (is_normalized_lval _ O Hne'). rewrite Z', V.
  destruct (B64 ^ zlen (vl v) <=? lval (vl v) * y) eqn:E.
  - replace (zlen (vl v) + 1 - 1) with (zlen (vl v)) by lia. lia.
  - rewrite Z.add_0_r.
    assert (lval (vl v) * 1 <= lval (vl v) * y) by (apply Z.mul_le_mono_nonneg_l; lia). lia.
Qed.

(** a multi-limb [large_mul] builds its result in a fresh vector: capacity at least BIGINT_LIMBS *)
Lemma large_mul_cap_ge c L v y v' :
  limbs_ok (vl v) -> limbs_ok y -> vl v <> [] -> 2 <= zlen y ->
  large_mul c L v y = Some v' -> BIGINT_LIMBS L <= vcap v'.
Proof.
  intros Hv Hy Hne H2. rewrite large_mul_unfold.
  destruct y as [|y0 [|y1 ys]]; try (rewrite ?zlen_cons, ?(@zlen_nil Z) in H2; lia).
  intros H. apply long_mul_spec in H; try assumption. tauto.
Qed.

Lemma pow_large_loop_normalized c T L : forall fuel v e v1 e1,
  0 < LARGE_POW5_STEP T -> limbs_ok (LARGE_POW5 T) -> lval (LARGE_POW5 T) = 5 ^ LARGE_POW5_STEP T ->
  2 <= zlen (LARGE_POW5 T) ->
  limbs_ok (vl v) -> 0 < lval (vl v) -> is_normalized (vl v) = true ->
  pow_large_loop c T L fuel v e = Some (v1, e1) ->
  is_normalized (vl v1) = true /\ (BIGINT_LIMBS L <= vcap v -> BIGINT_LIMBS L <= vcap v1).
Proof.
  induction fuel as [|fuel IH]; intros v e v1 e1 Hs HL HV H2 Hv Hp Hn; rewrite pow_large_loop_eq;
    destruct (LARGE_POW5_STEP T <=? e) eqn:E.
  - discriminate.
  - intros H. inversion H; subst v1 e1. split; [exact Hn|auto].
  - destruct (large_mul c L v (LARGE_POW5 T)) as [v'|] eqn:Em; [|discriminate].
    pose proof (large_mul_cap_ge c L v _ v' Hv HL (lval_pos_nonempty _ Hp) H2 Em) as Cg.
    apply large_mul_spec in Em; try assumption; [|left; apply lval_pos_nonempty; exact Hp].
    destruct Em as [V [O [N _]]].
    assert (P5 : 0 < 5 ^ LARGE_POW5_STEP T) by (apply Z.pow_pos_nonneg; lia).
    intros H. apply IH in H; try assumption.
    + destruct H as [H1 H3]. split; [exact H1|intros _; apply H3; exact Cg].
    + rewrite V, HV. apply Z.mul_pos_pos; assumption.
    + apply N. lia.
  - intros H. inversion H; subst v1 e1. split; [exact Hn|auto].
Qed.

Lemma pow_small_loop_normalized c K : forall fuel v e v1 e1,
  limbs_ok (vl v) -> 0 < lval (vl v) -> is_normalized (vl v) = true ->
  pow_small_loop c fuel v e = Some (v1, e1) ->
  is_normalized (vl v1) = true /\ (K <= vcap v -> K <= vcap v1).
Proof.
  assert (P5 : 0 < 5 ^ 27 < B64) by (split; vm_compute; reflexivity).
  induction fuel as [|fuel IH]; intros v e v1 e1 Hv Hp Hn; rewrite pow_small_loop_eq;
    destruct (small_step <=? e) eqn:E.
  - discriminate.
  - intros H. inversion H; subst v1 e1. split; [exact Hn|auto].
  - destruct (small_mul c v max_native5) as [v'|] eqn:Em; [|discriminate].
    rewrite max_native5_eq in Em.
    pose proof (small_mul_normalized c v _ v' Hv Hn Hp P5 Em) as N.
    apply small_mul_spec in Em; try assumption; [|lia]. destruct Em as [V [O [_ [_ [_ [G _]]]]]].
    intros H. apply IH in H; try assumption; [|rewrite V; apply Z.mul_pos_pos; lia].
    destruct H as [H1 H3]. split; [exact H1|intros HK; apply H3; lia].
  - intros H. inversion H; subst v1 e1. split; [exact Hn|auto].
Qed.

Theorem pow5_normalized c T L b v e v' :
  pow5_tables_ok T = true -> pow5_large_ok T L = true ->
  limbs_ok (vl v) -> 0 < lval (vl v) -> 0 <= e -> is_normalized (vl v) = true ->
  pow5 c T L b v e = Ok (Some v') ->
  is_normalized (vl v') = true /\ (BIGINT_LIMBS L <= vcap v -> BIGINT_LIMBS L <= vcap v').
Proof.
  intros HT HK Hv Hp He Hn. unfold pow5. intros H.
  destruct (pow5_tables_ok_inv T HT) as [T1 [T2 [T3 [T4 T5]]]].
  unfold pow5_large_ok in HK. rewrite !andb_true_iff in HK. destruct HK as [[K1 K2] K3].
  apply obind_Some in H. destruct H as [[v1 e1] [H1 H]].
  apply obind_Some in H. destruct H as [[v2 e2] [H2 H]].
  assert (S1 : lval (vl v1) * 5 ^ e1 = lval (vl v) * 5 ^ e /\ 0 <= e1 /\
               limbs_ok (vl v1) /\ 0 < lval (vl v1) /\ is_normalized (vl v1) = true /\
               (BIGINT_LIMBS L <= vcap v -> BIGINT_LIMBS L <= vcap v1)).
  { destruct (compact c) eqn:Ec.
    - inversion H1; subst v1 e1. repeat split; try assumption; try lia; auto.
    - destruct (LARGE_POW5_STEP T <=? 0) eqn:E0; [discriminate|].
      apply Ok_inj in H1.
      destruct (pow_large_loop_normalized c T L _ _ _ _ _ T1 T3 T2 ltac:(lia) Hv Hp Hn H1) as [N1 G1].
      apply pow_large_loop_spec in H1; try assumption. intuition lia. }
  destruct S1 as [V1 [He1 [O1 [P1 [N1 G1]]]]].
  apply Ok_inj in H2.
  destruct (pow_small_loop_normalized c (BIGINT_LIMBS L) _ _ _ _ _ O1 P1 N1 H2) as [N2 G2].
  apply pow_small_loop_spec in H2; try assumption.
  destruct H2 as [V2 [He2 [O2 [P2 _]]]].
  destruct (e2 =? 0) eqn:E2; cbn [negb] in H.
  - inversion H; subst v'. split; [exact N2|auto].
  - rewrite int_pow5_fast in H; [|lia|intros _; split; assumption].
    cbn [bind] in H. apply Ok_inj in H.
    pose proof (pow5_small_bound e2 ltac:(lia)).
    split; [apply (small_mul_normalized c v2 (5 ^ e2) v'); assumption|].
    apply small_mul_spec in H; try assumption; [|lia]. destruct H as [_ [_ [_ [_ [_ [G _]]]]]].
    intros HK. specialize (G1 HK). specialize (G2 G1). lia.
Qed.

(** ** 2. [pow5] and [shl] succeed when the result fits BIGINT_LIMBS limbs (both back-ends) *)

Theorem pow5_fits_ok c T L b v e :
  pow5_tables_ok T = true -> pow5_large_ok T L = true ->
  limbs_ok (vl v) -> is_normalized (vl v) = true -> 0 < lval (vl v) -> 0 <= e ->
  BIGINT_LIMBS L <= vcap v -> (alloc c = false -> vcap v = BIGINT_LIMBS L) -> zlen (vl v) <= vcap v ->
  lval (vl v) * 5 ^ e < B64 ^ BIGINT_LIMBS L ->
  exists v', pow5 c T L b v e = Ok (Some v') /\
    lval (vl v') = lval (vl v) * 5 ^ e /\ limbs_ok (vl v') /\ is_normalized (vl v') = true /\
    BIGINT_LIMBS L <= vcap v' /\ (alloc c = false -> vcap v' = BIGINT_LIMBS L) /\
    zlen (vl v') <= vcap v'.
Proof.
  intros HT HK Hv Hn Hp He Hc0 Hc1 Hc2 Hfit.
  destruct (pow5_total c T L b v e ltac:(auto) Hv Hp He ltac:(auto)) as [o [E S]].
  destruct o as [v'|].
  - exists v'. destruct S as [V [O C]].
    destruct (pow5_normalized c T L b v e v' HT HK Hv Hp He Hn E) as [N G].
    pose proof (pow5_spec c T L b v e v' ltac:(auto) Hv Hp He E) as (_ & _ & I).
    split; [exact E|]. split; [exact V|]. split; [exact O|]. split; [exact N|].
    split; [apply G; exact Hc0|]. split; [intros Ha; apply (C Ha)|apply I; exact Hc2].
  - destruct S as [_ S]. lia.
Qed.

Theorem shl_stack_ok c L b v n :
  alloc c = false -> LIMB_BITS L = 64 -> 0 <= n < 2 ^ 64 ->
  limbs_ok (vl v) -> is_normalized (vl v) = true -> 0 < lval (vl v) ->
  zlen (vl v) <= vcap v -> vcap v < 2 ^ 63 ->
  lval (vl v) * 2 ^ n < B64 ^ vcap v ->
  exists v', shl c L b v n = Ok (Some v') /\
    lval (vl v') = lval (vl v) * 2 ^ n /\ limbs_ok (vl v') /\ is_normalized (vl v') = true /\
    vcap v' = vcap v.
Proof.
  intros Ha HL Hn Hv Hnz Hp Hc Hcap Hfit.
  assert (Hne : vl v <> []) by (apply lval_pos_nonempty; exact Hp).
  destruct (shl_full c L b v n HL ltac:(lia) (shl_size_hyp v n Hn ltac:(lia)) Hv) as (o & Ho & Hs & Hnone).
  destruct o as [v'|].
  - exists v'. destruct (Hs v' eq_refl) as (V & O & C & _ & N).
    split; [exact Ho|]. split; [exact V|]. split; [exact O|]. split; [apply N; exact Hnz|apply C; exact Ha].
  - pose proof (proj1 (Hnone Ha Hne Hnz Hc) eq_refl). lia.
Qed.

(** a normalised number below B64^K has at most K limbs *)
Lemma norm_len_le l K :
  limbs_ok l -> is_normalized l = true -> l <> [] -> 0 <= K -> lval l < B64 ^ K -> zlen l <= K.
Proof.
  intros Hl Hn Hne HK Hlt. pose proof (normalized_lower_bound l Hl Hn Hne) as LB.
  pose proof (pow_B64_lt_inv (zlen l - 1) K (lval l) HK LB Hlt). lia.
Qed.

(** heap back-end: [shl] only fails through the capacity test of [shl_limbs], which is passed when
    the result fits K limbs and the capacity is at least K *)
Theorem shl_heap_ok c L b v n K :
  alloc c = true -> LIMB_BITS L = 64 -> 0 <= n < 2 ^ 64 ->
  limbs_ok (vl v) -> is_normalized (vl v) = true -> 0 < lval (vl v) ->
  0 <= K < 2 ^ 63 -> K <= vcap v ->
  lval (vl v) * 2 ^ n < B64 ^ K ->
  exists v', shl c L b v n = Ok (Some v') /\
    lval (vl v') = lval (vl v) * 2 ^ n /\ limbs_ok (vl v') /\ is_normalized (vl v') = true /\
    K <= vcap v'.
Proof.
  intros Ha HL Hn Hv Hnz Hp HK Hcap Hfit.
  change (2 ^ 64) with 18446744073709551616 in Hn. change (2 ^ 63) with 9223372036854775808 in HK.
  assert (Hne : vl v <> []) by (apply lval_pos_nonempty; exact Hp).
  unfold shl. rewrite HL.
  pose proof (Z.div_mod n 64 ltac:(lia)) as Hdm.
  pose proof (Z.mod_pos_bound n 64 ltac:(lia)) as Hrem.
  assert (Hdiv : 0 <= n / 64) by (apply Z.div_pos; lia).
  assert (Hdiv' : n / 64 < 288230376151711744) by (apply Z.div_lt_upper_bound; lia).
  set (rem := n mod 64) in *. set (d := n / 64) in *.
  assert (H2n : 2 ^ n = 2 ^ rem * B64 ^ d).
  { rewrite B64_pow by lia. rewrite <- BigintFacts2.pow2_split by lia. f_equal. lia. }
  assert (HBd : 0 < B64 ^ d) by (apply B64_pow_pos; lia).
  assert (H2r : 0 < 2 ^ rem) by (apply pow2_gt0; lia).
  (* the limb-shift stage, for any normalised non-empty v1 with  lval v1 * B64^d < B64^K *)
  assert (Stage : forall v1, limbs_ok (vl v1) -> is_normalized (vl v1) = true -> 0 < lval (vl v1) ->
            K <= vcap v1 -> lval (vl v1) * B64 ^ d < B64 ^ K ->
            exists v', (if negb (d =? 0) then shl_limbs b v1 d else Ok (Some v1)) = Ok (Some v') /\
              lval (vl v') = lval (vl v1) * B64 ^ d /\ limbs_ok (vl v') /\
              is_normalized (vl v') = true /\ K <= vcap v').
  { intros v1 O1 N1 P1 C1 F1.
    assert (Hne1 : vl v1 <> []) by (apply lval_pos_nonempty; exact P1).
    assert (Hlen : d + zlen (vl v1) <= K).
    { pose proof (normalized_lower_bound _ O1 N1 Hne1) as LB.
      assert (B64 ^ (zlen (vl v1) - 1 + d) <= lval (vl v1) * B64 ^ d).
      { pose proof (zlen_pos_nonempty _ Hne1).
        rewrite Z.pow_add_r by lia. apply Z.mul_le_mono_nonneg_r; lia. }
      pose proof (pow_B64_lt_inv (zlen (vl v1) - 1 + d) K _ ltac:(lia) H F1). lia. }
    destruct (shl_stage2 b v1 d Hdiv ltac:(change (2 ^ 64) with 18446744073709551616; lia) O1)
      as (o & Ho & Hs & Hnone).
    destruct o as [v'|].
    - exists v'. destruct (Hs v' eq_refl) as (V & O & C & _ & N).
      split; [exact Ho|]. split; [exact V|]. split; [exact O|]. split; [apply N; exact N1|lia].
    - destruct (proj1 Hnone eq_refl) as [_ Hbad]. lia. }
  destruct (Z.eqb_spec rem 0) as [Hr0|Hr0]; cbn [negb].
  - rewrite obind_ok_some.
    destruct (Stage v Hv Hnz Hp Hcap) as (v' & E & V & O & N & C).
    { rewrite H2n, Hr0 in Hfit. change (2 ^ 0) with 1 in Hfit. lia. }
    exists v'. split; [exact E|]. split; [|auto].
    rewrite V, H2n, Hr0. change (2 ^ 0) with 1. ring.
  - destruct (shl_bits_full c L b v rem HL ltac:(lia) Hv) as (o1 & Ho1 & Hs1 & Hh & _).
    rewrite Ho1. destruct o1 as [v1|]; [|exfalso; apply (Hh Ha); reflexivity].
    rewrite obind_ok_some.
    destruct (Hs1 v1 eq_refl) as (V1 & O1 & _ & _ & C1 & N1).
    specialize (C1 Ha). specialize (N1 Hnz).
    assert (G1 : vcap v <= vcap v1).
    { rewrite C1. destruct (negb (shl_carry (vl v) rem =? 0) && (zlen (vl v) =? vcap v)); [|lia].
      apply grow_ge. }
    destruct (Stage v1 O1 N1 ltac:(rewrite V1; apply Z.mul_pos_pos; lia) ltac:(lia))
      as (v' & E & V & O & N & C).
    { rewrite V1. rewrite H2n in Hfit. lia. }
    exists v'. split; [exact E|]. split; [|auto]. rewrite V, V1, H2n. ring.
Qed.

(** both back-ends *)
Theorem shl_fits_ok c L b v n K :
  LIMB_BITS L = 64 -> 0 <= n < 2 ^ 64 ->
  limbs_ok (vl v) -> is_normalized (vl v) = true -> 0 < lval (vl v) ->
  0 <= K < 2 ^ 63 -> K <= vcap v -> (alloc c = false -> vcap v = K) -> zlen (vl v) <= vcap v ->
  lval (vl v) * 2 ^ n < B64 ^ K ->
  exists v', shl c L b v n = Ok (Some v') /\
    lval (vl v') = lval (vl v) * 2 ^ n /\ limbs_ok (vl v') /\ is_normalized (vl v') = true /\
    K <= vcap v'.
Proof.
  intros HL Hn Hv Hnz Hp HK Hc0 Hc1 Hc2 Hfit. destruct (alloc c) eqn:Ha.
  - apply shl_heap_ok; assumption.
  - specialize (Hc1 eq_refl).
    destruct (shl_stack_ok c L b v n Ha HL Hn Hv Hnz Hp Hc2 ltac:(lia) ltac:(rewrite Hc1; exact Hfit))
      as (v' & E & V & O & N & C).
    exists v'. repeat split; try assumption. lia.
Qed.

(** `Bigint::pow(2, e)` is the shift *)
Lemma bigint_pow_2 c T L b v e : bigint_pow c T L b v 2 e = shl c L b v (as_usize e).
Proof.
  unfold bigint_pow. change (Z.rem 2 5 =? 0) with false. change (Z.rem 2 2 =? 0) with true.
  change ((2 =? 2) || (2 =? 5) || (2 =? 10)) with true.
  unfold debug_assert. rewrite andb_false_r. cbn [bind negb]. cbv iota.
  unfold obind. cbn [bind]. reflexivity.
Qed.

Lemma as_u32_id k : 0 <= k < 2 ^ 32 -> as_u32 k = k.
Proof. intros H. unfold as_u32, wrapu. apply Z.mod_small. exact H. Qed.

Lemma as_usize_id k : 0 <= k < 2 ^ 64 -> as_usize k = k.
Proof. intros H. unfold as_usize, wrapu. apply Z.mod_small. exact H. Qed.

Lemma sop32_in b r : - 2147483648 <= r < 2147483648 -> sop b 32 r = Ok r.
Proof.
  intros H. unfold sop, in_s. change (2 ^ (32 - 1)) with 2147483648.
  destruct ((- (2147483648) <=? r) && (r <? 2147483648)) eqn:E; [reflexivity|lia].
Qed.

Lemma as_u32_id' k : 0 <= k < 4294967296 -> as_u32 k = k.
Proof. intros H. apply as_u32_id. change (2 ^ 32) with 4294967296. exact H. Qed.

Lemma as_usize_id' k : 0 <= k < 4294967296 -> as_usize k = k.
Proof. intros H. apply as_usize_id. change (2 ^ 64) with 18446744073709551616. lia. Qed.

(** ** 3. The scaling code of `negative_digit_comp` *)

(** the code between `bh(b)` and the comparison, as a function of `theor = (Mh, e)` *)
Definition scale_digits (c : config) (T : tables) (L : limits) (b : build)
    (Mh e : Z) (bigmant : vec) (exponent : Z) : outcome (vec * vec) :=
  theor_digits0 <- from_u64 c L b Mh ;;
  binary_exp <- i32_sub b e exponent ;;
  halfradix_exp <- i32_neg b exponent ;;
  theor_digits1 <- (if negb (halfradix_exp =? 0) then
                      o <- bigint_pow c T L b theor_digits0 5 (as_u32 halfradix_exp) ;; unwrap o
                    else Ok theor_digits0) ;;
  (if 0 <? binary_exp then
     o <- bigint_pow c T L b theor_digits1 2 (as_u32 binary_exp) ;; t <- unwrap o ;; Ok (t, bigmant)
   else if binary_exp <? 0 then
     nb <- i32_neg b binary_exp ;;
     o <- bigint_pow c T L b bigmant 2 (as_u32 nb) ;; r <- unwrap o ;; Ok (theor_digits1, r)
   else Ok (theor_digits1, bigmant)).

Section B.
Variable c : config.
Variable T : tables.
Variable L : limits.
Variable b : build.
Hypothesis HT : pow5_tables_ok T = true.
Hypothesis HK : pow5_large_ok T L = true.
Hypothesis HL : LIMB_BITS L = 64.
Hypothesis Hcap : 2 <= BIGINT_LIMBS L < 2 ^ 63.

Theorem scale_digits_ok Mh e bigmant exponent N :
  0 < Mh < 2 ^ 64 -> - 2 ^ 30 <= e < 2 ^ 30 -> - 2 ^ 30 <= exponent < 0 ->
  limbs_ok (vl bigmant) -> is_normalized (vl bigmant) = true -> lval (vl bigmant) = N -> 0 < N ->
  BIGINT_LIMBS L <= vcap bigmant -> (alloc c = false -> vcap bigmant = BIGINT_LIMBS L) ->
  zlen (vl bigmant) <= vcap bigmant ->
  let beta := e - exponent in
  N * 2 ^ Z.max 0 (- beta) < B64 ^ BIGINT_LIMBS L ->
  Mh * 5 ^ (- exponent) * 2 ^ Z.max 0 beta < B64 ^ BIGINT_LIMBS L ->
  exists theor_digits real_digits,
    scale_digits c T L b Mh e bigmant exponent = Ok (theor_digits, real_digits) /\
    vcompare (vl real_digits) (vl theor_digits)
    = (N * 2 ^ Z.max 0 (- beta) ?= Mh * 5 ^ (- exponent) * 2 ^ Z.max 0 beta).
Proof.
  intros HMh He Hex Hbo Hbn HbN HN Hbc0 Hbc Hbl beta Hfr Hft.
  change (2 ^ 30) with 1073741824 in He, Hex.
  change (2 ^ 64) with 18446744073709551616 in HMh.
  assert (HMh' : 0 <= Mh < 2 ^ 64) by (change (2 ^ 64) with 18446744073709551616; lia).
  assert (Hcap' : 2 <= BIGINT_LIMBS L < 9223372036854775808) by exact Hcap.
  set (k := - exponent) in *.
  assert (H5 : 0 < 5 ^ k) by (apply Z.pow_pos_nonneg; lia).
  assert (H2b : 0 < 2 ^ Z.max 0 beta) by (apply Z.pow_pos_nonneg; lia).
  assert (H2r : 0 < 2 ^ Z.max 0 (- beta)) by (apply Z.pow_pos_nonneg; lia).
  unfold scale_digits.
  destruct (from_u64_spec c L b Mh HMh' ltac:(lia)) as (t0 & E0 & L0 & V0 & O0 & N0 & C0).
  assert (Z0 : zlen (vl t0) <= vcap t0).
  { rewrite L0, C0. replace (Mh =? 0) with false by lia. change (zlen [Mh]) with 1. lia. }
  rewrite E0. cbn [bind].
  unfold i32_sub. rewrite sop32_in by lia. cbn [bind]. fold beta.
  unfold i32_neg at 1. rewrite sop32_in by lia. cbn [bind]. fold k.
  replace (k =? 0) with false by lia. cbn [negb].
  rewrite as_u32_id' by lia. rewrite bigint_pow_5.
  (* theor_digits1 = Mh * 5^k *)
  assert (Hfit5 : lval (vl t0) * 5 ^ k < B64 ^ BIGINT_LIMBS L).
  { rewrite V0. assert (Mh * 5 ^ k * 1 <= Mh * 5 ^ k * 2 ^ Z.max 0 beta)
      by (apply Z.mul_le_mono_nonneg_l; [apply Z.mul_nonneg_nonneg; lia|lia]). lia. }
  destruct (pow5_fits_ok c T L b t0 k HT HK O0 N0 ltac:(lia) ltac:(lia) ltac:(lia) ltac:(auto) Z0 Hfit5)
    as (t1 & E1 & V1 & O1 & N1 & G1 & C1 & Z1).
  rewrite E1. cbn [bind unwrap]. rewrite V0 in V1.
  assert (Hp1 : 0 < lval (vl t1)) by (rewrite V1; apply Z.mul_pos_pos; lia).
  destruct (0 <? beta) eqn:Eb.
  - (* beta > 0: the theoretical digits are shifted *)
    rewrite as_u32_id' by lia. rewrite bigint_pow_2. rewrite as_usize_id' by lia.
    replace (Z.max 0 beta) with beta in * by lia.
    replace (Z.max 0 (- beta)) with 0 in * by lia.
    destruct (shl_fits_ok c L b t1 beta (BIGINT_LIMBS L) HL
                ltac:(change (2 ^ 64) with 18446744073709551616; lia)
                O1 N1 Hp1 ltac:(lia) G1 C1 Z1 ltac:(rewrite V1; exact Hft))
      as (t2 & E2 & V2 & O2 & N2 & _).
    rewrite E2. cbn [bind unwrap]. exists t2, bigmant. split; [reflexivity|].
    rewrite vcompare_spec by assumption. rewrite V2, V1, HbN. change (2 ^ 0) with 1.
    rewrite Z.mul_1_r. reflexivity.
  - destruct (beta <? 0) eqn:Eb'.
    + (* beta < 0: the real digits are shifted *)
      unfold i32_neg. rewrite sop32_in by lia. cbn [bind].
      rewrite as_u32_id' by lia. rewrite bigint_pow_2. rewrite as_usize_id' by lia.
      replace (Z.max 0 beta) with 0 in * by lia.
      replace (Z.max 0 (- beta)) with (- beta) in * by lia.
      destruct (shl_fits_ok c L b bigmant (- beta) (BIGINT_LIMBS L) HL
                  ltac:(change (2 ^ 64) with 18446744073709551616; lia)
                  Hbo Hbn ltac:(lia) ltac:(lia) Hbc0 Hbc Hbl ltac:(rewrite HbN; exact Hfr))
        as (r2 & E2 & V2 & O2 & N2 & _).
      rewrite E2. cbn [bind unwrap]. exists t1, r2. split; [reflexivity|].
      rewrite vcompare_spec by assumption. rewrite V2, V1, HbN. change (2 ^ 0) with 1.
      rewrite Z.mul_1_r. reflexivity.
    + (* beta = 0 *)
      assert (beta = 0) by lia.
      replace (Z.max 0 beta) with 0 in * by lia.
      replace (Z.max 0 (- beta)) with 0 in * by lia.
      exists t1, bigmant. split; [reflexivity|].
      rewrite vcompare_spec by assumption. rewrite V1, HbN. change (2 ^ 0) with 1.
      rewrite !Z.mul_1_r. reflexivity.
Qed.

End B.

(** ** 4. The integer comparison is the comparison of N / 10^k with the midpoint Mh * 2^e *)
Theorem scaled_compare_mid N Mh e k :
  0 < k ->
  let beta := e + k in
  (N * 2 ^ Z.max 0 (- beta) ?= Mh * 5 ^ k * 2 ^ Z.max 0 beta)
  = (sc_num N e ?= Mh * sc_den (10 ^ k) e).
Proof.
  intros Hk beta.
  assert (H10 : 10 ^ k = 5 ^ k * 2 ^ k) by (change 10 with (5 * 2); apply Z.pow_mul_l).
  assert (H5 : 0 < 5 ^ k) by (apply Z.pow_pos_nonneg; lia).
  assert (H2k : 0 < 2 ^ k) by (apply Z.pow_pos_nonneg; lia).
  assert (HD : 0 < sc_den (10 ^ k) e) by (apply sc_den_pos; rewrite H10; apply Z.mul_pos_pos; lia).
  assert (HU : 0 < 5 ^ k * 2 ^ Z.max 0 beta)
    by (apply Z.mul_pos_pos; [lia|apply Z.pow_pos_nonneg; lia]).
  rewrite <- (Z.mul_1_l (N * 2 ^ Z.max 0 (- beta))), <- (Z.mul_1_l (sc_num N e)).
  rewrite <- Z.mul_assoc. symmetry.
  apply cross_compare; try assumption.
  unfold sc_num, sc_den. rewrite H10.
  destruct (0 <=? e) eqn:E0.
  - replace (Z.max 0 beta) with (k + e) by lia. replace (Z.max 0 (- beta)) with 0 by lia.
    rewrite Z.pow_add_r by lia. change (2 ^ 0) with 1. ring.
  - destruct (Z_le_gt_dec 0 beta) as [Hb|Hb].
    + replace (Z.max 0 beta) with beta by lia. replace (Z.max 0 (- beta)) with 0 by lia.
      change (2 ^ 0) with 1.
      replace k with (- e + beta) at 3 by lia. rewrite Z.pow_add_r by lia. ring.
    + replace (Z.max 0 beta) with 0 by lia. replace (Z.max 0 (- beta)) with (- beta) by lia.
      change (2 ^ 0) with 1.
      replace (- e) with (- beta + k) by lia. rewrite Z.pow_add_r by lia. ring.
Qed.

(** ** 5. Instances and examples (generated tables and limits) *)
Lemma LIMITS_cap : 2 <= BIGINT_LIMBS LIMITS < 2 ^ 63.
Proof. vm_compute. split; congruence. Qed.

Definition scale_digits_ok_TABLES c b :=
  scale_digits_ok c TABLES LIMITS b pow5_tables_ok_TABLES pow5_large_ok_TABLES eq_refl LIMITS_cap.

(** 9007199254740993 * 10^-16 against the midpoint (2 * 2^52 + 1) * 2^-53 * ... of 0.9007...:
    a concrete run of the scaling code: beta < 0, the real digits are shifted *)
Example scale_digits_ex :
  match scale_digits CFG_s TABLES LIMITS checked_build (2 * 8112963841460668 + 1) (-54)
          (mkVec [9007199254740993] 62) (-16) with
  | Ok (t, r) => vcompare (vl r) (vl t)
                 = (9007199254740993 * 2 ^ 38 ?= (2 * 8112963841460668 + 1) * 5 ^ 16 * 2 ^ 0)
  | _ => False
  end.
Proof. vm_compute. reflexivity. Qed.

Print Assumptions pow5_normalized.
Print Assumptions pow5_fits_ok.
Print Assumptions shl_fits_ok.
Print Assumptions scale_digits_ok.
Print Assumptions scaled_compare_mid.
