(** * SrcEquiv: umbrella re-exporting the per-module equivalence files (kept for compatibility).
    The theorems [rs_<name>_eq] (regenerated Gallina translation of the Rust source = hand-written
    model) live in SrcEqMask / SrcEqNum / SrcEqRounding / SrcEqNumber / SrcEqLemire, one file per
    Rust module, so that a change to one module only invalidates the tie of the properties that
    pin that module. *)
From ML Require Export proofs.SrcEqBase proofs.SrcEqMask proofs.SrcEqNum proofs.SrcEqRounding proofs.SrcEqNumber proofs.SrcEqLemire.
