(** * gen/Src.v = model: src/lemire.rs *)
From Coq Require Import ZArith List Bool Lia Znumtheory.
From Coq Require Import ZifyBool.
From ML Require Import base.RustSem model.Fmt model.FloatOps model.Mask model.Num model.Number
  model.Rounding model.Lemire model.Bellerophon model.Slow gen.Consts gen.Tables gen.BTables.
From ML Require Import gen.Src.
From ML Require Import proofs.SrcEqBase.
Import ListNotations.
Ltac Zify.zify_post_hook ::= Z.div_mod_to_equations.
Open Scope Z_scope.
Open Scope rust_scope.
(** ** lemire.rs *)
Theorem rs_power_eq : forall b q, rs_power b q = power b q.
Proof. intros. unfold rs_power, power. simp. auto_eq. Qed.
#[export] Hint Rewrite rs_power_eq : rs_eq.

Theorem rs_full_multiplication_eq : forall b x y, u64_ok x -> u64_ok y ->
  rs_full_multiplication b x y = Ok (full_multiplication x y).
Proof.
  intros b x y Hx Hy. unfold rs_full_multiplication, full_multiplication, u128_mul, u128_shr, as_u128.
  rewrite !wrapu_small by rng.
  assert (Hp : 0 <= x * y < 2 ^ 128).
  { unfold u64_ok in *. change (2 ^ 128) with (2 ^ 64 * 2 ^ 64). nia. }
  rewrite uop_ok by (apply in_u_n; exact Hp). heads.
  rewrite shr_u_ok by reflexivity. heads.
  unfold as_u64 at 2. rewrite wrapu_small; [reflexivity|].
  split; [apply Z.div_pos; lia|].
  apply Z.div_lt_upper_bound; [lia|]. change (2 ^ 128) with (2 ^ 64 * 2 ^ 64) in Hp. lia.
Qed.

(** the table entries are u64 values (by their Rust type) *)
Definition tables_ok (T : tables) : Prop :=
  Forall (fun p => u64_ok (fst p) /\ u64_ok (snd p)) (POWER_OF_FIVE_128 T).

Lemma tables_ok_TABLES : tables_ok TABLES.
Proof.
  unfold tables_ok. apply Forall_forall. intros p Hp.
  assert (H : forallb (fun p => (0 <=? fst p) && (fst p <? 2 ^ 64) && (0 <=? snd p) && (snd p <? 2 ^ 64))
            (POWER_OF_FIVE_128 TABLES) = true) by (vm_compute; reflexivity).
  rewrite forallb_forall in H. specialize (H p Hp). unfold u64_ok. lia.
Qed.

Lemma index_checked2_Forall (P : Z * Z -> Prop) l i a :
  Forall P l -> index_checked2 l i = Ok a -> P a.
Proof.
  unfold index_checked2. intros HF. destruct (_ && _) eqn:E; [|discriminate]. intros [= <-].
  rewrite Forall_forall in HF. apply HF. apply nth_In. lia.
Qed.

Lemma full_mul_range x y : u64_ok x -> u64_ok y ->
  u64_ok (fst (full_multiplication x y)) /\ u64_ok (snd (full_multiplication x y)).
Proof.
  unfold u64_ok, full_multiplication; cbn [fst snd]. intros Hx Hy. split.
  - apply Z.mod_pos_bound. lia.
  - split; [apply Z.div_pos; nia|]. apply Z.div_lt_upper_bound; [lia|]. nia.
Qed.

Theorem rs_compute_product_approx_eq : forall T b q w p, tables_ok T -> u64_ok w ->
  rs_compute_product_approx T b q w p = compute_product_approx T b q w p.
Proof.
  intros T b q w p HT Hw. unfold rs_compute_product_approx, compute_product_approx.
  repeat step.
  match goal with H : index_checked2 _ _ = Ok ?a |- _ =>
    pose proof (index_checked2_Forall _ _ _ _ HT H) as [He1 He2]; destruct a as [e1 e2] end.
  cbn [fst snd] in He1, He2.
  rewrite !rs_full_multiplication_eq by assumption. unfold full_multiplication.
  auto_eq.
Qed.
#[export] Hint Rewrite rs_compute_product_approx_eq using assumption : rs_eq.

Lemma compute_product_approx_range T b q w p lo hi : tables_ok T -> u64_ok w ->
  compute_product_approx T b q w p = Ok (lo, hi) -> u64_ok lo /\ u64_ok hi.
Proof.
  intros HT Hw H. unfold compute_product_approx in H. binv H.
  match goal with E : index_checked2 _ _ = Ok ?a |- _ =>
    pose proof (index_checked2_Forall _ _ _ _ HT E) as [He1 He2]; destruct a as [e1 e2] end.
  cbn [fst snd] in He1, He2.
  pose proof (full_mul_range w e1 Hw He1) as [R1 R2].
  pose proof (full_mul_range w e2 Hw He2) as [R3 R4].
  unfold full_multiplication in *. cbn [fst snd] in *.
  destruct (_ =? _).
  - binv H. injection H as <- <-. split.
    + unfold u64_wrapping_add, wrapu, u64_ok. apply Z.mod_pos_bound. lia.
    + match goal with E : (if ?c then _ else _) = Ok _ |- _ => destruct c;
        [eapply u64_add_range; exact E | injection E as <-; assumption] end.
  - injection H as <- <-. split; assumption.
Qed.

Theorem rs_compute_error_scaled_eq : forall f b q w lz, u64_ok w ->
  rs_compute_error_scaled f b q w lz = compute_error_scaled f b q w lz.
Proof.
  intros f b q w lz Hw. unfold rs_compute_error_scaled, compute_error_scaled. simp. auto_eq.
Qed.

Theorem rs_compute_error_eq : forall T f b q w, tables_ok T -> fmt_ok f -> u64_ok w ->
  rs_compute_error T f b q w = compute_error T f b q w.
Proof.
  intros T f b q w HT Hf Hw. unfold rs_compute_error, compute_error.
  pose proof (lz64_range w Hw). simp. step.
  pose proof (u64_shl_range _ _ _ _ H0) as Ha.
  step_with ltac:(apply rs_compute_product_approx_eq; assumption).
  destruct a0 as [lo hi].
  destruct (compute_product_approx_range _ _ _ _ _ _ _ HT Ha H1) as [Hlo Hhi].
  step_with ltac:(apply rs_compute_error_scaled_eq; assumption). reflexivity.
Qed.

Theorem rs_compute_float_eq : forall T f b q w, tables_ok T -> fmt_ok f -> u64_ok w ->
  rs_compute_float T f b q w = compute_float T f b q w.
Proof.
  intros T f b q w HT Hf Hw. unfold rs_compute_float, compute_float, fp_zero, fp_inf.
  change 18446744073709551615 with u64_max.
  pose proof (lz64_range w Hw).
  case_head; [reflexivity|]. case_head; [reflexivity|].
  simp. step.
  pose proof (u64_shl_range _ _ _ _ H0) as Ha.
  step_with ltac:(apply rs_compute_product_approx_eq; assumption).
  destruct a0 as [lo hi].
  destruct (compute_product_approx_range _ _ _ _ _ _ _ HT Ha H1) as [Hlo Hhi].
  record_norm. apply if_join.
  - step_with ltac:(apply rs_compute_error_scaled_eq; assumption). reflexivity.
  - crunch.
Qed.

Theorem rs_lemire_eq : forall T f b n, tables_ok T -> fmt_ok f -> u64_ok (nmant n) ->
  rs_lemire T f b n = lemire T f b n.
Proof.
  intros T f b n HT Hf Hn. unfold rs_lemire, lemire, ext_derived_eqb, ext_eqb.
  step_with ltac:(apply rs_compute_float_eq; assumption).
  case_head; [|reflexivity].
  step. pose proof (u64_add_range _ _ _ _ H0).
  step_with ltac:(apply rs_compute_float_eq; assumption).
  case_head; [|reflexivity].
  step_with ltac:(apply rs_compute_error_eq; assumption). reflexivity.
Qed.

Corollary rs_compute_float_eq_std : forall f b q w, f = F32 \/ f = F64 -> u64_ok w ->
  rs_compute_float TABLES f b q w = compute_float TABLES f b q w.
Proof. intros. apply rs_compute_float_eq; auto using tables_ok_TABLES, fmt_ok_std. Qed.

Corollary rs_lemire_eq_std : forall f b n, f = F32 \/ f = F64 -> u64_ok (nmant n) ->
  rs_lemire TABLES f b n = lemire TABLES f b n.
Proof. intros. apply rs_lemire_eq; auto using tables_ok_TABLES, fmt_ok_std. Qed.

(** the hypotheses are satisfiable on a non-trivial instance, and both sides compute *)
Example rs_lemire_example :
  u64_ok (nmant (mkNumber (-5) 123456789 true)) /\
  rs_lemire TABLES F64 checked_build (mkNumber (-5) 123456789 true)
    = lemire TABLES F64 checked_build (mkNumber (-5) 123456789 true) /\
  is_ok (rs_lemire TABLES F64 checked_build (mkNumber (-5) 123456789 true)) = true.
Proof. split; [unfold u64_ok; cbn; lia|]. split; vm_compute; reflexivity. Qed.


Print Assumptions rs_power_eq.
Print Assumptions rs_full_multiplication_eq.
Print Assumptions rs_compute_product_approx_eq.
Print Assumptions rs_compute_error_scaled_eq.
Print Assumptions rs_compute_error_eq.
Print Assumptions rs_compute_float_eq.
Print Assumptions rs_lemire_eq.
Print Assumptions rs_compute_float_eq_std.
Print Assumptions rs_lemire_eq_std.
