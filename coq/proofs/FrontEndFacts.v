(** * FrontEndFacts: the shipped string front-end (examples/simple.rs and its three copies),
    as modelled in model/FrontEnd.v: lexical structure, trimming, exponent saturation,
    special literals, totality.  Pure list / Z reasoning (plus Q for the value of a literal). *)
From Coq Require Import ZArith List Bool Lia Znumtheory QArith Qpower.
From Coq Require Import ZifyBool.
From ML Require Import base.RustSem model.Fmt model.Num model.FloatOps model.Number model.Top
  model.FrontEnd spec.Decimal.
From ML Require Import gen.Consts gen.Tables gen.BTables gen.PowDump.
Import ListNotations.
Open Scope Z_scope.

(** ** 0. Small tools *)

Lemma bind_ok_inv : forall {A B} (x : outcome A) (g : A -> outcome B) r,
  bind x g = Ok r -> exists a, x = Ok a /\ g a = Ok r.
Proof. intros A B [a|k|k] g r H; cbn in H; try discriminate. eauto. Qed.

Lemma in_s32_iff : forall x, in_s 32 x = true <-> -2147483648 <= x <= 2147483647.
Proof.
  intros x. unfold in_s. change (2 ^ (32 - 1)) with 2147483648. lia.
Qed.

Lemma i32_min_val : i32_min = -2147483648. Proof. reflexivity. Qed.
Lemma i32_max_val : i32_max = 2147483647. Proof. reflexivity. Qed.

(** an ASCII decimal digit *)
Definition digit (c : Z) : Prop := 48 <= c <= 57.

Lemma is_digit_iff : forall c, is_digit c = true <-> digit c.
Proof. intros c. unfold is_digit, digit. lia. Qed.

Lemma is_digit_false_iff : forall c, is_digit c = false <-> ~ digit c.
Proof. intros c. unfold is_digit, digit. lia. Qed.

Lemma digitb_is_digit : forall c, digitb c = is_digit c.
Proof. reflexivity. Qed.

Lemma forallb_digitb : forall l, Forall digit l -> forallb digitb l = true.
Proof.
  intros l H. apply forallb_forall. intros x Hx.
  rewrite digitb_is_digit. apply is_digit_iff. rewrite Forall_forall in H. auto.
Qed.

(** "the list does not start with a byte satisfying [P]" (it may be empty) *)
Definition head_not (P : Z -> bool) (l : list Z) : Prop :=
  match l with [] => True | c :: _ => P c = false end.

Definition is_dot (c : Z) : bool := c =? 46.
Definition is_emark (c : Z) : bool := (c =? 101) || (c =? 69).
Definition is_signch (c : Z) : bool := (c =? 43) || (c =? 45).

(** The model pattern-matches on byte literals ([43 :: r] ...), which Coq compiles to nested
    matches on binary positives; these lemmas restate the matches with [=?]. *)
Lemma parse_sign_eq : forall s,
  parse_sign s = match s with
                 | c :: r => if c =? 43 then (true, r) else if c =? 45 then (false, r) else (true, s)
                 | [] => (true, [])
                 end.
Proof.
  intros [|c r]; [reflexivity|].
  destruct c as [|p|p]; try reflexivity.
  do 7 (try (destruct p as [p|p|]; try reflexivity)).
Qed.

Lemma ltrim_zero_cons : forall c r,
  ltrim_zero (c :: r) = if c =? 48 then ltrim_zero r else c :: r.
Proof.
  intros c r.
  destruct c as [|p|p]; try reflexivity.
  do 7 (try (destruct p as [p|p|]; try reflexivity)).
Qed.

(** ** 1. [consume_digits]: maximal munch *)

Theorem consume_digits_spec : forall s d r,
  consume_digits s = (d, r) ->
  s = d ++ r /\ Forall digit d /\
  (r = [] \/ exists c r', r = c :: r' /\ is_digit c = false).
Proof.
  induction s as [|c s IH]; intros d r H; cbn [consume_digits] in H.
  - inversion H; subst. auto.
  - destruct (is_digit c) eqn:E.
    + destruct (consume_digits s) as [d0 r0] eqn:E0. inversion H; subst.
      destruct (IH d0 r eq_refl) as (H1 & H2 & H3). subst s.
      split; [reflexivity|]. split; [|exact H3].
      constructor; [apply is_digit_iff; exact E | exact H2].
    + inversion H; subst. split; [reflexivity|]. split; [constructor|].
      right. eauto.
Qed.

Corollary consume_digits_head_not : forall s d r,
  consume_digits s = (d, r) -> head_not is_digit r.
Proof.
  intros s d r H. destruct (consume_digits_spec _ _ _ H) as (_ & _ & [->|(c & r' & -> & Hc)]);
    cbn; auto.
Qed.

Example consume_digits_ex :
  consume_digits [49; 50; 48; 46; 53] = ([49; 50; 48], [46; 53]).
Proof. reflexivity. Qed.

(** Conversely the specification determines the result (so it is a complete characterisation). *)
Theorem consume_digits_unique : forall d r,
  Forall digit d -> head_not is_digit r -> consume_digits (d ++ r) = (d, r).
Proof.
  induction d as [|c d IH]; intros r Hd Hr.
  - cbn [app]. destruct r as [|c r]; [reflexivity|]. cbn in Hr. cbn [consume_digits].
    rewrite Hr. reflexivity.
  - inversion Hd; subst. cbn [app consume_digits].
    apply is_digit_iff in H1. rewrite H1. rewrite (IH r H2 Hr). reflexivity.
Qed.

(** ** 2. [parse_sign] *)

Theorem parse_sign_spec : forall s p r,
  parse_sign s = (p, r) ->
  (s = 43 :: r /\ p = true) \/
  (s = 45 :: r /\ p = false) \/
  (s = r /\ p = true /\ head_not is_signch s).
Proof.
  intros s p r H. rewrite parse_sign_eq in H.
  destruct s as [|c s].
  - inversion H; subst. right; right. cbn. auto.
  - destruct (c =? 43) eqn:E1.
    + inversion H; subst. left. split; [|reflexivity]. f_equal. lia.
    + destruct (c =? 45) eqn:E2.
      * inversion H; subst. right; left. split; [|reflexivity]. f_equal. lia.
      * inversion H; subst. right; right. repeat split. cbn. unfold is_signch. lia.
Qed.

Example parse_sign_ex :
  parse_sign [45; 49] = (false, [49]) /\ parse_sign [43] = (true, []) /\
  parse_sign [49; 45] = (true, [49; 45]) /\ parse_sign [] = (true, []).
Proof. repeat split. Qed.

(** ** 3. Trimming zeros *)

Lemma digits_acc_app : forall l m a, digits_acc a (l ++ m) = digits_acc (digits_acc a l) m.
Proof. induction l as [|c l IH]; intros m a; cbn [app digits_acc]; auto. Qed.

Lemma digits_acc_lin : forall l a,
  digits_acc a l = a * 10 ^ zlen l + digits_acc 0 l.
Proof.
  induction l as [|c l IH]; intros a.
  - cbn [digits_acc]. unfold zlen. cbn [length]. change (10 ^ Z.of_nat 0) with 1. lia.
  - cbn [digits_acc]. rewrite (IH (a * 10 + (c - 48))), (IH (0 * 10 + (c - 48))).
    unfold zlen. cbn [length]. rewrite Nat2Z.inj_succ, Z.pow_succ_r by lia. lia.
Qed.

Lemma digits_to_Z_app : forall l m,
  digits_to_Z (l ++ m) = digits_to_Z l * 10 ^ zlen m + digits_to_Z m.
Proof.
  intros l m. unfold digits_to_Z. rewrite digits_acc_app, digits_acc_lin. reflexivity.
Qed.

Lemma digits_to_Z_repeat0 : forall k, digits_to_Z (repeat 48 k) = 0.
Proof.
  unfold digits_to_Z. induction k as [|k IH]; [reflexivity|].
  cbn [repeat digits_acc]. exact IH.
Qed.

Lemma zlen_app : forall (l m : list Z), zlen (l ++ m) = zlen l + zlen m.
Proof. intros. unfold zlen. rewrite app_length. lia. Qed.

Lemma zlen_repeat : forall (x : Z) k, zlen (repeat x k) = Z.of_nat k.
Proof. intros. unfold zlen. rewrite repeat_length. reflexivity. Qed.

Lemma zlen_nonneg : forall (l : list Z), 0 <= zlen l.
Proof. intros. unfold zlen. lia. Qed.

Lemma digits_acc_ge : forall l a, Forall digit l -> 0 <= a -> a <= digits_acc a l.
Proof.
  induction l as [|c l IH]; intros a Hl Ha; cbn [digits_acc]; [lia|].
  inversion Hl; subst. unfold digit in H1.
  specialize (IH (a * 10 + (c - 48)) H2). lia.
Qed.

Lemma digits_to_Z_nonneg : forall l, Forall digit l -> 0 <= digits_to_Z l.
Proof. intros l H. unfold digits_to_Z. apply (digits_acc_ge l 0 H). lia. Qed.

Theorem ltrim_zero_spec : forall s,
  exists k, s = repeat 48 k ++ ltrim_zero s /\ head_not (fun c => c =? 48) (ltrim_zero s).
Proof.
  induction s as [|c s IH].
  - exists 0%nat. cbn. auto.
  - rewrite ltrim_zero_cons. destruct (c =? 48) eqn:E.
    + destruct IH as (k & H1 & H2). exists (S k). split; [|exact H2].
      cbn [repeat app]. rewrite <- H1. f_equal. lia.
    + exists 0%nat. cbn [repeat app head_not]. auto.
Qed.

Lemma ltrim_zero_no_leading_zero : forall s r, ltrim_zero s <> 48 :: r.
Proof.
  intros s r H. destruct (ltrim_zero_spec s) as (k & _ & Hn). rewrite H in Hn.
  cbn in Hn. discriminate.
Qed.

Lemma ltrim_zero_Forall : forall (P : Z -> Prop) s, Forall P s -> Forall P (ltrim_zero s).
Proof.
  intros P s H. destruct (ltrim_zero_spec s) as (k & Hs & _).
  rewrite Hs in H. apply Forall_app in H. tauto.
Qed.

Theorem ltrim_zero_value : forall s, digits_to_Z (ltrim_zero s) = digits_to_Z s.
Proof.
  intros s. destruct (ltrim_zero_spec s) as (k & Hs & _).
  rewrite Hs at 2. rewrite digits_to_Z_app, digits_to_Z_repeat0. lia.
Qed.

Lemma ltrim_zero_zlen : forall s, zlen (ltrim_zero s) <= zlen s.
Proof.
  intros s. destruct (ltrim_zero_spec s) as (k & Hs & _).
  rewrite Hs at 2. rewrite zlen_app, zlen_repeat. lia.
Qed.

Lemma ltrim_zero_idem : forall s, head_not (fun c => c =? 48) s -> ltrim_zero s = s.
Proof.
  intros [|c s] H; [reflexivity|]. cbn in H. rewrite ltrim_zero_cons, H. reflexivity.
Qed.

Example ltrim_zero_ex : ltrim_zero [48; 48; 49; 48] = [49; 48] /\ ltrim_zero [48; 48] = [].
Proof. split; reflexivity. Qed.

Lemma rev_repeat : forall (x : Z) k, rev (repeat x k) = repeat x k.
Proof.
  induction k as [|k IH]; [reflexivity|].
  cbn [repeat rev]. rewrite IH. clear IH.
  induction k as [|k IH]; [reflexivity|]. cbn [repeat app]. rewrite IH. reflexivity.
Qed.

(** "the list does not end with '0'" *)
Definition last_not_zero (l : list Z) : Prop := forall r, l <> r ++ [48].

Theorem rtrim_zero_spec : forall s,
  exists k, s = rtrim_zero s ++ repeat 48 k /\ last_not_zero (rtrim_zero s).
Proof.
  intros s. unfold rtrim_zero. destruct (ltrim_zero_spec (rev s)) as (k & H1 & H2).
  exists k. split.
  - rewrite <- (rev_involutive s) at 1. rewrite H1 at 1.
    rewrite rev_app_distr, rev_repeat. reflexivity.
  - intros r Hr. apply (f_equal (@rev Z)) in Hr.
    rewrite rev_involutive, rev_app_distr in Hr. cbn [rev app] in Hr.
    rewrite Hr in H2. cbn in H2. discriminate.
Qed.

Lemma rtrim_zero_Forall : forall (P : Z -> Prop) s, Forall P s -> Forall P (rtrim_zero s).
Proof.
  intros P s H. destruct (rtrim_zero_spec s) as (k & Hs & _).
  rewrite Hs in H. apply Forall_app in H. tauto.
Qed.

Theorem rtrim_zero_value : forall s,
  exists k, s = rtrim_zero s ++ repeat 48 k /\
            digits_to_Z s = digits_to_Z (rtrim_zero s) * 10 ^ Z.of_nat k /\
            zlen s = zlen (rtrim_zero s) + Z.of_nat k.
Proof.
  intros s. destruct (rtrim_zero_spec s) as (k & Hs & _). exists k.
  split; [exact Hs|]. split.
  - rewrite Hs at 1. rewrite digits_to_Z_app, digits_to_Z_repeat0, zlen_repeat. lia.
  - rewrite Hs at 1. rewrite zlen_app, zlen_repeat. reflexivity.
Qed.

Lemma rtrim_zero_zlen : forall s, zlen (rtrim_zero s) <= zlen s.
Proof. intros s. destruct (rtrim_zero_value s) as (k & _ & _ & H). lia. Qed.

Example rtrim_zero_ex : rtrim_zero [48; 49; 48; 48] = [48; 49] /\ rtrim_zero [48; 48] = [].
Proof. split; reflexivity. Qed.

(** ** 4. [parse_exponent] saturates to the i32 clamp of the true integer *)

Lemma pe_loop_pos : forall l v, Forall digit l -> 0 <= v <= i32_max ->
  pe_loop true l v = Z.min i32_max (digits_acc v l).
Proof.
  induction l as [|ch l IH]; intros v Hl Hv.
  - cbn [pe_loop digits_acc]. lia.
  - inversion Hl; subst. unfold digit in H1. cbn [pe_loop digits_acc].
    rewrite i32_max_val in *.
    unfold i32_checked_mul, i32_checked_add.
    destruct (in_s 32 (v * 10)) eqn:E1.
    + destruct (in_s 32 (v * 10 + (ch - 48))) eqn:E2.
      * apply in_s32_iff in E2. rewrite IH by (auto; lia).
        reflexivity.
      * assert (~ (-2147483648 <= v * 10 + (ch - 48) <= 2147483647))
          by (rewrite <- in_s32_iff; congruence).
        pose proof (digits_acc_ge l (v * 10 + (ch - 48)) H2). lia.
    + assert (~ (-2147483648 <= v * 10 <= 2147483647))
        by (rewrite <- in_s32_iff; congruence).
      pose proof (digits_acc_ge l (v * 10 + (ch - 48)) H2). lia.
Qed.

Lemma pe_loop_neg : forall l v, Forall digit l -> i32_min <= v <= 0 ->
  pe_loop false l v = Z.max i32_min (- digits_acc (- v) l).
Proof.
  induction l as [|ch l IH]; intros v Hl Hv.
  - cbn [pe_loop digits_acc]. lia.
  - inversion Hl; subst. unfold digit in H1. cbn [pe_loop digits_acc].
    rewrite i32_min_val in *.
    unfold i32_checked_mul, i32_checked_sub.
    replace (- v * 10 + (ch - 48)) with (- (v * 10 - (ch - 48))) by lia.
    destruct (in_s 32 (v * 10)) eqn:E1.
    + destruct (in_s 32 (v * 10 - (ch - 48))) eqn:E2.
      * apply in_s32_iff in E2. rewrite IH by (auto; lia).
        reflexivity.
      * assert (~ (-2147483648 <= v * 10 - (ch - 48) <= 2147483647))
          by (rewrite <- in_s32_iff; congruence).
        pose proof (digits_acc_ge l (- (v * 10 - (ch - 48))) H2). lia.
    + assert (~ (-2147483648 <= v * 10 <= 2147483647))
        by (rewrite <- in_s32_iff; congruence).
      pose proof (digits_acc_ge l (- (v * 10 - (ch - 48))) H2). lia.
Qed.

(** The clamp of the true (unbounded) integer, with the right sign; never wraps.
    ([ed = []] gives 0 in both cases.) *)
Theorem parse_exponent_saturates : forall ed, Forall digit ed ->
  parse_exponent ed true = Z.min i32_max (digits_to_Z ed) /\
  parse_exponent ed false = Z.max i32_min (- digits_to_Z ed).
Proof.
  intros ed H. unfold parse_exponent, digits_to_Z. split.
  - apply pe_loop_pos; [exact H | rewrite i32_max_val; lia].
  - rewrite pe_loop_neg; [reflexivity | exact H | rewrite i32_min_val; lia].
Qed.

Definition sat_exponent (ed : list Z) (epos : bool) : Z :=
  if epos then Z.min i32_max (digits_to_Z ed) else Z.max i32_min (- digits_to_Z ed).

Corollary parse_exponent_sat : forall ed epos, Forall digit ed ->
  parse_exponent ed epos = sat_exponent ed epos.
Proof.
  intros ed [|] H; unfold sat_exponent; apply (parse_exponent_saturates ed H).
Qed.

Example parse_exponent_empty : parse_exponent [] true = 0 /\ parse_exponent [] false = 0.
Proof. split; reflexivity. Qed.

(** "99999999999" (beyond i32) and "2147483648" saturate; "2147483647" does not *)
Example parse_exponent_ex :
  parse_exponent [57;57;57;57;57;57;57;57;57;57;57] true = 2147483647 /\
  parse_exponent [57;57;57;57;57;57;57;57;57;57;57] false = -2147483648 /\
  parse_exponent [50;49;52;55;52;56;51;54;52;56] true = 2147483647 /\
  parse_exponent [50;49;52;55;52;56;51;54;52;56] false = -2147483648 /\
  parse_exponent [50;49;52;55;52;56;51;54;52;55] false = -2147483647 /\
  parse_exponent [48;48;48;48;48;48;48;48;48;48;48;48;55] false = -7.
Proof. repeat split. Qed.

(** Whatever the bytes (digits or not), the result is an i32: the checked operations never wrap. *)
Lemma pe_loop_in_i32 : forall pos l v, in_s 32 v = true -> in_s 32 (pe_loop pos l v) = true.
Proof.
  induction l as [|ch l IH]; intros v Hv; cbn [pe_loop]; [exact Hv|].
  unfold i32_checked_mul, i32_checked_add, i32_checked_sub.
  destruct (in_s 32 (v * 10)) eqn:E1.
  - destruct pos.
    + destruct (in_s 32 (v * 10 + (ch - 48))) eqn:E2; [apply IH; exact E2 | reflexivity].
    + destruct (in_s 32 (v * 10 - (ch - 48))) eqn:E2; [apply IH; exact E2 | reflexivity].
  - destruct pos; reflexivity.
Qed.

Theorem parse_exponent_in_i32 : forall ed pos, in_s 32 (parse_exponent ed pos) = true.
Proof. intros. apply pe_loop_in_i32. reflexivity. Qed.

(** ** 5. The lexer: grammar theorem *)

(** The two inner matches of [fe_core], named. *)
Definition lex_frac (s2 : list Z) : list Z * list Z :=
  match s2 with
  | 46 :: r => consume_digits r
  | _ => ([], s2)
  end.

Definition lex_exp (s3 : list Z) : Z * list Z :=
  match s3 with
  | 101 :: r | 69 :: r =>
      let '(epos, r1) := parse_sign r in
      let '(ed, r2) := consume_digits r1 in
      (parse_exponent ed epos, r2)
  | _ => (0, s3)
  end.

Lemma lex_frac_eq : forall s2,
  lex_frac s2 = match s2 with
                | c :: r => if is_dot c then consume_digits r else ([], s2)
                | [] => ([], [])
                end.
Proof.
  intros [|c r]; [reflexivity|]. unfold is_dot.
  destruct c as [|p|p]; try reflexivity.
  do 7 (try (destruct p as [p|p|]; try reflexivity)).
Qed.

Lemma lex_exp_eq : forall s3,
  lex_exp s3 = match s3 with
               | c :: r =>
                   if is_emark c then
                     let '(epos, r1) := parse_sign r in
                     let '(ed, r2) := consume_digits r1 in
                     (parse_exponent ed epos, r2)
                   else (0, s3)
               | [] => (0, [])
               end.
Proof.
  intros [|c r]; [reflexivity|]. unfold is_emark.
  destruct c as [|p|p]; try reflexivity.
  do 8 (try (destruct p as [p|p|]; try reflexivity)).
Qed.

(** What the lexer extracts from a byte string. *)
Record lexed := mkLexed {
  lx_pos : bool;        (* sign of the number: true = non-negative *)
  lx_int : list Z;      (* integer digits as written *)
  lx_frac : list Z;     (* fraction digits as written (without the '.') *)
  lx_exp : Z;           (* saturated exponent *)
  lx_rest : list Z      (* unconsumed suffix *)
}.

Definition lex (s : list Z) : lexed :=
  let '(pos, s1) := parse_sign s in
  let '(int, s2) := consume_digits s1 in
  let '(frac, s3) := lex_frac s2 in
  let '(e, s4) := lex_exp s3 in
  mkLexed pos int frac e s4.

Section WithConfig.
Variable c : config.
Variable T : tables.
Variable BT : btables.
Variable L : limits.
Variable f : format.
Variable b : build.

(** the numeric branch of [fe_core], in terms of [lex] *)
Definition fe_numeric (special : bool) (s : list Z) : outcome (Z * list Z) :=
  let x := lex s in
  if special && (zlen (lx_rest x) =? zlen s) then Ok (f_from_u64 f 0, lx_rest x)
  else
    v <- parse_float c T BT L f b (ltrim_zero (lx_int x)) (rtrim_zero (lx_frac x)) (lx_exp x) ;;
    Ok ((if lx_pos x then v else f_neg f v), lx_rest x).

Lemma fe_core_unfold : forall special s,
  fe_core c T BT L f b special s =
  let '(pos, s1) := parse_sign s in
  let sgn (v : Z) := if pos then v else f_neg f v in
  if special && ci_starts_with s1 lit_nan then
    h <- u64_shr b (HIDDEN_BIT_MASK f) 1 ;;
    v <- from_bits f b (Z.lor (EXPONENT_MASK f) h) ;;
    Ok (sgn v, skipn 3 s1)
  else if special && ci_starts_with s1 lit_infinity then
    v <- from_bits f b (EXPONENT_MASK f) ;; Ok (sgn v, skipn 8 s1)
  else if special && ci_starts_with s1 lit_inf then
    v <- from_bits f b (EXPONENT_MASK f) ;; Ok (sgn v, skipn 3 s1)
  else fe_numeric special s.
Proof.
  intros special s. unfold fe_core, fe_numeric, lex.
  destruct (parse_sign s) as [pos s1].
  destruct (special && ci_starts_with s1 lit_nan); [reflexivity|].
  destruct (special && ci_starts_with s1 lit_infinity); [reflexivity|].
  destruct (special && ci_starts_with s1 lit_inf); [reflexivity|].
  destruct (consume_digits s1) as [int s2].
  fold (lex_frac s2). destruct (lex_frac s2) as [frac s3].
  fold (lex_exp s3). destruct (lex_exp s3) as [e s4].
  reflexivity.
Qed.

Theorem fe_simple_lex : forall s, fe_simple c T BT L f b s = fe_numeric false s.
Proof.
  intros s. unfold fe_simple. rewrite fe_core_unfold.
  destruct (parse_sign s). reflexivity.
Qed.

End WithConfig.

(** *** The lexical structure of [lex s] *)

Definition sign_shape (sign_part : list Z) (pos : bool) (after : list Z) : Prop :=
  (sign_part = [] /\ pos = true /\ head_not is_signch after) \/
  (sign_part = [43] /\ pos = true) \/
  (sign_part = [45] /\ pos = false).

Definition frac_shape (frac_part frac after : list Z) : Prop :=
  (frac_part = [] /\ frac = [] /\ head_not is_dot after) \/
  (frac_part = 46 :: frac /\ Forall digit frac /\ head_not is_digit after).

Definition exp_shape (exp_part : list Z) (e : Z) (rest : list Z) : Prop :=
  (exp_part = [] /\ e = 0 /\ head_not is_emark rest) \/
  (exists m esign epos ed,
     exp_part = m :: esign ++ ed /\ (m = 101 \/ m = 69) /\
     sign_shape esign epos (ed ++ rest) /\
     Forall digit ed /\ head_not is_digit rest /\
     e = sat_exponent ed epos).

(** [s] = sign_part ++ int ++ frac_part ++ exp_part ++ rest, every part maximal *)
Definition lex_shape (s : list Z) (x : lexed) (sign_part frac_part exp_part : list Z) : Prop :=
  s = sign_part ++ lx_int x ++ frac_part ++ exp_part ++ lx_rest x /\
  sign_shape sign_part (lx_pos x) (lx_int x ++ frac_part ++ exp_part ++ lx_rest x) /\
  Forall digit (lx_int x) /\
  head_not is_digit (frac_part ++ exp_part ++ lx_rest x) /\
  frac_shape frac_part (lx_frac x) (exp_part ++ lx_rest x) /\
  exp_shape exp_part (lx_exp x) (lx_rest x).

Lemma parse_sign_shape : forall s p r,
  parse_sign s = (p, r) -> exists sg, s = sg ++ r /\ sign_shape sg p r.
Proof.
  intros s p r H. destruct (parse_sign_spec _ _ _ H) as [(-> & ->)|[(-> & ->)|(-> & -> & Hn)]].
  - exists [43]. split; [reflexivity|]. right; left; auto.
  - exists [45]. split; [reflexivity|]. right; right; auto.
  - exists []. split; [reflexivity|]. left; auto.
Qed.

Lemma sign_shape_parse : forall sg p r, sign_shape sg p r -> parse_sign (sg ++ r) = (p, r).
Proof.
  intros sg p r [(-> & -> & H)|[(-> & ->)|(-> & ->)]]; try reflexivity.
  cbn [app]. rewrite parse_sign_eq. destruct r as [|x r]; [reflexivity|].
  cbn in H. unfold is_signch in H.
  destruct (x =? 43) eqn:E1; [cbn in H; discriminate|].
  destruct (x =? 45) eqn:E2; [cbn in H; discriminate|]. reflexivity.
Qed.

Lemma lex_frac_shape : forall s2 frac s3,
  lex_frac s2 = (frac, s3) -> exists fp, s2 = fp ++ s3 /\ frac_shape fp frac s3.
Proof.
  intros s2 frac s3 H. rewrite lex_frac_eq in H. destruct s2 as [|x r].
  - inversion H; subst. exists []. split; [reflexivity|]. left. cbn. auto.
  - destruct (is_dot x) eqn:E.
    + destruct (consume_digits_spec _ _ _ H) as (-> & Hd & _).
      exists (46 :: frac). split.
      * cbn [app]. f_equal. unfold is_dot in E. lia.
      * right. split; [reflexivity|]. split; [exact Hd|].
        eapply consume_digits_head_not; eauto.
    + inversion H; subst. exists []. split; [reflexivity|]. left. cbn. auto.
Qed.

Lemma frac_shape_lex : forall fp frac after,
  frac_shape fp frac after -> lex_frac (fp ++ after) = (frac, after).
Proof.
  intros fp frac after [(-> & -> & H)|(-> & Hd & H)]; rewrite lex_frac_eq.
  - cbn [app]. destruct after as [|x r]; [reflexivity|]. cbn in H. rewrite H. reflexivity.
  - cbn [app]. change (is_dot 46) with true. cbv iota. apply consume_digits_unique; assumption.
Qed.

Lemma lex_exp_shape : forall s3 e s4,
  lex_exp s3 = (e, s4) -> exists ep, s3 = ep ++ s4 /\ exp_shape ep e s4.
Proof.
  intros s3 e s4 H. rewrite lex_exp_eq in H. destruct s3 as [|x r].
  - inversion H; subst. exists []. split; [reflexivity|]. left. cbn. auto.
  - destruct (is_emark x) eqn:E.
    + destruct (parse_sign r) as [epos r1] eqn:E1.
      destruct (consume_digits r1) as [ed r2] eqn:E2. inversion H; subst. clear H.
      destruct (parse_sign_shape _ _ _ E1) as (sg & -> & Hsg).
      destruct (consume_digits_spec _ _ _ E2) as (-> & Hd & _).
      exists (x :: sg ++ ed). split.
      * cbn [app]. rewrite <- app_assoc. reflexivity.
      * right. exists x, sg, epos, ed. split; [reflexivity|].
        split; [unfold is_emark in E; lia|]. split; [exact Hsg|]. split; [exact Hd|].
        split; [eapply consume_digits_head_not; eauto|].
        apply parse_exponent_sat; exact Hd.
    + inversion H; subst. exists []. split; [reflexivity|]. left. cbn. auto.
Qed.

Lemma exp_shape_lex : forall ep e rest,
  exp_shape ep e rest -> lex_exp (ep ++ rest) = (e, rest).
Proof.
  intros ep e rest [(-> & -> & H)|(m & sg & epos & ed & -> & Hm & Hsg & Hd & Hr & ->)];
    rewrite lex_exp_eq.
  - cbn [app]. destruct rest as [|x r]; [reflexivity|]. cbn in H. rewrite H. reflexivity.
  - cbn [app]. assert (is_emark m = true) as -> by (unfold is_emark; lia).
    rewrite <- app_assoc, (sign_shape_parse _ _ _ Hsg), (consume_digits_unique _ _ Hd Hr).
    rewrite parse_exponent_sat by exact Hd. reflexivity.
Qed.

(** **** The grammar theorem for the lexer: every byte string decomposes, each part maximal. *)
Theorem lex_spec : forall s,
  exists sign_part frac_part exp_part, lex_shape s (lex s) sign_part frac_part exp_part.
Proof.
  intros s. unfold lex.
  destruct (parse_sign s) as [pos s1] eqn:E1.
  destruct (consume_digits s1) as [int s2] eqn:E2.
  destruct (lex_frac s2) as [frac s3] eqn:E3.
  destruct (lex_exp s3) as [e s4] eqn:E4.
  destruct (parse_sign_shape _ _ _ E1) as (sg & -> & Hsg).
  pose proof (consume_digits_head_not _ _ _ E2) as Hn2.
  destruct (consume_digits_spec _ _ _ E2) as (-> & Hd & _).
  destruct (lex_frac_shape _ _ _ E3) as (fp & -> & Hfp).
  destruct (lex_exp_shape _ _ _ E4) as (ep & -> & Hep).
  exists sg, fp, ep. unfold lex_shape. cbn [lx_pos lx_int lx_frac lx_exp lx_rest].
  repeat split; auto.
Qed.

(** Conversely the shape determines the result: a decomposition with maximal parts is the
    one the lexer finds (so [lex_shape] characterises [lex] completely). *)
Theorem lex_unique : forall s x sign_part frac_part exp_part,
  lex_shape s x sign_part frac_part exp_part -> lex s = x.
Proof.
  intros s [pos int frac e rest] sg fp ep (Hs & Hsg & Hi & Hn & Hf & He).
  cbn [lx_pos lx_int lx_frac lx_exp lx_rest] in *. subst s. unfold lex.
  rewrite (sign_shape_parse _ _ _ Hsg), (consume_digits_unique _ _ Hi Hn).
  rewrite (frac_shape_lex _ _ _ Hf), (exp_shape_lex _ _ _ He). reflexivity.
Qed.

(** ** 6. The lexer establishes the library's preconditions *)

Lemma lex_int_digits : forall s, Forall digit (lx_int (lex s)).
Proof. intros s. destruct (lex_spec s) as (sg & fp & ep & H). apply H. Qed.

Lemma lex_frac_digits : forall s, Forall digit (lx_frac (lex s)).
Proof.
  intros s. destruct (lex_spec s) as (sg & fp & ep & (_ & _ & _ & _ & Hf & _)).
  destruct Hf as [(_ & -> & _)|(_ & H & _)]; [constructor | exact H].
Qed.

Lemma lex_exp_in_i32 : forall s, in_s 32 (lx_exp (lex s)) = true.
Proof.
  intros s. unfold lex.
  destruct (parse_sign s) as [pos s1]. destruct (consume_digits s1) as [int s2].
  destruct (lex_frac s2) as [frac s3]. destruct (lex_exp s3) as [e s4] eqn:E.
  cbn [lx_exp]. rewrite lex_exp_eq in E. destruct s3 as [|x r].
  - inversion E. reflexivity.
  - destruct (is_emark x).
    + destruct (parse_sign r) as [epos r1]. destruct (consume_digits r1) as [ed r2].
      inversion E. apply parse_exponent_in_i32.
    + inversion E. reflexivity.
Qed.

Lemma lex_lengths : forall s,
  zlen (lx_int (lex s)) + zlen (lx_frac (lex s)) + zlen (lx_rest (lex s)) <= zlen s.
Proof.
  intros s. destruct (lex_spec s) as (sg & fp & ep & (Hs & _ & _ & _ & Hf & _)).
  set (x := lex s) in *. clearbody x.
  apply (f_equal (@zlen Z)) in Hs. rewrite !zlen_app in Hs.
  pose proof (zlen_nonneg sg). pose proof (zlen_nonneg ep).
  assert (zlen (lx_frac x) <= zlen fp).
  { destruct Hf as [(-> & -> & _)|(-> & _ & _)]; unfold zlen; cbn [length]; lia. }
  lia.
Qed.

(** [valid_inputb] (spec/Decimal.v): ASCII digits, no leading zero in the integer part, fewer than
    2^31 - 2 digits, i32 exponent.  In addition the fraction has no trailing zero. *)
Theorem lex_establishes_preconditions : forall s,
  zlen (ltrim_zero (lx_int (lex s))) + zlen (rtrim_zero (lx_frac (lex s))) < 2 ^ 31 - 2 ->
  valid_inputb (ltrim_zero (lx_int (lex s))) (rtrim_zero (lx_frac (lex s))) (lx_exp (lex s)) = true
  /\ last_not_zero (rtrim_zero (lx_frac (lex s))).
Proof.
  intros s Hlen. split.
  - unfold valid_inputb. rewrite !andb_true_iff. repeat split.
    + apply forallb_digitb, ltrim_zero_Forall, lex_int_digits.
    + apply forallb_digitb, rtrim_zero_Forall, lex_frac_digits.
    + destruct (ltrim_zero (lx_int (lex s))) as [|x r] eqn:E; [reflexivity|].
      destruct (x =? 48) eqn:E48; [|reflexivity].
      exfalso. apply (ltrim_zero_no_leading_zero (lx_int (lex s)) r). rewrite E. f_equal. lia.
    + apply Z.ltb_lt. exact Hlen.
    + apply lex_exp_in_i32.
  - destruct (rtrim_zero_spec (lx_frac (lex s))) as (k & _ & H). exact H.
Qed.

Corollary lex_establishes_preconditions_len : forall s,
  zlen s < 2 ^ 31 - 2 ->
  valid_input (ltrim_zero (lx_int (lex s))) (rtrim_zero (lx_frac (lex s))) (lx_exp (lex s)).
Proof.
  intros s H. apply lex_establishes_preconditions.
  pose proof (lex_lengths s). pose proof (zlen_nonneg (lx_rest (lex s))).
  pose proof (ltrim_zero_zlen (lx_int (lex s))). pose proof (rtrim_zero_zlen (lx_frac (lex s))).
  lia.
Qed.

(** ** 7. Trimming preserves the value of the literal *)

Lemma pow10Q_Qpower : forall k, (pow10Q k == inject_Z 10 ^ k)%Q.
Proof.
  intros [|p|p].
  - reflexivity.
  - unfold pow10Q. apply Zpower_Qpower. lia.
  - unfold pow10Q.
    assert (Hq : (inject_Z (10 ^ Z.pos p) == inject_Z 10 ^ Z.pos p)%Q)
      by (apply Zpower_Qpower; lia).
    change (inject_Z 10 ^ Z.neg p)%Q with (/ (inject_Z 10 ^ Z.pos p))%Q.
    rewrite <- Hq.
    assert (0 < 10 ^ Z.pos p) by (apply Z.pow_pos_nonneg; lia).
    destruct (10 ^ Z.pos p) as [|q|q] eqn:E; try lia.
    reflexivity.
Qed.

Lemma pow10Q_add : forall a k, (pow10Q (a + k) == pow10Q a * pow10Q k)%Q.
Proof.
  intros a k. rewrite !pow10Q_Qpower. apply Qpower_plus. discriminate.
Qed.

Lemma pow10Q_nonneg : forall k, 0 <= k -> (pow10Q k == inject_Z (10 ^ k))%Q.
Proof.
  intros k Hk. rewrite pow10Q_Qpower. symmetry. apply Zpower_Qpower. exact Hk.
Qed.

(** The number handed to the library denotes the same rational as the literal as written:
    (int ++ frac) * 10^(e - |frac|). Holds for arbitrary lists, digits or not. *)
Theorem trim_preserves_value : forall int frac e,
  (dec_value (ltrim_zero int) (rtrim_zero frac) e == dec_value int frac e)%Q.
Proof.
  intros int frac e. unfold dec_value.
  destruct (rtrim_zero_value frac) as (k & Hfr & Hv & Hl).
  set (fr := rtrim_zero frac) in *.
  assert (Hd : digits_to_Z (int ++ frac) = digits_to_Z (ltrim_zero int ++ fr) * 10 ^ Z.of_nat k).
  { rewrite !digits_to_Z_app, ltrim_zero_value, Hv, Hl.
    rewrite Z.pow_add_r by (try apply zlen_nonneg; lia). ring. }
  rewrite Hd, inject_Z_mult.
  replace (e - zlen fr) with ((e - zlen frac) + Z.of_nat k) by lia.
  rewrite pow10Q_add, (pow10Q_nonneg (Z.of_nat k)) by lia.
  ring.
Qed.

Example trim_preserves_value_ex :
  (* "00120.34500" e-3 : trimmed to "120" "345" *)
  ltrim_zero [48;48;49;50;48] = [49;50;48] /\ rtrim_zero [51;52;53;48;48] = [51;52;53] /\
  Qeq (dec_value [49;50;48] [51;52;53] (-3)) (120345 # 1000000) /\
  Qeq (dec_value [48;48;49;50;48] [51;52;53;48;48] (-3)) (120345 # 1000000).
Proof. repeat split. Qed.

(** ** 8a. [ci_starts_with]: the xor trick *)

Definition ci_byte (a b : Z) : Prop := a = b \/ Z.lxor a b = 32.

Lemma lxor_32_iff : forall a b, Z.lxor a b = 32 <-> a = Z.lxor b 32.
Proof.
  intros a b. split; intros H.
  - rewrite <- H, (Z.lxor_comm a b), <- Z.lxor_assoc, Z.lxor_nilpotent, Z.lxor_0_l. reflexivity.
  - subst a. rewrite (Z.lxor_comm b 32), Z.lxor_assoc, Z.lxor_nilpotent, Z.lxor_0_r. reflexivity.
Qed.

(** a byte matches a pattern byte iff it is that byte or that byte with bit 5 flipped *)
Lemma ci_byte_iff : forall a b, ci_byte a b <-> a = b \/ a = Z.lxor b 32.
Proof. intros a b. unfold ci_byte. rewrite lxor_32_iff. reflexivity. Qed.

Lemma ci_step : forall xi yi,
  (negb (Z.lxor xi yi =? 0) && negb (Z.lxor xi yi =? 32)) = false <-> ci_byte xi yi.
Proof.
  intros xi yi. unfold ci_byte. split.
  - intros H. destruct (Z.lxor xi yi =? 0) eqn:E0.
    + left. apply Z.lxor_eq. lia.
    + right. lia.
  - intros [->|H].
    + rewrite Z.lxor_nilpotent. reflexivity.
    + rewrite H. reflexivity.
Qed.

Theorem ci_starts_with_spec : forall y x,
  ci_starts_with x y = true <->
  exists x1 x2, x = x1 ++ x2 /\ length x1 = length y /\ Forall2 ci_byte x1 y.
Proof.
  induction y as [|yi y IH]; intros x.
  - split; [|destruct x; reflexivity].
    intros _. exists [], x. repeat split. constructor.
  - destruct x as [|xi x]; cbn [ci_starts_with].
    + split; [discriminate|]. intros (x1 & x2 & H & Hl & _).
      destruct x1; cbn in *; discriminate.
    + cbv zeta.
      destruct (negb (Z.lxor xi yi =? 0) && negb (Z.lxor xi yi =? 32)) eqn:E.
      * split; [discriminate|]. intros (x1 & x2 & H & Hl & HF).
        inversion HF as [|a0 b0 l0 l0' Hab HF']; subst. cbn [app] in H. inversion H; subst.
        apply ci_step in Hab. congruence.
      * apply ci_step in E. rewrite IH. split.
        -- intros (x1 & x2 & -> & Hl & HF). exists (xi :: x1), x2.
           cbn [app length]. repeat split; auto.
        -- intros (x1 & x2 & H & Hl & HF). inversion HF as [|a0 b0 l0 l0' Hab HF']; subst.
           cbn [app] in H. inversion H; subst. exists l0, x2.
           cbn [length] in Hl. repeat split; auto.
Qed.

(** the matched prefix has exactly the pattern's length; the rest is [skipn] *)
Corollary ci_starts_with_skipn : forall x y,
  ci_starts_with x y = true ->
  exists x1, x = x1 ++ skipn (length y) x /\ length x1 = length y /\ Forall2 ci_byte x1 y.
Proof.
  intros x y H. apply ci_starts_with_spec in H. destruct H as (x1 & x2 & -> & Hl & HF).
  exists x1. rewrite <- Hl, skipn_app, skipn_all, Nat.sub_diag. cbn [skipn app]. auto.
Qed.

(** the accepted bytes per pattern position *)
Definition case_variants (y : list Z) : list (list Z) := map (fun b => [b; Z.lxor b 32]) y.

Theorem ci_starts_with_variants : forall y x,
  ci_starts_with x y = true <->
  exists x1 x2, x = x1 ++ x2 /\ Forall2 (fun a vs => In a vs) x1 (case_variants y).
Proof.
  intros y x. rewrite ci_starts_with_spec. split.
  - intros (x1 & x2 & -> & _ & HF). exists x1, x2. split; [reflexivity|].
    unfold case_variants. clear x2.
    induction HF as [|a0 b0 l0 l0' Hab HF' IH]; cbn [map]; constructor; auto.
    apply ci_byte_iff in Hab. cbn [In]. intuition.
  - intros (x1 & x2 & -> & HF). exists x1, x2. split; [reflexivity|].
    assert (HF' : Forall2 ci_byte x1 y).
    { clear x2. revert x1 HF. unfold case_variants.
      induction y as [|yi y IH]; intros x1 HF; cbn [map] in HF;
        inversion HF as [|a0 b0 l0 l0' Hab HF']; subst; constructor; auto.
      apply ci_byte_iff. cbn [In] in Hab. intuition. }
    split; [|exact HF']. clear HF. induction HF'; cbn [length]; congruence.
Qed.

(** For the three literals every accepted byte is the letter itself in one of the two cases:
    N/n a/A N/n, I/i n/N f/F i/I n/N i/I t/T y/Y, i/I n/N f/F.  No non-letter byte is accepted. *)
Example case_variants_nan : case_variants lit_nan = [[78;110]; [97;65]; [78;110]].
Proof. reflexivity. Qed.
Example case_variants_infinity : case_variants lit_infinity =
  [[73;105]; [110;78]; [102;70]; [105;73]; [110;78]; [105;73]; [116;84]; [121;89]].
Proof. reflexivity. Qed.
Example case_variants_inf : case_variants lit_inf = [[105;73]; [110;78]; [102;70]].
Proof. reflexivity. Qed.

Definition is_ascii_letter (x : Z) : bool :=
  ((65 <=? x) && (x <=? 90)) || ((97 <=? x) && (x <=? 122)).
Example literals_accept_only_letters :
  forallb (forallb is_ascii_letter)
    (case_variants lit_nan ++ case_variants lit_infinity ++ case_variants lit_inf) = true.
Proof. reflexivity. Qed.

(** Independent check by brute force over all 256 bytes, lifted to a statement about all bytes. *)
Definition all_bytes : list Z := map Z.of_nat (seq 0 256).
Definition accepted_bytes (yi : Z) : list Z :=
  filter (fun xi => ci_starts_with [xi] [yi]) all_bytes.
Example accepted_bytes_enum :
  map accepted_bytes lit_nan = [[78;110]; [65;97]; [78;110]] /\
  map accepted_bytes lit_infinity =
    [[73;105]; [78;110]; [70;102]; [73;105]; [78;110]; [73;105]; [84;116]; [89;121]] /\
  map accepted_bytes lit_inf = [[73;105]; [78;110]; [70;102]].
Proof. vm_compute. repeat split. Qed.

Lemma all_bytes_In : forall x, 0 <= x <= 255 -> In x all_bytes.
Proof.
  intros x H. unfold all_bytes. apply in_map_iff. exists (Z.to_nat x).
  split; [lia|]. apply in_seq. lia.
Qed.

Theorem accepted_bytes_complete : forall xi yi, 0 <= xi <= 255 ->
  (ci_starts_with [xi] [yi] = true <-> In xi (accepted_bytes yi)).
Proof.
  intros xi yi H. unfold accepted_bytes. rewrite filter_In. split; [|tauto].
  intros E. split; [apply all_bytes_In; exact H | exact E].
Qed.

(** The xor trick as such is not letter-only: '@' (64) matches '`' (96), '[' matches '{' ...
    It is harmless here because every pattern byte is a letter. *)
Example ci_quirk_nonletters :
  ci_starts_with [64] [96] = true /\ ci_starts_with [91] [123] = true /\
  ci_starts_with [48] [16] = true.
Proof. repeat split. Qed.

(** "Infinity" (any case) also matches "inf": precedence decides how much is consumed. *)
Lemma ci_infinity_implies_inf : forall x,
  ci_starts_with x lit_infinity = true -> ci_starts_with x lit_inf = true.
Proof.
  intros x H. apply ci_starts_with_variants in H. destruct H as (x1 & x2 & -> & HF).
  rewrite case_variants_infinity in HF.
  do 3 (destruct x1 as [|? x1]; [inversion HF|]; inversion HF as [|? ? ? ? ? HF']; subst;
        clear HF; rename HF' into HF).
  apply ci_starts_with_variants. rewrite case_variants_inf.
  eexists [_; _; _], _. split; [reflexivity|].
  cbv beta in *. cbn [In] in *. do 3 (constructor; [cbn [In]; tauto|]). constructor.
Qed.

(** ** The format facts the special-literal branch needs *)

(** the quiet-NaN pattern `EXPONENT_MASK | (HIDDEN_BIT_MASK >> 1)` *)
Definition qnan_bits (f : format) : Z := Z.lor (EXPONENT_MASK f) (HIDDEN_BIT_MASK f / 2 ^ 1).

(** For a 32-bit format both special patterns must fit in 32 bits (f32's `from_bits` has a
    `debug_assert!(u <= 0xffff_ffff)` and truncates).  Nothing is needed for other widths. *)
Definition fmt_special_ok (f : format) : bool :=
  negb (fbits f =? 32) ||
  ((0 <=? EXPONENT_MASK f) && (EXPONENT_MASK f <=? 4294967295) &&
   (0 <=? qnan_bits f) && (qnan_bits f <=? 4294967295)).

Example fmt_special_ok_F32 : fmt_special_ok F32 = true. Proof. vm_compute. reflexivity. Qed.
Example fmt_special_ok_F64 : fmt_special_ok F64 = true. Proof. vm_compute. reflexivity. Qed.

Example special_bits :
  qnan_bits F64 = 0x7FF8000000000000 /\ EXPONENT_MASK F64 = 0x7FF0000000000000 /\
  qnan_bits F32 = 0x7FC00000 /\ EXPONENT_MASK F32 = 0x7F800000.
Proof. vm_compute. repeat split. Qed.

Lemma from_bits_small : forall f b u,
  (fbits f =? 32) = false \/ 0 <= u <= 4294967295 -> from_bits f b u = Ok u.
Proof.
  intros f b u H. unfold from_bits. destruct (fbits f =? 32) eqn:E; [|reflexivity].
  destruct H as [H|H]; [discriminate|].
  unfold debug_assert. assert ((u <=? 4294967295) = true) as -> by lia.
  cbn [negb]. rewrite andb_false_r. cbn [bind].
  unfold as_u32, wrapu. change (2 ^ 32) with 4294967296.
  rewrite Z.mod_small by lia. reflexivity.
Qed.

Lemma from_bits_special : forall f b, fmt_special_ok f = true ->
  from_bits f b (EXPONENT_MASK f) = Ok (EXPONENT_MASK f) /\
  from_bits f b (qnan_bits f) = Ok (qnan_bits f).
Proof.
  intros f b H. unfold fmt_special_ok in H.
  split; apply from_bits_small; destruct (fbits f =? 32); auto; right; cbn [negb orb] in H; lia.
Qed.

Lemma u64_shr_1 : forall b x, u64_shr b x 1 = Ok (x / 2 ^ 1).
Proof. reflexivity. Qed.

Section WithConfig2.
Variable c : config.
Variable T : tables.
Variable BT : btables.
Variable L : limits.
Variable f : format.
Variable b : build.

Notation PF := (parse_float c T BT L f b).
Notation FE := (fe_core c T BT L f b).

(** the library call the front end makes for input [s] *)
Definition inner_call (s : list Z) : outcome Z :=
  PF (ltrim_zero (lx_int (lex s))) (rtrim_zero (lx_frac (lex s))) (lx_exp (lex s)).

(** sign application: `float = -float` flips the sign bit *)
Definition apply_sign (pos : bool) (v : Z) : Z := if pos then v else f_neg f v.

(** ** 5'. The grammar theorem for the front end ([fe_simple] = [fe_core false]) *)

(** Every byte string [s] splits as sign_part ++ int ++ frac_part ++ exp_part ++ rest with every
    part maximal ([lex_shape]); the front end calls the library on the trimmed digits and the
    saturated exponent, applies the sign to its result, and returns exactly [rest]; it adds no
    failure of its own (the [bind] propagates the library's outcome). *)
Theorem lex_decompose : forall s,
  exists sign_part int frac_part exp_part rest pos frac e,
    lex_shape s (mkLexed pos int frac e rest) sign_part frac_part exp_part /\
    FE false s =
      (v <- PF (ltrim_zero int) (rtrim_zero frac) e ;; Ok (apply_sign pos v, rest)).
Proof.
  intros s. destruct (lex_spec s) as (sg & fp & ep & H).
  fold (fe_simple c T BT L f b s). rewrite fe_simple_lex.
  destruct (lex s) as [pos int frac e rest] eqn:E.
  exists sg, int, fp, ep, rest, pos, frac, e. split; [exact H|].
  unfold fe_numeric. rewrite E. reflexivity.
Qed.

Theorem fe_simple_eq : forall s,
  fe_simple c T BT L f b s =
    (v <- inner_call s ;; Ok (apply_sign (lx_pos (lex s)) v, lx_rest (lex s))).
Proof. intros s. rewrite fe_simple_lex. reflexivity. Qed.

Corollary fe_simple_ok : forall s v,
  inner_call s = Ok v ->
  fe_simple c T BT L f b s = Ok (apply_sign (lx_pos (lex s)) v, lx_rest (lex s)).
Proof. intros s v H. rewrite fe_simple_eq, H. reflexivity. Qed.

Corollary fe_simple_panic_iff : forall s k,
  fe_simple c T BT L f b s = Panic k <-> inner_call s = Panic k.
Proof.
  intros s k. rewrite fe_simple_eq. destruct (inner_call s); cbn [bind]; split; congruence.
Qed.

Corollary fe_simple_ub_iff : forall s k,
  fe_simple c T BT L f b s = UB k <-> inner_call s = UB k.
Proof.
  intros s k. rewrite fe_simple_eq. destruct (inner_call s); cbn [bind]; split; congruence.
Qed.

(** ** 8b. Special literals and the empty-match rule ([fe_fuzz] = [fe_core true]) *)

Hypothesis Hfmt : fmt_special_ok f = true.

Theorem fe_fuzz_nan : forall s pos s1,
  parse_sign s = (pos, s1) -> ci_starts_with s1 lit_nan = true ->
  fe_fuzz c T BT L f b s = Ok (apply_sign pos (qnan_bits f), skipn 3 s1).
Proof.
  intros s pos s1 H1 H2. unfold fe_fuzz. rewrite fe_core_unfold, H1, H2.
  cbn [andb]. rewrite u64_shr_1. cbn [bind].
  fold (qnan_bits f). rewrite (proj2 (from_bits_special f b Hfmt)). reflexivity.
Qed.

Theorem fe_fuzz_infinity : forall s pos s1,
  parse_sign s = (pos, s1) -> ci_starts_with s1 lit_nan = false ->
  ci_starts_with s1 lit_infinity = true ->
  fe_fuzz c T BT L f b s = Ok (apply_sign pos (EXPONENT_MASK f), skipn 8 s1).
Proof.
  intros s pos s1 H1 H2 H3. unfold fe_fuzz. rewrite fe_core_unfold, H1, H2, H3.
  cbn [andb]. rewrite (proj1 (from_bits_special f b Hfmt)). reflexivity.
Qed.

Theorem fe_fuzz_inf : forall s pos s1,
  parse_sign s = (pos, s1) -> ci_starts_with s1 lit_nan = false ->
  ci_starts_with s1 lit_infinity = false -> ci_starts_with s1 lit_inf = true ->
  fe_fuzz c T BT L f b s = Ok (apply_sign pos (EXPONENT_MASK f), skipn 3 s1).
Proof.
  intros s pos s1 H1 H2 H3 H4. unfold fe_fuzz. rewrite fe_core_unfold, H1, H2, H3, H4.
  cbn [andb]. rewrite (proj1 (from_bits_special f b Hfmt)). reflexivity.
Qed.

Theorem fe_fuzz_numeric : forall s pos s1,
  parse_sign s = (pos, s1) -> ci_starts_with s1 lit_nan = false ->
  ci_starts_with s1 lit_infinity = false -> ci_starts_with s1 lit_inf = false ->
  fe_fuzz c T BT L f b s = fe_numeric c T BT L f b true s.
Proof.
  intros s pos s1 H1 H2 H3 H4. unfold fe_fuzz. rewrite fe_core_unfold, H1, H2, H3, H4.
  reflexivity.
Qed.

(** the literal branch in list form: s = sign ++ matched ++ suffix *)
Corollary fe_fuzz_special_suffix : forall s pos s1 lit,
  parse_sign s = (pos, s1) -> ci_starts_with s1 lit = true ->
  exists sg m, s = sg ++ m ++ skipn (length lit) s1 /\ sign_shape sg pos s1 /\
               length m = length lit /\ Forall2 ci_byte m lit.
Proof.
  intros s pos s1 lit H1 H2. destruct (parse_sign_shape _ _ _ H1) as (sg & Hs & Hsg).
  destruct (ci_starts_with_skipn _ _ H2) as (m & Hm & Hl & HF).
  exists sg, m. rewrite <- Hm. auto.
Qed.

End WithConfig2.

(** *** The empty-match rule: when does the lexer consume nothing? *)

(** bytes that can start a numeric literal: + - 0-9 . e E *)
Definition starts_float (x : Z) : bool := is_signch x || is_digit x || is_dot x || is_emark x.

Lemma zlen_zero_nil : forall (l : list Z), zlen l = 0 -> l = [].
Proof. intros [|x l] H; [reflexivity|]. unfold zlen in H. cbn [length] in H. lia. Qed.

Lemma lex_nothing : forall s,
  head_not starts_float s -> lex s = mkLexed true [] [] 0 s.
Proof.
  intros s H.
  apply (lex_unique s _ [] [] []). unfold lex_shape, sign_shape, frac_shape, exp_shape.
  cbn [lx_pos lx_int lx_frac lx_exp lx_rest app].
  destruct s as [|y s]; cbn [head_not] in *.
  - repeat split; auto.
  - unfold starts_float in H.
    destruct (is_signch y), (is_digit y), (is_dot y), (is_emark y); try discriminate.
    repeat split; auto.
Qed.

Theorem lex_consumes_nothing_iff : forall s,
  zlen (lx_rest (lex s)) = zlen s <-> head_not starts_float s.
Proof.
  intros s. split.
  - intros H. destruct (lex_spec s) as (sg & fp & ep & (Hs & Hsg & Hi & Hn & Hf & He)).
    set (x := lex s) in *. clearbody x.
    pose proof (f_equal (@zlen Z) Hs) as Hl. rewrite !zlen_app in Hl.
    pose proof (zlen_nonneg sg). pose proof (zlen_nonneg (lx_int x)).
    pose proof (zlen_nonneg fp). pose proof (zlen_nonneg ep).
    assert (sg = []) by (apply zlen_zero_nil; lia).
    assert (lx_int x = []) as Ei by (apply zlen_zero_nil; lia).
    assert (fp = []) by (apply zlen_zero_nil; lia).
    assert (ep = []) by (apply zlen_zero_nil; lia).
    subst sg fp ep. rewrite Ei in *. cbn [app] in *. rewrite <- Hs in *.
    destruct Hsg as [(_ & _ & Hsg)|[(Hsg & _)|(Hsg & _)]]; try discriminate.
    destruct Hf as [(_ & _ & Hf)|(Hf & _)]; try discriminate.
    destruct He as [(_ & _ & He)|(m & es & ? & ed & He & _)]; try discriminate.
    destruct s as [|y s]; cbn in *; [exact I|]. unfold starts_float.
    rewrite Hsg, Hn, Hf, He. reflexivity.
  - intros H. rewrite (lex_nothing s H). reflexivity.
Qed.

Corollary lex_consumes_nothing_rest : forall s,
  zlen (lx_rest (lex s)) = zlen s -> lex s = mkLexed true [] [] 0 s.
Proof. intros s H. apply lex_nothing, lex_consumes_nothing_iff, H. Qed.

Example starts_float_bytes :
  filter starts_float all_bytes = [43; 45; 46; 48;49;50;51;52;53;54;55;56;57; 69; 101].
Proof. vm_compute. reflexivity. Qed.

Section WithConfig3.
Variable c : config.
Variable T : tables.
Variable BT : btables.
Variable L : limits.
Variable f : format.
Variable b : build.

Notation FE := (fe_core c T BT L f b).

(** fuzz/test variant, no special literal: if the first byte cannot start a number (or the input
    is empty) the result is `F::from_u64(0)` = +0.0 with the whole input as suffix -- the library
    is not called; otherwise it behaves exactly like the simple variant. *)
Theorem fe_numeric_empty_match : forall s,
  head_not starts_float s ->
  fe_numeric c T BT L f b true s = Ok (f_from_u64 f 0, s).
Proof.
  intros s H. unfold fe_numeric.
  assert (H' : zlen (lx_rest (lex s)) = zlen s) by (apply lex_consumes_nothing_iff; exact H).
  rewrite (lex_consumes_nothing_rest s H') in *. cbn [lx_rest] in *.
  rewrite Z.eqb_refl. reflexivity.
Qed.

Theorem fe_numeric_nonempty : forall s,
  ~ head_not starts_float s ->
  fe_numeric c T BT L f b true s = fe_numeric c T BT L f b false s.
Proof.
  intros s H. unfold fe_numeric.
  destruct (zlen (lx_rest (lex s)) =? zlen s) eqn:E; [|reflexivity].
  exfalso. apply H. apply lex_consumes_nothing_iff. lia.
Qed.

(** ** 9. Totality: the front end adds no failure of its own *)

Theorem front_end_total : forall special s,
  (special = true -> fmt_special_ok f = true) ->
  match FE special s with
  | Ok _ => True
  | Panic k => inner_call c T BT L f b s = Panic k
  | UB k => inner_call c T BT L f b s = UB k
  end.
Proof.
  intros special s Hf. rewrite fe_core_unfold.
  destruct (parse_sign s) as [pos s1].
  assert (Hnum : match fe_numeric c T BT L f b special s with
                 | Ok _ => True
                 | Panic k => inner_call c T BT L f b s = Panic k
                 | UB k => inner_call c T BT L f b s = UB k
                 end).
  { unfold fe_numeric. destruct (special && (zlen (lx_rest (lex s)) =? zlen s)); [exact I|].
    fold (inner_call c T BT L f b s). destruct (inner_call c T BT L f b s); cbn [bind]; auto. }
  destruct special; cbn [andb]; [|exact Hnum].
  specialize (Hf eq_refl). destruct (from_bits_special f b Hf) as [Hinf Hnan].
  destruct (ci_starts_with s1 lit_nan).
  { rewrite u64_shr_1. cbn [bind]. fold (qnan_bits f). rewrite Hnan. exact I. }
  destruct (ci_starts_with s1 lit_infinity).
  { rewrite Hinf. exact I. }
  destruct (ci_starts_with s1 lit_inf).
  { rewrite Hinf. exact I. }
  exact Hnum.
Qed.

Corollary front_end_ok : forall special s,
  (special = true -> fmt_special_ok f = true) ->
  is_ok (inner_call c T BT L f b s) = true -> is_ok (FE special s) = true.
Proof.
  intros special s Hf H. pose proof (front_end_total special s Hf) as Ht.
  destruct (FE special s); [reflexivity| |]; rewrite Ht in H; discriminate.
Qed.

Corollary fe_simple_total : forall s,
  is_ok (inner_call c T BT L f b s) = true -> is_ok (fe_simple c T BT L f b s) = true.
Proof. intros s. apply front_end_ok. discriminate. Qed.

End WithConfig3.

Corollary fe_fuzz_total_F32_F64 : forall c T BT L b s,
  (is_ok (inner_call c T BT L F32 b s) = true -> is_ok (fe_fuzz c T BT L F32 b s) = true) /\
  (is_ok (inner_call c T BT L F64 b s) = true -> is_ok (fe_fuzz c T BT L F64 b s) = true).
Proof.
  intros. split; apply front_end_ok; intros _; [apply fmt_special_ok_F32 | apply fmt_special_ok_F64].
Qed.

(** ** 10. "Longest prefix": the consumed part is the longest prefix of [s] that is a word of
       the grammar  [sign] digits [ '.' digits ] [ ('e'|'E') [sign] digits ]  where every
       bracketed part is optional and "digits" may be empty. *)

Definition sign_opt (sg : list Z) : Prop := sg = [] \/ sg = [43] \/ sg = [45].
Definition frac_opt (fp : list Z) : Prop := fp = [] \/ exists fd, fp = 46 :: fd /\ Forall digit fd.
Definition exp_opt (ep : list Z) : Prop :=
  ep = [] \/ exists m es ed, ep = m :: es ++ ed /\ (m = 101 \/ m = 69) /\ sign_opt es /\ Forall digit ed.

(** [p] is a word of the grammar *)
Definition float_prefix (p : list Z) : Prop :=
  exists sg i fp ep, p = sg ++ i ++ fp ++ ep /\ sign_opt sg /\ Forall digit i /\ frac_opt fp /\ exp_opt ep.

Lemma sign_shape_opt : forall sg pos A, sign_shape sg pos A -> sign_opt sg.
Proof. intros sg pos A [(-> & _)|[(-> & _)|(-> & _)]]; unfold sign_opt; auto. Qed.

Theorem lex_prefix_in_grammar : forall s,
  exists p, s = p ++ lx_rest (lex s) /\ float_prefix p.
Proof.
  intros s. destruct (lex_spec s) as (sg & fp & ep & (Hs & Hsg & Hi & Hn & Hf & He)).
  exists (sg ++ lx_int (lex s) ++ fp ++ ep). split.
  - rewrite Hs at 1. rewrite <- !app_assoc. reflexivity.
  - exists sg, (lx_int (lex s)), fp, ep. split; [reflexivity|].
    split; [eapply sign_shape_opt; eauto|]. split; [exact Hi|]. split.
    + destruct Hf as [(-> & _)|(-> & Hd & _)]; [left; reflexivity | right; eauto].
    + destruct He as [(-> & _)|(m & es & epos & ed & -> & Hm & Hes & Hd & _)];
        [left; reflexivity | right].
      exists m, es, ed. repeat split; auto. eapply sign_shape_opt; eauto.
Qed.

Lemma digit_classes : forall d, digit d ->
  is_digit d = true /\ is_dot d = false /\ is_emark d = false /\ is_signch d = false.
Proof. intros d H. unfold digit, is_digit, is_dot, is_emark, is_signch in *. lia. Qed.

Lemma digits_head_nil : forall i A x r,
  Forall digit i -> i ++ A = x :: r -> is_digit x = false -> i = [].
Proof.
  intros [|d i] A x r Hi H Hx; [reflexivity|]. exfalso.
  cbn [app] in H. inversion H; subst. inversion Hi; subst.
  match goal with Hd : digit _ |- _ => apply digit_classes in Hd end. intuition congruence.
Qed.

Lemma frac_opt_head_nil : forall fp A x r,
  frac_opt fp -> fp ++ A = x :: r -> is_dot x = false -> fp = [].
Proof.
  intros fp A x r [->|(fd & -> & _)] H Hx; [reflexivity|]. exfalso.
  cbn [app] in H. inversion H; subst. discriminate.
Qed.

Lemma exp_opt_head_nil : forall ep A x r,
  exp_opt ep -> ep ++ A = x :: r -> is_emark x = false -> ep = [].
Proof.
  intros ep A x r [->|(m & es & ed & -> & Hm & _)] H Hx; [reflexivity|]. exfalso.
  cbn [app] in H. inversion H; subst. unfold is_emark in Hx. lia.
Qed.

Lemma digits_split_cmp : forall i i' A A',
  Forall digit i -> Forall digit i' -> head_not is_digit A -> i ++ A = i' ++ A' ->
  (i' = i /\ A' = A) \/
  (exists d r, A' = d :: r /\ digit d /\ (length A < length A')%nat).
Proof.
  induction i as [|x i IH]; intros i' A A' Hi Hi' HA H.
  - cbn [app] in H. destruct i' as [|d i']; [left; auto|]. exfalso.
    subst A. cbn in HA. inversion Hi'; subst.
    match goal with Hd : digit _ |- _ => apply digit_classes in Hd end. intuition congruence.
  - inversion Hi as [|? ? Hx Hi0]; subst. destruct i' as [|d i'].
    + right. cbn [app] in H. subst A'. exists x, (i ++ A). split; [auto|]. split; [exact Hx|].
      cbn [length]. rewrite app_length. lia.
    + cbn [app] in H. inversion H; subst. inversion Hi' as [|? ? Hd Hi0']; subst.
      destruct (IH i' A A' Hi0 Hi0' HA H2) as [(-> & ->)|Hr]; [left; auto | right; exact Hr].
Qed.

Lemma sign_cmp : forall sg pos A sg' A',
  sign_shape sg pos A -> sign_opt sg' -> sg ++ A = sg' ++ A' ->
  (sg' = sg /\ A' = A) \/
  (sg' = [] /\ exists x r, A' = x :: r /\ is_signch x = true /\ (length A < length A')%nat).
Proof.
  intros sg pos A sg' A' Hs Hs' H.
  destruct Hs as [(-> & _ & Hn)|[(-> & _)|(-> & _)]];
    destruct Hs' as [-> | [-> | ->]]; cbn [app] in H; try (left; split; [reflexivity|congruence]);
    try (subst A; cbn in Hn; discriminate); try discriminate.
  - right. split; [reflexivity|]. exists 43, A. subst A'. cbn [length]. repeat split; auto.
  - right. split; [reflexivity|]. exists 45, A. subst A'. cbn [length]. repeat split; auto.
Qed.

Lemma exp_stage : forall ep e rest ep' q,
  exp_shape ep e rest -> exp_opt ep' -> ep ++ rest = ep' ++ q ->
  (length rest <= length q)%nat.
Proof.
  intros ep e rest ep' q He He' H.
  destruct He' as [->|(m' & es' & ed' & -> & Hm' & Hes' & Hed')].
  { cbn [app] in H. subst q. rewrite app_length. lia. }
  destruct He as [(-> & _ & Hn)|(m & es & epos & ed & -> & Hm & Hes & Hed & Hr & _)].
  { exfalso. cbn [app] in H. subst rest. cbn in Hn. unfold is_emark in Hn. lia. }
  cbn [app] in H. inversion H as [[Hmm H1]]. clear H. rewrite <- !app_assoc in H1.
  destruct (sign_cmp _ _ _ _ _ Hes Hes' H1) as [(-> & H2)|(-> & x & r & H2 & Hx & Hlen)].
  - symmetry in H2.
    destruct (digits_split_cmp _ _ _ _ Hed Hed' Hr H2) as [(_ & ->)|(d & r & -> & _ & Hlen)]; lia.
  - assert (ed' = []) as ->.
    { eapply digits_head_nil; eauto.
      unfold is_signch, is_digit in *. lia. }
    cbn [app] in *. rewrite app_length in Hlen. lia.
Qed.

Lemma frac_stage : forall fp frac ep e rest fp' ep' q,
  frac_shape fp frac (ep ++ rest) -> exp_shape ep e rest -> frac_opt fp' -> exp_opt ep' ->
  fp ++ ep ++ rest = fp' ++ ep' ++ q ->
  (length rest <= length q)%nat.
Proof.
  intros fp frac ep e rest fp' ep' q Hf He Hf' He' H.
  assert (Hsuf : (length rest <= length (ep ++ rest))%nat) by (rewrite app_length; lia).
  destruct Hf' as [->|(fd' & -> & Hfd')]; destruct Hf as [(-> & _ & Hn)|(-> & Hfd & Hn)];
    cbn [app] in H.
  - eapply exp_stage; eauto.
  - assert (ep' = []) as ->. { eapply exp_opt_head_nil; eauto. }
    cbn [app] in H. subst q. cbn [length]. rewrite app_length. lia.
  - exfalso. rewrite H in Hn. cbn in Hn. discriminate.
  - inversion H as [H1]. clear H.
    destruct (digits_split_cmp _ _ _ _ Hfd Hfd' Hn H1) as [(_ & H2)|(d & r & H2 & Hd & Hlen)].
    + eapply exp_stage; eauto.
    + assert (ep' = []) as ->.
      { eapply exp_opt_head_nil; eauto. apply (digit_classes d Hd). }
      cbn [app] in *. lia.
Qed.

Lemma int_stage : forall int fp frac ep e rest i' fp' ep' q,
  Forall digit int -> head_not is_digit (fp ++ ep ++ rest) ->
  frac_shape fp frac (ep ++ rest) -> exp_shape ep e rest ->
  Forall digit i' -> frac_opt fp' -> exp_opt ep' ->
  int ++ fp ++ ep ++ rest = i' ++ fp' ++ ep' ++ q ->
  (length rest <= length q)%nat.
Proof.
  intros int fp frac ep e rest i' fp' ep' q Hi Hn Hf He Hi' Hf' He' H.
  assert (Hsuf : (length rest <= length (fp ++ ep ++ rest))%nat) by (rewrite !app_length; lia).
  destruct (digits_split_cmp _ _ _ _ Hi Hi' Hn H) as [(_ & H2)|(d & r & H2 & Hd & Hlen)].
  - symmetry in H2. eapply frac_stage; eauto.
  - assert (fp' = []) as ->.
    { eapply frac_opt_head_nil; eauto. apply (digit_classes d Hd). }
    cbn [app] in *.
    assert (ep' = []) as ->.
    { eapply exp_opt_head_nil; eauto. apply (digit_classes d Hd). }
    cbn [app] in *. lia.
Qed.

(** any prefix of [s] that is a word of the grammar leaves at least as much unconsumed as the
    lexer does *)
Theorem lex_longest : forall s p q,
  s = p ++ q -> float_prefix p -> (length (lx_rest (lex s)) <= length q)%nat.
Proof.
  intros s p q Hpq (sg' & i' & fp' & ep' & -> & Hsg' & Hi' & Hf' & He').
  destruct (lex_spec s) as (sg & fp & ep & (Hs & Hsg & Hi & Hn & Hf & He)).
  set (x := lex s) in *. clearbody x. destruct x as [pos int frac e rest].
  cbn [lx_pos lx_int lx_frac lx_exp lx_rest] in *.
  rewrite Hs in Hpq. rewrite <- !app_assoc in Hpq.
  assert (Hsuf : (length rest <= length (int ++ fp ++ ep ++ rest))%nat)
    by (rewrite !app_length; lia).
  destruct (sign_cmp _ _ _ _ _ Hsg Hsg' Hpq) as [(_ & H2)|(-> & y & r & H2 & Hy & Hlen)].
  - symmetry in H2. apply (int_stage int fp frac ep e rest i' fp' ep' q); auto.
  - assert (i' = []) as ->.
    { eapply digits_head_nil; eauto. unfold is_signch, is_digit in *. lia. }
    cbn [app] in *.
    assert (fp' = []) as ->.
    { eapply frac_opt_head_nil; eauto. unfold is_signch, is_dot in *. lia. }
    cbn [app] in *.
    assert (ep' = []) as ->.
    { eapply exp_opt_head_nil; eauto. unfold is_signch, is_emark in *. lia. }
    cbn [app] in *. lia.
Qed.

Corollary lex_longest_prefix : forall s,
  exists p, s = p ++ lx_rest (lex s) /\ float_prefix p /\
    forall p' q', s = p' ++ q' -> float_prefix p' -> (length p' <= length p)%nat.
Proof.
  intros s. destruct (lex_prefix_in_grammar s) as (p & Hs & Hp).
  exists p. split; [exact Hs|]. split; [exact Hp|].
  intros p' q' Hs' Hp'. pose proof (lex_longest s p' q' Hs' Hp') as Hl.
  pose proof (f_equal (@length Z) Hs) as L1. pose proof (f_equal (@length Z) Hs') as L2.
  rewrite app_length in L1, L2. lia.
Qed.

(** ** 11. Sign application and the combined statement *)

Lemma f_neg_flips_sign_bit : forall f v, 0 <= v < 2 * 2 ^ (fbits f - 1) ->
  let sb := 2 ^ (fbits f - 1) in
  0 <= f_neg f v < 2 * sb /\
  f_neg f v mod sb = v mod sb /\             (* exponent and mantissa fields unchanged *)
  f_neg f v / sb = 1 - v / sb /\             (* the sign bit is flipped *)
  f_neg f (f_neg f v) = v.
Proof.
  intros f v Hv sb. unfold f_neg. fold sb.
  assert (0 < sb \/ sb = 0) as [Hsb|Hsb] by (pose proof (Z.pow_nonneg 2 (fbits f - 1)); lia);
    [|lia].
  destruct (v <? sb) eqn:E.
  - assert ((v + sb <? sb) = false) as -> by lia.
    replace (v + sb) with (v + 1 * sb) by lia. rewrite Z_mod_plus_full, Z_div_plus_full by lia.
    rewrite (Z.div_small v sb) by lia. lia.
  - assert ((v - sb <? sb) = true) as -> by lia.
    replace v with ((v - sb) + 1 * sb) at 4 6 by lia.
    rewrite Z_mod_plus_full, Z_div_plus_full by lia.
    rewrite (Z.div_small (v - sb) sb) by lia. lia.
Qed.

Section Main.
Variable c : config.
Variable T : tables.
Variable BT : btables.
Variable L : limits.
Variable f : format.
Variable b : build.

(** Everything about the simple variant in one statement.  For every byte string [s] (shorter
    than 2^31 - 2 bytes for the [valid_input] part only): the lexical decomposition, the
    preconditions of the library call, the value of the literal, and the result. *)
Theorem fe_simple_main : forall s,
  let x := lex s in
  let i := ltrim_zero (lx_int x) in
  let fr := rtrim_zero (lx_frac x) in
  (exists sign_part frac_part exp_part, lex_shape s x sign_part frac_part exp_part) /\
  (exists p, s = p ++ lx_rest x /\ float_prefix p /\
     forall p' q', s = p' ++ q' -> float_prefix p' -> (length p' <= length p)%nat) /\
  (zlen s < 2 ^ 31 - 2 -> valid_input i fr (lx_exp x)) /\
  Qeq (dec_value i fr (lx_exp x)) (dec_value (lx_int x) (lx_frac x) (lx_exp x)) /\
  fe_simple c T BT L f b s =
    (v <- parse_float c T BT L f b i fr (lx_exp x) ;;
     Ok ((if lx_pos x then v else f_neg f v), lx_rest x)).
Proof.
  intros s x i fr. split; [apply lex_spec|]. split; [apply lex_longest_prefix|].
  split; [apply lex_establishes_preconditions_len|]. split; [apply trim_preserves_value|].
  apply fe_simple_eq.
Qed.

End Main.

(** ** 12. Examples on the generated data (strings as byte codes) *)

Notation simple64 := (fe_simple CFG_s TABLES BTABLES LIMITS F64 release_build).
Notation simple64c := (fe_simple CFG_s TABLES BTABLES LIMITS F64 checked_build).
Notation simple32 := (fe_simple CFG_s TABLES BTABLES LIMITS F32 release_build).
Notation fuzz64 := (fe_fuzz CFG_s TABLES BTABLES LIMITS F64 release_build).
Notation fuzz32c := (fe_fuzz CFG_s TABLES BTABLES LIMITS F32 checked_build).

(** "-1.5e3xyz" -> -1500.0 (0xC097700000000000), suffix "xyz" *)
Example ex_neg_1500 :
  simple64 [45;49;46;53;101;51;120;121;122] = Ok (0xC097700000000000, [120;121;122]) /\
  simple64c [45;49;46;53;101;51;120;121;122] = Ok (0xC097700000000000, [120;121;122]) /\
  lex [45;49;46;53;101;51;120;121;122] = mkLexed false [49] [53] 3 [120;121;122].
Proof. vm_compute. repeat split. Qed.

(** "1e99999999999" -> +inf ; "1e-99999999999" -> +0.0 ; "-1e-99999999999" -> -0.0 *)
Example ex_huge_exponent :
  simple64 [49;101;57;57;57;57;57;57;57;57;57;57;57] = Ok (0x7FF0000000000000, []) /\
  simple64c [49;101;57;57;57;57;57;57;57;57;57;57;57] = Ok (0x7FF0000000000000, []) /\
  simple64 [49;101;45;57;57;57;57;57;57;57;57;57;57;57] = Ok (0, []) /\
  simple64c [45;49;101;45;57;57;57;57;57;57;57;57;57;57;57] = Ok (0x8000000000000000, []) /\
  lx_exp (lex [49;101;57;57;57;57;57;57;57;57;57;57;57]) = 2147483647 /\
  lx_exp (lex [49;101;45;57;57;57;57;57;57;57;57;57;57;57]) = -2147483648.
Proof. vm_compute. repeat split. Qed.

(** "+.e" : everything is consumed, the value is +0.0, in both variants; "-" gives -0.0;
    "1e" and "1e+" consume the marker (and the sign): value 1.0, suffix "" ; "1e+x" -> suffix "x" *)
Example ex_degenerate :
  simple64 [43;46;101] = Ok (0, []) /\ fuzz64 [43;46;101] = Ok (0, []) /\
  simple64 [45] = Ok (0x8000000000000000, []) /\ fuzz64 [45] = Ok (0x8000000000000000, []) /\
  simple64 [49;101] = Ok (0x3FF0000000000000, []) /\
  simple64 [49;101;43] = Ok (0x3FF0000000000000, []) /\
  simple64 [49;101;43;120] = Ok (0x3FF0000000000000, [120]) /\
  simple64 [] = Ok (0, []) /\ fuzz64 [] = Ok (0, []) /\
  simple64 [120] = Ok (0, [120]) /\ fuzz64 [120] = Ok (0, [120]).
Proof. vm_compute. repeat split. Qed.

(** fuzz variant: "-inFinity!" -> -inf, suffix "!" ; "infinitx" -> +inf, suffix "initx" ;
    "-nAn!" (f32, checked build) -> 0xFFC00000, "!" ; the simple variant does not know them:
    "inf" -> +0.0 with suffix "inf" *)
Example ex_special :
  fuzz64 [45;105;110;70;105;110;105;116;121;33] = Ok (0xFFF0000000000000, [33]) /\
  fuzz64 [105;110;102;105;110;105;116;120] = Ok (0x7FF0000000000000, [105;110;105;116;120]) /\
  fuzz32c [45;110;65;110;33] = Ok (0xFFC00000, [33]) /\
  fuzz64 [78;65;78] = Ok (0x7FF8000000000000, []) /\
  simple64 [105;110;102] = Ok (0, [105;110;102]).
Proof. vm_compute. repeat split. Qed.

(** the assertions of examples/simple.rs `main` and of tests/integration_tests.rs *)
Example ex_repo_tests :
  (* "1.0e7" *)
  simple64 [49;46;48;101;55] = Ok (0x416312D000000000, []) /\
  (* "12345.67" and "12345.67 narnia" *)
  simple64 [49;50;51;52;53;46;54;55] = Ok (0x40C81CD5C28F5C29, []) /\
  simple64 [49;50;51;52;53;46;54;55;32;110;97;114;110;105;97] =
    Ok (0x40C81CD5C28F5C29, [32;110;97;114;110;105;97]) /\
  (* b"000184467440737095516150\x00\x00006" as f32 and f64 *)
  fe_fuzz CFG_s TABLES BTABLES LIMITS F32 release_build
    [48;48;48;49;56;52;52;54;55;52;52;48;55;51;55;48;57;53;53;49;54;49;53;48;0;0;48;48;54] =
    Ok (0x61200000, [0;0;48;48;54]) /\
  fuzz64 [48;48;48;49;56;52;52;54;55;52;52;48;55;51;55;48;57;53;53;49;54;49;53;48;0;0;48;48;54] =
    Ok (0x4424000000000000, [0;0;48;48;54]).
Proof. vm_compute. repeat split. Qed.

Ltac solve_digits := repeat (apply Forall_cons; [unfold digit; lia|]); apply Forall_nil.

(** the preconditions and the lexical shape on a concrete non-trivial instance: "-001.500e+03 " *)
Example ex_shape :
  let s := [45;48;48;49;46;53;48;48;101;43;48;51;32] in
  lex s = mkLexed false [48;48;49] [53;48;48] 3 [32] /\
  lex_shape s (lex s) [45] [46;53;48;48] [101;43;48;51] /\
  valid_inputb (ltrim_zero (lx_int (lex s))) (rtrim_zero (lx_frac (lex s))) (lx_exp (lex s)) = true /\
  simple64 s = Ok (0xC097700000000000, [32]).
Proof.
  cbv zeta. split; [reflexivity|]. split; [|split; vm_compute; reflexivity].
  change (lex _) with (mkLexed false [48;48;49] [53;48;48] 3 [32]).
  unfold lex_shape. cbn [lx_pos lx_int lx_frac lx_exp lx_rest].
  split; [reflexivity|]. split; [right; right; auto|].
  split; [solve_digits|]. split; [reflexivity|]. split.
  - right. split; [reflexivity|]. split; [solve_digits | reflexivity].
  - right. exists 101, [43], true, [48;51]. split; [reflexivity|]. split; [auto|].
    split; [right; left; auto|]. split; [solve_digits|]. split; reflexivity.
Qed.

(** `F::from_u64(0)` is +0.0 (all bits zero) in both formats *)
Example from_u64_zero : f_from_u64 F32 0 = 0 /\ f_from_u64 F64 0 = 0.
Proof. vm_compute. split; reflexivity. Qed.

(** the same answers in all 8 crate configurations x 2 build modes x 2 variants *)
Definition same_result (r : outcome (Z * list Z)) (v : Z) (suffix : list Z) : bool :=
  match r with
  | Ok (v', s') => (v' =? v) && (if list_eq_dec Z.eq_dec s' suffix then true else false)
  | _ => false
  end.
Example ex_all_configs :
  forallb (fun cfg => forallb (fun bd =>
    same_result (fe_simple cfg TABLES BTABLES LIMITS F64 bd [45;49;46;53;101;51;120;121;122])
      0xC097700000000000 [120;121;122] &&
    same_result (fe_fuzz cfg TABLES BTABLES LIMITS F64 bd [45;49;46;53;101;51;120;121;122])
      0xC097700000000000 [120;121;122] &&
    same_result (fe_fuzz cfg TABLES BTABLES LIMITS F32 bd [45;49;46;53;101;51;120;121;122])
      0xC4BB8000 [120;121;122] &&
    same_result (fe_simple cfg TABLES BTABLES LIMITS F64 bd [49;101;57;57;57;57;57;57;57;57;57;57;57])
      0x7FF0000000000000 [] &&
    same_result (fe_fuzz cfg TABLES BTABLES LIMITS F32 bd [45;105;110;70;105;110;105;116;121;33])
      0xFF800000 [33] &&
    same_result (fe_fuzz cfg TABLES BTABLES LIMITS F32 bd [110;97;110])
      0x7FC00000 [])
    [release_build; checked_build]) ALL_CONFIGS = true.
Proof. vm_compute. reflexivity. Qed.

(** ** Assumptions *)
Print Assumptions consume_digits_spec.
Print Assumptions parse_sign_spec.
Print Assumptions ltrim_zero_spec.
Print Assumptions rtrim_zero_value.
Print Assumptions parse_exponent_saturates.
Print Assumptions lex_spec.
Print Assumptions lex_unique.
Print Assumptions lex_decompose.
Print Assumptions lex_establishes_preconditions.
Print Assumptions trim_preserves_value.
Print Assumptions ci_starts_with_spec.
Print Assumptions ci_starts_with_variants.
Print Assumptions fe_fuzz_nan.
Print Assumptions fe_fuzz_infinity.
Print Assumptions fe_fuzz_inf.
Print Assumptions fe_numeric_empty_match.
Print Assumptions front_end_total.
Print Assumptions lex_longest_prefix.
Print Assumptions fe_simple_main.
