(** * gen/SrcBigint.v = model/Bigint.v : `Bigint::pow` of src/bigint.rs
    (joins proofs/SrcEqBigintA.v, which has `shl`, and proofs/SrcEqBigintB.v, which has `pow`). *)
From Coq Require Import ZArith List Bool Lia Znumtheory.
From Coq Require Import ZifyBool.
From ML Require Import base.RustSem model.Fmt model.Vec model.Number model.Bigint model.SrcLib.
From ML Require Import gen.Src gen.SrcBigint gen.Consts gen.Tables gen.PowDump.
From ML Require Import proofs.LimbVal proofs.BigintFacts1 proofs.SrcEqBase.
From ML Require proofs.SrcEqBigintA proofs.SrcEqBigintB.
Import ListNotations.
Open Scope Z_scope.
Open Scope rust_scope.
Local Opaque Z.pow.
Arguments Z.pow : simpl never.

(** `base % k == 0` : the source computes the remainder of a `u32` ([x mod k]), the model
    writes [Z.rem]; both vanish exactly when [k] divides [x], whatever the sign of [x] *)
Lemma rem_mod_eqb0 a k : k <> 0 -> (Z.rem a k =? 0) = (a mod k =? 0).
Proof.
  intros Hk. apply eq_true_iff_eq. rewrite !Z.eqb_eq.
  rewrite Z.rem_divide, Z.mod_divide by exact Hk. reflexivity.
Qed.

(** `Bigint::pow(base, exp)`, general form: the hypotheses of [rs_pow_eq] are needed only when 5
    divides [base] (and its table / length part only in non-compact builds); 64-bit limbs for
    [rs_shl_eq]; nothing on [base] *)
Theorem rs_bigint_pow_eq_gen : forall c T L b v base e,
  LIMB_BITS L = 64 ->
  (base mod 5 = 0 ->
     limbs_ok (vl v) /\ 0 <= e < 2 ^ 32 /\
     (compact c = false ->
        SrcEqBigintB.pow_tables_ok T /\ 0 < LARGE_POW5_STEP T /\
        zlen (vl v) + (e / LARGE_POW5_STEP T) * (zlen (LARGE_POW5 T) + 1) < 2 ^ 64)) ->
  rs_bigint_pow c T L b v base e = bigint_pow c T L b v base e.
Proof.
  intros c T L b v base e HL H5.
  unfold rs_bigint_pow, bigint_pow, obind. cbv zeta.
  apply bind_ext2; [reflexivity|]. intros _.
  unfold u32_rem. change (5 =? 0) with false. change (2 =? 0) with false. cbn [bind].
  rewrite !rem_mod_eqb0 by discriminate.
  assert (Hk : forall v1 : vec,
    (if base mod 2 =? 0
     then t4 <- rs_shl c b v1 (as_usize e) ;;
          match t4 with Some v2 => Ok (Some v2) | None => Ok None end
     else Ok (Some v1))
    = (if base mod 2 =? 0 then shl c L b v1 (as_usize e) else Ok (Some v1))).
  { intros v1. destruct (base mod 2 =? 0); [|reflexivity].
    rewrite (SrcEqBigintA.rs_shl_eq c L) by exact HL. apply SrcEqBigintA.bind_option_eta. }
  destruct (base mod 5 =? 0) eqn:E5.
  - destruct (H5 ltac:(lia)) as [Hv [He Hnc]].
    rewrite (proj1 (SrcEqBigintB.rs_pow_eq_facts c T L b v e Hnc Hv He)).
    apply bind_ext2; [reflexivity|]. intros [v1|]; [apply Hk|reflexivity].
  - cbn [bind]. apply Hk.
Qed.

Theorem rs_bigint_pow_eq : forall c T L b v base e,
  LIMB_BITS L = 64 ->
  SrcEqBigintB.pow_tables_ok T -> 0 < LARGE_POW5_STEP T ->
  limbs_ok (vl v) -> 0 <= e < 2 ^ 32 ->
  zlen (vl v) + (e / LARGE_POW5_STEP T) * (zlen (LARGE_POW5 T) + 1) < 2 ^ 64 ->
  rs_bigint_pow c T L b v base e = bigint_pow c T L b v base e.
Proof. intros. apply rs_bigint_pow_eq_gen; auto. Qed.

(** `pow(2, exp)`: no hypothesis on the vector or the exponent *)
Corollary rs_bigint_pow_eq_2 : forall c T L b v e,
  LIMB_BITS L = 64 -> rs_bigint_pow c T L b v 2 e = bigint_pow c T L b v 2 e.
Proof. intros. apply rs_bigint_pow_eq_gen; [assumption|]. intros H5. discriminate H5. Qed.

(** with the crate's tables and limits *)
Corollary rs_bigint_pow_eq_TABLES : forall c b v base e,
  limbs_ok (vl v) -> 0 <= e < 2 ^ 32 -> zlen (vl v) < 2 ^ 63 ->
  rs_bigint_pow c TABLES LIMITS b v base e = bigint_pow c TABLES LIMITS b v base e.
Proof.
  intros c b v base e Hv He Hlen. apply rs_bigint_pow_eq; try assumption.
  - reflexivity.
  - apply SrcEqBigintB.pow_tables_ok_TABLES.
  - reflexivity.
  - change (LARGE_POW5_STEP TABLES) with 135. change (zlen (LARGE_POW5 TABLES) + 1) with 6.
    rewrite pow2_32 in He. rewrite pow2_63 in Hlen. rewrite pow2_64. lia.
Qed.

Example rs_bigint_pow_example :
  (match rs_bigint_pow CFG_s TABLES LIMITS checked_build (mkVec [3] 62) 10 300 with
   | Ok (Some v) => (lval (vl v) =? 3 * 10 ^ 300) && (vcap v =? 62)
   | _ => false
   end) = true /\
  rs_bigint_pow CFG_s TABLES LIMITS checked_build (mkVec [3] 62) 2 4000 = Ok None /\
  rs_bigint_pow CFG_s TABLES LIMITS checked_build (mkVec [3] 62) 3 1 = Panic PkAssert /\
  rs_bigint_pow CFG_s TABLES LIMITS release_build (mkVec [3] 62) 3 1 = Ok (Some (mkVec [3] 62)).
Proof. vm_compute. auto. Qed.

Example hyps_bigint_pow :
  LIMB_BITS LIMITS = 64 /\ SrcEqBigintB.pow_tables_ok TABLES /\ 0 < LARGE_POW5_STEP TABLES /\
  limbs_ok (vl (mkVec [3] 62)) /\ 0 <= 300 < 2 ^ 32 /\
  zlen (vl (mkVec [3] 62)) + (300 / LARGE_POW5_STEP TABLES) * (zlen (LARGE_POW5 TABLES) + 1) < 2 ^ 64.
Proof.
  split; [reflexivity|]. split; [apply SrcEqBigintB.pow_tables_ok_TABLES|]. split; [reflexivity|].
  split; [apply limbs_ok_forallb; reflexivity|]. split; [split; [lia|reflexivity]|reflexivity].
Qed.

Print Assumptions rs_bigint_pow_eq_gen.
Print Assumptions rs_bigint_pow_eq.
Print Assumptions rs_bigint_pow_eq_2.
Print Assumptions rs_bigint_pow_eq_TABLES.
