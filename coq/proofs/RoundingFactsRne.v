(** * RoundingFactsRne: the rounding primitive against the integer-only specification
    [rne_bits] of spec/RneZ.v (C18, no real numbers).

    If the exact rational [n/d] equals [mant * 2^(exp - EXPONENT_BIAS)], the word obtained by
    packing the fields returned by [round] (nearest-even callback) is the correctly rounded
    encoding of [n/d] in the sense of [rne_bits]. *)
From Coq Require Import ZArith List Bool Lia Znumtheory.
From Coq Require Import ZifyBool.
From ML Require Import base.RustSem model.Fmt model.Mask model.Num model.Rounding gen.Consts
  spec.RneZ proofs.RoundingFactsZ.
Open Scope Z_scope.

(** shifting with the nearest-even rule is "nearest integer, ties to even" of the quotient *)
Lemma nearest_even_of_shift N D mant s :
  0 < D -> 0 <= s -> N * 2 ^ s = mant * D ->
  let M := rnd_ne mant s in
  2 * Z.abs (N - M * D) <= D /\ (2 * Z.abs (N - M * D) = D -> Z.even M = true).
Proof.
  intros HD Hs HN M. pose proof (pow2_pos s Hs) as HP.
  set (P := 2 ^ s) in *. set (q := mant / P). set (r := mant mod P).
  assert (Hmant : mant = P * q + r) by (apply Z.div_mod; lia).
  assert (Hr : 0 <= r < P) by (apply Z.mod_pos_bound; lia).
  set (u := r - (M - q) * P).
  assert (Ht : (N - M * D) * P = D * u).
  { unfold u. rewrite Z.mul_sub_distr_r. rewrite HN, Hmant. ring. }
  assert (Hu : 2 * Z.abs u <= P /\ (2 * Z.abs u = P -> Z.even M = true)).
  { unfold u, M, rnd_ne. cbv zeta. fold P q r.
    destruct ((2 * r >? P) || ((2 * r =? P) && Z.odd q)) eqn:Eup.
    - replace (q + 1 - q) with 1 by lia. split; [lia|]. intros Htie.
      replace (2 * r >? P) with false in Eup by lia.
      replace (2 * r =? P) with true in Eup by lia. cbn [orb andb] in Eup.
      replace (q + 1) with (Z.succ q) by lia. rewrite Z.even_succ. exact Eup.
    - replace (q - q) with 0 by lia. split; [lia|]. intros Htie.
      replace (2 * r >? P) with false in Eup by lia.
      replace (2 * r =? P) with true in Eup by lia. cbn [orb andb] in Eup.
      rewrite <- Z.negb_odd, Eup. reflexivity. }
  destruct Hu as [Hu1 Hu2].
  assert (Habs : Z.abs (N - M * D) * P = D * Z.abs u).
  { rewrite <- (Z.abs_eq P) at 1 by lia. rewrite <- Z.abs_mul, Ht, Z.abs_mul.
    rewrite (Z.abs_eq D) by lia. reflexivity. }
  set (at_ := Z.abs (N - M * D)) in *. set (au := Z.abs u) in *.
  assert (0 <= at_) by apply Z.abs_nonneg. assert (0 <= au) by apply Z.abs_nonneg.
  split.
  - apply (Z.mul_le_mono_pos_r _ _ P HP).
    replace (2 * at_ * P) with (D * (2 * au)) by (rewrite <- Z.mul_assoc, Habs; ring).
    apply Z.mul_le_mono_nonneg_l; lia.
  - intros Htie. apply Hu2.
    apply (Z.mul_reg_l _ _ D); [lia|].
    replace (D * (2 * au)) with (2 * at_ * P) by (rewrite <- Z.mul_assoc, Habs; ring).
    rewrite Htie. reflexivity.
Qed.

Section S.
Variable f : format.
Hypothesis Hf : rfmt_ok f = true.
Let ms := MANTISSA_SIZE f.
Let B := EXPONENT_BIAS f.

(** [n/d = mant * 2^(exp - B)], without fractions *)
Definition same_value (n d mant exp : Z) : Prop :=
  n * 2 ^ (Z.max 0 (B - exp)) = mant * 2 ^ (Z.max 0 (exp - B)) * d.

Lemma scaled_rel n d mant exp s :
  0 < d -> 1 <= s -> same_value n d mant exp ->
  let E := exp - B + s in
  sc_num n E * 2 ^ s = mant * sc_den d E /\ 0 < sc_den d E.
Proof.
  intros Hd Hs Hval E. unfold same_value in Hval. unfold sc_num, sc_den.
  destruct (0 <=? E) eqn:HE.
  - set (a := Z.max 0 (B - exp)) in *. set (c := Z.max 0 (exp - B)) in *.
    pose proof (pow2_pos a ltac:(lia)) as Ha. pose proof (pow2_pos E ltac:(lia)) as HpE.
    split; [|lia].
    assert (Hp : 2 ^ E * 2 ^ a = 2 ^ c * 2 ^ s).
    { rewrite <- !pow2_split by lia. f_equal. lia. }
    apply (Z.mul_reg_r _ _ (2 ^ a)); [lia|].
    replace (n * 2 ^ s * 2 ^ a) with ((n * 2 ^ a) * 2 ^ s) by ring. rewrite Hval.
    replace (mant * (d * 2 ^ E) * 2 ^ a) with (mant * d * (2 ^ E * 2 ^ a)) by ring.
    rewrite Hp. ring.
  - split; [|lia].
    replace (Z.max 0 (exp - B)) with 0 in Hval by lia.
    replace (Z.max 0 (B - exp)) with (B - exp) in Hval by lia.
    rewrite <- Z.mul_assoc, <- pow2_split by lia.
    replace (- E + s) with (B - exp) by lia. rewrite Hval. change (2 ^ 0) with 1. ring.
Qed.

Lemma value_lt_emax n d mant exp :
  0 < d -> 0 <= mant < 2 ^ 64 -> same_value n d mant exp ->
  64 + exp - B <= emax f -> n < 2 ^ emax f * d.
Proof.
  intros Hd Hm Hval He. unfold same_value in Hval.
  pose proof (emax_ge_2 f Hf) as Hemax.
  set (a := Z.max 0 (B - exp)) in *. set (c := Z.max 0 (exp - B)) in *.
  pose proof (pow2_pos a ltac:(lia)) as Ha. pose proof (pow2_pos c ltac:(lia)) as Hc.
  assert (H1 : 2 ^ 64 * 2 ^ c <= 2 ^ emax f * 2 ^ a).
  { rewrite <- !pow2_split by lia. apply pow2_le. lia. }
  apply (Z.mul_lt_mono_pos_r (2 ^ a)); [exact Ha|]. rewrite Hval.
  apply Z.lt_le_trans with (2 ^ 64 * 2 ^ c * d).
  - apply Z.mul_lt_mono_pos_r; [lia|]. apply Z.mul_lt_mono_pos_r; [exact Hc|lia].
  - replace (2 ^ emax f * d * 2 ^ a) with (2 ^ emax f * 2 ^ a * d) by ring.
    apply Z.mul_le_mono_nonneg_r; [lia|exact H1].
Qed.

Lemma value_ge_emax n d mant exp :
  0 < d -> 2 ^ 63 <= mant -> same_value n d mant exp ->
  emax f <= 63 + exp - B -> 2 ^ emax f * d <= n.
Proof.
  intros Hd Hm Hval He. unfold same_value in Hval.
  pose proof (emax_ge_2 f Hf) as Hemax.
  set (a := Z.max 0 (B - exp)) in *. set (c := Z.max 0 (exp - B)) in *.
  pose proof (pow2_pos a ltac:(lia)) as Ha. pose proof (pow2_pos c ltac:(lia)) as Hc.
  assert (H1 : 2 ^ emax f * 2 ^ a <= 2 ^ 63 * 2 ^ c).
  { rewrite <- !pow2_split by lia. apply pow2_le. lia. }
  apply (Z.mul_le_mono_pos_r _ _ (2 ^ a)); [exact Ha|]. rewrite Hval.
  apply Z.le_trans with (2 ^ 63 * 2 ^ c * d).
  - replace (2 ^ emax f * d * 2 ^ a) with (2 ^ emax f * 2 ^ a * d) by ring.
    apply Z.mul_le_mono_nonneg_r; [lia|exact H1].
  - apply Z.mul_le_mono_nonneg_r; [lia|]. apply Z.mul_le_mono_nonneg_r; lia.
Qed.

Lemma value_pos n d mant exp :
  0 < d -> 0 < mant -> same_value n d mant exp -> 0 < n.
Proof.
  intros Hd Hm Hval. unfold same_value in Hval.
  set (a := Z.max 0 (B - exp)) in *. set (c := Z.max 0 (exp - B)) in *.
  pose proof (pow2_pos a ltac:(lia)) as Ha. pose proof (pow2_pos c ltac:(lia)) as Hc.
  assert (0 < mant * 2 ^ c * d) by (apply Z.mul_pos_pos; [apply Z.mul_pos_pos|]; lia).
  apply (Z.mul_pos_cancel_r _ (2 ^ a)); [exact Ha|]. rewrite Hval. assumption.
Qed.

(** the canonical exponent: [E = exp - B + s] where [s >= 63 - ms] bits are shifted out, and
    either [E = femin] or exactly [63 - ms] bits are *)
Lemma canon_of_shift n d mant exp s :
  0 < d -> 2 ^ 63 <= mant < 2 ^ 64 -> same_value n d mant exp ->
  63 - ms <= s -> 1 <= s ->
  femin f <= exp - B + s ->
  (exp - B + s = femin f \/ s = 63 - ms) ->
  canon_exp f n d (exp - B + s).
Proof.
  intros Hd Hm Hval Hs Hs1 Hmin Hcase.
  destruct (rfmt_ok_props f Hf) as [Pms Pew Pbits Phid Pcarry Pmmask Pinf Pbias Pemask Pden Pprec].
  fold ms in Pms.
  destruct (scaled_rel n d mant exp s Hd Hs1 Hval) as [Hrel HD]. cbv zeta in Hrel, HD.
  set (E := exp - B + s) in *. set (N := sc_num n E) in *. set (D := sc_den d E) in *.
  pose proof (pow2_pos s ltac:(lia)) as HP.
  unfold canon_exp. fold N D. unfold prec. fold ms.
  split; [exact Hmin|]. split.
  - apply (Z.mul_lt_mono_pos_r (2 ^ s)); [exact HP|]. rewrite Hrel.
    apply Z.lt_le_trans with (2 ^ 64 * D).
    + apply Z.mul_lt_mono_pos_r; lia.
    + replace (2 ^ (ms + 1) * D * 2 ^ s) with (2 ^ (ms + 1) * 2 ^ s * D) by ring.
      apply Z.mul_le_mono_nonneg_r; [lia|]. rewrite <- pow2_split by lia. apply pow2_le. lia.
  - destruct Hcase as [Hc|Hc]; [left; exact Hc|right].
    apply (Z.mul_le_mono_pos_r _ _ (2 ^ s)); [exact HP|]. rewrite Hrel.
    replace (2 ^ (ms + 1 - 1) * D * 2 ^ s) with (2 ^ (ms + 1 - 1) * 2 ^ s * D) by ring.
    apply Z.mul_le_mono_nonneg_r; [lia|]. rewrite <- pow2_split by lia.
    replace (ms + 1 - 1 + s) with 63 by lia. lia.
Qed.

(** Main theorem (integers only). *)
Theorem round_nearest_rne_bits b mant exp n d :
  2 ^ 63 <= mant < 2 ^ 64 -> - 63 <= exp <= 2 ^ 30 ->
  0 < d -> same_value n d mant exp ->
  exists r w,
    round f b (mkExt mant exp) (fun fp s => round_nearest_tie_even b fp s cb_nearest_even) = Ok r /\
    extended_to_float f b r = Ok w /\
    rne_bits f n d w.
Proof.
  intros Hm He Hd Hval.
  destruct (round_ne_packed_Z f Hf b mant exp Hm He) as (Hr & Hw & _).
  eexists. eexists. split; [exact Hr|]. split; [exact Hw|].
  destruct (rfmt_ok_props f Hf) as [Pms Pew Pbits Phid Pcarry Pmmask Pinf Pbias Pemask Pden Pprec].
  pose proof (emax_ge_2 f Hf) as Hemax. pose proof (inf_power_emax f Hf) as Hinf.
  pose proof (femin_bias f Hf) as Hfemin. fold B in Hfemin, Pbias. fold ms in Pms, Pbias.
  pose proof (pow2_pos ms ltac:(lia)) as Hpos.
  pose proof (pow2_succ ms ltac:(lia)) as Hsucc.
  pose proof (value_pos n d mant exp Hd ltac:(lia) Hval) as Hn.
  unfold rne_bits. right.
  unfold round_spec, pack_fields. cbv zeta. fold ms. set (sh := 63 - ms).
  destruct (exp <=? - sh) eqn:Esub.
  - (* subnormal branch *)
    right. split; [exact Hn|]. split; [apply (value_lt_emax n d mant exp Hd ltac:(lia) Hval); lia|].
    set (s := 1 - exp). set (M := rnd_ne mant s).
    assert (Hs : 1 <= s <= 64) by (unfold s; lia).
    assert (HE : exp - B + s = femin f) by (unfold s; lia).
    exists M, (exp - B + s).
    split; [apply (canon_of_shift n d mant exp s Hd Hm Hval); lia|].
    destruct (scaled_rel n d mant exp s Hd ltac:(lia) Hval) as [Hrel HD]. cbv zeta in Hrel, HD.
    split; [apply nearest_even_of_shift; [exact HD|lia|exact Hrel]|].
    pose proof (rnd_ne_bounds mant s ltac:(lia)) as Hg1. fold M in Hg1.
    pose proof (div_pow2_lt mant s ltac:(lia) ltac:(lia)) as Hq.
    pose proof (pow2_le (64 - s) ms ltac:(unfold s; lia)) as Hle.
    cbn [Num.mant Num.exp]. unfold encode. fold ms.
    destruct (2 ^ ms <=? M) eqn:E.
    + assert (HM : M = 2 ^ ms) by lia. rewrite HM.
      replace (2 ^ ms <? 2 ^ ms) with false by lia.
      rewrite Z.mul_1_l, Z.lor_diag. replace (exp - B + s - femin f + 1) with 1 by lia. lia.
    + replace (M <? 2 ^ ms) with true by lia. rewrite Z.mul_0_l, Z.lor_0_r. reflexivity.
  - (* normal branch *)
    set (M := rnd_ne mant sh).
    assert (Hs : 1 <= sh <= 64) by lia.
    assert (Hg1 : 2 ^ ms <= M <= 2 ^ (ms + 1)).
    { pose proof (rnd_ne_bounds mant sh ltac:(lia)) as Hg1. fold M in Hg1.
      pose proof (div_pow2_lt mant sh ltac:(lia) ltac:(lia)) as Hq.
      replace (64 - sh) with (ms + 1) in Hq by lia.
      assert (2 ^ ms <= mant / 2 ^ sh).
      { apply Z.div_le_lower_bound; [apply pow2_pos; lia|].
        rewrite <- pow2_split by lia. replace (sh + ms) with 63 by lia. lia. }
      lia. }
    destruct (INFINITE_POWER f <=? exp + sh) eqn:Eov.
    + (* overflow by the exponent *)
      left. split; [exact Hn|]. split; [apply (value_ge_emax n d mant exp Hd ltac:(lia) Hval); lia|].
      assert (Hres : (if INFINITE_POWER f <=? (if M =? 2 ^ (ms + 1) then exp + sh + 1 else exp + sh)
                      then mkExt 0 (INFINITE_POWER f)
                      else mkExt ((if M =? 2 ^ (ms + 1) then 2 ^ ms else M) - 2 ^ ms)
                                 (if M =? 2 ^ (ms + 1) then exp + sh + 1 else exp + sh))
                     = mkExt 0 (INFINITE_POWER f)).
      { destruct (M =? 2 ^ (ms + 1)).
        - replace (INFINITE_POWER f <=? exp + sh + 1) with true by lia. reflexivity.
        - rewrite Eov. reflexivity. }
      rewrite Hres. cbn [Num.mant Num.exp]. rewrite Z.lor_0_l. unfold inf_bits. fold ms.
      rewrite Pinf. reflexivity.
    + right. split; [exact Hn|]. split; [apply (value_lt_emax n d mant exp Hd ltac:(lia) Hval); lia|].
      exists M, (exp - B + sh).
      split; [apply (canon_of_shift n d mant exp sh Hd Hm Hval); lia|].
      destruct (scaled_rel n d mant exp sh Hd ltac:(lia) Hval) as [Hrel HD]. cbv zeta in Hrel, HD.
      split; [apply nearest_even_of_shift; [exact HD|lia|exact Hrel]|].
      unfold encode. fold ms. replace (M <? 2 ^ ms) with false by lia.
      replace (exp - B + sh - femin f + 1) with (exp + sh) by lia.
      destruct (M =? 2 ^ (ms + 1)) eqn:Ec.
      * assert (HM : M = 2 ^ (ms + 1)) by lia. rewrite HM.
        destruct (INFINITE_POWER f <=? exp + sh + 1) eqn:Ei; cbn [Num.mant Num.exp].
        -- rewrite Z.lor_0_l. assert (INFINITE_POWER f = exp + sh + 1) by lia. lia.
        -- replace (2 ^ ms - 2 ^ ms) with 0 by lia. rewrite Z.lor_0_l. lia.
      * rewrite Eov. cbn [Num.mant Num.exp].
        rewrite lor_low_high by lia. ring.
Qed.

End S.

Corollary round_nearest_rne_bits_F64 b mant exp n d :
  2 ^ 63 <= mant < 2 ^ 64 -> - 63 <= exp <= 2100 -> 0 < d -> same_value F64 n d mant exp ->
  exists r w,
    round F64 b (mkExt mant exp) (fun fp s => round_nearest_tie_even b fp s cb_nearest_even) = Ok r /\
    extended_to_float F64 b r = Ok w /\ rne_bits F64 n d w.
Proof.
  intros Hm He. apply (round_nearest_rne_bits F64 rfmt_ok_F64); [exact Hm|].
  assert (2100 <= 2 ^ 30) by (vm_compute; discriminate). lia.
Qed.

Corollary round_nearest_rne_bits_F32 b mant exp n d :
  2 ^ 63 <= mant < 2 ^ 64 -> - 63 <= exp <= 320 -> 0 < d -> same_value F32 n d mant exp ->
  exists r w,
    round F32 b (mkExt mant exp) (fun fp s => round_nearest_tie_even b fp s cb_nearest_even) = Ok r /\
    extended_to_float F32 b r = Ok w /\ rne_bits F32 n d w.
Proof.
  intros Hm He. apply (round_nearest_rne_bits F32 rfmt_ok_F32); [exact Hm|].
  assert (320 <= 2 ^ 30) by (vm_compute; discriminate). lia.
Qed.

(** the hypotheses are satisfiable: (2^64 - 1) * 2^(-11 - 1075) = (2^64 - 1) / 2^1086 *)
Example same_value_ex : same_value F64 (2 ^ 64 - 1) (2 ^ 1086) (2 ^ 64 - 1) (-11).
Proof. vm_compute. reflexivity. Qed.

Print Assumptions round_nearest_rne_bits.
