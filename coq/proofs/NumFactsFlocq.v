(** * NumFactsFlocq (C17, bonus part (d)): the model's decoder [sf_of_bits] is Flocq's own IEEE-754
    decoder ([IEEE754.Bits.binary_float_of_bits]), and the decoded (mantissa, exponent) pair of
    proofs/NumFacts.v denotes the real number Flocq assigns to the bit pattern. *)
From Coq Require Import ZArith Reals List Bool Lia Lra.
From Coq Require Import Floats.SpecFloat.
From Flocq Require Import Core.Core IEEE754.Binary IEEE754.Bits.
From ML Require Import base.RustSem model.Fmt model.Num model.FloatOps gen.Consts proofs.NumFacts.
Open Scope Z_scope.

Lemma Zeq_bool_eqb a b : Zeq_bool a b = (a =? b).
Proof.
  destruct (Z.eqb_spec a b) as [E|E].
  - apply Zeq_is_eq_bool. exact E.
  - destruct (Zeq_bool a b) eqn:H; [|reflexivity].
    exfalso. apply E. apply Zeq_is_eq_bool. exact H.
Qed.

Section Generic.
Variable f : format.
Hypothesis OK : fmt_ok f = true.

Local Notation ms := (MANTISSA_SIZE f).
Local Notation ew := (ewidth f).

(** *** Flocq's decoder, before the validity proof is attached, is the model's decoder
    (for *every* pattern of the right width, NaN included: [FF2SF] forgets the payload) *)
Theorem flocq_decoder_agrees x :
  0 <= x < 2 ^ fbits f ->
  FF2SF (binary_float_of_bits_aux (MANTISSA_SIZE f) (ewidth f) x) = sf_of_bits f x.
Proof.
  intros Hx. pose proof (frac_field_range f OK x) as HF.
  pose proof (ms_pow_pos f OK) as MP.
  pose proof (sign_bit_negb f OK x Hx) as SB.
  assert (SG : Zle_bool (2 ^ ms * 2 ^ ew) x = sign_bit f x).
  { unfold sign_bit. rewrite (sign_pow_split f OK), (Z.mul_comm (2 ^ ew)). reflexivity. }
  unfold binary_float_of_bits_aux, split_bits, sf_of_bits. cbv zeta.
  change (SpecFloat.emin (ms + 1) (2 ^ (ew - 1))) with (femin f).
  rewrite SG, SB, !Zeq_bool_eqb.
  fold (frac_field f x) in *. fold (exp_field f x) in *.
  destruct (exp_field f x =? 0).
  - destruct (frac_field f x) as [|p|p]; try reflexivity. lia.
  - destruct (exp_field f x =? 2 ^ ew - 1).
    + destruct (frac_field f x) as [|p|p]; try reflexivity.
    + destruct (frac_field f x + 2 ^ ms) as [|p|p]; reflexivity.
Qed.

(** *** the real number denoted by a finite pattern is [(+-m) * 2^e] with the pair returned by
    `mantissa()` / `exponent()` *)
Theorem finite_real_value x :
  0 <= x < 2 ^ fbits f -> is_finite_bits f x = true ->
  BinarySingleNaN.SF2R radix2 (sf_of_bits f x) =
    F2R (Float radix2 (cond_Zopp (sign_bit f x) (dec_mant f x)) (dec_exp f x)).
Proof.
  intros Hx Fin. pose proof (dec_mant_range f OK x) as HM.
  rewrite (sf_of_bits_decode f OK x Hx). unfold sf_decode. cbv zeta.
  unfold is_finite_bits in Fin. apply negb_true_iff in Fin. rewrite Fin.
  destruct (dec_mant f x =? 0) eqn:M0.
  - apply Z.eqb_eq in M0. rewrite M0. cbn [BinarySingleNaN.SF2R].
    unfold F2R. cbn [Fnum Fexp]. destruct (sign_bit f x); cbn [cond_Zopp Z.opp]; ring.
  - apply Z.eqb_neq in M0. cbn [BinarySingleNaN.SF2R]. rewrite Z2Pos.id by lia. reflexivity.
Qed.

(** infinities and NaNs carry the conventional real 0 *)
Theorem nonfinite_real_value x :
  0 <= x < 2 ^ fbits f -> is_finite_bits f x = false ->
  BinarySingleNaN.SF2R radix2 (sf_of_bits f x) = 0%R.
Proof.
  intros Hx Fin. rewrite (sf_of_bits_decode f OK x Hx). unfold sf_decode. cbv zeta.
  unfold is_finite_bits in Fin. apply negb_false_iff in Fin. rewrite Fin.
  destruct (frac_field f x =? 0); reflexivity.
Qed.

(** *** [sval] is the magnitude in units of the smallest subnormal *)
Theorem sval_real x :
  IZR (sval f x) =
    (F2R (Float radix2 (dec_mant f x) (dec_exp f x)) * bpow radix2 (- DENORMAL_EXPONENT f))%R.
Proof.
  pose proof (dec_exp_range f OK x) as HE.
  unfold sval, F2R. cbn [Fnum Fexp]. rewrite mult_IZR.
  change 2 with (radix_val radix2) at 1. rewrite IZR_Zpower by lia.
  rewrite Rmult_assoc, <- bpow_plus. reflexivity.
Qed.

(** hence, on sign-clear patterns, the integer order of the patterns is the real order of the
    values (item 9 over the reals; for the +infinity pattern the "value" is 2^emax) *)
Theorem bits_order_real x y :
  0 <= x < 2 ^ (fbits f - 1) -> 0 <= y < 2 ^ (fbits f - 1) ->
  (x <= y <->
   (F2R (Float radix2 (dec_mant f x) (dec_exp f x)) <=
    F2R (Float radix2 (dec_mant f y) (dec_exp f y)))%R).
Proof.
  intros Hx Hy. destruct (bits_order f OK x y Hx Hy) as [A _]. rewrite A.
  pose proof (bpow_gt_0 radix2 (- DENORMAL_EXPONENT f)) as P.
  split; intros H.
  - apply IZR_le in H. rewrite !sval_real in H. apply Rmult_le_reg_r in H; assumption.
  - apply le_IZR. rewrite !sval_real. apply Rmult_le_compat_r; [lra|assumption].
Qed.

End Generic.

(** `bh` is `b` plus half a unit in the last place, over the reals *)
Theorem bh_real m e :
  F2R (Float radix2 (2 * m + 1) (e - 1)) =
  (F2R (Float radix2 m e) + bpow radix2 (e - 1))%R.
Proof.
  unfold F2R. cbn [Fnum Fexp]. rewrite plus_IZR, mult_IZR.
  replace e with (1 + (e - 1)) at 2 by ring. rewrite bpow_plus.
  change (bpow radix2 1) with 2%R. ring.
Qed.

(** *** Instances: Flocq's `b32_of_bits` / `b64_of_bits` *)

Theorem f64_flocq_of_bits x :
  0 <= x < 2 ^ 64 -> Binary.B2SF 53 1024 (b64_of_bits x) = sf_of_bits F64 x.
Proof.
  intros Hx. unfold b64_of_bits, binary_float_of_bits. cbv zeta. rewrite B2SF_FF2B.
  exact (flocq_decoder_agrees F64 F64_ok x Hx).
Qed.

Theorem f32_flocq_of_bits x :
  0 <= x < 2 ^ 32 -> Binary.B2SF 24 128 (b32_of_bits x) = sf_of_bits F32 x.
Proof.
  intros Hx. unfold b32_of_bits, binary_float_of_bits. cbv zeta. rewrite B2SF_FF2B.
  exact (flocq_decoder_agrees F32 F32_ok x Hx).
Qed.

(** the real value of Flocq's binary64 / binary32 datum for a finite pattern *)
Theorem f64_flocq_real_value x :
  0 <= x < 2 ^ 64 -> is_finite_bits F64 x = true ->
  Binary.B2R 53 1024 (b64_of_bits x) =
    F2R (Float radix2 (cond_Zopp (sign_bit F64 x) (dec_mant F64 x)) (dec_exp F64 x)).
Proof.
  intros Hx Fin. rewrite <- (finite_real_value F64 F64_ok x Hx Fin).
  rewrite <- (flocq_decoder_agrees F64 F64_ok x Hx), SF2R_FF2SF.
  unfold b64_of_bits, binary_float_of_bits. cbv zeta. apply B2R_FF2B.
Qed.

Theorem f32_flocq_real_value x :
  0 <= x < 2 ^ 32 -> is_finite_bits F32 x = true ->
  Binary.B2R 24 128 (b32_of_bits x) =
    F2R (Float radix2 (cond_Zopp (sign_bit F32 x) (dec_mant F32 x)) (dec_exp F32 x)).
Proof.
  intros Hx Fin. rewrite <- (finite_real_value F32 F32_ok x Hx Fin).
  rewrite <- (flocq_decoder_agrees F32 F32_ok x Hx), SF2R_FF2SF.
  unfold b32_of_bits, binary_float_of_bits. cbv zeta. apply B2R_FF2B.
Qed.

Definition f32_finite_real_value := finite_real_value F32 F32_ok.
Definition f64_finite_real_value := finite_real_value F64 F64_ok.
Definition f32_nonfinite_real_value := nonfinite_real_value F32 F32_ok.
Definition f64_nonfinite_real_value := nonfinite_real_value F64 F64_ok.
Definition f32_sval_real := sval_real F32 F32_ok.
Definition f64_sval_real := sval_real F64 F64_ok.
Definition f32_bits_order_real := bits_order_real F32 F32_ok.
Definition f64_bits_order_real := bits_order_real F64 F64_ok.

(** 1.5 = 0x3ff8000000000000 *)
Example ex_flocq_real_value :
  Binary.B2R 53 1024 (b64_of_bits 0x3ff8000000000000) = 1.5%R.
Proof.
  rewrite f64_flocq_real_value by (repeat split; vm_compute; congruence).
  replace (sign_bit F64 0x3ff8000000000000) with false by (vm_compute; reflexivity).
  replace (dec_mant F64 0x3ff8000000000000) with (3 * 2 ^ 51) by (vm_compute; reflexivity).
  replace (dec_exp F64 0x3ff8000000000000) with (-52) by (vm_compute; reflexivity).
  unfold F2R. cbn [Fnum Fexp cond_Zopp]. rewrite mult_IZR.
  change 2 with (radix_val radix2) at 1. rewrite IZR_Zpower by lia.
  rewrite Rmult_assoc, <- bpow_plus. change (51 + -52) with (-1).
  change (bpow radix2 (-1)) with (/ 2)%R. lra.
Qed.

Print Assumptions flocq_decoder_agrees.
Print Assumptions f64_flocq_of_bits.
Print Assumptions f64_flocq_real_value.
Print Assumptions f64_bits_order_real.
Print Assumptions bh_real.
