(** * BellFacts2: the link with the specification [RN] (real numbers enter here).

    - [res_RN]: the packed fields [round] returns for a normalised significand are [RN] of its value;
    - [band_RN]: if the accuracy test passed, every real within the band around the computed
      significand has the same [RN] (monotonicity of [RN] between the two ends of the band,
      re-normalised across a binade boundary where necessary);
    - [entry_R]: a table entry brackets the true power of ten, as real numbers;
    - [mul_step]: one step of the forward error analysis of [mul]. *)
From Coq Require Import ZArith QArith Qreals Reals List Bool Lia Lra.
From Flocq Require Import Core.Core.
From ML Require Import base.RustSem model.Fmt model.Mask model.Num model.Number model.Rounding
  model.Bellerophon gen.Consts gen.BTables spec.Decimal spec.Round spec.RoundFacts spec.RneBridge
  proofs.RoundingFactsZ proofs.RoundingFactsRne proofs.Glue proofs.TableFacts
  proofs.BellFacts0 proofs.BellFacts1.
Open Scope Z_scope.
Local Arguments Z.pow : simpl never.

(** ** powers of ten and two as reals *)
Definition r10 : radix := Build_radix 10 eq_refl.

Lemma Q2R_pow10Q k : Q2R (pow10Q k) = bpow r10 k.
Proof.
  destruct k as [|p|p]; simpl.
  - unfold Q2R. simpl. field.
  - rewrite Q2R_inject_Z. reflexivity.
  - unfold Q2R. simpl Qnum. simpl Qden.
    assert (0 < 10 ^ Zpos p) by (apply Z.pow_pos_nonneg; lia).
    rewrite Z2Pos.id by assumption.
    change (10 ^ Zpos p) with (Z.pow_pos 10 p). rewrite Rmult_1_l. reflexivity.
Qed.

Lemma IZR_pow10 k : 0 <= k -> IZR (10 ^ k) = bpow r10 k.
Proof. intros H. change (10 ^ k) with (Zpower r10 k). apply IZR_Zpower. exact H. Qed.

Lemma IZR_pow2 k : 0 <= k -> IZR (2 ^ k) = bpow radix2 k.
Proof. intros H. change (2 ^ k) with (Zpower radix2 k). apply IZR_Zpower. exact H. Qed.

Lemma bpow_opp_mul r e : (bpow r e * bpow r (- e) = 1)%R.
Proof. rewrite <- bpow_plus. replace (e + - e) with 0 by lia. reflexivity. Qed.

(** ** a table entry brackets the power it stands for:  m <= 10^k / 2^e < m + 1 *)
Definition tv (k e : Z) : R := (bpow r10 k * bpow radix2 (- e))%R.

Lemma entry_R k m e : bell_entry_ok k m e = true ->
  (IZR m <= tv k e < IZR m + 1)%R.
Proof.
  unfold bell_entry_ok, tv. intros H. apply andb_prop in H. destruct H as [_ H].
  destruct (0 <=? k) eqn:Ek.
  - apply Z.leb_le in Ek. destruct (0 <=? e) eqn:Ee.
    + apply Z.leb_le in Ee. apply andb_prop in H. destruct H as [H1 H2].
      apply Z.leb_le in H1. apply Z.ltb_lt in H2.
      apply IZR_le in H1. apply IZR_lt in H2.
      rewrite mult_IZR, IZR_pow2, IZR_pow10 in * by assumption. rewrite plus_IZR in H2.
      pose proof (bpow_gt_0 radix2 e) as P. pose proof (bpow_gt_0 radix2 (- e)) as P'.
      pose proof (bpow_opp_mul radix2 e) as I.
      set (a := bpow radix2 e) in *. set (a' := bpow radix2 (- e)) in *. set (t := bpow r10 k) in *.
      split.
      * replace (IZR m) with (IZR m * a * a')%R by (rewrite Rmult_assoc, I; ring).
        apply Rmult_le_compat_r; lra.
      * replace (IZR m + 1)%R with ((IZR m + 1) * a * a')%R by (rewrite Rmult_assoc, I; ring).
        apply Rmult_lt_compat_r; lra.
    + apply Z.leb_gt in Ee. apply andb_prop in H. destruct H as [H1 H2].
      apply Z.leb_le in H1. apply Z.ltb_lt in H2.
      apply IZR_le in H1. apply IZR_lt in H2.
      rewrite mult_IZR, IZR_pow2, IZR_pow10 in * by lia. rewrite plus_IZR in H2. lra.
  - apply Z.leb_gt in Ek. apply andb_prop in H. destruct H as [H He].
    apply andb_prop in H. destruct H as [H1 H2].
    apply Z.leb_le in H1. apply Z.ltb_lt in H2. apply Z.ltb_lt in He.
    apply IZR_le in H1. apply IZR_lt in H2.
    rewrite mult_IZR, IZR_pow2, IZR_pow10 in * by lia. rewrite plus_IZR in H2.
    pose proof (bpow_gt_0 r10 k) as P. pose proof (bpow_gt_0 r10 (- k)) as P'.
    pose proof (bpow_opp_mul r10 k) as I.
    set (a := bpow r10 k) in *. set (a' := bpow r10 (- k)) in *. set (t := bpow radix2 (- e)) in *.
    split.
    + replace (IZR m) with (a * (IZR m * a'))%R by (rewrite (Rmult_comm (IZR m)), <- Rmult_assoc, I; ring).
      apply Rmult_le_compat_l; lra.
    + replace (IZR m + 1)%R with (a * ((IZR m + 1) * a'))%R
        by (rewrite (Rmult_comm (IZR m + 1)), <- Rmult_assoc, I; ring).
      apply Rmult_lt_compat_l; lra.
Qed.

(** ** one multiplication step of the error analysis.
    [x] is the computed significand, [xt] the true one (within [-alpha, +beta] of it), [p] the
    table significand, [pt] the true scaled power, [y] the rounded high word of [x * p], and
    [c = 2^64]. *)
Lemma mul_step (c x xt p pt y alpha beta : R) :
  (0 < c)%R -> (0 <= alpha)%R -> (0 <= beta)%R ->
  (0 <= x <= c)%R -> (0 <= xt)%R -> (x - alpha <= xt <= x + beta)%R ->
  (0 <= p)%R -> (p + 1 <= c)%R -> (p <= pt <= p + 1)%R ->
  (c * y - c / 2 <= x * p <= c * y + c / 2)%R ->
  (y - 1 / 2 - alpha <= xt * pt / c <= y + 3 / 2 + beta)%R.
Proof.
  intros Hc Ha Hb Hx Hxt Hb1 Hp Hpc Hpt Hy.
  assert (L1 : (xt * p <= xt * pt)%R) by (apply Rmult_le_compat_l; lra).
  assert (L2 : ((x - alpha) * p <= xt * p)%R) by (apply Rmult_le_compat_r; lra).
  assert (L3 : (alpha * p <= alpha * c)%R) by (apply Rmult_le_compat_l; lra).
  assert (U1 : (xt * pt <= xt * (p + 1))%R) by (apply Rmult_le_compat_l; lra).
  assert (U2 : (xt * (p + 1) <= (x + beta) * (p + 1))%R) by (apply Rmult_le_compat_r; lra).
  assert (U3 : (beta * (p + 1) <= beta * c)%R) by (apply Rmult_le_compat_l; lra).
  split.
  - apply Rmult_le_reg_r with c; [exact Hc|].
    replace (xt * pt / c * c)%R with (xt * pt)%R by (field; lra). nra.
  - apply Rmult_le_reg_r with c; [exact Hc|].
    replace (xt * pt / c * c)%R with (xt * pt)%R by (field; lra). nra.
Qed.

(** ** [res] is [RN] of the value of the extended float *)
Lemma Q2R_ext f m e :
  Q2R (ext_num f m e # Z.to_pos (ext_den f e)) = (IZR m * bpow radix2 (e - EXPONENT_BIAS f))%R.
Proof.
  unfold ext_num, ext_den. set (B := EXPONENT_BIAS f).
  rewrite Q2R_Qmake.
  assert (Hd : 0 < 2 ^ Z.max 0 (B - e)) by (apply Z.pow_pos_nonneg; lia).
  rewrite Z2Pos.id by exact Hd.
  rewrite mult_IZR, !IZR_pow2 by lia.
  pose proof (bpow_gt_0 radix2 (Z.max 0 (B - e))) as P.
  unfold Rdiv. rewrite Rmult_assoc. f_equal.
  rewrite <- bpow_opp, <- bpow_plus. f_equal. lia.
Qed.

Theorem res_RN f m e : rfmt_ok f = true -> bfmt_ok f = true ->
  2 ^ 63 <= m < 2 ^ 64 -> - 63 <= e <= 2 ^ 30 ->
  RN f (ext_num f m e # Z.to_pos (ext_den f e)) = res f m e.
Proof.
  intros Hr Hb Hm He.
  destruct (round_nearest_RN f release_build m e Hr Hb Hm He) as (r & w & H1 & H2 & H3).
  destruct (round_ne_packed_Z f Hr release_build m e Hm He) as (G1 & G2 & _). cbv zeta in G1, G2.
  rewrite G1 in H1. injection H1 as <-. rewrite G2 in H2. injection H2 as <-.
  symmetry. exact H3.
Qed.

(** ** the band theorem against [RN] *)
Theorem band_RN f errors dlo M e (v : Q) :
  rfmt_ok f = true -> bfmt_ok f = true -> sfmt_ok f = true ->
  2 ^ 63 <= M < 2 ^ 64 -> - 63 <= e <= 2 ^ 30 - 1 ->
  1 <= dlo < errors -> 4 * dlo < 2 ^ (63 - MANTISSA_SIZE f) ->
  acc f errors M e = true ->
  (IZR (M - dlo) * bpow radix2 (e - EXPONENT_BIAS f) <= Q2R v
   <= IZR (M + errors - 2) * bpow radix2 (e - EXPONENT_BIAS f))%R ->
  RN f v = res f M e.
Proof.
  intros Hr Hb Hs HM He Hd Hq Hacc [Hlo Hhi].
  destruct (accurate_band f errors dlo M e Hr HM ltac:(lia) Hd Hq Hacc) as (A1 & A2 & A3 & A4).
  cbv zeta in A1, A2, A3, A4. set (B := EXPONENT_BIAS f) in *.
  assert (H30 : 2 ^ 30 = 1073741824) by reflexivity.
  assert (H62 : 0 < 2 ^ 62) by (vm_compute; reflexivity).
  (* lower end *)
  assert (Llo : exists vlo : Q, (0 <= vlo)%Q /\ (vlo <= v)%Q /\ RN f vlo = res f M e).
  { destruct (Z_le_gt_dec (2 ^ 63) (M - dlo)) as [Hc|Hc].
    - exists (ext_num f (M - dlo) e # Z.to_pos (ext_den f e)).
      split; [|split].
      + apply Rle_Qle. rewrite RMicromega.Q2R_0, Q2R_ext.
        apply Rmult_le_pos; [apply IZR_le; lia|apply bpow_ge_0].
      + apply Rle_Qle. rewrite Q2R_ext. exact Hlo.
      + rewrite res_RN by (try assumption; lia). apply A1. exact Hc.
    - destruct (A2 ltac:(lia)) as (He62 & Hlo62 & Hres).
      exists (ext_num f (2 * (M - dlo)) (e - 1) # Z.to_pos (ext_den f (e - 1))).
      assert (Hval : Q2R (ext_num f (2 * (M - dlo)) (e - 1) # Z.to_pos (ext_den f (e - 1)))
                     = (IZR (M - dlo) * bpow radix2 (e - B))%R).
      { rewrite Q2R_ext. fold B. rewrite mult_IZR.
        replace (e - B) with (1 + (e - 1 - B)) by lia. rewrite bpow_plus.
        change (bpow radix2 1) with 2%R. ring. }
      split; [|split].
      + apply Rle_Qle. rewrite RMicromega.Q2R_0, Hval.
        apply Rmult_le_pos; [apply IZR_le; lia|apply bpow_ge_0].
      + apply Rle_Qle. rewrite Hval. exact Hlo.
      + rewrite res_RN by (try assumption; lia). exact Hres. }
  assert (Lhi : exists vhi : Q, (v <= vhi)%Q /\ RN f vhi = res f M e).
  { destruct (Z_lt_ge_dec (M + errors - 2) (2 ^ 64)) as [Hc|Hc].
    - exists (ext_num f (M + errors - 2) e # Z.to_pos (ext_den f e)).
      split.
      + apply Rle_Qle. rewrite Q2R_ext. exact Hhi.
      + rewrite res_RN by (try assumption; lia). apply A3. exact Hc.
    - destruct (A4 ltac:(lia)) as (Hrange & Hres).
      set (h2 := (M + errors - 2 + 1) / 2) in *.
      assert (Hh2 : M + errors - 2 <= 2 * h2).
      { unfold h2. pose proof (Z.div_mod (M + errors - 2 + 1) 2 ltac:(lia)).
        pose proof (Z.mod_pos_bound (M + errors - 2 + 1) 2 ltac:(lia)). lia. }
      exists (ext_num f h2 (e + 1) # Z.to_pos (ext_den f (e + 1))).
      split.
      + apply Rle_Qle. rewrite Q2R_ext. fold B.
        eapply Rle_trans; [exact Hhi|].
        replace (e + 1 - B) with (1 + (e - B)) by lia. rewrite bpow_plus.
        change (bpow radix2 1) with 2%R. rewrite <- Rmult_assoc, <- (mult_IZR h2 2).
        apply Rmult_le_compat_r; [apply bpow_ge_0|]. apply IZR_le. lia.
      + rewrite res_RN by (try assumption; lia). exact Hres. }
  destruct Llo as (vlo & Hvlo0 & Hvlo & Rlo). destruct Lhi as (vhi & Hvhi & Rhi).
  pose proof (RN_monotone f Hs vlo v Hvlo0 Hvlo) as M1.
  pose proof (RN_monotone f Hs v vhi ltac:(eapply Qle_trans; eassumption) Hvhi) as M2.
  lia.
Qed.

Print Assumptions entry_R.
Print Assumptions band_RN.
