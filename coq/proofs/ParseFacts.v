(** * ParseFacts: what `parse_number` (model/Parse.v, src/parse.rs) computes on valid input.

    Main results
    - [parse_number_exact]: for valid input, in every build, [parse_number] returns [Ok] of the
      closed form [parse_spec] (19 first significant digits, saturated exact exponent, many flag).
    - [parse_number_spec]: the arithmetic consequences (exact value / bracket, bounds, zero).
    - [parse_number_value_bracket]: the same in [Q] against [dec_value].
    - [appended_zero_value]. *)
From Coq Require Import ZArith List Bool Lia Znumtheory QArith Qpower.
From Coq Require Import ZifyBool.
From ML Require Import base.RustSem model.Fmt model.Number model.Parse spec.Decimal.
Import ListNotations.
Open Scope Z_scope.

Local Opaque Z.pow.

(** ** Outcome monad *)

Lemma bind_ok : forall {A B} (x : outcome A) (f : A -> outcome B) a,
  x = Ok a -> bind x f = f a.
Proof. intros; subst; reflexivity. Qed.

(** ** Small constants *)

Lemma pow10_19_lt_2_64 : 10 ^ 19 < 2 ^ 64.
Proof. vm_compute; reflexivity. Qed.

Lemma pow10_pos : forall k, 0 <= k -> 0 < 10 ^ k.
Proof. intros; apply Z.pow_pos_nonneg; lia. Qed.

Lemma pow10_succ : forall k, 0 <= k -> 10 ^ (k + 1) = 10 ^ k * 10.
Proof. intros; rewrite Z.pow_add_r by lia; rewrite Z.pow_1_r; reflexivity. Qed.

Lemma pow10_le_mono : forall a c, 0 <= a <= c -> 10 ^ a <= 10 ^ c.
Proof. intros; apply Z.pow_le_mono_r; lia. Qed.

Lemma zlen_nil : forall A, zlen (@nil A) = 0.
Proof. reflexivity. Qed.

Lemma zlen_cons : forall A (x : A) l, zlen (x :: l) = zlen l + 1.
Proof. intros; unfold zlen; cbn [length]; lia. Qed.

Lemma zlen_app : forall A (l1 l2 : list A), zlen (l1 ++ l2) = zlen l1 + zlen l2.
Proof. intros; unfold zlen; rewrite app_length; lia. Qed.

Lemma zlen_nonneg : forall A (l : list A), 0 <= zlen l.
Proof. intros; unfold zlen; lia. Qed.

(** ** Digit strings *)

Lemma digitb_range : forall c, digitb c = true -> 48 <= c <= 57.
Proof. unfold digitb; intros; lia. Qed.

Lemma digits_acc_lin : forall l a, digits_acc a l = a * 10 ^ zlen l + digits_to_Z l.
Proof.
  unfold digits_to_Z.
  induction l as [|c r IH]; intros a.
  - cbn [digits_acc]. rewrite zlen_nil, Z.pow_0_r. lia.
  - cbn [digits_acc]. rewrite IH. rewrite (IH (0 * 10 + (c - 48))).
    rewrite zlen_cons, pow10_succ by apply zlen_nonneg. ring.
Qed.

Lemma digits_acc_app : forall l1 l2 a, digits_acc a (l1 ++ l2) = digits_acc (digits_acc a l1) l2.
Proof. induction l1 as [|c r IH]; intros; cbn [digits_acc app]; auto. Qed.

Lemma digits_to_Z_nil : digits_to_Z [] = 0.
Proof. reflexivity. Qed.

Lemma digits_to_Z_cons : forall c r, digits_to_Z (c :: r) = digits_acc (c - 48) r.
Proof. intros; unfold digits_to_Z; cbn [digits_acc]; f_equal; lia. Qed.

Lemma digits_to_Z_cons_lin : forall c r,
  digits_to_Z (c :: r) = (c - 48) * 10 ^ zlen r + digits_to_Z r.
Proof. intros; rewrite digits_to_Z_cons; apply digits_acc_lin. Qed.

Lemma digits_to_Z_app : forall l1 l2,
  digits_to_Z (l1 ++ l2) = digits_to_Z l1 * 10 ^ zlen l2 + digits_to_Z l2.
Proof.
  intros. unfold digits_to_Z at 1. rewrite digits_acc_app.
  rewrite digits_acc_lin. reflexivity.
Qed.

Lemma digits_acc_to_Z_app : forall l1 l2,
  digits_acc (digits_to_Z l1) l2 = digits_to_Z (l1 ++ l2).
Proof. intros; unfold digits_to_Z at 2; rewrite digits_acc_app; reflexivity. Qed.

Lemma digits_bound : forall l, forallb digitb l = true -> 0 <= digits_to_Z l < 10 ^ zlen l.
Proof.
  induction l as [|c r IH]; intros H.
  - rewrite digits_to_Z_nil, zlen_nil, Z.pow_0_r; lia.
  - cbn [forallb] in H. apply andb_true_iff in H as [Hc Hr].
    apply digitb_range in Hc. specialize (IH Hr).
    rewrite digits_to_Z_cons_lin, zlen_cons, pow10_succ by apply zlen_nonneg.
    pose proof (pow10_pos (zlen r) (zlen_nonneg _ r)). nia.
Qed.

(** no leading zero: the value has full length *)
Lemma digits_lower : forall c r, forallb digitb (c :: r) = true -> c <> 48 ->
  10 ^ zlen r <= digits_to_Z (c :: r).
Proof.
  intros c r H Hc. cbn [forallb] in H. apply andb_true_iff in H as [Hd Hr].
  apply digitb_range in Hd. pose proof (digits_bound r Hr).
  rewrite digits_to_Z_cons_lin.
  pose proof (pow10_pos (zlen r) (zlen_nonneg _ r)). nia.
Qed.

(** ** Stripping leading zeros: the significant digits *)

Fixpoint strip0 (l : list Z) : list Z :=
  match l with
  | [] => []
  | c :: r => if c =? 48 then strip0 r else c :: r
  end.

Lemma strip0_value : forall l, digits_to_Z (strip0 l) = digits_to_Z l.
Proof.
  induction l as [|c r IH]; [reflexivity|].
  cbn [strip0]. destruct (c =? 48) eqn:E; [|reflexivity].
  rewrite IH, digits_to_Z_cons_lin. lia.
Qed.

Lemma strip0_digits : forall l, forallb digitb l = true -> forallb digitb (strip0 l) = true.
Proof.
  induction l as [|c r IH]; intros H; [reflexivity|].
  cbn [strip0]. destruct (c =? 48) eqn:E; [|exact H].
  cbn [forallb] in H. apply andb_true_iff in H as [_ Hr]. auto.
Qed.

Lemma strip0_len : forall l, zlen (strip0 l) <= zlen l.
Proof.
  induction l as [|c r IH]; [cbn; lia|].
  cbn [strip0]. destruct (c =? 48); rewrite ?zlen_cons; lia.
Qed.

Lemma strip0_head : forall l c r, strip0 l = c :: r -> c <> 48.
Proof.
  induction l as [|x t IH]; intros c r H; [discriminate|].
  cbn [strip0] in H. destruct (x =? 48) eqn:E; [eauto|].
  inversion H; subst. lia.
Qed.

Lemma strip0_nolead : forall c r, c <> 48 -> strip0 (c :: r) = c :: r.
Proof. intros; cbn [strip0]. destruct (c =? 48) eqn:E; [lia|reflexivity]. Qed.

Lemma strip0_idem : forall l, strip0 (strip0 l) = strip0 l.
Proof.
  induction l as [|c r IH]; [reflexivity|].
  cbn [strip0]. destruct (c =? 48) eqn:E; [exact IH|].
  cbn [strip0]. rewrite E. reflexivity.
Qed.

(** the significant digits are empty exactly when the value is zero *)
Lemma strip0_nil_iff : forall l, forallb digitb l = true ->
  (strip0 l = [] <-> digits_to_Z l = 0).
Proof.
  intros l H. rewrite <- (strip0_value l).
  pose proof (strip0_digits l H) as Hs.
  destruct (strip0 l) as [|c r] eqn:E.
  - split; auto.
  - split; [discriminate|]. intros H0. exfalso.
    pose proof (digits_lower c r Hs (strip0_head _ _ _ E)).
    pose proof (pow10_pos (zlen r) (zlen_nonneg _ r)). lia.
Qed.

(** ** Splitting lists *)

Lemma firstn_app_exact : forall A (l1 l2 : list A) n, length l1 = n -> firstn n (l1 ++ l2) = l1.
Proof.
  intros A l1 l2 n H. subst n. rewrite firstn_app, Nat.sub_diag, firstn_O, app_nil_r.
  apply firstn_all.
Qed.

Lemma split_at : forall A (l : list A) n, (n < length l)%nat ->
  exists l1 c l2, l = l1 ++ c :: l2 /\ length l1 = n.
Proof.
  intros A l n H.
  pose proof (firstn_skipn n l) as E.
  destruct (skipn n l) as [|c l2] eqn:Es.
  - exfalso. apply (f_equal (@length A)) in Es. rewrite skipn_length in Es. cbn in Es. lia.
  - exists (firstn n l), c, l2. split; [auto|]. rewrite firstn_length. lia.
Qed.

Lemma forallb_app_l : forall A (p : A -> bool) l1 l2,
  forallb p (l1 ++ l2) = true -> forallb p l1 = true.
Proof. intros A p l1 l2 H; rewrite forallb_app in H; apply andb_true_iff in H; tauto. Qed.

Lemma forallb_app_r : forall A (p : A -> bool) l1 l2,
  forallb p (l1 ++ l2) = true -> forallb p l2 = true.
Proof. intros A p l1 l2 H; rewrite forallb_app in H; apply andb_true_iff in H; tauto. Qed.

(** value split at 19 digits *)
Lemma digits_split : forall n l,
  digits_to_Z l = digits_to_Z (firstn n l) * 10 ^ zlen (skipn n l) + digits_to_Z (skipn n l).
Proof. intros; rewrite <- digits_to_Z_app, firstn_skipn; reflexivity. Qed.

(** ** The loops of the model on digit strings *)

Definition clamp_i32 (x : Z) : Z := Z.max i32_min (Z.min i32_max x).

Lemma two_pow_8 : 2 ^ 8 = 256. Proof. vm_compute; reflexivity. Qed.
Lemma two_pow_31 : 2 ^ 31 = 2147483648. Proof. vm_compute; reflexivity. Qed.
Lemma two_pow_32 : 2 ^ 32 = 4294967296. Proof. vm_compute; reflexivity. Qed.

Lemma as_i32_small : forall x, - 2147483648 <= x < 2147483648 -> as_i32 x = x.
Proof.
  intros x H. unfold as_i32, wraps. replace (32 - 1) with 31 by lia.
  rewrite Z.mod_small; rewrite ?two_pow_32, ?two_pow_31 in *; lia.
Qed.

Lemma into_i32_small : forall x, 0 <= x < 2147483648 -> into_i32 x = x.
Proof.
  intros x H. unfold into_i32, i32_max. rewrite two_pow_31.
  destruct (2147483648 - 1 <? x) eqn:E; [lia|]. apply as_i32_small. lia.
Qed.

Lemma in_s_32 : forall x, in_s 32 x = true <-> - 2147483648 <= x < 2147483648.
Proof.
  intros x. unfold in_s. replace (32 - 1) with 31 by lia. rewrite two_pow_31. lia.
Qed.

Lemma digits_acc_mod : forall l a M, 0 < M -> digits_acc (a mod M) l mod M = digits_acc a l mod M.
Proof.
  intros l a M HM. rewrite !digits_acc_lin.
  rewrite (Z.add_mod (a mod M * _)) by lia. rewrite Z.mul_mod_idemp_l by lia.
  rewrite <- Z.add_mod by lia. reflexivity.
Qed.

Section WithBuild.
Variable b : build.

Lemma uop_ok : forall n r, in_u n r = true -> uop b n r = Ok r.
Proof. intros n r H; unfold uop; rewrite H; reflexivity. Qed.

Lemma sop_ok : forall n r, in_s n r = true -> sop b n r = Ok r.
Proof. intros n r H; unfold sop; rewrite H; reflexivity. Qed.

Lemma u8_sub_digit : forall c, digitb c = true -> u8_sub b c 48 = Ok (c - 48).
Proof.
  intros c H. apply digitb_range in H. unfold u8_sub. apply uop_ok.
  unfold in_u. rewrite two_pow_8. lia.
Qed.

(** `mantissa * 10 + digit` never overflows while fewer than 19 digits were accumulated *)
Lemma push_digit_ok : forall m c, digitb c = true -> 0 <= m -> m * 10 + (c - 48) < 2 ^ 64 ->
  push_digit b m c = Ok (m * 10 + (c - 48)).
Proof.
  intros m c Hc Hm Hlt. unfold push_digit. rewrite u8_sub_digit by assumption.
  apply digitb_range in Hc. cbn [bind]. unfold u64_mul, u64_add.
  rewrite uop_ok by (unfold in_u; lia). cbn [bind].
  apply uop_ok. unfold in_u; lia.
Qed.

Lemma push_digit_inv : forall m c count, digitb c = true -> 0 <= count -> count + 1 <= 19 ->
  0 <= m < 10 ^ count ->
  push_digit b m c = Ok (m * 10 + (c - 48)) /\ 0 <= m * 10 + (c - 48) < 10 ^ (count + 1).
Proof.
  intros m c count Hc H0 H19 Hm.
  assert (R : 0 <= m * 10 + (c - 48) < 10 ^ (count + 1)).
  { rewrite pow10_succ by lia. apply digitb_range in Hc. lia. }
  split; [|exact R]. apply push_digit_ok; try assumption; try lia.
  pose proof (pow10_le_mono (count + 1) 19 ltac:(lia)). pose proof pow10_19_lt_2_64. lia.
Qed.

(** *** the fast pass (wrapping arithmetic) *)
Lemma pnf_loop_ok : forall l m cnt, forallb digitb l = true -> 0 <= m < 2 ^ 64 ->
  pnf_loop b l m cnt = Ok (digits_acc m l mod 2 ^ 64, cnt + zlen l).
Proof.
  induction l as [|c r IH]; intros m cnt H Hm.
  - cbn [pnf_loop digits_acc]. rewrite Z.mod_small by lia. rewrite zlen_nil. f_equal. f_equal. lia.
  - cbn [forallb] in H. apply andb_true_iff in H as [Hc Hr].
    cbn [pnf_loop digits_acc]. rewrite u8_sub_digit by assumption. cbn [bind].
    assert (P : 0 < 2 ^ 64) by (apply Z.pow_pos_nonneg; lia).
    unfold u64_wrapping_add, u64_wrapping_mul, wrapu.
    rewrite IH; [|assumption|apply Z.mod_pos_bound; lia].
    rewrite Z.add_mod_idemp_l by lia. rewrite digits_acc_mod by lia.
    rewrite zlen_cons. f_equal. f_equal. lia.
Qed.

(** *** the integer loop of the slow pass *)
Lemma pn_int_inl : forall l m count, forallb digitb l = true -> 0 <= count ->
  count + zlen l <= 19 -> 0 <= m < 10 ^ count ->
  pn_int b l m count = Ok (inl (digits_acc m l, count + zlen l)).
Proof.
  induction l as [|c r IH]; intros m count H H0 H19 Hm.
  - cbn [pn_int digits_acc]. rewrite zlen_nil. do 3 f_equal. lia.
  - cbn [forallb] in H. apply andb_true_iff in H as [Hc Hr].
    rewrite zlen_cons in *. pose proof (zlen_nonneg _ r).
    cbn [pn_int digits_acc]. destruct (count + 1 =? 20) eqn:E; [lia|].
    destruct (push_digit_inv m c count Hc H0 ltac:(lia) Hm) as [Hp Hb].
    rewrite Hp. cbn [bind]. rewrite IH by (try assumption; lia).
    do 3 f_equal. lia.
Qed.

Lemma pn_int_inr : forall l1 c l2 m count, forallb digitb l1 = true -> 0 <= count ->
  count + zlen l1 = 19 -> 0 <= m < 10 ^ count ->
  pn_int b (l1 ++ c :: l2) m count = Ok (inr (digits_acc m l1, 1 + zlen l2)).
Proof.
  induction l1 as [|x t IH]; intros c l2 m count H H0 H19 Hm.
  - rewrite zlen_nil in H19. cbn [app pn_int digits_acc].
    destruct (count + 1 =? 20) eqn:E; [reflexivity|lia].
  - cbn [forallb] in H. apply andb_true_iff in H as [Hx Ht].
    rewrite zlen_cons in *. pose proof (zlen_nonneg _ t).
    cbn [app pn_int digits_acc]. destruct (count + 1 =? 20) eqn:E; [lia|].
    destruct (push_digit_inv m x count Hx H0 ltac:(lia) Hm) as [Hp Hb].
    rewrite Hp. cbn [bind]. apply IH; try assumption; lia.
Qed.

(** *** the fraction loop of the slow pass *)
Lemma pn_frac_inl : forall l m count fc, forallb digitb l = true -> 0 <= count ->
  count + zlen l <= 19 -> 0 <= m < 10 ^ count ->
  pn_frac b l m count fc = Ok (inl (digits_acc m l, fc + zlen l)).
Proof.
  induction l as [|c r IH]; intros m count fc H H0 H19 Hm.
  - cbn [pn_frac digits_acc]. rewrite zlen_nil. do 3 f_equal. lia.
  - cbn [forallb] in H. apply andb_true_iff in H as [Hc Hr].
    rewrite zlen_cons in *. pose proof (zlen_nonneg _ r).
    cbn [pn_frac digits_acc]. destruct (count + 1 =? 20) eqn:E; [lia|].
    destruct (push_digit_inv m c count Hc H0 ltac:(lia) Hm) as [Hp Hb].
    rewrite Hp. cbn [bind]. rewrite IH by (try assumption; lia).
    do 3 f_equal. lia.
Qed.

Lemma pn_frac_inr : forall l1 c l2 m count fc, forallb digitb l1 = true -> 0 <= count ->
  count + zlen l1 = 19 -> 0 <= m < 10 ^ count ->
  pn_frac b (l1 ++ c :: l2) m count fc = Ok (inr (digits_acc m l1, fc + zlen l1 + 1)).
Proof.
  induction l1 as [|x t IH]; intros c l2 m count fc H H0 H19 Hm.
  - rewrite zlen_nil in *. cbn [app pn_frac digits_acc].
    destruct (count + 1 =? 20) eqn:E; [|lia]. do 3 f_equal. lia.
  - cbn [forallb] in H. apply andb_true_iff in H as [Hx Ht].
    rewrite zlen_cons in *. pose proof (zlen_nonneg _ t).
    cbn [app pn_frac digits_acc]. destruct (count + 1 =? 20) eqn:E; [lia|].
    destruct (push_digit_inv m x count Hx H0 ltac:(lia) Hm) as [Hp Hb].
    rewrite Hp. cbn [bind]. rewrite IH by (try assumption; lia).
    do 3 f_equal. lia.
Qed.

(** *** skipping the leading zeros of the fraction *)
Lemma pn_skip_ok : forall l fc, forallb digitb l = true ->
  pn_skip b l 0 fc =
  match strip0 l with
  | [] => Ok (0, 0, fc + zlen l, [])
  | c :: r => Ok (c - 48, 1, fc + (zlen l - zlen r), r)
  end.
Proof.
  induction l as [|c r IH]; intros fc H.
  - cbn [pn_skip strip0]. rewrite zlen_nil. do 3 f_equal. lia.
  - cbn [forallb] in H. apply andb_true_iff in H as [Hc Hr].
    cbn [pn_skip strip0]. destruct (c =? 48) eqn:E; cbn [negb].
    + rewrite IH by assumption. rewrite zlen_cons.
      destruct (strip0 r) as [|c' r']; do 3 f_equal; lia.
    + rewrite push_digit_ok; try assumption; try lia.
      2:{ apply digitb_range in Hc. pose proof pow10_19_lt_2_64.
          assert (0 < 10 ^ 19) by (apply pow10_pos; lia).
          assert (10 <= 10 ^ 19) by (change 10 with (10 ^ 1) at 1; apply pow10_le_mono; lia).
          lia. }
      cbn [bind]. rewrite zlen_cons. do 3 f_equal; lia.
Qed.

End WithBuild.

(** ** Closed form of the result *)

(** [s] = significant digits (leading zeros stripped; only a fraction can have some since the
    integer part has no leading zero).  The mantissa is the number formed by the first 19
    significant digits, [many] tells whether a 20th exists, and the exponent is the saturation
    of the exact exponent of the last retained digit. *)
Definition parse_spec (i f : list Z) (e : Z) : number :=
  let s := strip0 (i ++ f) in
  mkNumber (clamp_i32 (e - zlen f + Z.max 0 (zlen s - 19)))
           (digits_to_Z (firstn 19 s))
           (19 <? zlen s).

Lemma parse_spec_short : forall i f e, zlen (strip0 (i ++ f)) <= 19 ->
  parse_spec i f e = mkNumber (clamp_i32 (e - zlen f)) (digits_to_Z (i ++ f)) false.
Proof.
  intros i f e H. unfold parse_spec.
  rewrite firstn_all2 by (unfold zlen in H; lia).
  rewrite strip0_value. f_equal; [f_equal; lia | lia].
Qed.

Lemma parse_spec_long : forall i f e l1 c l2, strip0 (i ++ f) = l1 ++ c :: l2 ->
  length l1 = 19%nat ->
  parse_spec i f e = mkNumber (clamp_i32 (e - zlen f + (1 + zlen l2))) (digits_to_Z l1) true.
Proof.
  intros i f e l1 c l2 H L. unfold parse_spec. rewrite H.
  rewrite firstn_app_exact by assumption.
  assert (zlen l1 = 19) by (unfold zlen; rewrite L; reflexivity).
  rewrite zlen_app, zlen_cons. pose proof (zlen_nonneg _ l2).
  f_equal; [f_equal; lia | lia].
Qed.

Lemma valid_input_inv : forall i f e, valid_inputb i f e = true ->
  forallb digitb i = true /\ forallb digitb f = true /\
  (forall c r, i = c :: r -> c <> 48) /\
  zlen i + zlen f < 2147483646 /\ - 2147483648 <= e < 2147483648.
Proof.
  intros i f e V. unfold valid_inputb in V.
  repeat (apply andb_true_iff in V; destruct V as [V ?]).
  rewrite two_pow_31 in *. rewrite in_s_32 in *.
  repeat split; try assumption; try lia.
  intros c r ->. lia.
Qed.

Lemma valid_input_intro : forall i f e,
  forallb digitb i = true -> forallb digitb f = true ->
  (forall c r, i = c :: r -> c <> 48) ->
  zlen i + zlen f < 2147483646 -> - 2147483648 <= e < 2147483648 ->
  valid_inputb i f e = true.
Proof.
  intros i f e Hi Hf Hl Hn He. unfold valid_inputb. rewrite Hi, Hf. cbn [andb].
  rewrite two_pow_31. apply in_s_32 in He. rewrite He.
  assert (negb (match i with c :: _ => c =? 48 | [] => false end) = true).
  { destruct i as [|c r]; [reflexivity|]. specialize (Hl c r eq_refl). lia. }
  rewrite H. cbn [andb]. lia.
Qed.

Lemma sat_sub_clamp : forall e t, i32_saturating_sub e t = clamp_i32 (e - t).
Proof. reflexivity. Qed.
Lemma sat_add_clamp : forall e t, i32_saturating_add e t = clamp_i32 (e + t).
Proof. reflexivity. Qed.

(** *** [parse_number] returns the closed form, in every build (no panic, no wrap) *)
Theorem parse_number_exact : forall b i f e, valid_inputb i f e = true ->
  parse_number b i f e = Ok (parse_spec i f e).
Proof.
  intros b i f e V. destruct (valid_input_inv _ _ _ V) as (Hi & Hf & Hlead & Hlen & He).
  pose proof (zlen_nonneg _ i) as Hi0. pose proof (zlen_nonneg _ f) as Hf0.
  assert (P64 : 0 < 2 ^ 64) by (apply Z.pow_pos_nonneg; lia).
  unfold parse_number, parse_number_fast.
  rewrite (pnf_loop_ok b i 0 0 Hi) by lia. cbn [bind].
  rewrite (pnf_loop_ok b f _ 0 Hf) by (apply Z.mod_pos_bound; lia). cbn [bind].
  destruct (0 + zlen i + (0 + zlen f) <=? 19) eqn:E.
  - (* the fast pass succeeds: at most 19 digits *)
    cbn [bind]. f_equal.
    rewrite parse_spec_short by (pose proof (strip0_len (i ++ f)); rewrite zlen_app in *; lia).
    rewrite sat_sub_clamp. rewrite as_i32_small by lia.
    f_equal; try (f_equal; lia).
    rewrite digits_acc_mod by lia. change (digits_acc 0 i) with (digits_to_Z i).
    rewrite digits_acc_to_Z_app. apply Z.mod_small.
    assert (Hif : forallb digitb (i ++ f) = true) by (rewrite forallb_app, Hi, Hf; reflexivity).
    pose proof (digits_bound _ Hif) as B. rewrite zlen_app in B.
    pose proof (pow10_le_mono (zlen i + zlen f) 19 ltac:(lia)). pose proof pow10_19_lt_2_64. lia.
  - (* slow pass: at least 20 digits *)
    cbn [bind].
    destruct i as [|c0 i'].
    + (* empty integer part: leading fraction zeros are skipped *)
      cbn [pn_int bind]. rewrite Z.eqb_refl. rewrite pn_skip_ok by assumption.
      rewrite zlen_nil in *.
      pose proof (strip0_digits f Hf) as Hs. pose proof (strip0_value f) as Hv.
      destruct (strip0 f) as [|c r] eqn:Es.
      * cbn [bind pn_frac]. f_equal.
        rewrite parse_spec_short by (cbn [app]; rewrite Es, zlen_nil; lia).
        cbn [app]. rewrite sat_sub_clamp, as_i32_small by lia. rewrite <- Hv.
        f_equal; try (f_equal; lia).
      * cbn [bind].
        pose proof (strip0_head _ _ _ Es) as Hc48.
        pose proof (strip0_len f) as Hsl. rewrite Es, zlen_cons in Hsl.
        pose proof (zlen_nonneg _ r) as Hr0.
        pose proof Hs as Hs'. cbn [forallb] in Hs'. apply andb_true_iff in Hs' as [Hc Hr].
        assert (Hm : 0 <= c - 48 < 10 ^ 1) by (rewrite Z.pow_1_r; apply digitb_range in Hc; lia).
        destruct (Z_le_gt_dec (zlen r) 18) as [Hle|Hgt].
        -- rewrite pn_frac_inl by (try assumption; lia). cbn [bind]. f_equal.
           rewrite parse_spec_short by (cbn [app]; rewrite Es, zlen_cons; lia).
           cbn [app]. rewrite sat_sub_clamp, as_i32_small by lia.
           rewrite <- Hv, digits_to_Z_cons. f_equal; try (f_equal; lia).
        -- destruct (split_at _ r 18) as (r1 & c' & r2 & Er & L1); [unfold zlen in Hgt; lia|].
           assert (Z1 : zlen r1 = 18) by (unfold zlen; rewrite L1; reflexivity).
           pose proof (zlen_nonneg _ r2) as Hr20.
           assert (Zr : zlen r = 19 + zlen r2) by (rewrite Er, zlen_app, zlen_cons; lia).
           rewrite Er at 1. rewrite pn_frac_inr; try lia; try assumption.
           2:{ rewrite Er in Hr. eapply forallb_app_l; eassumption. }
           cbn [bind]. unfold i32_sub. rewrite as_i32_small by lia.
           rewrite sop_ok by (apply in_s_32; lia). cbn [bind]. f_equal.
           rewrite (parse_spec_long [] f e (c :: r1) c' r2).
           2:{ cbn [app]. rewrite Es, Er. reflexivity. }
           2:{ cbn [length]. rewrite L1. reflexivity. }
           rewrite sat_sub_clamp, digits_to_Z_cons. f_equal; try (f_equal; lia).
    + (* non-empty integer part, no leading zero *)
      assert (Hc0 : c0 <> 48) by (eapply Hlead; reflexivity).
      assert (Hst : strip0 ((c0 :: i') ++ f) = (c0 :: i') ++ f)
        by (cbn [app]; apply strip0_nolead; assumption).
      assert (Hipos : 0 < zlen (c0 :: i')) by (rewrite zlen_cons; pose proof (zlen_nonneg _ i'); lia).
      remember (c0 :: i') as i eqn:Ei. clear Hlead.
      assert (Hm0 : 0 <= 0 < 10 ^ 0) by (rewrite Z.pow_0_r; lia).
      destruct (Z_le_gt_dec (zlen i) 19) as [Hle|Hgt].
      * (* truncation happens in the fraction *)
        rewrite pn_int_inl by (try assumption; lia). cbn [bind].
        destruct (0 + zlen i =? 0) eqn:E0; [lia|]. cbn [bind].
        destruct (split_at _ f (Z.to_nat (19 - zlen i))) as (f1 & c' & f2 & Ef & L1);
          [unfold zlen in *; lia|].
        assert (Z1 : zlen f1 = 19 - zlen i) by (unfold zlen in *; lia).
        pose proof (zlen_nonneg _ f2) as Hf20.
        assert (Zf : zlen f = 20 - zlen i + zlen f2) by (rewrite Ef, zlen_app, zlen_cons; lia).
        rewrite Ef at 1. change (digits_acc 0 i) with (digits_to_Z i).
        rewrite pn_frac_inr; try lia.
        2:{ rewrite Ef in Hf. eapply forallb_app_l; eassumption. }
        2:{ replace (0 + zlen i) with (zlen i) by lia. apply digits_bound; assumption. }
        cbn [bind]. unfold i32_sub. rewrite as_i32_small by lia.
        rewrite sop_ok by (apply in_s_32; lia). cbn [bind]. f_equal.
        rewrite (parse_spec_long i f e (i ++ f1) c' f2).
        2:{ rewrite Hst, Ef, app_assoc. reflexivity. }
        2:{ rewrite app_length. unfold zlen in *. lia. }
        rewrite sat_sub_clamp, digits_acc_to_Z_app. f_equal; try (f_equal; lia).
      * (* truncation happens in the integer part *)
        destruct (split_at _ i 19) as (l1 & c' & l2 & Eli & L1); [unfold zlen in Hgt; lia|].
        assert (Z1 : zlen l1 = 19) by (unfold zlen; rewrite L1; reflexivity).
        pose proof (zlen_nonneg _ l2) as Hl20.
        assert (Zi : zlen i = 20 + zlen l2) by (rewrite Eli, zlen_app, zlen_cons; lia).
        rewrite Eli at 1. rewrite pn_int_inr; try lia.
        2:{ rewrite Eli in Hi. eapply forallb_app_l; eassumption. }
        cbn [bind]. rewrite into_i32_small by lia. f_equal.
        rewrite (parse_spec_long i f e l1 c' (l2 ++ f)).
        2:{ rewrite Hst, Eli, <- app_assoc. reflexivity. }
        2:{ assumption. }
        rewrite sat_add_clamp, zlen_app. f_equal; try (f_equal; lia).
Qed.

(** ** Arithmetic content of the closed form *)

Lemma zlen_firstn : forall A n (l : list A), zlen (firstn n l) = Z.min (Z.of_nat n) (zlen l).
Proof. intros; unfold zlen; rewrite firstn_length; lia. Qed.

Lemma zlen_skipn : forall A n (l : list A), zlen (skipn n l) = Z.max 0 (zlen l - Z.of_nat n).
Proof. intros; unfold zlen; rewrite skipn_length; lia. Qed.

Lemma clamp_i32_range : forall x, i32_min <= clamp_i32 x <= i32_max.
Proof. intros; unfold clamp_i32, i32_min, i32_max; rewrite two_pow_31; lia. Qed.

Lemma clamp_i32_id : forall x, i32_min <= x <= i32_max -> clamp_i32 x = x.
Proof. intros x; unfold clamp_i32, i32_min, i32_max; rewrite two_pow_31; lia. Qed.

(** when the clamp is active the exact exponent is (at least) 2^31 - 1 away from zero *)
Lemma saturation_is_far : forall x, clamp_i32 x <> x -> 2 ^ 31 - 1 <= Z.abs x.
Proof. intros x; unfold clamp_i32, i32_min, i32_max; rewrite two_pow_31; lia. Qed.

Lemma clamp_i32_cases : forall x,
  (x < i32_min /\ clamp_i32 x = i32_min) \/ (i32_min <= x <= i32_max /\ clamp_i32 x = x) \/
  (i32_max < x /\ clamp_i32 x = i32_max).
Proof. intros x; unfold clamp_i32, i32_min, i32_max; rewrite two_pow_31; lia. Qed.

Lemma first19_facts : forall s, forallb digitb s = true ->
  (forall c r, s = c :: r -> c <> 48) ->
  let w := digits_to_Z (firstn 19 s) in
  let k := Z.max 0 (zlen s - 19) in
  0 <= w < 10 ^ 19 /\
  w * 10 ^ k <= digits_to_Z s < (w + 1) * 10 ^ k /\
  (19 < zlen s -> 10 ^ 18 <= w) /\
  (zlen s <= 19 -> w = digits_to_Z s).
Proof.
  intros s H Hh w k.
  pose proof H as H'. rewrite <- (firstn_skipn 19 s) in H'.
  pose proof (digits_bound _ (forallb_app_l _ _ _ _ H')) as B1.
  pose proof (digits_bound _ (forallb_app_r _ _ _ _ H')) as B2.
  rewrite zlen_firstn in B1. rewrite zlen_skipn in B2.
  change (Z.of_nat 19) with 19 in *. fold w in B1. fold k in B2.
  pose proof (zlen_nonneg _ s) as Hs0.
  pose proof (pow10_le_mono (Z.min 19 (zlen s)) 19 ltac:(lia)) as M.
  pose proof (digits_split 19 s) as Sp. rewrite zlen_skipn in Sp.
  change (Z.of_nat 19) with 19 in Sp. fold w k in Sp.
  repeat split; try lia.
  - intros Hlong. destruct s as [|c r]; [rewrite zlen_nil in Hlong; lia|].
    rewrite zlen_cons in Hlong. subst w. cbn [firstn].
    cbn [firstn] in H'. pose proof (forallb_app_l _ _ _ _ H') as Hd.
    pose proof (digits_lower c (firstn 18 r) Hd (Hh c r eq_refl)) as L.
    rewrite zlen_firstn in L. change (Z.of_nat 18) with 18 in L.
    replace (Z.min 18 (zlen r)) with 18 in L by lia. exact L.
  - intros Hshort. subst w. rewrite firstn_all2; [reflexivity|unfold zlen in Hshort; lia].
Qed.

Theorem parse_number_spec : forall b i f e, valid_inputb i f e = true ->
  exists n, parse_number b i f e = Ok n /\
    0 <= nmant n < 2 ^ 64 /\
    i32_min <= nexp n <= i32_max /\
    let D := digits_to_Z (i ++ f) in        (* all the digits as one integer *)
    let X := e - zlen f in                  (* exact exponent of the last digit *)
    let s := strip0 (i ++ f) in             (* the significant digits *)
    (* closed form *)
    many n = (19 <? zlen s) /\
    nmant n = digits_to_Z (firstn 19 s) /\
    nexp n = clamp_i32 (X + Z.max 0 (zlen s - 19)) /\
    (* (a) nothing dropped: exact *)
    (many n = false ->
       nmant n = D /\ D < 10 ^ 19 /\ nexp n = clamp_i32 X /\ clamp_i32 X = Z.max i32_min X) /\
    (* (b) [k] digits dropped: 19 full digits and a bracket *)
    (many n = true ->
       10 ^ 18 <= nmant n < 10 ^ 19 /\
       exists k, k = zlen s - 19 /\ 1 <= k <= zlen i + zlen f - 19 /\
         nmant n * 10 ^ k <= D < (nmant n + 1) * 10 ^ k /\
         nexp n = clamp_i32 (X + k)) /\
    (* (c) zero *)
    (D = 0 -> nmant n = 0 /\ many n = false) /\
    (nmant n = 0 -> D = 0) /\
    (* (d) short inputs are always exact *)
    (zlen i + zlen f <= 19 -> many n = false).
Proof.
  intros b i f e V. exists (parse_spec i f e). split; [apply parse_number_exact; exact V|].
  destruct (valid_input_inv _ _ _ V) as (Hi & Hf & Hlead & Hlen & He).
  assert (Hif : forallb digitb (i ++ f) = true) by (rewrite forallb_app, Hi, Hf; reflexivity).
  pose proof (strip0_digits _ Hif) as Hs. pose proof (strip0_value (i ++ f)) as Hv.
  pose proof (strip0_len (i ++ f)) as Hl. rewrite zlen_app in Hl.
  pose proof (first19_facts _ Hs (strip0_head (i ++ f))) as (Hw & Hbr & Hlow & Hsh).
  pose proof (strip0_nil_iff _ Hif) as Hnil.
  pose proof (zlen_nonneg _ i) as Hi0. pose proof (zlen_nonneg _ f) as Hf0.
  unfold parse_spec. cbn [nmant nexp many].
  set (s := strip0 (i ++ f)) in *. set (w := digits_to_Z (firstn 19 s)) in *.
  pose proof (zlen_nonneg _ s) as Hs0. rewrite Hv in *.
  pose proof pow10_19_lt_2_64 as P.
  split; [lia|]. split; [apply clamp_i32_range|].
  cbv zeta. split; [reflexivity|]. split; [reflexivity|]. split; [reflexivity|].
  split; [|split; [|split; [|split]]].
  - intros Hm. assert (Hle : zlen s <= 19) by lia.
    replace (Z.max 0 (zlen s - 19)) with 0 by lia. rewrite Z.add_0_r.
    specialize (Hsh Hle). split; [exact Hsh|]. split; [lia|]. split; [reflexivity|].
    unfold clamp_i32, i32_min, i32_max. rewrite two_pow_31. lia.
  - intros Hm. assert (Hgt : 19 < zlen s) by lia. specialize (Hlow Hgt).
    split; [lia|]. exists (zlen s - 19).
    replace (Z.max 0 (zlen s - 19)) with (zlen s - 19) in * by lia.
    repeat split; try lia.
  - intros HD. apply Hnil in HD. subst w. rewrite HD. cbn [firstn]. split; reflexivity.
  - intros Hw0. destruct (Z_le_gt_dec (zlen s) 19) as [Hle|Hgt].
    + rewrite <- (Hsh Hle). exact Hw0.
    + specialize (Hlow ltac:(lia)). assert (0 < 10 ^ 18) by (apply pow10_pos; lia). lia.
  - intros Hshort. lia.
Qed.

(** the dropped-digit count when the integer part is not empty: nothing is stripped *)
Lemma strip0_nonempty_int : forall i f e, valid_inputb i f e = true -> i <> [] ->
  strip0 (i ++ f) = i ++ f.
Proof.
  intros i f e V Hne. destruct (valid_input_inv _ _ _ V) as (_ & _ & Hlead & _).
  destruct i as [|c r]; [congruence|]. cbn [app]. apply strip0_nolead. eapply Hlead; reflexivity.
Qed.

(** *** (d) the two passes agree: the fast pass (wrapping arithmetic) is exact up to 19 digits
    and gives up beyond *)
Lemma parse_number_fast_short : forall b i f e, valid_inputb i f e = true ->
  zlen i + zlen f <= 19 ->
  parse_number_fast b i f e =
    Ok (Some (mkNumber (clamp_i32 (e - zlen f)) (digits_to_Z (i ++ f)) false)).
Proof.
  intros b i f e V Hsh. destruct (valid_input_inv _ _ _ V) as (Hi & Hf & Hlead & Hlen & He).
  pose proof (zlen_nonneg _ i) as Hi0. pose proof (zlen_nonneg _ f) as Hf0.
  assert (P64 : 0 < 2 ^ 64) by (apply Z.pow_pos_nonneg; lia).
  unfold parse_number_fast.
  rewrite (pnf_loop_ok b i 0 0 Hi) by lia. cbn [bind].
  rewrite (pnf_loop_ok b f _ 0 Hf) by (apply Z.mod_pos_bound; lia). cbn [bind].
  destruct (0 + zlen i + (0 + zlen f) <=? 19) eqn:E; [|lia].
  rewrite sat_sub_clamp. rewrite as_i32_small by lia.
  do 3 f_equal; try (f_equal; lia).
  rewrite digits_acc_mod by lia. change (digits_acc 0 i) with (digits_to_Z i).
  rewrite digits_acc_to_Z_app. apply Z.mod_small.
  assert (Hif : forallb digitb (i ++ f) = true) by (rewrite forallb_app, Hi, Hf; reflexivity).
  pose proof (digits_bound _ Hif) as B. rewrite zlen_app in B.
  pose proof (pow10_le_mono (zlen i + zlen f) 19 ltac:(lia)). pose proof pow10_19_lt_2_64. lia.
Qed.

Lemma parse_number_fast_long : forall b i f e, valid_inputb i f e = true ->
  19 < zlen i + zlen f -> parse_number_fast b i f e = Ok None.
Proof.
  intros b i f e V Hl. destruct (valid_input_inv _ _ _ V) as (Hi & Hf & Hlead & Hlen & He).
  assert (P64 : 0 < 2 ^ 64) by (apply Z.pow_pos_nonneg; lia).
  unfold parse_number_fast.
  rewrite (pnf_loop_ok b i 0 0 Hi) by lia. cbn [bind].
  rewrite (pnf_loop_ok b f _ 0 Hf) by (apply Z.mod_pos_bound; lia). cbn [bind].
  destruct (0 + zlen i + (0 + zlen f) <=? 19) eqn:E; [lia|reflexivity].
Qed.

(** ** The value in Q *)

Lemma ten_neq_0 : ~ (inject_Z 10 == 0)%Q.
Proof. intros H. unfold Qeq in H. cbn in H. discriminate. Qed.

Lemma pow10Q_Qpower : forall k, (pow10Q k == inject_Z 10 ^ k)%Q.
Proof.
  intros [|p|p].
  - reflexivity.
  - unfold pow10Q. apply Zpower_Qpower. lia.
  - unfold pow10Q. change (Z.neg p) with (- Z.pos p). rewrite Qpower_opp.
    rewrite <- Zpower_Qpower by lia.
    assert (H : 0 < 10 ^ Z.pos p) by (apply pow10_pos; lia).
    destruct (10 ^ Z.pos p) as [|q|q]; try lia.
    reflexivity.
Qed.

Lemma pow10Q_add : forall a c, (pow10Q (a + c) == pow10Q a * pow10Q c)%Q.
Proof. intros. rewrite !pow10Q_Qpower. apply Qpower_plus. exact ten_neq_0. Qed.

Lemma pow10Q_pos : forall k, (0 < pow10Q k)%Q.
Proof. intros. rewrite pow10Q_Qpower. apply Qpower_0_lt. reflexivity. Qed.

Lemma pow10Q_nonneg_inj : forall k, 0 <= k -> (pow10Q k == inject_Z (10 ^ k))%Q.
Proof. intros. rewrite pow10Q_Qpower. symmetry. apply Zpower_Qpower. assumption. Qed.

(** scaling an integer bracket to the decimal value *)
Lemma scale_bracket : forall w k X, 0 <= k ->
  (inject_Z w * pow10Q (X + k) == inject_Z (w * 10 ^ k) * pow10Q X)%Q.
Proof.
  intros. rewrite pow10Q_add, (pow10Q_nonneg_inj k) by assumption.
  rewrite inject_Z_mult. ring.
Qed.

Theorem parse_number_value_bracket : forall b i f e n, valid_inputb i f e = true ->
  parse_number b i f e = Ok n ->
  let X := e - zlen f in
  (many n = false ->
     (dec_value i f e == inject_Z (nmant n) * pow10Q X)%Q /\ nexp n = clamp_i32 X) /\
  (many n = true ->
     exists k, 1 <= k /\ k = zlen (strip0 (i ++ f)) - 19 /\ nexp n = clamp_i32 (X + k) /\
       (inject_Z (nmant n) * pow10Q (X + k) <= dec_value i f e)%Q /\
       (dec_value i f e < inject_Z (nmant n + 1) * pow10Q (X + k))%Q).
Proof.
  intros b i f e n V Hn X.
  destruct (parse_number_spec b i f e V) as (n' & Hn' & _ & _ & S).
  rewrite Hn in Hn'. injection Hn' as <-. cbv zeta in S.
  destruct S as (_ & _ & _ & Sa & Sb & _).
  split.
  - intros Hm. destruct (Sa Hm) as (HD & _ & HX & _). split; [|exact HX].
    unfold dec_value. rewrite HD. reflexivity.
  - intros Hm. destruct (Sb Hm) as (_ & k & Hk & Hk1 & Hbr & HX).
    exists k. split; [lia|]. split; [exact Hk|]. split; [exact HX|].
    unfold dec_value. fold X.
    rewrite !(scale_bracket _ k X) by lia.
    split.
    + apply Qmult_le_compat_r; [|apply Qlt_le_weak, pow10Q_pos].
      rewrite <- Zle_Qle. lia.
    + apply Qmult_lt_compat_r; [apply pow10Q_pos|].
      rewrite <- Zlt_Qlt. lia.
Qed.

(** a trailing fraction zero does not change the value *)
Lemma appended_zero_value : forall i f e, (dec_value i (f ++ [48%Z]) e == dec_value i f e)%Q.
Proof.
  intros. unfold dec_value.
  rewrite app_assoc, digits_to_Z_app, zlen_app.
  change (zlen [48]) with 1. change (digits_to_Z [48]) with 0.
  rewrite Z.pow_1_r, Z.add_0_r.
  replace (e - zlen f) with ((e - (zlen f + 1)) + 1) by lia.
  rewrite (pow10Q_add (e - (zlen f + 1)) 1).
  rewrite (pow10Q_nonneg_inj 1) by lia. rewrite Z.pow_1_r. rewrite inject_Z_mult. ring.
Qed.

(** the result does not depend on the build mode *)
Corollary parse_number_build_indep : forall b1 b2 i f e, valid_inputb i f e = true ->
  parse_number b1 i f e = parse_number b2 i f e.
Proof. intros. rewrite !parse_number_exact by assumption. reflexivity. Qed.

Corollary parse_number_no_panic : forall b i f e, valid_inputb i f e = true ->
  is_ok (parse_number b i f e) = true.
Proof. intros. rewrite parse_number_exact by assumption. reflexivity. Qed.

(** ** Examples *)
From Coq Require Import String Ascii.

Definition bytes (s : string) : list Z :=
  map (fun c => Z.of_N (N_of_ascii c)) (list_ascii_of_string s).

(** truncation in the integer part: 25-digit integer, 6 digits dropped *)
Example ex_int25_valid : valid_inputb (bytes "1234567890123456789012345") [] 0 = true.
Proof. vm_compute; reflexivity. Qed.
Example ex_int25 : forall b, In b [release_build; checked_build] ->
  parse_number b (bytes "1234567890123456789012345") [] 0
  = Ok (mkNumber 6 1234567890123456789 true).
Proof. intros b [<-|[<-|[]]]; vm_compute; reflexivity. Qed.
Example ex_int25_spec :
  parse_spec (bytes "1234567890123456789012345") [] 0 = mkNumber 6 1234567890123456789 true.
Proof. vm_compute; reflexivity. Qed.

(** integer and fraction: the 20th digit is in the fraction *)
Example ex_int_frac : forall b, In b [release_build; checked_build] ->
  parse_number b (bytes "1234567890") (bytes "123456789012345") 3
  = Ok (mkNumber (3 - 9) 1234567890123456789 true).
Proof. intros b [<-|[<-|[]]]; vm_compute; reflexivity. Qed.

(** truncation in the fraction after skipping 30 leading zeros: 0.(30 zeros)1234567890123456789012345 *)
Example ex_frac_skip_valid :
  valid_inputb [] (repeat 48 30 ++ bytes "1234567890123456789012345") 0 = true.
Proof. vm_compute; reflexivity. Qed.
Example ex_frac_skip : forall b, In b [release_build; checked_build] ->
  parse_number b [] (repeat 48 30 ++ bytes "1234567890123456789012345") 0
  = Ok (mkNumber (-49) 1234567890123456789 true).
Proof. intros b [<-|[<-|[]]]; vm_compute; reflexivity. Qed.

(** 38 digits after the point but only 8 significant ones: the slow pass is exact *)
Example ex_frac_skip_exact : forall b, In b [release_build; checked_build] ->
  parse_number b [] (repeat 48 30 ++ bytes "12345678") 0
  = Ok (mkNumber (-38) 12345678 false).
Proof. intros b [<-|[<-|[]]]; vm_compute; reflexivity. Qed.

(** all zeros, more than 19 of them: zero mantissa, [many = false] *)
Example ex_zero : forall b, In b [release_build; checked_build] ->
  parse_number b [] (repeat 48 25) 7 = Ok (mkNumber (7 - 25) 0 false).
Proof. intros b [<-|[<-|[]]]; vm_compute; reflexivity. Qed.

(** saturation at i32::MIN: exponent -2^31 and a fraction (exact exponent -2^31 - 25 + 6) *)
Example ex_sat_min_valid :
  valid_inputb (bytes "1") (bytes "2345678901234567890123456") (-2147483648) = true.
Proof. vm_compute; reflexivity. Qed.
Example ex_sat_min : forall b, In b [release_build; checked_build] ->
  parse_number b (bytes "1") (bytes "2345678901234567890123456") (-2147483648)
  = Ok (mkNumber (-2147483648) 1234567890123456789 true).
Proof. intros b [<-|[<-|[]]]; vm_compute; reflexivity. Qed.
Example ex_sat_min_short : forall b, In b [release_build; checked_build] ->
  parse_number b (bytes "1") (bytes "5") (-2147483648) = Ok (mkNumber (-2147483648) 15 false).
Proof. intros b [<-|[<-|[]]]; vm_compute; reflexivity. Qed.

(** saturation at i32::MAX: exponent 2^31 - 1 and 6 dropped integer digits *)
Example ex_sat_max : forall b, In b [release_build; checked_build] ->
  parse_number b (bytes "1234567890123456789012345") [] 2147483647
  = Ok (mkNumber 2147483647 1234567890123456789 true).
Proof. intros b [<-|[<-|[]]]; vm_compute; reflexivity. Qed.

(** the hypotheses of [parse_number_spec] are satisfiable and its conclusion is informative *)
Example ex_spec_instance :
  exists n, parse_number checked_build (bytes "1234567890") (bytes "123456789012345") 3 = Ok n /\
            many n = true /\ nmant n = 1234567890123456789 /\ nexp n = -6.
Proof. eexists; split; [vm_compute; reflexivity|]. repeat split. Qed.

Print Assumptions parse_number_exact.
Print Assumptions parse_number_spec.
Print Assumptions parse_number_value_bracket.
Print Assumptions appended_zero_value.
