(** * SlowFacts1: the digit-reading part of the big-integer slow path (model/Slow.v, src/slow.rs).

    1. [scientific_exponent_spec]: the three power-reduction loops return
       [nexp n + (number of decimal digits of nmant n) - 1]; no fuel exhaustion, no overflow.
    2. [parse_mantissa_closed]: on digit strings, for every configuration whose small power-of-ten
       table is exact and every build, [parse_mantissa] does not panic and returns the closed
       form [pm_out maxd [] (strip0 (i ++ fr))]: the number formed by the first [maxd]
       significant digits, times ten plus one when a non-zero digit follows (count [maxd + 1]).
       [parse_mantissa_spec] restates this in the two cases D <= maxd / D > maxd.
    The positive digit comparison and [slow] are in SlowFacts1b.v. *)
From Coq Require Import ZArith List Bool Lia Znumtheory.
From Coq Require Import ZifyBool.
From ML Require Import base.RustSem model.Fmt model.Mask model.Num model.Number model.Rounding
  model.Vec model.Bigint model.Slow spec.Decimal gen.Consts gen.Tables gen.PowDump.
From ML Require Import proofs.TableFacts proofs.ParseFacts proofs.LimbVal proofs.BigintFacts1
  proofs.BigintFacts2.
Import ListNotations.
Open Scope Z_scope.

Local Opaque Z.pow.
Arguments Z.pow : simpl never.
(** ** 0. small facts *)
Lemma bindK {A B} (x : outcome A) (f : A -> outcome B) a : x = Ok a -> bind x f = f a.
Proof. intros ->. reflexivity. Qed.

Lemma p10_pos k : 0 <= k -> 0 < 10 ^ k.
Proof. intros. apply Z.pow_pos_nonneg; lia. Qed.

Lemma p10_add a c : 0 <= a -> 0 <= c -> 10 ^ (a + c) = 10 ^ a * 10 ^ c.
Proof. intros. apply Z.pow_add_r; lia. Qed.

Lemma p10_le a c : 0 <= a <= c -> 10 ^ a <= 10 ^ c.
Proof. intros. apply Z.pow_le_mono_r; lia. Qed.

Lemma p10_lt a c : 0 <= a < c -> 10 ^ a < 10 ^ c.
Proof. intros. apply Z.pow_lt_mono_r; lia. Qed.

Lemma sop32_ok b r : - 2 ^ 31 <= r < 2 ^ 31 -> sop b 32 r = Ok r.
Proof.
  intros H. unfold sop, in_s. change (32 - 1) with 31.
  replace ((- 2 ^ 31 <=? r) && (r <? 2 ^ 31)) with true by lia. reflexivity.
Qed.

(** ** 1. [scientific_exponent] *)

(** [d] is the number of decimal digits of [m] *)
Definition ndigits_is (m d : Z) : Prop := 1 <= d /\ 10 ^ (d - 1) <= m < 10 ^ d.

Lemma ndigits_is_unique m d1 d2 : ndigits_is m d1 -> ndigits_is m d2 -> d1 = d2.
Proof.
  intros [H1 [L1 U1]] [H2 [L2 U2]].
  destruct (Z_lt_le_dec d1 d2) as [H|H].
  - pose proof (p10_le d1 (d2 - 1) ltac:(lia)). lia.
  - destruct (Z_lt_le_dec d2 d1) as [H'|H']; [|lia].
    pose proof (p10_le d2 (d1 - 1) ltac:(lia)). lia.
Qed.

Lemma ndigits_is_u64 m d : ndigits_is m d -> m < 2 ^ 64 -> d <= 20.
Proof.
  intros [H1 [L1 U1]] Hm. destruct (Z_lt_le_dec 20 d) as [H|H]; [|exact H].
  pose proof (p10_le 20 (d - 1) ltac:(lia)).
  assert (2 ^ 64 < 10 ^ 20) by (vm_compute; reflexivity). lia.
Qed.

(** every positive u64 has a digit count (so the theorem is not vacuous) *)
Lemma ndigits_is_exists : forall (n : nat) m, 0 < m < 10 ^ Z.of_nat n ->
  exists d, ndigits_is m d /\ d <= Z.of_nat n.
Proof.
  induction n as [|n IH]; intros m Hm.
  - change (10 ^ Z.of_nat 0) with 1 in Hm. lia.
  - destruct (Z_lt_le_dec m (10 ^ Z.of_nat n)) as [Hlt|Hge].
    + destruct (IH m ltac:(lia)) as (d & Hd & Hle). exists d. split; [exact Hd|lia].
    + exists (Z.of_nat (S n)). split; [|lia]. split; [lia|].
      replace (Z.of_nat (S n) - 1) with (Z.of_nat n) by lia. lia.
Qed.

Corollary ndigits_is_exists_u64 m : 0 < m < 2 ^ 64 -> exists d, ndigits_is m d /\ d <= 20.
Proof.
  intros Hm. apply (ndigits_is_exists 20 m).
  assert (2 ^ 64 < 10 ^ Z.of_nat 20) by (vm_compute; reflexivity). lia.
Qed.

Lemma sci_loop_eq b fuel k step m e :
  sci_loop b fuel k step m e =
  if k <=? m then
    match fuel with
    | O => Panic PkFuel
    | S fuel' => e' <- i32_add b e step ;; sci_loop b fuel' k step (m / k) e'
    end
  else Ok (m, e).
Proof. destruct fuel; reflexivity. Qed.

(** one `while mantissa >= 10^step` loop: the sum exponent + digit count is invariant *)
Lemma sci_loop_spec b step : 1 <= step ->
  forall fuel m e d,
  ndigits_is m d -> d <= Z.of_nat fuel ->
  - 2 ^ 31 <= e -> e + d < 2 ^ 31 ->
  exists m' d', sci_loop b fuel (10 ^ step) step m e = Ok (m', e + d - d') /\
               ndigits_is m' d' /\ m' < 10 ^ step /\ d' <= d.
Proof.
  intros Hstep. induction fuel as [|fuel IH]; intros m e d Hd Hf He1 He2;
    rewrite sci_loop_eq.
  - destruct Hd as [H1 _]. lia.
  - destruct (10 ^ step <=? m) eqn:E.
    + destruct Hd as [H1 [L U]].
      assert (Hds : step < d).
      { destruct (Z_lt_le_dec step d) as [H|H]; [exact H|].
        pose proof (p10_le d step ltac:(lia)). lia. }
      pose proof (p10_pos step ltac:(lia)) as Hp.
      assert (Hd' : ndigits_is (m / 10 ^ step) (d - step)).
      { split; [lia|]. split.
        - apply Z.div_le_lower_bound; [lia|]. rewrite <- p10_add by lia.
          replace (step + (d - step - 1)) with (d - 1) by lia. exact L.
        - apply Z.div_lt_upper_bound; [lia|]. rewrite <- p10_add by lia.
          replace (step + (d - step)) with d by lia. exact U. }
      unfold i32_add. rewrite sop32_ok by lia. cbn [bind].
      destruct (IH (m / 10 ^ step) (e + step) (d - step) Hd' ltac:(lia) ltac:(lia) ltac:(lia))
        as (m' & d' & R & D' & B' & Le).
      exists m', d'. rewrite R. split; [f_equal; f_equal; lia|]. split; [exact D'|]. split; [exact B'|lia].
    + exists m, d. split; [f_equal; f_equal; lia|]. split; [exact Hd|]. split; [lia|lia].
Qed.

Theorem scientific_exponent_spec b n d :
  ndigits_is (nmant n) d -> nmant n < 2 ^ 64 ->
  - 2 ^ 31 <= nexp n < 2 ^ 31 - 64 ->
  scientific_exponent b n = Ok (nexp n + d - 1).
Proof.
  intros Hd Hm He. pose proof (ndigits_is_u64 _ _ Hd Hm) as Hd20.
  unfold scientific_exponent.
  destruct (sci_loop_spec b 4 ltac:(lia) 20 (nmant n) (nexp n) d Hd ltac:(lia) ltac:(lia) ltac:(lia))
    as (m1 & d1 & R1 & D1 & _ & L1).
  change 10000 with (10 ^ 4). rewrite R1. cbn [bind].
  destruct (sci_loop_spec b 2 ltac:(lia) 20 m1 (nexp n + d - d1) d1 D1 ltac:(lia)
              ltac:(destruct D1; lia) ltac:(lia))
    as (m2 & d2 & R2 & D2 & _ & L2).
  change 100 with (10 ^ 2). rewrite R2. cbn [bind].
  destruct (sci_loop_spec b 1 ltac:(lia) 20 m2 (nexp n + d - d1 + d1 - d2) d2 D2 ltac:(lia)
              ltac:(destruct D2; lia) ltac:(lia))
    as (m3 & d3 & R3 & D3 & B3 & L3).
  change 10 with (10 ^ 1) at 1. rewrite R3. cbn [bind].
  assert (d3 = 1).
  { destruct D3 as [H1 [L U]]. destruct (Z.eq_dec d3 1) as [|Hne]; [assumption|].
    pose proof (p10_le 1 (d3 - 1) ltac:(lia)). lia. }
  f_equal. lia.
Qed.

Example scientific_exponent_ex :
  scientific_exponent checked_build (mkNumber (-5) 12345678901234567890 true) = Ok 14 /\
  ndigits_is 12345678901234567890 20.
Proof. split; [vm_compute; reflexivity|]. split; [lia|]. split; vm_compute; [discriminate|reflexivity]. Qed.

(** ** 2. the vector invariant of the slow path *)

Section Vgood.
Variable c : config.
Variable L : limits.

(** limbs are u64, top limb non-zero, length within the capacity, capacity at least (stack: exactly)
    BIGINT_LIMBS *)
Definition vgood (v : vec) : Prop :=
  limbs_ok (vl v) /\ is_normalized (vl v) = true /\ zlen (vl v) <= vcap v /\
  BIGINT_LIMBS L <= vcap v /\ (alloc c = false -> vcap v = BIGINT_LIMBS L).

Lemma vgood_vnew : 0 <= BIGINT_LIMBS L -> vgood (vnew L).
Proof.
  intros H. unfold vgood, vnew. cbn [vl vcap]. change (zlen (@nil Z)) with 0.
  repeat split; try lia; try reflexivity. apply limbs_ok_nil.
Qed.

Lemma vgood_zero v : vgood v -> lval (vl v) = 0 -> vl v = [].
Proof. intros (H1 & H2 & _) H0. apply normalized_zero; assumption. Qed.

Lemma vgood_len_bound v : vgood v -> lval (vl v) < B64 ^ BIGINT_LIMBS L -> zlen (vl v) <= BIGINT_LIMBS L.
Proof.
  intros (H1 & H2 & H3 & H4 & _) Hb.
  destruct (vl v) as [|x r] eqn:E.
  - change (zlen (@nil Z)) with 0.
    destruct (Z_lt_le_dec (BIGINT_LIMBS L) 0) as [Hneg|Hpos]; [|exact Hpos].
    rewrite Z.pow_neg_r in Hb by assumption. pose proof (lval_nonneg _ H1). lia.
  - rewrite <- E in *. assert (Hne : vl v <> []) by (rewrite E; discriminate).
    pose proof (normalized_lower_bound _ H1 H2 Hne) as Hlow.
    destruct (Z_lt_le_dec (BIGINT_LIMBS L) (zlen (vl v))) as [Hlt|]; [|assumption].
    exfalso. destruct (Z_lt_le_dec (BIGINT_LIMBS L) 0) as [Hneg|Hpos].
    + rewrite Z.pow_neg_r in Hb by assumption. pose proof (lval_nonneg _ H1). lia.
    + pose proof (B64pow_mono (BIGINT_LIMBS L) (zlen (vl v) - 1) ltac:(lia)). lia.
Qed.

(** normalisation from the exact length given by [small_mul_spec] / [small_add_spec] *)
Lemma norm_from_len l l' (x : Z) :
  limbs_ok l -> is_normalized l = true -> limbs_ok l' ->
  lval l <= x -> lval l' = x ->
  zlen l' = zlen l + (if B64 ^ zlen l <=? x then 1 else 0) ->
  (l = [] -> x = 0 \/ B64 ^ zlen l <= x) ->
  is_normalized l' = true.
Proof.
  intros Hl Hn Hl' Hle Hv Hlen Hnil.
  destruct l' as [|a r'] eqn:E'; [reflexivity|]. rewrite <- E' in *.
  assert (Hne' : l' <> []) by (rewrite E'; discriminate).
  apply (is_normalized_lval _ Hl' Hne'). rewrite Hv, Hlen.
  destruct (B64 ^ zlen l <=? x) eqn:Ec.
  - replace (zlen l + 1 - 1) with (zlen l) by lia. lia.
  - replace (zlen l + 0 - 1) with (zlen l - 1) by lia.
    destruct l as [|a0 r0] eqn:E.
    + exfalso. specialize (Hnil eq_refl). change (zlen (@nil Z)) with 0 in *.
      rewrite Z.add_0_r in Hlen. assert (zlen l' = 0) by lia.
      apply zlen_0_nil in H. congruence.
    + rewrite <- E in *. assert (Hne : l <> []) by (rewrite E; discriminate).
      pose proof (normalized_lower_bound _ Hl Hn Hne). lia.
Qed.

Lemma small_mul_pres v y v' :
  vgood v -> 0 < y < B64 -> small_mul c v y = Some v' -> vgood v'.
Proof.
  intros (H1 & H2 & H3 & H4 & H5) Hy E.
  apply small_mul_spec in E; [|assumption|lia].
  destruct E as (V & O & Len & C & _ & G & I).
  pose proof (lval_nonneg _ H1) as Hnn.
  split; [exact O|]. split.
  - apply (norm_from_len (vl v) (vl v') (lval (vl v) * y)); try assumption; try nia.
    intros El. left. rewrite El. reflexivity.
  - split; [apply I; exact H3|]. split; [lia|]. intros Ha. rewrite (C Ha). apply H5, Ha.
Qed.

Lemma small_mul_good v y :
  vgood v -> 0 < y < B64 -> lval (vl v) * y < B64 ^ BIGINT_LIMBS L ->
  exists v', small_mul c v y = Some v' /\ lval (vl v') = lval (vl v) * y /\ vgood v'.
Proof.
  intros G Hy Hb. pose proof G as (H1 & H2 & H3 & H4 & H5).
  destruct (small_mul c v y) as [v'|] eqn:E.
  - exists v'. split; [reflexivity|]. split; [|eapply small_mul_pres; eassumption].
    apply small_mul_spec in E; [|assumption|lia]. tauto.
  - exfalso. apply small_mul_None in E; [|assumption|lia].
    destruct E as (Ha & E1 & E2). specialize (H5 Ha).
    pose proof (zlen_nonneg (vl v)).
    pose proof (B64pow_mono (BIGINT_LIMBS L) (zlen (vl v)) ltac:(lia)). lia.
Qed.

Lemma small_add_good v y :
  vgood v -> 0 <= y < B64 -> lval (vl v) + y < B64 ^ BIGINT_LIMBS L ->
  exists v', small_add c v y = Some v' /\ lval (vl v') = lval (vl v) + y /\ vgood v'.
Proof.
  intros (H1 & H2 & H3 & H4 & H5) Hy Hb.
  destruct (small_add c v y) as [v'|] eqn:E.
  - exists v'. split; [reflexivity|].
    apply small_add_spec in E; [|assumption|lia].
    destruct E as (V & O & Len & C & _ & G & I). split; [exact V|].
    pose proof (lval_nonneg _ H1) as Hnn.
    split; [exact O|]. split.
    + apply (norm_from_len (vl v) (vl v') (lval (vl v) + y)); try assumption; try lia.
      intros El. rewrite El. cbn [lval]. change (zlen (@nil Z)) with 0. rewrite Z.pow_0_r. lia.
    + split; [apply I; exact H3|]. split; [lia|]. intros Ha. rewrite (C Ha). apply H5, Ha.
  - exfalso. apply small_add_None in E; [|assumption|lia].
    destruct E as (Ha & E1 & E2). specialize (H5 Ha).
    pose proof (zlen_nonneg (vl v)).
    pose proof (B64pow_mono (BIGINT_LIMBS L) (zlen (vl v)) ltac:(lia)). lia.
Qed.

End Vgood.

(** ** 3. [parse_mantissa] *)

(** closed form of the result: [d0] = digits already accumulated, [l] = digits still to read.
    The first [maxd] digits are read exactly; the rest only contributes a sticky "non-zero". *)
Definition pm_out (maxd : Z) (d0 l : list Z) : Z * Z :=
  let k := Z.to_nat (maxd - zlen d0) in
  let N0 := digits_to_Z (d0 ++ firstn k l) in
  if forallb (fun d => d =? 48) (skipn k l) then (N0, zlen d0 + zlen (firstn k l))
  else (N0 * 10 + 1, maxd + 1).

Lemma pm_out_step maxd d0 ch r :
  zlen d0 + 1 <= maxd -> pm_out maxd (d0 ++ [ch]) r = pm_out maxd d0 (ch :: r).
Proof.
  intros H. unfold pm_out. cbv zeta. rewrite zlen_app. change (zlen [ch]) with 1.
  pose proof (zlen_nonneg d0).
  replace (Z.to_nat (maxd - zlen d0)) with (S (Z.to_nat (maxd - (zlen d0 + 1)))) by lia.
  cbn [firstn skipn]. rewrite <- app_assoc. cbn [app].
  rewrite (zlen_cons ch (firstn _ r)).
  destruct (forallb _ _); f_equal; lia.
Qed.

Lemma pm_out_shift maxd l : forall d0 r,
  zlen d0 + zlen l <= maxd -> pm_out maxd (d0 ++ l) r = pm_out maxd d0 (l ++ r).
Proof.
  induction l as [|x l IH]; intros d0 r H.
  - rewrite app_nil_r. reflexivity.
  - rewrite zlen_cons in H. pose proof (zlen_nonneg l).
    replace (d0 ++ x :: l) with ((d0 ++ [x]) ++ l) by (rewrite <- app_assoc; reflexivity).
    rewrite IH by (rewrite zlen_app; change (zlen [x]) with 1; lia).
    rewrite pm_out_step by lia. reflexivity.
Qed.

(** the table side condition: `int_pow_fast_path(counter, 10)` for counter <= 19 *)
Definition pm_tables_ok (c : config) (T : tables) : bool :=
  compact c || (int_pow_ok 10 (SMALL_INT_POW10 T) && (20 <=? zlen (SMALL_INT_POW10 T))).

Lemma pm_tables_ok_TABLES c : pm_tables_ok c TABLES = true.
Proof. unfold pm_tables_ok. destruct (compact c); [reflexivity|]. vm_compute. reflexivity. Qed.

Lemma p10_19_lt_B64 : 10 ^ 19 < B64.
Proof. vm_compute. reflexivity. Qed.

Lemma uop64_ok b r : 0 <= r < B64 -> uop b 64 r = Ok r.
Proof.
  intros H. unfold uop, in_u. change (2 ^ 64) with B64.
  replace ((0 <=? r) && (r <? B64)) with true by lia. reflexivity.
Qed.

Lemma int_pow10_fast c T b k :
  pm_tables_ok c T = true -> 0 <= k <= 19 ->
  int_pow_fast_path c T b k true = Ok (10 ^ k).
Proof.
  intros HT Hk. unfold int_pow_fast_path, pm_tables_ok in *.
  pose proof (p10_le k 19 ltac:(lia)). pose proof (p10_pos k ltac:(lia)). pose proof p10_19_lt_B64.
  destruct (compact c).
  - unfold as_u32, wrapu. rewrite Z.mod_small.
    + apply uop64_ok. lia.
    + split; [lia|]. apply Z.le_lt_trans with 19; [lia|]. vm_compute. reflexivity.
  - cbn [orb] in HT. apply andb_prop in HT. destruct HT as [HA HB].
    unfold index_unchecked. fold (zlen (SMALL_INT_POW10 T)).
    replace ((0 <=? k) && (k <? zlen (SMALL_INT_POW10 T))) with true by lia.
    pose proof (check_from_nth0 _ 0 _ HA k ltac:(lia)) as P. cbv beta in P.
    apply Z.eqb_eq in P. rewrite P. reflexivity.
Qed.

Section PM.
Variable c : config.
Variable T : tables.
Variable L : limits.
Variable b : build.
Variable maxd : Z.
Hypothesis HT : pm_tables_ok c T = true.
Hypothesis Hcap : 10 ^ (maxd + 1) <= B64 ^ BIGINT_LIMBS L.
Hypothesis Hmaxd : 0 < maxd.

Let CAP := B64 ^ BIGINT_LIMBS L.

Lemma cap_nonneg : 0 <= BIGINT_LIMBS L.
Proof.
  destruct (Z_lt_le_dec (BIGINT_LIMBS L) 0) as [H|H]; [|exact H].
  rewrite (Z.pow_neg_r B64) in Hcap by assumption.
  pose proof (p10_pos (maxd + 1) ltac:(lia)). lia.
Qed.

(** the loop invariant: [d0] are the digits accumulated so far *)
Definition pm_ok (s : pm_state) (d0 : list Z) : Prop :=
  vgood c L (pm_result s) /\
  0 <= pm_counter s <= 19 /\
  0 <= pm_value s < 10 ^ pm_counter s /\
  pm_count s = zlen d0 /\ zlen d0 <= maxd /\
  lval (vl (pm_result s)) * 10 ^ pm_counter s + pm_value s = digits_to_Z d0 /\
  forallb digitb d0 = true.

Lemma pm_ok_init : pm_ok (mkPm 0 0 0 (vnew L)) [].
Proof.
  unfold pm_ok. cbn [pm_result pm_counter pm_value pm_count].
  split; [apply vgood_vnew, cap_nonneg|]. rewrite Z.pow_0_r.
  change (zlen (@nil Z)) with 0. repeat split; try lia; reflexivity.
Qed.

Lemma pm_ok_val_bound s d0 : pm_ok s d0 -> 0 <= digits_to_Z d0 < 10 ^ maxd.
Proof.
  intros (_ & _ & _ & _ & Hl & _ & Hd). pose proof (digits_bound d0 Hd).
  pose proof (p10_le (zlen d0) maxd ltac:(pose proof (zlen_nonneg d0); lia)). lia.
Qed.

Lemma p10_maxd_cap : 10 ^ maxd * 10 <= CAP.
Proof. unfold CAP. rewrite p10_add in Hcap by lia. change (10 ^ 1) with 10 in Hcap. exact Hcap. Qed.

(** `add_digit!` *)
Lemma pm_add_digit_ok s d0 ch :
  pm_ok s d0 -> pm_counter s < 19 -> zlen d0 < maxd -> digitb ch = true ->
  exists s', pm_add_digit b ch s = Ok s' /\ pm_ok s' (d0 ++ [ch]).
Proof.
  intros (G & Hc & Hv & Hn & Hl & Hval & Hd) Hlt Hlen Hch.
  unfold pm_add_digit. rewrite u8_sub_digit by assumption. cbn [bind].
  pose proof (digitb_range ch Hch) as Hr.
  pose proof (p10_le (pm_counter s + 1) 19 ltac:(lia)) as Hle.
  rewrite p10_add in Hle by lia. change (10 ^ 1) with 10 in Hle.
  pose proof p10_19_lt_B64.
  unfold u64_mul, u64_add. rewrite uop64_ok by lia. cbn [bind].
  rewrite uop64_ok by lia. cbn [bind].
  eexists. split; [reflexivity|]. unfold pm_ok. cbn [pm_result pm_counter pm_value pm_count].
  split; [exact G|]. split; [lia|]. rewrite p10_add by lia. change (10 ^ 1) with 10.
  split; [lia|]. rewrite zlen_app. change (zlen [ch]) with 1.
  split; [lia|]. split; [lia|]. split.
  - rewrite digits_to_Z_app. change (zlen [ch]) with 1. change (10 ^ 1) with 10.
    rewrite (digits_to_Z_cons_lin ch []). change (zlen (@nil Z)) with 0.
    rewrite Z.pow_0_r, digits_to_Z_nil, <- Hval. ring.
  - rewrite forallb_app, Hd. cbn [forallb]. rewrite Hch. reflexivity.
Qed.

(** `add_temporary!(@mul ...)` *)
Lemma pm_mul_add_ok r power value :
  vgood c L r -> 0 < power < B64 -> 0 <= value < B64 ->
  lval (vl r) * power + value < CAP ->
  exists r', pm_mul_add c r power value = Ok r' /\
             lval (vl r') = lval (vl r) * power + value /\ vgood c L r'.
Proof.
  intros G Hp Hv Hb. unfold pm_mul_add.
  destruct (small_mul_good c L r power G Hp ltac:(fold CAP; lia)) as (r1 & E1 & V1 & G1).
  rewrite E1. cbn [unwrap bind].
  destruct (small_add_good c L r1 value G1 Hv ltac:(fold CAP; lia)) as (r2 & E2 & V2 & G2).
  rewrite E2. cbn [unwrap]. exists r2. split; [reflexivity|]. split; [lia|exact G2].
Qed.

(** `add_temporary!(@max ...)` at a full chunk *)
Lemma pm_flush_max_ok s d0 :
  pm_ok s d0 -> pm_counter s = 19 ->
  exists s', pm_flush_max c s = Ok s' /\ pm_ok s' d0 /\ pm_counter s' = 0.
Proof.
  intros Hok Hc19. pose proof (pm_ok_val_bound s d0 Hok) as Hb.
  destruct Hok as (G & Hc & Hv & Hn & Hl & Hval & Hd).
  unfold pm_flush_max. rewrite Hc19 in *.
  pose proof p10_19_lt_B64. pose proof p10_maxd_cap. pose proof (p10_pos 19 ltac:(lia)).
  change pm_max_native with (10 ^ 19).
  destruct (pm_mul_add_ok (pm_result s) (10 ^ 19) (pm_value s) G ltac:(lia) ltac:(lia) ltac:(lia))
    as (r' & E & V & G').
  rewrite E. cbn [bind]. eexists. split; [reflexivity|]. split; [|reflexivity].
  unfold pm_ok. cbn [pm_result pm_counter pm_value pm_count]. rewrite Z.pow_0_r.
  split; [exact G'|]. repeat split; try assumption; try lia.
Qed.

(** `add_temporary!(@end ...)`: the result now holds all the digits read *)
Lemma pm_flush_end_ok s d0 :
  pm_ok s d0 ->
  exists s', pm_flush_end c T b s = Ok s' /\ vgood c L (pm_result s') /\
             lval (vl (pm_result s')) = digits_to_Z d0 /\ pm_count s' = pm_count s.
Proof.
  intros Hok. pose proof (pm_ok_val_bound s d0 Hok) as Hb.
  destruct Hok as (G & Hc & Hv & Hn & Hl & Hval & Hd).
  unfold pm_flush_end. destruct (Z.eqb_spec (pm_counter s) 0) as [E0|E0]; cbn [negb].
  - exists s. split; [reflexivity|]. split; [exact G|]. split; [|reflexivity].
    rewrite E0, Z.pow_0_r in *. lia.
  - rewrite int_pow10_fast by (assumption || lia). cbn [bind].
    pose proof (p10_le (pm_counter s) 19 ltac:(lia)). pose proof (p10_pos (pm_counter s) ltac:(lia)).
    pose proof p10_19_lt_B64. pose proof p10_maxd_cap.
    destruct (pm_mul_add_ok (pm_result s) (10 ^ pm_counter s) (pm_value s) G ltac:(lia) ltac:(lia) ltac:(lia))
      as (r' & E & V & G').
    rewrite E. cbn [bind]. eexists. split; [reflexivity|].
    cbn [pm_result pm_count]. split; [exact G'|]. split; [lia|reflexivity].
Qed.

Definition all0 (l : list Z) : bool := forallb (fun d => d =? 48) l.

(** `round_up_nonzero!` *)
Lemma pm_round_up_ok l : forall s,
  vgood c L (pm_result s) -> lval (vl (pm_result s)) * 10 + 1 < CAP ->
  exists s', pm_round_up c l s = Ok (s', negb (all0 l)) /\
    if all0 l then s' = s
    else vgood c L (pm_result s') /\ lval (vl (pm_result s')) = lval (vl (pm_result s)) * 10 + 1 /\
         pm_count s' = pm_count s + 1.
Proof.
  induction l as [|d r IH]; intros s G Hb; cbn [pm_round_up all0 forallb].
  - exists s. split; reflexivity.
  - destruct (d =? 48) eqn:E; cbn [negb andb].
    + apply IH; assumption.
    + assert (H10 : 0 < 10 < B64) by (split; [lia|vm_compute; reflexivity]).
      assert (H1 : 0 <= 1 < B64) by (split; [lia|vm_compute; reflexivity]).
      destruct (pm_mul_add_ok (pm_result s) 10 1 G H10 H1 Hb) as (r' & E' & V & G').
      rewrite E'. cbn [bind]. eexists. split; [reflexivity|].
      cbn [pm_result pm_count]. split; [exact G'|]. split; [exact V|reflexivity].
Qed.

(** where the head of the inner `while` sends the control *)
Lemma pm_settle_ok s d0 :
  pm_ok s d0 ->
  (zlen d0 = maxd /\ pm_settle c maxd s = Ok (PmFinish s)) \/
  (zlen d0 < maxd /\ exists s', pm_settle c maxd s = Ok (PmRead s') /\ pm_ok s' d0 /\ pm_counter s' < 19).
Proof.
  intros Hok. pose proof Hok as (G & Hc & Hv & Hn & Hl & Hval & Hd).
  unfold pm_settle, pm_step. rewrite Hn.
  destruct (Z.eq_dec (zlen d0) maxd) as [Em|Em].
  - left. split; [exact Em|].
    replace ((pm_counter s <? 19) && (zlen d0 <? maxd)) with false by lia.
    replace (zlen d0 =? maxd) with true by lia. reflexivity.
  - right. split; [lia|].
    destruct (pm_counter s <? 19) eqn:Ec.
    + replace (zlen d0 <? maxd) with true by lia. cbn [andb].
      exists s. split; [reflexivity|]. split; [exact Hok|lia].
    + cbn [andb]. replace (zlen d0 =? maxd) with false by lia.
      destruct (pm_flush_max_ok s d0 Hok ltac:(lia)) as (s' & E & Hok' & C0).
      rewrite E. cbn [bind]. destruct Hok' as (G' & Hc' & Hv' & Hn' & Hl' & Hval' & Hd').
      rewrite Hn'. replace (zlen d0 <? maxd) with true by lia.
      exists s'. split; [reflexivity|]. split; [|lia].
      split; [exact G'|]. repeat split; try assumption; lia.
Qed.

(** the code after `if count == max_digits`: flush, then look for a non-zero digit in [l] *)
Lemma pm_finish_ok s d0 l :
  pm_ok s d0 -> zlen d0 = maxd ->
  exists s2 s3, pm_flush_end c T b s = Ok s2 /\ pm_round_up c l s2 = Ok (s3, negb (all0 l)) /\
    vgood c L (pm_result s3) /\ (lval (vl (pm_result s3)), pm_count s3) = pm_out maxd d0 l /\
    (all0 l = true -> s3 = s2).
Proof.
  intros Hok Hlen. pose proof (pm_ok_val_bound s d0 Hok) as Hb.
  pose proof Hok as (G & Hc & Hv & Hn & Hl & Hval & Hd).
  destruct (pm_flush_end_ok s d0 Hok) as (s2 & E2 & G2 & V2 & C2).
  pose proof p10_maxd_cap.
  destruct (pm_round_up_ok l s2 G2 ltac:(lia)) as (s3 & E3 & R3).
  exists s2, s3. split; [exact E2|]. split; [exact E3|].
  unfold pm_out. cbv zeta. replace (maxd - zlen d0) with 0 by lia.
  cbn [Z.to_nat firstn skipn]. rewrite app_nil_r. change (zlen (@nil Z)) with 0.
  fold (all0 l). destruct (all0 l).
  - subst s3. split; [exact G2|]. split; [|reflexivity]. f_equal; lia.
  - destruct R3 as (G3 & V3 & C3). split; [exact G3|]. split; [|discriminate]. f_equal; lia.
Qed.

(** the fraction loop *)
Lemma pm_frac_ok l : forall s d0,
  pm_ok s d0 -> forallb digitb l = true ->
  exists v cnt, pm_frac c T b maxd l s = Ok (v, cnt) /\
                (lval (vl v), cnt) = pm_out maxd d0 l /\ vgood c L v.
Proof.
  induction l as [|ch r IH]; intros s d0 Hok Hl; cbn [pm_frac].
  - destruct (pm_settle_ok s d0 Hok) as [[Hm E]|[Hm (s' & E & Hok' & Hc')]]; rewrite E; cbn [bind].
    + destruct (pm_finish_ok s d0 [] Hok Hm) as (s2 & s3 & E2 & E3 & G3 & V3 & _).
      rewrite E2. cbn [bind]. rewrite E3. cbn [bind]. eauto.
    + destruct (pm_flush_end_ok s' d0 Hok') as (s2 & E2 & G2 & V2 & C2).
      rewrite E2. cbn [bind]. eexists. eexists. split; [reflexivity|]. split; [|exact G2].
      unfold pm_out. cbv zeta. rewrite firstn_nil, skipn_nil, app_nil_r. cbn [forallb].
      change (zlen (@nil Z)) with 0. destruct Hok' as (_ & _ & _ & Hn & _). f_equal; lia.
  - cbn [forallb] in Hl. apply andb_prop in Hl. destruct Hl as [Hch Hr].
    destruct (pm_settle_ok s d0 Hok) as [[Hm E]|[Hm (s' & E & Hok' & Hc')]]; rewrite E; cbn [bind].
    + destruct (pm_finish_ok s d0 (ch :: r) Hok Hm) as (s2 & s3 & E2 & E3 & G3 & V3 & _).
      rewrite E2. cbn [bind]. rewrite E3. cbn [bind]. eauto.
    + destruct (pm_add_digit_ok s' d0 ch Hok' Hc' Hm Hch) as (s2 & E2 & Hok2).
      rewrite E2. cbn [bind].
      destruct (IH s2 (d0 ++ [ch]) Hok2 Hr) as (v & cnt & E3 & V3 & G3).
      exists v, cnt. split; [exact E3|]. split; [|exact G3].
      rewrite V3. apply pm_out_step. lia.
Qed.

Lemma all0_app l1 l2 : all0 (l1 ++ l2) = all0 l1 && all0 l2.
Proof. apply forallb_app. Qed.

Lemma pm_round_up_app_zero l1 l2 s :
  all0 l1 = true -> pm_round_up c (l1 ++ l2) s = pm_round_up c l2 s.
Proof.
  induction l1 as [|x l1 IH]; intros H; [reflexivity|].
  cbn [all0 forallb] in H. apply andb_prop in H. destruct H as [Hx H].
  cbn [app pm_round_up]. rewrite Hx. cbn [negb]. apply IH, H.
Qed.

Lemma pm_round_up_app_hit l1 l2 s :
  all0 l1 = false -> pm_round_up c (l1 ++ l2) s = pm_round_up c l1 s.
Proof.
  induction l1 as [|x l1 IH]; intros H; [discriminate|].
  cbn [all0 forallb] in H. cbn [app pm_round_up].
  destruct (x =? 48); cbn [negb andb] in *; [apply IH, H|reflexivity].
Qed.

(** the integer loop *)
Lemma pm_int_ok fr l : forall s d0,
  pm_ok s d0 -> forallb digitb l = true ->
  (zlen d0 + zlen l < maxd ->
   exists s', pm_int c T b maxd l fr s = Ok (inl s') /\ pm_ok s' (d0 ++ l) /\ pm_counter s' < 19) /\
  (maxd <= zlen d0 + zlen l ->
   exists v cnt, pm_int c T b maxd l fr s = Ok (inr (v, cnt)) /\
                 (lval (vl v), cnt) = pm_out maxd d0 (l ++ fr) /\ vgood c L v).
Proof.
  assert (FIN : forall s d0 l1, pm_ok s d0 -> zlen d0 = maxd ->
    exists v cnt,
      (s2 <- pm_flush_end c T b s ;;
       '(s3, hit) <- pm_round_up c l1 s2 ;;
       if hit then Ok (@inr pm_state (vec * Z) (pm_result s3, pm_count s3))
       else '(s4, _) <- pm_round_up c fr s3 ;; Ok (@inr pm_state (vec * Z) (pm_result s4, pm_count s4)))
      = Ok (@inr pm_state (vec * Z) (v, cnt)) /\
      (lval (vl v), cnt) = pm_out maxd d0 (l1 ++ fr) /\ vgood c L v).
  { intros s d0 l1 Hok Hm.
    destruct (pm_finish_ok s d0 (l1 ++ fr) Hok Hm) as (s2 & s3 & E2 & E3 & G3 & V3 & _).
    rewrite E2. cbn [bind]. rewrite all0_app in E3.
    destruct (all0 l1) eqn:El; cbn [andb] in E3.
    - assert (E1 : pm_round_up c l1 s2 = Ok (s2, false)).
      { rewrite <- (app_nil_r l1), pm_round_up_app_zero by exact El. reflexivity. }
      rewrite E1. cbn [bind]. rewrite pm_round_up_app_zero in E3 by exact El.
      rewrite E3. cbn [bind]. eauto.
    - rewrite pm_round_up_app_hit in E3 by exact El. cbn [negb] in E3.
      rewrite E3. cbn [bind]. eauto. }
  induction l as [|ch r IH]; intros s d0 Hok Hl; cbn [pm_int].
  - change (zlen (@nil Z)) with 0. rewrite app_nil_r.
    destruct (pm_settle_ok s d0 Hok) as [[Hm E]|[Hm (s' & E & Hok' & Hc')]]; rewrite E; cbn [bind];
      (split; [intros Hlt|intros Hge]); try lia.
    + apply (FIN s d0 [] Hok Hm).
    + exists s'. auto.
  - cbn [forallb] in Hl. apply andb_prop in Hl. destruct Hl as [Hch Hr].
    rewrite zlen_cons. pose proof (zlen_nonneg r).
    destruct (pm_settle_ok s d0 Hok) as [[Hm E]|[Hm (s' & E & Hok' & Hc')]]; rewrite E; cbn [bind].
    + split; [intros Hlt; lia|intros _]. apply (FIN s d0 (ch :: r) Hok Hm).
    + destruct (pm_add_digit_ok s' d0 ch Hok' Hc' Hm Hch) as (s2 & E2 & Hok2).
      rewrite E2. cbn [bind].
      destruct (IH s2 (d0 ++ [ch]) Hok2 Hr) as [IH1 IH2].
      rewrite zlen_app in IH1, IH2. change (zlen [ch]) with 1 in IH1, IH2.
      split.
      * intros Hlt. destruct (IH1 ltac:(lia)) as (s3 & E3 & Hok3 & Hc3).
        exists s3. split; [exact E3|]. rewrite <- app_assoc in Hok3. auto.
      * intros Hge. destruct (IH2 ltac:(lia)) as (v & cnt & E3 & V3 & G3).
        exists v, cnt. split; [exact E3|]. split; [|exact G3].
        rewrite V3. cbn [app]. apply pm_out_step. lia.
Qed.

(** skipping the leading fraction zeros *)
Lemma pm_skip_ok l : forall s,
  pm_ok s [] -> pm_counter s < 19 -> forallb digitb l = true ->
  exists s' r, pm_skip b l s = Ok (s', r) /\
    match strip0 l with
    | [] => s' = s /\ r = []
    | ch :: r' => r = r' /\ pm_ok s' [ch]
    end.
Proof.
  induction l as [|ch l IH]; intros s Hok Hc Hl; cbn [pm_skip strip0].
  - eauto.
  - cbn [forallb] in Hl. apply andb_prop in Hl. destruct Hl as [Hch Hr].
    destruct (ch =? 48) eqn:E; cbn [negb].
    + apply IH; assumption.
    + destruct (pm_add_digit_ok s [] ch Hok Hc ltac:(change (zlen (@nil Z)) with 0; lia) Hch) as (s2 & E2 & Hok2).
      rewrite E2. cbn [bind]. exists s2, l. split; [reflexivity|]. split; [reflexivity|exact Hok2].
Qed.

(** *** Main theorem for [parse_mantissa]: closed form *)
Theorem parse_mantissa_closed i fr :
  forallb digitb i = true -> forallb digitb fr = true ->
  (forall ch r, i = ch :: r -> ch <> 48) ->
  exists v cnt, parse_mantissa c T L b i fr maxd = Ok (v, cnt) /\
    (lval (vl v), cnt) = pm_out maxd [] (strip0 (i ++ fr)) /\ vgood c L v.
Proof.
  intros Hi Hfr Hlead. unfold parse_mantissa.
  destruct (pm_int_ok fr i _ [] pm_ok_init Hi) as [P1 P2].
  change (zlen (@nil Z)) with 0 in P1, P2. cbn [app] in P1, P2.
  assert (Hs : i <> [] -> strip0 (i ++ fr) = i ++ fr).
  { destruct i as [|x r]; [congruence|]. intros _. cbn [app]. apply strip0_nolead. eapply Hlead; reflexivity. }
  destruct (Z_lt_le_dec (zlen i) maxd) as [Hlt|Hge].
  - destruct (P1 ltac:(lia)) as (s' & E & Hok & Hc). rewrite E. cbn [bind].
    pose proof Hok as (_ & _ & _ & Hn & _). rewrite Hn.
    destruct i as [|x r].
    + change (zlen (@nil Z)) with 0. cbn [Z.eqb app].
      destruct (pm_skip_ok fr s' Hok Hc Hfr) as (s1 & fr1 & E1 & R1). rewrite E1. cbn [bind].
      pose proof (strip0_digits fr Hfr) as Hsd.
      destruct (strip0 fr) as [|ch r'] eqn:Es.
      * destruct R1 as [-> ->]. apply (pm_frac_ok [] s' [] Hok eq_refl).
      * destruct R1 as [-> Hok1]. cbn [forallb] in Hsd. apply andb_prop in Hsd.
        destruct (pm_frac_ok r' s1 [ch] Hok1 (proj2 Hsd)) as (v & cnt & E2 & V2 & G2).
        exists v, cnt. split; [exact E2|]. split; [|exact G2]. rewrite V2.
        apply (pm_out_step maxd [] ch r'). change (zlen (@nil Z)) with 0. lia.
    + rewrite zlen_cons. pose proof (zlen_nonneg r).
      replace (zlen r + 1 =? 0) with false by lia. cbn [bind].
      destruct (pm_frac_ok fr s' (x :: r) Hok Hfr) as (v & cnt & E2 & V2 & G2).
      exists v, cnt. split; [exact E2|]. split; [|exact G2]. rewrite V2, Hs by discriminate.
      apply (pm_out_shift maxd (x :: r) [] fr). change (zlen (@nil Z)) with 0. lia.
  - destruct (P2 Hge) as (v & cnt & E & V & G). rewrite E. cbn [bind].
    exists v, cnt. split; [reflexivity|]. split; [|exact G]. rewrite V, Hs; [reflexivity|].
    intros ->. change (zlen (@nil Z)) with 0 in Hge. lia.
Qed.

End PM.

(** *** the closed form in the two cases of the task *)
Lemma pm_out_short maxd s : zlen s <= maxd -> pm_out maxd [] s = (digits_to_Z s, zlen s).
Proof.
  intros H. unfold pm_out. cbv zeta. change (zlen (@nil Z)) with 0. rewrite Z.sub_0_r. cbn [app].
  rewrite firstn_all2 by (unfold zlen in H; lia). rewrite skipn_all2 by (unfold zlen in H; lia).
  cbn [forallb]. f_equal; lia.
Qed.

Lemma pm_out_long maxd s :
  0 <= maxd < zlen s ->
  pm_out maxd [] s =
  if all0 (skipn (Z.to_nat maxd) s) then (digits_to_Z (firstn (Z.to_nat maxd) s), maxd)
  else (digits_to_Z (firstn (Z.to_nat maxd) s) * 10 + 1, maxd + 1).
Proof.
  intros H. unfold pm_out. cbv zeta. change (zlen (@nil Z)) with 0. rewrite Z.sub_0_r. cbn [app].
  fold (all0 (skipn (Z.to_nat maxd) s)). rewrite ParseFacts.zlen_firstn.
  destruct (all0 _); f_equal; lia.
Qed.

Lemma pm_out_pos maxd s :
  0 < maxd -> forallb digitb s = true -> s <> [] -> (forall ch r, s = ch :: r -> ch <> 48) ->
  0 < fst (pm_out maxd [] s).
Proof.
  intros Hm Hd Hne Hlead. destruct s as [|ch r]; [congruence|]. specialize (Hlead ch r eq_refl).
  unfold pm_out. cbv zeta. change (zlen (@nil Z)) with 0. rewrite Z.sub_0_r. cbn [app].
  replace (Z.to_nat maxd) with (S (Z.to_nat (maxd - 1))) by lia. cbn [firstn skipn].
  set (k := Z.to_nat (maxd - 1)).
  assert (Hd' : forallb digitb (ch :: firstn k r) = true).
  { cbn [forallb] in *. apply andb_prop in Hd. destruct Hd as [H1 H2]. rewrite H1. cbn [andb].
    rewrite <- (firstn_skipn k r) in H2. apply forallb_app_l in H2. exact H2. }
  pose proof (digits_lower ch (firstn k r) Hd' Hlead) as Hlow.
  pose proof (p10_pos (zlen (firstn k r)) (zlen_nonneg _)).
  destruct (forallb (fun d => d =? 48) _); cbn [fst]; lia.
Qed.

Theorem parse_mantissa_spec c T L b maxd i fr :
  pm_tables_ok c T = true -> 10 ^ (maxd + 1) <= B64 ^ BIGINT_LIMBS L -> 0 < maxd ->
  forallb digitb i = true -> forallb digitb fr = true ->
  (forall ch r, i = ch :: r -> ch <> 48) ->
  let s := strip0 (i ++ fr) in
  let D := zlen s in
  let k := Z.to_nat maxd in
  exists v cnt, parse_mantissa c T L b i fr maxd = Ok (v, cnt) /\
    vgood c L v /\
    (D <= maxd -> lval (vl v) = digits_to_Z s /\ cnt = D) /\
    (maxd < D ->
       if all0 (skipn k s) then lval (vl v) = digits_to_Z (firstn k s) /\ cnt = maxd
       else lval (vl v) = digits_to_Z (firstn k s) * 10 + 1 /\ cnt = maxd + 1) /\
    (s <> [] -> 0 < lval (vl v)) /\
    0 <= lval (vl v) < 10 ^ (maxd + 1) /\ 0 <= cnt <= maxd + 1.
Proof.
  intros HT Hcap Hm Hi Hfr Hlead s D k.
  destruct (parse_mantissa_closed c T L b maxd HT Hcap Hm i fr Hi Hfr Hlead) as (v & cnt & E & V & G).
  fold s in V. exists v, cnt. split; [exact E|]. split; [exact G|].
  assert (Hsd : forallb digitb s = true).
  { apply strip0_digits. rewrite forallb_app, Hi, Hfr. reflexivity. }
  assert (Hshead : forall ch r, s = ch :: r -> ch <> 48) by (intros ch r; apply strip0_head).
  assert (C1 : D <= maxd -> lval (vl v) = digits_to_Z s /\ cnt = D).
  { intros H. rewrite pm_out_short in V by exact H. injection V as -> ->. auto. }
  assert (C2 : maxd < D ->
       if all0 (skipn k s) then lval (vl v) = digits_to_Z (firstn k s) /\ cnt = maxd
       else lval (vl v) = digits_to_Z (firstn k s) * 10 + 1 /\ cnt = maxd + 1).
  { intros H. rewrite pm_out_long in V by (fold D; lia). fold k in V.
    destruct (all0 (skipn k s)); injection V as -> ->; auto. }
  split; [exact C1|]. split; [exact C2|]. split.
  - intros Hne. pose proof (pm_out_pos maxd s Hm Hsd Hne Hshead) as P. rewrite <- V in P. exact P.
  - pose proof (zlen_nonneg s) as HD0. fold D in HD0.
    pose proof (digits_bound s Hsd) as Hb. fold D in Hb.
    rewrite p10_add by lia. change (10 ^ 1) with 10.
    destruct (Z_le_gt_dec D maxd) as [Hle|Hgt].
    + destruct (C1 Hle) as [-> ->]. pose proof (p10_le D maxd ltac:(lia)).
      pose proof (p10_pos maxd ltac:(lia)). lia.
    + specialize (C2 ltac:(lia)).
      assert (Hfd : forallb digitb (firstn k s) = true).
      { rewrite <- (firstn_skipn k s) in Hsd. apply forallb_app_l in Hsd. exact Hsd. }
      pose proof (digits_bound _ Hfd) as Hfb. rewrite ParseFacts.zlen_firstn in Hfb.
      fold D in Hfb. replace (Z.min (Z.of_nat k) D) with maxd in Hfb by lia.
      destruct (all0 (skipn k s)); destruct C2 as [-> ->]; lia.
Qed.

(** ** Examples *)
Definition digs (n : nat) (d : Z) : list Z := repeat d n.

(** 800 digits, f64 (max 769 + 1): a non-zero digit at position 800 *)
Example parse_mantissa_800 :
  let i := digs 799 49 ++ [50] in
  match parse_mantissa CFG_s TABLES LIMITS checked_build i [] (MAX_DIGITS F64) with
  | Ok (v, cnt) => lval (vl v) = digits_to_Z (digs 769 49) * 10 + 1 /\ cnt = 770 /\
                   is_normalized (vl v) = true
  | _ => False
  end.
Proof. vm_compute. repeat split; reflexivity. Qed.

(** the same digits with only zeros after position 769: not rounded up *)
Example parse_mantissa_800_zeros :
  let i := digs 769 49 ++ digs 31 48 in
  match parse_mantissa CFG_sa TABLES LIMITS release_build i [48; 48] (MAX_DIGITS F64) with
  | Ok (v, cnt) => lval (vl v) = digits_to_Z (digs 769 49) /\ cnt = 769
  | _ => False
  end.
Proof. vm_compute. repeat split; reflexivity. Qed.

(** "0.000123": the leading fraction zeros are skipped and not counted *)
Example parse_mantissa_frac :
  match parse_mantissa CFG_nc TABLES LIMITS checked_build [] [48; 48; 48; 49; 50; 51] (MAX_DIGITS F64) with
  | Ok (v, cnt) => lval (vl v) = 123 /\ cnt = 3
  | _ => False
  end.
Proof. vm_compute. repeat split; reflexivity. Qed.

(** the hypotheses of [parse_mantissa_spec] hold for the generated constants *)
Example parse_mantissa_spec_inst c b :
  exists v cnt, parse_mantissa c TABLES LIMITS b [49; 50] [53] (MAX_DIGITS F64) = Ok (v, cnt) /\
    lval (vl v) = 125 /\ cnt = 3.
Proof.
  destruct (parse_mantissa_spec c TABLES LIMITS b (MAX_DIGITS F64) [49; 50] [53]
              (pm_tables_ok_TABLES c)) as (v & cnt & E & _ & C1 & _); try reflexivity.
  - vm_compute. discriminate.
  - intros ch r H. injection H as <- _. discriminate.
  - exists v, cnt. split; [exact E|]. apply C1. vm_compute. discriminate.
Qed.

Print Assumptions scientific_exponent_spec.
Print Assumptions parse_mantissa_closed.
Print Assumptions parse_mantissa_spec.
