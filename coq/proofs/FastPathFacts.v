(** * FastPathFacts: the fast path of the decimal-to-float conversion is correct.

    Rust: `Number::is_fast_path`, `Number::try_fast_path` (src/number.rs), `pow_fast_path`,
    `int_pow_fast_path` (src/num.rs).  Model: model/Number.v with the IEEE operations of
    model/FloatOps.v (stdlib [SpecFloat.binary_normalize], [SFmul], [SFdiv] on bit patterns).

    Main results (for every configuration [c], table set [T], format [f] and build [b] with the
    boolean side condition [fast_ok c T f = true], which is discharged by computation for the
    eight generated configurations and both formats, [fast_ok_shipped]):
    - [try_fast_path_eq]      : complete functional description:
        [try_fast_path c T f b n = Ok (if fast_path_applies f n then Some (RN f v) else None)]
        with [v = nmant n * 10^(nexp n)];  hence
    - [try_fast_path_correct] : a returned float is the correctly rounded value [RN f v]
    - [try_fast_path_no_panic]: never [Panic] / [UB]
    - [try_fast_path_not_fast], [try_fast_path_many] : [Ok None] outside [is_fast_path]
    - [try_fast_path_some_iff], [try_fast_path_normal_some] : when a float is produced.

    Proof: [u as f] is exact for u <= 2^prec ([from_u64_exact]), the power entries decode to exactly
    10^k ([bits_exact_val]); Flocq's [Bmult_correct] / [Bdiv_correct] (transported to the stdlib
    functions by [SFmul_equiv] / [SFdiv_equiv] / [binary_normalize_equiv]) make the product /
    quotient the rounding of the exact real w*10^k resp. w/10^k, or +infinity on overflow; the
    specification [RN_sf] satisfies the same description ([RN_sf_spec]); [bits_inj_finite]
    concludes ([rounded_RN]). *)
From Coq Require Import ZArith QArith Qreals Reals List Bool Lia Lra.
From Coq Require Import ZifyBool.
From Coq Require Import Floats.SpecFloat.
From Flocq Require Import Core.Core IEEE754.BinarySingleNaN.
From ML Require Import base.RustSem model.Fmt model.FloatOps model.Number gen.Consts gen.Tables gen.PowDump
  spec.Decimal spec.Round spec.RoundFacts proofs.TableFacts.
Import ListNotations.
Open Scope Z_scope.
Local Arguments Z.pow : simpl never.

Section Ops.
Variable f : format.
Hypothesis Hok : sfmt_ok f = true.
Notation P := (prec f).
Notation EM := (emax f).
Notation fexp := (FLT_exp (femin f) (prec f)).
Notation rnd := (round radix2 fexp ZnearestE).
Let Hp : Prec_gt_0 P := prec_gt_0_f f Hok.
Let He : Prec_lt_emax P EM := prec_lt_emax_f f Hok.
Existing Instance Hp.
Existing Instance He.

(** semantic description of a non-negative finite float *)
Definition fin_val (s : spec_float) (r : R) : Prop :=
  valid_binary P EM s = true /\ is_finite_SF s = true /\ sign_SF s = false /\ SF2R radix2 s = r.

(** what the three IEEE operations return: correctly rounded value or +infinity *)
Definition rounded (z : spec_float) (x : R) : Prop :=
  valid_binary P EM z = true /\
  if Rlt_bool (Rabs (rnd x)) (bpow radix2 EM) then
    SF2R radix2 z = rnd x /\ is_finite_SF z = true /\ sign_SF z = false
  else z = S754_infinity false.

Lemma sign_SF_B2SF (x : binary_float P EM) : sign_SF (B2SF x) = Bsign x.
Proof. destruct x; reflexivity. Qed.

Lemma SFmul_equiv (x y : binary_float P EM) :
  SFmul P EM (B2SF x) (B2SF y) = B2SF (Bmult mode_NE x y).
Proof.
  destruct x as [sx|sx| |sx mx ex Bx]; destruct y as [sy|sy| |sy my ey By]; try reflexivity.
  simpl. rewrite B2SF_SF2B. apply (binary_round_aux_equiv f).
Qed.

Lemma SFdiv_equiv (x y : binary_float P EM) :
  SFdiv P EM (B2SF x) (B2SF y) = B2SF (Bdiv mode_NE x y).
Proof.
  destruct x as [sx|sx| |sx mx ex Bx]; destruct y as [sy|sy| |sy my ey By]; try reflexivity.
  simpl. rewrite B2SF_SF2B.
  set (melz := SFdiv_core_binary _ _ _ _ _ _). destruct melz as [[mz ez] lz].
  apply (binary_round_aux_equiv f).
Qed.

Lemma binary_round_equiv s m e :
  SpecFloat.binary_round P EM s m e = binary_round P EM mode_NE s m e.
Proof.
  unfold SpecFloat.binary_round, binary_round, shl_align_fexp.
  set (mez := shl_align _ _ _). destruct mez as [mz ez].
  apply (binary_round_aux_equiv f).
Qed.

Lemma binary_normalize_equiv m e szero :
  SpecFloat.binary_normalize P EM m e szero
  = B2SF (binary_normalize P EM Hp He mode_NE m e szero).
Proof.
  destruct m as [|p|p]; simpl.
  - reflexivity.
  - rewrite B2SF_SF2B. apply binary_round_equiv.
  - rewrite B2SF_SF2B. apply binary_round_equiv.
Qed.


Lemma fin_val_nonneg s r : fin_val s r -> nonneg_sf s = true.
Proof.
  intros (_ & F & S & _). destruct s as [[|]|[|]| |[|] m e]; try discriminate; reflexivity.
Qed.

Lemma fin_val_roundtrip s r : fin_val s r -> sf_of_bits f (bits_of_sf f s) = s.
Proof.
  intros H. apply (sf_of_bits_of_sf f Hok); [apply H|apply (fin_val_nonneg s r H)].
Qed.

Lemma pow2_prec_lt_emax : (IZR (2 ^ P) < bpow radix2 EM)%R.
Proof.
  change (2 ^ P) with (Zpower radix2 P). rewrite IZR_Zpower by (unfold Prec_gt_0 in Hp; lia).
  apply bpow_lt. exact He.
Qed.

Lemma generic_int w : 0 <= w <= 2 ^ P -> generic_format radix2 fexp (IZR w).
Proof.
  intros Hw. pose proof (prec_bounds f Hok) as PB.
  apply generic_format_FLT.
  destruct (Z.eq_dec w (2 ^ P)) as [->|Hn].
  - apply (FLT_spec radix2 (femin f) P _ (Float radix2 1 P)).
    + unfold F2R. cbn [Fnum Fexp]. change (2 ^ P) with (Zpower radix2 P).
      rewrite IZR_Zpower by lia. ring.
    + cbn [Fnum]. change (Zpower radix2 P) with (2 ^ P).
      assert (2 ^ 1 <= 2 ^ P) by (apply Z.pow_le_mono_r; lia). lia.
    + cbn [Fexp]. unfold femin. lia.
  - apply (FLT_spec radix2 (femin f) P _ (Float radix2 w 0)).
    + unfold F2R. cbn [Fnum Fexp]. simpl. ring.
    + cbn [Fnum]. change (Zpower radix2 P) with (2 ^ P). lia.
    + cbn [Fexp]. unfold femin. lia.
Qed.

(** `u as f` is exact for 0 <= u <= 2^prec *)
Lemma from_u64_exact w :
  0 <= w <= 2 ^ P -> fin_val (SpecFloat.binary_normalize P EM w 0 false) (IZR w).
Proof.
  intros Hw. rewrite binary_normalize_equiv.
  pose proof (binary_normalize_correct P EM Hp He mode_NE w 0 false) as H. cbv zeta in H.
  assert (Hx : F2R (Float radix2 w 0) = IZR w) by (unfold F2R; cbn [Fnum Fexp]; simpl; ring).
  rewrite Hx in H.
  assert (Hr : round radix2 (SpecFloat.fexp P EM) (round_mode mode_NE) (IZR w) = IZR w).
  { apply round_generic; auto with typeclass_instances. apply (generic_int w Hw). }
  rewrite Hr in H.
  rewrite Rlt_bool_true in H.
  - destruct H as (H1 & H2 & H3).
    set (z := binary_normalize P EM Hp He mode_NE w 0 false) in *.
    split; [apply valid_binary_B2SF|]. split; [rewrite is_finite_SF_B2SF; exact H2|].
    split; [|rewrite SF2R_B2SF; exact H1].
    rewrite sign_SF_B2SF, H3.
    destruct (Rcompare_spec (IZR w) 0) as [Hlt| |]; try reflexivity.
    apply lt_IZR in Hlt. lia.
  - rewrite Rabs_pos_eq by (apply IZR_le; lia).
    apply Rle_lt_trans with (IZR (2 ^ P)); [apply IZR_le; lia|apply pow2_prec_lt_emax].
Qed.

Lemma fin_val_B s r (H : fin_val s r) :
  exists x : binary_float P EM, B2SF x = s /\ B2R x = r /\ is_finite x = true /\ Bsign x = false.
Proof.
  destruct H as (V & F & S & R). exists (SF2B s V).
  rewrite B2SF_SF2B, B2R_SF2B, is_finite_SF2B, Bsign_SF2B. auto.
Qed.

Lemma mul_rounded s1 s2 r1 r2 :
  fin_val s1 r1 -> fin_val s2 r2 -> rounded (SFmul P EM s1 s2) (r1 * r2).
Proof.
  intros H1 H2.
  destruct (fin_val_B s1 r1 H1) as (x & X1 & X2 & X3 & X4).
  destruct (fin_val_B s2 r2 H2) as (y & Y1 & Y2 & Y3 & Y4).
  rewrite <- X1, <- Y1, SFmul_equiv.
  pose proof (Bmult_correct P EM Hp He mode_NE x y) as H. rewrite X2, Y2 in H.
  split; [apply valid_binary_B2SF|].
  change (round radix2 (SpecFloat.fexp P EM) (round_mode mode_NE)) with rnd in H.
  destruct (Rlt_bool (Rabs (rnd (r1 * r2))) (bpow radix2 EM)).
  - destruct H as (A & B & C). rewrite X3, Y3 in B. rewrite X4, Y4 in C.
    split; [rewrite SF2R_B2SF; exact A|]. split; [rewrite is_finite_SF_B2SF; exact B|].
    rewrite sign_SF_B2SF. apply C. destruct (Bmult mode_NE x y); try discriminate; reflexivity.
  - rewrite H, X4, Y4. reflexivity.
Qed.

Lemma div_rounded s1 s2 r1 r2 :
  fin_val s1 r1 -> fin_val s2 r2 -> r2 <> 0%R -> rounded (SFdiv P EM s1 s2) (r1 / r2).
Proof.
  intros H1 H2 Hn.
  destruct (fin_val_B s1 r1 H1) as (x & X1 & X2 & X3 & X4).
  destruct (fin_val_B s2 r2 H2) as (y & Y1 & Y2 & Y3 & Y4).
  rewrite <- X1, <- Y1, SFdiv_equiv.
  pose proof (Bdiv_correct P EM Hp He mode_NE x y) as H. rewrite X2, Y2 in H.
  specialize (H Hn).
  split; [apply valid_binary_B2SF|].
  change (round radix2 (SpecFloat.fexp P EM) (round_mode mode_NE)) with rnd in H.
  destruct (Rlt_bool (Rabs (rnd (r1 / r2))) (bpow radix2 EM)).
  - destruct H as (A & B & C). rewrite X3 in B. rewrite X4, Y4 in C.
    split; [rewrite SF2R_B2SF; exact A|]. split; [rewrite is_finite_SF_B2SF; exact B|].
    rewrite sign_SF_B2SF. apply C. destruct (Bdiv mode_NE x y); try discriminate; reflexivity.
  - rewrite H, X4, Y4. reflexivity.
Qed.

(** the specification value satisfies the same description *)
Lemma RN_sf_rounded q : (0 <= q)%Q -> rounded (RN_sf f (Qnum q) (Qden q)) (Q2R q).
Proof.
  intros Hq. destruct q as [n d]. apply Qle0_num in Hq. cbn [Qnum Qden] in *.
  destruct n as [|n|n]; [| |lia].
  - rewrite RN_sf_0. split; [reflexivity|].
    rewrite Q2R_Qmake. unfold Rdiv. rewrite Rmult_0_l, round_0 by auto with typeclass_instances.
    rewrite Rabs_R0, Rlt_bool_true by apply bpow_gt_0. auto.
  - rewrite Q2R_Qmake. exact (RN_sf_spec f Hok n d).
Qed.

Lemma rounded_unique z1 z2 x : rounded z1 x -> rounded z2 x -> bits_of_sf f z1 = bits_of_sf f z2.
Proof.
  intros (V1 & H1) (V2 & H2).
  destruct (Rlt_bool (Rabs (rnd x)) (bpow radix2 EM)).
  - destruct H1 as (A1 & B1 & C1). destruct H2 as (A2 & B2 & C2).
    apply (bits_inj_finite f Hok); try assumption. congruence.
  - subst. reflexivity.
Qed.

Theorem rounded_RN z q : (0 <= q)%Q -> rounded z (Q2R q) -> bits_of_sf f z = RN f q.
Proof.
  intros Hq Hz. unfold RN. apply (rounded_unique z _ (Q2R q) Hz). apply RN_sf_rounded, Hq.
Qed.

End Ops.

(** ** Reals of the decimal value *)
Lemma pow10_pos k : 0 <= k -> 0 < 10 ^ k.
Proof. intros. apply Z.pow_pos_nonneg; lia. Qed.

Lemma Q2R_pow10Q_nonneg k : 0 <= k -> Q2R (pow10Q k) = IZR (10 ^ k).
Proof.
  intros Hk. destruct k as [|p|p]; [| |lia].
  - change (Q2R 1 = 1%R). apply RMicromega.Q2R_1.
  - unfold pow10Q. apply Q2R_inject_Z.
Qed.

Lemma Q2R_pow10Q_neg k : k < 0 -> Q2R (pow10Q k) = (/ IZR (10 ^ (- k)))%R.
Proof.
  intros Hk. destruct k as [|p|p]; [lia|lia|].
  unfold pow10Q. rewrite Q2R_Qmake. change (- Zneg p) with (Zpos p).
  pose proof (pow10_pos (Zpos p) ltac:(lia)).
  rewrite Z2Pos.id by assumption. unfold Rdiv. ring.
Qed.

Lemma pow10Q_pos k : (0 < pow10Q k)%Q.
Proof.
  apply Rlt_Qlt. rewrite RMicromega.Q2R_0.
  destruct (Z_lt_le_dec k 0) as [H|H].
  - rewrite Q2R_pow10Q_neg by exact H. apply Rinv_0_lt_compat, IZR_lt, pow10_pos. lia.
  - rewrite Q2R_pow10Q_nonneg by exact H. apply IZR_lt, pow10_pos, H.
Qed.

Lemma dec_nonneg w e : 0 <= w -> (0 <= inject_Z w * pow10Q e)%Q.
Proof.
  intros Hw. apply Qmult_le_0_compat.
  - unfold Qle. simpl. lia.
  - apply Qlt_le_weak, pow10Q_pos.
Qed.

Lemma IZR_pow10_neq0 k : 0 <= k -> IZR (10 ^ k) <> 0%R.
Proof. intros H. apply IZR_neq. pose proof (pow10_pos k H). lia. Qed.

(** ** Table entries *)
Lemma bits_exact_val f p v :
  bits_exact f p v = true -> valid_binary (prec f) (emax f) (sf_of_bits f p) = true ->
  fin_val f (sf_of_bits f p) (IZR v).
Proof.
  unfold bits_exact. intros H V.
  destruct (sf_of_bits f p) as [s|s| |[|] m e]; try discriminate.
  split; [exact V|]. split; [reflexivity|]. split; [reflexivity|].
  unfold SF2R, F2R. cbn [cond_Zopp Fnum Fexp].
  destruct (0 <=? e) eqn:E.
  - apply Z.leb_le in E. apply Z.eqb_eq in H. rewrite <- H, mult_IZR.
    change 2 with (radix_val radix2). rewrite IZR_Zpower by exact E. reflexivity.
  - apply Z.leb_gt in E. apply Z.eqb_eq in H. rewrite H, mult_IZR.
    change 2 with (radix_val radix2). rewrite IZR_Zpower by lia.
    rewrite Rmult_assoc, <- bpow_plus. replace (- e + e) with 0 by lia. simpl. ring.
Qed.

(** ** The side condition *)
Definition fpow_ok (f : format) (k p : Z) : bool :=
  (MAX_EXPONENT_FAST_PATH f <? k) ||
  (bits_exact f p (10 ^ k) && valid_binary (prec f) (emax f) (sf_of_bits f p)).

Definition pow_list (c : config) (T : tables) (f : format) : list Z :=
  if compact c then (if fbits f =? 32 then pow_f32 c else pow_f64 c)
  else (if fbits f =? 32 then SMALL_F32_POW10 T else SMALL_F64_POW10 T).

Definition disguised_range (f : format) : Z :=
  MAX_EXPONENT_DISGUISED_FAST_PATH f - MAX_EXPONENT_FAST_PATH f.

Definition fast_ok (c : config) (T : tables) (f : format) : bool :=
  sfmt_ok f
  && (MAX_MANTISSA_FAST_PATH f <=? 2 ^ prec f)
  && (0 <=? MAX_EXPONENT_FAST_PATH f) && (MAX_EXPONENT_FAST_PATH f <? 2 ^ 31)
  && (- MAX_EXPONENT_FAST_PATH f <=? MIN_EXPONENT_FAST_PATH f)
  && (MAX_EXPONENT_FAST_PATH f <? zlen (pow_list c T f))
  && check_from (fpow_ok f) 0 (pow_list c T f)
  && (disguised_range f <? 2 ^ 32)
  && (if compact c then 10 ^ disguised_range f <? 2 ^ 64
      else (disguised_range f <? zlen (SMALL_INT_POW10 T)) && int_pow_ok 10 (SMALL_INT_POW10 T)).

Lemma bind_ok_inv {A B} (x : outcome A) (g : A -> outcome B) r :
  bind x g = Ok r -> exists a, x = Ok a /\ g a = Ok r.
Proof. destruct x; simpl; intros H; try discriminate. eauto. Qed.

Lemma p31_lt_64 : 2 ^ 31 < 2 ^ 64. Proof. reflexivity. Qed.
Lemma p31_lt_32 : 2 ^ 31 < 2 ^ 32. Proof. reflexivity. Qed.
Lemma p32_lt_64 : 2 ^ 32 < 2 ^ 64. Proof. reflexivity. Qed.

Lemma as_usize_small k : 0 <= k < 2 ^ 64 -> as_usize k = k.
Proof. intros H. unfold as_usize, wrapu. apply Z.mod_small. exact H. Qed.
Lemma as_u32_small k : 0 <= k < 2 ^ 32 -> as_u32 k = k.
Proof. intros H. unfold as_u32, wrapu. apply Z.mod_small. exact H. Qed.

Lemma sop32_ok b r : - 2 ^ 31 <= r < 2 ^ 31 -> sop b 32 r = Ok r.
Proof.
  intros H. unfold sop, in_s. change (32 - 1) with 31.
  replace ((- 2 ^ 31 <=? r) && (r <? 2 ^ 31)) with true by lia. reflexivity.
Qed.
Lemma uop64_ok b r : 0 <= r < 2 ^ 64 -> uop b 64 r = Ok r.
Proof.
  intros H. unfold uop, in_u. replace ((0 <=? r) && (r <? 2 ^ 64)) with true by lia. reflexivity.
Qed.

Section Main.
Variables (c : config) (T : tables) (f : format) (b : build).
Hypothesis FO : fast_ok c T f = true.
Notation MAXE := (MAX_EXPONENT_FAST_PATH f).
Notation MAXM := (MAX_MANTISSA_FAST_PATH f).

Lemma fo_fmt : sfmt_ok f = true.
Proof. pose proof FO as G. unfold fast_ok in G. do 8 (apply andb_prop in G; destruct G as [G ?]). exact G. Qed.

Lemma fo_ranges :
  MAXM <= 2 ^ prec f /\ 0 <= MAXE < 2 ^ 31 /\ - MAXE <= MIN_EXPONENT_FAST_PATH f /\
  MAXE < zlen (pow_list c T f).
Proof.
  pose proof FO as G. unfold fast_ok in G. do 8 (apply andb_prop in G; destruct G as [G ?]). lia.
Qed.

Lemma fo_pows : check_from (fpow_ok f) 0 (pow_list c T f) = true.
Proof.
  pose proof FO as G. unfold fast_ok in G. do 8 (apply andb_prop in G; destruct G as [G ?]). assumption.
Qed.

Lemma fo_int :
  disguised_range f < 2 ^ 32 /\
  if compact c then 10 ^ disguised_range f < 2 ^ 64
  else disguised_range f < zlen (SMALL_INT_POW10 T) /\ int_pow_ok 10 (SMALL_INT_POW10 T) = true.
Proof.
  pose proof FO as G. unfold fast_ok in G. apply andb_prop in G. destruct G as [FO' H].
  apply andb_prop in FO'. destruct FO' as [_ H0]. split; [lia|].
  destruct (compact c); [lia|]. apply andb_prop in H; destruct H; split; try lia; assumption.
Qed.

Lemma pow_fast_path_eq k :
  0 <= k < zlen (pow_list c T f) ->
  pow_fast_path c T f k = Ok (nth (Z.to_nat k) (pow_list c T f) 0).
Proof.
  intros Hk. unfold pow_fast_path, pow_list, index_unchecked in *. unfold zlen in Hk.
  destruct (compact c).
  - unfold zlen. destruct (fbits f =? 32);
    match goal with |- (if ?g then _ else _) = _ => replace g with true by lia end; reflexivity.
  - destruct (fbits f =? 32);
    match goal with |- (if ?g then _ else _) = _ => replace g with true by lia end; reflexivity.
Qed.

Lemma pow_fast_path_ok k :
  0 <= k <= MAXE ->
  exists p, pow_fast_path c T f (as_usize k) = Ok p /\ fin_val f (sf_of_bits f p) (IZR (10 ^ k)).
Proof.
  intros Hk. destruct fo_ranges as (_ & R1 & _ & R2). pose proof p31_lt_64.
  rewrite as_usize_small by lia.
  rewrite pow_fast_path_eq by lia. eexists. split; [reflexivity|].
  pose proof (check_from_nth0 (fpow_ok f) 0 _ fo_pows k ltac:(lia)) as Q.
  unfold fpow_ok in Q. apply orb_prop in Q. destruct Q as [Q|Q]; [lia|].
  apply andb_prop in Q. destruct Q as [Q1 Q2]. apply bits_exact_val; assumption.
Qed.

Lemma int_pow_fast_path_ok k :
  0 <= k <= disguised_range f ->
  int_pow_fast_path c T b (as_usize k) true = Ok (10 ^ k).
Proof.
  intros Hk. destruct fo_int as [D0 D]. pose proof p32_lt_64 as P64. unfold int_pow_fast_path.
  rewrite as_usize_small by lia.
  destruct (compact c).
  - rewrite as_u32_small by lia.
    apply uop64_ok. split; [pose proof (pow10_pos k); lia|].
    apply Z.le_lt_trans with (2 := D). apply Z.pow_le_mono_r; lia.
  - destruct D as [H1 H2]. unfold index_unchecked. fold (zlen (SMALL_INT_POW10 T)).
    replace ((0 <=? k) && (k <? zlen (SMALL_INT_POW10 T))) with true by lia.
    pose proof (check_from_nth0 _ 0 _ H2 k ltac:(lia)) as P. cbv beta in P.
    apply Z.eqb_eq in P. rewrite P. reflexivity.
Qed.

Lemma prec_lt_64 : 2 ^ prec f < 2 ^ 64.
Proof.
  destruct (sfmt_ok_props f fo_fmt) as (A & B & C & D).
  apply Z.pow_lt_mono_r; [lia| |]; unfold prec, ewidth in *; lia.
Qed.

Lemma from_u64_val w :
  0 <= w <= MAXM -> fin_val f (sf_of_bits f (f_from_u64 f w)) (IZR w).
Proof.
  intros Hw. destruct fo_ranges as (R0 & _).
  assert (H : fin_val f (SpecFloat.binary_normalize (prec f) (emax f) w 0 false) (IZR w))
    by (apply (from_u64_exact f fo_fmt); lia).
  unfold f_from_u64. rewrite (fin_val_roundtrip f fo_fmt _ _ H). exact H.
Qed.

Lemma mul_branch w k p :
  0 <= w <= MAXM -> 0 <= k -> fin_val f (sf_of_bits f p) (IZR (10 ^ k)) ->
  f_mul f (f_from_u64 f w) p = RN f (inject_Z w * pow10Q k).
Proof.
  intros Hw Hk Hp. unfold f_mul. apply (rounded_RN f fo_fmt); [apply dec_nonneg; lia|].
  rewrite Q2R_mult, Q2R_inject_Z, Q2R_pow10Q_nonneg by exact Hk.
  apply (mul_rounded f fo_fmt); [apply from_u64_val, Hw|exact Hp].
Qed.

Lemma div_branch w k p :
  0 <= w <= MAXM -> 0 < k -> fin_val f (sf_of_bits f p) (IZR (10 ^ k)) ->
  f_div f (f_from_u64 f w) p = RN f (inject_Z w * pow10Q (- k)).
Proof.
  intros Hw Hk Hp. unfold f_div. apply (rounded_RN f fo_fmt); [apply dec_nonneg; lia|].
  rewrite Q2R_mult, Q2R_inject_Z, Q2R_pow10Q_neg by lia. rewrite Z.opp_involutive.
  apply (div_rounded f fo_fmt); [apply from_u64_val, Hw|exact Hp|apply IZR_pow10_neq0; lia].
Qed.

(** when the fast path produces a float *)
Definition fast_path_applies (n : number) : bool :=
  is_fast_path f n &&
  ((nexp n <=? MAXE) || (nmant n * 10 ^ (nexp n - MAXE) <=? MAXM)).

Theorem try_fast_path_eq n :
  0 <= nmant n < 2 ^ 64 -> - 2 ^ 31 <= nexp n < 2 ^ 31 ->
  try_fast_path c T f b n =
    Ok (if fast_path_applies n then Some (RN f (inject_Z (nmant n) * pow10Q (nexp n))) else None).
Proof.
  intros Hm He. unfold try_fast_path, fast_path_applies.
  destruct (is_fast_path f n) eqn:IF; [|reflexivity].
  unfold is_fast_path in IF.
  apply andb_prop in IF. destruct IF as [IF I4].
  apply andb_prop in IF. destruct IF as [IF I3].
  apply andb_prop in IF. destruct IF as [I1 I2].
  apply Z.leb_le in I1, I2, I3.
  destruct fo_ranges as (R0 & R1 & R2 & R3).
  cbv zeta. rewrite andb_true_l.
  destruct (nexp n <=? MAXE) eqn:LE.
  - apply Z.leb_le in LE. rewrite orb_true_l.
    destruct (nexp n <? 0) eqn:NEG.
    + apply Z.ltb_lt in NEG. unfold i32_neg. rewrite sop32_ok by lia. cbn [bind].
      destruct (pow_fast_path_ok (- nexp n) ltac:(lia)) as (p & P1 & P2).
      rewrite P1. cbn [bind]. f_equal. f_equal.
      rewrite (div_branch (nmant n) (- nexp n) p) by (assumption || lia).
      rewrite Z.opp_involutive. reflexivity.
    + apply Z.ltb_ge in NEG.
      destruct (pow_fast_path_ok (nexp n) ltac:(lia)) as (p & P1 & P2).
      rewrite P1. cbn [bind]. f_equal. f_equal.
      apply mul_branch; assumption || lia.
  - apply Z.leb_gt in LE. rewrite orb_false_l.
    unfold i32_sub. rewrite sop32_ok by lia. cbn [bind].
    rewrite int_pow_fast_path_ok by (unfold disguised_range; lia). cbn [bind].
    unfold u64_checked_mul.
    set (s := nexp n - MAXE) in *.
    pose proof (pow10_pos s ltac:(lia)) as P10.
    pose proof prec_lt_64 as P64.
    destruct (nmant n * 10 ^ s <? 2 ^ 64) eqn:LT.
    + destruct (MAXM <? nmant n * 10 ^ s) eqn:GT.
      * apply Z.ltb_lt in GT.
        replace (nmant n * 10 ^ s <=? MAXM) with false by (symmetry; apply Z.leb_gt; exact GT).
        reflexivity.
      * apply Z.ltb_ge in GT.
        replace (nmant n * 10 ^ s <=? MAXM) with true by (symmetry; apply Z.leb_le; exact GT).
        destruct (pow_fast_path_ok MAXE ltac:(lia)) as (p & P1 & P2).
        rewrite P1. cbn [bind]. f_equal. f_equal.
        rewrite (mul_branch (nmant n * 10 ^ s) MAXE p) by (assumption || nia).
        apply (RN_ext_R f fo_fmt); [apply dec_nonneg; nia|].
        rewrite !Q2R_mult, !Q2R_inject_Z, !Q2R_pow10Q_nonneg by lia.
        replace (nexp n) with (s + MAXE) by (unfold s; lia).
        rewrite Z.pow_add_r by lia. rewrite !mult_IZR. ring.
    + apply Z.ltb_ge in LT.
      replace (nmant n * 10 ^ s <=? MAXM) with false by (symmetry; apply Z.leb_gt; lia).
      reflexivity.
Qed.

End Main.

(** ** Corollaries *)
Section Corollaries.
Variables (c : config) (T : tables) (f : format) (b : build).

Theorem try_fast_path_correct_gen n bits :
  fast_ok c T f = true ->
  0 <= nmant n < 2 ^ 64 -> - 2 ^ 31 <= nexp n < 2 ^ 31 ->
  try_fast_path c T f b n = Ok (Some bits) ->
  bits = RN f (inject_Z (nmant n) * pow10Q (nexp n)).
Proof.
  intros FO Hm He H. rewrite (try_fast_path_eq c T f b FO n Hm He) in H.
  destruct (fast_path_applies f n); congruence.
Qed.

Theorem try_fast_path_no_panic n :
  fast_ok c T f = true ->
  0 <= nmant n < 2 ^ 64 -> - 2 ^ 31 <= nexp n < 2 ^ 31 ->
  exists r, try_fast_path c T f b n = Ok r.
Proof. intros FO Hm He. rewrite (try_fast_path_eq c T f b FO n Hm He). eauto. Qed.

(** these two need no side condition at all *)
Theorem try_fast_path_not_fast n :
  is_fast_path f n = false -> try_fast_path c T f b n = Ok None.
Proof. intros H. unfold try_fast_path. rewrite H. reflexivity. Qed.

Theorem try_fast_path_many n :
  many n = true -> try_fast_path c T f b n = Ok None.
Proof.
  intros H. apply try_fast_path_not_fast. unfold is_fast_path. rewrite H.
  apply andb_false_r.
Qed.

Theorem try_fast_path_some_iff n :
  fast_ok c T f = true ->
  0 <= nmant n < 2 ^ 64 -> - 2 ^ 31 <= nexp n < 2 ^ 31 ->
  ((exists bits, try_fast_path c T f b n = Ok (Some bits)) <->
   is_fast_path f n = true /\
   (nexp n <= MAX_EXPONENT_FAST_PATH f \/
    nmant n * 10 ^ (nexp n - MAX_EXPONENT_FAST_PATH f) <= MAX_MANTISSA_FAST_PATH f)).
Proof.
  intros FO Hm He. rewrite (try_fast_path_eq c T f b FO n Hm He).
  unfold fast_path_applies. split.
  - intros [bits H]. destruct (is_fast_path f n); [|discriminate H]. split; [reflexivity|].
    rewrite andb_true_l in H.
    destruct (nexp n <=? MAX_EXPONENT_FAST_PATH f) eqn:A; [left; apply Z.leb_le, A|].
    destruct (nmant n * 10 ^ (nexp n - MAX_EXPONENT_FAST_PATH f) <=? MAX_MANTISSA_FAST_PATH f) eqn:B;
      [right; apply Z.leb_le, B|discriminate H].
  - intros [A B]. rewrite A, andb_true_l.
    replace ((nexp n <=? MAX_EXPONENT_FAST_PATH f)
             || (nmant n * 10 ^ (nexp n - MAX_EXPONENT_FAST_PATH f) <=? MAX_MANTISSA_FAST_PATH f))
      with true by (symmetry; apply orb_true_iff; destruct B; [left; apply Z.leb_le|right; apply Z.leb_le]; assumption).
    eauto.
Qed.

(** the non-disguised fast path always produces the correctly rounded float *)
Theorem try_fast_path_normal_some n :
  fast_ok c T f = true ->
  0 <= nmant n < 2 ^ 64 -> - 2 ^ 31 <= nexp n < 2 ^ 31 ->
  is_fast_path f n = true -> nexp n <= MAX_EXPONENT_FAST_PATH f ->
  try_fast_path c T f b n = Ok (Some (RN f (inject_Z (nmant n) * pow10Q (nexp n)))).
Proof.
  intros FO Hm He A B. rewrite (try_fast_path_eq c T f b FO n Hm He).
  unfold fast_path_applies. rewrite A.
  replace (nexp n <=? MAX_EXPONENT_FAST_PATH f) with true by (symmetry; apply Z.leb_le, B).
  reflexivity.
Qed.

End Corollaries.

(** ** The side condition holds for the shipped data: all eight configurations, both formats *)
Lemma fast_ok_all :
  forallb (fun c => fast_ok c TABLES F32 && fast_ok c TABLES F64) ALL_CONFIGS = true.
Proof. vm_compute. reflexivity. Qed.

Lemma fast_ok_shipped c f :
  In c ALL_CONFIGS -> f = F32 \/ f = F64 -> fast_ok c TABLES f = true.
Proof.
  intros Hc Hf. pose proof (proj1 (forallb_forall _ _) fast_ok_all c Hc) as H. cbv beta in H.
  apply andb_prop in H. destruct H as [H1 H2]. destruct Hf as [->| ->]; assumption.
Qed.

(** the statement asked for (tables of the crate) *)
Theorem try_fast_path_correct : forall c f b n bits,
  fast_ok c TABLES f = true ->
  0 <= nmant n < 2 ^ 64 -> - 2 ^ 31 <= nexp n < 2 ^ 31 ->
  try_fast_path c TABLES f b n = Ok (Some bits) ->
  bits = RN f (inject_Z (nmant n) * pow10Q (nexp n)).
Proof. intros c f b n bits. apply try_fast_path_correct_gen. Qed.

(** Corollary for the shipped data: every build of every configuration, f32 and f64 *)
Theorem try_fast_path_correct_shipped : forall c f b n bits,
  In c ALL_CONFIGS -> f = F32 \/ f = F64 ->
  0 <= nmant n < 2 ^ 64 -> - 2 ^ 31 <= nexp n < 2 ^ 31 ->
  try_fast_path c TABLES f b n = Ok (Some bits) ->
  bits = RN f (inject_Z (nmant n) * pow10Q (nexp n)).
Proof. intros c f b n bits Hc Hf. apply try_fast_path_correct, fast_ok_shipped; assumption. Qed.

Theorem try_fast_path_eq_shipped : forall c f b n,
  In c ALL_CONFIGS -> f = F32 \/ f = F64 ->
  0 <= nmant n < 2 ^ 64 -> - 2 ^ 31 <= nexp n < 2 ^ 31 ->
  try_fast_path c TABLES f b n =
    Ok (if fast_path_applies f n then Some (RN f (inject_Z (nmant n) * pow10Q (nexp n))) else None).
Proof. intros c f b n Hc Hf. apply try_fast_path_eq, fast_ok_shipped; assumption. Qed.

Theorem try_fast_path_no_panic_shipped : forall c f b n,
  In c ALL_CONFIGS -> f = F32 \/ f = F64 ->
  0 <= nmant n < 2 ^ 64 -> - 2 ^ 31 <= nexp n < 2 ^ 31 ->
  exists r, try_fast_path c TABLES f b n = Ok r.
Proof. intros c f b n Hc Hf. apply try_fast_path_no_panic, fast_ok_shipped; assumption. Qed.

(** ** Examples (closed computations on the model and on the specification) *)
(** 123e5, table build and compact build *)
Example ex_123e5 :
  try_fast_path CFG_s TABLES F64 checked_build (mkNumber 5 123 false) = Ok (Some 4712865122819768320) /\
  try_fast_path CFG_sc TABLES F64 release_build (mkNumber 5 123 false) = Ok (Some 4712865122819768320) /\
  RN F64 (inject_Z 123 * pow10Q 5) = 4712865122819768320.        (* 12300000.0 = 0x416775dc00000000 *)
Proof. vm_compute. repeat split; reflexivity. Qed.
(** 123e-5: division branch, inexact quotient *)
Example ex_123em5 :
  try_fast_path CFG_s TABLES F64 checked_build (mkNumber (-5) 123 false)
    = Ok (Some (RN F64 (inject_Z 123 * pow10Q (-5)))) /\
  RN F64 (inject_Z 123 * pow10Q (-5)) = 4563315196701607639.      (* 0.00123 = 0x3f5426fe718a86d7 *)
Proof. vm_compute. repeat split; reflexivity. Qed.
(** largest mantissa, largest exponent: 2^53 * 10^22 *)
Example ex_max :
  try_fast_path CFG_s TABLES F64 checked_build (mkNumber 22 9007199254740992 false)
    = Ok (Some (RN F64 (inject_Z 9007199254740992 * pow10Q 22))) /\
  try_fast_path CFG_s TABLES F64 checked_build (mkNumber 22 9007199254740993 false) = Ok None /\
  try_fast_path CFG_s TABLES F64 checked_build (mkNumber 23 9007199254740992 false) = Ok None.
Proof. vm_compute. repeat split; reflexivity. Qed.
(** a disguised case: 123e30 = 12300000000e22 *)
Example ex_disguised :
  try_fast_path CFG_s TABLES F64 checked_build (mkNumber 30 123 false)
    = Ok (Some (RN F64 (inject_Z 123 * pow10Q 30))) /\
  try_fast_path CFG_nca TABLES F64 release_build (mkNumber 30 123 false)
    = Ok (Some (RN F64 (inject_Z 123 * pow10Q 30))) /\
  RN F64 (inject_Z 123 * pow10Q 30) = 5086888251275364201 /\      (* 1.23e32 = 0x469841e9bd604769 *)
  try_fast_path CFG_s TABLES F64 checked_build (mkNumber 38 1 false) = Ok None /\
  try_fast_path CFG_s TABLES F64 checked_build (mkNumber 37 1 false)
    = Ok (Some (RN F64 (pow10Q 37))).
Proof. vm_compute. repeat split; reflexivity. Qed.
(** f32 at 2^24 *)
Example ex_f32 :
  try_fast_path CFG_s TABLES F32 checked_build (mkNumber 10 16777216 false)
    = Ok (Some (RN F32 (inject_Z 16777216 * pow10Q 10))) /\
  try_fast_path CFG_s TABLES F32 checked_build (mkNumber (-10) 16777216 false)
    = Ok (Some (RN F32 (inject_Z 16777216 * pow10Q (-10)))) /\
  try_fast_path CFG_s TABLES F32 checked_build (mkNumber 10 16777217 false) = Ok None /\
  try_fast_path CFG_sc TABLES F32 checked_build (mkNumber 17 1 false)
    = Ok (Some (RN F32 (pow10Q 17))) /\
  try_fast_path CFG_s TABLES F32 checked_build (mkNumber 0 0 false) = Ok (Some 0) /\
  try_fast_path CFG_s TABLES F32 checked_build (mkNumber 3 7 true) = Ok None.
Proof. vm_compute. repeat split; reflexivity. Qed.
(** the hypotheses of the main theorem are satisfiable: an instance obtained from the theorem *)
Example ex_theorem_instance :
  4712865122819768320 = RN F64 (inject_Z 123 * pow10Q 5).
Proof.
  apply (try_fast_path_correct_shipped CFG_nc F64 checked_build (mkNumber 5 123 false)).
  - unfold ALL_CONFIGS. simpl. tauto.
  - right; reflexivity.
  - cbn [nmant]. split; [lia|reflexivity].
  - cbn [nexp]. split; [discriminate|reflexivity].
  - vm_compute. reflexivity.
Qed.

Print Assumptions try_fast_path_eq.
Print Assumptions try_fast_path_correct.
Print Assumptions try_fast_path_correct_shipped.
Print Assumptions try_fast_path_no_panic_shipped.
Print Assumptions try_fast_path_not_fast.
Print Assumptions try_fast_path_many.
