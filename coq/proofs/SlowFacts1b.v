(** * SlowFacts1b: the "positive" branch of the big-integer slow path (model/Slow.v, src/slow.rs).

    3. [positive_digit_comp_correct]: for a big integer N > 0 and a decimal exponent e >= 0 with
       N * 10^e below the capacity, [positive_digit_comp] does not panic and the packed result is
       the correctly rounded (nearest-even, overflow to infinity) value of the integer N * 10^e,
       in the integer-only sense [rne_bits] of spec/RneZ.v.
    4. [slow_positive_correct]: [slow] with a non-negative exponent is [positive_digit_comp] on
       the result of [parse_mantissa]; [slow_positive_exact] ties it to the number produced by the
       first stage ([parse_spec]) and to the exact decimal value of the input. *)
From Coq Require Import ZArith List Bool Lia Znumtheory.
From Coq Require Import ZifyBool.
From ML Require Import base.RustSem model.Fmt model.Mask model.Num model.Number model.Rounding
  model.Vec model.Bigint model.Slow spec.Decimal spec.RneZ gen.Consts gen.Tables gen.PowDump.
From ML Require Import proofs.TableFacts proofs.ParseFacts proofs.LimbVal proofs.BigintFacts1
  proofs.BigintFacts2 proofs.RoundingFactsZ proofs.RoundingFactsRne proofs.SlowFacts1.
Import ListNotations.
Open Scope Z_scope.

Local Opaque Z.pow.
Arguments Z.pow : simpl never.

(** ** 1. [pow5] keeps the vector invariant *)
Section Pow.
Variable c : config.
Variable T : tables.
Variable L : limits.
Variable b : build.

Lemma large_mul_pres v y v' :
  vgood c L v -> 0 < lval (vl v) -> limbs_ok y -> 0 < lval y ->
  large_mul c L v y = Some v' -> vgood c L v'.
Proof.
  intros G Hp Hy Hyp. rewrite large_mul_unfold.
  pose proof G as (H1 & H2 & H3 & H4 & H5).
  destruct y as [|y0 [|y1 ys]].
  - cbn [lval] in Hyp. lia.
  - intros E. apply limbs_ok_cons in Hy. destruct Hy as [Hy0 _].
    cbn [lval] in Hyp. eapply small_mul_pres; [exact G| |exact E]. lia.
  - intros E. apply long_mul_spec in E; [|exact Hy|exact H1|apply lval_pos_nonempty; exact Hp].
    destruct E as (V & O & N & C & Gc & I). repeat split; assumption.
Qed.

Lemma pow_large_loop_pres : forall fuel v e v1 e1,
  0 < LARGE_POW5_STEP T -> limbs_ok (LARGE_POW5 T) -> lval (LARGE_POW5 T) = 5 ^ LARGE_POW5_STEP T ->
  vgood c L v -> 0 < lval (vl v) -> 0 <= e ->
  pow_large_loop c T L fuel v e = Some (v1, e1) -> vgood c L v1.
Proof.
  induction fuel as [|fuel IH]; intros v e v1 e1 Hs HL HV G Hp He; rewrite pow_large_loop_eq;
    destruct (LARGE_POW5_STEP T <=? e) eqn:E.
  - discriminate.
  - intros H. inversion H; subst v1 e1. exact G.
  - destruct (large_mul c L v (LARGE_POW5 T)) as [v'|] eqn:Em; [|discriminate].
    assert (P5 : 0 < 5 ^ LARGE_POW5_STEP T) by (apply Z.pow_pos_nonneg; lia).
    assert (PL : 0 < lval (LARGE_POW5 T)) by lia.
    pose proof (large_mul_pres v (LARGE_POW5 T) v' G Hp HL PL Em) as G'.
    apply large_mul_spec in Em; try assumption; [|apply G|left; apply lval_pos_nonempty; exact Hp].
    destruct Em as [V _].
    intros H. apply (IH v' (e - LARGE_POW5_STEP T) v1 e1); try assumption; [rewrite V, HV; apply Z.mul_pos_pos; assumption|lia].
  - intros H. inversion H; subst v1 e1. exact G.
Qed.

Lemma pow_small_loop_pres : forall fuel v e v1 e1,
  vgood c L v -> 0 < lval (vl v) -> 0 <= e ->
  pow_small_loop c fuel v e = Some (v1, e1) -> vgood c L v1.
Proof.
  induction fuel as [|fuel IH]; intros v e v1 e1 G Hp He; rewrite pow_small_loop_eq;
    destruct (small_step <=? e) eqn:E.
  - discriminate.
  - intros H. inversion H; subst v1 e1. exact G.
  - destruct (small_mul c v max_native5) as [v'|] eqn:Em; [|discriminate].
    assert (P5 : 0 < max_native5 < B64) by (split; vm_compute; reflexivity).
    pose proof (small_mul_pres c L v _ v' G P5 Em) as G'.
    apply small_mul_spec in Em; [|apply G|lia]. destruct Em as [V _].
    intros H. apply (IH v' (e - small_step) v1 e1); try assumption; [rewrite V; apply Z.mul_pos_pos; lia|unfold small_step in *; lia].
  - intros H. inversion H; subst v1 e1. exact G.
Qed.

Definition pow5_side (c : config) (T : tables) (L : limits) : bool :=
  compact c || (pow5_tables_ok T && pow5_large_ok T L).

Lemma pow5_side_TABLES c' : pow5_side c' TABLES LIMITS = true.
Proof.
  unfold pow5_side. rewrite pow5_tables_ok_TABLES, pow5_large_ok_TABLES. apply orb_true_r.
Qed.

Lemma pow5_good v e :
  pow5_side c T L = true ->
  vgood c L v -> 0 < lval (vl v) -> 0 <= e ->
  lval (vl v) * 5 ^ e < B64 ^ BIGINT_LIMBS L ->
  exists v', pow5 c T L b v e = Ok (Some v') /\ lval (vl v') = lval (vl v) * 5 ^ e /\ vgood c L v'.
Proof.
  intros Hside G Hp He Hb.
  assert (HT : compact c = false -> pow5_tables_ok T = true /\ pow5_large_ok T L = true).
  { intros Ec. unfold pow5_side in Hside. rewrite Ec in Hside. cbn [orb] in Hside.
    apply andb_prop in Hside. exact Hside. }
  pose proof G as (H1 & H2 & H3 & H4 & H5).
  destruct (pow5_total c T L b v e HT H1 Hp He ltac:(intros Ha; split; [apply H5, Ha|exact H3]))
    as (o & Eo & So).
  destruct o as [v'|]; [|destruct So; lia].
  exists v'. split; [exact Eo|]. destruct So as (V & O & _). split; [exact V|].
  (* the invariant, by following the three stages *)
  unfold pow5 in Eo.
  apply obind_Some in Eo. destruct Eo as [[v1 e1] [E1 Eo]].
  apply obind_Some in Eo. destruct Eo as [[v2 e2] [E2 Eo]].
  assert (S1 : vgood c L v1 /\ 0 < lval (vl v1) /\ 0 <= e1).
  { destruct (compact c) eqn:Ec.
    - inversion E1; subst v1 e1. auto.
    - destruct (HT eq_refl) as [HT1 _].
      destruct (pow5_tables_ok_inv T HT1) as [T1 [T2 [T3 _]]].
      destruct (LARGE_POW5_STEP T <=? 0) eqn:E0; [discriminate|].
      apply Ok_inj in E1.
      pose proof (pow_large_loop_pres _ _ _ _ _ T1 T3 T2 G Hp He E1) as G1.
      apply pow_large_loop_spec in E1; try assumption. split; [exact G1|]. intuition lia. }
  destruct S1 as (G1 & P1 & He1).
  apply Ok_inj in E2.
  pose proof (pow_small_loop_pres _ _ _ _ _ G1 P1 He1 E2) as G2.
  apply pow_small_loop_spec in E2; [|apply G1|exact P1|exact He1].
  destruct E2 as (_ & He2 & _).
  destruct (e2 =? 0) eqn:Ez; cbn [negb] in Eo.
  - inversion Eo; subst v'. exact G2.
  - rewrite int_pow5_fast in Eo; [|lia|].
    + cbn [bind] in Eo. apply Ok_inj in Eo.
      pose proof (pow5_small_bound e2 ltac:(lia)).
      eapply small_mul_pres; [exact G2| |exact Eo]. lia.
    + intros Ec. destruct (HT Ec) as [HT1 _].
      destruct (pow5_tables_ok_inv T HT1) as [_ [_ [_ [T4 T5]]]]. split; assumption.
Qed.

End Pow.

(** ** 2. the final shift of `pow(10, e)` succeeds on both back-ends when the result fits *)
Section Shl.
Variable c : config.
Variable L : limits.
Variable b : build.
Hypothesis HL : LIMB_BITS L = 64.
Hypothesis Hlimbs : BIGINT_LIMBS L < 2 ^ 26.

Lemma norm_len_bound l : limbs_ok l -> is_normalized l = true -> lval l < B64 ^ BIGINT_LIMBS L ->
  zlen l <= BIGINT_LIMBS L.
Proof.
  intros Hok Hn Hb. pose proof (lval_nonneg _ Hok) as Hnn.
  assert (Hc0 : 0 <= BIGINT_LIMBS L).
  { destruct (Z_lt_le_dec (BIGINT_LIMBS L) 0) as [Hneg|Hpos]; [|exact Hpos].
    rewrite Z.pow_neg_r in Hb by assumption. lia. }
  destruct l as [|x r] eqn:E; [change (zlen (@nil Z)) with 0; lia|]. rewrite <- E in *.
  assert (Hne : l <> []) by (rewrite E; discriminate).
  pose proof (normalized_lower_bound _ Hok Hn Hne) as Hlow.
  destruct (Z_lt_le_dec (BIGINT_LIMBS L) (zlen l)) as [Hlt|]; [|assumption].
  exfalso. pose proof (B64pow_mono (BIGINT_LIMBS L) (zlen l - 1) ltac:(lia)). lia.
Qed.

Lemma shl_good v n :
  vgood c L v -> 0 < lval (vl v) -> 0 <= n < 2 ^ 64 ->
  lval (vl v) * 2 ^ n < B64 ^ BIGINT_LIMBS L ->
  exists v', shl c L b v n = Ok (Some v') /\ lval (vl v') = lval (vl v) * 2 ^ n /\
             limbs_ok (vl v') /\ is_normalized (vl v') = true /\ zlen (vl v') <= BIGINT_LIMBS L.
Proof.
  intros G Hp Hn Hb. pose proof G as (H1 & H2 & H3 & H4 & H5).
  pose proof (pow2_gt0 n ltac:(lia)) as H2n.
  assert (Hlv : lval (vl v) < B64 ^ BIGINT_LIMBS L) by nia.
  pose proof (norm_len_bound _ H1 H2 Hlv) as Hlen.
  assert (Hc0 : 0 <= BIGINT_LIMBS L) by (pose proof (zlen_nonneg (vl v)); lia).
  assert (Hl63 : zlen (vl v) < 2 ^ 63).
  { apply Z.le_lt_trans with (BIGINT_LIMBS L); [exact Hlen|].
    apply Z.lt_trans with (2 ^ 26); [exact Hlimbs|]. vm_compute. reflexivity. }
  assert (Hne : vl v <> []) by (apply lval_pos_nonempty; exact Hp).
  assert (FIN : forall v', shl c L b v n = Ok (Some v') ->
    exists v', shl c L b v n = Ok (Some v') /\ lval (vl v') = lval (vl v) * 2 ^ n /\
             limbs_ok (vl v') /\ is_normalized (vl v') = true /\ zlen (vl v') <= BIGINT_LIMBS L).
  { intros v' E. exists v'. split; [exact E|].
    apply shl_spec in E; try assumption. destruct E as (V & O & _ & _ & N).
    specialize (N H2). split; [exact V|]. split; [exact O|]. split; [exact N|].
    apply norm_len_bound; try assumption. rewrite V. exact Hb. }
  destruct (alloc c) eqn:Ea.
  - (* heap: only the capacity test of shl_limbs can fail *)
    pose proof (Z.div_mod n 64 ltac:(lia)) as Hdm.
    pose proof (Z.mod_pos_bound n 64 ltac:(lia)) as Hrem.
    assert (Hdiv : 0 <= n / 64) by (apply Z.div_pos; lia).
    assert (Hdlt : n / 64 < 2 ^ 58).
    { apply Z.div_lt_upper_bound; [lia|]. change (64 * 2 ^ 58) with (2 ^ 64). lia. }
    assert (H58 : 2 ^ 58 + 2 ^ 63 + 2 < 2 ^ 64) by (vm_compute; reflexivity).
    assert (Hpow : 2 ^ n = 2 ^ (n mod 64) * B64 ^ (n / 64)).
    { rewrite B64_pow by lia. rewrite <- pow2_split by lia. f_equal. lia. }
    set (rem := n mod 64) in *. set (d := n / 64) in *.
    assert (STAGE2 : forall v1, limbs_ok (vl v1) -> vl v1 <> [] -> is_normalized (vl v1) = true ->
              zlen (vl v1) <= vcap v1 -> BIGINT_LIMBS L <= vcap v1 -> zlen (vl v1) < 2 ^ 63 + 2 ->
              lval (vl v1) * B64 ^ d < B64 ^ BIGINT_LIMBS L ->
              exists v', (if negb (d =? 0) then shl_limbs b v1 d else Ok (Some v1)) = Ok (Some v')).
    { intros v1 O1 Ne1 N1 I1 C1 Z1 B1.
      destruct (shl_stage2 b v1 d Hdiv ltac:(lia) O1) as (o & Ho & _ & Hnone).
      destruct o as [v'|]; [eauto|exfalso].
      destruct (proj1 Hnone eq_refl) as [Hd0 Hlt].
      pose proof (proj1 (shl_limbs_none_value v1 d Hdiv O1 Ne1 N1 I1) (conj Hd0 Hlt)) as Hbig.
      pose proof (zlen_nonneg (vl v1)).
      pose proof (B64pow_mono (BIGINT_LIMBS L) (vcap v1) ltac:(lia)). lia. }
    destruct (Z.eqb_spec rem 0) as [Hr0|Hr0]; cbn [negb].
    + destruct (STAGE2 v H1 Hne H2 H3 H4 ltac:(lia)) as (v' & E).
      { rewrite Hpow, Hr0, Z.pow_0_r, Z.mul_1_l in Hb. exact Hb. }
      apply FIN with v'. unfold shl. rewrite HL. fold rem d.
      replace (negb (rem =? 0)) with false by lia. rewrite obind_ok_some. exact E.
    + destruct (shl_bits_full c L b v rem HL ltac:(lia) H1) as (o1 & Ho1 & Hs1 & Hh & _).
      destruct o1 as [v1|]; [|exfalso; apply (Hh Ea); reflexivity].
      destruct (Hs1 v1 eq_refl) as (V1 & O1 & Len1 & _ & Cap1 & N1). specialize (Cap1 Ea).
      specialize (N1 H2).
      pose proof (pow2_gt0 rem ltac:(lia)) as Hprem.
      assert (Ne1 : vl v1 <> []) by (apply lval_pos_nonempty; rewrite V1; nia).
      pose proof (grow_ge (vcap v) (zlen (vl v) + 1)) as Hg.
      assert (I1 : zlen (vl v1) <= vcap v1 /\ vcap v <= vcap v1).
      { rewrite Len1, Cap1.
        destruct (shl_carry (vl v) rem =? 0); cbn [negb andb]; [lia|].
        destruct (zlen (vl v) =? vcap v) eqn:Ez; lia. }
      destruct (STAGE2 v1 O1 Ne1 N1 ltac:(lia) ltac:(lia)) as (v' & E).
      { destruct (shl_carry (vl v) rem =? 0); lia. }
      { rewrite V1, <- Z.mul_assoc, <- Hpow. exact Hb. }
      apply FIN with v'. unfold shl. rewrite HL. fold rem d.
      replace (negb (rem =? 0)) with true by lia. rewrite Ho1, obind_ok_some. exact E.
  - (* stack: [shl_stack_none] *)
    destruct (shl_no_panic c L b v n HL Hn Hl63 H1) as (o & Eo).
    destruct o as [v'|]; [apply FIN with v'; exact Eo|exfalso].
    apply (shl_stack_none c L b v n HL Hn Hl63 H1 Ea Hne H2 H3) in Eo.
    rewrite (H5 eq_refl) in Eo. lia.
Qed.

End Shl.

(** ** 3. rounding the top 64 bits with a sticky flag is rounding the whole integer *)

(** the direction callback of [positive_digit_comp] *)
Definition cb_sticky (tr : bool) (is_odd is_halfway is_above : bool) : bool :=
  is_above || (is_halfway && tr) || (is_odd && is_halfway).

Lemma rnd_cb_sticky_false mant s : rnd_cb (cb_sticky false) mant s = rnd_ne mant s.
Proof.
  rewrite <- rnd_cb_nearest_even. unfold rnd_cb, cb_sticky, cb_nearest_even. cbv zeta.
  rewrite andb_false_r, orb_false_r. reflexivity.
Qed.

(** [X = mant * 2^k + rem] with a non-zero remainder exactly when bits were dropped: nearest-even
    rounding of [mant] at [s] bits, helped by the sticky flag, is nearest-even rounding of [X] at
    [s + k] bits *)
Lemma rnd_cb_sticky X mant k rem s :
  0 <= k -> 1 <= s -> X = mant * 2 ^ k + rem -> 0 <= rem < 2 ^ k ->
  rnd_cb (cb_sticky (negb (rem =? 0))) mant s = rnd_ne X (s + k).
Proof.
  intros Hk Hs HX Hrem.
  pose proof (pow2_pos k Hk) as HK. pose proof (pow2_pos (s - 1) ltac:(lia)) as HP'.
  assert (EP : 2 ^ s = 2 * 2 ^ (s - 1)) by (apply pow2_pred; lia).
  assert (EPK : 2 ^ (s + k) = 2 ^ s * 2 ^ k) by (apply pow2_split; lia).
  unfold rnd_cb, rnd_ne, cb_sticky. cbv zeta.
  set (K := 2 ^ k) in *. set (P' := 2 ^ (s - 1)) in *. rewrite EPK, EP.
  set (q := mant / (2 * P')). set (r := mant mod (2 * P')).
  assert (Hm : mant = (2 * P') * q + r) by (apply Z.div_mod; lia).
  assert (Hr : 0 <= r < 2 * P') by (apply Z.mod_pos_bound; lia).
  assert (HXq : X = q * (2 * P' * K) + (r * K + rem)) by (rewrite HX, Hm; ring).
  assert (HR : 0 <= r * K + rem < 2 * P' * K) by nia.
  assert (Eq : X / (2 * P' * K) = q).
  { symmetry. apply (Z.div_unique_pos X (2 * P' * K) q (r * K + rem)); [exact HR|]. rewrite HXq. ring. }
  assert (Er : X mod (2 * P' * K) = r * K + rem).
  { symmetry. apply (Z.mod_unique_pos X (2 * P' * K) q (r * K + rem)); [exact HR|]. rewrite HXq. ring. }
  rewrite Eq, Er. clearbody q r.
  destruct (Z.compare_spec r P') as [Ec|Ec|Ec].
  - (* halfway at the 64-bit level: decided by the sticky bits *)
    subst r. replace (2 * P' >? 2 * P') with false by lia. replace (2 * P' =? 2 * P') with true by lia.
    cbn [orb andb]. rewrite andb_true_r.
    destruct (Z.eqb_spec rem 0) as [E0|E0]; cbn [negb orb].
    + subst rem. replace (2 * (P' * K + 0) >? 2 * P' * K) with false by lia.
      replace (2 * (P' * K + 0) =? 2 * P' * K) with true by lia. cbn [orb andb].
      destruct (Z.odd q); lia.
    + replace (2 * (P' * K + rem) >? 2 * P' * K) with true by lia. cbn [orb]. lia.
  - (* below *)
    replace (2 * r >? 2 * P') with false by lia. replace (2 * r =? 2 * P') with false by lia.
    cbn [orb andb]. rewrite andb_false_r.
    assert (r * K + K <= P' * K) by nia.
    replace (2 * (r * K + rem) >? 2 * P' * K) with false by lia.
    replace (2 * (r * K + rem) =? 2 * P' * K) with false by lia. cbn [orb andb]. lia.
  - (* above *)
    replace (2 * r >? 2 * P') with true by lia. cbn [orb].
    assert (P' * K + K <= r * K) by nia.
    replace (2 * (r * K + rem) >? 2 * P' * K) with true by lia. cbn [orb]. lia.
Qed.

Lemma round_spec_ext f g1 g2 e : (forall s, g1 s = g2 s) -> round_spec f g1 e = round_spec f g2 e.
Proof. intros H. unfold round_spec. cbv zeta. rewrite !H. reflexivity. Qed.

Section Sticky.
Variable f : format.
Hypothesis Hf : rfmt_ok f = true.
Let ms := MANTISSA_SIZE f.
Let B := EXPONENT_BIAS f.

Lemma bias_pos : 2 <= B.
Proof.
  destruct (rfmt_ok_props f Hf) as [Pms Pew Pbits Phid Pcarry Pmmask Pinf Pbias Pemask Pden Pprec].
  pose proof (emax_ge_2 f Hf). unfold B. rewrite Pbias. lia.
Qed.

(** exact (no dropped bits): the callback is the plain nearest-even one *)
Lemma sticky_exact_rne_bits b mant exp n d :
  2 ^ 63 <= mant < 2 ^ 64 -> - 63 <= exp <= 2 ^ 30 ->
  0 < d -> same_value f n d mant exp ->
  exists r w,
    round f b (mkExt mant exp) (fun fp s => round_nearest_tie_even b fp s (cb_sticky false)) = Ok r /\
    extended_to_float f b r = Ok w /\ rne_bits f n d w.
Proof.
  intros Hm He Hd Hv.
  destruct (round_nearest_rne_bits f Hf b mant exp n d Hm He Hd Hv) as (r & w & R & W & S).
  exists r, w. split; [|split; assumption].
  rewrite round_cb_Z in R |- * by assumption. rewrite <- R. f_equal.
  apply round_spec_ext. intros s. rewrite rnd_cb_sticky_false, rnd_cb_nearest_even. reflexivity.
Qed.

(** dropped bits: [X = mant * 2^k + rem], binary exponent [k] *)
Lemma sticky_rne_bits b X mant k rem :
  2 ^ 63 <= mant < 2 ^ 64 -> 0 <= k -> k + B <= 2 ^ 30 ->
  X = mant * 2 ^ k + rem -> 0 <= rem < 2 ^ k ->
  exists r w,
    round f b (mkExt mant (k + B))
      (fun fp s => round_nearest_tie_even b fp s (cb_sticky (negb (rem =? 0)))) = Ok r /\
    extended_to_float f b r = Ok w /\ rne_bits f X 1 w.
Proof.
  intros Hm Hk He HX Hrem.
  destruct (rfmt_ok_props f Hf) as [Pms Pew Pbits Phid Pcarry Pmmask Pinf Pbias Pemask Pden Pprec].
  pose proof (emax_ge_2 f Hf) as Hemax. pose proof (inf_power_emax f Hf) as Hinf.
  pose proof (femin_bias f Hf) as Hfemin. pose proof bias_pos as HB.
  fold B in Hfemin, Pbias. fold ms in Pms, Pbias.
  set (exp := k + B). set (cb := cb_sticky (negb (rem =? 0))).
  assert (He' : - 63 <= exp <= 2 ^ 30) by (unfold exp; lia).
  assert (Hg : forall s, 1 <= s <= 64 -> mant / 2 ^ s <= rnd_cb cb mant s <= mant / 2 ^ s + 1)
    by (intros; apply rnd_cb_bounds; lia).
  pose proof (round_spec_shape f Hf (rnd_cb cb mant) mant exp Hm He' Hg) as Hshape.
  eexists. eexists. split; [apply round_cb_Z; assumption|].
  split; [apply (extended_to_float_fields f Hf); exact Hshape|].
  (* the value *)
  pose proof (pow2_pos k Hk) as HK. pose proof (pow2_pos ms ltac:(lia)) as Hpos.
  pose proof (pow2_succ ms ltac:(lia)) as Hsucc.
  assert (HXlow : 2 ^ (63 + k) <= X) by (rewrite pow2_split by lia; nia).
  assert (HXhigh : X < 2 ^ (64 + k)) by (rewrite pow2_split by lia; nia).
  assert (HXpos : 0 < X) by (pose proof (pow2_pos (63 + k) ltac:(lia)); lia).
  unfold rne_bits. right.
  unfold round_spec, pack_fields. cbv zeta. fold ms. set (sh := 63 - ms).
  replace (exp <=? - sh) with false by (unfold exp, sh; lia).
  set (M := rnd_cb cb mant sh).
  assert (HM : M = rnd_ne X (sh + k)).
  { unfold M, cb. apply rnd_cb_sticky; try assumption. unfold sh. lia. }
  assert (Hg1 : 2 ^ ms <= M <= 2 ^ (ms + 1)).
  { pose proof (Hg sh ltac:(unfold sh; lia)) as Hg1. fold M in Hg1.
    pose proof (div_pow2_lt mant sh ltac:(lia) ltac:(unfold sh; lia)) as Hq.
    replace (64 - sh) with (ms + 1) in Hq by (unfold sh; lia).
    assert (2 ^ ms <= mant / 2 ^ sh).
    { apply Z.div_le_lower_bound; [apply pow2_pos; unfold sh; lia|].
      rewrite <- pow2_split by (unfold sh; lia). replace (sh + ms) with 63 by (unfold sh; lia). lia. }
    lia. }
  destruct (INFINITE_POWER f <=? exp + sh) eqn:Eov.
  - (* overflow by the exponent: X >= 2^emax *)
    left. split; [exact HXpos|]. split.
    + rewrite Z.mul_1_r. apply Z.le_trans with (2 ^ (63 + k)); [|exact HXlow].
      apply pow2_le. unfold exp, sh in Eov. lia.
    + assert (Hres : (if INFINITE_POWER f <=? (if M =? 2 ^ (ms + 1) then exp + sh + 1 else exp + sh)
                      then mkExt 0 (INFINITE_POWER f)
                      else mkExt ((if M =? 2 ^ (ms + 1) then 2 ^ ms else M) - 2 ^ ms)
                                 (if M =? 2 ^ (ms + 1) then exp + sh + 1 else exp + sh))
                     = mkExt 0 (INFINITE_POWER f)).
      { destruct (M =? 2 ^ (ms + 1)).
        - replace (INFINITE_POWER f <=? exp + sh + 1) with true by lia. reflexivity.
        - rewrite Eov. reflexivity. }
      rewrite Hres. cbn [Num.mant Num.exp]. rewrite Z.lor_0_l. unfold inf_bits. fold ms.
      rewrite Pinf. reflexivity.
  - right. split; [exact HXpos|]. split.
    + rewrite Z.mul_1_r. apply Z.lt_le_trans with (2 ^ (64 + k)); [exact HXhigh|].
      apply pow2_le. unfold exp, sh in Eov. lia.
    + set (E := k + sh).
      assert (HE : 1 <= E) by (unfold E, sh; lia).
      assert (Hnum : sc_num X E = X) by (unfold sc_num; replace (0 <=? E) with true by lia; reflexivity).
      assert (Hden : sc_den 1 E = 2 ^ E)
        by (unfold sc_den; replace (0 <=? E) with true by lia; apply Z.mul_1_l).
      exists M, E. split; [|split].
      * unfold canon_exp. rewrite Hnum, Hden. unfold prec. fold ms.
        split; [unfold E, sh; lia|]. split.
        -- rewrite <- pow2_split by lia. replace (ms + 1 + E) with (64 + k) by (unfold E, sh; lia).
           exact HXhigh.
        -- right. rewrite <- pow2_split by lia.
           replace (ms + 1 - 1 + E) with (63 + k) by (unfold E, sh; lia). exact HXlow.
      * unfold nearest_even. rewrite Hnum, Hden. rewrite HM.
        replace (sh + k) with E by (unfold E; lia).
        apply (nearest_even_of_shift X (2 ^ E) X E); [apply pow2_pos; lia|lia|reflexivity].
      * unfold encode. fold ms. replace (M <? 2 ^ ms) with false by lia.
        replace (E - femin f + 1) with (exp + sh) by (unfold E, exp; lia).
        destruct (M =? 2 ^ (ms + 1)) eqn:Ec.
        -- assert (HM2 : M = 2 ^ (ms + 1)) by lia. rewrite HM2.
           destruct (INFINITE_POWER f <=? exp + sh + 1) eqn:Ei; cbn [Num.mant Num.exp].
           ++ rewrite Z.lor_0_l. assert (INFINITE_POWER f = exp + sh + 1) by lia. lia.
           ++ replace (2 ^ ms - 2 ^ ms) with 0 by lia. rewrite Z.lor_0_l. lia.
        -- rewrite Eov. cbn [Num.mant Num.exp].
           rewrite lor_low_high by lia. ring.
Qed.

End Sticky.

(** ** 4. [positive_digit_comp] *)

(** side conditions on the constants (checked by computation for the generated ones) *)
Definition pdc_side (c : config) (T : tables) (L : limits) (f : format) : bool :=
  rfmt_ok f && (LIMB_BITS L =? 64) && pow5_side c T L &&
  (64 * BIGINT_LIMBS L + EXPONENT_BIAS f <=? 2 ^ 30).

Lemma pdc_side_F64 c : pdc_side c TABLES LIMITS F64 = true.
Proof. unfold pdc_side. rewrite pow5_side_TABLES. vm_compute. reflexivity. Qed.
Lemma pdc_side_F32 c : pdc_side c TABLES LIMITS F32 = true.
Proof. unfold pdc_side. rewrite pow5_side_TABLES. vm_compute. reflexivity. Qed.

Lemma wraps32_small x : - 2 ^ 31 <= x < 2 ^ 31 -> as_i32 x = x.
Proof.
  intros H. unfold as_i32, wraps. change (32 - 1) with 31.
  rewrite Z.mod_small; [lia|]. change (2 ^ 32) with (2 ^ 31 + 2 ^ 31). lia.
Qed.

Lemma wrapu_small n x : 0 <= x < 2 ^ n -> wrapu n x = x.
Proof. intros H. unfold wrapu. apply Z.mod_small. exact H. Qed.

Theorem positive_digit_comp_correct c T L f b bigmant exponent :
  pdc_side c T L f = true ->
  vgood c L bigmant -> 0 < lval (vl bigmant) ->
  0 <= exponent < 2 ^ 31 ->
  lval (vl bigmant) * 10 ^ exponent < B64 ^ BIGINT_LIMBS L ->
  exists fp w,
    positive_digit_comp c T L f b bigmant exponent = Ok fp /\
    extended_to_float f b fp = Ok w /\
    rne_bits f (lval (vl bigmant) * 10 ^ exponent) 1 w.
Proof.
  intros Hside G Hp He Hb.
  unfold pdc_side in Hside. apply andb_prop in Hside. destruct Hside as [Hside Hrange].
  apply andb_prop in Hside. destruct Hside as [Hside Hpow].
  apply andb_prop in Hside. destruct Hside as [Hf HL]. apply Z.eqb_eq in HL. apply Z.leb_le in Hrange.
  pose proof (bias_pos f Hf) as HB.
  set (N := lval (vl bigmant)) in *. set (X := N * 10 ^ exponent) in *.
  assert (H231 : 2 ^ 31 < 2 ^ 32) by (vm_compute; reflexivity).
  assert (H232 : 2 ^ 32 < 2 ^ 64) by (vm_compute; reflexivity).
  assert (H230 : 2 ^ 30 < 2 ^ 31) by (vm_compute; reflexivity).
  assert (Hlimbs : BIGINT_LIMBS L < 2 ^ 26).
  { change (2 ^ 30) with (64 * 2 ^ 24) in Hrange. assert (2 ^ 24 < 2 ^ 26) by (vm_compute; reflexivity). lia. }
  pose proof (Z.pow_pos_nonneg 5 exponent ltac:(lia) ltac:(lia)) as H5e.
  pose proof (pow2_pos exponent ltac:(lia)) as H2e.
  assert (E10 : 10 ^ exponent = 5 ^ exponent * 2 ^ exponent).
  { change 10 with (5 * 2). apply Z.pow_mul_l. }
  unfold positive_digit_comp.
  unfold as_u32. rewrite wrapu_small by lia.
  rewrite bigint_pow_10.
  destruct (pow5_good c T L b bigmant exponent Hpow G Hp ltac:(lia)) as (v1 & E1 & V1 & G1).
  { fold N. unfold X in Hb. rewrite E10 in Hb. nia. }
  rewrite E1, obind_ok_some. unfold as_usize. rewrite wrapu_small by lia.
  destruct (shl_good c L b HL Hlimbs v1 exponent G1 ltac:(rewrite V1; fold N; nia) ltac:(lia))
    as (big & E2 & V2 & O2 & N2 & Z2).
  { rewrite V1. fold N. rewrite <- Z.mul_assoc, <- E10. exact Hb. }
  rewrite E2. cbn [bind unwrap].
  assert (VX : lval (vl big) = X).
  { rewrite V2, V1. fold N. unfold X. rewrite E10. ring. }
  assert (HXpos : 0 < X) by (unfold X; apply Z.mul_pos_pos; [exact Hp|apply Z.pow_pos_nonneg; lia]).
  assert (Hne : vl big <> []) by (apply lval_pos_nonempty; rewrite VX; exact HXpos).
  assert (Z2' : zlen (vl big) < 2 ^ 26) by lia.
  rewrite hi64_spec; [|exact O2|exact Hne|exact N2|].
  2:{ apply Z.lt_trans with (2 ^ 26); [exact Z2'|]. vm_compute. reflexivity. }
  destruct (bit_length_spec L b (vl big) HL O2 Hne N2 Z2') as (n & En & Hn0 & Hnb & _ & Hbl & Hnlen).
  rewrite VX in *.
  cbn [bind]. destruct (hi64_val X) as [m tr] eqn:Ehv.
  rewrite En. cbn [bind].
  assert (Hn30 : n <= 64 * BIGINT_LIMBS L) by lia.
  rewrite wraps32_small by lia.
  unfold i32_sub, i32_add. rewrite sop32_ok by lia. cbn [bind]. rewrite sop32_ok by lia. cbn [bind].
  pose proof (hi64_val_bounds X HXpos) as Hmb. rewrite Ehv in Hmb. cbn [fst] in Hmb.
  unfold hi64_val in Ehv. cbv zeta in Ehv. rewrite <- Hbl in Ehv.
  fold (cb_sticky tr).
  destruct (64 <=? n) eqn:E64;
    pose proof (f_equal fst Ehv) as Em; pose proof (f_equal snd Ehv) as Et; cbn [fst snd] in Em, Et; clear Ehv.
  - (* at least 64 bits: the low bits are dropped, [tr] is the sticky flag *)
    set (k := n - 64) in *. set (rem := X mod 2 ^ k) in *.
    pose proof (pow2_pos k ltac:(unfold k; lia)) as HK.
    replace (n - 64 + EXPONENT_BIAS f) with (k + EXPONENT_BIAS f) by (unfold k; lia).
    rewrite <- Et.
    apply (sticky_rne_bits f Hf b X m k rem); try assumption; try (unfold k; lia).
    + rewrite <- Em. unfold rem. rewrite Z.mul_comm. apply Z.div_mod. lia.
    + apply Z.mod_pos_bound. exact HK.
  - (* fewer than 64 bits: exact *)
    rewrite <- Et.
    apply (sticky_exact_rne_bits f Hf b m (n - 64 + EXPONENT_BIAS f) X 1); try assumption; try lia.
    unfold same_value.
    replace (Z.max 0 (EXPONENT_BIAS f - (n - 64 + EXPONENT_BIAS f))) with (64 - n) by lia.
    replace (Z.max 0 (n - 64 + EXPONENT_BIAS f - EXPONENT_BIAS f)) with 0 by lia.
    rewrite <- Em. rewrite Z.pow_0_r. ring.
Qed.

(** *** Examples for [positive_digit_comp] *)
Definition pdc_bits c b (l : list Z) (e : Z) : option Z :=
  match positive_digit_comp c TABLES LIMITS F64 b (mkVec l 62) e with
  | Ok fp => match extended_to_float F64 b fp with Ok w => Some w | _ => None end
  | _ => None
  end.

(** 2^53 + 1 is a tie between 2^53 and 2^53 + 2: to even; 2^53 + 3 goes up to 2^53 + 4;
    a sticky bit far below breaks the tie upwards: (2^53 + 1) * 2^100 + 1 *)
Example pdc_tie :
  pdc_bits CFG_s checked_build [2 ^ 53 + 1] 0 = Some (1076 * 2 ^ 52) /\
  pdc_bits CFG_sc release_build [2 ^ 53 + 3] 0 = Some (1076 * 2 ^ 52 + 2) /\
  pdc_bits CFG_sa checked_build [1; (2 ^ 53 + 1) * 2 ^ 36 mod 2 ^ 64; (2 ^ 53 + 1) * 2 ^ 36 / 2 ^ 64] 0
    = Some (1176 * 2 ^ 52 + 1) /\
  pdc_bits CFG_sa checked_build [0; (2 ^ 53 + 1) * 2 ^ 36 mod 2 ^ 64; (2 ^ 53 + 1) * 2 ^ 36 / 2 ^ 64] 0
    = Some (1176 * 2 ^ 52).
Proof. vm_compute. repeat split; reflexivity. Qed.

(** 10^400 overflows to infinity; 10^308 does not; 17976931348623158 * 10^292 is below the
    midpoint (2 - 2^-53) * 2^1023 and rounds to the largest finite double, 17976931348623159 * 10^292
    is above it and rounds to infinity *)
Example pdc_inf :
  pdc_bits CFG_s checked_build [1] 400 = Some (2047 * 2 ^ 52) /\
  pdc_bits CFG_nca release_build [1] 400 = Some (2047 * 2 ^ 52) /\
  pdc_bits CFG_s checked_build [1] 308 = Some 9214871658872686752 /\
  pdc_bits CFG_s checked_build [17976931348623158] 292 = Some (2047 * 2 ^ 52 - 1) /\
  pdc_bits CFG_s checked_build [17976931348623159] 292 = Some (2047 * 2 ^ 52).
Proof. vm_compute. repeat split; reflexivity. Qed.

(** the hypotheses of the theorem on an instance: 123 * 10^30 *)
Example positive_digit_comp_inst c b :
  exists fp w, positive_digit_comp c TABLES LIMITS F64 b (mkVec [123] 62) 30 = Ok fp /\
               extended_to_float F64 b fp = Ok w /\ rne_bits F64 (123 * 10 ^ 30) 1 w.
Proof.
  apply (positive_digit_comp_correct c TABLES LIMITS F64 b (mkVec [123] 62) 30 (pdc_side_F64 c)).
  - unfold vgood. cbn [vl vcap]. split; [apply limbs_ok_forallb; reflexivity|].
    split; [reflexivity|]. split; [vm_compute; discriminate|]. split; [vm_compute; discriminate|].
    intros _. reflexivity.
  - cbn [vl lval]. lia.
  - split; [lia|vm_compute; reflexivity].
  - vm_compute. reflexivity.
Qed.

(** normalisation of the operand ([vgood]) cannot be dropped: with a zero top limb [hi64] shifts
    by 64 (panic with overflow checks, a wrong result without) *)
Example positive_digit_comp_unnormalised :
  positive_digit_comp CFG_s TABLES LIMITS F64 checked_build (mkVec [5; 0] 62) 0 = Panic PkOverflow /\
  positive_digit_comp CFG_s TABLES LIMITS F64 release_build (mkVec [5; 0] 62) 0 = Ok (mkExt 0 1086) /\
  positive_digit_comp CFG_s TABLES LIMITS F64 release_build (mkVec [5] 62) 0 = Ok (mkExt (2 ^ 50) 1025).
Proof. vm_compute. repeat split; reflexivity. Qed.

(** ** 5. [slow], positive exponent *)

Lemma land_bit63 m : 2 ^ 63 <= m < 2 ^ 64 -> negb (Z.land m (2 ^ 63) =? 0) = true.
Proof.
  intros Hm. destruct (Z.eqb_spec (Z.land m (2 ^ 63)) 0) as [E|E]; [exfalso|reflexivity].
  assert (Hb : Z.testbit (Z.land m (2 ^ 63)) 63 = false) by (rewrite E; apply Z.bits_0).
  rewrite Z.land_spec, Z.pow2_bits_true, andb_true_r in Hb by lia.
  assert (Ht : Z.testbit m 63 = true).
  { apply Z.testbit_true; [lia|].
    assert (m / 2 ^ 63 = 1).
    { symmetry. apply (Z.div_unique_pos m (2 ^ 63) 1 (m - 2 ^ 63)); [|ring].
      change (2 ^ 64) with (2 * 2 ^ 63) in Hm. lia. }
    rewrite H. reflexivity. }
  congruence.
Qed.

Definition slow_side (c : config) (T : tables) (L : limits) (f : format) : bool :=
  pdc_side c T L f && pm_tables_ok c T && (0 <? MAX_DIGITS f) && (MAX_DIGITS f <? 2 ^ 30) &&
  (10 ^ (MAX_DIGITS f + 1) <=? B64 ^ BIGINT_LIMBS L).

Lemma slow_side_F64 c : slow_side c TABLES LIMITS F64 = true.
Proof. unfold slow_side. rewrite pdc_side_F64, pm_tables_ok_TABLES. vm_compute. reflexivity. Qed.
Lemma slow_side_F32 c : slow_side c TABLES LIMITS F32 = true.
Proof. unfold slow_side. rewrite pdc_side_F32, pm_tables_ok_TABLES. vm_compute. reflexivity. Qed.

(** [slow] on a number whose significand has [d] decimal digits: with a non-negative
    [exponent = nexp n + d - count] it is [positive_digit_comp] on the parsed big integer, and the
    packed result is the correct rounding of [bigmant * 10^exponent]. *)
Theorem slow_positive_correct c T L f b n fp i fr d :
  slow_side c T L f = true ->
  2 ^ 63 <= mant fp < 2 ^ 64 ->
  ndigits_is (nmant n) d -> nmant n < 2 ^ 64 -> - 2 ^ 30 <= nexp n < 2 ^ 31 - 64 ->
  forallb digitb i = true -> forallb digitb fr = true ->
  (forall ch r, i = ch :: r -> ch <> 48) -> strip0 (i ++ fr) <> [] ->
  exists v cnt,
    parse_mantissa c T L b i fr (MAX_DIGITS f) = Ok (v, cnt) /\
    (lval (vl v), cnt) = pm_out (MAX_DIGITS f) [] (strip0 (i ++ fr)) /\
    vgood c L v /\ 0 < lval (vl v) /\
    let exponent := nexp n + d - cnt in
    (0 <= exponent ->
     slow c T L f b n fp i fr = positive_digit_comp c T L f b v exponent /\
     (lval (vl v) * 10 ^ exponent < B64 ^ BIGINT_LIMBS L ->
      exists r w, slow c T L f b n fp i fr = Ok r /\ extended_to_float f b r = Ok w /\
                  rne_bits f (lval (vl v) * 10 ^ exponent) 1 w)).
Proof.
  intros Hside Hfp Hd Hm He Hi Hfr Hlead Hne.
  unfold slow_side in Hside. apply andb_prop in Hside. destruct Hside as [Hside Hcap].
  apply andb_prop in Hside. destruct Hside as [Hside Hmax2].
  apply andb_prop in Hside. destruct Hside as [Hside Hmax].
  apply andb_prop in Hside. destruct Hside as [Hpdc Hpm].
  apply Z.leb_le in Hcap. apply Z.ltb_lt in Hmax. apply Z.ltb_lt in Hmax2.
  assert (H230 : 2 ^ 30 + 2 ^ 30 = 2 ^ 31) by reflexivity.
  assert (H64 : 64 < 2 ^ 30) by (vm_compute; reflexivity).
  destruct (parse_mantissa_spec c T L b (MAX_DIGITS f) i fr Hpm Hcap Hmax Hi Hfr Hlead)
    as (v & cnt & E & G & _ & _ & Hpos & _ & Hcnt).
  destruct (parse_mantissa_closed c T L b (MAX_DIGITS f) Hpm Hcap Hmax i fr Hi Hfr Hlead)
    as (v' & cnt' & E' & V' & _).
  rewrite E in E'. injection E' as <- <-.
  specialize (Hpos Hne).
  exists v, cnt. split; [exact E|]. split; [exact V'|]. split; [exact G|]. split; [exact Hpos|].
  cbv zeta. intros Hexp.
  pose proof (ndigits_is_u64 _ _ Hd Hm) as Hd20. pose proof Hd as [Hd1 _].
  assert (Hslow : slow c T L f b n fp i fr = positive_digit_comp c T L f b v (nexp n + d - cnt)).
  { unfold slow. rewrite land_bit63 by exact Hfp.
    unfold debug_assert. cbn [negb]. rewrite andb_false_r. cbn [bind].
    rewrite (scientific_exponent_spec b n d Hd Hm) by lia. cbn [bind].
    rewrite E. cbn [bind].
    unfold i32_add, i32_sub. rewrite sop32_ok by lia. cbn [bind].
    rewrite wraps32_small by lia. rewrite sop32_ok by lia. cbn [bind].
    replace (nexp n + d - 1 + 1 - cnt) with (nexp n + d - cnt) by lia.
    replace (0 <=? nexp n + d - cnt) with true by lia. reflexivity. }
  split; [exact Hslow|]. intros Hb. rewrite Hslow.
  apply (positive_digit_comp_correct c T L f b v (nexp n + d - cnt) Hpdc G Hpos); [lia|exact Hb].
Qed.

(** *** the number produced by the first stage *)

Lemma all0_value l : all0 l = true -> digits_to_Z l = 0.
Proof.
  induction l as [|x l IH]; intros H; [reflexivity|].
  cbn [all0 forallb] in H. apply andb_prop in H. destruct H as [Hx H].
  rewrite digits_to_Z_cons_lin, (IH H). lia.
Qed.

Lemma not_all0_value l : forallb digitb l = true -> all0 l = false -> 0 < digits_to_Z l.
Proof.
  induction l as [|x l IH]; intros Hd H; [discriminate|].
  cbn [forallb] in Hd. apply andb_prop in Hd. destruct Hd as [Hx Hd].
  apply digitb_range in Hx. cbn [all0 forallb] in H.
  rewrite digits_to_Z_cons_lin. pose proof (digits_bound l Hd) as Hb.
  pose proof (p10_pos (zlen l) (zlen_nonneg l)) as Hp.
  destruct (Z.eqb_spec x 48) as [->|Hne]; cbn [andb] in H.
  - specialize (IH Hd H). lia.
  - nia.
Qed.

(** the first 19 significant digits have [min D 19] digits *)
Lemma first19_ndigits s :
  forallb digitb s = true -> s <> [] -> (forall ch r, s = ch :: r -> ch <> 48) ->
  ndigits_is (digits_to_Z (firstn 19 s)) (Z.min (zlen s) 19) /\ digits_to_Z (firstn 19 s) < 2 ^ 64.
Proof.
  intros Hd Hne Hlead. destruct s as [|ch r]; [congruence|]. specialize (Hlead ch r eq_refl).
  change (firstn 19 (ch :: r)) with (ch :: firstn 18 r).
  assert (Hd' : forallb digitb (ch :: firstn 18 r) = true).
  { cbn [forallb] in *. apply andb_prop in Hd. destruct Hd as [H1 H2]. rewrite H1. cbn [andb].
    rewrite <- (firstn_skipn 18 r) in H2. apply forallb_app_l in H2. exact H2. }
  pose proof (digits_lower ch (firstn 18 r) Hd' Hlead) as Hlow.
  pose proof (digits_bound _ Hd') as Hup.
  rewrite zlen_cons in *. rewrite ParseFacts.zlen_firstn in *. pose proof (zlen_nonneg r) as Hr.
  change (Z.of_nat 18) with 18 in *.
  replace (Z.min (zlen r + 1) 19) with (Z.min 18 (zlen r) + 1) by lia.
  split.
  - split; [lia|]. replace (Z.min 18 (zlen r) + 1 - 1) with (Z.min 18 (zlen r)) by lia. lia.
  - pose proof (p10_le (Z.min 18 (zlen r) + 1) 19 ltac:(lia)).
    pose proof p10_19_lt_B64. change B64 with (2 ^ 64) in *. lia.
Qed.

(** [slow] on the output of [parse_number] ([parse_spec]): the decimal exponent handed to
    [positive_digit_comp] is [(e - zlen fr) + (D - count)], the exponent of the last digit kept *)
Theorem slow_positive_parse c T L f b fp i fr e :
  slow_side c T L f = true ->
  2 ^ 63 <= mant fp < 2 ^ 64 ->
  forallb digitb i = true -> forallb digitb fr = true ->
  (forall ch r, i = ch :: r -> ch <> 48) ->
  let s := strip0 (i ++ fr) in
  let D := zlen s in
  let X := e - zlen fr in
  s <> [] -> - 2 ^ 29 <= X <= 2 ^ 29 -> zlen i + zlen fr <= 2 ^ 29 ->
  exists v cnt,
    parse_mantissa c T L b i fr (MAX_DIGITS f) = Ok (v, cnt) /\
    (lval (vl v), cnt) = pm_out (MAX_DIGITS f) [] s /\ vgood c L v /\ 0 < lval (vl v) /\
    let exponent := X + D - cnt in
    (0 <= exponent ->
     slow c T L f b (parse_spec i fr e) fp i fr = positive_digit_comp c T L f b v exponent /\
     (lval (vl v) * 10 ^ exponent < B64 ^ BIGINT_LIMBS L ->
      exists r w, slow c T L f b (parse_spec i fr e) fp i fr = Ok r /\
                  extended_to_float f b r = Ok w /\
                  rne_bits f (lval (vl v) * 10 ^ exponent) 1 w)).
Proof.
  intros Hside Hfp Hi Hfr Hlead s D X Hne HX Hlen.
  assert (Hsd : forallb digitb s = true).
  { apply strip0_digits. rewrite forallb_app, Hi, Hfr. reflexivity. }
  assert (Hshead : forall ch r, s = ch :: r -> ch <> 48) by (intros ch r; apply strip0_head).
  destruct (first19_ndigits s Hsd Hne Hshead) as [Hnd Hm64].
  assert (HD : 0 <= D <= zlen i + zlen fr).
  { unfold D. split; [apply zlen_nonneg|]. unfold s. pose proof (strip0_len (i ++ fr)) as H.
    rewrite ParseFacts.zlen_app in H. exact H. }
  assert (H229 : 2 ^ 29 + 2 ^ 29 = 2 ^ 30) by reflexivity.
  assert (H230 : 2 ^ 30 + 2 ^ 30 = 2 ^ 31) by reflexivity.
  assert (H64 : 64 < 2 ^ 29) by (vm_compute; reflexivity).
  assert (Hnexp : nexp (parse_spec i fr e) = X + Z.max 0 (D - 19)).
  { unfold parse_spec. cbn [nexp]. fold s D X. apply clamp_i32_id. unfold i32_min, i32_max. lia. }
  assert (Hnm : nmant (parse_spec i fr e) = digits_to_Z (firstn 19 s)) by reflexivity.
  destruct (slow_positive_correct c T L f b (parse_spec i fr e) fp i fr (Z.min D 19) Hside Hfp)
    as (v & cnt & E & V & G & Hpos & Hmain); try assumption.
  - rewrite Hnexp. lia.
  - exists v, cnt. split; [exact E|]. split; [exact V|]. split; [exact G|]. split; [exact Hpos|].
    cbv zeta in Hmain |- *. rewrite Hnexp in Hmain.
    replace (X + Z.max 0 (D - 19) + Z.min D 19 - cnt) with (X + D - cnt) in Hmain by lia.
    exact Hmain.
Qed.

(** when every significant digit is kept ([D <= MAX_DIGITS], or only zeros are dropped) and the
    exponent of the last digit [X = e - zlen fr] is non-negative, the rounded integer is the exact
    decimal value [digits * 10^X] of the input *)
Theorem slow_positive_exact c T L f b fp i fr e :
  slow_side c T L f = true ->
  2 ^ 63 <= mant fp < 2 ^ 64 ->
  forallb digitb i = true -> forallb digitb fr = true ->
  (forall ch r, i = ch :: r -> ch <> 48) ->
  let s := strip0 (i ++ fr) in
  let D := zlen s in
  let X := e - zlen fr in
  let W := digits_to_Z (i ++ fr) in
  s <> [] -> 0 <= X <= 2 ^ 29 -> zlen i + zlen fr <= 2 ^ 29 ->
  (D <= MAX_DIGITS f \/ all0 (skipn (Z.to_nat (MAX_DIGITS f)) s) = true) ->
  W * 10 ^ X < B64 ^ BIGINT_LIMBS L ->
  exists r w, slow c T L f b (parse_spec i fr e) fp i fr = Ok r /\
              extended_to_float f b r = Ok w /\
              rne_bits f (dec_num W X) (dec_den X) w.
Proof.
  intros Hside Hfp Hi Hfr Hlead s D X W Hne HX Hlen Hkept Hb.
  destruct (slow_positive_parse c T L f b fp i fr e Hside Hfp Hi Hfr Hlead Hne ltac:(fold X; lia) Hlen)
    as (v & cnt & E & V & G & Hpos & Hmain).
  fold s D X in V, Hmain. cbv zeta in Hmain.
  assert (Hmax : 0 < MAX_DIGITS f).
  { unfold slow_side in Hside. repeat (apply andb_prop in Hside; destruct Hside as [Hside ?]). lia. }
  assert (HD0 : 0 <= D) by apply zlen_nonneg.
  assert (HW : W = digits_to_Z s) by (unfold W, s; symmetry; apply strip0_value).
  assert (Hval : 0 <= X + D - cnt /\ lval (vl v) * 10 ^ (X + D - cnt) = W * 10 ^ X).
  { destruct (Z_le_gt_dec D (MAX_DIGITS f)) as [Hle|Hgt].
    - rewrite pm_out_short in V by exact Hle. injection V as V1 V2. rewrite V1, V2, HW.
      replace (X + D - zlen s) with X by (unfold D; lia). split; [lia|reflexivity].
    - destruct Hkept as [Hk|Hk]; [lia|].
      rewrite pm_out_long in V by (fold D; lia). rewrite Hk in V. injection V as V1 V2.
      set (k := Z.to_nat (MAX_DIGITS f)) in *.
      pose proof (digits_split k s) as Hsp. rewrite (all0_value _ Hk), Z.add_0_r in Hsp.
      rewrite ParseFacts.zlen_skipn in Hsp. fold D in Hsp.
      replace (Z.max 0 (D - Z.of_nat k)) with (D - MAX_DIGITS f) in Hsp by lia.
      rewrite V1, V2, HW, Hsp. split; [lia|].
      replace (X + D - MAX_DIGITS f) with (D - MAX_DIGITS f + X) by lia.
      rewrite p10_add by lia. ring. }
  destruct Hval as [Hexp Hval].
  destruct (Hmain Hexp) as [_ Hrne]. rewrite Hval in Hrne.
  destruct (Hrne Hb) as (r & w & R & Wd & S). exists r, w. split; [exact R|]. split; [exact Wd|].
  unfold dec_num, dec_den. replace (0 <=? X) with true by lia. exact S.
Qed.

(** when non-zero digits are dropped, [parse_mantissa] returns the proxy [N0 * 10 + 1] (one more
    digit): like the exact significand it lies strictly between [N0] and [N0 + 1] units of the last
    digit kept (that the two round alike is the argument about MAX_DIGITS, not proved here) *)
Theorem pm_out_truncated_bracket maxd s :
  0 < maxd -> forallb digitb s = true -> maxd < zlen s ->
  all0 (skipn (Z.to_nat maxd) s) = false ->
  let N0 := digits_to_Z (firstn (Z.to_nat maxd) s) in
  let t := zlen s - maxd in
  pm_out maxd [] s = (N0 * 10 + 1, maxd + 1) /\
  N0 * 10 ^ t < digits_to_Z s < (N0 + 1) * 10 ^ t /\
  N0 * 10 ^ t < (N0 * 10 + 1) * 10 ^ (t - 1) < (N0 + 1) * 10 ^ t.
Proof.
  intros Hm Hd Hlen Hnz N0 t.
  rewrite pm_out_long by lia. rewrite Hnz. split; [reflexivity|].
  set (k := Z.to_nat maxd) in *.
  pose proof (digits_split k s) as Hsp. fold N0 in Hsp.
  rewrite ParseFacts.zlen_skipn in Hsp. replace (Z.max 0 (zlen s - Z.of_nat k)) with t in Hsp by (unfold t; lia).
  assert (Htd : forallb digitb (skipn k s) = true).
  { rewrite <- (firstn_skipn k s) in Hd. apply forallb_app_r in Hd. exact Hd. }
  pose proof (not_all0_value _ Htd Hnz) as Hlow. pose proof (digits_bound _ Htd) as Hup.
  rewrite ParseFacts.zlen_skipn in Hup. replace (Z.max 0 (zlen s - Z.of_nat k)) with t in Hup by (unfold t; lia).
  assert (Ht : 1 <= t) by (unfold t; lia).
  assert (E10 : 10 ^ t = 10 * 10 ^ (t - 1)).
  { replace t with (1 + (t - 1)) at 1 by lia. rewrite p10_add by lia. reflexivity. }
  pose proof (p10_pos (t - 1) ltac:(lia)) as Hp.
  split; [lia|]. rewrite E10. nia.
Qed.

Example slow_positive_ex :
  (* "9007199254740993" = 2^53 + 1: a tie, rounds to even *)
  let i := [57;48;48;55;49;57;57;50;53;52;55;52;48;57;57;51] in
  valid_inputb i [] 0 = true /\
  match slow CFG_s TABLES LIMITS F64 checked_build (parse_spec i [] 0) (mkExt (2 ^ 63) 0) i [] with
  | Ok r => extended_to_float F64 checked_build r = Ok (1076 * 2 ^ 52)
  | _ => False
  end.
Proof. vm_compute. split; reflexivity. Qed.

(** the hypotheses of [slow_positive_exact] on an instance, every configuration and build:
    "90071992547409.93" e2 *)
Example slow_positive_exact_inst c b :
  let i := [57;48;48;55;49;57;57;50;53;52;55;52;48;57] in
  let fr := [57;51] in
  exists r w, slow c TABLES LIMITS F64 b (parse_spec i fr 2) (mkExt (2 ^ 63) 0) i fr = Ok r /\
              extended_to_float F64 b r = Ok w /\ rne_bits F64 9007199254740993 1 w.
Proof.
  intros i fr.
  destruct (slow_positive_exact c TABLES LIMITS F64 b (mkExt (2 ^ 63) 0) i fr 2 (slow_side_F64 c))
    as (r & w & R & W & S); try reflexivity.
  - cbn [mant]. split; [lia|vm_compute; reflexivity].
  - intros ch r H. injection H as <- _. discriminate.
  - discriminate.
  - vm_compute. split; discriminate.
  - vm_compute. discriminate.
  - left. vm_compute. discriminate.
  - exists r, w. split; [exact R|]. split; [exact W|exact S].
Qed.

Print Assumptions positive_digit_comp_correct.
Print Assumptions slow_positive_correct.
Print Assumptions slow_positive_parse.
Print Assumptions slow_positive_exact.
Print Assumptions pm_out_truncated_bracket.
