(** * SlowFacts1b: the "positive" branch of the big-integer slow path (model/Slow.v, src/slow.rs).

    3. [positive_digit_comp_correct]: for a big integer N > 0 and a decimal exponent e >= 0 with
       N * 10^e below the capacity, [positive_digit_comp] does not panic and the packed result is
       the correctly rounded (nearest-even, overflow to infinity) value of the integer N * 10^e,
       in the integer-only sense [rne_bits] of spec/RneZ.v.
    4. [slow_positive_correct]: [slow] with a non-negative exponent is [positive_digit_comp] on
       the result of [parse_mantissa]; [slow_positive_exact] ties it to the number produced by the
       first stage ([parse_spec]) and to the exact decimal value of the input. *)
From Coq Require Import ZArith List Bool Lia Znumtheory.
From Coq Require Import ZifyBool.
From ML Require Import base.RustSem model.Fmt model.Mask model.Num model.Number model.Rounding
  model.Vec model.Bigint model.Slow spec.Decimal spec.RneZ gen.Consts gen.Tables gen.PowDump.
From ML Require Import proofs.TableFacts proofs.ParseFacts proofs.LimbVal proofs.BigintFacts1
  proofs.BigintFacts2 proofs.RoundingFactsZ proofs.RoundingFactsRne proofs.SlowFacts1.
Import ListNotations.
Open Scope Z_scope.

Local Opaque Z.pow.
Arguments Z.pow : simpl never.

(** ** 1. [pow5] keeps the vector invariant *)
Section Pow.
Variable c : config.
Variable T : tables.
Variable L : limits.
Variable b : build.

Lemma large_mul_pres v y v' :
  vgood c L v -> 0 < lval (vl v) -> limbs_ok y -> 0 < lval y ->
  large_mul c L v y = Some v' -> vgood c L v'.
Proof.
  intros G Hp Hy Hyp. rewrite large_mul_unfold.
  pose proof G as (H1 & H2 & H3 & H4 & H5).
  destruct y as [|y0 [|y1 ys]].
  - cbn [lval] in Hyp. lia.
  - intros E. apply limbs_ok_cons in Hy. destruct Hy as [Hy0 _].
    cbn [lval] in Hyp. eapply small_mul_pres; [exact G| |exact E]. lia.
  - intros E. apply long_mul_spec in E; [|exact Hy|exact H1|apply lval_pos_nonempty; exact Hp].
    destruct E as (V & O & N & C & Gc & I). repeat split; assumption.
Qed.

Lemma pow_large_loop_pres : forall fuel v e v1 e1,
  0 < LARGE_POW5_STEP T -> limbs_ok (LARGE_POW5 T) -> lval (LARGE_POW5 T) = 5 ^ LARGE_POW5_STEP T ->
  vgood c L v -> 0 < lval (vl v) -> 0 <= e ->
  pow_large_loop c T L fuel v e = Some (v1, e1) -> vgood c L v1.
Proof.
  induction fuel as [|fuel IH]; intros v e v1 e1 Hs HL HV G Hp He; rewrite pow_large_loop_eq;
    destruct (LARGE_POW5_STEP T <=? e) eqn:E.
  - discriminate.
  - intros H. inversion H; subst v1 e1. exact G.
  - destruct (large_mul c L v (LARGE_POW5 T)) as [v'|] eqn:Em; [|discriminate].
    assert (P5 : 0 < 5 ^ LARGE_POW5_STEP T) by (apply Z.pow_pos_nonneg; lia).
    assert (PL : 0 < lval (LARGE_POW5 T)) by lia.
    pose proof (large_mul_pres v (LARGE_POW5 T) v' G Hp HL PL Em) as G'.
    apply large_mul_spec in Em; try assumption; [|apply G|left; apply lval_pos_nonempty; exact Hp].
    destruct Em as [V _].
    intros H. apply (IH v' (e - LARGE_POW5_STEP T) v1 e1); try assumption; [rewrite V, HV; apply Z.mul_pos_pos; assumption|lia].
  - intros H. inversion H; subst v1 e1. exact G.
Qed.

Lemma pow_small_loop_pres : forall fuel v e v1 e1,
  vgood c L v -> 0 < lval (vl v) -> 0 <= e ->
  pow_small_loop c fuel v e = Some (v1, e1) -> vgood c L v1.
Proof.
  induction fuel as [|fuel IH]; intros v e v1 e1 G Hp He; rewrite pow_small_loop_eq;
    destruct (small_step <=? e) eqn:E.
  - discriminate.
  - intros H. inversion H; subst v1 e1. exact G.
  - destruct (small_mul c v max_native5) as [v'|] eqn:Em; [|discriminate].
    assert (P5 : 0 < max_native5 < B64) by (split; vm_compute; reflexivity).
    pose proof (small_mul_pres c L v _ v' G P5 Em) as G'.
    apply small_mul_spec in Em; [|apply G|lia]. destruct Em as [V _].
    intros H. apply (IH v' (e - small_step) v1 e1); try assumption; [rewrite V; apply Z.mul_pos_pos; lia|unfold small_step in *; lia].
  - intros H. inversion H; subst v1 e1. exact G.
Qed.

Definition pow5_side (c : config) (T : tables) (L : limits) : bool :=
  compact c || (pow5_tables_ok T && pow5_large_ok T L).

Lemma pow5_side_TABLES c' : pow5_side c' TABLES LIMITS = true.
Proof.
  unfold pow5_side. rewrite pow5_tables_ok_TABLES, pow5_large_ok_TABLES. apply orb_true_r.
Qed.

Lemma pow5_good v e :
  pow5_side c T L = true ->
  vgood c L v -> 0 < lval (vl v) -> 0 <= e ->
  lval (vl v) * 5 ^ e < B64 ^ BIGINT_LIMBS L ->
  exists v', pow5 c T L b v e = Ok (Some v') /\ lval (vl v') = lval (vl v) * 5 ^ e /\ vgood c L v'.
Proof.
  intros Hside G Hp He Hb.
  assert (HT : compact c = false -> pow5_tables_ok T = true /\ pow5_large_ok T L = true).
  { intros Ec. unfold pow5_side in Hside. rewrite Ec in Hside. cbn [orb] in Hside.
    apply andb_prop in Hside. exact Hside. }
  pose proof G as (H1 & H2 & H3 & H4 & H5).
  destruct (pow5_total c T L b v e HT H1 Hp He ltac:(intros Ha; split; [apply H5, Ha|exact H3]))
    as (o & Eo & So).
  destruct o as [v'|]; [|destruct So; lia].
  exists v'. split; [exact Eo|]. destruct So as (V & O & _). split; [exact V|].
  (* the invariant, by following the three stages *)
  unfold pow5 in Eo.
  apply obind_Some in Eo. destruct Eo as [[v1 e1] [E1 Eo]].
  apply obind_Some in Eo. destruct Eo as [[v2 e2] [E2 Eo]].
  assert (S1 : vgood c L v1 /\ 0 < lval (vl v1) /\ 0 <= e1).
  { destruct (compact c) eqn:Ec.
    - inversion E1; subst v1 e1. auto.
    - destruct (HT eq_refl) as [HT1 _].
      destruct (pow5_tables_ok_inv T HT1) as [T1 [T2 [T3 _]]].
      destruct (LARGE_POW5_STEP T <=? 0) eqn:E0; [discriminate|].
      apply Ok_inj in E1.
      pose proof (pow_large_loop_pres _ _ _ _ _ T1 T3 T2 G Hp He E1) as G1.
      apply pow_large_loop_spec in E1; try assumption. split; [exact G1|]. intuition lia. }
  destruct S1 as (G1 & P1 & He1).
  apply Ok_inj in E2.
  pose proof (pow_small_loop_pres _ _ _ _ _ G1 P1 He1 E2) as G2.
  apply pow_small_loop_spec in E2; [|apply G1|exact P1|exact He1].
  destruct E2 as (_ & He2 & _).
  destruct (e2 =? 0) eqn:Ez; cbn [negb] in Eo.
  - inversion Eo; subst v'. exact G2.
  - rewrite int_pow5_fast in Eo; [|lia|].
    + cbn [bind] in Eo. apply Ok_inj in Eo.
      pose proof (pow5_small_bound e2 ltac:(lia)).
      eapply small_mul_pres; [exact G2| |exact Eo]. lia.
    + intros Ec. destruct (HT Ec) as [HT1 _].
      destruct (pow5_tables_ok_inv T HT1) as [_ [_ [_ [T4 T5]]]]. split; assumption.
Qed.

End Pow.
