(** * EndToEnd2: parse_float is correct whenever the extended-precision stage of the COMPACT
    configurations (Bellerophon) returns a definite answer.
    [parse_float_compact_definite_correct]: every valid input (exponent not saturated), every
    compact configuration, both formats, both build modes: if the fast path does not apply and
    Bellerophon is definite, parse_float returns exactly RN (dec_value ..).  Together with
    [parse_float_fast_correct] this closes the end-to-end statement for every input that does not
    need the big-integer path, in the compact configurations. *)
From Coq Require Import ZArith QArith List Bool Lia.
From ML Require Import base.RustSem model.Fmt model.Num model.Number model.Parse model.Bellerophon model.Top
  spec.Decimal spec.Round spec.RoundFacts gen.Consts gen.Tables gen.BTables gen.PowDump
  proofs.ParseFacts proofs.FastPathFacts proofs.EndToEnd proofs.BellFacts5.
Import ListNotations.
Open Scope Z_scope.

(** the exact decimal exponent handed to the stage is inside i32 (no saturation) *)
Definition unsaturated (i fr : list Z) (e : Z) : Prop :=
  i32_min <= e - zlen fr + Z.max 0 (zlen (strip0 (i ++ fr)) - 19) <= i32_max.

Theorem parse_float_compact_definite_correct : forall c f b L i fr e fp,
  In c ALL_CONFIGS -> compact c = true -> f = F32 \/ f = F64 ->
  valid_inputb i fr e = true -> unsaturated i fr e ->
  fast_path_applies f (parse_spec i fr e) = false ->
  bellerophon BTABLES f b (parse_spec i fr e) = Ok fp -> 0 <= exp fp ->
  parse_float c TABLES BTABLES L f b i fr e = Ok (RN f (dec_value i fr e)).
Proof.
  intros c f b L i fr e fp Hc Hcomp Hf V Hsat Hnf Hbell Hexp.
  pose proof (fast_ok_shipped c f Hc Hf) as Hok.
  assert (Hbo : bell_ok f = true) by (destruct Hf; subst; [exact bell_ok_F32|exact bell_ok_F64]).
  unfold parse_float. rewrite (parse_number_exact b i fr e V). cbn [bind].
  destruct (parse_number_spec b i fr e V) as (n & Hn & Hm & He & _).
  assert (Hnn : n = parse_spec i fr e) by (rewrite (parse_number_exact b i fr e V) in Hn; congruence).
  subst n. clear Hn.
  rewrite (try_fast_path_eq c TABLES f b Hok (parse_spec i fr e)) by (unfold i32_min, i32_max in He; lia).
  rewrite Hnf. cbn [bind]. unfold moderate_path. rewrite Hcomp.
  set (n := parse_spec i fr e) in *.
  assert (Hmk : n = mkNumber (nexp n) (nmant n) (many n)) by (destruct n; reflexivity).
  (* the value relation *)
  destruct (parse_number_value_bracket b i fr e n V (parse_number_exact b i fr e V)) as [Hex Hmn].
  assert (Hw40 : many n = true -> 2 ^ 40 <= nmant n).
  { intros Ht. destruct (parse_number_spec b i fr e V) as (n' & Hn' & _ & _ & S).
    rewrite (parse_number_exact b i fr e V) in Hn'. injection Hn' as <-. cbv zeta in S.
    destruct S as (_ & _ & _ & _ & Sb & _). destruct (Sb Ht) as [[Hlo _] _].
    fold n in Hlo. assert (2 ^ 40 <= 10 ^ 18) by (vm_compute; discriminate). lia. }
  assert (Hq : - 2 ^ 31 <= nexp n < 2 ^ 31) by (unfold i32_min, i32_max in He; lia).
  destruct (bellerophon_sound_strong f b (nmant n) (nexp n) (many n) Hbo Hm Hq Hw40) as (fp' & Hb' & Hs').
  rewrite <- Hmk in Hb'. rewrite Hbell in Hb'. injection Hb' as <-.
  rewrite Hbell. cbn [bind].
  destruct (exp fp <? 0) eqn:Elt; [apply Z.ltb_lt in Elt; lia|]. cbn [bind].
  destruct (Hs' Hexp) as [Hpack Hval]. rewrite Hpack. f_equal. symmetry. apply Hval.
  unfold unsaturated in Hsat.
  destruct (many n) eqn:Emany.
  - destruct (Hmn eq_refl) as (k & Hk1 & Hk & Hne & Hlo & Hhi).
    assert (HX : nexp n = e - zlen fr + k).
    { rewrite Hne. apply clamp_i32_id. subst k.
      replace (Z.max 0 (zlen (strip0 (i ++ fr)) - 19)) with (zlen (strip0 (i ++ fr)) - 19) in Hsat by lia. lia. }
    rewrite HX. split; assumption.
  - destruct (Hex eq_refl) as [Hval0 Hne].
    assert (Hshort : many n = (19 <? zlen (strip0 (i ++ fr)))) by reflexivity.
    rewrite Emany in Hshort. symmetry in Hshort. apply Z.ltb_ge in Hshort.
    assert (HX : nexp n = e - zlen fr).
    { rewrite Hne. apply clamp_i32_id. replace (Z.max 0 (zlen (strip0 (i ++ fr)) - 19)) with 0 in Hsat by lia. lia. }
    rewrite HX. exact Hval0.
Qed.

Example unsaturated_ex : unsaturated [49;50;51] [52;53;54] 5.
Proof. unfold unsaturated. vm_compute. split; discriminate. Qed.
