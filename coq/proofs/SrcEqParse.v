(** * gen/SrcParse.v = model/Parse.v + model/Top.v   (src/parse.rs)

    The Gallina text that tools/rs2coq generates from src/parse.rs is equal to the hand-written
    model, for every build mode [b]:

      rs_into_i32_eq           rs_into_i32 b v = Ok (into_i32 v)                 (every integer v)
      rs_parse_number_fast_eq  rs_parse_number_fast b i fr e = parse_number_fast b i fr e
      rs_parse_number_eq       rs_parse_number b i fr e = parse_number b i fr e
      rs_moderate_path_eq      rs_moderate_path c T BT f b n = moderate_path c T BT f b n
      rs_parse_float_eq        rs_parse_float c T BT L f b i fr e = parse_float c T BT L f b i fr e

    The byte lists [i], [fr] are arbitrary (garbage bytes included: `c - b'0'` panics or wraps the
    same way on both sides) and the exponent [e] is any integer.

    The length hypothesis [zlen i + zlen fr < 2 ^ 64].  The source counts with machine integers
    where the model uses [+ 1] on [Z]:
    - `integer_count += 1`, `fraction_count += 1` (usize) in parse_number_fast, and their sum
      `integer_count + fraction_count` (usize): exact iff [zlen i + zlen fr < 2 ^ 64].  This is the
      binding constraint, and it is the weakest one: with [2 ^ 64] digits or more the checked build
      panics (the release build wraps) in the source while the model answers [None].  (No
      counterexample can be *evaluated*: it needs a list of 2^64 elements.)
    - `count += 1` (i32) in parse_number: both loops leave at `count == 20`, so the counter stays
      in [0, 20] whatever the length (lemma [pn_int_count]); no constraint.
    - `fraction_count += 1` (usize) in parse_number: at most [zlen fr]; `1 + integer.count()`
      (usize): at most [zlen i].  Both covered by the bound above.
    - `fraction_count as i32`, `into_i32(..)`, `saturating_sub/add`: the same text on both sides.
    So nothing here needs a 2^31 bound; slices of real Rust programs have fewer than 2^63 bytes.

    rs_moderate_path / rs_parse_float additionally carry the hypotheses of the lemmas they use
    ([tables_ok T] for Lemire, [btables_ok BT] for Bellerophon, [fmt_ok f]); the fact
    [u64_ok (nmant n)] that those lemmas need is proved here for every result of [parse_number]
    ([parse_number_mant]).  The equality for [rs_slow] is a hypothesis (proved elsewhere). *)
From Coq Require Import ZArith List Bool Lia Znumtheory.
From Coq Require Import ZifyBool.
From ML Require Import base.RustSem model.Fmt model.FloatOps model.Num model.Number model.Vec
  model.SrcLib model.Parse model.Lemire model.Bellerophon model.Slow model.Top
  gen.Consts gen.Tables gen.BTables gen.Src gen.SrcBigint gen.SrcSlow gen.SrcParse.
From ML Require Import proofs.SrcEqBase proofs.SrcEqNum proofs.SrcEqNumber proofs.SrcEqLemire
  proofs.SrcEqBell.
Import ListNotations.
Open Scope Z_scope.
Open Scope rust_scope.
Arguments Z.pow : simpl never.

(** ** small facts *)
Lemma zlen_cons {A} (x : A) l : zlen (x :: l) = zlen l + 1.
Proof. unfold zlen. cbn [length]. lia. Qed.
Lemma zlen_nonneg {A} (l : list A) : 0 <= zlen l.
Proof. unfold zlen. lia. Qed.
Lemma zlen_nil {A} : zlen (@nil A) = 0.
Proof. reflexivity. Qed.

(** the digit produced by `c - b'0'` is a u8, whatever the byte and the build *)
Lemma u8_sub_range b c d : u8_sub b c 48 = Ok d -> 0 <= d < 2 ^ 64.
Proof.
  intros H. apply uop_range in H; [|lia].
  assert (2 ^ 8 < 2 ^ 64) by reflexivity. lia.
Qed.
Lemma u8_sub_as_u64 b c d : u8_sub b c 48 = Ok d -> as_u64 d = d.
Proof. intros H. apply as_u64_small. exact (u8_sub_range _ _ _ H). Qed.

(** ** into_i32 *)
(** no range hypothesis: `i32::max_value() as usize` is a constant on both sides *)
Theorem rs_into_i32_eq : forall b v, rs_into_i32 b v = Ok (into_i32 v).
Proof. reflexivity. Qed.

Example rs_into_i32_example :
  rs_into_i32 checked_build 5 = Ok 5 /\ rs_into_i32 release_build (2 ^ 64 - 1) = Ok (2 ^ 31 - 1) /\
  rs_into_i32 release_build (2 ^ 31 - 1) = Ok (2 ^ 31 - 1).
Proof. vm_compute. auto. Qed.

(** ** parse_number_fast *)
Lemma pnf_loop_cnt b : forall l m cnt m' cnt',
  pnf_loop b l m cnt = Ok (m', cnt') -> cnt' = cnt + zlen l.
Proof.
  induction l as [|c r IH]; intros m cnt m' cnt' H.
  - cbn [pnf_loop] in H. inversion H. rewrite zlen_nil. lia.
  - cbn [pnf_loop] in H. destruct (u8_sub b c 48) as [d| |]; cbn [bind] in H; try discriminate.
    apply IH in H. rewrite zlen_cons. lia.
Qed.

Lemma rs_for_iter_fast b : forall l cnt e m mn,
  0 <= cnt -> cnt + zlen l < 2 ^ 64 ->
  rs_for_iter (St := (Z * number)) (R := Empty_set) l (fun '(v_integer_count, v_num) v_c =>
        t1 <- usize_add b v_integer_count 1 ;;
        let v_integer_count := t1 in
        t2 <- u8_sub b v_c 48 ;;
        let v_digit := t2 in
        let v_num := (mkNumber (nexp v_num) (u64_wrapping_add (u64_wrapping_mul (nmant v_num) 10) (as_u64 v_digit)) (many v_num)) in
        Ok (Next (v_integer_count, v_num)))
      (cnt, mkNumber e m mn)
  = '(m', cnt') <- pnf_loop b l m cnt ;; Ok (inl ((cnt', mkNumber e m' mn), [])).
Proof.
  induction l as [|c r IH]; intros cnt e m mn H0 H1; [reflexivity|].
  rewrite zlen_cons in H1. pose proof (zlen_nonneg r).
  cbn [rs_for_iter pnf_loop]. cbv zeta. cbn [nexp nmant many].
  rewrite usize_add_ok by (unfold u64_ok; lia). cbn [bind].
  destruct (u8_sub b c 48) as [d| |] eqn:E; cbn [bind]; try reflexivity.
  rewrite (u8_sub_as_u64 _ _ _ E). apply IH; lia.
Qed.

Theorem rs_parse_number_fast_eq : forall b i fr e,
  zlen i + zlen fr < 2 ^ 64 ->
  rs_parse_number_fast b i fr e = parse_number_fast b i fr e.
Proof.
  intros b i fr e H. pose proof (zlen_nonneg i). pose proof (zlen_nonneg fr).
  unfold rs_parse_number_fast, parse_number_fast, rs_for. cbv zeta.
  rewrite rs_for_iter_fast by lia. rewrite !bind_assoc.
  destruct (pnf_loop b i 0 0) as [[m1 ic]| |] eqn:E1; cbn [bind]; try reflexivity.
  apply pnf_loop_cnt in E1. cbn [no_return].
  rewrite rs_for_iter_fast by lia. rewrite !bind_assoc.
  destruct (pnf_loop b fr m1 0) as [[m2 fc]| |] eqn:E2; cbn [bind]; try reflexivity.
  apply pnf_loop_cnt in E2. cbn [no_return].
  rewrite usize_add_ok by (unfold u64_ok; lia). cbn [bind].
  destruct (ic + fc <=? 19); reflexivity.
Qed.

Example rs_parse_number_fast_example :
  zlen [49; 50] + zlen [48; 51] < 2 ^ 64 /\
  rs_parse_number_fast checked_build [49; 50] [48; 51] (-3) = Ok (Some (mkNumber (-5) 1203 false)) /\
  rs_parse_number_fast checked_build [49; 47] [] 0 = Panic PkOverflow /\
  rs_parse_number_fast release_build [49; 47] [] 0 = Ok (Some (mkNumber 0 265 false)).
Proof. vm_compute. auto. Qed.

(** ** parse_number: the three loops *)

(** the i32 counter of the first and the last loop stays below 20 *)
Lemma pn_int_count b : forall l m count m' count',
  pn_int b l m count = Ok (inl (m', count')) -> count < 20 -> count <= count' < 20.
Proof.
  induction l as [|c r IH]; intros m count m' count' H Hc.
  - cbn [pn_int] in H. inversion H. lia.
  - cbn [pn_int] in H. cbv zeta in H. destruct (count + 1 =? 20) eqn:E; [discriminate|].
    destruct (push_digit b m c) as [m1| |]; cbn [bind] in H; try discriminate.
    apply IH in H; lia.
Qed.

Lemma push_digit_as_u64 b m c :
  (t6 <- u8_sub b c 48 ;; t7 <- u64_mul b m 10 ;; u64_add b t7 (as_u64 t6)) = push_digit b m c.
Proof.
  unfold push_digit. destruct (u8_sub b c 48) as [d| |] eqn:E; cbn [bind]; try reflexivity.
  rewrite (u8_sub_as_u64 _ _ _ E). reflexivity.
Qed.

Lemma rs_loop_int b e : forall l fuel count en m mn,
  (length l < fuel)%nat -> - 2 ^ 31 <= count < 20 -> zlen l < 2 ^ 64 ->
  rs_loop (St := (Z * (list Z) * number)) fuel (fun '(v_count, v_integer, v_num) =>
            let '(t2, v_integer) := iter_next v_integer in
            match t2 with Some v_c => (
                t3 <- i32_add b v_count 1 ;;
                let v_count := t3 in
                if (v_count =? 20) then (
                    let v_num := (mkNumber (nexp v_num) (nmant v_num) true) in
                    t4 <- usize_add b 1 (zlen v_integer) ;;
                    t5 <- rs_into_i32 b t4 ;;
                    let v_num := (mkNumber (i32_saturating_add e t5) (nmant v_num) (many v_num)) in
                    Ok (Return v_num)
                ) else (
                    t6 <- u8_sub b v_c 48 ;;
                    let v_digit := t6 in
                    t7 <- u64_mul b (nmant v_num) 10 ;;
                    t8 <- u64_add b t7 (as_u64 v_digit) ;;
                    let v_num := (mkNumber (nexp v_num) t8 (many v_num)) in
                    Ok (Next (v_count, v_integer, v_num))
                )
            ) | None => (
                Ok (Break (v_count, v_integer, v_num))
            ) end)
          (count, l, mkNumber en m mn)
  = r <- pn_int b l m count ;;
    Ok (match r with
        | inl (m', count') => inl (count', [], mkNumber en m' mn)
        | inr (m', n) => inr (mkNumber (i32_saturating_add e (into_i32 n)) m' true)
        end).
Proof.
  induction l as [|c r IH]; intros fuel count en m mn Hf Hc Hl.
  - destruct fuel; [inversion Hf|]. reflexivity.
  - destruct fuel as [|fuel]; [inversion Hf|]. cbn [length] in Hf.
    rewrite zlen_cons in Hl. pose proof (zlen_nonneg r).
    cbn [rs_loop pn_int iter_next]. cbv zeta. cbn [nexp nmant many].
    rewrite i32_add_ok by (unfold i32_ok; lia). cbn [bind].
    destruct (count + 1 =? 20) eqn:E.
    + rewrite usize_add_ok by (unfold u64_ok; lia). cbn [bind]. reflexivity.
    + rewrite <- push_digit_as_u64. rewrite !bind_assoc.
      destruct (u8_sub b c 48) as [d| |]; cbn [bind]; try reflexivity.
      destruct (u64_mul b m 10) as [t| |]; cbn [bind]; try reflexivity.
      destruct (u64_add b t (as_u64 d)) as [m1| |]; cbn [bind]; try reflexivity.
      apply IH; lia.
Qed.

Lemma pn_skip_len b : forall l m fc m' c' fc' r,
  pn_skip b l m fc = Ok (m', c', fc', r) -> fc' + zlen r = fc + zlen l /\ fc <= fc' /\ 0 <= c' <= 1.
Proof.
  induction l as [|c l IH]; intros m fc m' c' fc' r H.
  - cbn [pn_skip] in H. inversion H. lia.
  - cbn [pn_skip] in H. rewrite zlen_cons. pose proof (zlen_nonneg l). destruct (negb (c =? 48)).
    + destruct (push_digit b m c) as [m1| |]; cbn [bind] in H; try discriminate.
      inversion H. subst. pose proof (zlen_nonneg r). lia.
    + apply IH in H. lia.
Qed.

Lemma rs_for_iter_skip b : forall l fc en m mn,
  0 <= fc -> fc + zlen l < 2 ^ 64 ->
  rs_for_iter (St := (Z * Z * number)) (R := Empty_set) l (fun '(v_count, v_fraction_count, v_num) v_c =>
                    t10 <- usize_add b v_fraction_count 1 ;;
                    let v_fraction_count := t10 in
                    if (negb (v_c =? 48)) then (
                        t11 <- i32_add b v_count 1 ;;
                        let v_count := t11 in
                        t12 <- u8_sub b v_c 48 ;;
                        let v_digit := t12 in
                        t13 <- u64_mul b (nmant v_num) 10 ;;
                        t14 <- u64_add b t13 (as_u64 v_digit) ;;
                        let v_num := (mkNumber (nexp v_num) t14 (many v_num)) in
                        Ok (Break (v_count, v_fraction_count, v_num))
                    ) else (
                        Ok (Next (v_count, v_fraction_count, v_num))
                    ))
                  (0, fc, mkNumber en m mn)
  = '(m', c', fc', r) <- pn_skip b l m fc ;; Ok (inl ((c', fc', mkNumber en m' mn), r)).
Proof.
  induction l as [|c l IH]; intros fc en m mn H0 H1; [reflexivity|].
  rewrite zlen_cons in H1. pose proof (zlen_nonneg l).
  cbn [rs_for_iter pn_skip]. cbv zeta. cbn [nexp nmant many].
  rewrite usize_add_ok by (unfold u64_ok; lia). cbn [bind].
  destruct (negb (c =? 48)).
  - rewrite i32_add_ok by (unfold i32_ok; rewrite pow2_31; lia). cbn [bind].
    rewrite <- push_digit_as_u64. rewrite !bind_assoc.
    destruct (u8_sub b c 48) as [d| |]; cbn [bind]; try reflexivity.
    destruct (u64_mul b m 10) as [t| |]; cbn [bind]; try reflexivity.
    destruct (u64_add b t (as_u64 d)) as [m1| |]; cbn [bind]; reflexivity.
  - cbn [bind]. apply IH; lia.
Qed.

Lemma rs_for_iter_frac b e : forall l count fc en m mn,
  - 2 ^ 31 <= count < 20 -> 0 <= fc -> fc + zlen l < 2 ^ 64 ->
  rs_for_iter (St := (Z * Z * number)) l (fun '(v_count, v_fraction_count, v_num) v_c =>
                t16 <- usize_add b v_fraction_count 1 ;;
                let v_fraction_count := t16 in
                t17 <- i32_add b v_count 1 ;;
                let v_count := t17 in
                if (v_count =? 20) then (
                    let v_num := (mkNumber (nexp v_num) (nmant v_num) true) in
                    t18 <- i32_sub b (as_i32 v_fraction_count) 1 ;;
                    let v_num := (mkNumber (i32_saturating_sub e t18) (nmant v_num) (many v_num)) in
                    Ok (Return v_num)
                ) else (
                    t19 <- u8_sub b v_c 48 ;;
                    let v_digit := t19 in
                    t20 <- u64_mul b (nmant v_num) 10 ;;
                    t21 <- u64_add b t20 (as_u64 v_digit) ;;
                    let v_num := (mkNumber (nexp v_num) t21 (many v_num)) in
                    Ok (Next (v_count, v_fraction_count, v_num))
                ))
              (count, fc, mkNumber en m mn)
  = rf <- pn_frac b l m count fc ;;
    match rf with
    | inl (m', fc') => Ok (inl ((count + zlen l, fc', mkNumber en m' mn), []))
    | inr (m', fc') =>
        t <- i32_sub b (as_i32 fc') 1 ;; Ok (inr (mkNumber (i32_saturating_sub e t) m' true))
    end.
Proof.
  induction l as [|c l IH]; intros count fc en m mn Hc H0 H1.
  - cbn [rs_for_iter pn_frac bind]. rewrite zlen_nil, Z.add_0_r. reflexivity.
  - rewrite zlen_cons in *. pose proof (zlen_nonneg l).
    cbn [rs_for_iter pn_frac]. cbv zeta. cbn [nexp nmant many].
    rewrite usize_add_ok by (unfold u64_ok; lia). cbn [bind].
    rewrite i32_add_ok by (unfold i32_ok; lia). cbn [bind].
    destruct (count + 1 =? 20) eqn:E.
    + cbn [bind]. destruct (i32_sub b (as_i32 (fc + 1)) 1); reflexivity.
    + rewrite <- push_digit_as_u64. rewrite !bind_assoc.
      destruct (u8_sub b c 48) as [d| |]; cbn [bind]; try reflexivity.
      destruct (u64_mul b m 10) as [t| |]; cbn [bind]; try reflexivity.
      destruct (u64_add b t (as_u64 d)) as [m1| |]; cbn [bind]; try reflexivity.
      rewrite IH by lia.
      replace (count + 1 + zlen l) with (count + (zlen l + 1)) by lia. reflexivity.
Qed.

Theorem rs_parse_number_eq : forall b i fr e,
  zlen i + zlen fr < 2 ^ 64 ->
  rs_parse_number b i fr e = parse_number b i fr e.
Proof.
  intros b i fr e H. pose proof (zlen_nonneg i). pose proof (zlen_nonneg fr).
  unfold rs_parse_number, parse_number.
  rewrite rs_parse_number_fast_eq by exact H.
  destruct (parse_number_fast b i fr e) as [[n|]| |]; cbn [bind]; try reflexivity.
  cbv zeta.
  rewrite (rs_loop_int b e) by (rewrite ?pow2_31; lia).
  rewrite !bind_assoc.
  destruct (pn_int b i 0 0) as [[[m count]|[m n]]| |] eqn:Ei; cbn [bind]; try reflexivity.
  apply pn_int_count in Ei; [|lia].
  unfold rs_for.
  destruct (count =? 0) eqn:Ec.
  - apply Z.eqb_eq in Ec. subst count.
    rewrite rs_for_iter_skip by lia. rewrite !bind_assoc.
    destruct (pn_skip b fr m 0) as [[[[m1 c1] fc1] fr1]| |] eqn:Es; cbn [bind]; try reflexivity.
    apply pn_skip_len in Es. cbn [no_return bind]. pose proof (zlen_nonneg fr1).
    rewrite (rs_for_iter_frac b e) by (rewrite ?pow2_31; lia). rewrite !bind_assoc.
    destruct (pn_frac b fr1 m1 c1 fc1) as [[[m2 fc2]|[m2 fc2]]| |]; cbn [bind]; try reflexivity.
    destruct (i32_sub b (as_i32 fc2) 1); reflexivity.
  - cbn [bind].
    rewrite (rs_for_iter_frac b e) by (rewrite ?pow2_31; lia). rewrite !bind_assoc.
    destruct (pn_frac b fr m count 0) as [[[m2 fc2]|[m2 fc2]]| |]; cbn [bind]; try reflexivity.
    destruct (i32_sub b (as_i32 fc2) 1); reflexivity.
Qed.

(** 21 integer digits (return from the first loop); 3 leading fraction zeros then 20 digits
    (return from the last loop); a garbage byte (it wraps in the wrapping fast pass of the release
    build and is then never reached by the checked `mantissa * 10 + digit`; the checked build panics) *)
Example rs_parse_number_example :
  rs_parse_number checked_build (repeat 49 21) [50] 7 = Ok (mkNumber 9 1111111111111111111 true) /\
  rs_parse_number checked_build [] (repeat 48 3 ++ repeat 51 20) (- 2 ^ 31)
    = Ok (mkNumber (- 2 ^ 31) 3333333333333333333 true) /\
  rs_parse_number release_build (repeat 49 20 ++ [47]) [] 0 = Ok (mkNumber 2 1111111111111111111 true) /\
  rs_parse_number checked_build (repeat 49 20 ++ [47]) [] 0 = Panic PkOverflow /\
  rs_parse_number release_build (repeat 49 19 ++ [47]) [50] 0 = Ok (mkNumber 1 1111111111111111111 true).
Proof. vm_compute. auto 6. Qed.

(** *** a battery of evaluated instances (both sides computed independently by [vm_compute]):
    digit strings of length 0, 1, 19, 20, 21, 40, leading zeros, garbage bytes 47 (below '0':
    `c - b'0'` overflows) and 200, extreme exponents, both builds *)
Module Battery.
Definition digs (n : nat) (k : Z) : list Z :=
  map (fun j => 48 + (Z.of_nat j * 7 + k) mod 10) (seq 0 n).
Definition lists : list (list Z) :=
  [ []; digs 1 1; digs 19 1; digs 20 1; digs 21 3; digs 40 1;
    repeat 48 4 ++ digs 18 1; repeat 48 21; [47]; [49; 200; 50]; digs 19 3 ++ [47]; digs 20 3 ++ [47] ].
Definition exps := [0; -7; - 2 ^ 31; 2 ^ 31 - 1].
Definition builds := [release_build; checked_build].
Definition pk_eqb (x y : panic_kind) : bool :=
  match x, y with
  | PkOverflow, PkOverflow | PkAssert, PkAssert | PkUnwrap, PkUnwrap | PkIndex, PkIndex
  | PkFuel, PkFuel | PkNoDump, PkNoDump => true
  | _, _ => false
  end.
Definition outcome_eqb {A} (eqb : A -> A -> bool) (x y : outcome A) : bool :=
  match x, y with
  | Ok a, Ok a' => eqb a a'
  | Panic k, Panic k' => pk_eqb k k'
  | _, _ => false
  end.
Definition num_eqb (x y : number) : bool :=
  (nexp x =? nexp y) && (nmant x =? nmant y) && Bool.eqb (many x) (many y).
Definition onum_eqb (x y : option number) : bool :=
  match x, y with Some a, Some a' => num_eqb a a' | None, None => true | _, _ => false end.
Definition all3 (P : build -> list Z -> list Z -> Z -> bool) : bool :=
  forallb (fun b => forallb (fun i => forallb (fun fr => forallb (fun e => P b i fr e) exps) lists) lists) builds.
Example fast_battery :
  all3 (fun b i fr e => outcome_eqb onum_eqb (rs_parse_number_fast b i fr e) (parse_number_fast b i fr e)) = true.
Proof. vm_cast_no_check (eq_refl true). Qed.
Example parse_number_battery :
  all3 (fun b i fr e => outcome_eqb num_eqb (rs_parse_number b i fr e) (parse_number b i fr e)) = true.
Proof. vm_cast_no_check (eq_refl true). Qed.
Example into_i32_battery :
  forallb (fun v => outcome_eqb Z.eqb (rs_into_i32 release_build v) (Ok (into_i32 v)))
    [0; 1; 2 ^ 31 - 2; 2 ^ 31 - 1; 2 ^ 31; 2 ^ 32; 2 ^ 64 - 1; 2 ^ 64; -1; - 2 ^ 31 - 1] = true.
Proof. vm_cast_no_check (eq_refl true). Qed.
End Battery.

(** ** the mantissa of a parsed number is a u64 (any bytes, any build) *)
Lemma wrapu64_ok x : u64_ok (wrapu 64 x).
Proof. unfold u64_ok, wrapu. apply Z.mod_pos_bound. reflexivity. Qed.

Lemma pnf_loop_range b : forall l m cnt m' cnt',
  u64_ok m -> pnf_loop b l m cnt = Ok (m', cnt') -> u64_ok m'.
Proof.
  induction l as [|c r IH]; intros m cnt m' cnt' Hm H.
  - cbn [pnf_loop] in H. inversion H. subst. exact Hm.
  - cbn [pnf_loop] in H. destruct (u8_sub b c 48) as [d| |]; cbn [bind] in H; try discriminate.
    eapply IH; [|exact H]. apply wrapu64_ok.
Qed.

Lemma push_digit_range b m c m' : push_digit b m c = Ok m' -> u64_ok m'.
Proof.
  unfold push_digit. intros H.
  destruct (u8_sub b c 48) as [d| |]; cbn [bind] in H; try discriminate.
  destruct (u64_mul b m 10) as [t| |]; cbn [bind] in H; try discriminate.
  exact (u64_add_range _ _ _ _ H).
Qed.

Lemma pn_int_range b : forall l m count r,
  u64_ok m -> pn_int b l m count = Ok r ->
  u64_ok (match r with inl (m', _) => m' | inr (m', _) => m' end).
Proof.
  induction l as [|c l IH]; intros m count r Hm H.
  - cbn [pn_int] in H. inversion H. exact Hm.
  - cbn [pn_int] in H. cbv zeta in H. destruct (count + 1 =? 20).
    + inversion H. exact Hm.
    + destruct (push_digit b m c) as [m1| |] eqn:E; cbn [bind] in H; try discriminate.
      eapply IH; [|exact H]. exact (push_digit_range _ _ _ _ E).
Qed.

Lemma pn_skip_range b : forall l m fc m' c' fc' r,
  u64_ok m -> pn_skip b l m fc = Ok (m', c', fc', r) -> u64_ok m'.
Proof.
  induction l as [|c l IH]; intros m fc m' c' fc' r Hm H.
  - cbn [pn_skip] in H. inversion H. subst. exact Hm.
  - cbn [pn_skip] in H. destruct (negb (c =? 48)).
    + destruct (push_digit b m c) as [m1| |] eqn:E; cbn [bind] in H; try discriminate.
      inversion H. subst. exact (push_digit_range _ _ _ _ E).
    + eapply IH; eassumption.
Qed.

Lemma pn_frac_range b : forall l m count fc r,
  u64_ok m -> pn_frac b l m count fc = Ok r ->
  u64_ok (match r with inl (m', _) => m' | inr (m', _) => m' end).
Proof.
  induction l as [|c l IH]; intros m count fc r Hm H.
  - cbn [pn_frac] in H. inversion H. exact Hm.
  - cbn [pn_frac] in H. cbv zeta in H. destruct (count + 1 =? 20).
    + inversion H. exact Hm.
    + destruct (push_digit b m c) as [m1| |] eqn:E; cbn [bind] in H; try discriminate.
      eapply IH; [|exact H]. exact (push_digit_range _ _ _ _ E).
Qed.

Lemma u64_ok_0 : u64_ok 0.
Proof. unfold u64_ok. split; [lia | reflexivity]. Qed.

Lemma parse_number_fast_mant b i fr e n :
  parse_number_fast b i fr e = Ok (Some n) -> u64_ok (nmant n).
Proof.
  unfold parse_number_fast. intros H.
  destruct (pnf_loop b i 0 0) as [[m1 ic]| |] eqn:E1; cbn [bind] in H; try discriminate.
  destruct (pnf_loop b fr m1 0) as [[m2 fc]| |] eqn:E2; cbn [bind] in H; try discriminate.
  destruct (ic + fc <=? 19); inversion H. cbn [nmant].
  apply pnf_loop_range in E1; [|exact u64_ok_0].
  apply pnf_loop_range in E2; assumption.
Qed.

Theorem parse_number_mant : forall b i fr e n,
  parse_number b i fr e = Ok n -> u64_ok (nmant n).
Proof.
  intros b i fr e n H. unfold parse_number in H.
  destruct (parse_number_fast b i fr e) as [[n0|]| |] eqn:Ef; cbn [bind] in H; try discriminate.
  - inversion H. subst. exact (parse_number_fast_mant _ _ _ _ _ Ef).
  - destruct (pn_int b i 0 0) as [[[m count]|[m k]]| |] eqn:Ei; cbn [bind] in H; try discriminate.
    + apply pn_int_range in Ei; [|exact u64_ok_0].
      assert (Hs : exists m1 c1 fc1 fr1, u64_ok m1 /\
                (rf <- pn_frac b fr1 m1 c1 fc1 ;;
                 match rf with
                 | inr (m2, fc) => t <- i32_sub b (as_i32 fc) 1 ;; Ok (mkNumber (i32_saturating_sub e t) m2 true)
                 | inl (m2, fc) => Ok (mkNumber (i32_saturating_sub e (as_i32 fc)) m2 false)
                 end) = Ok n).
      { destruct (count =? 0).
        - destruct (pn_skip b fr m 0) as [[[[m1 c1] fc1] fr1]| |] eqn:Es; cbn [bind] in H; try discriminate.
          exists m1, c1, fc1, fr1. split; [|exact H]. exact (pn_skip_range _ _ _ _ _ _ _ _ Ei Es).
        - cbn [bind] in H. exists m, count, 0, fr. split; [exact Ei | exact H]. }
      destruct Hs as (m1 & c1 & fc1 & fr1 & Hm1 & H1).
      destruct (pn_frac b fr1 m1 c1 fc1) as [[[m2 fc2]|[m2 fc2]]| |] eqn:Er; cbn [bind] in H1; try discriminate;
        apply pn_frac_range in Er; try exact Hm1.
      * inversion H1. exact Er.
      * destruct (i32_sub b (as_i32 fc2) 1); cbn [bind] in H1; try discriminate. inversion H1. exact Er.
    + apply pn_int_range in Ei; [|exact u64_ok_0]. inversion H. exact Ei.
Qed.

(** ** moderate_path *)
Theorem rs_moderate_path_eq_gen : forall c T BT f b n,
  (compact c = false -> tables_ok T) -> (compact c = true -> btables_ok BT) -> fmt_ok f ->
  u64_ok (nmant n) ->
  rs_moderate_path c T BT f b n = moderate_path c T BT f b n.
Proof.
  intros c T BT f b n HT HB Hf Hn. unfold rs_moderate_path, moderate_path.
  destruct (compact c); rewrite bind_ret_r.
  - apply rs_bellerophon_eq; auto.
  - apply rs_lemire_eq; auto.
Qed.

Theorem rs_moderate_path_eq : forall c T BT f b n,
  tables_ok T -> btables_ok BT -> fmt_ok f -> u64_ok (nmant n) ->
  rs_moderate_path c T BT f b n = moderate_path c T BT f b n.
Proof. intros. apply rs_moderate_path_eq_gen; auto. Qed.

Corollary rs_moderate_path_eq_std : forall c f b n, f = F32 \/ f = F64 -> u64_ok (nmant n) ->
  rs_moderate_path c TABLES BTABLES f b n = moderate_path c TABLES BTABLES f b n.
Proof.
  intros. apply rs_moderate_path_eq; auto using tables_ok_TABLES, btables_ok_BTABLES, fmt_ok_std.
Qed.

Example rs_moderate_path_example :
  u64_ok (nmant (mkNumber (-3) 9007199254740993000 true)) /\
  rs_moderate_path (mkConfig false false [] []) TABLES BTABLES F64 checked_build
    (mkNumber (-3) 9007199254740993000 true) = Ok (mkExt 9223372036854776832 (-31703)) /\
  rs_moderate_path (mkConfig true false [] []) TABLES BTABLES F64 checked_build
    (mkNumber (-3) 9007199254740993000 true) = Ok (mkExt 9223372036854776832 (-31703)).
Proof. split; [unfold u64_ok; cbn [nmant]; rewrite pow2_64; lia | vm_compute; auto]. Qed.

(** ** parse_float *)
Section ParseFloat.
Variables (c : config) (T : tables) (BT : btables) (L : limits) (f : format) (b : build).
Variables (i fr : list Z) (e : Z).
Hypothesis Hlen : zlen i + zlen fr < 2 ^ 64.
Hypothesis HT : compact c = false -> tables_ok T.
Hypothesis HB : compact c = true -> btables_ok BT.
Hypothesis Hf : fmt_ok f.
(** the slow path is only entered with the parsed number, and with the extended float that the
    moderate path flagged as unresolved (negative exponent), its exponent rebased by INVALID_FP *)
Hypothesis Hslow : forall n fp0 e',
  parse_number b i fr e = Ok n -> u64_ok (nmant n) ->
  try_fast_path c T f b n = Ok None ->
  moderate_path c T BT f b n = Ok fp0 -> exp fp0 < 0 ->
  i32_sub b (exp fp0) (INVALID_FP f) = Ok e' ->
  rs_slow c T L f b n (mkExt (mant fp0) e') i fr = slow c T L f b n (mkExt (mant fp0) e') i fr.

Lemma rs_parse_float_eq_sect :
  rs_parse_float c T BT L f b i fr e = parse_float c T BT L f b i fr e.
Proof.
  unfold rs_parse_float, parse_float.
  rewrite rs_parse_number_eq by exact Hlen.
  destruct (parse_number b i fr e) as [n| |] eqn:En; cbn [bind]; try reflexivity.
  pose proof (parse_number_mant _ _ _ _ _ En) as Hn.
  rewrite rs_try_fast_path_eq.
  destruct (try_fast_path c T f b n) as [[v|]| |] eqn:Et; cbn [bind]; try reflexivity.
  rewrite rs_moderate_path_eq_gen by assumption.
  destruct (moderate_path c T BT f b n) as [fp| |] eqn:Em; cbn [bind]; try reflexivity.
  destruct (exp fp <? 0) eqn:Ex.
  - destruct (i32_sub b (exp fp) (INVALID_FP f)) as [e'| |] eqn:Es; cbn [bind]; try reflexivity.
    apply Z.ltb_lt in Ex.
    rewrite (Hslow n fp e') by (reflexivity || assumption).
    rewrite bind_ret_r.
    destruct (slow c T L f b n (mkExt (mant fp) e') i fr); cbn [bind]; try reflexivity.
    rewrite rs_extended_to_float_eq. apply bind_ret_r.
  - cbn [bind]. rewrite rs_extended_to_float_eq. apply bind_ret_r.
Qed.
End ParseFloat.

(** the general form: the hypothesis on [rs_slow] is only needed at the arguments with which
    [parse_float] calls it; [tables_ok] / [btables_ok] only for the algorithm that [c] selects *)
Theorem rs_parse_float_eq_gen : forall c T BT L f b i fr e,
  zlen i + zlen fr < 2 ^ 64 ->
  (compact c = false -> tables_ok T) -> (compact c = true -> btables_ok BT) -> fmt_ok f ->
  (forall n fp0 e',
     parse_number b i fr e = Ok n -> u64_ok (nmant n) ->
     try_fast_path c T f b n = Ok None ->
     moderate_path c T BT f b n = Ok fp0 -> exp fp0 < 0 ->
     i32_sub b (exp fp0) (INVALID_FP f) = Ok e' ->
     rs_slow c T L f b n (mkExt (mant fp0) e') i fr = slow c T L f b n (mkExt (mant fp0) e') i fr) ->
  rs_parse_float c T BT L f b i fr e = parse_float c T BT L f b i fr e.
Proof. exact rs_parse_float_eq_sect. Qed.

Theorem rs_parse_float_eq : forall c T BT L f b i fr e,
  zlen i + zlen fr < 2 ^ 64 -> tables_ok T -> btables_ok BT -> fmt_ok f ->
  (forall n fp, rs_slow c T L f b n fp i fr = slow c T L f b n fp i fr) ->
  rs_parse_float c T BT L f b i fr e = parse_float c T BT L f b i fr e.
Proof. intros. apply rs_parse_float_eq_gen; auto. Qed.

Corollary rs_parse_float_eq_std : forall c L f b i fr e,
  zlen i + zlen fr < 2 ^ 64 -> f = F32 \/ f = F64 ->
  (forall n fp, rs_slow c TABLES L f b n fp i fr = slow c TABLES L f b n fp i fr) ->
  rs_parse_float c TABLES BTABLES L f b i fr e = parse_float c TABLES BTABLES L f b i fr e.
Proof.
  intros. apply rs_parse_float_eq; auto using tables_ok_TABLES, btables_ok_BTABLES, fmt_ok_std.
Qed.

(** the hypotheses of [rs_parse_float_eq_gen] hold on an input that reaches the slow path:
    "9007199254740993.000000000000000000001" (2^53 + 1 plus a bit: Lemire cannot decide), in both
    table configurations; and both sides compute the double 2^53 + 2 *)
Example rs_parse_float_example : forall c, c = mkConfig false false [] [] \/ c = mkConfig true false [] [] ->
  let i := [57;48;48;55;49;57;57;50;53;52;55;52;48;57;57;51] in
  let fr := repeat 48 20 ++ [49] in
  zlen i + zlen fr < 2 ^ 64 /\
  (forall n fp0 e',
     parse_number checked_build i fr 0 = Ok n -> u64_ok (nmant n) ->
     try_fast_path c TABLES F64 checked_build n = Ok None ->
     moderate_path c TABLES BTABLES F64 checked_build n = Ok fp0 -> exp fp0 < 0 ->
     i32_sub checked_build (exp fp0) (INVALID_FP F64) = Ok e' ->
     rs_slow c TABLES LIMITS F64 checked_build n (mkExt (mant fp0) e') i fr
     = slow c TABLES LIMITS F64 checked_build n (mkExt (mant fp0) e') i fr) /\
  rs_parse_float c TABLES BTABLES LIMITS F64 checked_build i fr 0 = Ok 4845873199050653697 /\
  parse_float c TABLES BTABLES LIMITS F64 checked_build i fr 0 = Ok 4845873199050653697.
Proof.
  intros c Hc i fr. split; [reflexivity|]. split.
  - intros n fp0 e' Hn _ _ Hm Hneg He.
    vm_compute in Hn. inversion Hn. subst n.
    destruct Hc; subst c; vm_compute in Hm; inversion Hm; subst fp0;
      vm_compute in He; inversion He; subst e'; vm_compute; reflexivity.
  - destruct Hc; subst c; vm_compute; auto.
Qed.

Print Assumptions rs_into_i32_eq.
Print Assumptions rs_parse_number_fast_eq.
Print Assumptions rs_parse_number_eq.
Print Assumptions parse_number_mant.
Print Assumptions rs_moderate_path_eq_gen.
Print Assumptions rs_moderate_path_eq.
Print Assumptions rs_parse_float_eq_gen.
Print Assumptions rs_parse_float_eq.
Print Assumptions rs_parse_float_eq_std.
