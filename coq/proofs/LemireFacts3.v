(** * LemireFacts3: Eisel-Lemire, stage 3: q > 55 and q < -27 (floor table entries, fallback when
    the low word is all ones), including the subnormal branch. *)
From Coq Require Import ZArith List Bool Lia Znumtheory Zpow_facts.
From Coq Require Import ZifyBool.
From ML Require Import base.RustSem model.Fmt model.Num model.Number model.Lemire
  gen.Consts gen.Tables spec.RneZ proofs.TableFacts proofs.LemireFacts0 proofs.LemireFacts1
  proofs.LemireFacts2.
Import ListNotations.
Open Scope Z_scope.

Arguments Z.pow : simpl never.
Local Opaque Z.pow.

Lemma qcheck_floor q : -342 <= q <= 308 -> q < -27 \/ 55 < q ->
  T128 q * qY q < qX q < (T128 q + 1) * qY q.
Proof.
  intros H H2. pose proof (qcheck_ok q ltac:(lia)) as C. unfold qcheck in C. cbv zeta in C.
  replace ((0 <=? q) && (q <=? 55)) with false in C by lia.
  replace ((-27 <=? q) && (q <? 0)) with false in C by lia.
  apply andb_prop in C. destruct C as [C _]. lia.
Qed.

Lemma p5_56 : 2 ^ 60 < 5 ^ 56. Proof. reflexivity. Qed.
Lemma p5_28 : 2 ^ 64 < 5 ^ 28. Proof. reflexivity. Qed.

Lemma p2n_pow e : exists j, 0 <= j /\ p2n e = 2 ^ j.
Proof.
  unfold p2n. destruct (0 <=? e) eqn:E.
  - exists e. split; [lia|reflexivity].
  - exists 0. split; [lia|reflexivity].
Qed.

(** for q < -27 the scaled significand is not a multiple of 5^-q, hence not of the unit *)
Lemma no_multiple_neg q w lz sh K : 0 < w < 2 ^ 64 -> 0 <= lz -> 0 <= sh -> q < -27 ->
  w * 2 ^ lz * qX q <> K * (2 ^ (128 + sh) * qY q).
Proof.
  intros Hw Hlz Hsh Hq E.
  assert (Hdiv : (5 ^ (- q) | w)).
  { destruct (p2n_pow (qs q)) as (j & Hj & Ej).
    apply (pow5_divides (- q) (lz + j)); [lia|lia|].
    rewrite pow2_add by lia. rewrite <- Ej.
    replace (2 ^ lz * p2n (qs q) * w) with (w * 2 ^ lz * qX q).
    2:{ unfold qX, tenN. replace (0 <=? q) with false by lia. ring. }
    rewrite E. unfold qY, tenD. replace (0 <=? q) with false by lia.
    rewrite pow10_split by lia.
    exists (K * 2 ^ (128 + sh) * 2 ^ (- q) * p2d (qs q)). ring. }
  apply Z.divide_pos_le in Hdiv; [|lia].
  assert (5 ^ 28 <= 5 ^ (- q)) by (apply Z.pow_le_mono_r; lia).
  pose proof p5_28. lia.
Qed.

Lemma facts_floor f q w lo hi : lfmt f -> 0 < w < 2 ^ 64 ->
  SMALLEST_POWER_OF_TEN f <= q <= LARGEST_POWER_OF_TEN f -> q < -27 \/ 55 < q ->
  0 <= lo < 2 ^ 64 -> 2 ^ 62 <= hi < 2 ^ 64 ->
  refined_pair (w * 2 ^ lz64 w) q lo hi \/
  unrefined_pair (w * 2 ^ lz64 w) q (61 - MANTISSA_SIZE f) lo hi ->
  lo <> 2 ^ 64 - 1 ->
  facts_ok f q w lo hi.
Proof.
  intros L Hw Hq Hreg Hlo Hhi Hpair Hnf.
  pose proof (lf_sp10 f L) as Hsp. pose proof (lf_lp10 f L) as Hlp.
  pose proof (lz64_spec w Hw) as (Hlz & Hw').
  set (lz := lz64 w) in *. set (w' := w * 2 ^ lz) in *.
  pose proof (lfmt_emax f L) as (He1 & He2 & He3 & He4 & He5).
  pose proof (lf_ms f L) as HMS.
  pose proof (prod_floor f q w' lo hi L ltac:(lia) Hw' Hlo Hhi Hpair) as PF. cbv zeta in PF.
  pose proof (M_range f hi L Hhi) as MR. cbv zeta in MR.
  unfold facts_ok. cbv zeta. fold lz. fold w'.
  set (u := hi / 2 ^ 63) in *. set (sh := u + 61 - MANTISSA_SIZE f) in *.
  set (M := hi / 2 ^ sh) in *. set (G := 2 ^ (128 + sh)) in *.
  set (P := w' * T128 q) in *.
  destruct MR as (Hu & Hub & HM). destruct PF as [PF PF2]. specialize (PF2 (or_introl Hnf)).
  pose proof (qY_pos q) as HY.
  assert (Hsh : 0 <= sh) by (unfold sh; lia).
  assert (HG : 0 < G) by (unfold G; apply pow2_pos; lia).
  pose proof (qcheck_floor q ltac:(lia) Hreg) as HX.
  assert (ED : forall m, m * (G * qY q) = (m * G) * qY q) by (intros; ring).
  split; [|split].
  - (* floor *)
    rewrite !ED.
    assert (P * qY q < w' * qX q) by (unfold P; clear - HX Hw'; nia).
    assert (w' * qX q < (P + w') * qY q) by (unfold P; clear - HX Hw'; nia).
    clear - H H0 PF PF2 HY. split; nia.
  - (* no ties *)
    intros _. split.
    + intros Et. exfalso. unfold cf_tie in Et. cbv zeta in Et.
      pose proof (lf_minrte f L). pose proof (lf_maxrte f L). lia.
    + intros EAD _. exfalso. destruct Hreg as [Hneg|Hpos].
      * exact (no_multiple_neg q w lz sh M Hw ltac:(lia) Hsh Hneg EAD).
      * assert (Hdiv : (5 ^ q | M)).
        { destruct (p2d_pow (qs q)) as (j & Hj & Ej).
          apply (pow5_divides q (128 + sh + j)); [lia|lia|].
          rewrite pow2_add by lia. fold G. rewrite <- Ej.
          replace (G * p2d (qs q) * M) with (M * (G * qY q)).
          2:{ unfold qY, tenD. replace (0 <=? q) with true by lia. ring. }
          rewrite <- EAD. unfold qX, tenN. replace (0 <=? q) with true by lia.
          rewrite pow10_split by lia.
          exists (w' * 2 ^ q * p2n (qs q)). ring. }
        apply Z.divide_pos_le in Hdiv; [|lia].
        assert (5 ^ 56 <= 5 ^ q) by (apply Z.pow_le_mono_r; lia).
        assert (2 ^ (MANTISSA_SIZE f + 2) <= 2 ^ 60) by (apply pow2_le; lia).
        pose proof p5_56. lia.
  - (* no subnormal ties *)
    intros Hp j EAD. destruct Hreg as [Hneg|Hpos].
    + apply (no_multiple_neg q w lz sh ((2 * j + 1) * 2 ^ (1 - (pw q + u - lz - MINIMUM_EXPONENT f))) Hw ltac:(lia) Hsh Hneg).
      fold G. fold w'. rewrite EAD. ring.
    + pose proof (pw_nonneg_q q ltac:(lia)). pose proof (lf_minexp_lt f L). lia.
Qed.

(** ** Stage 3 *)
Theorem compute_float_sound_floor f b q w : lfmt_ok f = true ->
  0 < w < 2 ^ 64 -> SMALLEST_POWER_OF_TEN f <= q <= LARGEST_POWER_OF_TEN f ->
  q < -27 \/ 55 < q -> cf_sound f b q w.
Proof.
  intros Lok Hw Hq Hreg. pose proof (lfmt_ok_spec f Lok) as L.
  apply cf_driver; [assumption|lia|lia|].
  intros lo hi Hlo Hhi Hpair Hfb. apply facts_floor; try assumption.
  replace ((-27 <=? q) && (q <=? 55)) with false in Hfb by lia.
  cbn [negb] in Hfb. rewrite andb_true_r in Hfb. unfold u64_max in Hfb. lia.
Qed.

Print Assumptions compute_float_sound_floor.

Example ex_floor_hyps : lfmt_ok F64 = true /\ 0 < 3 < 2 ^ 64 /\
  SMALLEST_POWER_OF_TEN F64 <= -324 <= LARGEST_POWER_OF_TEN F64 /\ (-324 < -27 \/ 55 < -324).
Proof. split; [exact lfmt_ok_F64|]. rewrite p2_64. cbn. lia. Qed.
