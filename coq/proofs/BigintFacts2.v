(** * BigintFacts2: exactness of the shift / bit-length / top-bits operations of model/Bigint.v
    ([shl_bits], [shl_limbs], [shl], [leading_zeros], [bit_length], [nonzero], [hi64],
    [from_u64]) with respect to the value [lval] of a little-endian limb list. *)
From Coq Require Import ZArith List Bool Lia Znumtheory.
From Coq Require Import ZifyBool.
From ML Require Import base.RustSem model.Fmt model.Vec model.Bigint.
From ML Require Import proofs.LimbVal.
Import ListNotations.
Open Scope Z_scope.

Local Opaque Z.pow.
Arguments Z.pow : simpl never.

(** ** 1. Small lemmas about Z *)

Lemma pow2_pos n : 0 < 2 ^ n \/ 2 ^ n = 0.
Proof.
  destruct (Z_lt_le_dec n 0) as [H|H].
  - right. apply Z.pow_neg_r; lia.
  - left. apply Z.pow_pos_nonneg; lia.
Qed.

Lemma pow2_gt0 n : 0 <= n -> 0 < 2 ^ n.
Proof. intros; apply Z.pow_pos_nonneg; lia. Qed.

Lemma pow2_split a b : 0 <= a -> 0 <= b -> 2 ^ (a + b) = 2 ^ a * 2 ^ b.
Proof. intros; apply Z.pow_add_r; lia. Qed.

Lemma B64_pow n : 0 <= n -> B64 ^ n = 2 ^ (64 * n).
Proof. intros. rewrite B64_eq, <- Z.pow_mul_r by lia. reflexivity. Qed.

Lemma B64_pow_pos n : 0 <= n -> 0 < B64 ^ n.
Proof. intros; apply Z.pow_pos_nonneg; [apply B64_pos|lia]. Qed.

(** [Z.lor] of a multiple of [2^n] and a value below [2^n] is their sum *)
Lemma land_shifted_low a lo n : 0 <= n -> 0 <= lo < 2 ^ n -> Z.land (a * 2 ^ n) lo = 0.
Proof.
  intros Hn Hlo. apply Z.bits_inj'. intros i Hi.
  rewrite Z.land_spec, Z.bits_0, <- Z.shiftl_mul_pow2 by lia.
  destruct (Z_lt_le_dec i n) as [H|H].
  - rewrite Z.shiftl_spec_low by lia. reflexivity.
  - replace lo with (lo mod 2 ^ n) by (apply Z.mod_small; lia).
    rewrite Z.mod_pow2_bits_high by lia. apply andb_false_r.
Qed.

Lemma lor_shifted_low a lo n : 0 <= n -> 0 <= lo < 2 ^ n -> Z.lor (a * 2 ^ n) lo = a * 2 ^ n + lo.
Proof.
  intros Hn Hlo. pose proof (land_shifted_low a lo n Hn Hlo) as H.
  rewrite <- Z.lxor_lor by exact H. symmetry. apply Z.add_nocarry_lxor. exact H.
Qed.

(** left shift inside a 64-bit word *)
Lemma shl64_mod x n : 0 <= n <= 64 -> (x * 2 ^ n) mod B64 = (x mod 2 ^ (64 - n)) * 2 ^ n.
Proof.
  intros Hn. rewrite B64_eq. replace 64 with ((64 - n) + n) at 1 by lia.
  rewrite pow2_split by lia. apply Z.mul_mod_distr_r; apply Z.neq_sym, Z.lt_neq, pow2_gt0; lia.
Qed.

Lemma shl64_div x n : 0 <= n <= 64 -> (x * 2 ^ n) / B64 = x / 2 ^ (64 - n).
Proof.
  intros Hn. rewrite B64_eq. replace 64 with ((64 - n) + n) at 1 by lia.
  rewrite pow2_split by lia. apply Z.div_mul_cancel_r; apply Z.neq_sym, Z.lt_neq, pow2_gt0; lia.
Qed.

Lemma shr_small x n : 0 <= n <= 64 -> 0 <= x < B64 -> 0 <= x / 2 ^ (64 - n) < 2 ^ n.
Proof.
  intros Hn Hx. pose proof (pow2_gt0 (64 - n) ltac:(lia)) as Hp. split.
  - apply Z.div_pos; lia.
  - apply Z.div_lt_upper_bound; [lia|]. rewrite <- pow2_split by lia.
    replace (64 - n + n) with 64 by lia. rewrite <- B64_eq. lia.
Qed.

(** one step of the [shl_bits] loop: the new limb and the bits moved to the next one *)
Lemma shl_limb_step x prev n :
  0 < n < 64 -> 0 <= x < B64 -> 0 <= prev < B64 ->
  let x' := Z.lor ((x * 2 ^ n) mod B64) (prev / 2 ^ (64 - n)) in
  0 <= x' < B64 /\ x' + B64 * (x / 2 ^ (64 - n)) = x * 2 ^ n + prev / 2 ^ (64 - n).
Proof.
  intros Hn Hx Hp x'. subst x'.
  pose proof (shr_small prev n ltac:(lia) Hp) as Hlo.
  rewrite shl64_mod by lia. rewrite lor_shifted_low by lia.
  rewrite <- shl64_mod by lia. rewrite <- (shl64_div x n) by lia.
  pose proof B64_pos as HB.
  pose proof (Z.div_mod (x * 2 ^ n) B64 ltac:(lia)) as Hdm.
  pose proof (Z.mod_pos_bound (x * 2 ^ n) B64 HB) as Hm.
  split; [|lia].
  split; [lia|].
  (* (x*2^n) mod B64 is a multiple of 2^n below B64, so adding lo < 2^n stays below B64 *)
  rewrite shl64_mod by lia.
  pose proof (Z.mod_pos_bound x (2 ^ (64 - n)) (pow2_gt0 (64 - n) ltac:(lia))) as Hxm.
  assert (HB' : B64 = 2 ^ (64 - n) * 2 ^ n).
  { rewrite <- pow2_split by lia. replace (64 - n + n) with 64 by lia. apply B64_eq. }
  rewrite HB'. pose proof (pow2_gt0 n ltac:(lia)). nia.
Qed.

(** ** 2. Monad / machine-operation helpers *)

Lemma bind_ok_inv {A B} (x : outcome A) (f : A -> outcome B) r :
  bind x f = Ok r -> exists a, x = Ok a /\ f a = Ok r.
Proof. destruct x; cbn [bind]; intros H; try discriminate. eauto. Qed.

Lemma uop_in_range b n r : 0 <= r < 2 ^ n -> uop b n r = Ok r.
Proof.
  intros H. unfold uop, in_u.
  replace ((0 <=? r) && (r <? 2 ^ n)) with true by lia. reflexivity.
Qed.

Lemma debug_assert_true b : debug_assert b true = Ok tt.
Proof. unfold debug_assert. rewrite andb_false_r. reflexivity. Qed.

Lemma shr_u64_in_range b x k : 0 <= k < 64 -> u64_shr b x k = Ok (x / 2 ^ k).
Proof.
  intros H. unfold u64_shr, shr_u.
  replace ((0 <=? k) && (k <? 64)) with true by lia. reflexivity.
Qed.

Lemma shl_u64_in_range b x k : 0 <= k < 64 -> u64_shl b x k = Ok ((x * 2 ^ k) mod B64).
Proof.
  intros H. unfold u64_shl, shl_u, wrapu.
  replace ((0 <=? k) && (k <? 64)) with true by lia. reflexivity.
Qed.

Lemma eff_in_range k : 0 <= k < 64 -> eff k = k.
Proof. intros H. unfold eff. replace ((0 <=? k) && (k <? 64)) with true by lia. reflexivity. Qed.

(** ** 3. Extra facts on [lval], [limbs_ok], [zlen], [is_normalized] *)

Lemma zlen_nil {A} : zlen (@nil A) = 0.
Proof. reflexivity. Qed.

Lemma zlen_cons {A} (x : A) l : zlen (x :: l) = zlen l + 1.
Proof. unfold zlen. cbn [length]. lia. Qed.

Lemma zlen_app {A} (l1 l2 : list A) : zlen (l1 ++ l2) = zlen l1 + zlen l2.
Proof. unfold zlen. rewrite app_length. lia. Qed.

Lemma zlen_nonneg {A} (l : list A) : 0 <= zlen l.
Proof. unfold zlen. lia. Qed.

Lemma zlen_repeat {A} (x : A) n : zlen (repeat x n) = Z.of_nat n.
Proof. unfold zlen. rewrite repeat_length. reflexivity. Qed.

Lemma zlen_0_nil {A} (l : list A) : zlen l = 0 -> l = [].
Proof. destruct l; [reflexivity|]. rewrite zlen_cons. pose proof (zlen_nonneg l). lia. Qed.

Lemma limbs_ok_app l1 l2 : limbs_ok (l1 ++ l2) <-> limbs_ok l1 /\ limbs_ok l2.
Proof. unfold limbs_ok. apply Forall_app. Qed.

Lemma limbs_ok_repeat0 n : limbs_ok (repeat 0 n).
Proof.
  unfold limbs_ok. induction n as [|n IH]; cbn [repeat]; constructor; [|exact IH].
  pose proof B64_pos. lia.
Qed.

Lemma lval_cons x r : lval (x :: r) = x + B64 * lval r.
Proof. reflexivity. Qed.

Lemma lval_snoc l x : lval (l ++ [x]) = lval l + B64 ^ zlen l * x.
Proof. rewrite lval_app. cbn [lval]. ring. Qed.

Lemma lval_zero_iff l : limbs_ok l -> (lval l = 0 <-> Forall (fun x => x = 0) l).
Proof.
  induction 1 as [|x l Hx Hl IH]; cbn [lval].
  - split; intros; [constructor|reflexivity].
  - pose proof (lval_nonneg l Hl). pose proof B64_pos. split.
    + intros H1. assert (x = 0 /\ lval l = 0) as [-> H2] by nia.
      constructor; [reflexivity|]. apply IH, H2.
    + intros H1. inversion H1; subst. apply IH in H5. lia.
Qed.

Lemma existsb_nonzero_lval l :
  limbs_ok l -> existsb (fun x => negb (x =? 0)) l = negb (lval l =? 0).
Proof.
  induction 1 as [|x l Hx Hl IH]; cbn [lval existsb]; [reflexivity|].
  rewrite IH. pose proof (lval_nonneg l Hl). pose proof B64_pos.
  destruct (Z.eqb_spec x 0) as [->|Hx0]; cbn [negb orb].
  - destruct (Z.eqb_spec (lval l) 0); destruct (Z.eqb_spec (0 + B64 * lval l) 0); try reflexivity; nia.
  - destruct (Z.eqb_spec (x + B64 * lval l) 0); [nia|reflexivity].
Qed.

(** a list is non-empty iff it is [r ++ [x]] *)
Lemma list_snoc_cases {A} (l : list A) : l = [] \/ exists r x, l = r ++ [x].
Proof.
  destruct l as [|a l]; [left; reflexivity|right].
  destruct (exists_last (l := a :: l)) as (r & x & H); [discriminate|]. eauto.
Qed.

Lemma is_normalized_snoc r x : is_normalized (r ++ [x]) = negb (x =? 0).
Proof.
  unfold is_normalized. rewrite rev_app_distr. cbn [rev app].
  destruct x; reflexivity.
Qed.

Lemma is_normalized_nil : is_normalized [] = true.
Proof. reflexivity. Qed.

(** value-level characterisation of normalisation *)
Lemma is_normalized_lval l :
  limbs_ok l -> l <> [] -> (is_normalized l = true <-> B64 ^ (zlen l - 1) <= lval l).
Proof.
  intros Hok Hne. destruct (list_snoc_cases l) as [->|(r & x & ->)]; [congruence|].
  apply limbs_ok_app in Hok. destruct Hok as [Hr Hx]. inversion Hx as [|? ? Hx0 _]; subst.
  rewrite is_normalized_snoc, lval_snoc, zlen_app. change (zlen [x]) with 1.
  replace (zlen r + 1 - 1) with (zlen r) by lia.
  pose proof (lval_bound r Hr). pose proof (lval_nonneg r Hr).
  pose proof (B64_pow_pos (zlen r) (zlen_nonneg r)).
  destruct (Z.eqb_spec x 0) as [->|Hn]; cbn [negb]; split; intros; try reflexivity; try discriminate; nia.
Qed.

(** ** 4. [shl_bits] *)

(** The loop with shift amounts [n] and [64 - n]: the output limbs together with the bits shifted
    out of the last limb ([p / 2^(64-n)], [p] being the last input limb) represent the input
    times [2^n] plus the bits shifted in ([prev / 2^(64-n)]). *)
Lemma shl_bits_loop_spec n l :
  0 < n < 64 -> limbs_ok l -> forall prev, 0 <= prev < B64 ->
  forall l' p, shl_bits_loop l n (64 - n) prev = (l', p) ->
  limbs_ok l' /\ zlen l' = zlen l /\ 0 <= p < B64 /\
  lval l' + B64 ^ zlen l * (p / 2 ^ (64 - n)) = lval l * 2 ^ n + prev / 2 ^ (64 - n).
Proof.
  intros Hn Hok. induction Hok as [|x r Hx Hr IH]; intros prev Hprev l' p Hloop.
  - cbn [shl_bits_loop] in Hloop. inversion Hloop; subst. cbn [lval].
    split; [constructor|]. split; [reflexivity|]. split; [exact Hprev|].
    change (zlen (@nil Z)) with 0. rewrite Z.pow_0_r. lia.
  - cbn [shl_bits_loop] in Hloop.
    destruct (shl_bits_loop r n (64 - n) x) as [r' p'] eqn:E.
    pose proof (f_equal fst Hloop) as Hl'. pose proof (f_equal snd Hloop) as Hp'.
    cbn [fst snd] in Hl', Hp'. subst l' p'. clear Hloop.
    destruct (IH x Hx r' p E) as (Hr' & Hlen & Hp & Hval).
    destruct (shl_limb_step x prev n Hn Hx Hprev) as [Hx' Hstep].
    cbv zeta in Hx', Hstep.
    set (x' := Z.lor ((x * 2 ^ n) mod B64) (prev / 2 ^ (64 - n))) in *.
    split; [constructor; assumption|].
    split; [rewrite !zlen_cons; lia|]. split; [exact Hp|].
    rewrite !lval_cons, zlen_cons, Z.pow_add_r, Z.pow_1_r by (pose proof (zlen_nonneg r); lia).
    set (cc := p / 2 ^ (64 - n)) in *. set (cx := x / 2 ^ (64 - n)) in *.
    set (cp := prev / 2 ^ (64 - n)) in *. set (P := B64 ^ zlen r) in *.
    replace (x' + B64 * lval r' + P * B64 * cc) with (x' + B64 * (lval r' + P * cc)) by ring.
    rewrite Hval. lia.
Qed.

Example shl_bits_loop_ex :
  shl_bits_loop [2 ^ 63 + 5; 3] 4 60 0 = ([80; 56], 3).
Proof. vm_compute. reflexivity. Qed.

(** closed form of [shl_bits] for a shift amount in range: no assertion or overflow check can
    fire, in any build mode *)
Lemma shl_bits_eval c L b v n :
  LIMB_BITS L = 64 -> 0 < n < 64 ->
  shl_bits c L b v n =
  Ok (let lp := shl_bits_loop (vl v) n (64 - n) 0 in
      let carry := snd lp / 2 ^ (64 - n) in
      if negb (carry =? 0) then try_push (alloc c) (vset_list v (fst lp)) carry
      else Some (vset_list v (fst lp))).
Proof.
  intros HL Hn. unfold shl_bits. rewrite HL.
  replace (negb (n =? 0)) with true by lia. replace (n <? 64) with true by lia.
  rewrite debug_assert_true. cbn [bind]. unfold usize_sub.
  rewrite uop_in_range by lia. cbn [bind].
  rewrite shl_u64_in_range, shr_u64_in_range by lia. cbn [bind].
  replace (if negb (vlen v =? 0) then Ok tt else Ok tt) with (Ok tt)
    by (destruct (negb (vlen v =? 0)); reflexivity).
  cbn [bind]. rewrite !eff_in_range by lia.
  destruct (shl_bits_loop (vl v) n (64 - n) 0) as [l prev]. cbn [fst snd].
  rewrite shr_u64_in_range by lia. cbn [bind].
  destruct (negb (prev / 2 ^ (64 - n) =? 0)); reflexivity.
Qed.

Lemma shl_bits_loop_snd' l nn rr prev : snd (shl_bits_loop l nn rr prev) = last (prev :: l) 0.
Proof.
  revert prev. induction l as [|x r IH]; intros prev; [reflexivity|].
  cbn [shl_bits_loop]. specialize (IH x).
  destruct (shl_bits_loop r nn rr x) as [r' p]. cbn [snd] in *. rewrite IH. reflexivity.
Qed.

Lemma shl_bits_loop_snd l nn rr : snd (shl_bits_loop l nn rr 0) = last l 0.
Proof. rewrite shl_bits_loop_snd'. destruct l; reflexivity. Qed.

(** the carry out of the top limb *)
Definition shl_carry (l : list Z) (n : Z) : Z := last l 0 / 2 ^ (64 - n).

Lemma pow_B64_le a b' : 0 <= a <= b' -> B64 ^ a <= B64 ^ b'.
Proof. intros. apply Z.pow_le_mono_r; [apply B64_pos|lia]. Qed.

Lemma pow_B64_succ a : 0 <= a -> B64 ^ (a + 1) = B64 ^ a * B64.
Proof. intros. rewrite Z.pow_add_r, Z.pow_1_r by lia. reflexivity. Qed.

Lemma pow2_le_B64 n : 0 <= n <= 64 -> 2 ^ n <= B64.
Proof. intros. rewrite B64_eq. apply Z.pow_le_mono_r; lia. Qed.

(** Everything about [shl_bits] in one statement. *)
Lemma shl_bits_full c L b v n :
  LIMB_BITS L = 64 -> 0 < n < 64 -> limbs_ok (vl v) ->
  exists o, shl_bits c L b v n = Ok o /\
    (forall v', o = Some v' ->
       lval (vl v') = lval (vl v) * 2 ^ n /\ limbs_ok (vl v') /\
       zlen (vl v') = zlen (vl v) + (if shl_carry (vl v) n =? 0 then 0 else 1) /\
       (alloc c = false -> vcap v' = vcap v) /\
       (alloc c = true ->
          vcap v' = if negb (shl_carry (vl v) n =? 0) && (zlen (vl v) =? vcap v)
                    then grow (vcap v) (zlen (vl v) + 1) else vcap v) /\
       (is_normalized (vl v) = true -> is_normalized (vl v') = true)) /\
    (alloc c = true -> o <> None) /\
    (alloc c = false ->
       (o = None <-> shl_carry (vl v) n <> 0 /\ vcap v <= zlen (vl v))) /\
    (alloc c = false -> zlen (vl v) <= vcap v ->
       (o = None <-> B64 ^ vcap v <= lval (vl v) * 2 ^ n)).
Proof.
  intros HL Hn Hok. rewrite (shl_bits_eval c L b v n HL Hn).
  eexists; split; [reflexivity|]. cbv zeta.
  pose proof (shl_bits_loop_snd (vl v) n (64 - n)) as Hsnd.
  destruct (shl_bits_loop (vl v) n (64 - n) 0) as [l' p] eqn:E. cbn [fst snd] in *.
  pose proof B64_pos as HB.
  destruct (shl_bits_loop_spec n (vl v) Hn Hok 0 ltac:(lia) l' p E) as (Hok' & Hlen & Hp & Hval).
  rewrite Zdiv_0_l, Z.add_0_r in Hval.
  unfold shl_carry. rewrite <- Hsnd.
  pose proof (shr_small p n ltac:(lia) Hp) as Hc.
  pose proof (pow2_le_B64 n ltac:(lia)) as H2n.
  set (carry := p / 2 ^ (64 - n)) in *.
  pose proof (zlen_nonneg (vl v)) as Hlen0.
  pose proof (B64_pow_pos (zlen (vl v)) Hlen0) as HP.
  pose proof (lval_bound l' Hok') as Hb'. pose proof (lval_nonneg l' Hok') as Hnn'.
  rewrite Hlen in Hb'.
  pose proof (lval_nonneg (vl v) Hok) as Hnn.
  (* normalisation is preserved whatever the carry *)
  assert (Hnorm0 : carry = 0 -> is_normalized (vl v) = true -> is_normalized l' = true).
  { intros Hc0 Hnz. destruct (vl v) as [|x0 r0] eqn:Ev.
    - apply zlen_0_nil in Hlen. subst l'. reflexivity.
    - assert (Hne : x0 :: r0 <> []) by discriminate.
      assert (Hne' : l' <> []).
      { intros ->. rewrite zlen_cons in Hlen. change (zlen (@nil Z)) with 0 in Hlen.
        pose proof (zlen_nonneg r0). lia. }
      apply (is_normalized_lval _ Hok' Hne'). rewrite Hlen.
      apply (is_normalized_lval _ Hok Hne) in Hnz.
      rewrite Hc0, Z.mul_0_r, Z.add_0_r in Hval. rewrite Hval.
      pose proof (pow2_gt0 n ltac:(lia)). nia. }
  destruct (Z.eqb_spec carry 0) as [Hc0|Hc0]; cbn [negb andb].
  - (* no carry *)
    rewrite Hc0, Z.mul_0_r, Z.add_0_r in Hval.
    split; [|split; [|split]].
    + intros v' Hv'. injection Hv' as <-. unfold vset_list. cbn [vl vcap].
      repeat split; try assumption; try lia; auto.
    + discriminate.
    + intros _. split; [discriminate|]. intros [H _]. congruence.
    + intros _ Hcap. split; [discriminate|]. intros Hge. exfalso.
      pose proof (pow_B64_le (zlen (vl v)) (vcap v) ltac:(lia)). lia.
  - (* a carry is pushed *)
    unfold try_push, vset_list, vlen. cbn [vl vcap]. rewrite Hlen.
    assert (Hpush : forall cap, let v' := mkVec (l' ++ [carry]) cap in
              lval (vl v') = lval (vl v) * 2 ^ n /\ limbs_ok (vl v') /\
              zlen (vl v') = zlen (vl v) + 1 /\
              (is_normalized (vl v) = true -> is_normalized (vl v') = true)).
    { intros cap v'. subst v'. cbn [vl].
      rewrite lval_snoc, Hlen, zlen_app, Hlen. change (zlen [carry]) with 1.
      split; [exact Hval|]. split.
      - apply limbs_ok_app. split; [exact Hok'|]. constructor; [lia|constructor].
      - split; [reflexivity|]. intros _. rewrite is_normalized_snoc.
        destruct (Z.eqb_spec carry 0); [contradiction|reflexivity]. }
    split; [|split; [|split]].
    + intros v' Hv'. destruct (alloc c) eqn:Ea.
      * injection Hv' as <-. destruct (Hpush (if zlen (vl v) =? vcap v
            then grow (vcap v) (zlen (vl v) + 1) else vcap v)) as (H1 & H2 & H3 & H4).
        cbv zeta in *. cbn [vl vcap] in *.
        repeat split; try assumption; try discriminate.
      * destruct (zlen (vl v) <? vcap v) eqn:Elt; [|discriminate].
        injection Hv' as <-. destruct (Hpush (vcap v)) as (H1 & H2 & H3 & H4).
        cbv zeta in *. cbn [vl vcap] in *.
        repeat split; try assumption; try discriminate.
    + intros ->. discriminate.
    + intros ->. destruct (Z.ltb_spec (zlen (vl v)) (vcap v)); split;
        try discriminate; try reflexivity; try tauto; lia.
    + intros -> Hcap. destruct (Z.ltb_spec (zlen (vl v)) (vcap v)) as [Hlt|Hge]; split;
        try discriminate; try reflexivity.
      * intros Hbig. exfalso.
        pose proof (pow_B64_le (zlen (vl v) + 1) (vcap v) ltac:(lia)) as Hle.
        rewrite pow_B64_succ in Hle by lia. nia.
      * intros _. replace (vcap v) with (zlen (vl v)) by lia. nia.
Qed.

(** *** Main theorems for [shl_bits] (any configuration with 64-bit limbs, any build mode) *)

Theorem shl_bits_no_panic c L b v n :
  LIMB_BITS L = 64 -> 0 < n < 64 -> limbs_ok (vl v) ->
  exists o, shl_bits c L b v n = Ok o.
Proof.
  intros HL Hn Hok. destruct (shl_bits_full c L b v n HL Hn Hok) as (o & H & _). eauto.
Qed.

Theorem shl_bits_spec c L b v n v' :
  LIMB_BITS L = 64 -> 0 < n < 64 -> limbs_ok (vl v) ->
  shl_bits c L b v n = Ok (Some v') ->
  lval (vl v') = lval (vl v) * 2 ^ n /\ limbs_ok (vl v') /\
  zlen (vl v') = zlen (vl v) + (if shl_carry (vl v) n =? 0 then 0 else 1) /\
  (alloc c = false -> vcap v' = vcap v) /\
  (alloc c = true ->
     vcap v' = if negb (shl_carry (vl v) n =? 0) && (zlen (vl v) =? vcap v)
               then grow (vcap v) (zlen (vl v) + 1) else vcap v) /\
  (is_normalized (vl v) = true -> is_normalized (vl v') = true).
Proof.
  intros HL Hn Hok H. destruct (shl_bits_full c L b v n HL Hn Hok) as (o & Ho & Hs & _).
  rewrite H in Ho. injection Ho as <-. apply Hs. reflexivity.
Qed.

(** heap back-end: never `None` *)
Theorem shl_bits_heap c L b v n :
  LIMB_BITS L = 64 -> 0 < n < 64 -> limbs_ok (vl v) -> alloc c = true ->
  exists v', shl_bits c L b v n = Ok (Some v').
Proof.
  intros HL Hn Hok Ha. destruct (shl_bits_full c L b v n HL Hn Hok) as (o & Ho & _ & Hh & _).
  destruct o as [v'|]; [eauto|]. exfalso. apply (Hh Ha). reflexivity.
Qed.

(** stack back-end: `None` exactly when a non-zero carry leaves the top limb of a full vector *)
Theorem shl_bits_stack_none_carry c L b v n :
  LIMB_BITS L = 64 -> 0 < n < 64 -> limbs_ok (vl v) -> alloc c = false ->
  (shl_bits c L b v n = Ok None <-> shl_carry (vl v) n <> 0 /\ vcap v <= zlen (vl v)).
Proof.
  intros HL Hn Hok Ha.
  destruct (shl_bits_full c L b v n HL Hn Hok) as (o & Ho & _ & _ & Hc & _).
  rewrite Ho. rewrite <- (Hc Ha). split; [intros H; injection H; auto|intros ->; reflexivity].
Qed.

(** ... that is, exactly when the product does not fit in [vcap v] limbs *)
Theorem shl_bits_stack_none c L b v n :
  LIMB_BITS L = 64 -> 0 < n < 64 -> limbs_ok (vl v) -> alloc c = false ->
  zlen (vl v) <= vcap v ->
  (shl_bits c L b v n = Ok None <-> B64 ^ vcap v <= lval (vl v) * 2 ^ n).
Proof.
  intros HL Hn Hok Ha Hcap.
  destruct (shl_bits_full c L b v n HL Hn Hok) as (o & Ho & _ & _ & _ & Hc).
  rewrite Ho. rewrite <- (Hc Ha Hcap). split; [intros H; injection H; auto|intros ->; reflexivity].
Qed.

Definition cfg_stack := mkConfig false false [] [].
Definition cfg_heap := mkConfig false true [] [].
Definition lim64 := mkLimits 4000 62 64.

Example shl_bits_ex1 :
  shl_bits cfg_stack lim64 checked_build (mkVec [2 ^ 63 + 5; 3] 3) 4
  = Ok (Some (mkVec [80; 56] 3))
  /\ lval [80; 56] = lval [2 ^ 63 + 5; 3] * 2 ^ 4.
Proof. vm_compute. split; reflexivity. Qed.

Example shl_bits_ex2 :   (* a carry is pushed *)
  shl_bits cfg_stack lim64 release_build (mkVec [2 ^ 63 + 5; 2 ^ 62] 3) 4
  = Ok (Some (mkVec [80; 8; 4] 3))
  /\ shl_bits cfg_heap lim64 release_build (mkVec [2 ^ 63 + 5; 2 ^ 62] 2) 4
  = Ok (Some (mkVec [80; 8; 4] 4)).
Proof. vm_compute. split; reflexivity. Qed.

Example shl_bits_ex3 :   (* full stack vector, carry lost: `None` *)
  shl_bits cfg_stack lim64 checked_build (mkVec [2 ^ 63 + 5; 2 ^ 62] 2) 4 = Ok None
  /\ B64 ^ 2 <= lval [2 ^ 63 + 5; 2 ^ 62] * 2 ^ 4.
Proof. vm_compute. split; [reflexivity|discriminate]. Qed.

(** ** 5. [shl_limbs] *)

Lemma shl_limbs_eval b v n :
  0 < n -> n + zlen (vl v) < 2 ^ 64 ->
  shl_limbs b v n =
  Ok (if vcap v <? n + zlen (vl v) then None
      else if negb (zlen (vl v) =? 0) then Some (vset_list v (repeat 0 (Z.to_nat n) ++ vl v))
      else Some v).
Proof.
  intros Hn Hs. unfold shl_limbs, vlen. replace (negb (n =? 0)) with true by lia.
  rewrite debug_assert_true. cbn [bind]. unfold usize_add.
  pose proof (zlen_nonneg (vl v)).
  rewrite uop_in_range by lia. cbn [bind].
  destruct (vcap v <? n + zlen (vl v)); [reflexivity|].
  destruct (negb (zlen (vl v) =? 0)); reflexivity.
Qed.

Theorem shl_limbs_no_panic b v n :
  0 < n -> n + zlen (vl v) < 2 ^ 64 -> exists o, shl_limbs b v n = Ok o.
Proof. intros Hn Hs. rewrite shl_limbs_eval by assumption. eauto. Qed.

Theorem shl_limbs_none b v n :
  0 < n -> n + zlen (vl v) < 2 ^ 64 ->
  (shl_limbs b v n = Ok None <-> vcap v < n + zlen (vl v)).
Proof.
  intros Hn Hs. rewrite shl_limbs_eval by assumption.
  destruct (Z.ltb_spec (vcap v) (n + zlen (vl v))) as [H|H].
  - tauto.
  - destruct (negb (zlen (vl v) =? 0)); split; intros H1; try discriminate; lia.
Qed.

Theorem shl_limbs_spec b v n v' :
  0 < n -> n + zlen (vl v) < 2 ^ 64 -> limbs_ok (vl v) ->
  shl_limbs b v n = Ok (Some v') ->
  lval (vl v') = lval (vl v) * B64 ^ n /\ limbs_ok (vl v') /\
  vl v' = (if zlen (vl v) =? 0 then [] else repeat 0 (Z.to_nat n) ++ vl v) /\
  zlen (vl v') = (if zlen (vl v) =? 0 then 0 else n + zlen (vl v)) /\
  vcap v' = vcap v /\ n + zlen (vl v) <= vcap v /\
  (is_normalized (vl v) = true -> is_normalized (vl v') = true).
Proof.
  intros Hn Hs Hok. rewrite shl_limbs_eval by assumption. intros H.
  injection H as H.
  destruct (Z.ltb_spec (vcap v) (n + zlen (vl v))) as [Hlt|Hge]; [discriminate|].
  destruct (Z.eqb_spec (zlen (vl v)) 0) as [Hz|Hz]; cbn [negb] in H; injection H as <-.
  - pose proof (zlen_0_nil _ Hz) as Hnil. rewrite Hz in Hge. rewrite Hnil. cbn [lval].
    change (zlen (@nil Z)) with 0. repeat split; try assumption; try lia; try constructor; auto.
  - unfold vset_list. cbn [vl vcap].
    rewrite lval_app, lval_repeat0, zlen_app, !zlen_repeat, Z2Nat.id by lia.
    split; [ring|]. split; [apply limbs_ok_app; split; [apply limbs_ok_repeat0|exact Hok]|].
    repeat split; try lia.
    intros Hnz. destruct (list_snoc_cases (vl v)) as [E|(r & x & E)].
    + rewrite E in Hz. exfalso. apply Hz. reflexivity.
    + rewrite E in *. rewrite app_assoc, is_normalized_snoc.
      rewrite is_normalized_snoc in Hnz. exact Hnz.
Qed.

Example shl_limbs_ex1 :
  shl_limbs checked_build (mkVec [7; 9] 5) 3 = Ok (Some (mkVec [0; 0; 0; 7; 9] 5))
  /\ shl_limbs release_build (mkVec [7; 9] 4) 3 = Ok None
  /\ shl_limbs release_build (mkVec [] 4) 3 = Ok (Some (mkVec [] 4))
  /\ shl_limbs release_build (mkVec [] 2) 3 = Ok None.   (* even the empty vector *)
Proof. vm_compute. repeat split; reflexivity. Qed.

(** ** 6. [shl] *)

Lemma obind_ok_some {A B} (a : A) (f : A -> outcome (option B)) : obind (Ok (Some a)) f = f a.
Proof. reflexivity. Qed.

Lemma obind_ok_none {A B} (f : A -> outcome (option B)) : obind (Ok None) f = Ok None.
Proof. reflexivity. Qed.

Lemma pow_B64_lt_inv a b' x : 0 <= b' -> B64 ^ a <= x -> x < B64 ^ b' -> a < b'.
Proof.
  intros Hb H1 H2. destruct (Z_lt_le_dec a b') as [H|H]; [exact H|exfalso].
  pose proof (pow_B64_le b' a ltac:(lia)). lia.
Qed.

(** the limb-shift stage of [shl] *)
Lemma shl_stage2 b v1 d :
  0 <= d -> d + zlen (vl v1) < 2 ^ 64 -> limbs_ok (vl v1) ->
  exists o, (if negb (d =? 0) then shl_limbs b v1 d else Ok (Some v1)) = Ok o /\
    (forall v', o = Some v' ->
       lval (vl v') = lval (vl v1) * B64 ^ d /\ limbs_ok (vl v') /\ vcap v' = vcap v1 /\
       zlen (vl v') = (if zlen (vl v1) =? 0 then 0 else d + zlen (vl v1)) /\
       (is_normalized (vl v1) = true -> is_normalized (vl v') = true)) /\
    (o = None <-> d <> 0 /\ vcap v1 < d + zlen (vl v1)).
Proof.
  intros Hd Hs Hok. destruct (Z.eqb_spec d 0) as [->|Hd0]; cbn [negb].
  - eexists; split; [reflexivity|]. split.
    + intros v' H. injection H as <-. rewrite Z.pow_0_r, Z.mul_1_r.
      repeat split; auto. destruct (Z.eqb_spec (zlen (vl v1)) 0); lia.
    + split; [discriminate|]. intros [H _]. congruence.
  - assert (Hd' : 0 < d) by lia.
    destruct (shl_limbs_no_panic b v1 d Hd' Hs) as [o Ho]. exists o. split; [exact Ho|]. split.
    + intros v' ->. destruct (shl_limbs_spec b v1 d v' Hd' Hs Hok Ho) as (H1 & H2 & H3 & H4 & H5 & H6 & H7).
      repeat split; assumption.
    + rewrite <- (shl_limbs_none b v1 d Hd' Hs). rewrite Ho.
      split; [intros ->; split; [exact Hd0|reflexivity]|]. intros [_ H]. injection H; auto.
Qed.

(** for a normalised non-empty vector within its capacity the capacity test of [shl_limbs] is a
    test on the value *)
Lemma shl_limbs_none_value v1 d :
  0 <= d -> limbs_ok (vl v1) -> vl v1 <> [] -> is_normalized (vl v1) = true ->
  zlen (vl v1) <= vcap v1 ->
  (d <> 0 /\ vcap v1 < d + zlen (vl v1) <-> B64 ^ vcap v1 <= lval (vl v1) * B64 ^ d).
Proof.
  intros Hd Hok Hne Hnz Hcap.
  apply (is_normalized_lval _ Hok Hne) in Hnz.
  pose proof (lval_bound _ Hok) as Hb. pose proof (zlen_nonneg (vl v1)) as Hl.
  assert (Hl1 : 1 <= zlen (vl v1)).
  { destruct (vl v1); [congruence|]. rewrite zlen_cons. pose proof (zlen_nonneg l). lia. }
  pose proof (B64_pow_pos d Hd) as HD.
  split.
  - intros [Hd0 Hlt].
    apply Z.le_trans with (B64 ^ (zlen (vl v1) - 1 + d)); [apply pow_B64_le; lia|].
    rewrite Z.pow_add_r by lia. nia.
  - intros Hbig.
    assert (Hlt : lval (vl v1) * B64 ^ d < B64 ^ (zlen (vl v1) + d)).
    { rewrite Z.pow_add_r by lia. nia. }
    pose proof (pow_B64_lt_inv (vcap v1) (zlen (vl v1) + d) _ ltac:(lia) Hbig Hlt). lia.
Qed.

Lemma shl_full c L b v n :
  LIMB_BITS L = 64 -> 0 <= n -> n / 64 + zlen (vl v) + 1 < 2 ^ 64 -> limbs_ok (vl v) ->
  exists o, shl c L b v n = Ok o /\
    (forall v', o = Some v' ->
       lval (vl v') = lval (vl v) * 2 ^ n /\ limbs_ok (vl v') /\
       (alloc c = false -> vcap v' = vcap v) /\
       (vl v = [] -> vl v' = []) /\
       (is_normalized (vl v) = true -> is_normalized (vl v') = true)) /\
    (alloc c = false -> vl v <> [] -> is_normalized (vl v) = true -> zlen (vl v) <= vcap v ->
       (o = None <-> B64 ^ vcap v <= lval (vl v) * 2 ^ n)).
Proof.
  intros HL Hn Hsz Hok. unfold shl. rewrite HL.
  pose proof (Z.div_mod n 64 ltac:(lia)) as Hdm.
  pose proof (Z.mod_pos_bound n 64 ltac:(lia)) as Hrem.
  assert (Hdiv : 0 <= n / 64) by (apply Z.div_pos; lia).
  set (rem := n mod 64) in *. set (d := n / 64) in *.
  assert (H2n : 2 ^ n = 2 ^ rem * B64 ^ d).
  { rewrite B64_pow by lia. rewrite <- pow2_split by lia. f_equal. lia. }
  pose proof (zlen_nonneg (vl v)) as Hl0.
  destruct (Z.eqb_spec rem 0) as [Hr0|Hr0]; cbn [negb].
  - (* no bit shift *)
    rewrite obind_ok_some.
    destruct (shl_stage2 b v d Hdiv ltac:(lia) Hok) as (o & Ho & Hs & Hnone).
    exists o. split; [exact Ho|]. rewrite H2n, Hr0, Z.pow_0_r, Z.mul_1_l. split.
    + intros v' Hv'. destruct (Hs v' Hv') as (H1 & H2 & H3 & H4 & H5).
      repeat split; auto. intros Hnil. rewrite Hnil in H4. change (zlen (@nil Z)) with 0 in H4.
      apply zlen_0_nil. exact H4.
    + intros _ Hne Hnz Hcap. rewrite Hnone. apply shl_limbs_none_value; assumption.
  - (* bit shift first *)
    assert (Hrem' : 0 < rem < 64) by lia.
    destruct (shl_bits_full c L b v rem HL Hrem' Hok) as (o1 & Ho1 & Hs1 & _ & _ & Hnone1).
    rewrite Ho1. destruct o1 as [v1|].
    + rewrite obind_ok_some.
      destruct (Hs1 v1 eq_refl) as (Hv1 & Hok1 & Hlen1 & Hcap1 & _ & Hnorm1).
      assert (Hlen1' : zlen (vl v) <= zlen (vl v1) <= zlen (vl v) + 1)
        by (destruct (shl_carry (vl v) rem =? 0); lia).
      destruct (shl_stage2 b v1 d Hdiv ltac:(lia) Hok1) as (o & Ho & Hs & Hnone).
      exists o. split; [exact Ho|]. split.
      * intros v' Hv'. destruct (Hs v' Hv') as (H1 & H2 & H3 & H4 & H5).
        split; [rewrite H1, Hv1, H2n; ring|]. split; [exact H2|].
        split; [intros Ha; rewrite H3; auto|]. split; [|auto].
        intros Hnil. rewrite Hnil in *. cbn [lval] in Hv1.
        apply zlen_0_nil. rewrite H4.
        destruct (Z.eqb_spec (zlen (vl v1)) 0) as [|Hnz1]; [reflexivity|exfalso].
        unfold shl_carry in Hlen1. cbn [last] in Hlen1. rewrite Zdiv_0_l in Hlen1.
        change (zlen (@nil Z)) with 0 in Hlen1. cbn in Hlen1. lia.
      * intros Ha Hne Hnz Hcap. rewrite Hnone.
        specialize (Hcap1 Ha). specialize (Hnorm1 Hnz).
        assert (Hne1 : vl v1 <> []).
        { intros E. rewrite E in Hlen1'. change (zlen (@nil Z)) with 0 in Hlen1'.
          destruct (vl v); [congruence|]. rewrite zlen_cons in Hlen1'.
          pose proof (zlen_nonneg l). lia. }
        assert (Hfit : zlen (vl v1) <= vcap v1).
        { destruct (Hnone1 Ha Hcap) as [_ Hx].
          assert (Hlt : lval (vl v1) < B64 ^ vcap v).
          { destruct (Z_lt_le_dec (lval (vl v1)) (B64 ^ vcap v)) as [|Hge]; [assumption|].
            rewrite Hv1 in Hge. specialize (Hx Hge). discriminate. }
          pose proof (proj1 (is_normalized_lval _ Hok1 Hne1) Hnorm1) as Hlow.
          pose proof (pow_B64_lt_inv _ (vcap v) _ ltac:(lia) Hlow Hlt). lia. }
        rewrite (shl_limbs_none_value v1 d Hdiv Hok1 Hne1 Hnorm1 Hfit).
        rewrite Hcap1, Hv1, H2n, Z.mul_assoc. tauto.
    + rewrite obind_ok_none. exists None. split; [reflexivity|]. split; [discriminate|].
      intros Ha Hne Hnz Hcap. split; [|reflexivity]. intros _.
      pose proof (proj1 (Hnone1 Ha Hcap) eq_refl) as Hbig. rewrite H2n.
      pose proof (B64_pow_pos d Hdiv). pose proof (lval_nonneg _ Hok).
      pose proof (pow2_gt0 rem ltac:(lia)). nia.
Qed.

(** *** Main theorems for [shl].  [n] is a `usize` and the length is below [2^63] (it is at most
    the capacity), so the `usize` addition of [shl_limbs] cannot overflow. *)

Lemma shl_size_hyp v n : 0 <= n < 2 ^ 64 -> zlen (vl v) < 2 ^ 63 -> n / 64 + zlen (vl v) + 1 < 2 ^ 64.
Proof.
  intros Hn Hl. assert (n / 64 < 2 ^ 58).
  { apply Z.div_lt_upper_bound; [lia|]. change (64 * 2 ^ 58) with (2 ^ 64). lia. }
  change (2 ^ 64) with (2 ^ 58 + 2 ^ 58 * 63). change (2 ^ 63) with (2 ^ 58 * 32) in Hl. lia.
Qed.

Theorem shl_no_panic c L b v n :
  LIMB_BITS L = 64 -> 0 <= n < 2 ^ 64 -> zlen (vl v) < 2 ^ 63 -> limbs_ok (vl v) ->
  exists o, shl c L b v n = Ok o.
Proof.
  intros HL Hn Hl Hok.
  destruct (shl_full c L b v n HL ltac:(lia) (shl_size_hyp v n Hn Hl) Hok) as (o & H & _). eauto.
Qed.

Theorem shl_spec c L b v n v' :
  LIMB_BITS L = 64 -> 0 <= n < 2 ^ 64 -> zlen (vl v) < 2 ^ 63 -> limbs_ok (vl v) ->
  shl c L b v n = Ok (Some v') ->
  lval (vl v') = lval (vl v) * 2 ^ n /\ limbs_ok (vl v') /\
  (alloc c = false -> vcap v' = vcap v) /\
  (vl v = [] -> vl v' = []) /\
  (is_normalized (vl v) = true -> is_normalized (vl v') = true).
Proof.
  intros HL Hn Hl Hok H.
  destruct (shl_full c L b v n HL ltac:(lia) (shl_size_hyp v n Hn Hl) Hok) as (o & Ho & Hs & _).
  rewrite H in Ho. injection Ho as <-. apply Hs. reflexivity.
Qed.

(** stack back-end, non-zero normalised operand: `None` exactly when the result does not fit *)
Theorem shl_stack_none c L b v n :
  LIMB_BITS L = 64 -> 0 <= n < 2 ^ 64 -> zlen (vl v) < 2 ^ 63 -> limbs_ok (vl v) ->
  alloc c = false -> vl v <> [] -> is_normalized (vl v) = true -> zlen (vl v) <= vcap v ->
  (shl c L b v n = Ok None <-> B64 ^ vcap v <= lval (vl v) * 2 ^ n).
Proof.
  intros HL Hn Hl Hok Ha Hne Hnz Hcap.
  destruct (shl_full c L b v n HL ltac:(lia) (shl_size_hyp v n Hn Hl) Hok) as (o & Ho & _ & Hc).
  rewrite Ho. rewrite <- (Hc Ha Hne Hnz Hcap).
  split; [intros H; injection H; auto|intros ->; reflexivity].
Qed.

Example shl_ex1 :
  shl cfg_stack lim64 checked_build (mkVec [2 ^ 63 + 5; 3] 6) 132
  = Ok (Some (mkVec [0; 0; 80; 56] 6))
  /\ lval [0; 0; 80; 56] = lval [2 ^ 63 + 5; 3] * 2 ^ 132
  /\ shl cfg_stack lim64 release_build (mkVec [2 ^ 63 + 5; 3] 3) 132 = Ok None
  /\ shl cfg_stack lim64 release_build (mkVec [2 ^ 63 + 5; 3] 3) 0 = Ok (Some (mkVec [2 ^ 63 + 5; 3] 3))
  /\ shl cfg_stack lim64 release_build (mkVec [] 3) 256 = Ok None.  (* empty vector, see shl_limbs *)
Proof. vm_compute. repeat split; reflexivity. Qed.

(** ** 7. [leading_zeros], [bit_length] *)

Lemma bitlen_bounds x : 0 < x -> 2 ^ (bitlen x - 1) <= x < 2 ^ bitlen x.
Proof.
  intros Hx. unfold bitlen. replace (x <=? 0) with false by lia.
  replace (Z.log2 x + 1 - 1) with (Z.log2 x) by lia.
  replace (Z.log2 x + 1) with (Z.succ (Z.log2 x)) by lia. apply Z.log2_spec. exact Hx.
Qed.

Lemma bitlen_unique x k : 0 < k -> 2 ^ (k - 1) <= x < 2 ^ k -> bitlen x = k.
Proof.
  intros Hk H. assert (Hx : 0 < x) by (pose proof (pow2_gt0 (k - 1) ltac:(lia)); lia).
  unfold bitlen. replace (x <=? 0) with false by lia.
  rewrite (Z.log2_unique x (k - 1)); [lia|lia|]. replace (Z.succ (k - 1)) with k by lia. exact H.
Qed.

Lemma bitlen_u64 x : 0 < x < B64 -> 1 <= bitlen x <= 64.
Proof.
  intros Hx. pose proof (bitlen_bounds x ltac:(lia)) as Hb.
  unfold bitlen in *. replace (x <=? 0) with false in * by lia.
  pose proof (Z.log2_nonneg x). split; [lia|].
  destruct (Z_lt_le_dec 64 (Z.log2 x + 1)) as [Hgt|Hle]; [exfalso|lia].
  assert (2 ^ 64 <= 2 ^ (Z.log2 x + 1 - 1)) by (apply Z.pow_le_mono_r; lia).
  rewrite B64_eq in Hx. lia.
Qed.

Lemma bitlen_0 : bitlen 0 = 0.
Proof. reflexivity. Qed.

Lemma leading_zeros_nil : leading_zeros [] = 0.
Proof. reflexivity. Qed.

Lemma leading_zeros_snoc r x : leading_zeros (r ++ [x]) = 64 - bitlen x.
Proof. unfold leading_zeros. rewrite rev_app_distr. reflexivity. Qed.

(** number of leading zero bits of the most significant limb *)
Theorem leading_zeros_spec r x :
  0 < x < B64 -> 0 <= leading_zeros (r ++ [x]) < 64 /\
  2 ^ (63 - leading_zeros (r ++ [x])) <= x < 2 ^ (64 - leading_zeros (r ++ [x])).
Proof.
  intros Hx. rewrite leading_zeros_snoc. pose proof (bitlen_u64 x Hx).
  pose proof (bitlen_bounds x ltac:(lia)) as Hb.
  replace (63 - (64 - bitlen x)) with (bitlen x - 1) by lia.
  replace (64 - (64 - bitlen x)) with (bitlen x) by lia. split; [lia|exact Hb].
Qed.

(** value bounds of a list with most significant limb [x] of bit length [k] *)
Lemma lval_snoc_bounds r x k :
  limbs_ok r -> 0 < k -> 2 ^ (k - 1) <= x < 2 ^ k ->
  2 ^ (64 * zlen r + k - 1) <= lval (r ++ [x]) < 2 ^ (64 * zlen r + k).
Proof.
  intros Hr Hk Hx. rewrite lval_snoc.
  pose proof (zlen_nonneg r) as Hl. pose proof (lval_bound r Hr) as Hb.
  pose proof (lval_nonneg r Hr) as Hnn. rewrite B64_pow in * by lia.
  replace (64 * zlen r + k - 1) with (64 * zlen r + (k - 1)) by lia.
  rewrite !pow2_split by lia.
  pose proof (pow2_gt0 (64 * zlen r) ltac:(lia)). nia.
Qed.

Lemma bit_length_eval L b l :
  LIMB_BITS L = 64 -> zlen l < 2 ^ 26 ->
  bit_length L b l = uop b 32 (64 * zlen l - leading_zeros l).
Proof.
  intros HL Hlen. unfold bit_length. rewrite HL. pose proof (zlen_nonneg l).
  unfold as_u32, wrapu. change (64 mod 2 ^ 32) with 64.
  rewrite (Z.mod_small (zlen l)) by (change (2 ^ 32) with (2 ^ 26 * 64); lia).
  rewrite uop_in_range by (change (2 ^ 32) with (2 ^ 26 * 64); lia).
  reflexivity.
Qed.

Theorem bit_length_nil L b : LIMB_BITS L = 64 -> bit_length L b [] = Ok 0.
Proof. intros HL. rewrite bit_length_eval by (exact HL || reflexivity). reflexivity. Qed.

(** without normalisation: 64 * (len - 1) + bit length of the top limb *)
Lemma bit_length_snoc L b r x :
  LIMB_BITS L = 64 -> zlen (r ++ [x]) < 2 ^ 26 -> 0 <= x < B64 ->
  bit_length L b (r ++ [x]) = Ok (64 * zlen r + bitlen x).
Proof.
  intros HL Hlen Hx. rewrite bit_length_eval by assumption.
  rewrite leading_zeros_snoc. rewrite zlen_app in *. change (zlen [x]) with 1 in *.
  pose proof (zlen_nonneg r).
  assert (0 <= bitlen x <= 64).
  { destruct (Z.eq_dec x 0) as [->|]; [rewrite bitlen_0; lia|]. pose proof (bitlen_u64 x). lia. }
  replace (64 * (zlen r + 1) - (64 - bitlen x)) with (64 * zlen r + bitlen x) by lia.
  apply uop_in_range. change (2 ^ 32) with (2 ^ 26 * 64). lia.
Qed.

Theorem bit_length_spec L b l :
  LIMB_BITS L = 64 -> limbs_ok l -> l <> [] -> is_normalized l = true -> zlen l < 2 ^ 26 ->
  exists n, bit_length L b l = Ok n /\ 0 < n /\ 2 ^ (n - 1) <= lval l < 2 ^ n /\
            n = Z.log2 (lval l) + 1 /\ n = bitlen (lval l) /\
            64 * (zlen l - 1) < n <= 64 * zlen l.
Proof.
  intros HL Hok Hne Hnz Hlen.
  destruct (list_snoc_cases l) as [->|(r & x & ->)]; [congruence|].
  apply limbs_ok_app in Hok. destruct Hok as [Hr Hx]. inversion Hx as [|? ? Hx0 _]; subst.
  rewrite is_normalized_snoc in Hnz. assert (Hxpos : 0 < x < B64) by lia.
  exists (64 * zlen r + bitlen x). split; [apply bit_length_snoc; assumption || lia|].
  pose proof (bitlen_u64 x Hxpos) as Hk. pose proof (bitlen_bounds x ltac:(lia)) as Hkb.
  pose proof (zlen_nonneg r) as Hl.
  pose proof (lval_snoc_bounds r x (bitlen x) Hr ltac:(lia) Hkb) as Hb.
  split; [lia|]. split; [exact Hb|].
  assert (Hbl : bitlen (lval (r ++ [x])) = 64 * zlen r + bitlen x) by (apply bitlen_unique; [lia|exact Hb]).
  split.
  - rewrite <- Hbl. unfold bitlen.
    assert (0 < lval (r ++ [x])).
    { pose proof (pow2_gt0 (64 * zlen r + bitlen x - 1) ltac:(lia)). lia. }
    replace (lval (r ++ [x]) <=? 0) with false by lia. reflexivity.
  - split; [symmetry; exact Hbl|]. rewrite zlen_app. change (zlen [x]) with 1. lia.
Qed.

Example bit_length_ex :
  bit_length lim64 checked_build [7; 9; 5] = Ok 131
  /\ 2 ^ 130 <= lval [7; 9; 5] < 2 ^ 131
  /\ bit_length lim64 release_build [7; 9; 2 ^ 63] = Ok 192
  /\ bit_length lim64 release_build [7; 9; 0] = Ok 128.   (* not normalised: not the bit length *)
Proof. vm_compute. repeat split; try reflexivity; discriminate. Qed.

(** ** 8. [hi64] *)

(** Specification: the top 64 bits of [m], left-aligned, and whether non-zero bits were dropped. *)
Definition hi64_val (m : Z) : Z * bool :=
  let n := bitlen m in
  if 64 <=? n then (m / 2 ^ (n - 64), negb (m mod 2 ^ (n - 64) =? 0))
  else (m * 2 ^ (64 - n), false).

Lemma hi64_val_bounds m : 0 < m -> 2 ^ 63 <= fst (hi64_val m) < 2 ^ 64.
Proof.
  intros Hm. unfold hi64_val. cbv zeta. pose proof (bitlen_bounds m Hm) as Hb.
  assert (Hn : 0 < bitlen m).
  { unfold bitlen. replace (m <=? 0) with false by lia. pose proof (Z.log2_nonneg m). lia. }
  set (n := bitlen m) in *.
  destruct (Z.leb_spec 64 n) as [H|H]; cbn [fst].
  - pose proof (pow2_gt0 (n - 64) ltac:(lia)) as Hp.
    assert (E1 : 2 ^ (n - 1) = 2 ^ 63 * 2 ^ (n - 64))
      by (rewrite <- pow2_split by lia; f_equal; lia).
    assert (E2 : 2 ^ n = 2 ^ 64 * 2 ^ (n - 64))
      by (rewrite <- pow2_split by lia; f_equal; lia).
    rewrite E1, E2 in Hb. split.
    + apply Z.div_le_lower_bound; lia.
    + apply Z.div_lt_upper_bound; lia.
  - pose proof (pow2_gt0 (64 - n) ltac:(lia)) as Hp.
    assert (E1 : 2 ^ 63 = 2 ^ (n - 1) * 2 ^ (64 - n))
      by (rewrite <- pow2_split by lia; f_equal; lia).
    assert (E2 : 2 ^ 64 = 2 ^ n * 2 ^ (64 - n))
      by (rewrite <- pow2_split by lia; f_equal; lia).
    rewrite E1, E2. nia.
Qed.

Lemma small_shl_no_wrap x k : 0 < k <= 64 -> 0 <= x < 2 ^ k -> (x * 2 ^ (64 - k)) mod B64 = x * 2 ^ (64 - k).
Proof.
  intros Hk Hx. apply Z.mod_small. pose proof (pow2_gt0 (64 - k) ltac:(lia)).
  assert (E : B64 = 2 ^ k * 2 ^ (64 - k))
    by (rewrite B64_eq, <- pow2_split by lia; f_equal; lia).
  rewrite E. nia.
Qed.

Lemma u64_to_hi64_1_spec b r0 :
  0 < r0 < B64 -> u64_to_hi64_1 b r0 = Ok (r0 * 2 ^ (64 - bitlen r0), false).
Proof.
  intros Hr. unfold u64_to_hi64_1, lz64. pose proof (bitlen_u64 r0 Hr) as Hk.
  pose proof (bitlen_bounds r0 ltac:(lia)) as Hb.
  rewrite shl_u64_in_range by lia. cbn [bind].
  rewrite small_shl_no_wrap by lia. reflexivity.
Qed.

Lemma u64_to_hi64_2_spec b r0 r1 :
  0 < r0 < B64 -> 0 <= r1 < B64 ->
  u64_to_hi64_2 b r0 r1 =
  Ok (r0 * 2 ^ (64 - bitlen r0) + r1 / 2 ^ bitlen r0, negb (r1 mod 2 ^ bitlen r0 =? 0)).
Proof.
  intros Hr0 Hr1. unfold u64_to_hi64_2, lz64. pose proof (bitlen_u64 r0 Hr0) as Hk.
  pose proof (bitlen_bounds r0 ltac:(lia)) as Hb. set (k := bitlen r0) in *.
  replace (64 - (64 - k)) with k by lia.
  rewrite uop_in_range by (change (2 ^ 32) with 4294967296; lia). cbn [bind].
  pose proof (pow2_gt0 (64 - k) ltac:(lia)) as Hp.
  assert (Ht : u64_shl b r1 (64 - k) = Ok ((r1 mod 2 ^ k) * 2 ^ (64 - k))).
  { rewrite shl_u64_in_range by lia. rewrite shl64_mod by lia.
    replace (64 - (64 - k)) with k by lia. reflexivity. }
  assert (Htz : forall y, 0 <= y -> (y * 2 ^ (64 - k) =? 0) = (y =? 0)).
  { intros y Hy. destruct (Z.eqb_spec y 0) as [->|]; [reflexivity|].
    destruct (Z.eqb_spec (y * 2 ^ (64 - k)) 0); [nia|reflexivity]. }
  pose proof (Z.mod_pos_bound r1 (2 ^ k) (pow2_gt0 k ltac:(lia))) as Hm.
  destruct (Z.eqb_spec (64 - k) 0) as [Hk0|Hk0].
  - (* top limb already left-aligned *)
    cbn [bind]. rewrite Ht. cbn [bind]. rewrite Htz by lia.
    rewrite Hk0, Z.pow_0_r, Z.mul_1_r.
    replace k with 64 by lia. rewrite <- B64_eq, Z.div_small by lia.
    rewrite Z.add_0_r. reflexivity.
  - rewrite shl_u64_in_range by lia. cbn [bind].
    rewrite shr_u64_in_range by lia. cbn [bind]. rewrite Ht. cbn [bind]. rewrite Htz by lia.
    rewrite small_shl_no_wrap by lia.
    rewrite lor_shifted_low; [reflexivity|lia|].
    pose proof (shr_small r1 (64 - k) ltac:(lia) Hr1) as Hs.
    replace (64 - (64 - k)) with k in Hs by lia. exact Hs.
Qed.

Lemma firstn_app_exact {A} (l1 l2 : list A) : firstn (length l1) (l1 ++ l2) = l1.
Proof.
  rewrite firstn_app, Nat.sub_diag, firstn_all. cbn [firstn]. apply app_nil_r.
Qed.

(** [nonzero x rindex]: does the part of [x] below the [rindex] most significant limbs hold a
    non-zero limb? *)
Lemma nonzero_spec b lo hi :
  limbs_ok lo -> zlen (lo ++ hi) < 2 ^ 64 ->
  nonzero b (lo ++ hi) (zlen hi) = Ok (negb (lval lo =? 0)).
Proof.
  intros Hok Hlen. unfold nonzero. rewrite zlen_app in *.
  pose proof (zlen_nonneg lo). pose proof (zlen_nonneg hi).
  replace (zlen hi <=? zlen lo + zlen hi) with true by lia.
  rewrite debug_assert_true. cbn [bind]. unfold usize_sub.
  replace (zlen lo + zlen hi - zlen hi) with (zlen lo) by lia.
  rewrite uop_in_range by lia. cbn [bind].
  replace (zlen lo + zlen hi <? zlen lo) with false by lia.
  unfold zlen at 1. rewrite Nat2Z.id, firstn_app_exact.
  rewrite existsb_nonzero_lval by exact Hok. reflexivity.
Qed.

Lemma hi64_val_1 r0 : 0 < r0 < B64 -> hi64_val r0 = (r0 * 2 ^ (64 - bitlen r0), false).
Proof.
  intros Hr. pose proof (bitlen_u64 r0 Hr) as Hk. unfold hi64_val. cbv zeta.
  destruct (Z.leb_spec 64 (bitlen r0)) as [H|H]; [|reflexivity].
  replace (bitlen r0) with 64 by lia. change (64 - 64) with 0. rewrite Z.pow_0_r.
  rewrite Z.div_1_r, Z.mod_1_r, Z.mul_1_r. reflexivity.
Qed.

Lemma hi64_val_2 lo r1 r0 :
  limbs_ok lo -> 0 <= r1 < B64 -> 0 < r0 < B64 ->
  hi64_val (lval (lo ++ [r1; r0])) =
  (r0 * 2 ^ (64 - bitlen r0) + r1 / 2 ^ bitlen r0,
   negb (r1 mod 2 ^ bitlen r0 =? 0) || negb (lval lo =? 0)).
Proof.
  intros Hlo Hr1 Hr0. pose proof (bitlen_u64 r0 Hr0) as Hk.
  pose proof (bitlen_bounds r0 ltac:(lia)) as Hkb.
  pose proof (zlen_nonneg lo) as Hl.
  assert (Hok1 : limbs_ok (lo ++ [r1])).
  { apply limbs_ok_app. split; [exact Hlo|]. constructor; [exact Hr1|constructor]. }
  pose proof (lval_snoc_bounds (lo ++ [r1]) r0 (bitlen r0) Hok1 ltac:(lia) Hkb) as Hb.
  rewrite <- app_assoc in Hb. cbn [app] in Hb.
  rewrite zlen_app in Hb. change (zlen [r1]) with 1 in Hb.
  set (k := bitlen r0) in *.
  assert (Hn : bitlen (lval (lo ++ [r1; r0])) = 64 * (zlen lo + 1) + k)
    by (apply bitlen_unique; [lia|exact Hb]).
  unfold hi64_val. cbv zeta. rewrite Hn.
  replace (64 <=? 64 * (zlen lo + 1) + k) with true by lia.
  replace (64 * (zlen lo + 1) + k - 64) with (64 * zlen lo + k) by lia.
  rewrite pow2_split, <- B64_pow by lia.
  rewrite lval_app. cbn [lval]. rewrite Z.mul_0_r, Z.add_0_r.
  pose proof (B64_pow_pos (zlen lo) Hl) as HA. set (A := B64 ^ zlen lo) in *.
  pose proof (pow2_gt0 k ltac:(lia)) as HK. pose proof (pow2_gt0 (64 - k) ltac:(lia)) as HK'.
  pose proof (lval_bound lo Hlo) as Hlb. pose proof (lval_nonneg lo Hlo) as Hlnn. fold A in Hlb.
  assert (HB : B64 = 2 ^ (64 - k) * 2 ^ k).
  { rewrite <- pow2_split by lia. replace (64 - k + k) with 64 by lia. apply B64_eq. }
  assert (Hq : (lval lo + A * (r1 + B64 * r0)) / A = r1 + B64 * r0).
  { rewrite (Z.mul_comm A), Z.div_add, Z.div_small by lia. lia. }
  assert (Hq2 : r1 + B64 * r0 = r1 + r0 * 2 ^ (64 - k) * 2 ^ k) by (rewrite HB; ring).
  f_equal.
  - rewrite <- Z.div_div by lia. rewrite Hq, Hq2, Z.div_add by lia. ring.
  - rewrite Z.rem_mul_r by lia. rewrite Hq, Hq2, Z.mod_add by lia.
    rewrite (Z.mul_comm A (r1 + _)), Z.mod_add, Z.mod_small by lia.
    pose proof (Z.mod_pos_bound r1 (2 ^ k) HK) as Hm. set (t := r1 mod 2 ^ k) in *.
    destruct (Z.eqb_spec t 0) as [->|Ht]; destruct (Z.eqb_spec (lval lo) 0) as [->|Hz]; cbn [negb orb].
    + rewrite Z.mul_0_r. reflexivity.
    + destruct (Z.eqb_spec (lval lo + A * 0) 0); [lia|reflexivity].
    + destruct (Z.eqb_spec (0 + A * t) 0); [nia|reflexivity].
    + destruct (Z.eqb_spec (lval lo + A * t) 0); [nia|reflexivity].
Qed.

Theorem hi64_nil b : hi64 b [] = Ok (0, false).
Proof. reflexivity. Qed.

Theorem hi64_spec b l :
  limbs_ok l -> l <> [] -> is_normalized l = true -> zlen l < 2 ^ 64 ->
  hi64 b l = Ok (hi64_val (lval l)).
Proof.
  intros Hok Hne Hnz Hlen.
  destruct (list_snoc_cases l) as [->|(r & r0 & ->)]; [congruence|].
  rewrite is_normalized_snoc in Hnz.
  apply limbs_ok_app in Hok. destruct Hok as [Hr Hr0]. inversion Hr0 as [|? ? Hr0' _]; subst.
  assert (Hr0p : 0 < r0 < B64) by lia.
  destruct (list_snoc_cases r) as [->|(lo & r1 & ->)].
  - (* one limb *)
    unfold hi64. cbn [app rev]. rewrite u64_to_hi64_1_spec by exact Hr0p.
    cbn [lval]. rewrite Z.mul_0_r, Z.add_0_r, hi64_val_1 by exact Hr0p. reflexivity.
  - apply limbs_ok_app in Hr. destruct Hr as [Hlo Hr1]. inversion Hr1 as [|? ? Hr1' _]; subst.
    rewrite <- app_assoc. cbn [app].
    rewrite hi64_val_2 by assumption.
    unfold hi64. rewrite rev_app_distr. cbn [rev app].
    destruct lo as [|a lo'].
    + (* two limbs *)
      cbn [rev app lval]. rewrite u64_to_hi64_2_spec by assumption.
      rewrite Z.eqb_refl. cbn [negb]. rewrite orb_false_r. reflexivity.
    + (* three or more *)
      destruct (rev (a :: lo')) as [|y ys] eqn:E.
      { exfalso. cbn [rev] in E. symmetry in E. apply app_cons_not_nil in E. exact E. }
      rewrite u64_to_hi64_2_spec by assumption. cbn [bind].
      destruct (negb (r1 mod 2 ^ bitlen r0 =? 0)); cbn [orb]; [reflexivity|].
      change [r1; r0] with ([r1; r0] : list Z).
      replace 2 with (zlen [r1; r0]) by reflexivity.
      rewrite nonzero_spec; [reflexivity|exact Hlo|].
      rewrite <- app_assoc in Hlen. exact Hlen.
Qed.

(** the statement of the task in expanded form *)
Corollary hi64_spec' b l :
  limbs_ok l -> l <> [] -> is_normalized l = true -> zlen l < 2 ^ 64 ->
  exists h tr, hi64 b l = Ok (h, tr) /\ 2 ^ 63 <= h < 2 ^ 64 /\
    let n := bitlen (lval l) in
    (64 <= n -> h = lval l / 2 ^ (n - 64) /\ tr = negb (lval l mod 2 ^ (n - 64) =? 0)) /\
    (n < 64 -> h = lval l * 2 ^ (64 - n) /\ tr = false).
Proof.
  intros Hok Hne Hnz Hlen. rewrite hi64_spec by assumption.
  assert (Hpos : 0 < lval l).
  { apply (is_normalized_lval _ Hok Hne) in Hnz.
    assert (1 <= zlen l).
    { destruct l; [congruence|]. rewrite zlen_cons. pose proof (zlen_nonneg l). lia. }
    pose proof (B64_pow_pos (zlen l - 1) ltac:(lia)). lia. }
  pose proof (hi64_val_bounds _ Hpos) as Hb.
  destruct (hi64_val (lval l)) as [h tr] eqn:E. exists h, tr. split; [reflexivity|].
  split; [exact Hb|]. cbv zeta. unfold hi64_val in E. cbv zeta in E.
  destruct (Z.leb_spec 64 (bitlen (lval l))) as [H|H]; injection E as <- <-;
    split; intros H'; try lia; split; reflexivity.
Qed.

Example hi64_ex :
  hi64 checked_build [5] = Ok (5 * 2 ^ 61, false)
  /\ hi64 release_build [1; 3] = Ok (3 * 2 ^ 62, true)
  /\ hi64 checked_build [0; 2 ^ 63; 3] = Ok (3 * 2 ^ 62 + 2 ^ 61, false)
  /\ hi64 checked_build [1; 2 ^ 63; 3] = Ok (3 * 2 ^ 62 + 2 ^ 61, true)
  /\ hi64 checked_build [1; 0; 2 ^ 63] = Ok (2 ^ 63, true)
  /\ hi64_val (lval [1; 2 ^ 63; 3]) = (3 * 2 ^ 62 + 2 ^ 61, true).
Proof. vm_compute. repeat split; reflexivity. Qed.

(** not normalised: the model (like a build with overflow checks of the Rust code) panics *)
Example hi64_unnormalised :
  hi64 checked_build [1; 0] = Panic PkOverflow /\ hi64 release_build [1; 0] = Ok (1, true).
Proof. vm_compute. split; reflexivity. Qed.

(** ** 9. [from_u64] *)

Lemma normalize_list_single x : normalize_list [x] = if x =? 0 then [] else [x].
Proof. unfold normalize_list. cbn [rev app]. destruct x; reflexivity. Qed.

(** On both back-ends the fresh vector has capacity [BIGINT_LIMBS L] (on the heap this is the
    model's `Vec::with_capacity`-like initial capacity of [vnew]; one push does not grow it). *)
Theorem from_u64_spec c L b x :
  0 <= x < 2 ^ 64 -> 2 <= BIGINT_LIMBS L ->
  exists v, from_u64 c L b x = Ok v /\
    vl v = (if x =? 0 then [] else [x]) /\
    lval (vl v) = x /\ limbs_ok (vl v) /\ is_normalized (vl v) = true /\
    vcap v = BIGINT_LIMBS L.
Proof.
  intros Hx Hcap. unfold from_u64, vnew, try_push, vlen, vset_list. cbn [vl vcap].
  replace (2 <=? BIGINT_LIMBS L) with true by lia. rewrite debug_assert_true. cbn [bind].
  change (zlen (@nil Z)) with 0.
  replace (0 =? BIGINT_LIMBS L) with false by lia.
  replace (0 <? BIGINT_LIMBS L) with true by lia.
  assert (E : (if alloc c
               then Some {| vl := [] ++ [x]; vcap := BIGINT_LIMBS L |}
               else Some {| vl := [] ++ [x]; vcap := BIGINT_LIMBS L |})
              = Some (mkVec [x] (BIGINT_LIMBS L))) by (destruct (alloc c); reflexivity).
  rewrite E. cbn [unwrap bind vl vcap]. rewrite normalize_list_single.
  eexists; split; [reflexivity|]. cbn [vl vcap]. split; [reflexivity|].
  destruct (Z.eqb_spec x 0) as [->|Hx0].
  - cbn [lval]. repeat split; try reflexivity. constructor.
  - cbn [lval]. rewrite Z.mul_0_r, Z.add_0_r. split; [reflexivity|].
    split; [constructor; [rewrite B64_eq; lia|constructor]|]. split; [|reflexivity].
    change [x] with ([] ++ [x]). rewrite is_normalized_snoc.
    destruct (Z.eqb_spec x 0); [contradiction|reflexivity].
Qed.

Example from_u64_ex :
  from_u64 cfg_stack lim64 checked_build 12345 = Ok (mkVec [12345] 62)
  /\ from_u64 cfg_heap lim64 release_build 0 = Ok (mkVec [] 62)
  /\ from_u64 cfg_stack (mkLimits 64 1 64) checked_build 5 = Panic PkAssert.
Proof. vm_compute. repeat split; reflexivity. Qed.

Example leading_zeros_nonzero_ex :
  leading_zeros [7; 9; 5] = 61 /\ leading_zeros [] = 0
  /\ nonzero checked_build [0; 0; 4; 5] 2 = Ok false
  /\ nonzero release_build [0; 1; 4; 5] 2 = Ok true.
Proof. vm_compute. repeat split; reflexivity. Qed.

(** ** 10. Assumptions *)
Print Assumptions shl_bits_loop_spec.
Print Assumptions shl_bits_full.
Print Assumptions shl_bits_spec.
Print Assumptions shl_bits_stack_none.
Print Assumptions shl_bits_stack_none_carry.
Print Assumptions shl_limbs_spec.
Print Assumptions shl_limbs_none.
Print Assumptions shl_full.
Print Assumptions shl_spec.
Print Assumptions shl_stack_none.
Print Assumptions leading_zeros_spec.
Print Assumptions bit_length_spec.
Print Assumptions hi64_spec.
Print Assumptions hi64_spec'.
Print Assumptions hi64_val_bounds.
Print Assumptions from_u64_spec.
