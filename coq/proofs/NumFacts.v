(** * NumFacts (C17): the helper methods of the `Float` trait agree with the IEEE-754 encoding.

    Everything is proved for an arbitrary [f : format] satisfying the boolean well-formedness
    predicate [fmt_ok] and then instantiated at the *generated* records [F32], [F64]
    (gen/Consts.v); [F32_ok], [F64_ok] are checked by computation, so they fail if a constant
    of the compiled crate changes.

    Contents: (0) mask lemmas; (a) [fmt_ok], [F32_ok], [F64_ok], [fmt_facts];
    (b) 1 [is_denormal_spec], 2 [float_exponent_spec], 3 [float_mantissa_spec],
    4 [sf_of_bits_decode] / [decompose_value] / [decompose_value_neg], 5 [bits_roundtrip] /
    [bits_roundtrip_nan] / [sf_roundtrip], 6 [from_bits_spec] / [from_bits_wide], 7 [pack_spec] /
    [pack_overlap_spec] / [pack_infinity], 8 [float_b_spec] / [float_bh_spec] / [bh_value],
    9 [bits_order] / [sval_strict_mono] / [finite_iff_below_infinity] / [sval_infinity],
    summary [float_helpers_ieee]; (c) instances [f32_...], [f64_...] and examples.
    The link to Flocq's decoder and to real numbers is in proofs/NumFactsFlocq.v. *)
From Coq Require Import ZArith List Bool Lia.
From Coq Require Import ZifyBool.
From Coq Require Import Floats.SpecFloat.
From ML Require Import base.RustSem model.Fmt model.Num model.FloatOps model.Slow gen.Consts.
Open Scope Z_scope.

(* ------------------------------------------------------------------------------------------ *)
(** ** 0. Small generic lemmas on masks *)

Lemma pow2_pos k : 0 <= k -> 0 < 2 ^ k.
Proof. intros; apply Z.pow_pos_nonneg; lia. Qed.

Lemma pow2_split a b : 0 <= a -> 0 <= b -> 2 ^ (a + b) = 2 ^ a * 2 ^ b.
Proof. intros; apply Z.pow_add_r; lia. Qed.

Lemma pow2_le a b : 0 <= a <= b -> 2 ^ a <= 2 ^ b.
Proof. intros; apply Z.pow_le_mono_r; lia. Qed.

Lemma pow2_lt a b : 0 <= a < b -> 2 ^ a < 2 ^ b.
Proof. intros; apply Z.pow_lt_mono_r; lia. Qed.

(** `x & (2^k - 1)` keeps the low [k] bits *)
Lemma land_low_mask x k : 0 <= k -> Z.land x (2 ^ k - 1) = x mod 2 ^ k.
Proof.
  intros Hk. rewrite <- Z.land_ones by exact Hk. rewrite Z.ones_equiv.
  unfold Z.pred. reflexivity.
Qed.

Lemma land_shifted_ones x w k :
  0 <= k -> 0 <= w ->
  Z.land x (Z.shiftl (Z.ones w) k) = Z.shiftl (Z.land (Z.shiftr x k) (Z.ones w)) k.
Proof.
  intros Hk Hw. apply Z.bits_inj'. intros n Hn. rewrite Z.land_spec.
  destruct (Z.lt_ge_cases n k) as [L|G].
  - rewrite !Z.shiftl_spec_low by exact L. apply andb_false_r.
  - rewrite !Z.shiftl_spec by exact Hn.
    rewrite Z.land_spec, Z.shiftr_spec by lia.
    replace (n - k + k) with n by lia. reflexivity.
Qed.

(** `x & ((2^w - 1) << k)` isolates the [w]-bit field at position [k] *)
Lemma land_field_mask x w k :
  0 <= k -> 0 <= w ->
  Z.land x ((2 ^ w - 1) * 2 ^ k) = ((x / 2 ^ k) mod 2 ^ w) * 2 ^ k.
Proof.
  intros Hk Hw.
  replace ((2 ^ w - 1) * 2 ^ k) with (Z.shiftl (Z.ones w) k)
    by (rewrite Z.shiftl_mul_pow2, Z.ones_equiv by exact Hk; reflexivity).
  rewrite land_shifted_ones by assumption.
  rewrite Z.shiftl_mul_pow2, Z.land_ones, Z.shiftr_div_pow2 by assumption. reflexivity.
Qed.

Lemma land_low_shifted a c k : 0 <= k -> 0 <= a < 2 ^ k -> Z.land a (Z.shiftl c k) = 0.
Proof.
  intros Hk Ha. apply Z.bits_inj'. intros n Hn. rewrite Z.land_spec, Z.bits_0.
  destruct (Z.lt_ge_cases n k) as [L|G].
  - rewrite Z.shiftl_spec_low by exact L. apply andb_false_r.
  - rewrite <- (Z.mod_small a (2 ^ k)) by exact Ha.
    rewrite Z.mod_pow2_bits_high by lia. reflexivity.
Qed.

(** disjoint `|` is `+` *)
Lemma lor_low_shifted a c k : 0 <= k -> 0 <= a < 2 ^ k -> Z.lor a (c * 2 ^ k) = a + c * 2 ^ k.
Proof.
  intros Hk Ha. rewrite <- Z.shiftl_mul_pow2 by exact Hk.
  pose proof (land_low_shifted a c k Hk Ha) as D.
  rewrite (Z.add_nocarry_lxor _ _ D). symmetry. apply Z.lxor_lor. exact D.
Qed.

(** `|` of two words with the same low part: the high parts are or-ed *)
Lemma lor_overlap a c e k :
  0 <= k -> 0 <= a < 2 ^ k ->
  Z.lor (a + c * 2 ^ k) (e * 2 ^ k) = a + Z.lor c e * 2 ^ k.
Proof.
  intros Hk Ha. rewrite <- (lor_low_shifted a c k Hk Ha).
  rewrite <- Z.lor_assoc. rewrite <- !Z.shiftl_mul_pow2 by exact Hk.
  rewrite <- Z.shiftl_lor. rewrite Z.shiftl_mul_pow2 by exact Hk.
  apply lor_low_shifted; assumption.
Qed.

(** splitting a word in three fields *)
Lemma three_fields x k w :
  0 <= k -> 0 <= w ->
  x = (x / 2 ^ (k + w)) * 2 ^ (k + w) + ((x / 2 ^ k) mod 2 ^ w) * 2 ^ k + x mod 2 ^ k.
Proof.
  intros Hk Hw. pose proof (pow2_pos k Hk). pose proof (pow2_pos w Hw).
  rewrite pow2_split by assumption. rewrite <- Z.div_div by lia.
  pose proof (Z.div_mod x (2 ^ k) ltac:(lia)).
  pose proof (Z.div_mod (x / 2 ^ k) (2 ^ w) ltac:(lia)). nia.
Qed.

(** the fields of `s * 2^(k+w) + e * 2^k + m` *)
Lemma fields_of_sum s e m k w :
  0 <= k -> 0 <= w -> 0 <= m < 2 ^ k -> 0 <= e < 2 ^ w ->
  let x := s * 2 ^ (k + w) + e * 2 ^ k + m in
  x mod 2 ^ k = m /\ (x / 2 ^ k) mod 2 ^ w = e /\ x / 2 ^ (k + w) = s.
Proof.
  intros Hk Hw Hm He x. pose proof (pow2_pos k Hk). pose proof (pow2_pos w Hw).
  assert (E : x = m + (s * 2 ^ w + e) * 2 ^ k)
    by (unfold x; rewrite pow2_split by assumption; ring).
  assert (D : x / 2 ^ k = s * 2 ^ w + e).
  { rewrite E, Z.div_add by lia. rewrite Z.div_small by exact Hm. ring. }
  split; [|split].
  - rewrite E, Z.mod_add by lia. apply Z.mod_small; exact Hm.
  - rewrite D. replace (s * 2 ^ w + e) with (e + s * 2 ^ w) by ring.
    rewrite Z.mod_add by lia. apply Z.mod_small; exact He.
  - rewrite pow2_split by assumption. rewrite <- Z.div_div by lia. rewrite D.
    replace (s * 2 ^ w + e) with (e + s * 2 ^ w) by ring.
    rewrite Z.div_add by lia. rewrite Z.div_small by exact He. ring.
Qed.

(** machine-integer helpers *)
Ltac if_true :=
  match goal with |- context [if ?c then _ else _] => replace c with true by lia end.
Ltac if_false :=
  match goal with |- context [if ?c then _ else _] => replace c with false by lia end.

Lemma p31 : 2 ^ (32 - 1) = 2147483648. Proof. reflexivity. Qed.
Lemma p32 : 2 ^ 32 = 4294967296. Proof. reflexivity. Qed.
Lemma p64 : 2 ^ 64 = 18446744073709551616. Proof. reflexivity. Qed.
Lemma p30 : 2 ^ 30 = 1073741824. Proof. reflexivity. Qed.
Lemma p63 : 2 ^ 63 = 9223372036854775808. Proof. reflexivity. Qed.

Lemma sop32_ok b r : - 2147483648 <= r < 2147483648 -> sop b 32 r = Ok r.
Proof.
  intros H. unfold sop, in_s. rewrite p31.
  if_true. reflexivity.
Qed.

Lemma uop64_ok b r : 0 <= r < 2 ^ 64 -> uop b 64 r = Ok r.
Proof.
  intros H. unfold uop, in_u.
  if_true. reflexivity.
Qed.

Lemma as_i32_small x : - 2147483648 <= x < 2147483648 -> as_i32 x = x.
Proof.
  intros H. unfold as_i32, wraps. rewrite p31, p32.
  rewrite Z.mod_small by lia. lia.
Qed.

Lemma wrapu_small n x : 0 <= x < 2 ^ n -> wrapu n x = x.
Proof. intros H. unfold wrapu. apply Z.mod_small; exact H. Qed.

Lemma bind_ok {A B} (a : A) (g : A -> outcome B) : bind (Ok a) g = g a.
Proof. reflexivity. Qed.

Lemma bind_ok_inv {A B} (x : outcome A) (g : A -> outcome B) r :
  bind x g = Ok r -> exists a, x = Ok a /\ g a = Ok r.
Proof. destruct x; cbn [bind]; intros H; try discriminate. eauto. Qed.

(* ------------------------------------------------------------------------------------------ *)
(** ** (a) Well-formedness of a format record *)

Definition fmt_ok (f : format) : bool :=
  ((fbits f =? 32) || (fbits f =? 64)) &&
  (0 <? MANTISSA_SIZE f) &&
  (MANTISSA_SIZE f + 2 <=? fbits f) &&
  (ewidth f <? 31) &&
  (MANTISSA_MASK f =? 2 ^ MANTISSA_SIZE f - 1) &&
  (HIDDEN_BIT_MASK f =? 2 ^ MANTISSA_SIZE f) &&
  (EXPONENT_MASK f =? (2 ^ ewidth f - 1) * 2 ^ MANTISSA_SIZE f) &&
  (SIGN_MASK f =? 2 ^ (fbits f - 1)) &&
  (EXPONENT_BIAS f =? emax f - 1 + MANTISSA_SIZE f) &&
  (DENORMAL_EXPONENT f =? 1 - EXPONENT_BIAS f) &&
  (CARRY_MASK f =? 2 * HIDDEN_BIT_MASK f) &&
  (INFINITE_POWER f =? 2 ^ ewidth f - 1) &&
  (MAX_EXPONENT f =? INFINITE_POWER f - EXPONENT_BIAS f) &&
  (MINIMUM_EXPONENT f =? 1 - emax f) &&
  (MAX_MANTISSA_FAST_PATH f =? 2 * HIDDEN_BIT_MASK f) &&
  (INVALID_FP f =? - 2 ^ 15).

Lemma F32_ok : fmt_ok F32 = true.
Proof. vm_compute; reflexivity. Qed.

Lemma F64_ok : fmt_ok F64 = true.
Proof. vm_compute; reflexivity. Qed.

(** The same facts as propositions. *)
Record fmt_facts (f : format) : Prop := {
  ff_bits : fbits f = 32 \/ fbits f = 64;
  ff_ms_pos : 0 < MANTISSA_SIZE f;
  ff_ew_pos : 1 <= ewidth f;
  ff_ew_small : ewidth f < 31;
  ff_width : MANTISSA_SIZE f + ewidth f = fbits f - 1;
  ff_mmask : MANTISSA_MASK f = 2 ^ MANTISSA_SIZE f - 1;
  ff_hidden : HIDDEN_BIT_MASK f = 2 ^ MANTISSA_SIZE f;
  ff_emask : EXPONENT_MASK f = (2 ^ ewidth f - 1) * 2 ^ MANTISSA_SIZE f;
  ff_smask : SIGN_MASK f = 2 ^ (fbits f - 1);
  ff_bias : EXPONENT_BIAS f = emax f - 1 + MANTISSA_SIZE f;
  ff_denexp : DENORMAL_EXPONENT f = 1 - EXPONENT_BIAS f;
  ff_carry : CARRY_MASK f = 2 * HIDDEN_BIT_MASK f;
  ff_infpow : INFINITE_POWER f = 2 ^ ewidth f - 1;
  ff_maxexp : MAX_EXPONENT f = INFINITE_POWER f - EXPONENT_BIAS f;
  ff_minexp : MINIMUM_EXPONENT f = 1 - emax f;
  ff_maxfast : MAX_MANTISSA_FAST_PATH f = 2 * HIDDEN_BIT_MASK f;
  ff_invalid : INVALID_FP f = - 2 ^ 15
}.

Lemma fmt_ok_facts f : fmt_ok f = true -> fmt_facts f.
Proof.
  unfold fmt_ok. rewrite !andb_true_iff, orb_true_iff, !Z.eqb_eq, !Z.ltb_lt, !Z.leb_le.
  intros H. decompose [and] H. clear H.
  constructor; try assumption; unfold ewidth in *; lia.
Qed.

(* ------------------------------------------------------------------------------------------ *)
(** ** (b) Generic theorems *)

(** The three fields of an IEEE bit pattern, and the decoded (mantissa, exponent) pair:
    hidden bit supplied for a non-zero exponent field, fixed minimum exponent otherwise. *)
Definition frac_field (f : format) (x : Z) : Z := x mod 2 ^ MANTISSA_SIZE f.
Definition exp_field (f : format) (x : Z) : Z := (x / 2 ^ MANTISSA_SIZE f) mod 2 ^ ewidth f.
Definition sign_bit (f : format) (x : Z) : bool := 2 ^ (fbits f - 1) <=? x.

Definition dec_mant (f : format) (x : Z) : Z :=
  if exp_field f x =? 0 then frac_field f x else frac_field f x + 2 ^ MANTISSA_SIZE f.
Definition dec_exp (f : format) (x : Z) : Z :=
  if exp_field f x =? 0 then DENORMAL_EXPONENT f else exp_field f x - EXPONENT_BIAS f.

(** a NaN pattern: exponent field all ones, fraction non-zero *)
Definition is_nan_bits (f : format) (x : Z) : bool :=
  (exp_field f x =? 2 ^ ewidth f - 1) && negb (frac_field f x =? 0).
(** a finite pattern: exponent field not all ones *)
Definition is_finite_bits (f : format) (x : Z) : bool :=
  negb (exp_field f x =? 2 ^ ewidth f - 1).

(** the value of `bh` is the value of `b` plus half a unit in the last place
    ((2m+1) * 2^(e-1) = m * 2^e + 2^(e-1)), stated over Z after scaling by any 2^k that clears
    the negative exponent *)
Lemma bh_value m e k :
  0 <= e - 1 + k ->
  (2 * m + 1) * 2 ^ (e - 1 + k) = m * 2 ^ (e + k) + 2 ^ (e - 1 + k).
Proof.
  intros H. replace (e + k) with (1 + (e - 1 + k)) by ring.
  rewrite (pow2_split 1 (e - 1 + k)) by lia. change (2 ^ 1) with 2. ring.
Qed.

(** what [sf_of_bits] computes, in terms of the decoded pair *)
Definition sf_decode (f : format) (x : Z) : spec_float :=
  let s := sign_bit f x in
  if exp_field f x =? 2 ^ ewidth f - 1 then
    (if frac_field f x =? 0 then S754_infinity s else S754_nan)
  else if dec_mant f x =? 0 then S754_zero s
  else S754_finite s (Z.to_pos (dec_mant f x)) (dec_exp f x).

(** the canonical quiet NaN produced by [bits_of_sf] *)
Definition canonical_nan (f : format) : Z :=
  (2 ^ ewidth f - 1) * 2 ^ MANTISSA_SIZE f + 2 ^ (MANTISSA_SIZE f - 1).

(** the bit pattern with sign [sg], biased exponent [e] and fraction [m] *)
Definition pack_bits (f : format) (sg : bool) (e m : Z) : Z :=
  (if sg then 2 ^ (fbits f - 1) else 0) + e * 2 ^ MANTISSA_SIZE f + m.

Section Generic.
Variable f : format.
Hypothesis OK : fmt_ok f = true.

Let FF : fmt_facts f := fmt_ok_facts f OK.

Local Notation ms := (MANTISSA_SIZE f).
Local Notation ew := (ewidth f).

Lemma ms_pow_pos : 0 < 2 ^ ms.
Proof. destruct FF. apply pow2_pos; lia. Qed.

Lemma ew_pow_pos : 0 < 2 ^ ew.
Proof. destruct FF. apply pow2_pos; lia. Qed.

Lemma ew_pow_ge2 : 2 <= 2 ^ ew.
Proof. destruct FF. change 2 with (2 ^ 1) at 1. apply pow2_le; lia. Qed.

Lemma ew_pow_small : 2 ^ ew <= 1073741824.
Proof. destruct FF. rewrite <- p30. apply pow2_le; lia. Qed.

Lemma emax_double : 2 * emax f = 2 ^ ew.
Proof.
  destruct FF. unfold emax. replace ew with (1 + (ew - 1)) at 2 by lia.
  rewrite pow2_split by lia. reflexivity.
Qed.

Lemma sign_pow_split : 2 ^ (fbits f - 1) = 2 ^ ew * 2 ^ ms.
Proof. destruct FF. rewrite <- ff_width0, Z.add_comm. apply pow2_split; lia. Qed.

Lemma fbits_pow_split : 2 ^ fbits f = 2 * (2 ^ ew * 2 ^ ms).
Proof.
  destruct FF. rewrite <- sign_pow_split. replace (fbits f) with (1 + (fbits f - 1)) at 1 by lia.
  rewrite pow2_split by lia. reflexivity.
Qed.

Lemma ms_small : ms + 1 <= 63.
Proof. destruct FF. lia. Qed.

Lemma ms_pow_small : 2 * 2 ^ ms <= 2 ^ 63.
Proof.
  destruct FF. replace (2 * 2 ^ ms) with (2 ^ (1 + ms)) by (apply pow2_split; lia).
  apply pow2_le. lia.
Qed.

Lemma fbits_pow_small : 2 ^ fbits f <= 2 ^ 64.
Proof. destruct FF. apply pow2_le. lia. Qed.

Lemma frac_field_range x : 0 <= frac_field f x < 2 ^ ms.
Proof. unfold frac_field. apply Z.mod_pos_bound, ms_pow_pos. Qed.

Lemma exp_field_range x : 0 <= exp_field f x < 2 ^ ew.
Proof. unfold exp_field. apply Z.mod_pos_bound, ew_pow_pos. Qed.

Lemma dec_mant_range x : 0 <= dec_mant f x < 2 * 2 ^ ms.
Proof.
  pose proof (frac_field_range x). unfold dec_mant.
  destruct (exp_field f x =? 0); lia.
Qed.

Lemma dec_exp_range x : DENORMAL_EXPONENT f <= dec_exp f x <= MAX_EXPONENT f.
Proof.
  pose proof (exp_field_range x). pose proof ew_pow_ge2. destruct FF. unfold dec_exp.
  destruct (exp_field f x =? 0) eqn:E; lia.
Qed.

(** the decoded exponent never leaves i32 *)
Lemma dec_exp_i32 x : - 2147483648 < dec_exp f x - 1 /\ dec_exp f x < 2147483648.
Proof.
  pose proof (exp_field_range x). pose proof ew_pow_small. pose proof emax_double.
  destruct FF. unfold dec_exp. destruct (exp_field f x =? 0); lia.
Qed.

(** for a pattern of the right width the biased exponent is everything between the fraction
    and the sign bit *)
Lemma pattern_split x :
  0 <= x < 2 ^ fbits f ->
  x = (if sign_bit f x then 2 ^ (fbits f - 1) else 0) + exp_field f x * 2 ^ ms + frac_field f x.
Proof.
  intros Hx. destruct FF. pose proof ms_pow_pos. pose proof ew_pow_pos.
  pose proof (three_fields x ms ew ltac:(lia) ltac:(lia)) as T.
  fold (frac_field f x) in T. fold (exp_field f x) in T.
  pose proof (frac_field_range x). pose proof (exp_field_range x).
  rewrite ff_width0 in T. pose proof sign_pow_split as S. pose proof fbits_pow_split as S'.
  set (q := x / 2 ^ (fbits f - 1)) in *.
  assert (0 <= q < 2).
  { unfold q. split. apply Z.div_pos; lia. apply Z.div_lt_upper_bound; lia. }
  unfold sign_bit. destruct (2 ^ (fbits f - 1) <=? x) eqn:E.
  - assert (q = 1) by nia. nia.
  - assert (q = 0) by nia. nia.
Qed.

(** *** 1. subnormal detection is exact *)
Lemma is_denormal_eq x : is_denormal f x = (exp_field f x =? 0).
Proof.
  destruct FF. pose proof ms_pow_pos. unfold is_denormal. rewrite ff_emask0.
  rewrite land_field_mask by lia. fold (exp_field f x).
  destruct (exp_field f x =? 0) eqn:E.
  - apply Z.eqb_eq in E. rewrite E. reflexivity.
  - apply Z.eqb_neq in E. apply Z.eqb_neq. nia.
Qed.

Theorem is_denormal_spec x :
  is_denormal f x = true <-> (x / 2 ^ MANTISSA_SIZE f) mod 2 ^ ewidth f = 0.
Proof. rewrite is_denormal_eq. fold (exp_field f x). apply Z.eqb_eq. Qed.

(** *** 2. `exponent()` *)
Theorem float_exponent_spec b x : float_exponent f b x = Ok (dec_exp f x).
Proof.
  destruct FF. pose proof ms_pow_pos. pose proof (exp_field_range x).
  pose proof ew_pow_small. pose proof emax_double.
  unfold float_exponent, dec_exp. rewrite is_denormal_eq.
  destruct (exp_field f x =? 0) eqn:E; [reflexivity|].
  unfold u64_shr, shr_u. if_true. rewrite bind_ok.
  rewrite ff_emask0, land_field_mask by lia. fold (exp_field f x).
  rewrite Z.div_mul by lia. rewrite as_i32_small by lia.
  unfold i32_sub. apply sop32_ok. lia.
Qed.

(** *** 3. `mantissa()` *)
Theorem float_mantissa_spec b x : float_mantissa f b x = Ok (dec_mant f x).
Proof.
  destruct FF. pose proof ms_pow_pos. pose proof (frac_field_range x). pose proof ms_pow_small.
  unfold float_mantissa, dec_mant. rewrite is_denormal_eq.
  rewrite ff_mmask0, land_low_mask by lia. fold (frac_field f x).
  destruct (exp_field f x =? 0); cbn [negb]; [reflexivity|].
  unfold u64_add. rewrite ff_hidden0. apply uop64_ok. rewrite p64, p63 in *. lia.
Qed.

(** unfolding the decoded pair *)
Lemma dec_denormal x :
  exp_field f x = 0 -> dec_mant f x = frac_field f x /\ dec_exp f x = DENORMAL_EXPONENT f.
Proof. intros E. unfold dec_mant, dec_exp. rewrite E. split; reflexivity. Qed.

Lemma dec_normal x :
  exp_field f x <> 0 ->
  dec_mant f x = frac_field f x + 2 ^ MANTISSA_SIZE f /\
  dec_exp f x = exp_field f x - EXPONENT_BIAS f.
Proof.
  intros E. apply Z.eqb_neq in E. unfold dec_mant, dec_exp. rewrite E. split; reflexivity.
Qed.

(** the smallest exponent is Flocq's / SpecFloat's [emin] *)
Lemma denormal_exponent_femin : DENORMAL_EXPONENT f = femin f.
Proof. destruct FF. unfold femin, prec. lia. Qed.

(** *** 4. the decoded pair is the value: [sf_of_bits] in terms of (mantissa, exponent) *)

Lemma sign_div x :
  0 <= x < 2 ^ fbits f -> x / 2 ^ (fbits f - 1) = if sign_bit f x then 1 else 0.
Proof.
  intros Hx. pose proof ms_pow_pos. pose proof ew_pow_pos.
  pose proof sign_pow_split as S. pose proof fbits_pow_split as S'.
  assert (P : 0 < 2 ^ (fbits f - 1)) by nia.
  unfold sign_bit. destruct (2 ^ (fbits f - 1) <=? x) eqn:E.
  - symmetry. apply Z.div_unique with (r := x - 2 ^ (fbits f - 1)); lia.
  - apply Z.div_small. lia.
Qed.

Lemma fields_of_pack sg e m :
  0 <= e < 2 ^ ew -> 0 <= m < 2 ^ ms ->
  frac_field f (pack_bits f sg e m) = m /\
  exp_field f (pack_bits f sg e m) = e /\
  sign_bit f (pack_bits f sg e m) = sg /\
  0 <= pack_bits f sg e m < 2 ^ fbits f.
Proof.
  intros He Hm. destruct FF. pose proof ms_pow_pos. pose proof ew_pow_pos.
  pose proof sign_pow_split as S. pose proof fbits_pow_split as S'.
  pose proof (fields_of_sum (if sg then 1 else 0) e m ms ew ltac:(lia) ltac:(lia) Hm He) as T.
  cbv zeta in T. rewrite ff_width0 in T.
  assert (X : (if sg then 1 else 0) * 2 ^ (fbits f - 1) + e * 2 ^ ms + m = pack_bits f sg e m)
    by (unfold pack_bits; destruct sg; ring).
  rewrite X in T. destruct T as (T1 & T2 & T3).
  unfold frac_field, exp_field. repeat split; try assumption.
  - unfold sign_bit, pack_bits. destruct sg; nia.
  - unfold pack_bits. destruct sg; nia.
  - unfold pack_bits. destruct sg; nia.
Qed.

Lemma sign_bit_negb x :
  0 <= x < 2 ^ fbits f ->
  negb ((x / 2 ^ (ms + ew)) mod 2 =? 0) = sign_bit f x.
Proof.
  intros Hx. destruct FF. rewrite ff_width0, (sign_div x Hx).
  destruct (sign_bit f x); reflexivity.
Qed.

Theorem sf_of_bits_decode x : 0 <= x < 2 ^ fbits f -> sf_of_bits f x = sf_decode f x.
Proof.
  intros Hx. destruct FF. pose proof ms_pow_pos.
  pose proof (frac_field_range x) as HF. pose proof (exp_field_range x) as HE.
  pose proof ew_pow_ge2. pose proof denormal_exponent_femin as DF.
  unfold sf_of_bits, sf_decode. cbv zeta. rewrite (sign_bit_negb x Hx).
  fold (frac_field f x). fold (exp_field f x).
  unfold dec_mant, dec_exp.
  destruct (exp_field f x =? 0) eqn:E0.
  - if_false. rewrite DF.
    destruct (frac_field f x) as [|p|p] eqn:EF; try reflexivity. lia.
  - destruct (exp_field f x =? 2 ^ ew - 1) eqn:E1; [reflexivity|].
    if_false.
    replace (exp_field f x + femin f - 1) with (exp_field f x - EXPONENT_BIAS f) by lia.
    destruct (frac_field f x + 2 ^ ms) as [|p|p] eqn:EF; try reflexivity; lia.
Qed.

(** finite, sign clear: the value is +m * 2^e with the *same* m and e that `mantissa()` and
    `exponent()` return (items 2 and 3) *)
Theorem decompose_value x :
  0 <= x < 2 ^ (fbits f - 1) -> is_finite_bits f x = true ->
  sf_of_bits f x =
    if dec_mant f x =? 0 then S754_zero false
    else S754_finite false (Z.to_pos (dec_mant f x)) (dec_exp f x).
Proof.
  intros Hx Hfin. pose proof ms_pow_pos. pose proof ew_pow_pos.
  pose proof sign_pow_split as S. pose proof fbits_pow_split as S'.
  rewrite sf_of_bits_decode by nia. unfold sf_decode. cbv zeta.
  unfold is_finite_bits in Hfin. apply negb_true_iff in Hfin. rewrite Hfin.
  replace (sign_bit f x) with false by (unfold sign_bit; lia). reflexivity.
Qed.

(** sign set: same magnitude, sign true *)
Theorem decompose_value_neg x :
  2 ^ (fbits f - 1) <= x < 2 ^ fbits f -> is_finite_bits f x = true ->
  sf_of_bits f x =
    if dec_mant f x =? 0 then S754_zero true
    else S754_finite true (Z.to_pos (dec_mant f x)) (dec_exp f x).
Proof.
  intros Hx Hfin. pose proof ms_pow_pos. pose proof ew_pow_pos.
  pose proof sign_pow_split as S. pose proof fbits_pow_split as S'.
  rewrite sf_of_bits_decode by nia. unfold sf_decode. cbv zeta.
  unfold is_finite_bits in Hfin. apply negb_true_iff in Hfin. rewrite Hfin.
  replace (sign_bit f x) with true by (unfold sign_bit; lia). reflexivity.
Qed.

(** setting / clearing the sign bit does not touch the other two fields *)
Lemma sign_flip_fields x :
  frac_field f (x + 2 ^ (fbits f - 1)) = frac_field f x /\
  exp_field f (x + 2 ^ (fbits f - 1)) = exp_field f x /\
  dec_mant f (x + 2 ^ (fbits f - 1)) = dec_mant f x /\
  dec_exp f (x + 2 ^ (fbits f - 1)) = dec_exp f x.
Proof.
  pose proof ms_pow_pos. pose proof ew_pow_pos. rewrite sign_pow_split.
  assert (A : frac_field f (x + 2 ^ ew * 2 ^ ms) = frac_field f x).
  { unfold frac_field. apply Z.mod_add. lia. }
  assert (B : exp_field f (x + 2 ^ ew * 2 ^ ms) = exp_field f x).
  { unfold exp_field. rewrite Z.div_add by lia.
    replace (x / 2 ^ ms + 2 ^ ew) with (x / 2 ^ ms + 1 * 2 ^ ew) by ring.
    apply Z.mod_add. lia. }
  unfold dec_mant, dec_exp. rewrite A, B. repeat split.
Qed.

(** the two special classes *)
Theorem sf_of_bits_infinity x :
  0 <= x < 2 ^ fbits f -> exp_field f x = 2 ^ ew - 1 -> frac_field f x = 0 ->
  sf_of_bits f x = S754_infinity (sign_bit f x).
Proof.
  intros Hx E F. rewrite sf_of_bits_decode by exact Hx. unfold sf_decode. cbv zeta.
  rewrite E, F, !Z.eqb_refl. reflexivity.
Qed.

Theorem sf_of_bits_nan x :
  0 <= x < 2 ^ fbits f -> (is_nan_bits f x = true <-> sf_of_bits f x = S754_nan).
Proof.
  intros Hx. rewrite sf_of_bits_decode by exact Hx. unfold sf_decode, is_nan_bits. cbv zeta.
  destruct (exp_field f x =? 2 ^ ew - 1); cbn [andb].
  - destruct (frac_field f x =? 0); cbn [negb]; split; intros; try reflexivity; discriminate.
  - destruct (dec_mant f x =? 0); split; intros; discriminate.
Qed.

(** *** 5. conversion to and from raw bits is lossless *)

Lemma bits_of_sf_decode x :
  0 <= x < 2 ^ fbits f ->
  bits_of_sf f (sf_decode f x) = if is_nan_bits f x then canonical_nan f else x.
Proof.
  intros Hx. destruct FF. pose proof ms_pow_pos. pose proof ew_pow_ge2.
  pose proof (frac_field_range x) as HF. pose proof (exp_field_range x) as HE.
  pose proof denormal_exponent_femin as DF.
  pose proof (pattern_split x Hx) as P.
  unfold sf_decode, is_nan_bits, dec_mant, dec_exp, bits_of_sf, canonical_nan. cbv zeta.
  rewrite ff_width0.
  set (F := frac_field f x) in *. set (E := exp_field f x) in *. set (S := sign_bit f x) in *.
  clearbody F E S.
  destruct (E =? 2 ^ ew - 1) eqn:E1; cbn [andb].
  - destruct (F =? 0) eqn:F0; cbn [negb]; [|reflexivity].
    rewrite P. apply Z.eqb_eq in E1, F0. rewrite E1, F0. ring.
  - destruct (E =? 0) eqn:E0.
    + destruct (F =? 0) eqn:F0.
      * rewrite P. apply Z.eqb_eq in E0, F0. rewrite E0, F0. ring.
      * rewrite Z2Pos.id by lia. if_true. rewrite P. apply Z.eqb_eq in E0. rewrite E0. ring.
    + if_false. rewrite Z2Pos.id by lia. if_false.
      replace (E - EXPONENT_BIAS f - femin f + 1) with E by lia. rewrite P. ring.
Qed.

(** every non-NaN pattern survives decoding and re-encoding; a NaN pattern is canonicalised
    (the model keeps neither the NaN payload nor its sign) *)
Theorem bits_roundtrip x :
  0 <= x < 2 ^ fbits f -> is_nan_bits f x = false -> bits_of_sf f (sf_of_bits f x) = x.
Proof.
  intros Hx N. rewrite sf_of_bits_decode, bits_of_sf_decode by exact Hx. rewrite N. reflexivity.
Qed.

Theorem bits_roundtrip_nan x :
  0 <= x < 2 ^ fbits f -> is_nan_bits f x = true ->
  bits_of_sf f (sf_of_bits f x) = canonical_nan f.
Proof.
  intros Hx N. rewrite sf_of_bits_decode, bits_of_sf_decode by exact Hx. rewrite N. reflexivity.
Qed.

(** decoding a pattern given by its three fields *)
Lemma sf_of_bits_pack sg e m :
  0 <= e < 2 ^ ew -> 0 <= m < 2 ^ ms ->
  sf_of_bits f (pack_bits f sg e m) =
    if e =? 2 ^ ew - 1 then (if m =? 0 then S754_infinity sg else S754_nan)
    else if e =? 0 then
      (if m =? 0 then S754_zero sg else S754_finite sg (Z.to_pos m) (DENORMAL_EXPONENT f))
    else S754_finite sg (Z.to_pos (m + 2 ^ ms)) (e - EXPONENT_BIAS f).
Proof.
  intros He Hm. destruct (fields_of_pack sg e m He Hm) as (A & B & C & D).
  pose proof ms_pow_pos.
  rewrite sf_of_bits_decode by exact D. unfold sf_decode, dec_mant, dec_exp. cbv zeta.
  rewrite A, B, C.
  destruct (e =? 2 ^ ew - 1); [reflexivity|].
  destruct (e =? 0); [reflexivity|]. if_false. reflexivity.
Qed.

Lemma digits2_pos_bounds p :
  2 ^ (Zpos (digits2_pos p) - 1) <= Zpos p < 2 ^ Zpos (digits2_pos p).
Proof.
  induction p as [p IH|p IH|]; cbn [digits2_pos].
  - rewrite Pos2Z.inj_succ, Pos2Z.inj_xI. unfold Z.succ.
    replace (Z.pos (digits2_pos p) + 1 - 1) with (1 + (Z.pos (digits2_pos p) - 1)) by lia.
    rewrite (Z.add_comm _ 1). rewrite !pow2_split by lia. change (2 ^ 1) with 2. lia.
  - rewrite Pos2Z.inj_succ, Pos2Z.inj_xO. unfold Z.succ.
    replace (Z.pos (digits2_pos p) + 1 - 1) with (1 + (Z.pos (digits2_pos p) - 1)) by lia.
    rewrite (Z.add_comm _ 1). rewrite !pow2_split by lia. change (2 ^ 1) with 2. lia.
  - split; [reflexivity|reflexivity].
Qed.

(** every valid SpecFloat datum (in particular every result of [SFmul], [SFdiv],
    [binary_normalize] at this precision) survives encoding and decoding - NaN included,
    since SpecFloat has a single NaN *)
Theorem sf_roundtrip s :
  valid_binary (prec f) (emax f) s = true ->
  sf_of_bits f (bits_of_sf f s) = s /\ 0 <= bits_of_sf f s < 2 ^ fbits f.
Proof.
  intros V. destruct FF. pose proof ms_pow_pos. pose proof ew_pow_ge2.
  pose proof denormal_exponent_femin as DF. pose proof emax_double as EM.
  destruct s as [sg|sg| |sg m e].
  - assert (X : bits_of_sf f (S754_zero sg) = pack_bits f sg 0 0)
      by (unfold bits_of_sf, pack_bits; rewrite ff_width0; destruct sg; ring).
    rewrite X. split; [|apply fields_of_pack; lia].
    rewrite sf_of_bits_pack by lia. if_false. reflexivity.
  - assert (X : bits_of_sf f (S754_infinity sg) = pack_bits f sg (2 ^ ew - 1) 0)
      by (unfold bits_of_sf, pack_bits; rewrite ff_width0; destruct sg; ring).
    rewrite X. split; [|apply fields_of_pack; lia].
    rewrite sf_of_bits_pack by lia. rewrite Z.eqb_refl. reflexivity.
  - assert (X : bits_of_sf f S754_nan = pack_bits f false (2 ^ ew - 1) (2 ^ (ms - 1)))
      by (unfold bits_of_sf, pack_bits; ring).
    assert (0 < 2 ^ (ms - 1) < 2 ^ ms)
      by (split; [apply pow2_pos; lia | apply pow2_lt; lia]).
    rewrite X. split; [|apply fields_of_pack; lia].
    rewrite sf_of_bits_pack by lia. rewrite Z.eqb_refl. if_false. reflexivity.
  - unfold valid_binary, bounded, canonical_mantissa in V.
    apply andb_true_iff in V. destruct V as [C B].
    apply Zeq_bool_eq in C. apply Z.leb_le in B. unfold fexp, emin in C.
    pose proof (digits2_pos_bounds m) as DG.
    set (d := Z.pos (digits2_pos m)) in *. assert (1 <= d) by (unfold d; lia).
    unfold prec in *.
    destruct (Z.pos m <? 2 ^ ms) eqn:SM.
    + (* subnormal *)
      assert (d <= ms).
      { destruct (Z_le_gt_dec d ms) as [L|G]; [exact L|].
        pose proof (pow2_le ms (d - 1) ltac:(lia)). lia. }
      assert (e = femin f) by (unfold femin, prec; lia).
      assert (X : bits_of_sf f (S754_finite sg m e) = pack_bits f sg 0 (Z.pos m)).
      { unfold bits_of_sf, pack_bits. cbv zeta. rewrite SM, ff_width0. destruct sg; ring. }
      rewrite X. split; [|apply fields_of_pack; lia].
      rewrite sf_of_bits_pack by lia. if_false. rewrite Z.eqb_refl. if_false.
      rewrite DF. subst e. reflexivity.
    + (* normal *)
      assert (ms + 1 <= d).
      { destruct (Z_le_gt_dec (ms + 1) d) as [L|G]; [exact L|].
        pose proof (pow2_le d ms ltac:(lia)). lia. }
      assert (d = ms + 1) by lia.
      assert (Z.pos m < 2 * 2 ^ ms).
      { replace (2 * 2 ^ ms) with (2 ^ d); [lia|].
        replace d with (1 + ms) by lia. apply pow2_split; lia. }
      assert (X : bits_of_sf f (S754_finite sg m e) =
                  pack_bits f sg (e - femin f + 1) (Z.pos m - 2 ^ ms)).
      { unfold bits_of_sf, pack_bits. cbv zeta. rewrite SM, ff_width0. destruct sg; ring. }
      assert (1 <= e - femin f + 1 <= 2 ^ ew - 2) by (unfold femin, prec; lia).
      rewrite X. split; [|apply fields_of_pack; lia].
      rewrite sf_of_bits_pack by lia. do 2 if_false.
      replace (Z.pos m - 2 ^ ms + 2 ^ ms) with (Z.pos m) by ring.
      replace (e - femin f + 1 - EXPONENT_BIAS f) with e by lia. reflexivity.
Qed.

(** *** 6. `from_bits` is lossless on patterns of the right width *)
Theorem from_bits_spec b u : 0 <= u < 2 ^ fbits f -> from_bits f b u = Ok u.
Proof.
  intros Hu. unfold from_bits. destruct (fbits f =? 32) eqn:E; [|reflexivity].
  apply Z.eqb_eq in E. rewrite E, p32 in Hu.
  unfold debug_assert. replace (u <=? 4294967295) with true by lia.
  cbn [negb]. rewrite andb_false_r. rewrite bind_ok.
  unfold as_u32. rewrite wrapu_small by (rewrite p32; lia). reflexivity.
Qed.

(** a 32-bit format given a wider word: debug builds panic, release builds truncate *)
Theorem from_bits_wide b u :
  fbits f = 32 -> 2 ^ 32 <= u ->
  from_bits f b u = if dbg b then Panic PkAssert else Ok (u mod 2 ^ 32).
Proof.
  intros E Hu. unfold from_bits. rewrite E. rewrite p32 in Hu.
  change (32 =? 32) with true. cbv iota.
  unfold debug_assert. replace (u <=? 4294967295) with false by lia.
  cbn [negb]. rewrite andb_true_r. destruct (dbg b); reflexivity.
Qed.

(** *** 7. packing a (biased exponent, fraction) pair *)
Theorem pack_spec b e m :
  0 <= e < 2 ^ ew -> 0 <= m < 2 ^ ms ->
  extended_to_float f b (mkExt m e) = Ok (e * 2 ^ ms + m) /\
  exp_field f (e * 2 ^ ms + m) = e /\
  frac_field f (e * 2 ^ ms + m) = m /\
  0 <= e * 2 ^ ms + m < 2 ^ (fbits f - 1).
Proof.
  intros He Hm. destruct FF. pose proof ms_pow_pos. pose proof ew_pow_pos.
  pose proof sign_pow_split as S. pose proof fbits_pow_split as S'.
  pose proof fbits_pow_small as FS.
  destruct (fields_of_pack false e m He Hm) as (A & B & C & D).
  unfold pack_bits in *. rewrite Z.add_0_l in *.
  assert (R : 0 <= e * 2 ^ ms + m < 2 ^ (fbits f - 1)) by nia.
  repeat split; try assumption; try lia.
  unfold extended_to_float. cbn [exp mant].
  unfold as_u64. rewrite wrapu_small by nia.
  unfold u64_shl, shl_u. if_true. rewrite bind_ok.
  rewrite wrapu_small by nia.
  rewrite lor_low_shifted by lia. rewrite (Z.add_comm m).
  apply from_bits_spec. lia.
Qed.

(** the case the rounding code relies on when a subnormal rounds up to the smallest normal (or
    a subnormal-branch result keeps its hidden bit): `exp = 1` and the hidden bit is still in
    `mant`; the `|` overlaps the hidden bit with the exponent's lowest bit. *)
Theorem pack_overlap_spec b r :
  0 <= r < 2 ^ ms ->
  extended_to_float f b (mkExt (2 ^ ms + r) 1) = Ok (2 ^ ms + r) /\
  exp_field f (2 ^ ms + r) = 1 /\ frac_field f (2 ^ ms + r) = r.
Proof.
  intros Hr. destruct FF. pose proof ms_pow_pos. pose proof ew_pow_ge2.
  pose proof sign_pow_split as S. pose proof fbits_pow_split as S'.
  pose proof fbits_pow_small as FS. pose proof ms_pow_small as MS. rewrite p63 in MS.
  destruct (fields_of_pack false 1 r ltac:(lia) Hr) as (A & B & C & D).
  unfold pack_bits in *. rewrite Z.add_0_l, Z.mul_1_l in *.
  repeat split; try assumption.
  unfold extended_to_float. cbn [exp mant].
  unfold as_u64. rewrite wrapu_small by (rewrite p64; lia).
  unfold u64_shl, shl_u. if_true. rewrite bind_ok.
  rewrite wrapu_small by (rewrite p64; lia).
  replace (2 ^ ms + r) with (r + 1 * 2 ^ ms) by ring.
  rewrite lor_overlap by lia. change (Z.lor 1 1) with 1.
  apply from_bits_spec. lia.
Qed.

(** infinity is packed as (INFINITE_POWER, 0) *)
Theorem pack_infinity b :
  extended_to_float f b (mkExt 0 (INFINITE_POWER f)) = Ok (EXPONENT_MASK f) /\
  sf_of_bits f (EXPONENT_MASK f) = S754_infinity false.
Proof.
  destruct FF. pose proof ms_pow_pos. pose proof ew_pow_ge2.
  destruct (pack_spec b (2 ^ ew - 1) 0 ltac:(lia) ltac:(lia)) as (A & _).
  rewrite ff_infpow0, ff_emask0. rewrite Z.add_0_r in A. split; [exact A|].
  pose proof (sf_of_bits_pack false (2 ^ ew - 1) 0 ltac:(lia) ltac:(lia)) as P.
  unfold pack_bits in P. rewrite Z.add_0_l, Z.add_0_r in P. rewrite P.
  rewrite Z.eqb_refl. reflexivity.
Qed.

(** *** 8. `b` and `bh` of slow.rs *)
Theorem float_b_spec b x : float_b f b x = Ok (mkExt (dec_mant f x) (dec_exp f x)).
Proof.
  unfold float_b. rewrite float_mantissa_spec, bind_ok, float_exponent_spec, bind_ok.
  reflexivity.
Qed.

(** `bh` = (2m+1, e-1): neither `mant << 1`, `+ 1` nor `exp - 1` can overflow *)
Theorem float_bh_spec b x :
  float_bh f b x = Ok (mkExt (2 * dec_mant f x + 1) (dec_exp f x - 1)).
Proof.
  pose proof (dec_mant_range x) as M. pose proof (dec_exp_i32 x) as E.
  pose proof ms_pow_small as MS. rewrite p63 in MS.
  unfold float_bh. rewrite float_b_spec, bind_ok. cbn [mant exp].
  unfold u64_shl, shl_u. if_true. rewrite bind_ok. change (2 ^ 1) with 2.
  rewrite wrapu_small by (rewrite p64; lia).
  unfold u64_add. rewrite uop64_ok by (rewrite p64; lia). rewrite bind_ok.
  unfold i32_sub. rewrite sop32_ok by lia. rewrite bind_ok.
  rewrite (Z.mul_comm _ 2). reflexivity.
Qed.

(** *** 9. the order of non-negative patterns is the order of their values *)

(** the value of a finite pattern in units of the smallest subnormal:
    [m * 2^e * 2^(-DENORMAL_EXPONENT)], an integer.  For the infinity pattern it is
    2^emax (the first power of two that overflows) in the same unit. *)
Definition sval (x : Z) : Z := dec_mant f x * 2 ^ (dec_exp f x - DENORMAL_EXPONENT f).

Lemma sval_denormal x : exp_field f x = 0 -> sval x = frac_field f x.
Proof.
  intros E. unfold sval. destruct (dec_denormal x E) as [A B]. rewrite A, B.
  rewrite Z.sub_diag. change (2 ^ 0) with 1. ring.
Qed.

Lemma sval_normal x :
  exp_field f x <> 0 -> sval x = (frac_field f x + 2 ^ ms) * 2 ^ (exp_field f x - 1).
Proof.
  intros E. unfold sval. destruct (dec_normal x E) as [A B]. rewrite A, B.
  destruct FF. f_equal. f_equal. lia.
Qed.

Lemma sval_upper x : sval x < 2 ^ ms * 2 ^ exp_field f x.
Proof.
  pose proof (frac_field_range x) as HF. pose proof (exp_field_range x) as HE.
  pose proof ms_pow_pos.
  destruct (Z.eq_dec (exp_field f x) 0) as [E|E].
  - rewrite (sval_denormal x E), E. change (2 ^ 0) with 1. lia.
  - rewrite (sval_normal x E).
    replace (exp_field f x) with (1 + (exp_field f x - 1)) at 2 by ring.
    rewrite pow2_split by lia. change (2 ^ 1) with 2.
    pose proof (pow2_pos (exp_field f x - 1) ltac:(lia)). nia.
Qed.

Lemma sval_lower x :
  exp_field f x <> 0 -> 2 ^ ms * 2 ^ (exp_field f x - 1) <= sval x.
Proof.
  intros E. pose proof (frac_field_range x) as HF. pose proof (exp_field_range x) as HE.
  rewrite (sval_normal x E).
  pose proof (pow2_pos (exp_field f x - 1) ltac:(lia)). nia.
Qed.

Lemma nonneg_pattern_split x :
  0 <= x < 2 ^ (fbits f - 1) -> x = exp_field f x * 2 ^ ms + frac_field f x.
Proof.
  intros Hx. pose proof ms_pow_pos. pose proof ew_pow_pos.
  pose proof sign_pow_split as S. pose proof fbits_pow_split as S'.
  pose proof (pattern_split x ltac:(nia)) as P.
  replace (sign_bit f x) with false in P by (unfold sign_bit; lia). lia.
Qed.

Theorem sval_strict_mono x y :
  0 <= x < 2 ^ (fbits f - 1) -> 0 <= y < 2 ^ (fbits f - 1) ->
  x < y -> sval x < sval y.
Proof.
  intros Hx Hy L. pose proof ms_pow_pos.
  pose proof (nonneg_pattern_split x Hx) as Px. pose proof (nonneg_pattern_split y Hy) as Py.
  pose proof (frac_field_range x) as HFx. pose proof (exp_field_range x) as HEx.
  pose proof (frac_field_range y) as HFy. pose proof (exp_field_range y) as HEy.
  pose proof (sval_upper x) as Ux.
  assert (C : exp_field f x < exp_field f y \/
              (exp_field f x = exp_field f y /\ frac_field f x < frac_field f y)) by nia.
  destruct C as [C|[C D]].
  - assert (Ny : exp_field f y <> 0) by lia.
    pose proof (sval_lower y Ny) as Ly.
    pose proof (pow2_le (exp_field f x) (exp_field f y - 1) ltac:(lia)). nia.
  - destruct (Z.eq_dec (exp_field f x) 0) as [E|E].
    + rewrite (sval_denormal x E), (sval_denormal y ltac:(lia)). exact D.
    + rewrite (sval_normal x E), (sval_normal y ltac:(lia)). rewrite <- C.
      pose proof (pow2_pos (exp_field f x - 1) ltac:(lia)). nia.
Qed.

(** for sign-clear patterns (finite values and +infinity; it also holds for NaN patterns,
    which lie above +infinity): [x <= y] iff value(x) <= value(y) *)
Theorem bits_order x y :
  0 <= x < 2 ^ (fbits f - 1) -> 0 <= y < 2 ^ (fbits f - 1) ->
  (x <= y <-> sval x <= sval y) /\ (x < y <-> sval x < sval y).
Proof.
  intros Hx Hy.
  pose proof (sval_strict_mono x y Hx Hy). pose proof (sval_strict_mono y x Hy Hx).
  assert (x = y -> sval x = sval y) by (intros ->; reflexivity). lia.
Qed.

(** the sign-clear finite patterns are exactly those below the +infinity pattern
    [EXPONENT_MASK], and the sign-clear non-NaN patterns those not above it *)
Theorem finite_iff_below_infinity x :
  0 <= x < 2 ^ (fbits f - 1) ->
  (is_finite_bits f x = true <-> x < EXPONENT_MASK f) /\
  (is_nan_bits f x = false <-> x <= EXPONENT_MASK f).
Proof.
  intros Hx. destruct FF. pose proof ms_pow_pos.
  pose proof (nonneg_pattern_split x Hx) as Px.
  pose proof (frac_field_range x) as HF. pose proof (exp_field_range x) as HE.
  unfold is_finite_bits, is_nan_bits. rewrite ff_emask0.
  set (E := exp_field f x) in *. set (F := frac_field f x) in *. clearbody E F.
  split.
  - rewrite negb_true_iff, Z.eqb_neq. split; intros; nia.
  - rewrite andb_false_iff, negb_false_iff, Z.eqb_neq, Z.eqb_eq. split.
    + intros [A|A]; nia.
    + intros A. destruct (Z.eq_dec E (2 ^ ew - 1)); [right|left]; nia.
Qed.

(** +infinity lies strictly above every finite value, in the same unit:
    it sits where 2^emax would be *)
Theorem sval_infinity :
  sval (EXPONENT_MASK f) = 2 ^ ms * 2 ^ (2 ^ ew - 2) /\
  forall x, 0 <= x < 2 ^ (fbits f - 1) -> is_finite_bits f x = true ->
            sval x < sval (EXPONENT_MASK f).
Proof.
  destruct FF. pose proof ms_pow_pos. pose proof ew_pow_ge2.
  pose proof sign_pow_split as S.
  destruct (fields_of_pack false (2 ^ ew - 1) 0 ltac:(lia) ltac:(lia)) as (A & B & C & D).
  unfold pack_bits in *. rewrite Z.add_0_l, Z.add_0_r in *. rewrite <- ff_emask0 in *.
  assert (V : sval (EXPONENT_MASK f) = 2 ^ ms * 2 ^ (2 ^ ew - 2)).
  { rewrite sval_normal by lia. rewrite A, B. f_equal. f_equal. lia. }
  split; [exact V|].
  intros x Hx Fin. apply sval_strict_mono; try assumption.
  - rewrite ff_emask0. nia.
  - apply (finite_iff_below_infinity x Hx). exact Fin.
Qed.

End Generic.

(** *** Summary for one bit pattern: everything the public helpers say about [x] *)
Theorem float_helpers_ieee f (OK : fmt_ok f = true) b x :
  0 <= x < 2 ^ fbits f ->
  is_denormal f x = (exp_field f x =? 0) /\
  float_exponent f b x = Ok (dec_exp f x) /\
  float_mantissa f b x = Ok (dec_mant f x) /\
  from_bits f b x = Ok x /\
  sf_of_bits f x = sf_decode f x /\
  (is_nan_bits f x = false -> bits_of_sf f (sf_of_bits f x) = x) /\
  (is_nan_bits f x = true -> bits_of_sf f (sf_of_bits f x) = canonical_nan f).
Proof.
  intros Hx. repeat split.
  - apply is_denormal_eq; exact OK.
  - apply float_exponent_spec; exact OK.
  - apply float_mantissa_spec; exact OK.
  - apply from_bits_spec; exact Hx.
  - apply sf_of_bits_decode; assumption.
  - apply bits_roundtrip; assumption.
  - apply bits_roundtrip_nan; assumption.
Qed.

(* ------------------------------------------------------------------------------------------ *)
(** ** (c) Instances at the generated formats [F32] and [F64], with concrete examples *)

Ltac ex_tac := repeat split; vm_compute; congruence.

(** the derived IEEE parameters of the two generated records *)
Example F32_params : prec F32 = 24 /\ ewidth F32 = 8 /\ emax F32 = 128 /\ femin F32 = -149.
Proof. ex_tac. Qed.
Example F64_params : prec F64 = 53 /\ ewidth F64 = 11 /\ emax F64 = 1024 /\ femin F64 = -1074.
Proof. ex_tac. Qed.

(** 1 *)
Definition f32_is_denormal_spec := is_denormal_spec F32 F32_ok.
Definition f64_is_denormal_spec := is_denormal_spec F64 F64_ok.
(** in concrete form *)
Theorem f32_is_denormal_concrete x : is_denormal F32 x = true <-> (x / 2 ^ 23) mod 2 ^ 8 = 0.
Proof. exact (f32_is_denormal_spec x). Qed.
Theorem f64_is_denormal_concrete x : is_denormal F64 x = true <-> (x / 2 ^ 52) mod 2 ^ 11 = 0.
Proof. exact (f64_is_denormal_spec x). Qed.
(** smallest subnormal, largest subnormal, smallest normal, 1.5 *)
Example ex_is_denormal :
  is_denormal F64 1 = true /\ is_denormal F64 0xfffffffffffff = true /\
  is_denormal F64 0x10000000000000 = false /\ is_denormal F64 0x3ff8000000000000 = false /\
  is_denormal F32 0x007fffff = true /\ is_denormal F32 0x00800000 = false.
Proof. ex_tac. Qed.

(** 2, 3 *)
Definition f32_float_exponent_spec := float_exponent_spec F32 F32_ok.
Definition f64_float_exponent_spec := float_exponent_spec F64 F64_ok.
Definition f32_float_mantissa_spec := float_mantissa_spec F32 F32_ok.
Definition f64_float_mantissa_spec := float_mantissa_spec F64 F64_ok.
Definition f32_dec_mant_range := dec_mant_range F32 F32_ok.
Definition f64_dec_mant_range := dec_mant_range F64 F64_ok.
Definition f32_dec_exp_range := dec_exp_range F32 F32_ok.
Definition f64_dec_exp_range := dec_exp_range F64 F64_ok.
Definition f32_denormal_exponent_femin := denormal_exponent_femin F32 F32_ok.
Definition f64_denormal_exponent_femin := denormal_exponent_femin F64 F64_ok.
(** 1.5 = 0x18000000000000 * 2^-52; the smallest subnormal = 1 * 2^-1074; the largest finite
    = (2^53 - 1) * 2^971 *)
Example ex_float_exponent b :
  float_exponent F64 b 0x3ff8000000000000 = Ok (-52) /\
  float_exponent F64 b 1 = Ok (-1074) /\
  float_exponent F64 b 0x7fefffffffffffff = Ok 971 /\
  float_exponent F32 b 0x3fc00000 = Ok (-23).
Proof. rewrite !f64_float_exponent_spec, f32_float_exponent_spec. ex_tac. Qed.
Example ex_float_mantissa b :
  float_mantissa F64 b 0x3ff8000000000000 = Ok 0x18000000000000 /\
  float_mantissa F64 b 1 = Ok 1 /\
  float_mantissa F64 b 0x7fefffffffffffff = Ok (2 ^ 53 - 1) /\
  float_mantissa F32 b 0x3fc00000 = Ok 0xc00000.
Proof. rewrite !f64_float_mantissa_spec, f32_float_mantissa_spec. ex_tac. Qed.

(** 4 *)
Definition f32_sf_of_bits_decode := sf_of_bits_decode F32 F32_ok.
Definition f64_sf_of_bits_decode := sf_of_bits_decode F64 F64_ok.
Definition f32_decompose_value := decompose_value F32 F32_ok.
Definition f64_decompose_value := decompose_value F64 F64_ok.
Definition f32_decompose_value_neg := decompose_value_neg F32 F32_ok.
Definition f64_decompose_value_neg := decompose_value_neg F64 F64_ok.
Definition f32_sign_flip_fields := sign_flip_fields F32 F32_ok.
Definition f64_sign_flip_fields := sign_flip_fields F64 F64_ok.
Definition f32_sf_of_bits_infinity := sf_of_bits_infinity F32 F32_ok.
Definition f64_sf_of_bits_infinity := sf_of_bits_infinity F64 F64_ok.
Definition f32_sf_of_bits_nan := sf_of_bits_nan F32 F32_ok.
Definition f64_sf_of_bits_nan := sf_of_bits_nan F64 F64_ok.
Example ex_decompose_value :
  let x := 0x3ff8000000000000 in
  0 <= x < 2 ^ (fbits F64 - 1) /\ is_finite_bits F64 x = true /\
  sf_of_bits F64 x = S754_finite false 0x18000000000000 (-52).
Proof. ex_tac. Qed.
Example ex_decompose_value_max :
  let x := 0x7fefffffffffffff in
  0 <= x < 2 ^ (fbits F64 - 1) /\ is_finite_bits F64 x = true /\
  dec_mant F64 x = 2 ^ 53 - 1 /\ dec_exp F64 x = 971 /\
  sf_of_bits F64 x = S754_finite false 0x1fffffffffffff 971.
Proof. ex_tac. Qed.
Example ex_decompose_value_neg :
  let x := 0xbff8000000000000 in        (* -1.5 *)
  2 ^ (fbits F64 - 1) <= x < 2 ^ fbits F64 /\ is_finite_bits F64 x = true /\
  sf_of_bits F64 x = S754_finite true 0x18000000000000 (-52).
Proof. ex_tac. Qed.
Example ex_decompose_value_zero_sub :
  sf_of_bits F64 0 = S754_zero false /\ sf_of_bits F64 1 = S754_finite false 1 (-1074) /\
  sf_of_bits F32 0x80000000 = S754_zero true /\ sf_of_bits F32 1 = S754_finite false 1 (-149).
Proof. ex_tac. Qed.
Example ex_special :
  sf_of_bits F64 0x7ff0000000000000 = S754_infinity false /\
  sf_of_bits F64 0xfff0000000000000 = S754_infinity true /\
  sf_of_bits F64 0x7ff0000000000001 = S754_nan /\
  is_nan_bits F64 0x7ff0000000000001 = true /\ is_nan_bits F64 0x7ff0000000000000 = false.
Proof. ex_tac. Qed.

(** 5 *)
Definition f32_bits_roundtrip := bits_roundtrip F32 F32_ok.
Definition f64_bits_roundtrip := bits_roundtrip F64 F64_ok.
Definition f32_bits_roundtrip_nan := bits_roundtrip_nan F32 F32_ok.
Definition f64_bits_roundtrip_nan := bits_roundtrip_nan F64 F64_ok.
Definition f32_sf_roundtrip := sf_roundtrip F32 F32_ok.
Definition f64_sf_roundtrip := sf_roundtrip F64 F64_ok.
Example ex_bits_roundtrip :
  let x := 0xbff8000000000000 in
  0 <= x < 2 ^ fbits F64 /\ is_nan_bits F64 x = false /\ bits_of_sf F64 (sf_of_bits F64 x) = x.
Proof. ex_tac. Qed.
(** a signalling NaN with a payload and the sign set comes back as the canonical quiet NaN *)
Example ex_bits_roundtrip_nan :
  let x := 0xfff0000000000001 in
  0 <= x < 2 ^ fbits F64 /\ is_nan_bits F64 x = true /\
  bits_of_sf F64 (sf_of_bits F64 x) = 0x7ff8000000000000 /\
  canonical_nan F64 = 0x7ff8000000000000 /\ canonical_nan F32 = 0x7fc00000.
Proof. ex_tac. Qed.
Example ex_sf_roundtrip :
  let s := S754_finite true 0x18000000000000 (-52) in
  valid_binary (prec F64) (emax F64) s = true /\ sf_of_bits F64 (bits_of_sf F64 s) = s.
Proof. ex_tac. Qed.
(** validity is needed: 3 * 2^-53 is 1.5 * 2^-52 but not in canonical form *)
Example ex_sf_roundtrip_needs_valid :
  let s := S754_finite false 3 (-53) in
  valid_binary (prec F64) (emax F64) s = false /\ sf_of_bits F64 (bits_of_sf F64 s) <> s.
Proof. ex_tac. Qed.

(** 6 *)
Definition f32_from_bits_spec := from_bits_spec F32.
Definition f64_from_bits_spec := from_bits_spec F64.
Theorem f32_from_bits_wide b u :
  2 ^ 32 <= u -> from_bits F32 b u = if dbg b then Panic PkAssert else Ok (u mod 2 ^ 32).
Proof. apply from_bits_wide. reflexivity. Qed.
Example ex_from_bits :
  from_bits F32 checked_build 0xffffffff = Ok 0xffffffff /\
  from_bits F32 checked_build 0x100000001 = Panic PkAssert /\
  from_bits F32 release_build 0x100000001 = Ok 1 /\
  from_bits F64 checked_build 0xffffffffffffffff = Ok 0xffffffffffffffff.
Proof. ex_tac. Qed.

(** 7 *)
Definition f32_pack_spec := pack_spec F32 F32_ok.
Definition f64_pack_spec := pack_spec F64 F64_ok.
Definition f32_pack_overlap_spec := pack_overlap_spec F32 F32_ok.
Definition f64_pack_overlap_spec := pack_overlap_spec F64 F64_ok.
Definition f32_pack_infinity := pack_infinity F32 F32_ok.
Definition f64_pack_infinity := pack_infinity F64 F64_ok.
Definition f32_fields_of_pack := fields_of_pack F32 F32_ok.
Definition f64_fields_of_pack := fields_of_pack F64 F64_ok.
Definition f32_sf_of_bits_pack := sf_of_bits_pack F32 F32_ok.
Definition f64_sf_of_bits_pack := sf_of_bits_pack F64 F64_ok.
Example ex_pack b :
  0 <= 1023 < 2 ^ ewidth F64 /\ 0 <= 0x8000000000000 < 2 ^ MANTISSA_SIZE F64 /\
  extended_to_float F64 b (mkExt 0x8000000000000 1023) = Ok 0x3ff8000000000000.
Proof.
  split; [ex_tac|]. split; [ex_tac|].
  rewrite (proj1 (f64_pack_spec b 1023 0x8000000000000 ltac:(ex_tac) ltac:(ex_tac))).
  reflexivity.
Qed.
(** the smallest normal, produced with the hidden bit still in `mant` *)
Example ex_pack_overlap b :
  extended_to_float F64 b (mkExt 0x10000000000000 1) = Ok 0x10000000000000.
Proof. exact (proj1 (f64_pack_overlap_spec b 0 ltac:(ex_tac))). Qed.
Example ex_pack_infinity b :
  extended_to_float F32 b (mkExt 0 (INFINITE_POWER F32)) = Ok 0x7f800000.
Proof. exact (proj1 (f32_pack_infinity b)). Qed.

(** 8 *)
Definition f32_float_b_spec := float_b_spec F32 F32_ok.
Definition f64_float_b_spec := float_b_spec F64 F64_ok.
Definition f32_float_bh_spec := float_bh_spec F32 F32_ok.
Definition f64_float_bh_spec := float_bh_spec F64 F64_ok.
Example ex_float_b_bh b :
  float_b F64 b 0x3ff8000000000000 = Ok (mkExt 0x18000000000000 (-52)) /\
  float_bh F64 b 0x3ff8000000000000 = Ok (mkExt 0x30000000000001 (-53)) /\
  float_bh F64 b 0 = Ok (mkExt 1 (-1075)) /\
  float_bh F64 b 0x7fefffffffffffff = Ok (mkExt (2 ^ 54 - 1) 970).
Proof. rewrite f64_float_b_spec, !f64_float_bh_spec. ex_tac. Qed.

Definition f32_float_helpers_ieee := float_helpers_ieee F32 F32_ok.
Definition f64_float_helpers_ieee := float_helpers_ieee F64 F64_ok.

(** 9 *)
Definition f32_bits_order := bits_order F32 F32_ok.
Definition f64_bits_order := bits_order F64 F64_ok.
Definition f32_sval_strict_mono := sval_strict_mono F32 F32_ok.
Definition f64_sval_strict_mono := sval_strict_mono F64 F64_ok.
Definition f32_finite_iff_below_infinity := finite_iff_below_infinity F32 F32_ok.
Definition f64_finite_iff_below_infinity := finite_iff_below_infinity F64 F64_ok.
Definition f32_sval_infinity := sval_infinity F32 F32_ok.
Definition f64_sval_infinity := sval_infinity F64 F64_ok.
(** largest subnormal < smallest normal < 1.5 (values in units of 2^-149) *)
Example ex_bits_order :
  sval F32 0x007fffff = 2 ^ 23 - 1 /\ sval F32 0x00800000 = 2 ^ 23 /\
  sval F32 0x3fc00000 = 3 * 2 ^ 148 /\ sval F32 0x7f7fffff = (2 ^ 24 - 1) * 2 ^ 253 /\
  sval F32 (EXPONENT_MASK F32) = 2 ^ 277.
Proof. ex_tac. Qed.

Print Assumptions f64_is_denormal_spec.
Print Assumptions f64_float_exponent_spec.
Print Assumptions f64_float_mantissa_spec.
Print Assumptions f64_sf_of_bits_decode.
Print Assumptions f64_decompose_value.
Print Assumptions f64_decompose_value_neg.
Print Assumptions f64_bits_roundtrip.
Print Assumptions f64_bits_roundtrip_nan.
Print Assumptions f64_sf_roundtrip.
Print Assumptions from_bits_spec.
Print Assumptions f32_from_bits_wide.
Print Assumptions f64_pack_spec.
Print Assumptions f64_pack_overlap_spec.
Print Assumptions f64_pack_infinity.
Print Assumptions f64_float_b_spec.
Print Assumptions f64_float_bh_spec.
Print Assumptions f64_bits_order.
Print Assumptions f64_finite_iff_below_infinity.
Print Assumptions f64_sval_infinity.
Print Assumptions f32_sf_roundtrip.
Print Assumptions f32_bits_order.
Print Assumptions f32_float_helpers_ieee.
Print Assumptions f64_float_helpers_ieee.
