(** * gen/SrcBigint.v = model/Bigint.v, first half of src/bigint.rs:
    scalar_add, scalar_mul, compare, normalize, is_normalized, from_u64, nonzero, u64_to_hi64_1/2,
    ReverseView::index, hi64, shl_bits, shl_limbs, shl, leading_zeros, bit_length.

    Every theorem [rs_<name>_eq] is stated for all build modes [b] (and all configurations [c],
    hence both vector back-ends through [alloc c]).  The only hypotheses are range facts:
    - [zlen l < 2 ^ 64]: a slice length is a usize (needed where the source computes
      `len.wrapping_sub(1)` / `len - index - 1`);
    - [0 <= x < 2 ^ 64] on the three u64 arguments of [scalar_mul] (the source casts them to u128);
    - [LIMB_BITS L = 64]: the generated code is the 64-bit-limb instantiation of the source (the
      constant is folded by the translator), the model keeps it as a parameter. *)
From Coq Require Import ZArith List Bool Lia Znumtheory.
From Coq Require Import ZifyBool.
From ML Require Import base.RustSem model.Fmt model.Vec model.Number model.SrcLib model.Bigint
  gen.Src gen.SrcBigint.
From ML Require Import proofs.SrcEqBase.
Import ListNotations.
Ltac Zify.zify_post_hook ::= Z.div_mod_to_equations.
Open Scope Z_scope.
Open Scope rust_scope.
Arguments Z.pow : simpl never.

(** ** scalar_add, scalar_mul *)
Theorem rs_scalar_add_eq : forall b x y, rs_scalar_add b x y = Ok (scalar_add x y).
Proof. reflexivity. Qed.

Example rs_scalar_add_example :
  rs_scalar_add checked_build (2 ^ 64 - 1) 2 = Ok (1, true).
Proof. vm_compute. reflexivity. Qed.

Lemma mul_add_u64_bound x y k :
  0 <= x < 2 ^ 64 -> 0 <= y < 2 ^ 64 -> 0 <= k < 2 ^ 64 ->
  0 <= x * y + k < 2 ^ 64 * 2 ^ 64.
Proof.
  intros Hx Hy Hk. set (B := 2 ^ 64) in *.
  assert (0 <= x * y) by (apply Z.mul_nonneg_nonneg; lia).
  assert (x * y <= (B - 1) * (B - 1)) by (apply Z.mul_le_mono_nonneg; lia).
  lia.
Qed.

(** without the range hypotheses the statement is false: the source casts its u64 arguments to
    u128, the model multiplies integers.
    [Eval vm_compute in (rs_scalar_mul release_build (2 ^ 128) 1 0, scalar_mul (2 ^ 128) 1 0).]
    gives [(Ok (0, 0), (0, 18446744073709551616))], and
    [Eval vm_compute in (rs_scalar_mul checked_build (-1) 1 0, scalar_mul (-1) 1 0).]
    gives [(Ok (18446744073709551615, 18446744073709551615), (18446744073709551615, -1))].
    Neither input is a u64, so this is not a difference a Rust caller can observe. *)
Theorem rs_scalar_mul_eq : forall b x y carry,
  0 <= x < 2 ^ 64 -> 0 <= y < 2 ^ 64 -> 0 <= carry < 2 ^ 64 ->
  rs_scalar_mul b x y carry = Ok (scalar_mul x y carry).
Proof.
  intros b x y k Hx Hy Hk.
  pose proof (mul_add_u64_bound x y k Hx Hy Hk) as Hz.
  pose proof (mul_add_u64_bound x y 0 Hx Hy ltac:(lia)) as Hz0.
  assert (E128 : 2 ^ 128 = 2 ^ 64 * 2 ^ 64) by reflexivity.
  unfold rs_scalar_mul, scalar_mul, u128_mul, u128_add, u128_shr, as_u128, as_u64, B64.
  rewrite !wrapu_small by lia.
  rewrite uop_ok by (apply in_u_n; lia). cbn [bind].
  rewrite uop_ok by (apply in_u_n; lia). cbn [bind].
  rewrite shr_u_ok by reflexivity. cbn [bind].
  unfold wrapu at 2. rewrite (Z.mod_small (_ / _)); [reflexivity|].
  split; [apply Z.div_pos; lia | apply Z.div_lt_upper_bound; lia].
Qed.

Example rs_scalar_mul_example :
  rs_scalar_mul checked_build (2 ^ 64 - 1) (2 ^ 64 - 1) (2 ^ 64 - 1) = Ok (0, 2 ^ 64 - 1).
Proof. vm_compute. reflexivity. Qed.

(** ** compare *)
Lemma rs_for_iter_cmp : forall p q,
  rs_for_iter (St := unit) (R := comparison) (combine p q)
    (fun _ '(v_xi, v_yi) =>
       let t2 := (Z.compare v_xi v_yi) in
       if (match t2 with Eq => true | _ => false end) then Ok (Next tt)
       else (let v_ord := t2 in Ok (Return v_ord))) tt
  = Ok (match cmp_be p q with Eq => inl (tt, []) | o => inr o end).
Proof.
  induction p as [|a p IH]; intros q; [reflexivity|].
  destruct q as [|c q]; [reflexivity|].
  cbn [combine rs_for_iter cmp_be]. cbv zeta.
  destruct (a ?= c); cbn [bind]; [apply IH | reflexivity | reflexivity].
Qed.

Theorem rs_compare_eq : forall b x y, rs_compare b x y = Ok (vcompare x y).
Proof.
  intros. unfold rs_compare, vcompare. cbv zeta.
  destruct (zlen x ?= zlen y); try reflexivity.
  unfold rs_for. rewrite rs_for_iter_cmp. cbn [bind].
  destruct (cmp_be (rev x) (rev y)); reflexivity.
Qed.

Example rs_compare_example :
  rs_compare checked_build [0; 2 ^ 64 - 1; 5] [7; 0; 5] = Ok Gt.
Proof. vm_compute. reflexivity. Qed.

(** ** the last element: `x.get(x.len().wrapping_sub(1))` *)
Definition last_opt (l : list Z) : option Z :=
  match rev l with [] => None | x :: _ => Some x end.

Lemma zlen_app {A} (l1 l2 : list A) : zlen (l1 ++ l2) = zlen l1 + zlen l2.
Proof. unfold zlen. rewrite app_length. lia. Qed.
Lemma zlen_nonneg {A} (l : list A) : 0 <= zlen l.
Proof. unfold zlen. lia. Qed.

Lemma last_opt_snoc l x : last_opt (l ++ [x]) = Some x.
Proof. unfold last_opt. rewrite rev_app_distr. reflexivity. Qed.

Lemma list_snoc_cases {A} (l : list A) : l = [] \/ exists l' x, l = l' ++ [x].
Proof.
  destruct l as [|a l]; [left; reflexivity|right].
  destruct (exists_last (l := a :: l)) as (l' & x & E); [discriminate|]. eauto.
Qed.

Lemma slice_get_opt_snoc l x : zlen (l ++ [x]) < 2 ^ 64 ->
  slice_get_opt (l ++ [x]) (usize_wrapping_sub (zlen (l ++ [x])) 1) = Some x.
Proof.
  intros H. pose proof (zlen_nonneg l). rewrite zlen_app in *. change (zlen [x]) with 1 in *.
  unfold usize_wrapping_sub. rewrite wrapu_small by lia.
  unfold slice_get_opt. rewrite zlen_app. change (zlen [x]) with 1.
  replace (zlen l + 1 - 1) with (zlen l) by lia.
  replace ((0 <=? zlen l) && (zlen l <? zlen l + 1)) with true by lia.
  unfold zlen. rewrite Nat2Z.id, app_nth2, Nat.sub_diag by lia. reflexivity.
Qed.

Lemma slice_get_opt_last l : zlen l < 2 ^ 64 ->
  slice_get_opt l (usize_wrapping_sub (zlen l) 1) = last_opt l.
Proof.
  intros H. destruct (list_snoc_cases l) as [-> | (l' & x & ->)].
  - reflexivity.
  - rewrite last_opt_snoc. apply slice_get_opt_snoc, H.
Qed.

(** ** normalize *)
Lemma normalize_list_snoc l x :
  normalize_list (l ++ [x]) = if x =? 0 then normalize_list l else l ++ [x].
Proof.
  unfold normalize_list. rewrite rev_app_distr. cbn [rev app strip_zeros].
  destruct (Z.eqb_spec x 0) as [-> | Hx]; [reflexivity|].
  destruct x; [lia | ..]; cbn [rev]; rewrite rev_involutive; reflexivity.
Qed.

Lemma firstn_snoc {A} (l : list A) x : firstn (length l) (l ++ [x]) = l.
Proof. rewrite firstn_app, Nat.sub_diag, firstn_all. cbn [firstn]. apply app_nil_r. Qed.

Definition normalize_body (b : build) (v_x : vec) : outcome (ctl vec Empty_set) :=
  match (slice_get_opt (vl v_x) (usize_wrapping_sub (vlen v_x) 1)) with
  | Some v_value =>
      if (v_value =? 0) then (
        t1 <- usize_sub b (vlen v_x) 1 ;;
        v_x <- vec_set_len v_x t1 ;;
        Ok (Next v_x)
      ) else Ok (Break v_x)
  | None => Ok (Break v_x)
  end.

Lemma rs_loop_normalize b cap : forall l fuel,
  zlen l < 2 ^ 64 -> (length l < fuel)%nat ->
  rs_loop (R := Empty_set) fuel (normalize_body b) (mkVec l cap)
  = Ok (inl (mkVec (normalize_list l) cap)).
Proof.
  induction l as [|x l IH] using rev_ind; intros fuel Hl Hf.
  - destruct fuel; [inversion Hf|]. reflexivity.
  - destruct fuel as [|fuel]; [inversion Hf|].
    rewrite app_length in Hf. cbn [length] in Hf.
    cbn [rs_loop]. unfold normalize_body at 1. unfold vlen. cbn [vl vcap].
    rewrite slice_get_opt_snoc by exact Hl.
    rewrite normalize_list_snoc.
    destruct (x =? 0); [|reflexivity].
    pose proof (zlen_nonneg l). rewrite zlen_app in *. change (zlen [x]) with 1 in *.
    unfold usize_sub. rewrite uop_ok by (apply in_u_n; lia). cbn [bind].
    unfold vec_set_len. cbn [vl vcap]. rewrite zlen_app. change (zlen [x]) with 1.
    replace ((0 <=? zlen l + 1 - 1) && (zlen l + 1 - 1 <=? zlen l + 1)) with true by lia.
    replace (zlen l + 1 - 1) with (zlen l) by lia.
    unfold zlen at 1. rewrite Nat2Z.id, firstn_snoc. cbn [bind].
    apply IH; lia.
Qed.

(** the hypothesis says that the length is a usize; beyond it `len.wrapping_sub(1)` is not the
    index of the last element (no concrete counterexample can be evaluated: it needs a list of
    2^64 elements) *)
Theorem rs_bigint_normalize_eq : forall b v, zlen (vl v) < 2 ^ 64 ->
  rs_bigint_normalize b v = Ok (vset_list v (normalize_list (vl v))).
Proof.
  intros b [l cap] H. unfold rs_bigint_normalize. cbn [vl] in *.
  change (rs_loop _ _ _) with
    (rs_loop (R := Empty_set) (S (length l)) (normalize_body b) (mkVec l cap)).
  rewrite rs_loop_normalize by (auto; lia). reflexivity.
Qed.

Example rs_bigint_normalize_example :
  rs_bigint_normalize checked_build (mkVec [0; 2 ^ 64 - 1; 5; 0; 0] 10)
  = Ok (mkVec [0; 2 ^ 64 - 1; 5] 10).
Proof. vm_compute. reflexivity. Qed.

(** ** is_normalized *)
Theorem rs_is_normalized_eq : forall b l, zlen l < 2 ^ 64 ->
  rs_is_normalized b l = Ok (is_normalized l).
Proof.
  intros b l H. unfold rs_is_normalized, is_normalized. cbv zeta.
  rewrite slice_get_opt_last by exact H. unfold last_opt.
  destruct (rev l) as [|[| |] r]; reflexivity.
Qed.

Example rs_is_normalized_example :
  rs_is_normalized checked_build [0; 5; 0] = Ok false /\ rs_is_normalized release_build [] = Ok true.
Proof. vm_compute. auto. Qed.

(** ** from_u64 *)
Theorem rs_from_u64_eq : forall c L b x, rs_from_u64 c L b x = from_u64 c L b x.
Proof.
  intros. unfold rs_from_u64, from_u64. cbv zeta.
  destruct (debug_assert b (2 <=? vcap (vnew L))); cbn [bind]; try reflexivity.
  destruct (try_push (alloc c) (vnew L) x) as [v1|] eqn:E; cbn [unwrap bind]; [|reflexivity].
  assert (Hl : vl v1 = [x]).
  { unfold try_push, vnew in E. cbn [vl vcap] in E.
    destruct (alloc c); [|destruct (_ <? _)]; inversion E; reflexivity. }
  rewrite rs_bigint_normalize_eq by (rewrite Hl; reflexivity).
  reflexivity.
Qed.

Example rs_from_u64_example :
  rs_from_u64 (mkConfig false false [] []) (mkLimits 4000 62 64) checked_build 7
  = Ok (mkVec [7] 62).
Proof. vm_compute. reflexivity. Qed.

(** ** nonzero *)
Lemma existsb_rev {A} (f : A -> bool) l : existsb f (rev l) = existsb f l.
Proof.
  induction l as [|a l IH]; [reflexivity|]. cbn [rev existsb].
  rewrite existsb_app, IH. cbn [existsb]. destruct (f a), (existsb f l); reflexivity.
Qed.

Lemma uop_nonneg b r a : uop b 64 r = Ok a -> 0 <= a.
Proof. intros H. apply uop_range in H; lia. Qed.

Theorem rs_nonzero_eq : forall b l rindex, rs_nonzero b l rindex = nonzero b l rindex.
Proof.
  intros. unfold rs_nonzero, nonzero. cbv zeta.
  destruct (debug_assert b (rindex <=? zlen l)); cbn [bind]; try reflexivity.
  destruct (usize_sub b (zlen l) rindex) as [k| |] eqn:E; cbn [bind]; try reflexivity.
  apply uop_nonneg in E. unfold slice_to.
  replace (0 <=? k) with true by lia. cbn [andb].
  replace (zlen l <? k) with (negb (k <=? zlen l)) by lia.
  destruct (k <=? zlen l); cbn [negb bind]; [|reflexivity].
  rewrite existsb_rev. reflexivity.
Qed.

Example rs_nonzero_example :
  rs_nonzero checked_build [0; 3; 2 ^ 64 - 1; 5] 2 = Ok true.
Proof. vm_compute. reflexivity. Qed.

(** ** u64_to_hi64_1, u64_to_hi64_2 *)
Theorem rs_u64_to_hi64_1_eq : forall b r0, rs_u64_to_hi64_1 b r0 = u64_to_hi64_1 b r0.
Proof. reflexivity. Qed.

Theorem rs_u64_to_hi64_2_eq : forall b r0 r1, rs_u64_to_hi64_2 b r0 r1 = u64_to_hi64_2 b r0 r1.
Proof. reflexivity. Qed.

Example rs_u64_to_hi64_2_example :
  rs_u64_to_hi64_2 checked_build 5 (2 ^ 64 - 1) = Ok (13835058055282163711, true).
Proof. vm_compute. reflexivity. Qed.

(** ** ReverseView::index : `self.inner[len - index - 1]` *)
Theorem rs_rview_index_eq : forall b l i, zlen l < 2 ^ 64 -> 0 <= i < zlen l ->
  rs_rview_index b l i = Ok (nth (Z.to_nat i) (rev l) 0).
Proof.
  intros b l i Hl Hi. unfold rs_rview_index. cbv zeta.
  unfold usize_sub. rewrite uop_ok by (apply in_u_n; lia). cbn [bind].
  rewrite uop_ok by (apply in_u_n; lia). cbn [bind].
  unfold slice_get, slice_get_opt.
  replace ((0 <=? zlen l - i - 1) && (zlen l - i - 1 <? zlen l)) with true by lia.
  cbn [bind]. f_equal. unfold zlen in *.
  rewrite rev_nth by lia. f_equal. lia.
Qed.

(** outside the view: `len - index - 1` overflows (panic with overflow checks), and without
    overflow checks the wrapped index is outside the slice *)
Theorem rs_rview_index_oob : forall b l i, zlen l < 2 ^ 64 -> zlen l <= i < 2 ^ 64 ->
  rs_rview_index b l i = Panic (if ovf b then PkOverflow else PkIndex).
Proof.
  intros b l i Hl Hi. pose proof (zlen_nonneg l) as H0.
  unfold rs_rview_index, usize_sub, uop, in_u, slice_get, slice_get_opt, wrapu. cbv zeta.
  destruct (Z.eq_dec (zlen l) i) as [E|E].
  - rewrite E, Z.sub_diag. change ((0 <=? 0) && (0 <? 2 ^ 64)) with true. cbn [bind].
    change ((0 <=? 0 - 1) && (0 - 1 <? 2 ^ 64)) with false. cbv iota.
    destruct (ovf b); cbn [bind]; [reflexivity|].
    replace ((0 <=? (0 - 1) mod 2 ^ 64) && ((0 - 1) mod 2 ^ 64 <? i)) with false by lia.
    reflexivity.
  - replace ((0 <=? zlen l - i) && (zlen l - i <? 2 ^ 64)) with false by lia.
    destruct (ovf b); cbn [bind]; [reflexivity|].
    assert (Em : (zlen l - i) mod 2 ^ 64 = 2 ^ 64 + zlen l - i).
    { symmetry. apply Z.mod_unique with (q := -1); lia. }
    rewrite Em.
    replace ((0 <=? 2 ^ 64 + zlen l - i - 1) && (2 ^ 64 + zlen l - i - 1 <? 2 ^ 64)) with true by lia.
    cbn [bind].
    replace ((0 <=? 2 ^ 64 + zlen l - i - 1) && (2 ^ 64 + zlen l - i - 1 <? zlen l)) with false by lia.
    reflexivity.
Qed.

Theorem rs_rview_eq : forall b (l : list Z), rs_rview b l = Ok l.
Proof. reflexivity. Qed.

Example rs_rview_index_example :
  rs_rview_index checked_build [1; 2; 3] 0 = Ok 3 /\ rs_rview_index release_build [1; 2; 3] 2 = Ok 1.
Proof. vm_compute. auto. Qed.

(** ** hi64 *)
Lemma zlen_rev {A} (l : list A) : zlen (rev l) = zlen l.
Proof. unfold zlen. rewrite rev_length. reflexivity. Qed.

Theorem rs_hi64_eq : forall b l, zlen l < 2 ^ 64 -> rs_hi64 b l = hi64 b l.
Proof.
  intros b l Hl. unfold rs_hi64, hi64, rs_rview. cbv zeta. cbn [bind].
  pose proof (rs_rview_index_eq b l 0 Hl) as I0.
  pose proof (rs_rview_index_eq b l 1 Hl) as I1.
  rewrite <- (zlen_rev l) in *.
  destruct (rev l) as [|r0 [|r1 [|r2 r]]].
  - reflexivity.
  - change (zlen [r0]) with 1 in *. cbn [Z.eqb].
    rewrite I0 by lia. cbn [bind nth Z.to_nat].
    rewrite rs_u64_to_hi64_1_eq. rewrite !bind_ret_r. reflexivity.
  - change (zlen [r0; r1]) with 2 in *. cbn [Z.eqb Pos.eqb].
    rewrite I0, I1 by lia. cbn [bind]. change (Z.to_nat 0) with 0%nat. change (Z.to_nat 1) with 1%nat.
    cbn [nth]. rewrite rs_u64_to_hi64_2_eq. rewrite !bind_ret_r. reflexivity.
  - set (rr := r0 :: r1 :: r2 :: r) in *.
    assert (H3 : 3 <= zlen rr).
    { unfold rr, zlen. cbn [length]. lia. }
    replace (zlen rr =? 0) with false by lia.
    replace (zlen rr =? 1) with false by lia.
    replace (zlen rr =? 2) with false by lia.
    rewrite I0, I1 by lia. cbn [bind]. change (Z.to_nat 0) with 0%nat. change (Z.to_nat 1) with 1%nat.
    unfold rr. cbn [nth]. rewrite rs_u64_to_hi64_2_eq. rewrite !bind_ret_r.
    destruct (u64_to_hi64_2 b r0 r1) as [[v n]| |]; cbn [bind]; try reflexivity.
    destruct n; cbn [bind]; [reflexivity|].
    rewrite rs_nonzero_eq. destruct (nonzero b l 2); reflexivity.
Qed.

Example rs_hi64_example :
  rs_hi64 checked_build [0; 2 ^ 64 - 1; 5] = Ok (13835058055282163711, true).
Proof. vm_compute. reflexivity. Qed.

(** ** leading_zeros, bit_length *)
Theorem rs_leading_zeros_eq : forall b l, zlen l < 2 ^ 64 ->
  rs_leading_zeros b l = Ok (leading_zeros l).
Proof.
  intros b l H. unfold rs_leading_zeros, leading_zeros. cbv zeta.
  rewrite slice_get_opt_last by exact H. unfold last_opt.
  destruct (rev l); reflexivity.
Qed.

(** [LIMB_BITS L = 64]: the translated source is the 64-bit-limb instantiation.  With another
    value the statement is false:
    [Eval vm_compute in (rs_bit_length release_build [1], bit_length (mkLimits 4000 125 32) release_build [1]).]
    gives [(Ok 1, Ok 4294967265)]. *)
Theorem rs_bit_length_eq : forall L b l, LIMB_BITS L = 64 -> zlen l < 2 ^ 64 ->
  rs_bit_length b l = bit_length L b l.
Proof.
  intros L b l HL H. unfold rs_bit_length, bit_length. cbv zeta.
  rewrite rs_leading_zeros_eq by exact H. rewrite HL. cbn [bind].
  unfold u32_mul, u32_sub. apply bind_ext2; [reflexivity | intros; apply bind_ret_r].
Qed.

Example rs_bit_length_example :
  rs_bit_length checked_build [0; 2 ^ 64 - 1; 5] = Ok 131.
Proof. vm_compute. reflexivity. Qed.

(** ** shl_bits *)
(** a 64-bit shift by [k] succeeds iff [k] is in 0..63 or overflow checks are off; it then shifts
    by [eff k] *)
Definition shift_ok (b : build) (k : Z) : bool := ((0 <=? k) && (k <? 64)) || negb (ovf b).

Lemma u64_shl_eff b x k :
  u64_shl b x k = if shift_ok b k then Ok ((x * 2 ^ eff k) mod B64) else Panic PkOverflow.
Proof.
  unfold u64_shl, shl_u, shift_ok, eff, wrapu, B64.
  destruct ((0 <=? k) && (k <? 64)); cbn [orb]; [reflexivity|].
  destruct (ovf b); reflexivity.
Qed.
Lemma u64_shr_eff b x k :
  u64_shr b x k = if shift_ok b k then Ok (x / 2 ^ eff k) else Panic PkOverflow.
Proof.
  unfold u64_shr, shr_u, shift_ok, eff.
  destruct ((0 <=? k) && (k <? 64)); cbn [orb]; [reflexivity|].
  destruct (ovf b); reflexivity.
Qed.

Definition shl_bits_body (b : build) (v_lshift v_rshift : Z) (v_prev v_xi : Z) : outcome (Z * Z) :=
  let v_tmp := v_xi in
  t2 <- u64_shl b v_xi v_lshift ;;
  let v_xi := t2 in
  t3 <- u64_shr b v_prev v_rshift ;;
  let v_xi := (Z.lor v_xi t3) in
  let v_prev := v_tmp in
  Ok (v_prev, v_xi).

Lemma rs_for_mut_shl_bits b n r : shift_ok b n = true -> shift_ok b r = true ->
  forall l prev,
  rs_for_mut l (shl_bits_body b n r) prev
  = Ok (let '(l', p) := shl_bits_loop l (eff n) (eff r) prev in (p, l')).
Proof.
  intros Hn Hr. induction l as [|x l IH]; intros prev; [reflexivity|].
  cbn [rs_for_mut shl_bits_loop]. unfold shl_bits_body at 1. cbv zeta.
  rewrite u64_shl_eff, u64_shr_eff, Hn, Hr. cbn [bind].
  rewrite IH. destruct (shl_bits_loop l (eff n) (eff r) x) as [l' p]. reflexivity.
Qed.

Lemma rs_for_mut_shl_bits_guard b n r l prev :
  rs_for_mut l (shl_bits_body b n r) prev
  = (if negb (zlen l =? 0) then u64_shl b 0 n ;;; u64_shr b 0 r ;;; Ok tt else Ok tt) ;;;
    Ok (let '(l', p) := shl_bits_loop l (eff n) (eff r) prev in (p, l')).
Proof.
  destruct l as [|x l]; [reflexivity|].
  replace (negb (zlen (x :: l) =? 0)) with true
    by (unfold zlen; cbn [length]; lia).
  destruct (shift_ok b n) eqn:Hn; [destruct (shift_ok b r) eqn:Hr|].
  - rewrite rs_for_mut_shl_bits by assumption.
    rewrite u64_shl_eff, u64_shr_eff, Hn, Hr. reflexivity.
  - cbn [rs_for_mut]. unfold shl_bits_body at 1. cbv zeta.
    rewrite !u64_shl_eff, !u64_shr_eff, Hn, Hr. reflexivity.
  - cbn [rs_for_mut]. unfold shl_bits_body at 1. cbv zeta.
    rewrite !u64_shl_eff, Hn. reflexivity.
Qed.

Lemma option_eta {A} (o : option A) :
  match o with None => Ok None | Some x => Ok (Some x) end = Ok o.
Proof. destruct o; reflexivity. Qed.

(** No hypothesis on [n] or on the limbs: the two sides agree also where the shift amounts are
    out of range (same panic with overflow checks, same masked shifts without).
    [LIMB_BITS L = 64] is needed: with [L32 := mkLimits 4000 125 32],
    [Eval vm_compute in (rs_shl_bits c0 checked_build (mkVec [1] 10) 40, shl_bits c0 L32 checked_build (mkVec [1] 10) 40).]
    gives [(Ok (Some {| vl := [1099511627776]; vcap := 10 |}), Panic PkAssert)]. *)
Theorem rs_shl_bits_eq : forall c L b v n, LIMB_BITS L = 64 ->
  rs_shl_bits c b v n = shl_bits c L b v n.
Proof.
  intros c L b v n HL. unfold rs_shl_bits, shl_bits. cbv zeta. rewrite HL.
  destruct (debug_assert b (negb (n =? 0))); cbn [bind]; try reflexivity.
  destruct (debug_assert b (n <? 64)); cbn [bind]; try reflexivity.
  destruct (usize_sub b 64 n) as [r| |]; cbn [bind]; try reflexivity.
  change (rs_for_mut (vl v) _ 0) with (rs_for_mut (vl v) (shl_bits_body b n r) 0).
  rewrite rs_for_mut_shl_bits_guard. unfold vlen.
  destruct (if negb (zlen (vl v) =? 0) then _ else _); cbn [bind]; try reflexivity.
  destruct (shl_bits_loop (vl v) (eff n) (eff r) 0) as [l' p].
  destruct (u64_shr b p r) as [carry| |]; cbn [bind]; try reflexivity.
  destruct (negb (carry =? 0)); [apply option_eta | reflexivity].
Qed.

Example rs_shl_bits_example :
  rs_shl_bits (mkConfig false false [] []) checked_build (mkVec [0; 2 ^ 64 - 1; 5] 10) 3
  = Ok (Some (mkVec [0; 2 ^ 64 - 8; 47] 10)).
Proof. vm_compute. reflexivity. Qed.

(** ** shl_limbs (given in model/SrcLib.v, same text as the model) *)
Theorem rs_shl_limbs_eq : forall b v n, rs_shl_limbs b v n = shl_limbs b v n.
Proof. reflexivity. Qed.

(** ** shl *)
Lemma bind_option_eta {A} (m : outcome (option A)) :
  bind m (fun o => match o with None => Ok None | Some x => Ok (Some x) end) = m.
Proof. destruct m as [[?|]| |]; reflexivity. Qed.

Theorem rs_shl_eq : forall c L b v n, LIMB_BITS L = 64 ->
  rs_shl c b v n = shl c L b v n.
Proof.
  intros c L b v n HL. unfold rs_shl, shl, obind. cbv zeta. rewrite HL.
  unfold usize_rem, usize_div. change (64 =? 0) with false. cbn [bind].
  destruct (negb (n mod 64 =? 0)).
  - rewrite (rs_shl_bits_eq c L) by exact HL.
    apply bind_ext2; [reflexivity|]. intros [v1|]; [|reflexivity].
    destruct (negb (n / 64 =? 0)); [|reflexivity].
    rewrite rs_shl_limbs_eq. apply bind_option_eta.
  - cbn [bind]. destruct (negb (n / 64 =? 0)); [|reflexivity].
    rewrite rs_shl_limbs_eq. apply bind_option_eta.
Qed.

Example rs_shl_example :
  rs_shl (mkConfig false false [] []) checked_build (mkVec [1; 2 ^ 64 - 1] 10) 131
  = Ok (Some (mkVec [0; 0; 8; 2 ^ 64 - 8; 7] 10)).
Proof. vm_compute. reflexivity. Qed.

Print Assumptions rs_scalar_add_eq.
Print Assumptions rs_scalar_mul_eq.
Print Assumptions rs_compare_eq.
Print Assumptions rs_bigint_normalize_eq.
Print Assumptions rs_is_normalized_eq.
Print Assumptions rs_from_u64_eq.
Print Assumptions rs_nonzero_eq.
Print Assumptions rs_u64_to_hi64_1_eq.
Print Assumptions rs_u64_to_hi64_2_eq.
Print Assumptions rs_rview_index_eq.
Print Assumptions rs_rview_index_oob.
Print Assumptions rs_hi64_eq.
Print Assumptions rs_leading_zeros_eq.
Print Assumptions rs_bit_length_eq.
Print Assumptions rs_shl_bits_eq.
Print Assumptions rs_shl_limbs_eq.
Print Assumptions rs_shl_eq.
