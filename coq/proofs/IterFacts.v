(** * IterFacts (C16): the result of the iterator-level model (model/Iter.v) depends only on the
    byte sequences that the two iterators denote. *)
From Coq Require Import ZArith List Bool Lia.
From ML Require Import base.RustSem model.Fmt model.Num model.Number model.Parse model.Lemire
  model.Bellerophon model.Vec model.Bigint model.Slow model.Top model.Iter.
Import ListNotations.
Open Scope Z_scope.

(** ** Outcomes related component-wise *)
Definition orel {A B} (R : A -> B -> Prop) (x : outcome A) (y : outcome B) : Prop :=
  match x, y with
  | Ok a, Ok b => R a b
  | Panic k, Panic k' => k = k'
  | UB k, UB k' => k = k'
  | _, _ => False
  end.

Lemma orel_bind {A B A' B'} (R : A -> B -> Prop) (Q : A' -> B' -> Prop) x y f g :
  orel R x y -> (forall a b, R a b -> orel Q (f a) (g b)) -> orel Q (bind x f) (bind y g).
Proof.
  destruct x, y; cbn; intros H HF; try contradiction; auto.
Qed.

Lemma orel_eq {A} (x y : outcome A) : orel eq x y <-> x = y.
Proof.
  destruct x, y; cbn; split; intros H; try congruence; try contradiction; try discriminate.
Qed.

Lemma orel_refl {A} (x : outcome A) : orel eq x x.
Proof. apply orel_eq; reflexivity. Qed.

(** ** What a cursor state denotes *)
Section Denote.
Variable St : Type.
Variable next : St -> option Z * St.

(** [denotes_gen P s l]: starting from [s], `next()` yields exactly the bytes [l] and then `None`,
    and the state after that first `None` satisfies [P] *)
Inductive denotes_gen (P : St -> Prop) : St -> list Z -> Prop :=
| den_nil s s' : next s = (None, s') -> P s' -> denotes_gen P s []
| den_cons s x s' l : next s = (Some x, s') -> denotes_gen P s' l -> denotes_gen P s (x :: l).

(** no assumption on what happens after the first `None` (plain `Iterator`) *)
Definition denotes : St -> list Z -> Prop := denotes_gen (fun _ => True).

(** the [n]+1-st call of `next()` from state [s] *)
Fixpoint nth_next (n : nat) (s : St) : option Z :=
  match n with
  | O => fst (next s)
  | S k => nth_next k (snd (next s))
  end.

(** every further call returns `None` *)
Definition exhausted (s : St) : Prop := forall n, nth_next n s = None.

(** `None` for ever after the first `None` (this state behaves like a `FusedIterator`) *)
Definition denotes_fused : St -> list Z -> Prop := denotes_gen exhausted.

(** the iterator *type* is fused: whenever `next()` returns `None`, the next call does too *)
Definition fused_cursor : Prop := forall s s', next s = (None, s') -> fst (next s') = None.

Lemma exhausted_step s : exhausted s -> exists s', next s = (None, s') /\ exhausted s'.
Proof.
  intros H. destruct (next s) as [o s'] eqn:E. exists s'. split.
  - generalize (H O). cbn. rewrite E. cbn. intros ->. reflexivity.
  - intros n. generalize (H (S n)). cbn. rewrite E. cbn. auto.
Qed.

Lemma exhausted_denotes_nil s : exhausted s -> denotes_fused s [].
Proof.
  intros H. destruct (exhausted_step s H) as (s' & E & H'). econstructor; eauto.
Qed.

Lemma fused_cursor_exhausted : fused_cursor -> forall s s', next s = (None, s') -> exhausted s'.
Proof.
  intros HF s s' E n. revert s s' E. induction n as [|n IH]; intros s s' E; cbn.
  - eapply HF; eauto.
  - destruct (next s') as [o s''] eqn:E'. cbn.
    assert (o = None) by (generalize (HF s s' E); rewrite E'; auto). subst o.
    eapply IH; eauto.
Qed.

Lemma denotes_gen_mono (P Q : St -> Prop) s l :
  (forall t, P t -> Q t) -> denotes_gen P s l -> denotes_gen Q s l.
Proof.
  intros HPQ H. induction H; econstructor; eauto.
Qed.

Lemma denotes_fused_denotes s l : denotes_fused s l -> denotes s l.
Proof. apply denotes_gen_mono; auto. Qed.

Lemma fused_cursor_denotes : fused_cursor -> forall s l, denotes s l -> denotes_fused s l.
Proof.
  intros HF s l H. induction H; econstructor; eauto. eapply fused_cursor_exhausted; eauto.
Qed.

(** the denoted sequence is unique *)
Lemma denotes_gen_fun (P Q : St -> Prop) s l l' :
  denotes_gen P s l -> denotes_gen Q s l' -> l = l'.
Proof.
  intros H. revert l'. induction H; intros l' H'; inversion H'; subst; try congruence.
  assert (x = x0 /\ s' = s'0) as [-> ->] by (split; congruence).
  f_equal; auto.
Qed.

(** *** the single-cursor loops *)
Section Loops.
Variable P : St -> Prop.
Variable c : config.
Variable b : build.

Lemma it_pnf_loop_eq s l : denotes_gen P s l ->
  forall fuel m cnt, (length l < fuel)%nat ->
  it_pnf_loop next b fuel s m cnt = pnf_loop b l m cnt.
Proof.
  induction 1 as [s s' E HP | s x s' l E H IH]; intros fuel m cnt Hf;
    (destruct fuel as [|k]; [cbn in Hf; lia|]); cbn [it_pnf_loop pnf_loop]; rewrite E.
  - reflexivity.
  - destruct (u8_sub b x 48); cbn [bind]; auto. apply IH. cbn in Hf. lia.
Qed.

Lemma it_count_eq s l : denotes_gen P s l ->
  forall fuel acc, (length l < fuel)%nat -> it_count next fuel s acc = Ok (acc + zlen l).
Proof.
  induction 1 as [s s' E HP | s x s' l E H IH]; intros fuel acc Hf;
    (destruct fuel as [|k]; [cbn in Hf; lia|]); cbn [it_count]; rewrite E.
  - f_equal. unfold zlen. cbn. lia.
  - rewrite IH by (cbn in Hf; lia). f_equal. unfold zlen. cbn [length]. lia.
Qed.

Lemma it_pn_int_eq s l : denotes_gen P s l ->
  forall fuel m count, (length l < fuel)%nat ->
  it_pn_int next b fuel s m count = pn_int b l m count.
Proof.
  induction 1 as [s s' E HP | s x s' l E H IH]; intros fuel m count Hf;
    (destruct fuel as [|k]; [cbn in Hf; lia|]); cbn [it_pn_int pn_int]; rewrite E.
  - reflexivity.
  - cbn zeta. destruct (count + 1 =? 20).
    + rewrite (it_count_eq s' l H) by (cbn in Hf; lia). cbn [bind]. rewrite Z.add_0_l. reflexivity.
    + destruct (push_digit b m x); cbn [bind]; auto. apply IH. cbn in Hf. lia.
Qed.

Lemma it_pn_frac_eq s l : denotes_gen P s l ->
  forall fuel m count fc, (length l < fuel)%nat ->
  it_pn_frac next b fuel s m count fc = pn_frac b l m count fc.
Proof.
  induction 1 as [s s' E HP | s x s' l E H IH]; intros fuel m count fc Hf;
    (destruct fuel as [|k]; [cbn in Hf; lia|]); cbn [it_pn_frac pn_frac]; rewrite E.
  - reflexivity.
  - cbn zeta. destruct (count + 1 =? 20); auto.
    destruct (push_digit b m x); cbn [bind]; auto. apply IH. cbn in Hf. lia.
Qed.

Lemma it_pm_round_up_eq s l : denotes_gen P s l ->
  forall fuel st, (length l < fuel)%nat ->
  it_pm_round_up next c fuel s st = pm_round_up c l st.
Proof.
  induction 1 as [s s' E HP | s x s' l E H IH]; intros fuel st Hf;
    (destruct fuel as [|k]; [cbn in Hf; lia|]); cbn [it_pm_round_up pm_round_up]; rewrite E.
  - reflexivity.
  - destruct (negb (x =? 48)); auto. apply IH. cbn in Hf. lia.
Qed.

(** where a zero-skipping loop (`for &c in &mut fraction { .. break }`) leaves the iterator:
    either in a state that denotes the remaining bytes [r], or - when all of [l] was '0' and the
    loop ended on `None` - in the state after that `None`, of which only [P] is known *)
Definition skip_post (l : list Z) (s' : St) (r : list Z) : Prop :=
  (length r <= length l)%nat /\
  (denotes_gen P s' r \/ (r = [] /\ P s' /\ Forall (fun x => x = 48) l)).

Lemma it_pn_skip_rel s l : denotes_gen P s l ->
  forall fuel m fc, (length l < fuel)%nat ->
  orel (fun x y => let '(m1, c1, f1, r) := x in let '(m1', c1', f1', s') := y in
                   m1 = m1' /\ c1 = c1' /\ f1 = f1' /\ skip_post l s' r)
       (pn_skip b l m fc) (it_pn_skip next b fuel s m fc).
Proof.
  induction 1 as [s s' E HP | s x s' l E H IH]; intros fuel m fc Hf;
    (destruct fuel as [|k]; [cbn in Hf; lia|]); cbn [it_pn_skip pn_skip]; rewrite E.
  - cbn. unfold skip_post; refine (conj eq_refl (conj eq_refl (conj eq_refl (conj _ _)))); [cbn; lia|]. right; auto.
  - destruct (negb (x =? 48)) eqn:Ex.
    + destruct (push_digit b m x); cbn; auto.
      unfold skip_post; refine (conj eq_refl (conj eq_refl (conj eq_refl (conj _ _)))); [cbn; lia|]. left; exact H.
    + specialize (IH k m (fc + 1)).
      destruct (pn_skip b l m (fc + 1)) as [[[[m1 c1] f1] r]| |],
               (it_pn_skip next b k s' m (fc + 1)) as [[[[m1' c1'] f1'] s'']| |]; cbn in *;
        try (apply IH; lia).
      destruct IH as (-> & -> & -> & Hlen & Hp); [lia|].
      unfold skip_post; refine (conj eq_refl (conj eq_refl (conj eq_refl (conj _ _)))); [cbn; lia|].
      destruct Hp as [Hp | (-> & Hp & Hall)]; [left; auto | right; repeat split; auto].
      constructor; auto. apply negb_false_iff in Ex. apply Z.eqb_eq in Ex. exact Ex.
Qed.

Lemma it_pm_skip_rel s l : denotes_gen P s l ->
  forall fuel st, (length l < fuel)%nat ->
  orel (fun x y => fst x = fst y /\ skip_post l (snd y) (snd x))
       (pm_skip b l st) (it_pm_skip next b fuel s st).
Proof.
  induction 1 as [s s' E HP | s x s' l E H IH]; intros fuel st Hf;
    (destruct fuel as [|k]; [cbn in Hf; lia|]); cbn [it_pm_skip pm_skip]; rewrite E.
  - cbn. unfold skip_post; refine (conj eq_refl (conj _ _)); [cbn; lia|]. right; auto.
  - destruct (negb (x =? 48)) eqn:Ex.
    + destruct (pm_add_digit b x st); cbn; auto.
      unfold skip_post; refine (conj eq_refl (conj _ _)); [cbn; lia|]. left; exact H.
    + specialize (IH k st).
      destruct (pm_skip b l st) as [[st1 r]| |],
               (it_pm_skip next b k s' st) as [[st1' s'']| |]; cbn in *;
        try (apply IH; lia).
      destruct IH as (-> & Hlen & Hp); [lia|].
      unfold skip_post; refine (conj eq_refl (conj _ _)); [cbn; lia|].
      destruct Hp as [Hp | (-> & Hp & Hall)]; [left; auto | right; repeat split; auto].
      constructor; auto. apply negb_false_iff in Ex. apply Z.eqb_eq in Ex. exact Ex.
Qed.

End Loops.
End Denote.

Arguments denotes_gen {St} next P s l.
Arguments denotes {St} next s l.
Arguments denotes_fused {St} next s l.
Arguments exhausted {St} next s.
Arguments fused_cursor {St} next.
Arguments nth_next {St} next n s.
Arguments skip_post {St} next P l s' r.

Lemma orel_mono {A B} (R R' : A -> B -> Prop) x y :
  (forall a b, R a b -> R' a b) -> orel R x y -> orel R' x y.
Proof. destruct x, y; cbn; auto. Qed.

(** ** Facts on the list model: `count == 0` after the integer pass iff there was no integer digit *)
Lemma pn_int_count b l : forall m cnt m' cnt',
  pn_int b l m cnt = Ok (inl (m', cnt')) -> cnt' = cnt + zlen l.
Proof.
  induction l as [|x l IH]; intros m cnt m' cnt' H; cbn [pn_int] in H.
  - inversion H; subst. unfold zlen; cbn; lia.
  - cbn zeta in H. destruct (cnt + 1 =? 20); [discriminate|].
    destruct (push_digit b m x); cbn [bind] in H; try discriminate.
    apply IH in H. subst. unfold zlen. cbn [length]. lia.
Qed.

Lemma pm_settle_count c maxd st st1 :
  pm_settle c maxd st = Ok (PmRead st1) -> pm_count st1 = pm_count st.
Proof.
  unfold pm_settle, pm_flush_max. intros H.
  destruct ((pm_counter st <? pm_step) && (pm_count st <? maxd)); [inversion H; reflexivity|].
  destruct (pm_count st =? maxd); [discriminate|].
  destruct (pm_mul_add c (pm_result st) pm_max_native (pm_value st)); cbn [bind] in H; try discriminate.
  cbn [pm_count] in H. destruct (pm_count st <? maxd); inversion H; reflexivity.
Qed.

Lemma pm_add_digit_count b ch st st' :
  pm_add_digit b ch st = Ok st' -> pm_count st' = pm_count st + 1.
Proof.
  unfold pm_add_digit. intros H.
  destruct (u8_sub b ch 48); cbn [bind] in H; try discriminate.
  destruct (u64_mul b (pm_value st) 10); cbn [bind] in H; try discriminate.
  destruct (u64_add b a0 a); cbn [bind] in H; try discriminate.
  inversion H; reflexivity.
Qed.

Lemma pm_int_count c T b maxd fr l : forall st st',
  pm_int c T b maxd l fr st = Ok (inl st') -> pm_count st' = pm_count st + zlen l.
Proof.
  induction l as [|x l IH]; intros st st' H; cbn [pm_int] in H;
    destruct (pm_settle c maxd st) as [[st1|st1|]| |] eqn:Es; cbn [bind] in H; try discriminate.
  - inversion H; subst. apply pm_settle_count in Es. unfold zlen; cbn; lia.
  - destruct (pm_flush_end c T b st1); cbn [bind] in H; try discriminate.
    destruct (pm_round_up c [] a) as [[st3 hit]| |]; cbn [bind] in H; try discriminate.
    destruct hit; try discriminate.
    destruct (pm_round_up c fr st3) as [[st4 hit]| |]; cbn [bind] in H; discriminate.
  - destruct (pm_add_digit b x st1) eqn:Ea; cbn [bind] in H; try discriminate.
    apply IH in H. apply pm_add_digit_count in Ea. apply pm_settle_count in Es.
    unfold zlen in *. cbn [length]. lia.
  - destruct (pm_flush_end c T b st1); cbn [bind] in H; try discriminate.
    destruct (pm_round_up c (x :: l) a) as [[st3 hit]| |]; cbn [bind] in H; try discriminate.
    destruct hit; try discriminate.
    destruct (pm_round_up c fr st3) as [[st4 hit]| |]; cbn [bind] in H; discriminate.
Qed.

(** `Clone::clone` is well behaved: the clone denotes what the original denotes *)
Definition clone_ok {St} (next : St -> option Z * St) (P : St -> Prop) (cl : St -> St) : Prop :=
  forall s l, denotes_gen next P s l -> denotes_gen next P (cl s) l.

Lemma clone_ok_id {St} (next : St -> option Z * St) P : clone_ok next P (fun s => s).
Proof. intros s l H; exact H. Qed.

(** the list model of `parse_number`, split after the fast pass *)
Definition parse_number_rest (b : build) (i fr : list Z) (e : Z) : outcome number :=
  ri <- pn_int b i 0 0 ;;
  match ri with
  | inr (m, n) => Ok (mkNumber (i32_saturating_add e (into_i32 n)) m true)
  | inl (m, count) =>
      '(m1, count1, fc1, fr1) <-
         (if count =? 0 then pn_skip b fr m 0 else Ok (m, count, 0, fr)) ;;
      rf <- pn_frac b fr1 m1 count1 fc1 ;;
      match rf with
      | inr (m2, fc) =>
          t <- i32_sub b (as_i32 fc) 1 ;;
          Ok (mkNumber (i32_saturating_sub e t) m2 true)
      | inl (m2, fc) => Ok (mkNumber (i32_saturating_sub e (as_i32 fc)) m2 false)
      end
  end.

Lemma parse_number_split b i fr e :
  parse_number b i fr e =
  (fast <- parse_number_fast b i fr e ;;
   match fast with Some n => Ok n | None => parse_number_rest b i fr e end).
Proof. reflexivity. Qed.

(** ** The functions generic in two iterators *)
Section Two.
Variable St1 St2 : Type.
Variable next1 : St1 -> option Z * St1.
Variable next2 : St2 -> option Z * St2.
Variable P1 : St1 -> Prop.
Variable P2 : St2 -> Prop.
Variable c : config.
Variable T : tables.
Variable BT : btables.
Variable L : limits.
Variable f : format.
Variable b : build.

(** inputs on which neither zero-skipping loop can run into the end of the fraction: there is an
    integer digit (the loops are not entered) or the fraction has a byte other than '0' (the loop
    breaks there) *)
Definition safe_input (i fr : list Z) : Prop := i <> [] \/ Exists (fun x => x <> 48) fr.

(** what is known of a fraction-iterator state reached after a `None` is enough to know that the
    next call gives `None` again, and so on *)
Definition after_none_ok : Prop := forall s, P2 s -> denotes_gen next2 P2 s [].

Lemma skip_resolve fr s' r :
  after_none_ok \/ Exists (fun x => x <> 48) fr ->
  skip_post next2 P2 fr s' r -> denotes_gen next2 P2 s' r.
Proof.
  intros Hs [_ [H | (-> & HP & Hall)]]; auto.
  destruct Hs as [Hs | Hs]; [apply Hs; exact HP|].
  exfalso. apply Exists_exists in Hs. destruct Hs as (x & Hin & Hx).
  rewrite Forall_forall in Hall. apply Hx, Hall, Hin.
Qed.

Section Fixed.
Variable fuel : nat.
Variable s1 : St1.
Variable s2 : St2.
Variable i fr : list Z.
Hypothesis Hsafe : after_none_ok \/ safe_input i fr.
Hypothesis D1 : denotes_gen next1 P1 s1 i.
Hypothesis D2 : denotes_gen next2 P2 s2 fr.
Hypothesis F1 : (length i < fuel)%nat.
Hypothesis F2 : (length fr < fuel)%nat.

Lemma it_parse_number_fast_eq e :
  it_parse_number_fast next1 next2 b fuel s1 s2 e = parse_number_fast b i fr e.
Proof.
  unfold it_parse_number_fast, parse_number_fast.
  rewrite (it_pnf_loop_eq _ _ _ _ _ _ D1) by exact F1.
  destruct (pnf_loop b i 0 0) as [[m1 ic]| |]; cbn [bind]; auto.
  rewrite (it_pnf_loop_eq _ _ _ _ _ _ D2) by exact F2. reflexivity.
Qed.

Lemma it_parse_number_rest_eq e :
  it_parse_number_rest next1 next2 b fuel s1 s2 e = parse_number_rest b i fr e.
Proof.
  unfold it_parse_number_rest, parse_number_rest.
  rewrite (it_pn_int_eq _ _ _ _ _ _ D1) by exact F1.
  destruct (pn_int b i 0 0) as [[[m count]|[m n]]| |] eqn:Ei; cbn [bind]; auto.
  symmetry. apply orel_eq.
  eapply orel_bind with
    (R := fun x y => let '(m1, c1, f1, r) := x in let '(m1', c1', f1', s') := y in
                     m1 = m1' /\ c1 = c1' /\ f1 = f1' /\
                     (length r <= length fr)%nat /\ denotes_gen next2 P2 s' r).
  - destruct (count =? 0) eqn:Ec.
    + eapply orel_mono; [|apply (it_pn_skip_rel _ _ _ _ _ _ D2); exact F2].
      intros [[[m1 c1] f1] r] [[[m1' c1'] f1'] s'] (-> & -> & -> & Hp).
      refine (conj eq_refl (conj eq_refl (conj eq_refl (conj (proj1 Hp) _)))).
      eapply skip_resolve; [|exact Hp].
      destruct Hsafe as [H | [H | H]]; auto.
      exfalso. apply pn_int_count in Ei. apply Z.eqb_eq in Ec.
      destruct i; [congruence|]. unfold zlen in Ei. cbn [length] in Ei. lia.
    + cbn. auto.
  - intros [[[m1 c1] f1] r] [[[m1' c1'] f1'] s'] (-> & -> & -> & Hlen & Hden).
    rewrite (it_pn_frac_eq _ _ _ _ _ _ Hden) by lia. apply orel_refl.
Qed.

Lemma it_pm_int_eq maxd : forall s l, denotes_gen next1 P1 s l ->
  forall k st, (length l < k)%nat -> (length l < fuel)%nat ->
  it_pm_int next1 next2 c T b fuel k maxd s s2 st = pm_int c T b maxd l fr st.
Proof.
  induction 1 as [s s' E HP | s x s' l E H IH]; intros k st Hk Hf;
    (destruct k as [|k]; [cbn in Hk; lia|]); cbn [it_pm_int pm_int];
    destruct (pm_settle c maxd st) as [[st1|st1|]| |]; cbn [bind]; auto.
  - rewrite E. reflexivity.
  - destruct (pm_flush_end c T b st1); cbn [bind]; auto.
    rewrite (it_pm_round_up_eq _ _ P1 c s [] (den_nil _ _ _ _ _ E HP)) by exact Hf.
    destruct (pm_round_up c [] a) as [[st3 hit]| |]; cbn [bind]; auto.
    destruct hit; auto.
    rewrite (it_pm_round_up_eq _ _ P2 c s2 fr D2) by exact F2. reflexivity.
  - rewrite E. destruct (pm_add_digit b x st1); cbn [bind]; auto.
    apply IH; cbn in Hk, Hf; lia.
  - destruct (pm_flush_end c T b st1); cbn [bind]; auto.
    rewrite (it_pm_round_up_eq _ _ P1 c s (x :: l) (den_cons _ _ _ _ _ _ _ E H)) by exact Hf.
    destruct (pm_round_up c (x :: l) a) as [[st3 hit]| |]; cbn [bind]; auto.
    destruct hit; auto.
    rewrite (it_pm_round_up_eq _ _ P2 c s2 fr D2) by exact F2. reflexivity.
Qed.

Lemma it_pm_frac_eq maxd : forall s l, denotes_gen next2 P2 s l ->
  forall k st, (length l < k)%nat -> (length l < fuel)%nat ->
  it_pm_frac next2 c T b fuel k maxd s st = pm_frac c T b maxd l st.
Proof.
  induction 1 as [s s' E HP | s x s' l E H IH]; intros k st Hk Hf;
    (destruct k as [|k]; [cbn in Hk; lia|]); cbn [it_pm_frac pm_frac];
    destruct (pm_settle c maxd st) as [[st1|st1|]| |]; cbn [bind]; auto.
  - rewrite E. reflexivity.
  - destruct (pm_flush_end c T b st1); cbn [bind]; auto.
    rewrite (it_pm_round_up_eq _ _ P2 c s [] (den_nil _ _ _ _ _ E HP)) by exact Hf.
    reflexivity.
  - rewrite E. destruct (pm_add_digit b x st1); cbn [bind]; auto.
    apply IH; cbn in Hk, Hf; lia.
  - destruct (pm_flush_end c T b st1); cbn [bind]; auto.
    rewrite (it_pm_round_up_eq _ _ P2 c s (x :: l) (den_cons _ _ _ _ _ _ _ E H)) by exact Hf.
    reflexivity.
Qed.

Lemma it_parse_mantissa_eq maxd :
  it_parse_mantissa next1 next2 c T L b fuel s1 s2 maxd = parse_mantissa c T L b i fr maxd.
Proof.
  unfold it_parse_mantissa, parse_mantissa.
  rewrite (it_pm_int_eq maxd s1 i D1) by exact F1.
  destruct (pm_int c T b maxd i fr (mkPm 0 0 0 (vnew L))) as [[st|res]| |] eqn:Ei; cbn [bind]; auto.
  symmetry. apply orel_eq.
  eapply orel_bind with
    (R := fun x y => fst x = fst y /\ (length (snd x) <= length fr)%nat /\
                     denotes_gen next2 P2 (snd y) (snd x)).
  - destruct (pm_count st =? 0) eqn:Ec.
    + eapply orel_mono; [|apply (it_pm_skip_rel _ _ _ _ _ _ D2); exact F2].
      intros [st1 r] [st1' s'] (E & Hp). cbn [fst snd] in *.
      refine (conj E (conj (proj1 Hp) _)).
      eapply skip_resolve; [|exact Hp].
      destruct Hsafe as [H | [H | H]]; auto.
      exfalso. apply pm_int_count in Ei. apply Z.eqb_eq in Ec. cbn [pm_count] in Ei.
      destruct i; [congruence|]. unfold zlen in Ei. cbn [length] in Ei. lia.
    + cbn. auto.
  - intros [st1 r] [st1' s'] (E & Hlen & Hden). cbn [fst snd] in *. subst st1'.
    rewrite (it_pm_frac_eq maxd s' r Hden) by lia. apply orel_refl.
Qed.

Lemma it_slow_eq n fp :
  it_slow next1 next2 c T L f b fuel n fp s1 s2 = slow c T L f b n fp i fr.
Proof.
  unfold it_slow, slow. rewrite it_parse_mantissa_eq. reflexivity.
Qed.

End Fixed.

Section Clones.
Variable cl1 : St1 -> St1.
Variable cl2 : St2 -> St2.
Hypothesis C1 : clone_ok next1 P1 cl1.
Hypothesis C2 : clone_ok next2 P2 cl2.
Variable fuel : nat.
Variable s1 : St1.
Variable s2 : St2.
Variable i fr : list Z.
Hypothesis Hsafe : after_none_ok \/ safe_input i fr.
Hypothesis D1 : denotes_gen next1 P1 s1 i.
Hypothesis D2 : denotes_gen next2 P2 s2 fr.
Hypothesis F1 : (length i < fuel)%nat.
Hypothesis F2 : (length fr < fuel)%nat.

Lemma it_parse_number_cl_eq_aux e t1 t2 :
  denotes_gen next1 P1 t1 i -> denotes_gen next2 P2 t2 fr ->
  it_parse_number_cl next1 next2 b fuel cl1 cl2 t1 t2 e = parse_number b i fr e.
Proof.
  intros E1 E2. unfold it_parse_number_cl. rewrite parse_number_split.
  rewrite (it_parse_number_fast_eq fuel (cl1 t1) (cl2 t2) i fr) by auto.
  destruct (parse_number_fast b i fr e) as [[n|]| |]; cbn [bind]; auto.
  apply it_parse_number_rest_eq; auto.
Qed.

Lemma it_parse_number_cl_eq e :
  it_parse_number_cl next1 next2 b fuel cl1 cl2 s1 s2 e = parse_number b i fr e.
Proof. apply it_parse_number_cl_eq_aux; auto. Qed.

Lemma it_parse_float_cl_eq e :
  it_parse_float_cl next1 next2 c T BT L f b fuel cl1 cl2 s1 s2 e = parse_float c T BT L f b i fr e.
Proof.
  unfold it_parse_float_cl, parse_float.
  rewrite (it_parse_number_cl_eq_aux e (cl1 s1) (cl2 s2)) by auto.
  destruct (parse_number b i fr e) as [num| |]; cbn [bind]; auto.
  destruct (try_fast_path c T f b num) as [[v|]| |]; cbn [bind]; auto.
  destruct (moderate_path c T BT f b num) as [fp| |]; cbn [bind]; auto.
  destruct (exp fp <? 0); auto.
  destruct (i32_sub b (exp fp) (INVALID_FP f)); cbn [bind]; auto.
  rewrite (it_slow_eq fuel s1 s2 i fr) by auto. reflexivity.
Qed.

End Clones.
End Two.

Arguments safe_input i fr : clear implicits.
Arguments after_none_ok {St2} next2 P2.

(** * Main theorems *)

Lemma exhausted_after_none_ok {St} (next : St -> option Z * St) : after_none_ok next (exhausted next).
Proof. intros s H. apply exhausted_denotes_nil. exact H. Qed.

(** ** General form: everything below is an instance.
    [P1], [P2] say what is known of the states reached after the first `None`; nothing is needed
    for the integer iterator ([P1] arbitrary: `next()` is never called on it after a `None`); for
    the fraction iterator either [P2] guarantees `None` again, or the input is a [safe_input].
    `clone()` may be any function that preserves what a state denotes. *)
Theorem it_parse_float_general :
  forall (St1 St2 : Type) (next1 : St1 -> option Z * St1) (next2 : St2 -> option Z * St2)
         (P1 : St1 -> Prop) (P2 : St2 -> Prop)
         (c : config) (T : tables) (BT : btables) (L : limits) (f : format) (b : build)
         (cl1 : St1 -> St1) (cl2 : St2 -> St2) (fuel : nat) (s1 : St1) (s2 : St2)
         (i fr : list Z) (e : Z),
    clone_ok next1 P1 cl1 -> clone_ok next2 P2 cl2 ->
    after_none_ok next2 P2 \/ safe_input i fr ->
    denotes_gen next1 P1 s1 i -> denotes_gen next2 P2 s2 fr ->
    (length i < fuel)%nat -> (length fr < fuel)%nat ->
    it_parse_float_cl next1 next2 c T BT L f b fuel cl1 cl2 s1 s2 e
    = parse_float c T BT L f b i fr e.
Proof. intros. eapply it_parse_float_cl_eq; eauto. Qed.

(** ** (a) fused fraction iterator: all inputs, all configurations, formats and build modes.
    The integer iterator does not have to be fused. *)
Theorem it_parse_float_fused :
  forall (St1 St2 : Type) (next1 : St1 -> option Z * St1) (next2 : St2 -> option Z * St2)
         (c : config) (T : tables) (BT : btables) (L : limits) (f : format) (b : build)
         (fuel : nat) (s1 : St1) (s2 : St2) (i fr : list Z) (e : Z),
    denotes next1 s1 i -> denotes_fused next2 s2 fr ->
    (length i < fuel)%nat -> (length fr < fuel)%nat ->
    it_parse_float next1 next2 c T BT L f b fuel s1 s2 e = parse_float c T BT L f b i fr e.
Proof.
  intros. unfold it_parse_float.
  eapply (it_parse_float_general St1 St2 next1 next2 (fun _ => True) (exhausted next2)); eauto.
  - apply clone_ok_id.
  - apply clone_ok_id.
  - left. apply exhausted_after_none_ok.
Qed.

(** the same with the fusedness stated on the iterator type (`impl FusedIterator`) *)
Theorem it_parse_float_fused_cursor :
  forall (St1 St2 : Type) (next1 : St1 -> option Z * St1) (next2 : St2 -> option Z * St2)
         (c : config) (T : tables) (BT : btables) (L : limits) (f : format) (b : build)
         (fuel : nat) (s1 : St1) (s2 : St2) (i fr : list Z) (e : Z),
    fused_cursor next2 ->
    denotes next1 s1 i -> denotes next2 s2 fr ->
    (length i < fuel)%nat -> (length fr < fuel)%nat ->
    it_parse_float next1 next2 c T BT L f b fuel s1 s2 e = parse_float c T BT L f b i fr e.
Proof.
  intros. apply it_parse_float_fused; auto. apply fused_cursor_denotes; auto.
Qed.

(** ** (b) no fusedness at all, on inputs that have an integer digit or a non-'0' fraction byte:
    on these the code never calls `next()` on an iterator that has returned `None` *)
Theorem it_parse_float_safe_input :
  forall (St1 St2 : Type) (next1 : St1 -> option Z * St1) (next2 : St2 -> option Z * St2)
         (c : config) (T : tables) (BT : btables) (L : limits) (f : format) (b : build)
         (fuel : nat) (s1 : St1) (s2 : St2) (i fr : list Z) (e : Z),
    safe_input i fr ->
    denotes next1 s1 i -> denotes next2 s2 fr ->
    (length i < fuel)%nat -> (length fr < fuel)%nat ->
    it_parse_float next1 next2 c T BT L f b fuel s1 s2 e = parse_float c T BT L f b i fr e.
Proof.
  intros. unfold it_parse_float.
  eapply (it_parse_float_general St1 St2 next1 next2 (fun _ => True) (fun _ => True)); eauto.
  - apply clone_ok_id.
  - apply clone_ok_id.
Qed.

(** the two functions that consume the iterators, separately *)
Theorem it_parse_number_fused :
  forall (St1 St2 : Type) (next1 : St1 -> option Z * St1) (next2 : St2 -> option Z * St2)
         (b : build) (fuel : nat) (s1 : St1) (s2 : St2) (i fr : list Z) (e : Z),
    denotes next1 s1 i -> denotes_fused next2 s2 fr ->
    (length i < fuel)%nat -> (length fr < fuel)%nat ->
    it_parse_number next1 next2 b fuel s1 s2 e = parse_number b i fr e.
Proof.
  intros. unfold it_parse_number.
  eapply (it_parse_number_cl_eq St1 St2 next1 next2 (fun _ => True) (exhausted next2)); eauto.
  - apply clone_ok_id.
  - apply clone_ok_id.
  - left. apply exhausted_after_none_ok.
Qed.

Theorem it_parse_number_safe_input :
  forall (St1 St2 : Type) (next1 : St1 -> option Z * St1) (next2 : St2 -> option Z * St2)
         (b : build) (fuel : nat) (s1 : St1) (s2 : St2) (i fr : list Z) (e : Z),
    safe_input i fr ->
    denotes next1 s1 i -> denotes next2 s2 fr ->
    (length i < fuel)%nat -> (length fr < fuel)%nat ->
    it_parse_number next1 next2 b fuel s1 s2 e = parse_number b i fr e.
Proof.
  intros. unfold it_parse_number.
  eapply (it_parse_number_cl_eq St1 St2 next1 next2 (fun _ => True) (fun _ => True)); eauto.
  - apply clone_ok_id.
  - apply clone_ok_id.
Qed.

Theorem it_parse_mantissa_fused :
  forall (St1 St2 : Type) (next1 : St1 -> option Z * St1) (next2 : St2 -> option Z * St2)
         (c : config) (T : tables) (L : limits) (b : build)
         (fuel : nat) (s1 : St1) (s2 : St2) (i fr : list Z) (maxd : Z),
    denotes next1 s1 i -> denotes_fused next2 s2 fr ->
    (length i < fuel)%nat -> (length fr < fuel)%nat ->
    it_parse_mantissa next1 next2 c T L b fuel s1 s2 maxd = parse_mantissa c T L b i fr maxd.
Proof.
  intros.
  eapply (it_parse_mantissa_eq St1 St2 next1 next2 (fun _ => True) (exhausted next2)); eauto.
  left. apply exhausted_after_none_ok.
Qed.

Theorem it_parse_mantissa_safe_input :
  forall (St1 St2 : Type) (next1 : St1 -> option Z * St1) (next2 : St2 -> option Z * St2)
         (c : config) (T : tables) (L : limits) (b : build)
         (fuel : nat) (s1 : St1) (s2 : St2) (i fr : list Z) (maxd : Z),
    safe_input i fr ->
    denotes next1 s1 i -> denotes next2 s2 fr ->
    (length i < fuel)%nat -> (length fr < fuel)%nat ->
    it_parse_mantissa next1 next2 c T L b fuel s1 s2 maxd = parse_mantissa c T L b i fr maxd.
Proof.
  intros.
  eapply (it_parse_mantissa_eq St1 St2 next1 next2 (fun _ => True) (fun _ => True)); eauto.
Qed.

(** ** Clones.  `parse_float` runs three passes over the digits: the fast pass of `parse_number`
    on clones of clones, the real pass of `parse_number` on clones, and `parse_mantissa` on the
    originals.  With ANY `clone` functions that preserve what a state denotes (a derived `Clone`
    copies the state and is the identity here), all three see the bytes [i], [fr], and the result
    is the one obtained when `clone` copies the state. *)
Theorem clone_independent :
  forall (St1 St2 : Type) (next1 : St1 -> option Z * St1) (next2 : St2 -> option Z * St2)
         (c : config) (T : tables) (BT : btables) (L : limits) (f : format) (b : build)
         (cl1 : St1 -> St1) (cl2 : St2 -> St2)
         (fuel : nat) (s1 : St1) (s2 : St2) (i fr : list Z) (e : Z),
    clone_ok next1 (fun _ => True) cl1 -> clone_ok next2 (exhausted next2) cl2 ->
    denotes next1 s1 i -> denotes_fused next2 s2 fr ->
    (length i < fuel)%nat -> (length fr < fuel)%nat ->
    (* the three passes *)
    it_parse_number_fast next1 next2 b fuel (cl1 (cl1 s1)) (cl2 (cl2 s2)) e = parse_number_fast b i fr e /\
    it_parse_number_rest next1 next2 b fuel (cl1 s1) (cl2 s2) e = parse_number_rest b i fr e /\
    it_parse_mantissa next1 next2 c T L b fuel s1 s2 (MAX_DIGITS f) = parse_mantissa c T L b i fr (MAX_DIGITS f) /\
    (* the result *)
    it_parse_float_cl next1 next2 c T BT L f b fuel cl1 cl2 s1 s2 e
    = it_parse_float next1 next2 c T BT L f b fuel s1 s2 e.
Proof.
  intros St1 St2 next1 next2 c T BT L f b cl1 cl2 fuel s1 s2 i fr e C1 C2 D1 D2 F1 F2.
  assert (Hs : after_none_ok next2 (exhausted next2) \/ safe_input i fr)
    by (left; apply exhausted_after_none_ok).
  repeat split.
  - apply (it_parse_number_fast_eq St1 St2 next1 next2 (fun _ => True) (exhausted next2) b fuel
             (cl1 (cl1 s1)) (cl2 (cl2 s2)) i fr (C1 _ _ (C1 _ _ D1)) (C2 _ _ (C2 _ _ D2)) F1 F2).
  - apply (it_parse_number_rest_eq St1 St2 next1 next2 (fun _ => True) (exhausted next2) b fuel
             (cl1 s1) (cl2 s2) i fr Hs (C1 _ _ D1) (C2 _ _ D2) F1 F2).
  - eapply it_parse_mantissa_fused; eauto.
  - rewrite (it_parse_float_fused St1 St2 next1 next2 c T BT L f b fuel s1 s2 i fr e) by auto.
    eapply it_parse_float_general; eauto.
Qed.

(** ** The shape of the iterators does not matter: two pairs of iterators of any types, with any
    internal state, that denote the same byte sequences give the same result (also: the amount of
    fuel does not matter once it is sufficient) *)
Theorem iter_shape_independent :
  forall (St1 St2 St1' St2' : Type)
         (next1 : St1 -> option Z * St1) (next2 : St2 -> option Z * St2)
         (next1' : St1' -> option Z * St1') (next2' : St2' -> option Z * St2')
         (c : config) (T : tables) (BT : btables) (L : limits) (f : format) (b : build)
         (fuel fuel' : nat) (s1 : St1) (s2 : St2) (s1' : St1') (s2' : St2') (i fr : list Z) (e : Z),
    denotes next1 s1 i -> denotes_fused next2 s2 fr ->
    denotes next1' s1' i -> denotes_fused next2' s2' fr ->
    (length i < fuel)%nat -> (length fr < fuel)%nat ->
    (length i < fuel')%nat -> (length fr < fuel')%nat ->
    it_parse_float next1 next2 c T BT L f b fuel s1 s2 e
    = it_parse_float next1' next2' c T BT L f b fuel' s1' s2' e.
Proof.
  intros.
  rewrite (it_parse_float_fused St1 St2 next1 next2 c T BT L f b fuel s1 s2 i fr e) by auto.
  rewrite (it_parse_float_fused St1' St2' next1' next2' c T BT L f b fuel' s1' s2' i fr e) by auto.
  reflexivity.
Qed.

(** ** Concrete iterators *)

(** *** `slice::Iter` *)
Lemma slice_exhausted : exhausted slice_next [].
Proof. intros n. induction n; cbn; auto. Qed.

Lemma slice_fused : fused_cursor slice_next.
Proof. intros [|x l] s' E; cbn in E; inversion E; subst. reflexivity. Qed.

Lemma slice_denotes l : denotes_fused slice_next l l.
Proof.
  induction l as [|x l IH].
  - eapply den_nil; [reflexivity|apply slice_exhausted].
  - eapply den_cons; [reflexivity|exact IH].
Qed.

Corollary it_parse_float_slice c T BT L f b i fr e fuel :
  (length i < fuel)%nat -> (length fr < fuel)%nat ->
  it_parse_float slice_next slice_next c T BT L f b fuel i fr e = parse_float c T BT L f b i fr e.
Proof.
  intros. apply it_parse_float_fused; auto.
  - apply denotes_fused_denotes, slice_denotes.
  - apply slice_denotes.
Qed.

(** *** `Chain<A, B>`: denotes the concatenation; it is fused as soon as `B` is (`A` need not be:
    `Chain` drops `A` at its first `None`) *)
Section ChainFacts.
Variable Sa Sb : Type.
Variable nexta : Sa -> option Z * Sa.
Variable nextb : Sb -> option Z * Sb.
Variable Pa : Sa -> Prop.
Variable Pb : Sb -> Prop.

Let Pc (s : option Sa * Sb) : Prop := fst s = None /\ Pb (snd s).

Lemma chain_none sb lb : denotes_gen nextb Pb sb lb ->
  denotes_gen (chain_next nexta nextb) Pc (None, sb) lb.
Proof.
  induction 1 as [s s' E HP | s x s' l E H IH].
  - eapply den_nil; [cbn; rewrite E; reflexivity|]. split; auto.
  - eapply den_cons; [cbn; rewrite E; reflexivity|exact IH].
Qed.

Lemma chain_denotes_gen a la sb lb :
  denotes_gen nexta Pa a la -> denotes_gen nextb Pb sb lb ->
  denotes_gen (chain_next nexta nextb) Pc (Some a, sb) (la ++ lb).
Proof.
  intros Ha Hb. induction Ha as [s s' E HP | s x s' l E H IH]; cbn [app].
  - inversion Hb as [t t' Eb HPb | t y t' l' Eb Hb']; subst.
    + eapply den_nil; [cbn; rewrite E, Eb; reflexivity|]. split; auto.
    + eapply den_cons; [cbn; rewrite E, Eb; reflexivity|]. apply chain_none; auto.
  - eapply den_cons; [cbn; rewrite E; reflexivity|exact IH].
Qed.

Lemma chain_exhausted sb : exhausted nextb sb -> exhausted (chain_next nexta nextb) (None, sb).
Proof.
  intros H n. revert sb H. induction n as [|n IH]; intros sb H.
  - generalize (H O). cbn. destruct (nextb sb); cbn. auto.
  - destruct (exhausted_step _ _ _ H) as (sb' & E & H'). cbn. rewrite E. cbn. apply IH, H'.
Qed.
End ChainFacts.

Theorem chain_denotes {Sa Sb} (nexta : Sa -> option Z * Sa) (nextb : Sb -> option Z * Sb) a la sb lb :
  denotes nexta a la -> denotes_fused nextb sb lb ->
  denotes_fused (chain_next nexta nextb) (Some a, sb) (la ++ lb).
Proof.
  intros Ha Hb.
  eapply denotes_gen_mono; [|eapply chain_denotes_gen; [exact Ha|exact Hb]].
  intros [o sb'] [Ho Hp]; cbn in *. subst o. apply chain_exhausted, Hp.
Qed.

(** *** `Filter` over a slice iterator: denotes the filtered list and is fused *)
Lemma filter_exhausted skip : exhausted (filter_next skip) [].
Proof. intros n. induction n; cbn; auto. Qed.

Theorem filter_denotes skip l :
  denotes_fused (filter_next skip) l (filter (fun x => negb (x =? skip)) l).
Proof.
  induction l as [|x l IH].
  - eapply den_nil; [reflexivity|apply filter_exhausted].
  - cbn [filter]. destruct (x =? skip) eqn:Ex; cbn [negb].
    + inversion IH as [t t' E HP | t y t' l' E H]; subst.
      * eapply den_nil; [cbn; rewrite Ex; exact E|exact HP].
      * eapply den_cons; [cbn; rewrite Ex; exact E|exact H].
    + eapply den_cons; [cbn; rewrite Ex; reflexivity|exact IH].
Qed.

Lemma filter_fused skip : fused_cursor (filter_next skip).
Proof.
  intros s. induction s as [|x l IH]; intros s' E; cbn in E.
  - inversion E; subst. reflexivity.
  - destruct (x =? skip); [apply IH; exact E|discriminate].
Qed.

(** *** the segmented iterator is a legal `Iterator`, denotes its first segment, is NOT fused *)
Lemma seg_denotes l rest : denotes seg_next (l :: rest) l.
Proof.
  induction l as [|x l IH].
  - eapply den_nil; [reflexivity|exact I].
  - eapply den_cons; [reflexivity|exact IH].
Qed.

Lemma seg_nil_denotes : denotes seg_next [] [].
Proof. eapply den_nil; [reflexivity|exact I]. Qed.

Example seg_not_fused : ~ fused_cursor seg_next.
Proof. intros H. specialize (H [[]; [49]] [[49]] eq_refl). discriminate. Qed.

(** * Exactness: which `next()` calls can follow a `None`

    Reading src/parse.rs and src/slow.rs call by call (the iterator-level model makes each of
    them explicit), the ONLY calls of `next()` on an iterator instance that has already returned
    `None` are:

    (N1) parse.rs:98 `for c in fraction` in `parse_number`, after the zero-skipping loop
         parse.rs:88 `for &c in &mut fraction` ended because `next()` returned `None`
         ([it_pn_skip] returns the post-`None` state, [it_pn_frac] calls [next] on it);
    (N2) slow.rs:333 `fraction.next()` in the `'fraction` loop of `parse_mantissa`, after the
         zero-skipping loop slow.rs:321 ended on `None` ([it_pm_skip], then [it_pm_frac]).

    Both need `count == 0` after the integer loop (no integer digit) and a fraction made of '0'
    bytes only (possibly empty).  (N1) is reached iff moreover the fraction has at least 20 bytes
    (otherwise the fast pass, which runs on clones and stops at the first `None`, answers).
    (N2) would need `slow` to be reached: with a fused fraction iterator it never is on such inputs
    (the mantissa is 0); with a non-fused one it is reached only after (N1) has already read
    post-`None` bytes.  All other loops stop at the first `None` of their iterator, which is then
    dropped or never used again; the integer iterator is never called after a `None`; clones are
    fresh states. *)

(** the fast pass on a fraction of zeros *)
Lemma pnf_loop_zeros b l : Forall (fun x => x = 48) l ->
  forall cnt, pnf_loop b l 0 cnt = Ok (0, cnt + zlen l).
Proof.
  induction 1 as [|x l Hx Hl IH]; intros cnt; cbn [pnf_loop].
  - unfold zlen; cbn. rewrite Z.add_0_r. reflexivity.
  - subst x. change (u8_sub b 48 48) with (Ok (A:=Z) 0). cbn [bind].
    change (u64_wrapping_add (u64_wrapping_mul 0 10) 0) with 0. rewrite IH.
    unfold zlen. cbn [length]. do 2 f_equal. lia.
Qed.

Lemma parse_number_short_zeros b fr e : Forall (fun x => x = 48) fr -> (length fr <= 19)%nat ->
  parse_number_fast b [] fr e = Ok (Some (mkNumber (i32_saturating_sub e (as_i32 (zlen fr))) 0 false)).
Proof.
  intros Hz Hl. unfold parse_number_fast. cbn [pnf_loop bind].
  rewrite (pnf_loop_zeros b fr Hz). cbn [bind]. rewrite !Z.add_0_l.
  replace (zlen fr <=? 19) with true; [reflexivity|].
  symmetry. apply Z.leb_le. unfold zlen. lia.
Qed.

Lemma moderate_path_zero c T BT f b e :
  moderate_path c T BT f b (mkNumber e 0 false) = Ok (mkExt 0 0).
Proof.
  unfold moderate_path. destruct (compact c).
  - reflexivity.
  - unfold lemire, compute_float. cbn [nmant nexp many]. reflexivity.
Qed.

(** (b'), sharper than (b): without any fusedness, the result is the list model's on every input
    except { no integer digit, fraction = at least 20 bytes, all '0' } *)
Theorem it_parse_float_nonfused :
  forall (St1 St2 : Type) (next1 : St1 -> option Z * St1) (next2 : St2 -> option Z * St2)
         (c : config) (T : tables) (BT : btables) (L : limits) (f : format) (b : build)
         (fuel : nat) (s1 : St1) (s2 : St2) (i fr : list Z) (e : Z),
    i <> [] \/ Exists (fun x => x <> 48) fr \/ (length fr <= 19)%nat ->
    denotes next1 s1 i -> denotes next2 s2 fr ->
    (length i < fuel)%nat -> (length fr < fuel)%nat ->
    it_parse_float next1 next2 c T BT L f b fuel s1 s2 e = parse_float c T BT L f b i fr e.
Proof.
  intros St1 St2 next1 next2 c T BT L f b fuel s1 s2 i fr e H D1 D2 F1 F2.
  destruct i as [|x i]; [|apply it_parse_float_safe_input; auto; left; discriminate].
  destruct (Exists_dec (fun x => x <> 48) fr) as [Hex | Hnex].
  { intros x. destruct (Z.eq_dec x 48); [right|left]; auto. }
  { apply it_parse_float_safe_input; auto. right; exact Hex. }
  assert (Hz : Forall (fun x => x = 48) fr).
  { apply Forall_forall. intros x Hin. destruct (Z.eq_dec x 48); auto.
    exfalso. apply Hnex. apply Exists_exists. eauto. }
  destruct H as [H | [H | H]]; [congruence | contradiction |].
  unfold it_parse_float, it_parse_float_cl, it_parse_number_cl, parse_float.
  rewrite parse_number_split.
  rewrite (it_parse_number_fast_eq St1 St2 next1 next2 _ _ b fuel s1 s2 [] fr D1 D2 F1 F2).
  rewrite (parse_number_short_zeros b fr e Hz H). cbn [bind].
  destruct (try_fast_path c T f b _) as [[v|]| |]; cbn [bind]; auto.
  rewrite moderate_path_zero. cbn [bind exp]. reflexivity.
Qed.

(** ... and on every input of the excepted class the real pass of `parse_number` DOES call
    `next()` after `None` (N1): a non-fused iterator that denotes [fr] and yields one more byte '1'
    afterwards changes the parsed mantissa from 0 to 1 *)
Lemma it_pn_skip_seg_zeros b l rest : Forall (fun x => x = 48) l ->
  forall fuel m fc, (length l < fuel)%nat ->
  it_pn_skip seg_next b fuel (l :: rest) m fc = Ok (m, 0, fc + zlen l, rest).
Proof.
  induction 1 as [|x l Hx Hl IH]; intros fuel m fc Hf;
    (destruct fuel as [|k]; [cbn in Hf; lia|]); cbn [it_pn_skip seg_next].
  - unfold zlen; cbn. rewrite Z.add_0_r. reflexivity.
  - subst x. cbn [Z.eqb Pos.eqb negb]. rewrite IH by (cbn in Hf; lia).
    unfold zlen. cbn [length]. do 3 f_equal. lia.
Qed.

Theorem nonfused_parse_number_differs :
  forall (b : build) (fr : list Z) (e : Z) (fuel : nat),
    Forall (fun x => x = 48) fr -> (20 <= length fr)%nat -> (length fr < fuel)%nat ->
    denotes seg_next [fr; [49]] fr /\
    (exists x, parse_number b [] fr e = Ok (mkNumber x 0 false)) /\
    (exists x, it_parse_number slice_next seg_next b fuel [] [fr; [49]] e = Ok (mkNumber x 1 false)).
Proof.
  intros b fr e fuel Hz Hl Hf. split; [apply seg_denotes|].
  assert (Hfast : parse_number_fast b [] fr e = Ok None).
  { unfold parse_number_fast. cbn [pnf_loop bind]. rewrite (pnf_loop_zeros b fr Hz). cbn [bind].
    rewrite !Z.add_0_l. replace (zlen fr <=? 19) with false; [reflexivity|].
    symmetry. apply Z.leb_gt. unfold zlen. lia. }
  assert (Hskip : forall m fc, pn_skip b fr m fc = Ok (m, 0, fc + zlen fr, [])).
  { clear Hl Hf Hfast. induction Hz as [|x l Hx Hl IH]; intros m fc; cbn [pn_skip].
    - unfold zlen; cbn. rewrite Z.add_0_r. reflexivity.
    - subst x. cbn [Z.eqb Pos.eqb negb]. rewrite IH. unfold zlen. cbn [length]. do 3 f_equal. lia. }
  split.
  - eexists. rewrite parse_number_split, Hfast. cbn [bind]. unfold parse_number_rest.
    cbn [pn_int bind Z.eqb]. rewrite Hskip. cbn [bind pn_frac]. reflexivity.
  - eexists. unfold it_parse_number, it_parse_number_cl.
    rewrite (it_parse_number_fast_eq _ _ slice_next seg_next (fun _ => True) (fun _ => True) b fuel
               [] [fr; [49]] [] fr (denotes_fused_denotes _ _ _ _ (slice_denotes [])) (seg_denotes fr [[49]]))
      by (cbn; lia).
    rewrite Hfast. cbn [bind]. unfold it_parse_number_rest.
    destruct fuel as [|[|k]]; [lia|lia|].
    cbn [it_pn_int slice_next bind Z.eqb].
    rewrite it_pn_skip_seg_zeros by auto. cbn [bind].
    cbn [it_pn_frac seg_next]. cbn zeta.
    replace (0 + 1 =? 20) with false by reflexivity.
    change (push_digit b 0 49) with (Ok (A:=Z) 1). cbn [bind]. reflexivity.
Qed.

(** * Examples on the generated data *)
From ML Require Import gen.Consts gen.Tables gen.BTables gen.PowDump.

Definition digs (l : list Z) : list Z := map (Z.add 48) l.

(** 9007199254740993.000000000000000000000001 = 2^53 + 1 + 1e-24: 40 digits, just above a
    halfway point; the Eisel-Lemire step cannot decide and `slow` is run *)
Definition I_a := digs [9;0;0;7;1;9].
Definition I_b := digs [9;2;5;4;7;4;0;9;9;3].
Definition I_ex := I_a ++ I_b.
Definition FR_ex := digs (repeat 0 23%nat ++ [1]).
(** the same fraction with '_' separators, to be read through a filter *)
Definition FR_ex_sep := digs [0;0;0;0] ++ [95] ++ digs [0;0;0;0;0;0;0;0] ++ [95; 95] ++ digs (repeat 0 11%nat ++ [1]) ++ [95].

Example ex_hyp_chain : denotes (chain_next slice_next slice_next) (Some I_a, I_b) I_ex.
Proof. apply denotes_fused_denotes, chain_denotes; [apply denotes_fused_denotes|]; apply slice_denotes. Qed.

Example ex_hyp_filter : denotes_fused (filter_next 95) FR_ex_sep FR_ex.
Proof. exact (filter_denotes 95 FR_ex_sep). Qed.

Example ex_slow_is_taken :
  (num <- parse_number release_build I_ex FR_ex 0 ;;
   fp <- moderate_path CFG_s TABLES BTABLES F64 release_build num ;;
   Ok (many num, exp fp <? 0)) = Ok (true, true).
Proof. vm_compute. reflexivity. Qed.

(** integer through a `Chain` of two slices, fraction through a `Filter`, versus the list model *)
Example ex_chain_filter_slow :
  it_parse_float (chain_next slice_next slice_next) (filter_next 95)
     CFG_s TABLES BTABLES LIMITS F64 release_build 64 (Some I_a, I_b) FR_ex_sep 0
  = parse_float CFG_s TABLES BTABLES LIMITS F64 release_build I_ex FR_ex 0
  /\ parse_float CFG_s TABLES BTABLES LIMITS F64 release_build I_ex FR_ex 0
     = Ok 4845873199050653697        (* 2^53 + 2 *).
Proof. vm_compute. split; reflexivity. Qed.

(** the same by the theorem rather than by computation *)
Example ex_chain_filter_slow_thm :
  it_parse_float (chain_next slice_next slice_next) (filter_next 95)
     CFG_s TABLES BTABLES LIMITS F64 release_build 64 (Some I_a, I_b) FR_ex_sep 0
  = parse_float CFG_s TABLES BTABLES LIMITS F64 release_build I_ex FR_ex 0.
Proof.
  apply it_parse_float_fused.
  - exact ex_hyp_chain.
  - exact ex_hyp_filter.
  - vm_compute; lia.
  - vm_compute; lia.
Qed.

(** other configurations / formats / build modes (compact = Bellerophon, checked build, f32) *)
Example ex_chain_filter_slow_variants :
  it_parse_float (chain_next slice_next slice_next) (filter_next 95)
     CFG_sc TABLES BTABLES LIMITS F64 checked_build 64 (Some I_a, I_b) FR_ex_sep 0
  = parse_float CFG_sc TABLES BTABLES LIMITS F64 checked_build I_ex FR_ex 0
  /\
  it_parse_float (filter_next 95) (chain_next slice_next (filter_next 95))
     CFG_na TABLES BTABLES LIMITS F32 checked_build 64 (I_a ++ [95] ++ I_b) (Some [48; 48], skipn 2 FR_ex_sep) (-9)
  = parse_float CFG_na TABLES BTABLES LIMITS F32 checked_build I_ex FR_ex (-9).
Proof. vm_compute. split; reflexivity. Qed.

(** "0.000…" inputs.  Fused iterators of different shapes agree with the list model, also on the
    inputs where `next()` is called after `None` (all-zero fraction of 25 bytes, no integer digit) *)
Definition Z25 := repeat 48 25%nat.
Definition Z25_sep := repeat 48 10%nat ++ [95] ++ repeat 48 15%nat ++ [95].

Example ex_zeros_fused :
  let pf := parse_float CFG_s TABLES BTABLES LIMITS F64 release_build in
  (* .0000000000000000000000000 *)
  it_parse_float slice_next (filter_next 95) CFG_s TABLES BTABLES LIMITS F64 release_build 64 [] Z25_sep 0 = pf [] Z25 0
  /\ it_parse_float slice_next (chain_next slice_next slice_next) CFG_s TABLES BTABLES LIMITS F64 release_build 64
       [] (Some (repeat 48 7%nat), repeat 48 18%nat) 0 = pf [] Z25 0
  /\ pf [] Z25 0 = Ok 0
  (* .00000000000000000000000001e-300 (subnormal, 26 digits) *)
  /\ it_parse_float slice_next (filter_next 95) CFG_s TABLES BTABLES LIMITS F64 release_build 64 [] (Z25_sep ++ [49]) (-300)
     = pf [] (Z25 ++ [49]) (-300)
  (* 0.0000000000000000000000000 with the integer digit '0' *)
  /\ it_parse_float (chain_next slice_next slice_next) (filter_next 95) CFG_s TABLES BTABLES LIMITS F64 release_build 64
       (Some [], [48]) Z25_sep 0 = pf [48] Z25 0.
Proof. vm_compute. repeat split; reflexivity. Qed.

(** ** The fused hypothesis is necessary (N1): a legal, non-fused iterator that denotes 20 zeros,
    and the list model on these 20 zeros *)
Example nonfused_parse_float_differs :
  denotes slice_next [] [] /\ denotes seg_next [repeat 48 20%nat; [49]] (repeat 48 20%nat) /\
  parse_float CFG_s TABLES BTABLES LIMITS F64 release_build [] (repeat 48 20%nat) 0 = Ok 0 /\
  it_parse_float slice_next seg_next CFG_s TABLES BTABLES LIMITS F64 release_build 64
     [] [repeat 48 20%nat; [49]] 0 = Ok 4292743757239851855          (* 1e-21 *).
Proof.
  split; [apply denotes_fused_denotes, slice_denotes|]. split; [apply seg_denotes|].
  vm_compute. split; reflexivity.
Qed.

Theorem fused_hypothesis_necessary :
  exists (St2 : Type) (next2 : St2 -> option Z * St2) (s2 : St2) (fr : list Z),
    denotes next2 s2 fr /\ (length fr < 64)%nat /\
    it_parse_float slice_next next2 CFG_s TABLES BTABLES LIMITS F64 release_build 64 [] s2 0
    <> parse_float CFG_s TABLES BTABLES LIMITS F64 release_build [] fr 0.
Proof.
  exists (list (list Z)), seg_next, [repeat 48 20%nat; [49]], (repeat 48 20%nat).
  split; [apply seg_denotes|]. split; [vm_compute; lia|].
  vm_compute. discriminate.
Qed.

(** (N2) seen in isolation: `parse_mantissa` on a non-fused fraction iterator *)
Example nonfused_parse_mantissa_differs :
  denotes seg_next [[48; 48]; [49; 50]] [48; 48] /\
  parse_mantissa CFG_s TABLES LIMITS release_build [] [48; 48] 768 = Ok (mkVec [] 62, 0) /\
  it_parse_mantissa slice_next seg_next CFG_s TABLES LIMITS release_build 64 [] [[48; 48]; [49; 50]] 768
  = Ok (mkVec [12] 62, 2).
Proof. split; [apply seg_denotes|]. vm_compute. split; reflexivity. Qed.

(** the same non-fused iterator is harmless when there is an integer digit, or a non-zero
    fraction digit, or fewer than 20 zeros (instances of [it_parse_float_nonfused]) *)
Example nonfused_harmless :
  let itf := it_parse_float seg_next seg_next CFG_s TABLES BTABLES LIMITS F64 release_build 64 in
  let pf := parse_float CFG_s TABLES BTABLES LIMITS F64 release_build in
  itf [[48]; [55]] [repeat 48 20%nat; [49]] 0 = pf [48] (repeat 48 20%nat) 0
  /\ itf [[]; [55]] [repeat 48 20%nat ++ [50]; [49]] 0 = pf [] (repeat 48 20%nat ++ [50]) 0
  /\ itf [] [repeat 48 19%nat; [49]] 400 = pf [] (repeat 48 19%nat) 400
  /\ itf [I_ex; I_ex] [FR_ex; FR_ex] 0 = pf I_ex FR_ex 0.
Proof. vm_compute. repeat split; reflexivity. Qed.

(** a `clone` that is not the identity on states but preserves the denotation: re-allocating
    the segments of the segmented iterator *)
Example ex_clone_realloc :
  it_parse_float_cl seg_next seg_next CFG_s TABLES BTABLES LIMITS F64 release_build 64
     (fun s => match s with [] => [[]] | x :: r => x :: [] :: r end)
     (fun s => match s with [] => [[]; []] | x :: r => [x] end)
     [I_ex] [FR_ex] 0
  = parse_float CFG_s TABLES BTABLES LIMITS F64 release_build I_ex FR_ex 0.
Proof. vm_compute. reflexivity. Qed.

(** ... and that `clone` satisfies the hypothesis of [clone_independent] / [it_parse_float_general] *)
Example ex_clone_ok :
  clone_ok seg_next (fun _ => True) (fun s => match s with [] => [[]; []] | x :: r => [x] end).
Proof.
  intros [|x r] l H.
  - rewrite (denotes_gen_fun _ _ _ _ _ _ _ H seg_nil_denotes). apply (seg_denotes [] [[]]).
  - rewrite (denotes_gen_fun _ _ _ _ _ _ _ H (seg_denotes x r)). apply (seg_denotes x []).
Qed.

Print Assumptions it_parse_float_general.
Print Assumptions it_parse_float_fused.
Print Assumptions it_parse_float_fused_cursor.
Print Assumptions it_parse_float_safe_input.
Print Assumptions it_parse_float_nonfused.
Print Assumptions nonfused_parse_number_differs.
Print Assumptions fused_hypothesis_necessary.
Print Assumptions clone_independent.
Print Assumptions iter_shape_independent.
Print Assumptions it_parse_float_slice.
Print Assumptions chain_denotes.
Print Assumptions filter_denotes.
Print Assumptions it_parse_number_fused.
Print Assumptions it_parse_mantissa_fused.
