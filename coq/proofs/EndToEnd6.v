(** * EndToEnd6: exponents far outside the representable range (incl. the i32 limits, where the
    decimal exponent handed to the stages SATURATES), and the union theorems.
    [far_small]: X + (number of digits) < -400  => parse_float = Ok 0      = RN (dec_value)
    [far_large]: some digit non-zero, X > 400   => parse_float = Ok +inf   = RN (dec_value)
    [far_zero] : all digits zero, any exponent beyond +-400 => Ok 0
    for every shipped configuration, both formats, both build modes, whatever the exponent
    arithmetic saturates to.  Together with EndToEnd4/5 (|X| <= 2^29) they give
    [parse_float_correct] for every valid input of at most 2^28 digits and EVERY i32 exponent. *)
From Coq Require Import ZArith QArith List Bool Lia.
From ML Require Import base.RustSem model.Fmt model.Num model.Number model.Parse model.Lemire model.Bellerophon model.Top
  spec.Decimal spec.Round spec.RoundFacts spec.DigitsSuffice gen.Consts gen.Tables gen.BTables gen.PowDump
  proofs.ParseFacts proofs.NumFacts proofs.FastPathFacts proofs.EndToEnd proofs.EndToEnd2 proofs.EndToEnd4 proofs.EndToEnd5
  proofs.LemireFacts0 proofs.BellFacts3.
Import ListNotations.
Open Scope Z_scope.

(** ** the oracle far away *)
Lemma pow10Q_ge1 : forall k, 0 <= k -> (1 <= pow10Q k)%Q.
Proof.
  intros k Hk. rewrite (pow10Q_nonneg_inj k Hk). change 1%Q with (inject_Z 1). rewrite <- Zle_Qle.
  assert (0 < 10 ^ k) by (apply Z.pow_pos_nonneg; lia). lia.
Qed.

Lemma pow10Q_mono : forall a c, a <= c -> (pow10Q a <= pow10Q c)%Q.
Proof.
  intros a c H. replace c with (a + (c - a)) by lia. rewrite pow10Q_add.
  rewrite <- (Qmult_1_r (pow10Q a)) at 1. apply Qmult_le_l; [apply ParseFacts.pow10Q_pos|].
  apply pow10Q_ge1. lia.
Qed.

Lemma dec_value_upper : forall i fr e, valid_inputb i fr e = true ->
  (dec_value i fr e <= pow10Q (e - zlen fr + (zlen i + zlen fr)))%Q.
Proof.
  intros i fr e V. destruct (valid_input_inv _ _ _ V) as (Hi & Hf & _).
  assert (H : forallb digitb (i ++ fr) = true) by (rewrite forallb_app, Hi, Hf; reflexivity).
  pose proof (digits_bound (i ++ fr) H) as B. rewrite ParseFacts.zlen_app in B.
  unfold dec_value. rewrite Z.add_comm, pow10Q_add.
  apply Qmult_le_compat_r; [|apply Qlt_le_weak, ParseFacts.pow10Q_pos].
  pose proof (zlen_nonneg _ i). pose proof (zlen_nonneg _ fr).
  rewrite (pow10Q_nonneg_inj (zlen i + zlen fr)) by lia. rewrite <- Zle_Qle. lia.
Qed.

Lemma dec_value_lower : forall i fr e, valid_inputb i fr e = true -> 0 < digits_to_Z (i ++ fr) ->
  (pow10Q (e - zlen fr) <= dec_value i fr e)%Q.
Proof.
  intros i fr e V HD. unfold dec_value.
  rewrite <- (Qmult_1_l (pow10Q (e - zlen fr))) at 1.
  apply Qmult_le_compat_r; [|apply Qlt_le_weak, ParseFacts.pow10Q_pos].
  change 1%Q with (inject_Z 1). rewrite <- Zle_Qle. lia.
Qed.

Lemma thresholds_400 : forall f, f = F32 \/ f = F64 ->
  (pow10Q (-400) <= underflow_thresholdQ f)%Q /\ (overflow_thresholdQ f <= pow10Q 400)%Q.
Proof. intros f [->| ->]; split; unfold Qle; vm_compute; discriminate. Qed.

Lemma RN_far_small : forall f i fr e, f = F32 \/ f = F64 -> valid_inputb i fr e = true ->
  e - zlen fr + (zlen i + zlen fr) <= -400 -> RN f (dec_value i fr e) = 0.
Proof.
  intros f i fr e Hf V H.
  assert (Hs : sfmt_ok f = true) by (destruct Hf; subst; [exact sfmt_ok_F32|exact sfmt_ok_F64]).
  apply (underflow_threshold f Hs); [apply dec_value_nonneg; exact V|].
  eapply Qle_trans; [apply dec_value_upper; exact V|].
  eapply Qle_trans; [apply pow10Q_mono; exact H|]. apply (thresholds_400 f Hf).
Qed.

Lemma RN_far_large : forall f i fr e, f = F32 \/ f = F64 -> valid_inputb i fr e = true ->
  0 < digits_to_Z (i ++ fr) -> 400 <= e - zlen fr -> RN f (dec_value i fr e) = RoundFacts.inf_bits f.
Proof.
  intros f i fr e Hf V HD H.
  assert (Hs : sfmt_ok f = true) by (destruct Hf; subst; [exact sfmt_ok_F32|exact sfmt_ok_F64]).
  apply (overflow_threshold f Hs).
  eapply Qle_trans; [apply (thresholds_400 f Hf)|].
  eapply Qle_trans; [apply pow10Q_mono; exact H|]. apply dec_value_lower; assumption.
Qed.

Lemma RN_zero_digits : forall f i fr e, f = F32 \/ f = F64 -> valid_inputb i fr e = true ->
  digits_to_Z (i ++ fr) = 0 -> RN f (dec_value i fr e) = 0.
Proof.
  intros f i fr e Hf V HD.
  assert (Hs : sfmt_ok f = true) by (destruct Hf; subst; [exact sfmt_ok_F32|exact sfmt_ok_F64]).
  rewrite (RN_Qeq f Hs (dec_value i fr e) 0 (dec_value_nonneg _ _ _ V)); [apply RN_zero|].
  unfold dec_value. rewrite HD. unfold Qeq; cbn. lia.
Qed.

(** ** the two stages far away *)
Lemma lemire_zero_exit : forall f b q w t, 0 <= w -> w + 1 < 2 ^ 64 ->
  w = 0 /\ t = false \/ q < SMALLEST_POWER_OF_TEN f ->
  lemire TABLES f b (mkNumber q w t) = Ok (mkExt 0 0).
Proof.
  intros f b q w t Hw Hw1 Hc. unfold lemire. cbn [nexp nmant many].
  assert (Hcf : forall w', (w' =? 0) || (q <? SMALLEST_POWER_OF_TEN f) = true ->
                 compute_float TABLES f b q w' = Ok (mkExt 0 0)).
  { intros w' E. unfold compute_float. rewrite E. reflexivity. }
  rewrite Hcf by (destruct Hc as [[-> _]|Hq]; [reflexivity|apply orb_true_iff; right; apply Z.ltb_lt; exact Hq]).
  cbn [bind exp]. destruct t; cbn [andb].
  - destruct Hc as [[_ Hc]|Hq]; [discriminate|].
    change (0 <=? 0) with true. cbv iota.
    unfold u64_add, uop. replace (in_u 64 (w + 1)) with true
      by (symmetry; unfold in_u; apply andb_true_iff; split; [apply Z.leb_le|apply Z.ltb_lt]; lia).
    cbn [bind]. rewrite Hcf by (apply orb_true_iff; right; apply Z.ltb_lt; exact Hq).
    cbn [bind]. reflexivity.
  - reflexivity.
Qed.

Lemma lemire_inf_exit : forall f b q w t, f = F32 \/ f = F64 -> 0 < w -> w + 1 < 2 ^ 64 ->
  LARGEST_POWER_OF_TEN f < q ->
  lemire TABLES f b (mkNumber q w t) = Ok (mkExt 0 (INFINITE_POWER f)).
Proof.
  intros f b q w t Hf Hw Hw1 Hq. unfold lemire. cbn [nexp nmant many].
  assert (Hsl : SMALLEST_POWER_OF_TEN f <= LARGEST_POWER_OF_TEN f) by (destruct Hf; subst f; vm_compute; discriminate).
  assert (Hinf : 0 <= INFINITE_POWER f) by (destruct Hf; subst f; vm_compute; discriminate).
  assert (Hcf : forall w', 0 < w' -> compute_float TABLES f b q w' = Ok (mkExt 0 (INFINITE_POWER f))).
  { intros w' H'. unfold compute_float.
    replace ((w' =? 0) || (q <? SMALLEST_POWER_OF_TEN f)) with false
      by (symmetry; apply orb_false_iff; split; [apply Z.eqb_neq|apply Z.ltb_ge]; lia).
    replace (LARGEST_POWER_OF_TEN f <? q) with true by (symmetry; apply Z.ltb_lt; exact Hq). reflexivity. }
  rewrite Hcf by exact Hw. cbn [bind exp]. destruct t; cbn [andb]; [|reflexivity].
  replace (0 <=? INFINITE_POWER f) with true by (symmetry; apply Z.leb_le; exact Hinf). cbv iota.
  unfold u64_add, uop. replace (in_u 64 (w + 1)) with true
    by (symmetry; unfold in_u; apply andb_true_iff; split; [apply Z.leb_le|apply Z.ltb_lt]; lia).
  cbn [bind]. rewrite Hcf by lia. cbn [bind]. unfold ext_eqb. cbn [mant exp].
  rewrite !Z.eqb_refl. reflexivity.
Qed.

(** the moderate stage of any shipped configuration, far away *)
Lemma moderate_zero_exit : forall c f b n, f = F32 \/ f = F64 ->
  0 <= nmant n -> nmant n + 1 < 2 ^ 64 -> - 2 ^ 31 <= nexp n < 2 ^ 31 ->
  (nmant n = 0 /\ many n = false) \/ nexp n < - 400 ->
  moderate_path c TABLES BTABLES f b n = Ok (mkExt 0 0).
Proof.
  intros c f b [q w t] Hf Hw Hw1 Hq Hc. cbn [nmant nexp many] in *. unfold moderate_path.
  destruct (compact c).
  - apply bellerophon_zero_exit; [exact Hq|].
    destruct Hc as [[-> _]|Hc]; [left; reflexivity|right].
    assert (BIAS <= 400) by (vm_compute; discriminate). lia.
  - apply lemire_zero_exit; [exact Hw|exact Hw1|].
    destruct Hc as [Hc|Hc]; [left; exact Hc|right].
    assert (- 400 <= SMALLEST_POWER_OF_TEN f) by (destruct Hf; subst f; vm_compute; discriminate). lia.
Qed.

Lemma moderate_inf_exit : forall c f b n, f = F32 \/ f = F64 ->
  0 < nmant n -> nmant n + 1 < 2 ^ 64 -> - 2 ^ 31 <= nexp n < 2 ^ 31 -> 400 < nexp n ->
  moderate_path c TABLES BTABLES f b n = Ok (mkExt 0 (INFINITE_POWER f)).
Proof.
  intros c f b [q w t] Hf Hw Hw1 Hq Hc. cbn [nmant nexp many] in *. unfold moderate_path.
  destruct (compact c).
  - apply bellerophon_inf_exit; [exact Hq|lia|].
    assert (NLARGE * STEP - BIAS <= 400) by (vm_compute; discriminate). lia.
  - apply lemire_inf_exit; [exact Hf|exact Hw|exact Hw1|].
    assert (LARGEST_POWER_OF_TEN f <= 400) by (destruct Hf; subst f; vm_compute; discriminate). lia.
Qed.

(** ** parse_float far away *)
Lemma not_fast_far : forall f n, f = F32 \/ f = F64 -> nexp n < - 400 \/ 400 < nexp n ->
  fast_path_applies f n = false.
Proof.
  intros f n Hf H. unfold fast_path_applies, is_fast_path.
  assert (- 400 <= MIN_EXPONENT_FAST_PATH f /\ MAX_EXPONENT_DISGUISED_FAST_PATH f <= 400)
    by (destruct Hf; subst f; vm_compute; split; discriminate).
  destruct H as [H|H].
  - replace (MIN_EXPONENT_FAST_PATH f <=? nexp n) with false by (symmetry; apply Z.leb_gt; lia). reflexivity.
  - replace (nexp n <=? MAX_EXPONENT_DISGUISED_FAST_PATH f) with false by (symmetry; apply Z.leb_gt; lia).
    rewrite andb_false_r. reflexivity.
Qed.

(** the Number of a valid input, as far as needed here *)
Lemma parse_spec_facts : forall b i fr e, valid_inputb i fr e = true ->
  let n := parse_spec i fr e in
  0 <= nmant n /\ nmant n + 1 < 2 ^ 64 /\ - 2 ^ 31 <= nexp n < 2 ^ 31 /\
  nexp n = clamp_i32 (e - zlen fr + Z.max 0 (zlen (strip0 (i ++ fr)) - 19)) /\
  (digits_to_Z (i ++ fr) = 0 -> nmant n = 0 /\ many n = false) /\
  (nmant n = 0 -> digits_to_Z (i ++ fr) = 0) /\
  parse_number b i fr e = Ok n.
Proof.
  intros b i fr e V n.
  destruct (parse_number_spec b i fr e V) as (n' & Hn & Hm & He & S).
  assert (Hnn : n' = n) by (rewrite (parse_number_exact b i fr e V) in Hn; unfold n; congruence).
  subst n'. cbv zeta in S. destruct S as (Hmany & Hmant & Hexp & Sa & Sb & Sc & Sd & _).
  assert (H19 : 10 ^ 19 < 2 ^ 64) by (vm_compute; reflexivity).
  assert (Hlt : nmant n < 10 ^ 19).
  { destruct (many n) eqn:Em; [destruct (Sb eq_refl) as [[_ H] _]; exact H|].
    destruct (Sa eq_refl) as (H1 & H2 & _). rewrite H1. exact H2. }
  split; [lia|]. split.
  { pose proof (Zlt_le_succ _ _ Hlt) as Hs'. unfold Z.succ in Hs'. exact (Z.le_lt_trans _ _ _ Hs' H19). }
  split; [unfold i32_min, i32_max in He; lia|]. split; [exact Hexp|]. split; [exact Sc|]. split; [exact Sd|].
  exact (parse_number_exact b i fr e V).
Qed.

Lemma strip0_le : forall i fr, 0 <= Z.max 0 (zlen (strip0 (i ++ fr)) - 19) <= zlen i + zlen fr.
Proof.
  intros. pose proof (strip0_len (i ++ fr)) as H. rewrite ParseFacts.zlen_app in H.
  pose proof (zlen_nonneg _ (strip0 (i ++ fr))). pose proof (zlen_nonneg _ i). pose proof (zlen_nonneg _ fr). lia.
Qed.

Theorem parse_float_far_small : forall c f b i fr e,
  In c ALL_CONFIGS -> f = F32 \/ f = F64 -> valid_inputb i fr e = true ->
  e - zlen fr + (zlen i + zlen fr) < - 400 ->
  parse_float c TABLES BTABLES LIMITS f b i fr e = Ok (RN f (dec_value i fr e)).
Proof.
  intros c f b i fr e Hc Hf V Hfar.
  rewrite (RN_far_small f i fr e Hf V) by lia.
  destruct (parse_spec_facts b i fr e V) as (Hw & Hw1 & Hq & Hexp & _ & _ & Hpn). cbv zeta in *.
  set (n := parse_spec i fr e) in *.
  assert (Hn : nexp n < - 400).
  { rewrite Hexp. pose proof (strip0_le i fr). unfold clamp_i32, i32_min, i32_max.
    assert (2 ^ 31 = 2147483648) by reflexivity. lia. }
  pose proof (fast_ok_shipped c f Hc Hf) as Hok.
  assert (Hfo : fmt_ok f = true) by (destruct Hf; subst; [exact F32_ok|exact F64_ok]).
  unfold parse_float. rewrite Hpn. cbn [bind].
  rewrite (try_fast_path_eq c TABLES f b Hok n) by lia.
  rewrite (not_fast_far f n Hf (or_introl Hn)). cbn [bind].
  rewrite (moderate_zero_exit c f b n Hf Hw Hw1 Hq (or_intror Hn)). cbn [bind exp].
  change (0 <? 0) with false. cbv iota. cbn [bind].
  assert (Hew : 0 < 2 ^ ewidth f /\ 0 < 2 ^ MANTISSA_SIZE f) by (destruct Hf; subst f; vm_compute; split; reflexivity).
  destruct (pack_spec f Hfo b 0 0 ltac:(lia) ltac:(lia)) as [Hp _]. rewrite Hp. reflexivity.
Qed.

Theorem parse_float_far_large : forall c f b i fr e,
  In c ALL_CONFIGS -> f = F32 \/ f = F64 -> valid_inputb i fr e = true ->
  0 < digits_to_Z (i ++ fr) -> 400 < e - zlen fr ->
  parse_float c TABLES BTABLES LIMITS f b i fr e = Ok (RN f (dec_value i fr e)).
Proof.
  intros c f b i fr e Hc Hf V HD Hfar.
  rewrite (RN_far_large f i fr e Hf V HD) by lia.
  destruct (parse_spec_facts b i fr e V) as (Hw & Hw1 & Hq & Hexp & _ & Hnz & Hpn). cbv zeta in *.
  set (n := parse_spec i fr e) in *.
  assert (Hn : 400 < nexp n).
  { rewrite Hexp. pose proof (strip0_le i fr). unfold clamp_i32, i32_min, i32_max.
    assert (2 ^ 31 = 2147483648) by reflexivity. lia. }
  assert (Hw0 : 0 < nmant n) by (destruct (Z.eq_dec (nmant n) 0) as [E|E]; [specialize (Hnz E); lia|lia]).
  pose proof (fast_ok_shipped c f Hc Hf) as Hok.
  assert (Hfo : fmt_ok f = true) by (destruct Hf; subst; [exact F32_ok|exact F64_ok]).
  unfold parse_float. rewrite Hpn. cbn [bind].
  rewrite (try_fast_path_eq c TABLES f b Hok n) by lia.
  rewrite (not_fast_far f n Hf (or_intror Hn)). cbn [bind].
  rewrite (moderate_inf_exit c f b n Hf Hw0 Hw1 Hq Hn). cbn [bind exp].
  assert (Hinf : 0 <= INFINITE_POWER f) by (destruct Hf; subst f; vm_compute; discriminate).
  replace (INFINITE_POWER f <? 0) with false by (symmetry; apply Z.ltb_ge; exact Hinf). cbn [bind].
  destruct (pack_infinity f Hfo b) as [Hp _]. rewrite Hp. f_equal.
  destruct Hf; subst f; vm_compute; reflexivity.
Qed.

Theorem parse_float_far_zero : forall c f b i fr e,
  In c ALL_CONFIGS -> f = F32 \/ f = F64 -> valid_inputb i fr e = true ->
  digits_to_Z (i ++ fr) = 0 -> 400 < e - zlen fr ->
  parse_float c TABLES BTABLES LIMITS f b i fr e = Ok (RN f (dec_value i fr e)).
Proof.
  intros c f b i fr e Hc Hf V HD Hfar.
  rewrite (RN_zero_digits f i fr e Hf V HD).
  destruct (parse_spec_facts b i fr e V) as (Hw & Hw1 & Hq & Hexp & Hz & _ & Hpn). cbv zeta in *.
  set (n := parse_spec i fr e) in *. destruct (Hz HD) as [Hm0 Hmany].
  assert (Hn : 400 < nexp n).
  { rewrite Hexp. pose proof (strip0_le i fr). unfold clamp_i32, i32_min, i32_max.
    assert (2 ^ 31 = 2147483648) by reflexivity. lia. }
  pose proof (fast_ok_shipped c f Hc Hf) as Hok.
  assert (Hfo : fmt_ok f = true) by (destruct Hf; subst; [exact F32_ok|exact F64_ok]).
  unfold parse_float. rewrite Hpn. cbn [bind].
  rewrite (try_fast_path_eq c TABLES f b Hok n) by lia.
  rewrite (not_fast_far f n Hf (or_intror Hn)). cbn [bind].
  rewrite (moderate_zero_exit c f b n Hf Hw Hw1 Hq (or_introl (conj Hm0 Hmany))). cbn [bind exp].
  change (0 <? 0) with false. cbv iota. cbn [bind].
  assert (Hew : 0 < 2 ^ ewidth f /\ 0 < 2 ^ MANTISSA_SIZE f) by (destruct Hf; subst f; vm_compute; split; reflexivity).
  destruct (pack_spec f Hfo b 0 0 ltac:(lia) ltac:(lia)) as [Hp _]. rewrite Hp. reflexivity.
Qed.

(** ** The union: every valid input of at most 2^28 digits, EVERY i32 exponent *)
Theorem parse_float_correct : forall c f b i fr e,
  In c ALL_CONFIGS -> f = F32 \/ f = F64 ->
  valid_inputb i fr e = true -> zlen i + zlen fr <= 2 ^ 28 ->
  (compact c = false -> no_deep_fallback_at f b (parse_spec i fr e)) ->
  parse_float c TABLES BTABLES LIMITS f b i fr e = Ok (RN f (dec_value i fr e)).
Proof.
  intros c f b i fr e Hc Hf V HL Hdeep.
  assert (H28 : 2 ^ 28 = 268435456) by reflexivity. assert (H29 : 2 ^ 29 = 536870912) by reflexivity.
  pose proof (zlen_nonneg _ i). pose proof (zlen_nonneg _ fr).
  destruct (Z_lt_ge_dec (e - zlen fr) (- 2 ^ 29)) as [Hlo|Hlo].
  - apply parse_float_far_small; try assumption. lia.
  - destruct (Z_lt_ge_dec (2 ^ 29) (e - zlen fr)) as [Hhi|Hhi].
    + destruct (valid_input_inv _ _ _ V) as (Hi & Hfr & _).
      assert (Hd : forallb digitb (i ++ fr) = true) by (rewrite forallb_app, Hi, Hfr; reflexivity).
      pose proof (digits_bound _ Hd) as [HD0 _].
      destruct (Z.eq_dec (digits_to_Z (i ++ fr)) 0) as [HD|HD].
      * apply parse_float_far_zero; try assumption. lia.
      * apply parse_float_far_large; try assumption; lia.
    + assert (Hb : bounded_input i fr e) by (unfold bounded_input; lia).
      destruct (compact c) eqn:Ecomp.
      * apply parse_float_correct_compact; assumption.
      * apply parse_float_correct_noncompact; try assumption. apply Hdeep. reflexivity.
Qed.
