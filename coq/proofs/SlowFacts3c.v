(** * SlowFacts3c: [slow_correct] for builds without debug assertions: no lower bound on the
    exponent of the estimate.

    In [slow] the estimate [fp] is used (a) by `debug_assert!(fp.mant & (1 << 63) != 0)` (needs
    only the top bit of the mantissa), and (b) by [negative_digit_comp].  The positive branch and
    the capacity argument ([slow_capacity], SlowFacts3.v) need no lower bound on [exp fp].  The
    bound [-64 <= exp fp] of [slow_correct] comes only from `debug_assert!(shift <= 65)` inside
    `round` ([negative_digit_comp_exp_m65_debug], SlowFacts2d.v); without debug assertions
    [negative_digit_comp_correct_nodbg] (SlowFacts2d.v) covers [-2^30 <= exp fp <= 2^30].

    - [slow_correct_from_ndc]: the composition of SlowFacts3b.v, generic in the correctness
      statement assumed of [negative_digit_comp] for the given build and estimate;
    - [slow_correct_nodbg], [slow_correct_q_nodbg]: [dbg b = false], [-2^30 <= exp fp <= 2^30]
      (in particular [-2^20 <= exp fp]). *)
From Coq Require Import ZArith QArith List Bool Lia.
From Coq Require Import ZifyBool.
From ML Require Import base.RustSem model.Fmt model.Mask model.Num model.Number model.Rounding
  model.Vec model.Bigint model.Slow spec.Decimal spec.Round spec.RoundFacts spec.RneZ spec.RneBridge
  gen.Consts gen.Tables gen.PowDump.
From ML Require Import proofs.TableFacts proofs.ParseFacts proofs.LimbVal proofs.BigintFacts1
  proofs.BigintFacts2 proofs.RoundingFactsZ proofs.NumFacts proofs.TruncFacts proofs.TruncFacts2
  proofs.SlowFacts1 proofs.SlowFacts1b proofs.SlowFacts2 proofs.SlowFacts2b proofs.SlowFacts2c
  proofs.SlowFacts2d proofs.SlowFacts3 proofs.SlowFacts3b.
Import ListNotations.
Open Scope Z_scope.

Local Opaque Z.pow.
Arguments Z.pow : simpl never.

(** what the composition needs to know about [negative_digit_comp] for a given format, build and
    estimate (the conclusion of [negative_digit_comp_correct], [_64], [_nodbg]) *)
Definition ndc_correct (f : format) (b : build) (fp : extfloat) : Prop :=
  forall c bigmant exponent N,
  limbs_ok (vl bigmant) -> is_normalized (vl bigmant) = true -> lval (vl bigmant) = N -> 0 < N ->
  62 <= vcap bigmant -> (alloc c = false -> vcap bigmant = 62) -> zlen (vl bigmant) <= vcap bigmant ->
  - 2 ^ 30 <= exponent < 0 ->
  let bbits := rd_bits f fp in
  let Mb := dec_mant f bbits in
  let Eb := dec_exp f bbits in
  let beta := Eb - 1 - exponent in
  N * 2 ^ Z.max 0 (- beta) < B64 ^ 62 ->
  (2 * Mb + 1) * 5 ^ (- exponent) * 2 ^ Z.max 0 beta < B64 ^ 62 ->
  forall w, rne_bits f N (10 ^ (- exponent)) w -> bbits <= w <= bbits + 1 ->
  exists r, negative_digit_comp c TABLES LIMITS f b bigmant fp exponent = Ok r /\
            extended_to_float f b r = Ok w.

Lemma ndc_correct_64 f b fp :
  rfmt_ok f = true -> fmt_ok f = true ->
  2 ^ 63 <= mant fp < 2 ^ 64 -> - 64 <= exp fp <= 2 ^ 30 -> ndc_correct f b fp.
Proof.
  intros Hf OK Hm He c bigmant exponent N H1 H2 H3 H4 H5 H6 H7 H8.
  apply (negative_digit_comp_correct_64 c f b bigmant fp exponent N); assumption.
Qed.

Lemma ndc_correct_nodbg f b fp :
  rfmt_ok f = true -> fmt_ok f = true -> dbg b = false ->
  2 ^ 63 <= mant fp < 2 ^ 64 -> - 2 ^ 30 <= exp fp <= 2 ^ 30 -> ndc_correct f b fp.
Proof.
  intros Hf OK Hd Hm He c bigmant exponent N H1 H2 H3 H4 H5 H6 H7 H8.
  apply (negative_digit_comp_correct_nodbg c f b bigmant fp exponent N); assumption.
Qed.

Section Gen.
Variable f : format.
Hypothesis Hs : sfmt_ok f = true.
Hypothesis Ht : trunc_ok f = true.
Hypothesis OK : fmt_ok f = true.
Hypothesis Hf : rfmt_ok f = true.
Hypothesis Hcap : cap_ok f (slow_K f) = true.

(** the composition, from any correctness statement for [negative_digit_comp] *)
Theorem slow_correct_from_ndc c b i fr e fp :
  slow_side c TABLES LIMITS f = true ->
  valid_inputb i fr e = true ->
  let s := strip0 (i ++ fr) in
  let D := zlen s in
  let X := e - zlen fr in
  let n := parse_spec i fr e in
  let exponent := X + D - snd (pm_out (MAX_DIGITS f) [] s) in
  - 2 ^ 29 <= X <= 2 ^ 29 -> zlen i + zlen fr <= 2 ^ 29 ->
  0 < nmant n ->
  2 ^ 63 <= mant fp < 2 ^ 64 -> exp fp <= 2 ^ 30 ->
  (exponent < 0 -> ndc_correct f b fp) ->
  (0 <= exponent -> X + D <= slow_P) ->
  (exponent < 0 -> - slow_K f <= exponent) ->
  (exponent < 0 -> rd_bits f fp <= RN f (dec_value i fr e) <= rd_bits f fp + 1) ->
  exists r w, slow c TABLES LIMITS f b n fp i fr = Ok r /\
              extended_to_float f b r = Ok w /\
              w = RN f (dec_value i fr e).
Proof.
  intros Hside V s D X n exponent HX Hlen Hnm Hfp Hfe NDC Hhi Hlo Hest.
  destruct (valid_input_inv _ _ _ V) as (Hi & Hfr & Hlead & _ & _).
  assert (Hne : s <> []).
  { intros E. unfold n, parse_spec in Hnm. cbn [nmant] in Hnm. fold s in Hnm. rewrite E in Hnm.
    cbn [firstn] in Hnm. rewrite digits_to_Z_nil in Hnm. lia. }
  assert (Hsd : forallb digitb s = true).
  { apply strip0_digits. rewrite forallb_app, Hi, Hfr. reflexivity. }
  assert (Hhd : hd 48 s <> 48) by (apply strip0_hd; exact Hne).
  assert (Hmax : 0 < MAX_DIGITS f) by (unfold trunc_ok in Ht; lia).
  assert (Hpdc : pdc_side c TABLES LIMITS f = true).
  { unfold slow_side in Hside. do 4 (apply andb_prop in Hside; destruct Hside as [Hside _]). exact Hside. }
  destruct (slow_parse_branch c TABLES LIMITS f b fp i fr e Hside Hfp Hi Hfr Hlead Hne HX Hlen)
    as (v & cnt & E & Vp & G & Hpos & Hcnt & Hr & Hslow).
  fold s D X in Vp, Hr, Hslow. cbv zeta in Hr, Hslow.
  set (N := lval (vl v)) in *.
  assert (HN : N = fst (pm_out (MAX_DIGITS f) [] s)) by (rewrite <- Vp; reflexivity).
  assert (Hc : cnt = snd (pm_out (MAX_DIGITS f) [] s)) by (rewrite <- Vp; reflexivity).
  assert (Hexp : exponent = X + D - cnt) by (unfold exponent; rewrite <- Hc; reflexivity).
  rewrite <- Hexp in Hr, Hslow. clearbody exponent.
  assert (Hval : RN f (dec_value i fr e) = RN f (decQ N exponent)).
  { unfold dec_value. fold X. rewrite <- (strip0_value (i ++ fr)). fold s.
    change (inject_Z (digits_to_Z s) * pow10Q X)%Q with (decQ (digits_to_Z s) X).
    rewrite (pm_out_RN f s X Hs Ht Hsd Hhd). cbv zeta. rewrite <- HN, <- Hc. fold D.
    rewrite <- Hexp. reflexivity. }
  unfold n. rewrite Hslow. destruct (Z.leb_spec 0 exponent) as [Hge|Hlt].
  - (* positive branch: the estimate is not used *)
    assert (Hfit : N * 10 ^ exponent < B64 ^ BIGINT_LIMBS LIMITS).
    { change (BIGINT_LIMBS LIMITS) with 62.
      pose proof (pm_out_lt (MAX_DIGITS f) s Hmax Hsd) as [Hb _]. rewrite <- HN, <- Hc in Hb.
      assert (H10 : 0 < 10 ^ exponent) by (apply Z.pow_pos_nonneg; lia).
      assert (N * 10 ^ exponent < 10 ^ cnt * 10 ^ exponent) by (apply Z.mul_lt_mono_pos_r; lia).
      rewrite <- Z.pow_add_r in H by lia.
      assert (10 ^ (cnt + exponent) <= 10 ^ slow_P) by (apply Z.pow_le_mono_r; lia).
      pose proof slow_P_fits. lia. }
    assert (H231 : 2 ^ 30 < 2 ^ 31) by (vm_compute; reflexivity).
    destruct (positive_digit_comp_correct c TABLES LIMITS f b v exponent Hpdc G ltac:(lia)
                ltac:(lia) Hfit) as (r & w & R & W & S).
    exists r, w. split; [exact R|]. split; [exact W|].
    rewrite Hval. symmetry. apply (rne_bits_pos_RN f N exponent w Hs); [lia|lia|exact S].
  - (* negative branch *)
    pose (w := RN f (dec_value i fr e)).
    assert (Hrne : rne_bits f N (10 ^ (- exponent)) w).
    { unfold w. rewrite Hval. apply (RN_rne_bits_neg f N exponent Hs); lia. }
    specialize (Hlo Hlt). specialize (Hest Hlt). specialize (NDC Hlt).
    destruct (slow_capacity f fp exponent N w OK Hf Hcap Hfp Hfe Hpos ltac:(lia) Hrne
                ltac:(lia)) as [CA CB].
    destruct G as (G1 & G2 & G3 & G4 & G5).
    destruct (NDC c v exponent N G1 G2 eq_refl ltac:(lia) G4 G5 G3 ltac:(lia) CA CB w Hrne Hest)
      as (r & R & W).
    exists r, w. split; [exact R|]. split; [exact W|reflexivity].
Qed.

End Gen.

(** *** builds without debug assertions *)
Theorem slow_correct_nodbg c f b i fr e fp :
  dbg b = false ->
  f = F32 \/ f = F64 ->
  valid_inputb i fr e = true ->
  let s := strip0 (i ++ fr) in
  let D := zlen s in
  let X := e - zlen fr in
  let n := parse_spec i fr e in
  let exponent := X + D - snd (pm_out (MAX_DIGITS f) [] s) in
  - 2 ^ 29 <= X <= 2 ^ 29 -> zlen i + zlen fr <= 2 ^ 29 ->
  0 < nmant n ->
  2 ^ 63 <= mant fp < 2 ^ 64 -> - 2 ^ 30 <= exp fp <= 2 ^ 30 ->
  (0 <= exponent -> X + D <= slow_P) ->                                   (* dec_hi *)
  (exponent < 0 -> - slow_K f <= exponent) ->                             (* exponent_lo *)
  (exponent < 0 ->                                                        (* estimate premise *)
     rd_bits f fp <= RN f (dec_value i fr e) <= rd_bits f fp + 1) ->
  exists r w, slow c TABLES LIMITS f b n fp i fr = Ok r /\
              extended_to_float f b r = Ok w /\
              w = RN f (dec_value i fr e).
Proof.
  intros Hd Hf V s D X n exponent HX Hlen Hnm Hfp Hfe.
  destruct Hf as [->| ->].
  - apply (slow_correct_from_ndc F32 sfmt_ok_F32 trunc_ok_F32 F32_ok rfmt_ok_F32 cap_ok_F32 c b i fr e fp
             (slow_side_F32 c) V HX Hlen Hnm Hfp ltac:(lia)).
    intros _. apply (ndc_correct_nodbg F32 b fp rfmt_ok_F32 F32_ok Hd Hfp Hfe).
  - apply (slow_correct_from_ndc F64 sfmt_ok_F64 trunc_ok_F64 F64_ok rfmt_ok_F64 cap_ok_F64 c b i fr e fp
             (slow_side_F64 c) V HX Hlen Hnm Hfp ltac:(lia)).
    intros _. apply (ndc_correct_nodbg F64 b fp rfmt_ok_F64 F64_ok Hd Hfp Hfe).
Qed.

(** [slow_correct_q] without debug assertions: any estimate exponent down to [-2^30]
    (in particular [-2^20 <= exp fp]) *)
Corollary slow_correct_q_nodbg c f b i fr e fp :
  dbg b = false ->
  f = F32 \/ f = F64 ->
  valid_inputb i fr e = true ->
  let s := strip0 (i ++ fr) in
  let D := zlen s in
  let X := e - zlen fr in
  let n := parse_spec i fr e in
  let exponent := X + D - snd (pm_out (MAX_DIGITS f) [] s) in
  - 2 ^ 29 <= X <= 2 ^ 29 -> zlen i + zlen fr <= 2 ^ 29 ->
  0 < nmant n ->
  2 ^ 63 <= mant fp < 2 ^ 64 -> - 2 ^ 20 <= exp fp <= 2 ^ 30 ->
  - 400 <= nexp n <= slow_P - 19 ->                                       (* range of q *)
  (exponent < 0 ->                                                        (* estimate premise *)
     rd_bits f fp <= RN f (dec_value i fr e) <= rd_bits f fp + 1) ->
  exists r w, slow c TABLES LIMITS f b n fp i fr = Ok r /\
              extended_to_float f b r = Ok w /\
              w = RN f (dec_value i fr e).
Proof.
  intros Hd Hf V s D X n exponent HX Hlen Hnm Hfp Hfe Hq Hest.
  assert (Hmax : 0 < MAX_DIGITS f) by (destruct Hf as [->| ->]; vm_compute; reflexivity).
  assert (HD : 1 <= D <= zlen i + zlen fr).
  { unfold D. split.
    - destruct s as [|x r] eqn:Es; [|rewrite ParseFacts.zlen_cons; pose proof (zlen_nonneg r); lia].
      exfalso. unfold n, parse_spec in Hnm. cbn [nmant] in Hnm. fold s in Hnm. rewrite Es in Hnm.
      cbn [firstn] in Hnm. rewrite digits_to_Z_nil in Hnm. lia.
    - unfold s. pose proof (strip0_len (i ++ fr)) as H. rewrite ParseFacts.zlen_app in H. exact H. }
  assert (H229 : 2 ^ 29 + 2 ^ 29 = 2 ^ 30) by reflexivity.
  assert (H230 : 2 ^ 30 + 2 ^ 30 = 2 ^ 31) by reflexivity.
  assert (H220 : 2 ^ 20 < 2 ^ 30) by (vm_compute; reflexivity).
  assert (Hnexp : nexp n = X + Z.max 0 (D - 19)).
  { unfold n, parse_spec. cbn [nexp]. fold s D X. apply clamp_i32_id. unfold i32_min, i32_max. lia. }
  destruct (pm_out_cnt (MAX_DIGITS f) s Hmax) as [C1 C2]. fold D in C1, C2.
  apply (slow_correct_nodbg c f b i fr e fp Hd Hf V HX Hlen Hnm Hfp ltac:(lia)); fold s D X exponent.
  - intros _. unfold slow_P in *. lia.
  - intros _. unfold slow_K, exponent.
    destruct (Z_le_gt_dec D (MAX_DIGITS f)) as [Hle|Hgt]; [rewrite (C1 Hle)|specialize (C2 ltac:(lia))];
      unfold slow_P in Hq; lia.
  - exact Hest.
Qed.

(** ** The hypotheses are satisfiable: an estimate exponent of -70.
    0.(323 zeros)2470328229206232720...351044 is just above 2^-1075 (half the smallest subnormal,
    [ex64_brackets_midpoint] of SlowFacts2d.v): every configuration, release build: the smallest
    subnormal.  (With debug assertions the same call panics: [negative_digit_comp_exp_m65_debug].) *)
Definition ex_low_fr : list Z := zeros 323 ++ zdigits 79 (ex64_N + 1) [].
Definition ex_low_fp : extfloat := mkExt (2 ^ 63) (-70).

Example slow_correct_q_nodbg_hyps :
  let i := @nil Z in let fr := ex_low_fr in let e := 0 in let fp := ex_low_fp in
  let s := strip0 (i ++ fr) in
  let D := zlen s in
  let X := e - zlen fr in
  let n := parse_spec i fr e in
  let exponent := X + D - snd (pm_out (MAX_DIGITS F64) [] s) in
  dbg release_build = false /\
  valid_inputb i fr e = true /\ X = -402 /\ D = 79 /\ exponent = -402 /\ nexp n = -342 /\
  (- 2 ^ 29 <= X <= 2 ^ 29) /\ zlen i + zlen fr <= 2 ^ 29 /\ 0 < nmant n /\
  2 ^ 63 <= mant fp < 2 ^ 64 /\ - 2 ^ 20 <= exp fp <= 2 ^ 30 /\
  - 400 <= nexp n <= slow_P - 19 /\
  rd_bits F64 fp = 0 /\ RN F64 (dec_value i fr e) = 1.
Proof.
  vm_compute. repeat split; try reflexivity; discriminate.
Qed.

Example slow_correct_q_nodbg_inst c :
  exists r, slow c TABLES LIMITS F64 release_build (parse_spec [] ex_low_fr 0) ex_low_fp [] ex_low_fr = Ok r /\
            extended_to_float F64 release_build r = Ok 1.
Proof.
  destruct slow_correct_q_nodbg_hyps as
    (H0 & H1 & H2 & H3 & H4 & H5 & H6 & H7 & H8 & H9 & H10 & H11 & H12 & H13).
  destruct (slow_correct_q_nodbg c F64 release_build [] ex_low_fr 0 ex_low_fp H0 (or_intror eq_refl)
              H1 H6 H7 H8 H9 H10 H11) as (r & w & R & W & S).
  - intros _. rewrite H12, H13. lia.
  - exists r. split; [exact R|]. rewrite W, S, H13. reflexivity.
Qed.

(** the same call with debug assertions panics, on every configuration: the bound -64 of
    [slow_correct] cannot be dropped there *)
Example slow_low_exp_debug_panics :
  forallb (fun c =>
    match slow c TABLES LIMITS F64 checked_build (parse_spec [] ex_low_fr 0) ex_low_fp [] ex_low_fr with
    | Panic PkAssert => true
    | _ => false
    end) ALL_CONFIGS = true /\ dbg checked_build = true.
Proof. vm_compute. split; reflexivity. Qed.

Print Assumptions slow_correct_from_ndc.
Print Assumptions slow_correct_nodbg.
Print Assumptions slow_correct_q_nodbg.
