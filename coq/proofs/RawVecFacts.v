(** * RawVecFacts: the cell-level model of stackvec.rs (model/RawVec.v) refines the list-level
    reference (model/Vec.v, model/Bigint.v): no UB, no panic but the documented index panic,
    same outputs and same visible contents, for both build modes and all histories (C13). *)
From Coq Require Import ZArith List Bool Lia Znumtheory.
From Coq Require Import ZifyBool.
From ML Require Import base.RustSem model.Fmt model.Vec model.Bigint model.RawVec proofs.LimbVal.
From ML Require gen.Consts.
Import ListNotations.
Open Scope Z_scope.
Local Opaque Z.pow.

(** ** Generic list facts *)
Lemma zlen_nonneg {A} (l : list A) : 0 <= zlen l.
Proof. unfold zlen; lia. Qed.
Lemma zlen_app {A} (l1 l2 : list A) : zlen (l1 ++ l2) = zlen l1 + zlen l2.
Proof. unfold zlen; rewrite app_length; lia. Qed.
Lemma zlen_cons {A} (a : A) l : zlen (a :: l) = 1 + zlen l.
Proof. unfold zlen; cbn [length]; lia. Qed.
Lemma zlen_nil {A} : zlen (@nil A) = 0.
Proof. reflexivity. Qed.
Lemma zlen_map {A B} (f : A -> B) l : zlen (map f l) = zlen l.
Proof. unfold zlen; rewrite map_length; reflexivity. Qed.
Lemma zlen_repeat {A} (a : A) n : zlen (repeat a n) = Z.of_nat n.
Proof. unfold zlen; rewrite repeat_length; reflexivity. Qed.
Lemma zlen_to_nat {A} (l : list A) : Z.to_nat (zlen l) = length l.
Proof. unfold zlen; apply Nat2Z.id. Qed.

Lemma firstn_len_app {A} (l r : list A) : firstn (length l) (l ++ r) = l.
Proof. induction l as [|a l IH]; cbn [length firstn app]; [destruct r; reflexivity | now rewrite IH]. Qed.
Lemma skipn_len_app {A} (l r : list A) : skipn (length l) (l ++ r) = r.
Proof. induction l as [|a l IH]; cbn [length skipn app]; [reflexivity | exact IH]. Qed.
Lemma nth_len_app {A} (l r : list A) a d : nth (length l) (l ++ a :: r) d = a.
Proof. induction l as [|c l IH]; cbn [length nth app]; [reflexivity | exact IH]. Qed.
Lemma upd_len_app {A} (l r : list A) a c : upd (length l) (l ++ a :: r) c = l ++ c :: r.
Proof. induction l as [|e l IH]; cbn [length upd app]; [reflexivity | now rewrite IH]. Qed.
Lemma upd_length {A} n (l : list A) a : length (upd n l a) = length l.
Proof.
  revert n; induction l as [|e l IH]; intros [|n]; cbn [upd length]; try reflexivity.
  now rewrite IH.
Qed.
Lemma upd_app_l {A} n (l r : list A) a : (n < length l)%nat -> upd n (l ++ r) a = upd n l a ++ r.
Proof.
  revert n; induction l as [|e l IH]; intros [|n] H; cbn [length] in H; cbn [upd app]; try lia;
    try reflexivity.
  rewrite IH by lia; reflexivity.
Qed.
Lemma upd_map {A B} (f : A -> B) n l a : upd n (map f l) (f a) = map f (upd n l a).
Proof.
  revert n; induction l as [|e l IH]; intros [|n]; cbn [upd map]; try reflexivity.
  now rewrite IH.
Qed.
Lemma nth_map_some (l : list Z) n : (n < length l)%nat -> nth n (map Some l) None = Some (nth n l 0).
Proof.
  revert n; induction l as [|e l IH]; intros [|n] H; cbn [length] in H; cbn [nth map]; try lia;
    try reflexivity.
  apply IH; lia.
Qed.

Lemma collect_map_some l : collect (map Some l) = Ok l.
Proof. induction l as [|x l IH]; cbn [map collect]; [reflexivity|]. rewrite IH; reflexivity. Qed.

Lemma list_eqb_eq x y : list_eqb x y = true <-> x = y.
Proof.
  revert y; induction x as [|a x IH]; intros [|c y]; cbn [list_eqb]; split; intros H;
    try reflexivity; try discriminate.
  - apply andb_true_iff in H as [H1 H2]. apply Z.eqb_eq in H1. apply IH in H2. congruence.
  - inversion H; subst. apply andb_true_iff; split; [apply Z.eqb_refl | now apply IH].
Qed.

(** ** Outcome monad *)
Lemma bind_ok {A B} (x : outcome A) (f : A -> outcome B) a : x = Ok a -> bind x f = f a.
Proof. intros ->; reflexivity. Qed.

Lemma uop_ok b n r : 0 <= r < 2 ^ n -> uop b n r = Ok r.
Proof.
  intros H. unfold uop, in_u.
  destruct (0 <=? r) eqn:E1; destruct (r <? 2 ^ n) eqn:E2; cbn [andb]; try reflexivity; lia.
Qed.
Lemma debug_assert_ok b c : c = true -> debug_assert b c = Ok tt.
Proof. intros ->. unfold debug_assert. rewrite andb_false_r. reflexivity. Qed.
Lemma pow16 : 2 ^ 16 = 65536. Proof. reflexivity. Qed.
Lemma pow64 : 2 ^ 64 = 18446744073709551616. Proof. reflexivity. Qed.
Lemma pow63 : 2 ^ 63 = 9223372036854775808. Proof. reflexivity. Qed.
Lemma B64_val : B64 = 18446744073709551616. Proof. reflexivity. Qed.
Lemma as_u16_small x : 0 <= x <= 65535 -> as_u16 x = x.
Proof. intros H. unfold as_u16, wrapu. rewrite pow16. apply Z.mod_small. lia. Qed.

Section Refinement.
Variable L : limits.
Variable b : build.

(** the vector's capacity fits the `u16` length field, and `from_u64` has room (its
    `debug_assert!(vec.capacity() >= 2)`); true of the crate: BIGINT_LIMBS = 62 *)
Definition limits_ok : Prop := 2 <= BIGINT_LIMBS L <= 65535.
Hypothesis HL : limits_ok.

(** ** The invariant and the abstraction *)
Definition Inv (r : raw) : Prop :=
  length (cells r) = Z.to_nat (BIGINT_LIMBS L) /\
  0 <= rlen r <= BIGINT_LIMBS L /\
  forall k, 0 <= k < rlen r ->
    exists x, nth (Z.to_nat k) (cells r) None = Some x /\ 0 <= x < 2 ^ 64.

Definition cell_val (o : option Z) : Z := match o with Some x => x | None => 0 end.
Definition abs (r : raw) : list Z := map cell_val (firstn (Z.to_nat (rlen r)) (cells r)).

(** working form: the buffer is the visible limbs followed by arbitrary cells *)
Definition Rep (r : raw) (l : list Z) : Prop :=
  exists rest, cells r = map Some l ++ rest /\ rlen r = zlen l /\
               zlen l + zlen rest = BIGINT_LIMBS L /\ limbs_ok l.

Lemma prefix_some (cs : list (option Z)) (n : nat) :
  (n <= length cs)%nat ->
  (forall k, (k < n)%nat -> exists x, nth k cs None = Some x /\ 0 <= x < 2 ^ 64) ->
  firstn n cs = map Some (map cell_val (firstn n cs)) /\ limbs_ok (map cell_val (firstn n cs)).
Proof.
  revert cs; induction n as [|n IH]; intros cs Hn H.
  - cbn [firstn map]. split; [reflexivity | constructor].
  - destruct cs as [|c cs]; [cbn [length] in Hn; lia|].
    cbn [firstn map]. destruct (H 0%nat ltac:(lia)) as [x [Hx Hr]]. cbn [nth] in Hx. subst c.
    destruct (IH cs) as [E1 E2].
    + cbn [length] in Hn; lia.
    + intros k Hk. apply (H (S k)). lia.
    + split.
      * cbn [cell_val]. f_equal. exact E1.
      * constructor; [cbn [cell_val]; rewrite B64_eq; exact Hr | exact E2].
Qed.

Lemma Inv_Rep r : Inv r -> Rep r (abs r).
Proof.
  intros (Hlen & Hr & Hk).
  assert (Hn : (Z.to_nat (rlen r) <= length (cells r))%nat) by lia.
  destruct (prefix_some (cells r) (Z.to_nat (rlen r)) Hn) as [E1 E2].
  { intros k Hk'. replace k with (Z.to_nat (Z.of_nat k)) by apply Nat2Z.id. apply Hk. lia. }
  exists (skipn (Z.to_nat (rlen r)) (cells r)). unfold abs.
  split; [|split; [|split]].
  - rewrite <- E1. symmetry; apply firstn_skipn.
  - unfold zlen. rewrite map_length, firstn_length. lia.
  - unfold zlen. rewrite map_length, firstn_length, skipn_length. lia.
  - exact E2.
Qed.

Lemma limbs_ok_nth l k : limbs_ok l -> (k < length l)%nat -> 0 <= nth k l 0 < 2 ^ 64.
Proof.
  intros H; revert k; induction H as [|x l Hx _ IH]; intros k Hk; cbn [length] in Hk; [lia|].
  destruct k as [|k]; cbn [nth]; [rewrite <- B64_eq; exact Hx | apply IH; lia].
Qed.

Lemma Rep_Inv r l : Rep r l -> Inv r /\ abs r = l.
Proof.
  intros (rest & Hc & Hlen & Hcap & Hok).
  pose proof (zlen_nonneg l). pose proof (zlen_nonneg rest).
  split; [split; [|split]|].
  - rewrite Hc, app_length, map_length. unfold zlen in *. lia.
  - lia.
  - intros k Hk. rewrite Hc, app_nth1 by (rewrite map_length; unfold zlen in *; lia).
    exists (nth (Z.to_nat k) l 0). split.
    + apply nth_map_some. unfold zlen in *; lia.
    + apply limbs_ok_nth; [exact Hok | unfold zlen in *; lia].
  - unfold abs. rewrite Hc, Hlen, zlen_to_nat, <- (map_length Some l), firstn_len_app.
    rewrite map_map. cbn [cell_val]. apply map_id.
Qed.

Lemma Rep_abs r l : Rep r l -> abs r = l.
Proof. intros H; apply (Rep_Inv r l H). Qed.

Theorem len_le_cap r : Inv r -> 0 <= rlen r <= cap L /\ rlen r = zlen (abs r) /\ zlen (cells r) = cap L.
Proof.
  intros H. pose proof (Inv_Rep r H) as (rest & Hc & Hlen & Hcap & _).
  destruct H as (Hl & Hr & _). unfold cap, zlen in *. lia.
Qed.

(** ** Slice view, indexed read and write *)
Lemma limbs_ok_app l1 l2 : limbs_ok (l1 ++ l2) <-> limbs_ok l1 /\ limbs_ok l2.
Proof. unfold limbs_ok. apply Forall_app. Qed.

Lemma limbs_ok_upd l n x : limbs_ok l -> 0 <= x < B64 -> limbs_ok (upd n l x).
Proof.
  intros H Hx; revert n; induction H as [|a l Ha Hl IH]; intros [|n]; cbn [upd].
  - constructor.
  - constructor.
  - constructor; assumption.
  - constructor; [assumption | apply IH].
Qed.

Lemma limbs_ok_firstn l n : limbs_ok l -> limbs_ok (firstn n l).
Proof.
  intros H. rewrite <- (firstn_skipn n l) in H. apply limbs_ok_app in H. tauto.
Qed.

Lemma limbs_ok_repeat x n : 0 <= x < B64 -> limbs_ok (repeat x n).
Proof. intros H; induction n; cbn [repeat]; constructor; auto. Qed.

Lemma deref_rep r l : Rep r l -> deref r = Ok l.
Proof.
  intros (rest & Hc & Hlen & Hcap & Hok). unfold deref.
  pose proof (zlen_nonneg l); pose proof (zlen_nonneg rest).
  assert (E : (0 <=? rlen r) && (rlen r <=? zlen (cells r)) = true).
  { rewrite Hc, zlen_app, zlen_map. lia. }
  rewrite E, Hc, Hlen, zlen_to_nat, <- (map_length Some l), firstn_len_app.
  apply collect_map_some.
Qed.

Lemma get_rep r l i :
  Rep r l ->
  get r i = Ok (if (0 <=? i) && (i <? zlen l) then Some (nth (Z.to_nat i) l 0) else None).
Proof.
  intros H. unfold get. rewrite (deref_rep r l H). cbn [bind].
  destruct ((0 <=? i) && (i <? zlen l)); reflexivity.
Qed.

Lemma index_read_rep r l i :
  Rep r l -> 0 <= i < zlen l -> index_read r i = Ok (nth (Z.to_nat i) l 0).
Proof.
  intros H Hi. unfold index_read. rewrite (deref_rep r l H). cbn [bind].
  replace ((0 <=? i) && (i <? zlen l)) with true by lia. reflexivity.
Qed.

Lemma set_rep r l i x :
  Rep r l -> 0 <= i < zlen l -> 0 <= x < B64 ->
  exists r', set r i x = Ok r' /\ Rep r' (upd (Z.to_nat i) l x).
Proof.
  intros H Hi Hx. unfold set. rewrite (deref_rep r l H). cbn [bind].
  replace ((0 <=? i) && (i <? zlen l)) with true by lia.
  destruct H as (rest & Hc & Hlen & Hcap & Hok).
  eexists; split; [reflexivity|].
  exists rest. cbn [cells rlen]. split; [|split; [|split]].
  - rewrite Hc, upd_app_l by (rewrite map_length; unfold zlen in *; lia).
    rewrite upd_map. reflexivity.
  - unfold zlen in *. rewrite upd_length. exact Hlen.
  - unfold zlen in *. rewrite upd_length. exact Hcap.
  - apply limbs_ok_upd; assumption.
Qed.

Lemma set_oob_panics r l i x :
  Rep r l -> ~ (0 <= i < zlen l) -> set r i x = Panic PkIndex.
Proof.
  intros H Hi. unfold set. rewrite (deref_rep r l H). cbn [bind].
  replace ((0 <=? i) && (i <? zlen l)) with false by lia. reflexivity.
Qed.

(** ** new, set_len *)
Lemma new_rep : Rep (raw_new L) [].
Proof.
  exists (repeat None (Z.to_nat (BIGINT_LIMBS L))). unfold raw_new, cap. cbn [cells rlen map app].
  split; [reflexivity|]. split; [reflexivity|]. split; [|constructor].
  rewrite zlen_repeat, zlen_nil. unfold limits_ok in HL. lia.
Qed.

Lemma set_len_rep r l n :
  Rep r l -> 0 <= n <= zlen l ->
  exists r', set_len L b r n = Ok r' /\ Rep r' (firstn (Z.to_nat n) l).
Proof.
  intros (rest & Hc & Hlen & Hcap & Hok) Hn. unfold set_len, cap.
  pose proof (zlen_nonneg rest). unfold limits_ok in HL.
  rewrite !debug_assert_ok by lia. cbn [bind].
  replace (BIGINT_LIMBS L <? n) with false by lia.
  eexists; split; [reflexivity|].
  exists (map Some (skipn (Z.to_nat n) l) ++ rest). cbn [cells rlen].
  split; [|split; [|split]].
  - rewrite Hc, app_assoc, <- map_app, firstn_skipn. reflexivity.
  - rewrite as_u16_small by lia. unfold zlen in *. rewrite firstn_length. lia.
  - rewrite zlen_app, zlen_map. unfold zlen in *. rewrite firstn_length, skipn_length. lia.
  - apply limbs_ok_firstn; exact Hok.
Qed.

(** ** push, pop *)
Lemma push_unchecked_rep r l x :
  Rep r l -> zlen l < BIGINT_LIMBS L -> 0 <= x < B64 ->
  exists r', push_unchecked L b r x = Ok r' /\ Rep r' (l ++ [x]).
Proof.
  intros (rest & Hc & Hlen & Hcap & Hok) Hlt Hx. unfold push_unchecked, cap.
  pose proof (zlen_nonneg l). unfold limits_ok in HL.
  destruct rest as [|c rest]; [rewrite zlen_nil in Hcap; lia|]. rewrite zlen_cons in Hcap.
  pose proof (zlen_nonneg rest).
  rewrite debug_assert_ok by lia. cbn [bind].
  unfold write_cell, in_buf. rewrite Hc, zlen_app, zlen_map, zlen_cons.
  replace ((0 <=? rlen r) && (rlen r <? zlen l + (1 + zlen rest))) with true by lia.
  cbn [bind]. rewrite uop_ok by (rewrite pow16; lia). cbn [bind].
  eexists; split; [reflexivity|].
  exists rest. cbn [cells rlen]. split; [|split; [|split]].
  - rewrite Hlen, zlen_to_nat, <- (map_length Some l), upd_len_app.
    rewrite map_app, <- app_assoc. reflexivity.
  - rewrite zlen_app, zlen_cons, zlen_nil. lia.
  - rewrite zlen_app, zlen_cons, zlen_nil. lia.
  - apply limbs_ok_app. split; [exact Hok|]. constructor; [exact Hx | constructor].
Qed.

Lemma try_push_ok r l x :
  Rep r l -> zlen l < BIGINT_LIMBS L -> 0 <= x < B64 ->
  exists r', try_push L b r x = Ok (r', true) /\ Rep r' (l ++ [x]).
Proof.
  intros H Hlt Hx. unfold try_push, cap.
  destruct (push_unchecked_rep r l x H Hlt Hx) as (r' & E & H').
  destruct H as (rest & Hc & Hlen & Hcap & Hok).
  replace (rlen r <? BIGINT_LIMBS L) with true by lia.
  rewrite E. cbn [bind]. eauto.
Qed.

Lemma try_push_full r l x :
  Rep r l -> BIGINT_LIMBS L <= zlen l -> try_push L b r x = Ok (r, false).
Proof.
  intros (rest & Hc & Hlen & Hcap & Hok) Hge. unfold try_push, cap.
  replace (rlen r <? BIGINT_LIMBS L) with false by lia. reflexivity.
Qed.

Lemma pop_empty r : Rep r [] -> pop b r = Ok (r, None).
Proof.
  intros (rest & Hc & Hlen & Hcap & Hok). unfold pop. rewrite Hlen, zlen_nil. reflexivity.
Qed.

Lemma pop_snoc r l x :
  Rep r (l ++ [x]) -> exists r', pop b r = Ok (r', Some x) /\ Rep r' l.
Proof.
  intros (rest & Hc & Hlen & Hcap & Hok). unfold pop, pop_unchecked.
  rewrite zlen_app, zlen_cons, zlen_nil in *.
  pose proof (zlen_nonneg l). pose proof (zlen_nonneg rest). unfold limits_ok in HL.
  replace (rlen r =? 0) with false by lia.
  rewrite debug_assert_ok by lia. cbn [bind].
  rewrite uop_ok by (rewrite pow16; lia). cbn [bind].
  rewrite map_app, <- app_assoc in Hc. cbn [map app] in Hc.
  unfold read_cell, in_buf. rewrite Hc, zlen_app, zlen_map, zlen_cons.
  replace ((0 <=? rlen r - 1) && (rlen r - 1 <? zlen l + (1 + zlen rest))) with true by lia.
  replace (rlen r - 1) with (zlen l) by lia.
  rewrite zlen_to_nat, <- (map_length Some l), nth_len_app. cbn [bind].
  eexists; split; [reflexivity|].
  exists (Some x :: rest). cbn [cells rlen]. split; [|split; [|split]].
  - reflexivity.
  - reflexivity.
  - rewrite zlen_cons. lia.
  - apply limbs_ok_app in Hok. tauto.
Qed.

(** ** extend, resize, try_from *)
Lemma skipn_len_plus_app {A} (l r : list A) n : skipn (length l + n) (l ++ r) = skipn n r.
Proof. induction l as [|a l IH]; cbn [length skipn app Nat.add]; [reflexivity | exact IH]. Qed.

Lemma try_extend_ok r l s :
  Rep r l -> limbs_ok s -> zlen l + zlen s <= BIGINT_LIMBS L ->
  exists r', try_extend L b r s = Ok (r', true) /\ Rep r' (l ++ s).
Proof.
  intros (rest & Hc & Hlen & Hcap & Hok) Hs Hfit. unfold try_extend, extend_unchecked, cap.
  pose proof (zlen_nonneg l). pose proof (zlen_nonneg s). pose proof (zlen_nonneg rest).
  unfold limits_ok in HL. unfold usize_add.
  rewrite !uop_ok by (rewrite pow64; lia). cbn [bind].
  replace (rlen r + zlen s <=? BIGINT_LIMBS L) with true by lia.
  rewrite debug_assert_ok by lia. cbn [bind].
  unfold write_cells. rewrite Hc, zlen_app, zlen_map.
  replace ((0 <=? rlen r) && (rlen r + zlen s <=? zlen l + zlen rest)) with true by lia.
  cbn [bind]. unfold set_len, cap.
  rewrite !debug_assert_ok by lia. cbn [bind].
  replace (BIGINT_LIMBS L <? rlen r + zlen s) with false by lia. cbn [bind].
  eexists; split; [reflexivity|].
  exists (skipn (length s) rest). cbn [cells rlen]. split; [|split; [|split]].
  - rewrite Hlen, zlen_to_nat, <- (map_length Some l), firstn_len_app.
    replace (Z.to_nat (zlen l + zlen s)) with (length (map Some l) + length s)%nat
      by (rewrite map_length; unfold zlen; lia).
    rewrite skipn_len_plus_app, map_app, <- app_assoc. reflexivity.
  - rewrite as_u16_small by lia. rewrite zlen_app. lia.
  - rewrite zlen_app. unfold zlen in *. rewrite skipn_length. lia.
  - apply limbs_ok_app; split; assumption.
Qed.

Lemma try_extend_full r l s :
  Rep r l -> zlen s < 2 ^ 63 -> BIGINT_LIMBS L < zlen l + zlen s ->
  try_extend L b r s = Ok (r, false).
Proof.
  intros (rest & Hc & Hlen & Hcap & Hok) Hs Hfit. unfold try_extend, cap.
  pose proof (zlen_nonneg l). pose proof (zlen_nonneg s). pose proof (zlen_nonneg rest).
  unfold limits_ok in HL. unfold usize_add.
  rewrite !uop_ok by (rewrite pow64; rewrite pow63 in Hs; lia). cbn [bind].
  replace (rlen r + zlen s <=? BIGINT_LIMBS L) with false by lia. reflexivity.
Qed.

Lemma fill_rep n : forall l rest x,
  (n <= length rest)%nat ->
  fill n (map Some l ++ rest) (zlen l) x = Ok (map Some (l ++ repeat x n) ++ skipn n rest).
Proof.
  induction n as [|n IH]; intros l rest x Hn.
  - cbn [fill repeat skipn]. rewrite app_nil_r. reflexivity.
  - destruct rest as [|c rest]; [cbn [length] in Hn; lia|]. cbn [length] in Hn.
    cbn [fill]. unfold write_cell, in_buf. rewrite zlen_app, zlen_map, zlen_cons.
    pose proof (zlen_nonneg l). pose proof (zlen_nonneg rest).
    replace ((0 <=? zlen l) && (zlen l <? zlen l + (1 + zlen rest))) with true by lia.
    cbn [bind]. rewrite zlen_to_nat, <- (map_length Some l), upd_len_app.
    replace (map Some l ++ Some x :: rest) with (map Some (l ++ [x]) ++ rest)
      by (rewrite map_app, <- app_assoc; reflexivity).
    replace (zlen l + 1) with (zlen (l ++ [x])) by (rewrite zlen_app, zlen_cons, zlen_nil; lia).
    rewrite IH by lia. cbn [skipn repeat]. rewrite <- app_assoc. reflexivity.
Qed.

Lemma try_resize_ok r l len x :
  Rep r l -> 0 <= len <= BIGINT_LIMBS L -> 0 <= x < B64 ->
  exists r', try_resize L b r len x = Ok (r', true) /\ Rep r' (resize_list l len x).
Proof.
  intros (rest & Hc & Hlen & Hcap & Hok) Hl Hx. unfold try_resize, resize_unchecked, cap.
  pose proof (zlen_nonneg l). pose proof (zlen_nonneg rest). unfold limits_ok in HL.
  replace (BIGINT_LIMBS L <? len) with false by lia.
  rewrite debug_assert_ok by lia. cbn [bind]. unfold resize_list.
  rewrite Hlen. destruct (zlen l <? len) eqn:E.
  - unfold usize_sub. rewrite uop_ok by (rewrite pow64; lia). cbn [bind].
    rewrite Hc, fill_rep by (unfold zlen in *; lia). cbn [bind].
    eexists; split; [reflexivity|].
    exists (skipn (Z.to_nat (len - zlen l)) rest). cbn [cells rlen]. split; [|split; [|split]].
    + reflexivity.
    + rewrite as_u16_small by lia. rewrite zlen_app, zlen_repeat. lia.
    + rewrite zlen_app, zlen_repeat. unfold zlen in *. rewrite skipn_length. lia.
    + apply limbs_ok_app; split; [exact Hok | apply limbs_ok_repeat; exact Hx].
  - unfold truncate_unchecked, cap. rewrite debug_assert_ok by lia. cbn [bind].
    replace (BIGINT_LIMBS L <? len) with false by lia. cbn [bind].
    eexists; split; [reflexivity|].
    exists (map Some (skipn (Z.to_nat len) l) ++ rest). cbn [cells rlen].
    split; [|split; [|split]].
    + rewrite Hc, app_assoc, <- map_app, firstn_skipn. reflexivity.
    + rewrite as_u16_small by lia. unfold zlen in *. rewrite firstn_length. lia.
    + rewrite zlen_app, zlen_map. unfold zlen in *. rewrite firstn_length, skipn_length. lia.
    + apply limbs_ok_firstn; exact Hok.
Qed.

Lemma try_resize_full r len x :
  BIGINT_LIMBS L < len -> try_resize L b r len x = Ok (r, false).
Proof.
  intros H. unfold try_resize, cap. replace (BIGINT_LIMBS L <? len) with true by lia. reflexivity.
Qed.

Lemma try_from_ok s :
  limbs_ok s -> zlen s <= BIGINT_LIMBS L ->
  exists r', try_from L b s = Ok (Some r') /\ Rep r' s.
Proof.
  intros Hs Hfit. unfold try_from.
  destruct (try_extend_ok (raw_new L) [] s new_rep Hs) as (r' & E & H').
  { rewrite zlen_nil; lia. }
  rewrite E. cbn [bind]. eauto.
Qed.

Lemma try_from_full s :
  zlen s < 2 ^ 63 -> BIGINT_LIMBS L < zlen s -> try_from L b s = Ok None.
Proof.
  intros Hs Hfit. unfold try_from.
  rewrite (try_extend_full (raw_new L) [] s new_rep Hs) by (rewrite zlen_nil; lia).
  reflexivity.
Qed.

(** ** normalize, is_normalized *)
Lemma normalize_list_snoc l x :
  normalize_list (l ++ [x]) = if x =? 0 then normalize_list l else l ++ [x].
Proof.
  unfold normalize_list. rewrite rev_app_distr. cbn [rev app].
  destruct x; cbn [strip_zeros Z.eqb]; try reflexivity;
    cbn [rev]; rewrite rev_involutive; reflexivity.
Qed.

Lemma wrapping_sub_1 n : 0 < n < 2 ^ 64 -> usize_wrapping_sub n 1 = n - 1.
Proof. intros H. unfold usize_wrapping_sub, wrapu. apply Z.mod_small. lia. Qed.

Lemma normalize_loop_rep l : forall r fuel,
  Rep r l -> (length l < fuel)%nat ->
  exists r', normalize_loop L b fuel r = Ok r' /\ Rep r' (normalize_list l).
Proof.
  induction l as [|x l IH] using rev_ind; intros r fuel H Hf.
  - destruct fuel as [|fuel]; [lia|]. cbn [normalize_loop].
    rewrite (get_rep r [] _ H). change (zlen (@nil Z)) with 0.
    replace ((0 <=? usize_wrapping_sub (rlen r) 1) && (usize_wrapping_sub (rlen r) 1 <? 0))
      with false by lia.
    cbn [bind]. exists r; split; [reflexivity | exact H].
  - destruct fuel as [|fuel]; [lia|]. cbn [normalize_loop].
    rewrite (get_rep r _ _ H).
    pose proof H as (rest & Hc & Hlen & Hcap & Hok).
    rewrite zlen_app, zlen_cons in *. change (zlen (@nil Z)) with 0 in *.
    pose proof (zlen_nonneg l). pose proof (zlen_nonneg rest). unfold limits_ok in HL.
    rewrite wrapping_sub_1 by (rewrite pow64; lia).
    replace ((0 <=? rlen r - 1) && (rlen r - 1 <? zlen l + (1 + 0))) with true by lia.
    replace (rlen r - 1) with (zlen l) by lia.
    rewrite zlen_to_nat, nth_len_app. cbn [bind]. rewrite normalize_list_snoc.
    destruct (x =? 0) eqn:E.
    + unfold usize_sub. rewrite uop_ok by (rewrite pow64; lia). cbn [bind].
      destruct (set_len_rep r _ (rlen r - 1) H) as (r1 & E1 & Hr1).
      { rewrite zlen_app, zlen_cons. change (zlen (@nil Z)) with 0. lia. }
      rewrite E1. cbn [bind].
      replace (rlen r - 1) with (zlen l) in Hr1 by lia.
      rewrite zlen_to_nat, firstn_len_app in Hr1.
      apply IH; [exact Hr1|]. rewrite app_length in Hf. cbn [length] in Hf. lia.
    + exists r; split; [reflexivity | exact H].
Qed.

Lemma normalize_rep r l :
  Rep r l -> exists r', normalize L b r = Ok r' /\ Rep r' (normalize_list l).
Proof.
  intros H. unfold normalize. apply normalize_loop_rep; [exact H|].
  destruct H as (rest & Hc & Hlen & Hcap & Hok). rewrite Hlen, zlen_to_nat. lia.
Qed.

Lemma is_normalized_rep r l :
  Rep r l -> RawVec.is_normalized r = Ok (Bigint.is_normalized l).
Proof.
  intros H. unfold RawVec.is_normalized, Bigint.is_normalized. rewrite (get_rep r l _ H).
  destruct H as (rest & Hc & Hlen & Hcap & Hok).
  destruct l as [|x l] using rev_ind.
  - change (zlen (@nil Z)) with 0.
    replace ((0 <=? usize_wrapping_sub (rlen r) 1) && (usize_wrapping_sub (rlen r) 1 <? 0))
      with false by lia.
    reflexivity.
  - clear IHl. rewrite zlen_app, zlen_cons in *. change (zlen (@nil Z)) with 0 in *.
    pose proof (zlen_nonneg l). pose proof (zlen_nonneg rest). unfold limits_ok in HL.
    rewrite wrapping_sub_1 by (rewrite pow64; lia).
    replace ((0 <=? rlen r - 1) && (rlen r - 1 <? zlen l + (1 + 0))) with true by lia.
    replace (rlen r - 1) with (zlen l) by lia.
    rewrite zlen_to_nat, nth_len_app, rev_app_distr. cbn [bind rev app].
    destruct x; reflexivity.
Qed.

(** ** add_small, mul_small *)
Lemma zlen_snoc {A} (l : list A) x : zlen (l ++ [x]) = zlen l + 1.
Proof. unfold zlen. rewrite app_length. cbn [length]. lia. Qed.

Lemma scalar_add_range x y : 0 <= fst (scalar_add x y) < B64.
Proof. unfold scalar_add. cbn [fst]. apply Z.mod_pos_bound. reflexivity. Qed.

Lemma add_carry_nil carry : add_carry [] carry = ([], carry).
Proof. reflexivity. Qed.

Lemma add_loop_rep suf : forall pre r fuel carry suf' c',
  Rep r (pre ++ suf) -> (length suf < fuel)%nat -> 0 <= carry < B64 ->
  add_carry suf carry = (suf', c') ->
  exists r', add_loop b fuel r (zlen pre) carry = Ok (r', c') /\ Rep r' (pre ++ suf') /\
             0 <= c' < B64.
Proof.
  induction suf as [|x t IH]; intros pre r fuel carry suf' c' H Hf Hcarry Hspec.
  - cbn [add_carry] in Hspec. inversion Hspec; subst suf' c'. clear Hspec.
    pose proof H as (rest & Hc & Hlen & Hcap & Hok). rewrite app_nil_r in Hlen.
    destruct fuel as [|fuel]; [cbn [length] in Hf; lia|].
    cbn [add_loop]. replace (zlen pre <? rlen r) with false by lia.
    rewrite andb_false_r. exists r. auto.
  - pose proof H as (rest & Hc & Hlen & Hcap & Hok).
    rewrite zlen_app, zlen_cons in Hlen, Hcap.
    pose proof (zlen_nonneg pre). pose proof (zlen_nonneg t). pose proof (zlen_nonneg rest).
    unfold limits_ok in HL.
    destruct fuel as [|fuel]; [cbn [length] in Hf; lia|]. cbn [length] in Hf.
    cbn [add_carry] in Hspec. cbn [add_loop].
    replace (zlen pre <? rlen r) with true by lia. rewrite andb_true_r.
    destruct (carry =? 0) eqn:E0; cbn [negb].
    + inversion Hspec; subst suf' c'. exists r. split; [f_equal; f_equal; lia|]. split; [exact H|].
      pose proof B64_pos; lia.
    + rewrite (index_read_rep r _ (zlen pre) H) by (rewrite zlen_app, zlen_cons; lia).
      cbn [bind]. rewrite zlen_to_nat, nth_len_app.
      pose proof (scalar_add_range x carry) as Hs.
      destruct (scalar_add x carry) as [s c] eqn:Esa. cbn [fst] in Hs.
      destruct (add_carry t (if c then 1 else 0)) as [t' c2] eqn:Et.
      inversion Hspec; subst suf' c'. clear Hspec.
      destruct (set_rep r _ (zlen pre) s H) as (r1 & E1 & Hr1);
        [rewrite zlen_app, zlen_cons; lia | exact Hs |].
      rewrite E1. cbn [bind].
      unfold usize_add. rewrite uop_ok by (rewrite pow64; lia). cbn [bind].
      rewrite zlen_to_nat, upd_len_app in Hr1.
      replace (pre ++ s :: t) with ((pre ++ [s]) ++ t) in Hr1
        by (rewrite <- app_assoc; reflexivity).
      rewrite <- zlen_snoc with (x := s).
      destruct (IH (pre ++ [s]) r1 fuel (if c then 1 else 0) t' c2 Hr1) as (r2 & E2 & Hr2 & Hc2).
      * lia.
      * rewrite B64_val. destruct c; lia.
      * exact Et.
      * exists r2. rewrite <- app_assoc in Hr2. cbn [app] in Hr2. auto.
Qed.

Lemma add_small_rep r l y :
  Rep r l -> 0 <= y < B64 ->
  match small_add stack_cfg (ref_vec L l) y with
  | Some v' => exists r', add_small L b r y = Ok (r', true) /\ Rep r' (vl v')
  | None => exists r', add_small L b r y = Ok (r', false) /\
                       Rep r' (vl (small_add_failed (ref_vec L l) y))
  end.
Proof.
  intros H Hy. unfold small_add, small_add_from, small_add_failed, add_small, add_small_from.
  unfold vset_list, ref_vec, Vec.try_push, vlen.
  cbn [Z.to_nat skipn firstn app vl vcap alloc stack_cfg].
  destruct (add_carry l y) as [suf c] eqn:Ea. cbn [fst].
  pose proof H as (rest & Hc & Hlen & Hcap & Hok).
  destruct (add_loop_rep l [] r (S (Z.to_nat (rlen r))) y suf c H) as (r1 & E1 & Hr1 & Hc1).
  { rewrite Hlen, zlen_to_nat. lia. }
  { exact Hy. }
  { exact Ea. }
  change (zlen (@nil Z)) with 0 in E1. rewrite E1. cbn [bind app] in *.
  destruct (c =? 0) eqn:E0; cbn [negb].
  - eauto.
  - destruct (zlen suf <? BIGINT_LIMBS L) eqn:Ef.
    + destruct (try_push_ok r1 suf c Hr1) as (r2 & E2 & Hr2); [lia | exact Hc1 |].
      cbn [vl]. eauto.
    + rewrite (try_push_full r1 suf c Hr1) by lia. eauto.
Qed.

(** the general entry point `small_add_from(x, y, start)` (used by `large_add_from`), for a
    start index inside the vector *)
Lemma add_small_from_rep r l y start :
  Rep r l -> 0 <= y < B64 -> 0 <= start <= zlen l ->
  match small_add_from stack_cfg (ref_vec L l) y start with
  | Some v' => exists r', add_small_from L b r y start = Ok (r', true) /\ Rep r' (vl v')
  | None => exists r', add_small_from L b r y start = Ok (r', false) /\
                       Rep r' (firstn (Z.to_nat start) l
                               ++ fst (add_carry (skipn (Z.to_nat start) l) y))
  end.
Proof.
  intros H Hy Hst. unfold small_add_from, add_small_from.
  unfold vset_list, ref_vec, Vec.try_push, vlen. cbn [vl vcap alloc stack_cfg].
  set (pre := firstn (Z.to_nat start) l). set (suf := skipn (Z.to_nat start) l).
  assert (El : l = pre ++ suf) by (symmetry; apply firstn_skipn).
  assert (Ep : zlen pre = start).
  { subst pre. unfold zlen in *. rewrite firstn_length. lia. }
  destruct (add_carry suf y) as [suf' c] eqn:Ea. cbn [fst].
  pose proof H as (rest & Hc & Hlen & Hcap & Hok).
  rewrite El in H.
  destruct (add_loop_rep suf pre r (S (Z.to_nat (rlen r))) y suf' c H) as (r1 & E1 & Hr1 & Hc1).
  { rewrite Hlen, zlen_to_nat. subst suf. rewrite skipn_length. lia. }
  { exact Hy. }
  { exact Ea. }
  rewrite Ep in E1. rewrite E1. cbn [bind].
  destruct (c =? 0) eqn:E0; cbn [negb].
  - eauto.
  - destruct (zlen (pre ++ suf') <? BIGINT_LIMBS L) eqn:Ef.
    + destruct (try_push_ok r1 _ c Hr1) as (r2 & E2 & Hr2); [lia | exact Hc1 |].
      cbn [vl]. eauto.
    + rewrite (try_push_full r1 _ c Hr1) by lia. eauto.
Qed.

Lemma mul_hi_range x y carry :
  0 <= x < B64 -> 0 <= y < B64 -> 0 <= carry < B64 -> 0 <= (x * y + carry) / B64 < B64.
Proof.
  intros Hx Hy Hc. pose proof B64_pos. split.
  - apply Z.div_pos; nia.
  - apply Z.div_lt_upper_bound; nia.
Qed.

Lemma mul_loop_rep suf : forall pre rest y carry suf' c',
  limbs_ok suf -> 0 <= y < B64 -> 0 <= carry < B64 ->
  mul_carry suf y carry = (suf', c') ->
  mul_loop (length suf) (map Some (pre ++ suf) ++ rest) (zlen pre) y carry
    = Ok (map Some (pre ++ suf') ++ rest, c') /\
  limbs_ok suf' /\ 0 <= c' < B64 /\ length suf' = length suf.
Proof.
  induction suf as [|x t IH]; intros pre rest y carry suf' c' Hok Hy Hcarry Hspec.
  - cbn [mul_carry] in Hspec. inversion Hspec; subst. cbn [length mul_loop].
    repeat split; try constructor; lia.
  - cbn [mul_carry] in Hspec. unfold scalar_mul in Hspec.
    destruct (mul_carry t y ((x * y + carry) / B64)) as [t' c2] eqn:Et.
    inversion Hspec; subst suf' c'. clear Hspec.
    inversion Hok as [|x0 t0 Hx Ht]; subst x0 t0.
    cbn [length mul_loop]. unfold read_cell, write_cell, in_buf.
    rewrite map_app, <- app_assoc. cbn [map app].
    rewrite !zlen_app, zlen_map, zlen_cons, zlen_app, zlen_map.
    pose proof (zlen_nonneg pre). pose proof (zlen_nonneg t). pose proof (zlen_nonneg rest).
    replace ((0 <=? zlen pre) && (zlen pre <? zlen pre + (1 + (zlen t + zlen rest))))
      with true by lia.
    rewrite zlen_to_nat, <- (map_length Some pre), nth_len_app. cbn [bind].
    unfold scalar_mul. cbn [bind].
    rewrite upd_len_app.
    destruct (IH (pre ++ [(x * y + carry) mod B64]) rest y ((x * y + carry) / B64) t' c2 Ht Hy)
      as (E & Hok' & Hc2 & Hl).
    { apply mul_hi_range; assumption. }
    { exact Et. }
    rewrite zlen_snoc in E. rewrite <- !app_assoc in E. cbn [app] in E.
    rewrite map_app in E. cbn [map] in E. rewrite <- app_assoc in E. cbn [app] in E.
    split; [|split; [|split]].
    + exact E.
    + constructor; [apply Z.mod_pos_bound; reflexivity | exact Hok'].
    + exact Hc2.
    + cbn [length]. lia.
Qed.

Lemma mul_small_rep r l y :
  Rep r l -> 0 <= y < B64 ->
  match small_mul stack_cfg (ref_vec L l) y with
  | Some v' => exists r', mul_small L b r y = Ok (r', true) /\ Rep r' (vl v')
  | None => exists r', mul_small L b r y = Ok (r', false) /\
                       Rep r' (vl (small_mul_failed (ref_vec L l) y))
  end.
Proof.
  intros H Hy. unfold small_mul, small_mul_failed, mul_small.
  unfold vset_list, ref_vec, Vec.try_push, vlen. cbn [vl vcap alloc stack_cfg].
  rewrite (deref_rep r l H). cbn [bind].
  destruct (mul_carry l y 0) as [l' c] eqn:Em. cbn [fst].
  pose proof H as (rest & Hc & Hlen & Hcap & Hok).
  destruct (mul_loop_rep l [] rest y 0 l' c Hok Hy) as (E & Hok' & Hc' & Hl').
  { pose proof B64_pos; lia. }
  { exact Em. }
  change (zlen (@nil Z)) with 0 in E. cbn [app] in E. rewrite Hc, E. cbn [bind].
  assert (Hr1 : Rep (mkRaw (map Some l' ++ rest) (rlen r)) l').
  { exists rest. cbn [cells rlen]. unfold zlen in *. rewrite Hl'. auto. }
  destruct (c =? 0) eqn:E0; cbn [negb].
  - eauto.
  - destruct (zlen l' <? BIGINT_LIMBS L) eqn:Ef.
    + destruct (try_push_ok _ l' c Hr1) as (r2 & E2 & Hr2); [lia | exact Hc' |].
      cbn [vl]. eauto.
    + rewrite (try_push_full _ l' c Hr1) by lia. eauto.
Qed.

(** ** from_u64, clone, eq, cmp *)
Lemma from_u64_spec x :
  from_u64 stack_cfg L checked_build x = Ok (mkVec (normalize_list [x]) (BIGINT_LIMBS L)).
Proof.
  unfold from_u64, vnew, Vec.try_push, vlen, vset_list. cbn [vl vcap alloc stack_cfg].
  unfold limits_ok in HL. rewrite debug_assert_ok by lia. cbn [bind].
  change (zlen (@nil Z)) with 0. replace (0 <? BIGINT_LIMBS L) with true by lia.
  reflexivity.
Qed.

Lemma raw_from_u64_rep x :
  0 <= x < B64 ->
  exists r', raw_from_u64 L b x = Ok r' /\ Rep r' (normalize_list [x]).
Proof.
  intros Hx. unfold raw_from_u64, cap. unfold limits_ok in HL.
  rewrite debug_assert_ok by lia. cbn [bind].
  destruct (try_push_ok (raw_new L) [] x new_rep) as (r1 & E1 & Hr1).
  { change (zlen (@nil Z)) with 0. lia. }
  { exact Hx. }
  rewrite E1. cbn [bind unwrap app] in *.
  apply normalize_rep. exact Hr1.
Qed.

Lemma clone_rep r l : Rep r l -> Rep (clone r) l.
Proof. intros (rest & H). exists rest. exact H. Qed.

Lemma raw_eq_rep r l r2 l2 :
  Rep r l -> Rep r2 l2 -> raw_eq r r2 = Ok (list_eqb l l2).
Proof.
  intros H H2. unfold raw_eq. rewrite (deref_rep r l H), (deref_rep r2 l2 H2). cbn [bind].
  destruct H as (rest & Hc & Hlen & Hcap & Hok). destruct H2 as (rest2 & Hc2 & Hlen2 & _).
  rewrite Hlen, Hlen2. destruct (zlen l =? zlen l2) eqn:E; [reflexivity|].
  destruct (list_eqb l l2) eqn:E2; [|reflexivity].
  apply list_eqb_eq in E2. subst l2. lia.
Qed.

Lemma raw_cmp_rep r l r2 l2 :
  Rep r l -> Rep r2 l2 -> raw_cmp r r2 = Ok (vcompare l l2).
Proof.
  intros H H2. unfold raw_cmp. rewrite (deref_rep r l H), (deref_rep r2 l2 H2). reflexivity.
Qed.

(** ** shl_limbs: the raw `ptr::copy` / `write_bytes` / `set_len` sequence against the
    list-level [Bigint.shl_limbs] *)
Lemma firstn_len_app2 {A} (l r : list A) n : (n <= length l)%nat -> firstn n (l ++ r) = firstn n l.
Proof.
  revert n; induction l as [|a l IH]; intros [|n] Hn; cbn [length] in Hn; cbn [firstn app];
    try reflexivity; try lia.
  rewrite IH by lia. reflexivity.
Qed.

Theorem shl_limbs_refines r n :
  Inv r -> 0 <= n < 2 ^ 32 ->
  match Bigint.shl_limbs b (ref_vec L (abs r)) n with
  | Ok (Some v) => exists r', RawVec.shl_limbs L b r n = Ok (r', true) /\ Inv r' /\ abs r' = vl v
  | Ok None => RawVec.shl_limbs L b r n = Ok (r, false)
  | Panic k => RawVec.shl_limbs L b r n = Panic k
  | UB _ => False
  end.
Proof.
  intros HI Hn. pose proof (Inv_Rep r HI) as H. set (l := abs r) in *.
  pose proof H as (rest & Hc & Hlen & Hcap & Hok).
  unfold Bigint.shl_limbs, RawVec.shl_limbs, ref_vec, vlen, vset_list, cap. cbn [vl vcap].
  rewrite Hlen.
  pose proof (zlen_nonneg l). pose proof (zlen_nonneg rest). unfold limits_ok in HL.
  assert (H32 : 2 ^ 32 = 4294967296) by reflexivity.
  destruct (debug_assert b (negb (n =? 0))) as [[]|k|k] eqn:Ed; cbn [bind];
    [| reflexivity | unfold debug_assert in Ed; destruct (dbg b && negb (negb (n =? 0))); discriminate].
  unfold usize_add. rewrite !uop_ok by (rewrite pow64; lia). cbn [bind].
  destruct (BIGINT_LIMBS L <? n + zlen l) eqn:Ecap; [reflexivity|].
  destruct (zlen l =? 0) eqn:E0; cbn [negb].
  - exists r. split; [reflexivity|]. split; [exact HI|]. reflexivity.
  - unfold copy_within. rewrite Hc, zlen_app, zlen_map.
    replace ((0 <=? 0) && (0 <=? n) && (0 <=? zlen l) && (0 + zlen l <=? zlen l + zlen rest)
             && (n + zlen l <=? zlen l + zlen rest)) with true by lia.
    cbn [bind Z.to_nat skipn]. unfold write_zeros.
    rewrite zlen_to_nat, <- (map_length Some l), firstn_len_app.
    set (cs1 := firstn (Z.to_nat n) (map Some l ++ rest) ++ map Some l
                ++ skipn (Z.to_nat (n + zlen l)) (map Some l ++ rest)).
    assert (Hcs1 : zlen cs1 = zlen l + zlen rest).
    { subst cs1. rewrite !zlen_app, zlen_map. unfold zlen.
      rewrite firstn_length, skipn_length, app_length, map_length. unfold zlen in *. lia. }
    rewrite Hcs1. replace ((0 <=? n) && (n <=? zlen l + zlen rest)) with true by lia.
    cbn [bind].
    assert (Hsk : skipn (Z.to_nat n) cs1 = map Some l ++ skipn (Z.to_nat (n + zlen l)) (map Some l ++ rest)).
    { subst cs1.
      assert (Hfl : length (firstn (Z.to_nat n) (map Some l ++ rest)) = Z.to_nat n).
      { rewrite firstn_length, app_length, map_length. unfold zlen in *. lia. }
      rewrite <- Hfl at 1. apply skipn_len_app. }
    rewrite Hsk.
    unfold set_len, cap. rewrite !debug_assert_ok by lia. cbn [bind].
    replace (BIGINT_LIMBS L <? n + zlen l) with false by lia. cbn [bind].
    assert (HR : Rep (mkRaw (repeat (Some 0) (Z.to_nat n) ++ map Some l ++
                        skipn (Z.to_nat (n + zlen l)) (map Some l ++ rest)) (as_u16 (n + zlen l)))
                     (repeat 0 (Z.to_nat n) ++ l)).
    { exists (skipn (Z.to_nat (n + zlen l)) (map Some l ++ rest)). cbn [cells rlen].
      split; [|split; [|split]].
      - rewrite map_app, <- app_assoc. f_equal.
        clear. induction (Z.to_nat n) as [|k IH]; cbn [repeat map]; [reflexivity | now rewrite IH].
      - rewrite as_u16_small by lia. rewrite zlen_app, zlen_repeat. lia.
      - rewrite zlen_app, zlen_repeat. unfold zlen.
        rewrite skipn_length, app_length, map_length. unfold zlen in *. lia.
      - apply limbs_ok_app. split; [|exact Hok]. apply limbs_ok_repeat. pose proof B64_pos; lia. }
    apply Rep_Inv in HR. destruct HR as [HI' Habs].
    eexists; split; [reflexivity|]. split; [exact HI' | exact Habs].
Qed.

(** ** One step *)
Definition u64 (x : Z) : Prop := 0 <= x < 2 ^ 64.

(** arguments are machine values: limbs and values are `u64`, lengths and indices are `usize`,
    slices are shorter than `isize::MAX` *)
Definition op_ok (o : vop) : Prop :=
  match o with
  | OpFrom s | OpExtend s | OpEq s | OpCmp s => limbs_ok s /\ zlen s < 2 ^ 63
  | OpPush x | OpAddSmall x | OpMulSmall x | OpFromU64 x => u64 x
  | OpResize len x => u64 len /\ u64 x
  | OpSet i x => u64 i /\ u64 x
  | OpGet i => u64 i
  | OpNew | OpPop | OpNormalize | OpClone | OpIsNormalized => True
  end.

(** the one documented panic: `v[i] = x` with `i` outside the vector *)
Definition set_oob (l : list Z) (o : vop) : Prop :=
  exists i x, o = OpSet i x /\ ~ (0 <= i < zlen l).

Lemma u64_B64 x : u64 x -> 0 <= x < B64.
Proof. unfold u64. rewrite B64_eq. tauto. Qed.

Lemma try_from_spec s :
  Vec.try_from false L s =
  if zlen s <=? BIGINT_LIMBS L then Some (mkVec s (BIGINT_LIMBS L)) else None.
Proof.
  unfold Vec.try_from, Vec.try_extend, vnew, vlen. cbn [vl vcap app].
  change (zlen (@nil Z)) with 0. rewrite Z.add_0_l. reflexivity.
Qed.

Lemma vpop_nil c : vpop (mkVec [] c) = (None, mkVec [] c).
Proof. reflexivity. Qed.
Lemma vpop_snoc l x c : vpop (mkVec (l ++ [x]) c) = (Some x, mkVec l c).
Proof. unfold vpop. cbn [vl vcap]. rewrite rev_app_distr. cbn [rev app]. now rewrite rev_involutive. Qed.

Lemma raw_step_rep r l o :
  Rep r l -> op_ok o ->
  match spec_step L l o with
  | Ok (l', out) => exists r', raw_step L b r o = Ok (r', out) /\ Rep r' l'
  | Panic k => raw_step L b r o = Panic k /\ k = PkIndex /\ set_oob l o
  | UB _ => False
  end.
Proof.
  intros H Hop. pose proof H as (rest & Hc & Hlen & Hcap & Hok).
  pose proof (zlen_nonneg l). pose proof (zlen_nonneg rest).
  destruct o as [ | s | x | | s | len x | | y | y | | i x | i | x | | s | s ];
    cbn [op_ok] in Hop; cbn [spec_step raw_step].
  - (* new *) cbn [vnew vl]. exists (raw_new L). split; [reflexivity | apply new_rep].
  - (* from *) destruct Hop as [Hs Hsl]. rewrite try_from_spec.
    destruct (zlen s <=? BIGINT_LIMBS L) eqn:E.
    + destruct (try_from_ok s Hs) as (r' & E' & H'); [lia|]. rewrite E'. cbn [bind vl]. eauto.
    + rewrite (try_from_full s Hsl) by lia. cbn [bind]. eauto.
  - (* push *) apply u64_B64 in Hop. unfold Vec.try_push, ref_vec, vlen. cbn [vl vcap].
    destruct (zlen l <? BIGINT_LIMBS L) eqn:E.
    + destruct (try_push_ok r l x H) as (r' & E' & H'); [lia | exact Hop |].
      rewrite E'. cbn [bind vl]. eauto.
    + rewrite (try_push_full r l x H) by lia. cbn [bind]. eauto.
  - (* pop *) unfold ref_vec. destruct l as [|x l _] using rev_ind.
    + rewrite vpop_nil. rewrite (pop_empty r H). cbn [bind vl]. eauto.
    + rewrite vpop_snoc. destruct (pop_snoc r l x H) as (r' & E' & H').
      rewrite E'. cbn [bind vl]. eauto.
  - (* extend *) destruct Hop as [Hs Hsl]. unfold Vec.try_extend, ref_vec, vlen. cbn [vl vcap].
    destruct (zlen l + zlen s <=? BIGINT_LIMBS L) eqn:E.
    + destruct (try_extend_ok r l s H Hs) as (r' & E' & H'); [lia|].
      rewrite E'. cbn [bind vl]. eauto.
    + rewrite (try_extend_full r l s H Hsl) by lia. cbn [bind]. eauto.
  - (* resize *) destruct Hop as [Hlen' Hx]. apply u64_B64 in Hx. unfold u64 in Hlen'.
    unfold Vec.try_resize, ref_vec. cbn [vl vcap].
    destruct (BIGINT_LIMBS L <? len) eqn:E.
    + rewrite try_resize_full by lia. cbn [bind]. eauto.
    + destruct (try_resize_ok r l len x H) as (r' & E' & H'); [lia | exact Hx |].
      rewrite E'. cbn [bind vl]. eauto.
  - (* normalize *) destruct (normalize_rep r l H) as (r' & E' & H').
    rewrite E'. cbn [bind]. eauto.
  - (* add_small *) apply u64_B64 in Hop. pose proof (add_small_rep r l y H Hop) as HA.
    destruct (small_add stack_cfg (ref_vec L l) y) as [v'|]; destruct HA as (r' & E' & H');
      rewrite E'; cbn [bind]; eauto.
  - (* mul_small *) apply u64_B64 in Hop. pose proof (mul_small_rep r l y H Hop) as HA.
    destruct (small_mul stack_cfg (ref_vec L l) y) as [v'|]; destruct HA as (r' & E' & H');
      rewrite E'; cbn [bind]; eauto.
  - (* clone *) unfold vclone, ref_vec. cbn [vl]. exists (clone r). split; [reflexivity|].
    apply clone_rep; exact H.
  - (* set *) destruct Hop as [Hi Hx]. apply u64_B64 in Hx.
    destruct ((0 <=? i) && (i <? zlen l)) eqn:E.
    + destruct (set_rep r l i x H) as (r' & E' & H'); [lia | exact Hx |].
      rewrite E'. cbn [bind]. eauto.
    + rewrite (set_oob_panics r l i x H) by lia. cbn [bind].
      split; [reflexivity|]. split; [reflexivity|]. exists i, x. split; [reflexivity | lia].
  - (* get *) rewrite (get_rep r l i H). cbn [bind]. eauto.
  - (* from_u64 *) apply u64_B64 in Hop. rewrite from_u64_spec. cbn [bind vl].
    destruct (raw_from_u64_rep x Hop) as (r' & E' & H'). rewrite E'. cbn [bind]. eauto.
  - (* is_normalized *) rewrite (is_normalized_rep r l H). cbn [bind]. eauto.
  - (* eq *) destruct Hop as [Hs Hsl]. rewrite try_from_spec.
    destruct (zlen s <=? BIGINT_LIMBS L) eqn:E.
    + destruct (try_from_ok s Hs) as (r2 & E2 & H2); [lia|]. rewrite E2. cbn [bind vl].
      rewrite (raw_eq_rep r l r2 s H H2). cbn [bind]. eauto.
    + rewrite (try_from_full s Hsl) by lia. cbn [bind]. eauto.
  - (* cmp *) destruct Hop as [Hs Hsl]. rewrite try_from_spec.
    destruct (zlen s <=? BIGINT_LIMBS L) eqn:E.
    + destruct (try_from_ok s Hs) as (r2 & E2 & H2); [lia|]. rewrite E2. cbn [bind vl].
      rewrite (raw_cmp_rep r l r2 s H H2). cbn [bind]. eauto.
    + rewrite (try_from_full s Hsl) by lia. cbn [bind]. eauto.
Qed.

(** Main step theorem: from a state satisfying the invariant, every operation with machine-range
    arguments other than an out-of-range indexed write runs without UB and without panic, in
    either build mode, re-establishes the invariant, and produces the output and the visible
    contents of the reference step. *)
Theorem raw_step_refines r o :
  Inv r -> op_ok o -> ~ set_oob (abs r) o ->
  exists r' out, raw_step L b r o = Ok (r', out) /\ Inv r' /\
                 spec_step L (abs r) o = Ok (abs r', out).
Proof.
  intros HI Hop Hno. pose proof (raw_step_rep r (abs r) o (Inv_Rep r HI) Hop) as HS.
  destruct (spec_step L (abs r) o) as [[l' out]|k|k].
  - destruct HS as (r' & E & H'). apply Rep_Inv in H'. destruct H' as [HI' Habs].
    exists r', out. rewrite Habs. auto.
  - destruct HS as (_ & _ & Hoob). contradiction.
  - contradiction.
Qed.

(** The documented panic: an indexed write outside the vector panics (bounds check, [PkIndex])
    on both sides; the check precedes the write, no new state is produced. *)
Theorem raw_step_set_oob r i x :
  Inv r -> ~ (0 <= i < rlen r) ->
  raw_step L b r (OpSet i x) = Panic PkIndex /\ spec_step L (abs r) (OpSet i x) = Panic PkIndex.
Proof.
  intros HI Hi. pose proof (Inv_Rep r HI) as H. pose proof H as (rest & Hc & Hlen & _).
  cbn [raw_step spec_step]. rewrite (set_oob_panics r (abs r) i x H) by lia.
  replace ((0 <=? i) && (i <? zlen (abs r))) with false by lia. split; reflexivity.
Qed.

(** all cases at once: the raw step never reaches UB, and panics exactly when the reference does *)
Theorem raw_step_total r o :
  Inv r -> op_ok o ->
  match spec_step L (abs r) o with
  | Ok (l', out) => exists r', raw_step L b r o = Ok (r', out) /\ Inv r' /\ abs r' = l'
  | Panic k => raw_step L b r o = Panic k /\ k = PkIndex /\ set_oob (abs r) o
  | UB _ => False
  end.
Proof.
  intros HI Hop. pose proof (raw_step_rep r (abs r) o (Inv_Rep r HI) Hop) as HS.
  destruct (spec_step L (abs r) o) as [[l' out]|k|k]; [|exact HS|exact HS].
  destruct HS as (r' & E & H'). apply Rep_Inv in H'. destruct H' as [HI' Habs]. eauto.
Qed.

(** a failing push / extend / resize leaves the cells, the length and hence the visible
    contents unchanged *)
Theorem failed_op_unchanged r o r' :
  Inv r -> op_ok o ->
  (exists x, o = OpPush x) \/ (exists s, o = OpExtend s) \/ (exists len x, o = OpResize len x) ->
  raw_step L b r o = Ok (r', OutFlag false) ->
  r' = r /\ abs r' = abs r /\
  (* and it fails exactly when the result would exceed the capacity *)
  match o with
  | OpPush _ => BIGINT_LIMBS L < zlen (abs r) + 1
  | OpExtend s => BIGINT_LIMBS L < zlen (abs r) + zlen s
  | OpResize len _ => BIGINT_LIMBS L < len
  | _ => True
  end.
Proof.
  intros HI Hop Hkind Hrun. pose proof (Inv_Rep r HI) as H.
  pose proof H as (rest & Hc & Hlen & Hcap & Hok).
  assert (Hgoal : r' = r /\ match o with
                            | OpPush _ => BIGINT_LIMBS L < zlen (abs r) + 1
                            | OpExtend s => BIGINT_LIMBS L < zlen (abs r) + zlen s
                            | OpResize len _ => BIGINT_LIMBS L < len
                            | _ => True
                            end).
  2:{ destruct Hgoal as [-> Hg]. auto. }
  destruct Hkind as [[x ->] | [[s ->] | [len [x ->]]]]; cbn [op_ok raw_step] in *.
  - apply u64_B64 in Hop.
    destruct (Z_lt_le_dec (zlen (abs r)) (BIGINT_LIMBS L)) as [Hlt|Hge].
    + destruct (try_push_ok r _ x H Hlt Hop) as (r1 & E1 & _). rewrite E1 in Hrun.
      cbn [bind] in Hrun. discriminate.
    + rewrite (try_push_full r _ x H Hge) in Hrun. cbn [bind] in Hrun.
      assert (Er : r' = r) by congruence. clear Hrun. split; [exact Er | lia].
  - destruct Hop as [Hs Hsl].
    destruct (Z_le_gt_dec (zlen (abs r) + zlen s) (BIGINT_LIMBS L)) as [Hle|Hgt].
    + destruct (try_extend_ok r _ s H Hs Hle) as (r1 & E1 & _). rewrite E1 in Hrun.
      cbn [bind] in Hrun. discriminate.
    + rewrite (try_extend_full r _ s H Hsl) in Hrun by lia. cbn [bind] in Hrun.
      assert (Er : r' = r) by congruence. clear Hrun. split; [exact Er | lia].
  - destruct Hop as [Hl Hx]. apply u64_B64 in Hx. unfold u64 in Hl.
    destruct (Z_le_gt_dec len (BIGINT_LIMBS L)) as [Hle|Hgt].
    + destruct (try_resize_ok r _ len x H) as (r1 & E1 & _); [lia | exact Hx |].
      rewrite E1 in Hrun. cbn [bind] in Hrun. discriminate.
    + rewrite try_resize_full in Hrun by lia. cbn [bind] in Hrun.
      assert (Er : r' = r) by congruence. clear Hrun. split; [exact Er | lia].
Qed.

(** ** Histories *)
Lemma raw_run_from_app r p q :
  raw_run_from L b r (p ++ q) =
  ('(r1, o1) <- raw_run_from L b r p ;;
   '(r2, o2) <- raw_run_from L b r1 q ;;
   Ok (r2, o1 ++ o2)).
Proof.
  revert r; induction p as [|o p IH]; intros r; cbn [app raw_run_from].
  - cbn [bind]. destruct (raw_run_from L b r q) as [[r2 o2]|k|k]; reflexivity.
  - destruct (raw_step L b r o) as [[r1 out]|k|k]; cbn [bind]; try reflexivity.
    rewrite IH. destruct (raw_run_from L b r1 p) as [[r2 o2]|k|k]; cbn [bind]; try reflexivity.
    destruct (raw_run_from L b r2 q) as [[r3 o3]|k|k]; reflexivity.
Qed.

Theorem history_from ops : forall r,
  Inv r -> Forall op_ok ops ->
  match spec_run_from L (abs r) ops with
  | Ok (l', outs) => exists r', raw_run_from L b r ops = Ok (r', outs) /\ Inv r' /\ abs r' = l'
  | Panic k => raw_run_from L b r ops = Panic k /\ k = PkIndex
  | UB _ => False
  end.
Proof.
  induction ops as [|o ops IH]; intros r HI Hops.
  - cbn [spec_run_from raw_run_from]. eauto.
  - inversion Hops as [|o' ops' Ho Hops']; subst o' ops'.
    cbn [spec_run_from raw_run_from].
    pose proof (raw_step_total r o HI Ho) as HS.
    destruct (spec_step L (abs r) o) as [[l1 out]|k|k]; cbn [bind].
    + destruct HS as (r1 & E1 & HI1 & Habs1). rewrite E1. cbn [bind]. subst l1.
      specialize (IH r1 HI1 Hops').
      destruct (spec_run_from L (abs r1) ops) as [[l2 outs]|k|k]; cbn [bind].
      * destruct IH as (r2 & E2 & HI2 & Habs2). rewrite E2. cbn [bind]. eauto.
      * destruct IH as [E2 Hk]. rewrite E2. cbn [bind]. auto.
      * contradiction.
    + destruct HS as (E1 & Hk & _). rewrite E1. cbn [bind]. auto.
    + contradiction.
Qed.

Lemma new_inv : Inv (raw_new L) /\ abs (raw_new L) = [].
Proof. apply Rep_Inv. apply new_rep. Qed.

(** Main theorem (C13): for every history of operations with machine-range arguments, starting
    from `StackVec::new()`, in either build mode: the cell-level run never reaches UB; it panics
    only where the reference run does (the index panic of an out-of-range `v[i] = x`); otherwise
    it ends in a state satisfying the invariant whose visible contents and whose outputs are
    those of the reference run on a plain bounded list. *)
Theorem history_refines ops :
  Forall op_ok ops ->
  match spec_run L ops with
  | Ok (l', outs) => exists r', raw_run L b ops = Ok (r', outs) /\ Inv r' /\ abs r' = l'
  | Panic k => raw_run L b ops = Panic k /\ k = PkIndex
  | UB _ => False
  end.
Proof.
  intros Hops. unfold spec_run, raw_run. destruct new_inv as [HI Habs].
  rewrite <- Habs. apply history_from; assumption.
Qed.

Corollary history_no_ub ops : Forall op_ok ops -> is_ub (raw_run L b ops) = false.
Proof.
  intros Hops. pose proof (history_refines ops Hops) as H.
  destruct (spec_run L ops) as [[l outs]|k|k].
  - destruct H as (r' & E & _). rewrite E. reflexivity.
  - destruct H as [E _]. rewrite E. reflexivity.
  - contradiction.
Qed.

(** every intermediate state of a history satisfies the invariant (so its length is within the
    capacity) and agrees with the reference: stated for every prefix of a completed run *)
Theorem history_prefix p q r' outs :
  Forall op_ok (p ++ q) -> raw_run L b (p ++ q) = Ok (r', outs) ->
  exists r1 outs1, raw_run L b p = Ok (r1, outs1) /\ Inv r1 /\ 0 <= rlen r1 <= cap L /\
                   spec_run L p = Ok (abs r1, outs1).
Proof.
  intros Hops Hrun. apply Forall_app in Hops. destruct Hops as [Hp _].
  unfold raw_run in *. rewrite raw_run_from_app in Hrun.
  pose proof (history_refines p Hp) as H. unfold raw_run in H.
  destruct (spec_run L p) as [[l outs1]|k|k].
  - destruct H as (r1 & E & HI & Habs). exists r1, outs1. subst l.
    split; [exact E|]. split; [exact HI|]. split; [apply (len_le_cap r1 HI) | reflexivity].
  - destruct H as [E _]. rewrite E in Hrun. cbn [bind] in Hrun. discriminate.
  - contradiction.
Qed.

(** ** Equality and ordering agree with numeric comparison *)
Lemma lval_snoc l x : lval (l ++ [x]) = lval l + B64 ^ zlen l * x.
Proof. rewrite lval_app. cbn [lval]. ring. Qed.

Lemma B64_pow_pos n : 0 < B64 ^ n \/ n < 0.
Proof. destruct (Z_lt_le_dec n 0); [right; lia | left; apply Z.pow_pos_nonneg; [reflexivity | lia]]. Qed.

Lemma cmp_be_rev_lval n : forall x y,
  length x = n -> length y = n -> limbs_ok x -> limbs_ok y ->
  cmp_be (rev x) (rev y) = (lval x ?= lval y).
Proof.
  induction n as [|n IH]; intros x y Hx Hy Hox Hoy.
  - destruct x; [|discriminate]. destruct y; [|discriminate]. reflexivity.
  - destruct x as [|a x _] using rev_ind; [discriminate|].
    destruct y as [|c y _] using rev_ind; [discriminate|].
    rewrite app_length in Hx, Hy. cbn [length] in Hx, Hy.
    apply limbs_ok_app in Hox. destruct Hox as [Hox Ha]. inversion Ha as [|a0 t0 Ha' _]; subst.
    apply limbs_ok_app in Hoy. destruct Hoy as [Hoy Hc]. inversion Hc as [|c0 t0 Hc' _]; subst.
    rewrite !rev_app_distr. cbn [rev app cmp_be]. rewrite !lval_snoc.
    assert (Hzx : zlen x = Z.of_nat n) by (unfold zlen; lia).
    assert (Hzy : zlen y = Z.of_nat n) by (unfold zlen; lia).
    pose proof (lval_nonneg x Hox). pose proof (lval_nonneg y Hoy).
    pose proof (lval_bound x Hox) as Hbx. pose proof (lval_bound y Hoy) as Hby.
    rewrite Hzx in *. rewrite Hzy in *. set (P := B64 ^ Z.of_nat n) in *.
    destruct (a ?= c) eqn:E.
    + apply Z.compare_eq in E. subst c. rewrite IH by (assumption || lia).
      destruct (lval x ?= lval y) eqn:E2;
        [apply Z.compare_eq in E2 | rewrite Z.compare_lt_iff in E2 | rewrite Z.compare_gt_iff in E2];
        symmetry; [apply Z.compare_eq_iff | apply Z.compare_lt_iff | apply Z.compare_gt_iff]; lia.
    + rewrite Z.compare_lt_iff in E. symmetry. apply Z.compare_lt_iff. nia.
    + rewrite Z.compare_gt_iff in E. symmetry. apply Z.compare_gt_iff. nia.
Qed.

Lemma norm_lower l :
  limbs_ok l -> Bigint.is_normalized l = true -> l <> [] -> B64 ^ (zlen l - 1) <= lval l.
Proof.
  intros Hok Hn Hne. destruct l as [|t l _] using rev_ind; [congruence|].
  unfold Bigint.is_normalized in Hn. rewrite rev_app_distr in Hn. cbn [rev app] in Hn.
  apply limbs_ok_app in Hok. destruct Hok as [Hok Ht]. inversion Ht as [|t0 l0 Ht' _]; subst.
  rewrite lval_snoc, zlen_snoc. replace (zlen l + 1 - 1) with (zlen l) by lia.
  pose proof (lval_nonneg l Hok). pose proof (zlen_nonneg l).
  assert (0 < B64 ^ zlen l) by (apply Z.pow_pos_nonneg; [reflexivity | lia]).
  assert (1 <= t) by (destruct t; [discriminate | lia | lia]). nia.
Qed.

(** [vcompare] (what `bigint::compare` computes) is the numeric comparison of normalized operands *)
Theorem vcompare_lval x y :
  limbs_ok x -> limbs_ok y ->
  Bigint.is_normalized x = true -> Bigint.is_normalized y = true ->
  vcompare x y = (lval x ?= lval y).
Proof.
  intros Hox Hoy Hnx Hny. unfold vcompare.
  pose proof (zlen_nonneg x). pose proof (zlen_nonneg y).
  pose proof (lval_bound x Hox) as Hbx. pose proof (lval_bound y Hoy) as Hby.
  destruct (zlen x ?= zlen y) eqn:E.
  - apply Z.compare_eq in E. apply (cmp_be_rev_lval (length x)); try assumption; try reflexivity.
    unfold zlen in E. lia.
  - rewrite Z.compare_lt_iff in E. symmetry. apply Z.compare_lt_iff.
    assert (Hne : y <> []) by (intros ->; change (zlen (@nil Z)) with 0 in E; lia).
    pose proof (norm_lower y Hoy Hny Hne).
    assert (B64 ^ zlen x <= B64 ^ (zlen y - 1)) by (apply Z.pow_le_mono_r; [reflexivity | lia]).
    lia.
  - rewrite Z.compare_gt_iff in E. symmetry. apply Z.compare_gt_iff.
    assert (Hne : x <> []) by (intros ->; change (zlen (@nil Z)) with 0 in E; lia).
    pose proof (norm_lower x Hox Hnx Hne).
    assert (B64 ^ zlen y <= B64 ^ (zlen x - 1)) by (apply Z.pow_le_mono_r; [reflexivity | lia]).
    lia.
Qed.

Lemma cmp_be_eq x : forall y, length x = length y -> cmp_be x y = Eq -> x = y.
Proof.
  induction x as [|a x IH]; intros [|c y] Hl Hc; cbn [length] in Hl; try discriminate;
    [reflexivity|].
  cbn [cmp_be] in Hc. destruct (a ?= c) eqn:E; try discriminate.
  apply Z.compare_eq in E. subst c. f_equal. apply IH; [lia | exact Hc].
Qed.

Lemma vcompare_eq x y : vcompare x y = Eq -> x = y.
Proof.
  unfold vcompare. destruct (zlen x ?= zlen y) eqn:E; try discriminate.
  apply Z.compare_eq in E. intros Hc.
  apply cmp_be_eq in Hc; [|rewrite !rev_length; unfold zlen in E; lia].
  rewrite <- (rev_involutive x), <- (rev_involutive y), Hc. reflexivity.
Qed.

Theorem list_eqb_lval x y :
  limbs_ok x -> limbs_ok y ->
  Bigint.is_normalized x = true -> Bigint.is_normalized y = true ->
  list_eqb x y = (lval x =? lval y).
Proof.
  intros Hox Hoy Hnx Hny. destruct (list_eqb x y) eqn:E.
  - apply list_eqb_eq in E. subst y. symmetry. apply Z.eqb_refl.
  - symmetry. apply Z.eqb_neq. intros Hv.
    assert (Hc : vcompare x y = Eq) by (rewrite vcompare_lval, Hv by assumption; apply Z.compare_refl).
    apply vcompare_eq in Hc. apply list_eqb_eq in Hc. congruence.
Qed.

(** `==` on the cell-level vector is numeric equality of the stored integers *)
Theorem eq_spec r s :
  Inv r -> limbs_ok s -> zlen s <= BIGINT_LIMBS L ->
  Bigint.is_normalized (abs r) = true -> Bigint.is_normalized s = true ->
  raw_step L b r (OpEq s) = Ok (r, OutBool (lval (abs r) =? lval s)) /\
  spec_step L (abs r) (OpEq s) = Ok (abs r, OutBool (lval (abs r) =? lval s)).
Proof.
  intros HI Hs Hfit Hnr Hns. pose proof (Inv_Rep r HI) as H.
  pose proof H as (rest & _ & _ & _ & Hok).
  cbn [raw_step spec_step]. rewrite try_from_spec.
  replace (zlen s <=? BIGINT_LIMBS L) with true by lia.
  destruct (try_from_ok s Hs Hfit) as (r2 & E2 & H2). rewrite E2. cbn [bind vl].
  rewrite (raw_eq_rep r _ r2 s H H2). cbn [bind].
  rewrite list_eqb_lval by assumption. split; reflexivity.
Qed.

(** `cmp` (`bigint::compare`) on the cell-level vector is numeric comparison *)
Theorem cmp_spec r s :
  Inv r -> limbs_ok s -> zlen s <= BIGINT_LIMBS L ->
  Bigint.is_normalized (abs r) = true -> Bigint.is_normalized s = true ->
  raw_step L b r (OpCmp s) = Ok (r, OutCmp (lval (abs r) ?= lval s)) /\
  spec_step L (abs r) (OpCmp s) = Ok (abs r, OutCmp (vcompare (abs r) s)) /\
  vcompare (abs r) s = (lval (abs r) ?= lval s).
Proof.
  intros HI Hs Hfit Hnr Hns. pose proof (Inv_Rep r HI) as H.
  pose proof H as (rest & _ & _ & _ & Hok).
  cbn [raw_step spec_step]. rewrite try_from_spec.
  replace (zlen s <=? BIGINT_LIMBS L) with true by lia.
  destruct (try_from_ok s Hs Hfit) as (r2 & E2 & H2). rewrite E2. cbn [bind vl].
  rewrite (raw_cmp_rep r _ r2 s H H2). cbn [bind].
  rewrite vcompare_lval by assumption. repeat split; reflexivity.
Qed.

End Refinement.

(** ** The heap back-end (`HeapVec`, feature `alloc`): the list-level `try_*` never fail *)
Section Heap.
Variable L : limits.

Lemma heap_try_push v x : Vec.try_push true v x <> None /\
  forall v', Vec.try_push true v x = Some v' -> vl v' = vl v ++ [x].
Proof. unfold Vec.try_push. split; [discriminate|]. intros v' E. inversion E. reflexivity. Qed.

Lemma heap_try_extend v s : Vec.try_extend true v s <> None /\
  forall v', Vec.try_extend true v s = Some v' -> vl v' = vl v ++ s.
Proof. unfold Vec.try_extend. split; [discriminate|]. intros v' E. inversion E. reflexivity. Qed.

Lemma heap_try_resize v len x : Vec.try_resize true v len x <> None /\
  forall v', Vec.try_resize true v len x = Some v' -> vl v' = resize_list (vl v) len x.
Proof. unfold Vec.try_resize. split; [discriminate|]. intros v' E. inversion E. reflexivity. Qed.

Lemma heap_try_from s : Vec.try_from true L s <> None /\
  forall v', Vec.try_from true L s = Some v' -> vl v' = s.
Proof.
  unfold Vec.try_from. destruct (heap_try_extend (vnew L) s) as [H1 H2]. split; [exact H1|].
  intros v' E. rewrite (H2 v' E). reflexivity.
Qed.

Lemma heap_small_add c v y : alloc c = true -> small_add c v y <> None.
Proof.
  intros Ha. unfold small_add, small_add_from. destruct (add_carry _ y) as [suf carry].
  destruct (negb (carry =? 0)); [|discriminate]. rewrite Ha. unfold Vec.try_push. discriminate.
Qed.

Lemma heap_small_mul c v y : alloc c = true -> small_mul c v y <> None.
Proof.
  intros Ha. unfold small_mul. destruct (mul_carry _ y 0) as [l carry].
  destruct (negb (carry =? 0)); [|discriminate]. rewrite Ha. unfold Vec.try_push. discriminate.
Qed.

Lemma heap_vpop_snoc l x c : vpop (mkVec (l ++ [x]) c) = (Some x, mkVec l c).
Proof. apply vpop_snoc. Qed.
End Heap.

(** ** Boolean checker for [op_ok] (for the concrete examples) *)
Definition u64b (x : Z) : bool := (0 <=? x) && (x <? 2 ^ 64).
Definition limbs_okb (l : list Z) : bool := forallb u64b l.
Definition op_okb (o : vop) : bool :=
  match o with
  | OpFrom s | OpExtend s | OpEq s | OpCmp s => limbs_okb s && (zlen s <? 2 ^ 63)
  | OpPush x | OpAddSmall x | OpMulSmall x | OpFromU64 x => u64b x
  | OpResize len x => u64b len && u64b x
  | OpSet i x => u64b i && u64b x
  | OpGet i => u64b i
  | OpNew | OpPop | OpNormalize | OpClone | OpIsNormalized => true
  end.

Lemma u64b_ok x : u64b x = true -> u64 x.
Proof. unfold u64b, u64. lia. Qed.
Lemma limbs_okb_ok l : limbs_okb l = true -> limbs_ok l.
Proof.
  induction l as [|x l IH]; cbn [limbs_okb forallb]; intros H; [constructor|].
  apply andb_true_iff in H. destruct H as [H1 H2]. constructor; [|apply IH; exact H2].
  apply u64b_ok in H1. unfold u64 in H1. rewrite B64_eq. exact H1.
Qed.
Lemma op_okb_ok o : op_okb o = true -> op_ok o.
Proof.
  destruct o; cbn [op_okb op_ok]; intros H; try exact I; try (apply u64b_ok; exact H);
    try (apply andb_true_iff in H; destruct H as [H1 H2]);
    try (split; [apply limbs_okb_ok; exact H1 | lia]);
    try (split; apply u64b_ok; assumption).
Qed.
Lemma ops_okb_ok ops : forallb op_okb ops = true -> Forall op_ok ops.
Proof.
  induction ops as [|o ops IH]; cbn [forallb]; intros H; [constructor|].
  apply andb_true_iff in H. destruct H as [H1 H2]. constructor; [apply op_okb_ok | apply IH]; assumption.
Qed.

(** ** Concrete instances *)
Definition L62 : limits := mkLimits 4000 62 64.     (* the crate's limits: gen/Consts.v LIMITS *)
Example L62_is_crate_limits : L62 = ML.gen.Consts.LIMITS.
Proof. reflexivity. Qed.
Lemma L62_ok : limits_ok L62.
Proof. unfold limits_ok, L62. cbn [BIGINT_LIMBS]. lia. Qed.

(** fill to capacity (the 63rd limb is refused by push, extend and resize, contents intact),
    shrink, small arithmetic, regrow to capacity, a `mul_small` whose final carry does not fit,
    normalise, pop, compare, clone, indexed write/read, a `try_from` that does not fit *)
Definition ex_ops : list vop :=
  [OpFromU64 5; OpExtend (repeat 3 61); OpPush 1; OpExtend [1]; OpResize 63 0; OpGet 61;
   OpResize 10 0; OpMulSmall (2 ^ 64 - 1); OpAddSmall (2 ^ 64 - 1); OpResize 62 (2 ^ 64 - 1);
   OpPush 4; OpMulSmall (2 ^ 64 - 1); OpGet 61; OpNormalize; OpIsNormalized; OpPop;
   OpCmp [1; 2]; OpEq [5]; OpClone; OpSet 0 9; OpGet 0; OpFrom (repeat 1 63); OpResize 2 0;
   OpCmp [9; 2 ^ 64 - 1]; OpEq [9; 18446744073709551607]; OpGet 2].

Definition ex_outs : list vout :=
  [OutUnit; OutFlag true; OutFlag false; OutFlag false; OutFlag false; OutLimb (Some 3);
   OutFlag true; OutFlag true; OutFlag true; OutFlag true; OutFlag false; OutFlag false;
   OutLimb (Some 18446744073709551615); OutUnit; OutBool true;
   OutLimb (Some 18446744073709551615); OutCmp Gt; OutBool false; OutUnit; OutUnit;
   OutLimb (Some 9); OutFlag false; OutFlag true; OutCmp Lt; OutBool true; OutLimb None].

Example ex_ops_ok : Forall op_ok ex_ops.
Proof. apply ops_okb_ok. vm_compute. reflexivity. Qed.

Example ex_history_checked :
  exists r, raw_run L62 checked_build ex_ops = Ok (r, ex_outs) /\
            spec_run L62 ex_ops = Ok (abs r, ex_outs) /\
            abs r = [9; 18446744073709551607].
Proof. eexists. split; [vm_compute; reflexivity|]. split; vm_compute; reflexivity. Qed.

Example ex_history_release :
  exists r, raw_run L62 release_build ex_ops = Ok (r, ex_outs) /\
            spec_run L62 ex_ops = Ok (abs r, ex_outs).
Proof. eexists. split; vm_compute; reflexivity. Qed.

(** the general theorem instantiated on the example (its hypotheses are met) *)
Example ex_history_thm b :
  exists r', raw_run L62 b ex_ops = Ok (r', ex_outs) /\ Inv L62 r' /\
             abs r' = [9; 18446744073709551607].
Proof.
  pose proof (history_refines L62 b L62_ok ex_ops ex_ops_ok) as H.
  assert (E : spec_run L62 ex_ops = Ok ([9; 18446744073709551607], ex_outs))
    by (vm_compute; reflexivity).
  rewrite E in H. exact H.
Qed.

(** a push at capacity fails and leaves the vector unchanged *)
Definition full62 : raw := mkRaw (repeat (Some 1) 62) 62.
Example ex_full_inv : Inv L62 full62.
Proof.
  apply (Rep_Inv L62 full62 (repeat 1 62)). exists []. repeat split.
  apply limbs_okb_ok. vm_compute. reflexivity.
Qed.
Example ex_push_at_capacity b : raw_step L62 b full62 (OpPush 7) = Ok (full62, OutFlag false).
Proof. destruct b as [[] []]; vm_compute; reflexivity. Qed.
Example ex_failed_op_unchanged b :
  forall r', raw_step L62 b full62 (OpPush 7) = Ok (r', OutFlag false) -> r' = full62.
Proof.
  intros r' H. eapply (failed_op_unchanged L62 b L62_ok full62 (OpPush 7) r' ex_full_inv); eauto.
  cbn [op_ok]. unfold u64. rewrite pow64. lia.
Qed.

(** the documented index panic *)
Example ex_set_oob b : raw_step L62 b full62 (OpSet 62 0) = Panic PkIndex.
Proof. destruct b as [[] []]; vm_compute; reflexivity. Qed.

(** eq / cmp on normalized operands *)
Example ex_cmp b :
  raw_step L62 b full62 (OpCmp (repeat 1 61 ++ [2])) = Ok (full62, OutCmp Lt) /\
  (lval (abs full62) ?= lval (repeat 1 61 ++ [2])) = Lt.
Proof. split; [destruct b as [[] []]; vm_compute; reflexivity | vm_compute; reflexivity]. Qed.

Example ex_cmp_spec b :
  raw_step L62 b full62 (OpCmp (repeat 1 61 ++ [2]))
  = Ok (full62, OutCmp (lval (abs full62) ?= lval (repeat 1 61 ++ [2]))).
Proof.
  apply (cmp_spec L62 b L62_ok full62 (repeat 1 61 ++ [2]) ex_full_inv).
  - apply limbs_okb_ok. vm_compute. reflexivity.
  - vm_compute. discriminate.
  - vm_compute. reflexivity.
  - vm_compute. reflexivity.
Qed.

Example ex_eq_spec b :
  raw_step L62 b full62 (OpEq (repeat 1 62)) = Ok (full62, OutBool true).
Proof.
  replace true with (lval (abs full62) =? lval (repeat 1 62)) by (vm_compute; reflexivity).
  apply (eq_spec L62 b L62_ok full62 (repeat 1 62) ex_full_inv).
  - apply limbs_okb_ok. vm_compute. reflexivity.
  - vm_compute. discriminate.
  - vm_compute. reflexivity.
  - vm_compute. reflexivity.
Qed.

Example ex_step_refines b :
  exists r' out, raw_step L62 b full62 OpPop = Ok (r', out) /\ Inv L62 r' /\
                 spec_step L62 (abs full62) OpPop = Ok (abs r', out).
Proof.
  apply (raw_step_refines L62 b L62_ok full62 OpPop ex_full_inv I).
  intros (i & x & E & _). discriminate.
Qed.

Example ex_shl_limbs_refines b :
  exists r', RawVec.shl_limbs L62 b (mkRaw ([Some 7; Some 8] ++ repeat None 60) 2) 3 = Ok (r', true) /\
             Inv L62 r' /\ abs r' = [0; 0; 0; 7; 8].
Proof.
  assert (HI : Inv L62 (mkRaw ([Some 7; Some 8] ++ repeat None 60) 2)).
  { apply (Rep_Inv L62 _ [7; 8]). exists (repeat None 60). repeat split.
    apply limbs_okb_ok. vm_compute. reflexivity. }
  pose proof (shl_limbs_refines L62 b L62_ok _ 3 HI) as H.
  assert (E : Bigint.shl_limbs b (ref_vec L62 (abs (mkRaw ([Some 7; Some 8] ++ repeat None 60) 2))) 3
              = Ok (Some (mkVec [0; 0; 0; 7; 8] 62))).
  { destruct b as [[] []]; vm_compute; reflexivity. }
  rewrite E in H. apply H. assert (H32 : 2 ^ 32 = 4294967296) by reflexivity. lia.
Qed.

(** ** The model can exhibit the failures the safe API guards against (the no-UB theorem is
    not vacuous) *)
Example ub_push_unchecked_full :
  push_unchecked L62 release_build full62 7 = UB UbWrite /\
  push_unchecked L62 checked_build full62 7 = Panic PkAssert.
Proof. split; vm_compute; reflexivity. Qed.

Example ub_extend_unchecked_full :
  extend_unchecked L62 release_build full62 [7] = UB UbWrite /\
  extend_unchecked L62 checked_build full62 [7] = Panic PkAssert.
Proof. split; vm_compute; reflexivity. Qed.

(** `set_len` beyond the initialised prefix is accepted (even by the debug assertions); the
    following read is the UB *)
Example ub_set_len_then_read b :
  (r <- set_len L62 b (raw_new L62) 3 ;; get r 0) = UB UbUninit /\
  (r <- set_len L62 b (raw_new L62) 3 ;; deref r) = UB UbUninit /\
  is_ok (set_len L62 b (raw_new L62) 3) = true.
Proof. destruct b as [[] []]; repeat split; vm_compute; reflexivity. Qed.

Example ub_set_len_beyond_capacity :
  set_len L62 release_build (raw_new L62) 63 = UB UbSetLen /\
  set_len L62 checked_build (raw_new L62) 63 = Panic PkAssert.
Proof. split; vm_compute; reflexivity. Qed.

Example ub_pop_unchecked_empty :
  pop_unchecked release_build (raw_new L62) = UB UbIndex /\
  pop_unchecked checked_build (raw_new L62) = Panic PkAssert.
Proof. split; vm_compute; reflexivity. Qed.

Example ub_resize_unchecked_beyond :
  resize_unchecked L62 release_build (raw_new L62) 63 0 = UB UbWrite.
Proof. vm_compute; reflexivity. Qed.

Example ub_shl_limbs_guarded b :
  RawVec.shl_limbs L62 b full62 1 = Ok (full62, false) /\
  copy_within (cells full62) 0 1 62 = UB UbWrite.
Proof. destruct b as [[] []]; split; vm_compute; reflexivity. Qed.

Example ex_shl_limbs b :
  RawVec.shl_limbs L62 b (mkRaw ([Some 7; Some 8] ++ repeat None 60) 2) 3
  = Ok (mkRaw ([Some 0; Some 0; Some 0; Some 7; Some 8] ++ repeat None 57) 5, true).
Proof. destruct b as [[] []]; vm_compute; reflexivity. Qed.

Print Assumptions raw_step_refines.
Print Assumptions raw_step_total.
Print Assumptions failed_op_unchanged.
Print Assumptions history_refines.
Print Assumptions history_no_ub.
Print Assumptions history_prefix.
Print Assumptions eq_spec.
Print Assumptions cmp_spec.
Print Assumptions shl_limbs_refines.
