(** * LemireFacts6: accuracy of the DECLINED estimate of the Eisel-Lemire stage (what the slow
    path consumes): the correctly rounded result is the truncated estimate [rd_bits] or its
    successor. *)
From Coq Require Import ZArith List Bool Lia Znumtheory.
From Coq Require Import ZifyBool.
From ML Require Import proofs.RoundingFactsZ proofs.NumFacts proofs.SlowFacts2c.
From ML Require Import base.RustSem model.Fmt model.Num model.Number model.Lemire
  gen.Consts gen.Tables spec.RneZ proofs.TableFacts proofs.LemireFacts0 proofs.LemireFacts1
  proofs.LemireFacts2 proofs.LemireFacts3 proofs.LemireFacts4 proofs.LemireFacts5.
Import ListNotations.
Open Scope Z_scope.

Arguments Z.pow : simpl never.
Local Opaque Z.pow.

(** ** Part A: [rne_bits] of a value known to lie in (q - 1/4, q + 3/2) cells *)

Lemma sc_shift n d E1 E2 : E1 <= E2 ->
  sc_num n E1 * sc_den d E2 = sc_num n E2 * sc_den d E1 * 2 ^ (E2 - E1).
Proof.
  intros H. unfold sc_num, sc_den.
  destruct (0 <=? E1) eqn:A1; destruct (0 <=? E2) eqn:A2; try lia.
  - rewrite (pow2_split E1 E2) by lia. ring.
  - replace (E2 - E1) with (- E1 + E2) by lia. rewrite pow2_add by lia. ring.
  - rewrite (pow2_split (- E2) (- E1)) by lia. replace (- E1 - - E2) with (E2 - E1) by lia. ring.
Qed.

Lemma sc_num_pos n E : 0 < n -> 0 < sc_num n E.
Proof. intros. rewrite sc_num_eq. pose proof (p2d_pos E). nia. Qed.

Lemma canon_exp_unique f n d E1 E2 : 1 <= prec f -> 0 < n -> 0 < d ->
  canon_exp f n d E1 -> canon_exp f n d E2 -> E1 = E2.
Proof.
  intros Hp Hn Hd.
  assert (K : forall Ea Eb, Ea < Eb -> canon_exp f n d Ea -> canon_exp f n d Eb -> False).
  { intros Ea Eb Hlt (A1 & A2 & A3) (B1 & B2 & B3).
    destruct B3 as [B3|B3]; [lia|].
    pose proof (sc_shift n d Ea Eb ltac:(lia)) as S.
    pose proof (sc_den_pos d Ea Hd). pose proof (sc_den_pos d Eb Hd).
    assert (P2 : 2 ^ 1 <= 2 ^ (Eb - Ea)) by (apply pow2_le; lia). change (2 ^ 1) with 2 in P2.
    assert (PP : 2 ^ prec f = 2 * 2 ^ (prec f - 1)).
    { rewrite <- pow2_S by lia. f_equal; lia. }
    pose proof (pow2_pos (prec f - 1) ltac:(lia)).
    set (Na := sc_num n Ea) in *. set (Da := sc_den d Ea) in *.
    set (Nb := sc_num n Eb) in *. set (Db := sc_den d Eb) in *.
    set (t := 2 ^ (Eb - Ea)) in *. set (h := 2 ^ (prec f - 1)) in *.
    rewrite PP in A2.
    assert (Na * Db < 2 * h * Da * Db) by nia.
    assert (h * Db * Da * 2 <= Nb * Da * t).
    { assert (h * Db * Da <= Nb * Da) by nia. nia. }
    nia. }
  intros C1 C2. destruct (Z.lt_trichotomy E1 E2) as [H|[H|H]]; [exfalso|exact H|exfalso].
  - exact (K E1 E2 H C1 C2).
  - exact (K E2 E1 H C2 C1).
Qed.

Lemma rne_cases f n d Ec bits : 1 <= prec f -> 0 < n -> 0 < d -> canon_exp f n d Ec ->
  rne_bits f n d bits ->
  (2 ^ emax f * d <= n /\ bits = inf_bits f) \/
  (n < 2 ^ emax f * d /\ exists M, nearest_even n d M Ec /\ bits = encode f M Ec).
Proof.
  intros Hp Hn Hd HC [(H0 & _)|[(_ & H1 & H2)|(_ & H1 & M & E & C & NE & HB)]]; [lia|left; auto|].
  right. split; [exact H1|]. exists M.
  rewrite (canon_exp_unique f n d Ec E Hp Hn Hd HC C). auto.
Qed.

Lemma nearest_bounds n d M E : nearest_even n d M E ->
  2 * sc_num n E - sc_den d E <= 2 * M * sc_den d E <= 2 * sc_num n E + sc_den d E.
Proof. intros [H _]. lia. Qed.

(** transfer of a strict inequality between proportional fractions  c*N'/D' = k*N/Dn *)
Lemma ratio_gt N Dn N' D' c k a b : 0 < Dn -> 0 < D' -> 0 < k -> 0 < c ->
  c * N' * Dn = k * N * D' -> a * Dn < b * N -> a * k * D' < b * c * N'.
Proof.
  intros HDn HD' Hk Hc R H.
  apply (Z.mul_lt_mono_pos_r Dn); [exact HDn|].
  replace (b * c * N' * Dn) with (b * (c * N' * Dn)) by ring. rewrite R.
  assert (0 < k * D') by nia. nia.
Qed.
Lemma ratio_lt N Dn N' D' c k a b : 0 < Dn -> 0 < D' -> 0 < k -> 0 < c ->
  c * N' * Dn = k * N * D' -> b * N < a * Dn -> b * c * N' < a * k * D'.
Proof.
  intros HDn HD' Hk Hc R H.
  apply (Z.mul_lt_mono_pos_r Dn); [exact HDn|].
  replace (b * c * N' * Dn) with (b * (c * N' * Dn)) by ring. rewrite R.
  assert (0 < k * D') by nia. nia.
Qed.
Lemma ratio_ge N Dn N' D' c k a b : 0 < Dn -> 0 < D' -> 0 < k -> 0 < c ->
  c * N' * Dn = k * N * D' -> a * Dn <= b * N -> a * k * D' <= b * c * N'.
Proof.
  intros HDn HD' Hk Hc R H.
  apply (Z.mul_le_mono_pos_r _ _ Dn); [exact HDn|].
  replace (b * c * N' * Dn) with (b * (c * N' * Dn)) by ring. rewrite R.
  assert (0 < k * D') by nia. nia.
Qed.

Definition cellP (f : format) (q E : Z) : Z :=
  if emax f - prec f <? E then inf_bits f else encode f q E.

Lemma inf_bits_eq f : lfmt f -> inf_bits f = (2 * emax f - 1) * 2 ^ MANTISSA_SIZE f.
Proof.
  intros L. pose proof (lfmt_emax f L) as (He1 & He2 & He3 & He4 & He5).
  unfold inf_bits. rewrite <- He2. reflexivity.
Qed.

Lemma cell f n d E q bits : lfmt f -> 0 < n -> 0 < d -> femin f <= E ->
  0 <= q < 2 ^ (MANTISSA_SIZE f + 1) -> (femin f < E -> 2 ^ MANTISSA_SIZE f <= q) ->
  (4 * q - 1) * sc_den d E < 4 * sc_num n E < (4 * q + 6) * sc_den d E ->
  rne_bits f n d bits -> cellP f q E <= bits <= cellP f q E + 1.
Proof.
  intros L Hn Hd HE Hq HqE HB HR.
  pose proof (lfmt_emax f L) as (He1 & He2 & He3 & He4 & He5).
  pose proof (lf_ms f L) as HMS. pose proof (inf_bits_eq f L) as Einf.
  assert (Hprec : prec f = MANTISSA_SIZE f + 1) by reflexivity.
  assert (Hp1 : 1 <= prec f) by lia.
  set (H2 := 2 ^ MANTISSA_SIZE f) in *.
  assert (HH : 0 < H2) by (apply pow2_pos; lia).
  assert (E21 : 2 ^ (MANTISSA_SIZE f + 1) = 2 * H2) by (apply pow2_S; lia).
  rewrite E21 in Hq.
  pose proof (sc_den_pos d E Hd) as HDn. pose proof (sc_num_pos n E Hn) as HN.
  set (N := sc_num n E) in *. set (Dn := sc_den d E) in *.
  unfold cellP.
  destruct (Z_lt_le_dec N (H2 * Dn)) as [Hlow|Hlow].
  - destruct (Z.eq_dec E (femin f)) as [Efe|Efe].
    + (* subnormal value at E = femin: canonical exponent E *)
      assert (HC : canon_exp f n d E).
      { unfold canon_exp. fold N Dn. rewrite Hprec, E21. split; [lia|]. split; [nia|left; exact Efe]. }
      replace (emax f - prec f <? E) with false by lia.
      destruct (rne_cases f n d E bits Hp1 Hn Hd HC HR) as [[Hge _]|(Hlt & M & HM & ->)].
      { exfalso. assert (n < 2 ^ emax f * d); [|lia].
        apply (sc_lt n d E (MANTISSA_SIZE f) (emax f)); try lia. }
      pose proof (nearest_bounds n d M E HM) as NB. fold N Dn in NB.
      assert (HMq : q <= M <= q + 1) by (split; nia).
      assert (Eq1 : encode f (q + 1) E = encode f q E + 1).
      { unfold encode. fold H2. destruct (q + 1 <? H2) eqn:E1; destruct (q <? H2) eqn:E0; lia. }
      destruct (Z.eq_dec M q) as [->|]; [lia|]. replace M with (q + 1) by lia. lia.
    + (* just below a binade: canonical exponent E - 1 *)
      assert (Eq : q = H2) by (specialize (HqE ltac:(lia)); nia). subst q.
      pose proof (sc_den_pos d (E - 1) Hd) as HD'. pose proof (sc_num_pos n (E - 1) Hn) as HN'.
      pose proof (sc_shift n d (E - 1) E ltac:(lia)) as S.
      replace (E - (E - 1)) with 1 in S by lia. change (2 ^ 1) with 2 in S. fold N Dn in S.
      set (N' := sc_num n (E - 1)) in *. set (D' := sc_den d (E - 1)) in *.
      assert (R : 1 * N' * Dn = 2 * N * D') by lia.
      pose proof (ratio_lt N Dn N' D' 1 2 H2 1 HDn HD' ltac:(lia) ltac:(lia) R ltac:(lia)) as U1.
      pose proof (ratio_gt N Dn N' D' 1 2 (4 * H2 - 1) 4 HDn HD' ltac:(lia) ltac:(lia) R ltac:(lia)) as U2.
      assert (HC : canon_exp f n d (E - 1)).
      { unfold canon_exp. fold N' D'. rewrite Hprec, E21.
        replace (MANTISSA_SIZE f + 1 - 1) with (MANTISSA_SIZE f) by lia. fold H2.
        split; [lia|]. split; [lia|right; nia]. }
      destruct (rne_cases f n d (E - 1) bits Hp1 Hn Hd HC HR) as [[Hge ->]|(Hlt & M & HM & ->)].
      * (* overflow *)
        assert (emax f - prec f < E).
        { destruct (Z_lt_le_dec (emax f - prec f) E); [assumption|exfalso].
          assert (n < 2 ^ emax f * d); [|lia].
          apply (sc_lt n d (E - 1) (MANTISSA_SIZE f + 1) (emax f)); try lia; fold N' D'; rewrite E21; lia. }
        replace (emax f - prec f <? E) with true by lia. lia.
      * pose proof (nearest_bounds n d M (E - 1) HM) as NB. fold N' D' in NB.
        assert (HM2 : M = 2 * H2) by nia. subst M.
        assert (Een : encode f (2 * H2) (E - 1) = (E - femin f + 1) * H2).
        { unfold encode. fold H2. replace (2 * H2 <? H2) with false by lia. ring. }
        rewrite Een.
        destruct (emax f - prec f <? E) eqn:Et.
        -- assert (E - 1 <= emax f - prec f).
           { destruct (Z_le_gt_dec (E - 1) (emax f - prec f)); [assumption|exfalso].
             assert (2 ^ emax f * d <= n); [|lia].
             apply (sc_ge n d (E - 1) (MANTISSA_SIZE f) (emax f)); try lia; fold N' D' H2; nia. }
           assert (E = emax f - prec f + 1) by lia. rewrite Einf. fold H2. nia.
        -- unfold encode. fold H2. replace (H2 <? H2) with false by lia. nia.
  - destruct (Z_lt_le_dec N (2 * H2 * Dn)) as [Hup|Hup].
    + (* canonical exponent E *)
      assert (HC : canon_exp f n d E).
      { unfold canon_exp. fold N Dn. rewrite Hprec, E21.
        replace (MANTISSA_SIZE f + 1 - 1) with (MANTISSA_SIZE f) by lia. fold H2.
        split; [lia|]. split; [lia|right; lia]. }
      destruct (rne_cases f n d E bits Hp1 Hn Hd HC HR) as [[Hge ->]|(Hlt & M & HM & ->)].
      * assert (emax f - prec f < E).
        { destruct (Z_lt_le_dec (emax f - prec f) E); [assumption|exfalso].
          assert (n < 2 ^ emax f * d); [|lia].
          apply (sc_lt n d E (MANTISSA_SIZE f + 1) (emax f)); try lia; fold N Dn; rewrite E21; lia. }
        replace (emax f - prec f <? E) with true by lia. lia.
      * assert (E <= emax f - prec f).
        { destruct (Z_le_gt_dec E (emax f - prec f)); [assumption|exfalso].
          assert (2 ^ emax f * d <= n); [|lia].
          apply (sc_ge n d E (MANTISSA_SIZE f) (emax f)); try lia. }
        replace (emax f - prec f <? E) with false by lia.
        pose proof (nearest_bounds n d M E HM) as NB. fold N Dn in NB.
        assert (HMq : q <= M <= q + 1) by (split; nia).
        assert (Eq1 : encode f (q + 1) E = encode f q E + 1).
        { unfold encode. fold H2. destruct (q + 1 <? H2) eqn:E1; destruct (q <? H2) eqn:E0; try lia.
          assert (E = femin f) by (destruct (Z.eq_dec E (femin f)); [assumption|specialize (HqE ltac:(lia)); lia]).
          lia. }
        destruct (Z.eq_dec M q) as [->|]; [lia|]. replace M with (q + 1) by lia. lia.
    + (* just above the binade: canonical exponent E + 1 *)
      assert (Eq : q = 2 * H2 - 1) by nia. subst q.
      pose proof (sc_den_pos d (E + 1) Hd) as HD'. pose proof (sc_num_pos n (E + 1) Hn) as HN'.
      pose proof (sc_shift n d E (E + 1) ltac:(lia)) as S.
      replace (E + 1 - E) with 1 in S by lia. change (2 ^ 1) with 2 in S. fold N Dn in S.
      set (N' := sc_num n (E + 1)) in *. set (D' := sc_den d (E + 1)) in *.
      assert (R : 2 * N' * Dn = 1 * N * D') by lia.
      pose proof (ratio_lt N Dn N' D' 2 1 (4 * (2 * H2 - 1) + 6) 4 HDn HD' ltac:(lia) ltac:(lia) R ltac:(lia)) as U1.
      pose proof (ratio_ge N Dn N' D' 2 1 (2 * H2) 1 HDn HD' ltac:(lia) ltac:(lia) R ltac:(lia)) as U2.
      assert (HC : canon_exp f n d (E + 1)).
      { unfold canon_exp. fold N' D'. rewrite Hprec, E21.
        replace (MANTISSA_SIZE f + 1 - 1) with (MANTISSA_SIZE f) by lia. fold H2.
        split; [lia|]. split; [nia|right; nia]. }
      assert (Een : encode f H2 (E + 1) = encode f (2 * H2 - 1) E + 1).
      { unfold encode. fold H2. replace (H2 <? H2) with false by lia.
        replace (2 * H2 - 1 <? H2) with false by lia. ring. }
      destruct (rne_cases f n d (E + 1) bits Hp1 Hn Hd HC HR) as [[Hge ->]|(Hlt & M & HM & ->)].
      * assert (emax f - prec f <= E).
        { destruct (Z_le_gt_dec (emax f - prec f) E); [assumption|exfalso].
          assert (n < 2 ^ emax f * d); [|lia].
          apply (sc_lt n d (E + 1) (MANTISSA_SIZE f + 1) (emax f)); try lia; fold N' D'; rewrite E21; nia. }
        destruct (emax f - prec f <? E) eqn:Et; [lia|].
        assert (E = emax f - prec f) by lia.
        rewrite Einf. unfold encode. fold H2. replace (2 * H2 - 1 <? H2) with false by lia. nia.
      * assert (E + 1 <= emax f - prec f).
        { destruct (Z_le_gt_dec (E + 1) (emax f - prec f)); [assumption|exfalso].
          assert (2 ^ emax f * d <= n); [|lia].
          apply (sc_ge n d (E + 1) (MANTISSA_SIZE f) (emax f)); try lia; fold N' D' H2; nia. }
        replace (emax f - prec f <? E) with false by lia.
        pose proof (nearest_bounds n d M (E + 1) HM) as NB. fold N' D' in NB.
        assert (HM2 : M = H2) by nia. subst M. lia.
Qed.

(** ** Part B: the shape of a declined answer of [lemire] *)

Lemma cf_main_exp_nonneg f q lz lo hi : lfmt f -> 0 <= exp (cf_main f q lz lo hi).
Proof.
  intros L. pose proof (lfmt_emax f L) as (He1 & He2 & He3 & He4 & He5).
  unfold cf_main. cbv zeta.
  repeat match goal with |- context [if ?c then _ else _] => destruct c eqn:? end;
    unfold fp_zero, fp_inf; cbn [exp]; lia.
Qed.

Definition hilz_of (hi : Z) : Z := 1 - hi / 2 ^ 63.

Lemma hilz_cases hi : 2 ^ 62 <= hi < 2 ^ 64 ->
  (hi < 2 ^ 63 /\ hilz_of hi = 1) \/ (2 ^ 63 <= hi /\ hilz_of hi = 0).
Proof.
  intros H. unfold hilz_of. rewrite p2_63, p2_64 in *. change (2 ^ 62) with 4611686018427387904 in H.
  Z.div_mod_to_equations. lia.
Qed.

Lemma ces_eq f b q hi lz : lfmt f -> -342 <= q <= 308 -> 2 ^ 62 <= hi < 2 ^ 64 -> 0 <= lz <= 63 ->
  compute_error_scaled f b q hi lz =
  Ok (mkExt (hi * 2 ^ hilz_of hi)
            (pw q + EXPONENT_BIAS f - hilz_of hi - lz - 62 + INVALID_FP f)).
Proof.
  intros L Hq Hhi Hlz. destruct L.
  pose proof (pw_bounds q ltac:(lia)) as Hpw.
  unfold compute_error_scaled.
  assert (Hx : Z.lxor (hi / 2 ^ 63) 1 = hilz_of hi).
  { destruct (hilz_cases hi Hhi) as [[_ H]|[_ H]]; unfold hilz_of in *;
      assert (E : hi / 2 ^ 63 = 0 \/ hi / 2 ^ 63 = 1) by lia; destruct E as [E|E]; rewrite E in *; cbn; lia. }
  rewrite Hx.
  assert (Hh : 0 <= hilz_of hi <= 1) by (destruct (hilz_cases hi Hhi) as [[_ H]|[_ H]]; lia).
  assert (Hm : 0 <= hi * 2 ^ hilz_of hi < 2 ^ 64).
  { destruct (hilz_cases hi Hhi) as [[H1 H]|[H1 H]]; rewrite H.
    - change (2 ^ 1) with 2. rewrite p2_63, p2_64 in *. lia.
    - change (2 ^ 0) with 1. lia. }
  rewrite shl64_ok by lia. rewrite Z.mod_small by lia. cbn [bind].
  rewrite power_ok by lia. cbn [bind].
  unfold i32_add, i32_sub.
  rewrite !sop32_ok by lia. cbn [bind].
  rewrite !sop32_ok by lia. cbn [bind].
  rewrite !sop32_ok by lia. cbn [bind].
  rewrite !sop32_ok by lia. cbn [bind].
  rewrite !sop32_ok by lia. cbn [bind]. reflexivity.
Qed.

(** how [lemire] can decline *)
Definition declined_at (f : format) (b : build) (q w : Z) : Prop :=
  exists fpx, compute_float TABLES f b q w = Ok fpx /\ exp fpx < 0.

Theorem lemire_declined_shape f b n fp : lfmt_ok f = true -> 0 <= nmant n < 2 ^ 64 ->
  (many n = true -> 0 < nmant n /\ nmant n + 1 < 2 ^ 64) ->
  lemire TABLES f b n = Ok fp -> exp fp < 0 ->
  let q := nexp n in let w := nmant n in let lz := lz64 w in
  0 < w /\ SMALLEST_POWER_OF_TEN f <= q <= LARGEST_POWER_OF_TEN f /\
  (exists lo hi, 0 <= lo < 2 ^ 64 /\ 2 ^ 62 <= hi < 2 ^ 64 /\
     (refined_pair (w * 2 ^ lz) q lo hi \/ unrefined_pair (w * 2 ^ lz) q (61 - MANTISSA_SIZE f) lo hi) /\
     compute_error_scaled f b q hi lz = Ok fp) /\
  (declined_at f b q w \/
   (many n = true /\ exists fp1 fp2, compute_float TABLES f b q w = Ok fp1 /\ 0 <= exp fp1 /\
       compute_float TABLES f b q (w + 1) = Ok fp2 /\ fp1 <> fp2)).
Proof.
  intros Lok Hw Hmany Hlem Hneg. pose proof (lfmt_ok_spec f Lok) as L.
  destruct n as [q w mn]. cbn [nexp nmant many] in *. cbv zeta.
  pose proof (lfmt_emax f L) as (He1 & He2 & He3 & He4 & He5).
  pose proof (lf_ms f L) as HMS. pose proof (lf_sp10 f L) as Hsp. pose proof (lf_lp10 f L) as Hlp.
  unfold lemire in Hlem. cbn [nexp nmant many] in Hlem.
  (* the trivial branches give a definite answer *)
  assert (Hw0 : 0 < w).
  { destruct (Z.eq_dec w 0) as [->|]; [exfalso|lia].
    rewrite cf_zero_w in Hlem. cbn [bind] in Hlem.
    destruct mn; [destruct (Hmany eq_refl); lia|]. cbn [andb] in Hlem.
    inversion Hlem; subst. cbn in Hneg. lia. }
  assert (Hq : SMALLEST_POWER_OF_TEN f <= q <= LARGEST_POWER_OF_TEN f).
  { destruct (Z_lt_le_dec q (SMALLEST_POWER_OF_TEN f)) as [Hs|Hs]; [exfalso|].
    { rewrite !cf_small_q in Hlem by assumption. cbn [bind] in Hlem.
      destruct (mn && (0 <=? exp fp_zero)).
      - unfold u64_add in Hlem. destruct (uop b 64 (w + 1)); cbn [bind] in Hlem; try discriminate.
        rewrite cf_small_q in Hlem by assumption. cbn [bind] in Hlem.
        unfold ext_eqb in Hlem. rewrite !Z.eqb_refl in Hlem. cbn [andb negb] in Hlem.
        inversion Hlem; subst. cbn in Hneg. lia.
      - inversion Hlem; subst. cbn in Hneg. lia. }
    destruct (Z_lt_le_dec (LARGEST_POWER_OF_TEN f) q) as [Hl|Hl]; [exfalso|lia].
    rewrite (cf_large_q f b q w) in Hlem by (try assumption; lia). cbn [bind] in Hlem.
    destruct (mn && (0 <=? exp (fp_inf f))) eqn:Em.
    - apply andb_prop in Em. destruct Em as [-> _]. destruct (Hmany eq_refl).
      unfold u64_add in Hlem. rewrite uop64_ok in Hlem by lia. cbn [bind] in Hlem.
      rewrite cf_large_q in Hlem by (try assumption; lia). cbn [bind] in Hlem.
      unfold ext_eqb in Hlem. rewrite !Z.eqb_refl in Hlem. cbn [andb negb] in Hlem.
      inversion Hlem; subst. unfold fp_inf in Hneg. cbn [exp] in Hneg. lia.
    - inversion Hlem; subst. unfold fp_inf in Hneg. cbn [exp] in Hneg. lia. }
  split; [exact Hw0|]. split; [exact Hq|].
  pose proof (lz64_spec w ltac:(lia)) as (Hlz & Hw').
  destruct (compute_product_approx_spec b q (w * 2 ^ lz64 w) (MANTISSA_SIZE f + 3)
              ltac:(lia) ltac:(lia) ltac:(lia)) as (lo & hi & Hcpa & Hlo & Hhi & Hpair).
  replace (64 - (MANTISSA_SIZE f + 3)) with (61 - MANTISSA_SIZE f) in Hpair by lia.
  pose proof (pair_facts f q _ lo hi L ltac:(lia) Hw' Hlo Hhi Hpair) as [Hhi62 _].
  rewrite (cf_run f b q w lo hi L ltac:(lia) Hq Hcpa Hlo ltac:(lia)) in Hlem.
  destruct ((lo =? u64_max) && negb ((-27 <=? q) && (q <=? 55))) eqn:Efb.
  - (* compute_float itself declines *)
    destruct (ces_ok f b q hi (lz64 w) L ltac:(lia) Hhi Hlz) as (fp1 & Hfp1 & Hneg1).
    rewrite Hfp1 in Hlem. cbn [bind] in Hlem.
    replace (0 <=? exp fp1) with false in Hlem by lia. rewrite andb_false_r in Hlem.
    inversion Hlem; subst fp1.
    split.
    + exists lo, hi. repeat split; try assumption; lia.
    + left. exists fp. split; [|exact Hneg].
      rewrite (cf_run f b q w lo hi L ltac:(lia) Hq Hcpa Hlo ltac:(lia)), Efb. exact Hfp1.
  - cbn [bind] in Hlem.
    pose proof (cf_main_exp_nonneg f q (lz64 w) lo hi L) as Hnn.
    set (fp1 := cf_main f q (lz64 w) lo hi) in *.
    destruct mn.
    + destruct (Hmany eq_refl) as [_ Hw1].
      replace (0 <=? exp fp1) with true in Hlem by lia. cbn [andb] in Hlem.
      unfold u64_add in Hlem. rewrite uop64_ok in Hlem by lia. cbn [bind] in Hlem.
      destruct (compute_float_sound_all f b q (w + 1) Lok ltac:(lia)) as (fp2 & E2 & _).
      rewrite E2 in Hlem. cbn [bind] in Hlem.
      destruct (ext_eqb fp1 fp2) eqn:Eq; cbn [negb] in Hlem.
      * inversion Hlem; subst. lia.
      * unfold compute_error in Hlem. rewrite shl64_ok in Hlem by lia.
        rewrite Z.mod_small in Hlem by lia. cbn [bind] in Hlem.
        rewrite Hcpa in Hlem. cbn [bind] in Hlem.
        split.
        -- exists lo, hi. repeat split; try assumption; lia.
        -- right. split; [reflexivity|]. exists fp1, fp2.
           split; [rewrite (cf_run f b q w lo hi L ltac:(lia) Hq Hcpa Hlo ltac:(lia)), Efb; reflexivity|].
           split; [exact Hnn|]. split; [exact E2|].
           intros ->. unfold ext_eqb in Eq. rewrite !Z.eqb_refl in Eq. discriminate.
    + cbn [andb] in Hlem. inversion Hlem; subst. lia.
Qed.

(** ** Part C: the estimate is within a few units of the true scaled product *)

Lemma qcheck_weak q : -342 <= q <= 308 ->
  (T128 q - 1) * qY q < qX q < (T128 q + 1) * qY q.
Proof.
  intros H. pose proof (qY_pos q) as HY.
  destruct (Z_lt_le_dec q (-27)).
  { pose proof (qcheck_floor q H ltac:(lia)). lia. }
  destruct (Z_lt_le_dec q 0).
  { pose proof (qcheck_ceil q ltac:(lia)) as [? _]. lia. }
  destruct (Z_le_gt_dec q 55).
  { pose proof (qcheck_exact q ltac:(lia)). lia. }
  pose proof (qcheck_floor q H ltac:(lia)). lia.
Qed.

Definition est_s (f : format) (e : Z) : Z :=
  if e <=? - (63 - MANTISSA_SIZE f) then 1 - e else 63 - MANTISSA_SIZE f.
Definition est_E (f : format) (e : Z) : Z :=
  if e <=? - (63 - MANTISSA_SIZE f) then femin f else e + (63 - MANTISSA_SIZE f) - 1 + femin f.

(** [rd_bits] in closed form, for every exponent (no lower bound needed) *)
Lemma rd_bits_cell f m e : lfmt f -> 2 ^ 63 <= m < 2 ^ 64 ->
  rd_bits f (mkExt m e) = cellP f (m / 2 ^ est_s f e) (est_E f e).
Proof.
  intros L Hm. pose proof (lfmt_emax f L) as (He1 & He2 & He3 & He4 & He5).
  pose proof (lf_ms f L) as HMS. pose proof (inf_bits_eq f L) as Einf.
  unfold rd_bits, rd_fields, round_spec, pack_fields, est_s, est_E, cellP. cbv zeta. cbn [mant exp].
  set (H2 := 2 ^ MANTISSA_SIZE f). assert (HH : 0 < H2) by (apply pow2_pos; lia).
  assert (E21 : 2 ^ (MANTISSA_SIZE f + 1) = 2 * H2) by (apply pow2_S; lia).
  unfold prec.
  destruct (e <=? - (63 - MANTISSA_SIZE f)) eqn:Es.
  - set (q := m / 2 ^ (1 - e)).
    pose proof (pow2_pos (1 - e) ltac:(lia)) as Hp.
    assert (Hq : 0 <= q < H2).
    { unfold q. split; [apply Z.div_pos; lia|].
      apply Z.div_lt_upper_bound; [lia|].
      assert (2 ^ 64 <= 2 ^ (1 - e) * H2).
      { unfold H2. rewrite <- pow2_add by lia. apply pow2_le. lia. }
      lia. }
    replace (H2 <=? q) with false by lia. cbn [mant exp].
    rewrite Z.mul_0_l, Z.lor_0_r.
    replace (emax f - (MANTISSA_SIZE f + 1) <? femin f) with false by lia.
    unfold encode. fold H2. replace (q <? H2) with true by lia. reflexivity.
  - set (sh := 63 - MANTISSA_SIZE f) in *.
    set (q := m / 2 ^ sh).
    pose proof (pow2_pos sh ltac:(unfold sh; lia)) as Hp.
    assert (E63 : 2 ^ 63 = 2 ^ sh * H2).
    { unfold H2. rewrite <- pow2_add by (unfold sh; lia). f_equal. unfold sh. lia. }
    assert (Hq : H2 <= q < 2 * H2).
    { unfold q. split.
      - apply Z.div_le_lower_bound; lia.
      - apply Z.div_lt_upper_bound; [lia|]. rewrite p2_64, p2_63 in *. lia. }
    rewrite E21. replace (q =? 2 * H2) with false by lia.
    replace (emax f - (MANTISSA_SIZE f + 1) <? e + sh - 1 + femin f)
      with (INFINITE_POWER f <=? e + sh) by lia.
    destruct (INFINITE_POWER f <=? e + sh) eqn:Ei; cbn [mant exp].
    + rewrite Z.lor_0_l, Einf. fold H2. lia.
    + pose proof (lor_add (q - H2) (e + sh) (MANTISSA_SIZE f) ltac:(lia) ltac:(fold H2; lia)) as LA.
      fold H2 in LA. rewrite LA. unfold encode. fold H2.
      replace (q <? H2) with false by lia. lia.
Qed.

(** monotone transfer of cell inequalities between two fractions *)
Lemma sc_mono_lower n1 d1 n2 d2 E a b : 0 < d1 -> 0 < d2 -> 0 <= b ->
  n1 * d2 <= n2 * d1 -> a * sc_den d1 E < b * sc_num n1 E -> a * sc_den d2 E < b * sc_num n2 E.
Proof.
  intros H1 H2 Hb Hle H. rewrite sc_num_eq, sc_den_eq in *.
  pose proof (p2n_pos E). pose proof (p2d_pos E).
  apply (Z.mul_lt_mono_pos_r d1); [exact H1|].
  assert (a * (d2 * p2n E) * d1 = d2 * (a * (d1 * p2n E))) by ring.
  assert (b * (n1 * p2d E) * d2 <= b * (n2 * p2d E) * d1).
  { replace (b * (n1 * p2d E) * d2) with (b * p2d E * (n1 * d2)) by ring.
    replace (b * (n2 * p2d E) * d1) with (b * p2d E * (n2 * d1)) by ring.
    apply Z.mul_le_mono_nonneg_l; [nia|exact Hle]. }
  nia.
Qed.
Lemma sc_mono_upper n1 d1 n2 d2 E a b : 0 < d1 -> 0 < d2 -> 0 <= b ->
  n2 * d1 <= n1 * d2 -> b * sc_num n1 E < a * sc_den d1 E -> b * sc_num n2 E < a * sc_den d2 E.
Proof.
  intros H1 H2 Hb Hle H. rewrite sc_num_eq, sc_den_eq in *.
  pose proof (p2n_pos E). pose proof (p2d_pos E).
  apply (Z.mul_lt_mono_pos_r d1); [exact H1|].
  assert (a * (d2 * p2n E) * d1 = d2 * (a * (d1 * p2n E))) by ring.
  assert (b * (n2 * p2d E) * d1 <= b * (n1 * p2d E) * d2).
  { replace (b * (n1 * p2d E) * d2) with (b * p2d E * (n1 * d2)) by ring.
    replace (b * (n2 * p2d E) * d1) with (b * p2d E * (n2 * d1)) by ring.
    apply Z.mul_le_mono_nonneg_l; [nia|exact Hle]. }
  nia.
Qed.

(** the arithmetic core: from the bracket of the product to the cell inequalities.
    [C] = 2^128, [B] = 2^64, [S] = 2^s the cell width in units of the estimate, [t] = 2^hilz *)
Lemma est_ineq t hi m S qq Y A B C : 1 <= t <= 2 -> m = hi * t -> 0 <= m -> 32 <= S -> 0 < Y ->
  0 < B -> C = B * B -> 8 <= B ->
  qq * S <= m < (qq + 1) * S ->
  (hi * C - B) * Y < A < ((hi + 2) * C + B) * Y ->
  (4 * qq - 1) * (S * C) * Y < 4 * (A * t) /\
  4 * (A * t) < (4 * (m + 4) + 1) * C * Y /\
  (4 * (m + 4) + 1) * C * Y <= (4 * qq + 6) * (S * C) * Y.
Proof.
  intros Ht Hm Hm0 HS HY HB HC HB8 Hqq [HA1 HA2].
  set (CY := C * Y). set (BY := B * Y).
  assert (HBY : 0 < BY) by (unfold BY; apply Z.mul_pos_pos; lia).
  assert (ECY : CY = B * BY) by (unfold CY, BY; rewrite HC; ring).
  assert (HCY : 8 * BY <= CY) by (rewrite ECY; apply Z.mul_le_mono_nonneg_r; lia).
  assert (L1 : t * ((hi * C - B) * Y) < t * A) by (apply Z.mul_lt_mono_pos_l; lia).
  assert (L2 : t * A < t * (((hi + 2) * C + B) * Y)) by (apply Z.mul_lt_mono_pos_l; lia).
  assert (E1 : t * ((hi * C - B) * Y) = m * CY - t * BY) by (unfold CY, BY; rewrite Hm; ring).
  assert (E2 : t * (((hi + 2) * C + B) * Y) = m * CY + 2 * t * CY + t * BY) by (unfold CY, BY; rewrite Hm; ring).
  assert (M1 : qq * S * CY <= m * CY) by (apply Z.mul_le_mono_nonneg_r; lia).
  assert (M2 : (m + 1) * CY <= (qq + 1) * S * CY) by (apply Z.mul_le_mono_nonneg_r; lia).
  assert (M3 : 32 * CY <= S * CY) by (apply Z.mul_le_mono_nonneg_r; lia).
  assert (T1 : t * BY <= 2 * BY) by (apply Z.mul_le_mono_nonneg_r; lia).
  assert (T2 : t * CY <= 2 * CY) by (apply Z.mul_le_mono_nonneg_r; lia).
  replace ((4 * qq - 1) * (S * C) * Y) with (4 * (qq * S * CY) - S * CY) by (unfold CY; ring).
  replace ((4 * (m + 4) + 1) * C * Y) with (4 * (m * CY) + 17 * CY) by (unfold CY; ring).
  replace ((4 * qq + 6) * (S * C) * Y) with (4 * ((qq + 1) * S * CY) + 2 * (S * CY)) by (unfold CY; ring).
  replace (4 * (A * t)) with (4 * (t * A)) by ring.
  replace ((m + 1) * CY) with (m * CY + CY) in M2 by ring.
  lia.
Qed.

Lemma many_ineq w m S qq : 0 < w -> 0 <= m < 2 ^ 64 -> 2 ^ 66 <= w * S -> 32 * w <= w * S ->
  m < (qq + 1) * S ->
  (w + 1) * (4 * (m + 4) + 1) <= w * ((4 * qq + 6) * S).
Proof.
  intros Hw Hm HwS HwS2 Hq.
  assert (P1 : w * (m + 1) <= w * ((qq + 1) * S)) by (apply Z.mul_le_mono_nonneg_l; lia).
  replace (w * ((4 * qq + 6) * S)) with (4 * (w * ((qq + 1) * S)) + 2 * (w * S)) by ring.
  replace ((w + 1) * (4 * (m + 4) + 1)) with (4 * (w * m) + 17 * w + 4 * m + 17) by ring.
  replace (w * (m + 1)) with (w * m + w) in P1 by ring.
  rewrite p2_64 in Hm. change (2 ^ 66) with 73786976294838206464 in HwS. lia.
Qed.


(** ** the scaled value against the estimate, at any grid [2^E] whose cells are [2^s] units wide *)
Lemma est_core f q w lo hi s E : lfmt f -> 0 < w < 2 ^ 64 -> -342 <= q <= 308 ->
  0 <= lo < 2 ^ 64 -> 2 ^ 62 <= hi < 2 ^ 64 ->
  refined_pair (w * 2 ^ lz64 w) q lo hi \/
  unrefined_pair (w * 2 ^ lz64 w) q (61 - MANTISSA_SIZE f) lo hi ->
  E + qs q + lz64 w = 128 + s - hilz_of hi -> 5 <= s ->
  let m := hi * 2 ^ hilz_of hi in
  let Dw := sc_den (dec_den q) E in
  (forall qq, qq * 2 ^ s <= m -> (4 * qq - 1) * Dw < 4 * sc_num (dec_num w q) E) /\
  4 * sc_num (dec_num w q) E * 2 ^ s < (4 * (m + 4) + 1) * Dw /\
  4 * sc_num (dec_num (w + 1) q) E * 2 ^ s * w < (w + 1) * (4 * (m + 4) + 1) * Dw.
Proof.
  intros L Hw Hq Hlo Hhi Hpair HEs Hs5.
  pose proof (lf_ms f L) as HMS.
  pose proof (lz64_spec w ltac:(lia)) as (Hlz & Hw').
  set (lz := lz64 w) in *. set (w' := w * 2 ^ lz) in *.
  set (hilz := hilz_of hi) in *. set (t := 2 ^ hilz).
  cbv zeta. fold t. set (m := hi * t).
  assert (Hh : 0 <= hilz <= 1 /\ 1 <= t <= 2 /\ 2 ^ 63 <= m < 2 ^ 64).
  { unfold m, t, hilz. destruct (hilz_cases hi Hhi) as [[H1 H]|[H1 H]]; rewrite H.
    - change (2 ^ 1) with 2. rewrite p2_63, p2_64 in *. change (2 ^ 62) with 4611686018427387904 in Hhi. lia.
    - change (2 ^ 0) with 1. lia. }
  destruct Hh as (Hh & Ht & Hm).
  pose proof (pow2_pos s ltac:(lia)) as HS.
  set (S := 2 ^ s) in *.
  assert (HS32 : 32 <= S).
  { unfold S. change 32 with (2 ^ 5). apply pow2_le. lia. }
  assert (Hdd : 0 < dec_den q) by (rewrite dec_den_eq; apply tenD_pos).
  pose proof (pair_facts f q w' lo hi L ltac:(lia) Hw' Hlo ltac:(lia) Hpair) as [_ PP]. cbv zeta in PP.
  pose proof (qcheck_weak q ltac:(lia)) as HX.
  pose proof (qY_pos q) as HY. pose proof (tentry_range q ltac:(lia)) as (HT1 & HT2 & HT).
  set (P := w' * T128 q) in *. set (Y := qY q) in *. set (X := qX q) in *.
  set (B := 2 ^ 64) in *. set (C := 2 ^ 128).
  assert (HB : 8 <= B) by (unfold B; rewrite p2_64; lia).
  assert (HC : C = B * B) by (unfold C, B; exact p2_128).
  assert (HP : hi * C <= P < (hi + 2) * C).
  { rewrite HC. destruct PP as [PR|[PU _]].
    - clear - PR Hlo HB. nia.
    - assert (0 <= w' * Tlo q) by (apply Z.mul_nonneg_nonneg; lia).
      assert (w' * Tlo q < B * B) by (apply Z.mul_lt_mono_nonneg; lia).
      clear - PU Hlo H H0 HB. nia. }
  set (A := w' * X).
  assert (HA : (hi * C - B) * Y < A < ((hi + 2) * C + B) * Y).
  { assert (HA1 : (P - w') * Y < A).
    { replace ((P - w') * Y) with (w' * ((T128 q - 1) * Y)) by (unfold P; ring).
      unfold A. apply Z.mul_lt_mono_pos_l; lia. }
    assert (HA2 : A < (P + w') * Y).
    { replace ((P + w') * Y) with (w' * ((T128 q + 1) * Y)) by (unfold P; ring).
      unfold A. apply Z.mul_lt_mono_pos_l; lia. }
    assert ((hi * C - B) * Y <= (P - w') * Y) by (apply Z.mul_le_mono_nonneg_r; lia).
    assert ((P + w') * Y <= ((hi + 2) * C + B) * Y) by (apply Z.mul_le_mono_nonneg_r; lia).
    lia. }
  set (K := 2 ^ (128 + s - hilz)).
  assert (HK : 0 < K) by (unfold K; apply pow2_pos; lia).
  assert (EKt : K * t = S * C).
  { unfold K, t, S, C. rewrite <- !pow2_add by lia. f_equal. lia. }
  assert (EK : 2 ^ lz * 2 ^ (E + qs q) = K).
  { unfold K. rewrite <- pow2_add by lia. f_equal. lia. }
  assert (SC : forall ww, sc_num (dec_num ww q) E * (K * Y) = (ww * 2 ^ lz * X) * sc_den (dec_den q) E).
  { intros ww. rewrite <- EK. apply scaling; lia. }
  pose proof (sc_den_pos (dec_den q) E Hdd) as HDw.
  set (Dw := sc_den (dec_den q) E) in *.
  assert (HC0 : 0 < C) by (rewrite HC; apply Z.mul_pos_pos; lia).
  assert (HSCY : 0 < S * C * Y) by (apply Z.mul_pos_pos; [apply Z.mul_pos_pos|]; lia).
  (* N * (S*C*Y) = (A_ww * t) * Dw *)
  assert (SC2 : forall ww, sc_num (dec_num ww q) E * (S * C * Y) = (ww * 2 ^ lz * X * t) * Dw).
  { intros ww. rewrite <- EKt. transitivity (sc_num (dec_num ww q) E * (K * Y) * t); [ring|].
    rewrite SC. ring. }
  (* the upper bound on A * t only needs m <= m *)
  assert (I2 : 4 * (A * t) < (4 * (m + 4) + 1) * C * Y).
  { pose proof (Z.div_mod m S ltac:(lia)) as Edm. pose proof (Z.mod_pos_bound m S ltac:(lia)) as Bdm.
    destruct (est_ineq t hi m S (m / S) Y A B C Ht eq_refl ltac:(lia) HS32 HY ltac:(lia) HC HB ltac:(lia) HA)
      as (_ & I2 & _). exact I2. }
  split; [|split].
  - intros qq Hqq.
    (* lower bound: only qq * S <= m is used *)
    assert (I1 : (4 * qq - 1) * (S * C) * Y < 4 * (A * t)).
    { pose proof (Z.div_mod m S ltac:(lia)) as Edm. pose proof (Z.mod_pos_bound m S ltac:(lia)) as Bdm.
      destruct (est_ineq t hi m S (m / S) Y A B C Ht eq_refl ltac:(lia) HS32 HY ltac:(lia) HC HB ltac:(lia) HA)
        as (I1 & _ & _).
      assert (qq <= m / S) by (apply Z.div_le_lower_bound; lia).
      assert ((4 * qq - 1) * (S * C * Y) <= (4 * (m / S) - 1) * (S * C * Y)) by (apply Z.mul_le_mono_nonneg_r; lia).
      replace ((4 * qq - 1) * (S * C) * Y) with ((4 * qq - 1) * (S * C * Y)) by ring.
      replace ((4 * (m / S) - 1) * (S * C) * Y) with ((4 * (m / S) - 1) * (S * C * Y)) in I1 by ring. lia. }
    apply (Z.mul_lt_mono_pos_r (S * C * Y)); [exact HSCY|].
    replace (4 * sc_num (dec_num w q) E * (S * C * Y)) with (4 * (sc_num (dec_num w q) E * (S * C * Y))) by ring.
    rewrite SC2. fold w'. fold A.
    replace ((4 * qq - 1) * Dw * (S * C * Y)) with ((4 * qq - 1) * (S * C) * Y * Dw) by ring.
    replace (4 * (A * t * Dw)) with (4 * (A * t) * Dw) by ring.
    apply Z.mul_lt_mono_pos_r; lia.
  - apply (Z.mul_lt_mono_pos_r (C * Y)); [apply Z.mul_pos_pos; lia|].
    replace (4 * sc_num (dec_num w q) E * S * (C * Y)) with (4 * (sc_num (dec_num w q) E * (S * C * Y))) by ring.
    rewrite SC2. fold w'. fold A.
    replace (4 * (A * t * Dw)) with (4 * (A * t) * Dw) by ring.
    replace ((4 * (m + 4) + 1) * Dw * (C * Y)) with ((4 * (m + 4) + 1) * C * Y * Dw) by ring.
    apply Z.mul_lt_mono_pos_r; lia.
  - apply (Z.mul_lt_mono_pos_r (C * Y)); [apply Z.mul_pos_pos; lia|].
    replace (4 * sc_num (dec_num (w + 1) q) E * S * w * (C * Y))
      with (4 * (sc_num (dec_num (w + 1) q) E * (S * C * Y)) * w) by ring.
    rewrite SC2.
    replace (4 * ((w + 1) * 2 ^ lz * X * t * Dw) * w) with ((w + 1) * (4 * (A * t) * Dw)) by (unfold A, w'; ring).
    replace ((w + 1) * (4 * (m + 4) + 1) * Dw * (C * Y)) with ((w + 1) * ((4 * (m + 4) + 1) * C * Y * Dw)) by ring.
    apply Z.mul_lt_mono_pos_l; [lia|]. apply Z.mul_lt_mono_pos_r; lia.
Qed.

(** ** Main theorem: the correctly rounded value of anything the parsed number can denote is the
    truncated estimate or its successor *)
Theorem lemire_declined_estimate f b n fp : lfmt_ok f = true -> rfmt_ok f = true ->
  0 <= nmant n < 2 ^ 64 ->
  (many n = true -> 2 ^ (MANTISSA_SIZE f + 3) <= nmant n /\ nmant n + 1 < 2 ^ 64) ->
  lemire TABLES f b n = Ok fp -> exp fp < 0 ->
  let fp' := mkExt (mant fp) (exp fp - INVALID_FP f) in
  let w := nmant n in let q := nexp n in
  2 ^ 63 <= mant fp' < 2 ^ 64 /\
  (exists hilz, 0 <= hilz <= 1 /\ exp fp' = pw q + EXPONENT_BIAS f - hilz - lz64 w - 62) /\
  exp fp' <= 2 ^ 15 /\
  forall n' d' bits, 0 < d' ->
    dec_num w q * d' <= n' * dec_den q ->
    n' * dec_den q <= dec_num (if many n then w + 1 else w) q * d' ->
    rne_bits f n' d' bits ->
    rd_bits f fp' <= bits <= rd_bits f fp' + 1.
Proof.
  intros Lok Hr Hw Hmany Hlem Hneg. pose proof (lfmt_ok_spec f Lok) as L.
  pose proof (lfmt_emax f L) as (He1 & He2 & He3 & He4 & He5).
  pose proof (lf_ms f L) as HMS. pose proof (lf_sp10 f L) as Hsp. pose proof (lf_lp10 f L) as Hlp.
  pose proof (rp_bias f (rfmt_ok_props f Hr)) as Hbias.
  assert (Hmany' : many n = true -> 0 < nmant n /\ nmant n + 1 < 2 ^ 64).
  { intros Hm. destruct (Hmany Hm). pose proof (pow2_pos (MANTISSA_SIZE f + 3) ltac:(lia)). lia. }
  destruct (lemire_declined_shape f b n fp Lok Hw Hmany' Hlem Hneg) as (Hw0 & Hq & (lo & hi & Hlo & Hhi & Hpair & Hces) & _).
  cbv zeta. set (w := nmant n) in *. set (q := nexp n) in *.
  pose proof (lz64_spec w ltac:(lia)) as (Hlz & Hw').
  set (lz := lz64 w) in *.
  rewrite (ces_eq f b q hi lz L ltac:(lia) Hhi Hlz) in Hces. inversion Hces as [Hfp]. clear Hces. subst fp.
  cbn [mant exp].
  set (hilz := hilz_of hi) in *. set (t := 2 ^ hilz).
  set (m := hi * t).
  set (e' := pw q + EXPONENT_BIAS f - hilz - lz - 62).
  replace (e' + INVALID_FP f - INVALID_FP f) with e' by lia.
  assert (Hh : 0 <= hilz <= 1 /\ 1 <= t <= 2 /\ 2 ^ 63 <= m < 2 ^ 64).
  { unfold m, t, hilz. destruct (hilz_cases hi Hhi) as [[H1 H]|[H1 H]]; rewrite H.
    - change (2 ^ 1) with 2. rewrite p2_63, p2_64 in *. change (2 ^ 62) with 4611686018427387904 in Hhi. lia.
    - change (2 ^ 0) with 1. lia. }
  destruct Hh as (Hh & Ht & Hm).
  pose proof (pw_bounds q ltac:(lia)) as Hpw.
  split; [exact Hm|]. split; [exists hilz; split; [exact Hh|unfold e'; lia]|].
  split; [change (2 ^ 15) with 32768; unfold e'; lia|].
  intros n' d' bits Hd' Hlow Hupp HR.
  rewrite (rd_bits_cell f m e' L Hm).
  set (s := est_s f e'). set (E := est_E f e').
  set (sh := 63 - MANTISSA_SIZE f) in *.
  assert (Hs : sh <= s /\ 5 <= s) by (unfold s, est_s; fold sh; destruct (e' <=? - sh) eqn:Es; unfold sh in *; lia).
  destruct Hs as [Hs Hs5].
  assert (HEs : E + qs q + lz = 128 + s - hilz).
  { unfold E, s, est_E, est_s, qs. fold sh. destruct (e' <=? - sh) eqn:Es; unfold e', sh, femin, prec in *; lia. }
  assert (HEf : femin f <= E).
  { unfold E, est_E. fold sh. destruct (e' <=? - sh) eqn:Es; lia. }
  pose proof (pow2_pos s ltac:(lia)) as HS.
  destruct (est_core f q w lo hi s E L ltac:(lia) ltac:(lia) Hlo Hhi Hpair HEs Hs5) as (C1 & C2 & C3).
  fold hilz t m in C1, C2, C3.
  set (S := 2 ^ s) in *.
  assert (HS32 : 32 <= S).
  { unfold S. change 32 with (2 ^ 5). apply pow2_le. lia. }
  assert (HSm : 2 ^ 64 <= S * 2 ^ (MANTISSA_SIZE f + 1)).
  { unfold S. rewrite <- pow2_add by lia. apply pow2_le. unfold sh in *. lia. }
  set (qq := m / S).
  pose proof (Z.div_mod m S ltac:(lia)) as Edm. pose proof (Z.mod_pos_bound m S ltac:(lia)) as Bdm.
  fold qq in Edm.
  assert (Hqq : qq * S <= m < (qq + 1) * S) by lia.
  assert (Hqq0 : 0 <= qq) by (unfold qq; apply Z.div_pos; lia).
  assert (Hqq1 : qq < 2 ^ (MANTISSA_SIZE f + 1)).
  { unfold qq. apply Z.div_lt_upper_bound; lia. }
  assert (Hqq2 : femin f < E -> 2 ^ MANTISSA_SIZE f <= qq).
  { intros HE. unfold E, est_E in HE. fold sh in HE.
    assert (Es : s = sh) by (unfold s, est_s; fold sh; destruct (e' <=? - sh) eqn:Es; lia).
    unfold qq. apply Z.div_le_lower_bound; [lia|].
    unfold S. rewrite Es. rewrite Z.mul_comm, <- pow2_add by (unfold sh; lia).
    replace (MANTISSA_SIZE f + sh) with 63 by (unfold sh; lia). lia. }
  assert (Hdn : 0 < dec_num w q) by (rewrite dec_num_eq; pose proof (tenN_pos q); apply Z.mul_pos_pos; lia).
  assert (Hdd : 0 < dec_den q) by (rewrite dec_den_eq; apply tenD_pos).
  assert (Hn' : 0 < n').
  { assert (0 < dec_num w q * d') by (apply Z.mul_pos_pos; lia). clear - H Hlow Hdd. nia. }
  pose proof (sc_den_pos (dec_den q) E Hdd) as HDw.
  set (Dw := sc_den (dec_den q) E) in *.
  assert (LowW : (4 * qq - 1) * Dw < 4 * sc_num (dec_num w q) E) by (apply C1; lia).
  assert (Hcell : 4 * (m + 4) + 1 <= (4 * qq + 6) * S) by lia.
  assert (UppW : 4 * sc_num (dec_num (if many n then w + 1 else w) q) E < (4 * qq + 6) * Dw).
  { destruct (many n) eqn:Emany.
    - destruct (Hmany eq_refl) as [Hwbig _]. fold w in Hwbig.
      assert (HwS : 2 ^ 66 <= w * S).
      { assert (2 ^ 66 = 2 ^ (MANTISSA_SIZE f + 3) * 2 ^ sh).
        { rewrite <- pow2_add by (unfold sh; lia). f_equal. unfold sh. lia. }
        assert (2 ^ sh <= S) by (unfold S; apply pow2_le; unfold sh in *; lia).
        pose proof (pow2_pos sh ltac:(unfold sh; lia)).
        pose proof (pow2_pos (MANTISSA_SIZE f + 3) ltac:(lia)).
        rewrite H. apply Z.mul_le_mono_nonneg; lia. }
      assert (HwS2 : 32 * w <= w * S) by (rewrite (Z.mul_comm 32 w); apply Z.mul_le_mono_nonneg_l; lia).
      pose proof (many_ineq w m S qq ltac:(lia) ltac:(lia) HwS HwS2 ltac:(lia)) as MI.
      apply (Z.mul_lt_mono_pos_r (S * w)); [apply Z.mul_pos_pos; lia|].
      replace (4 * sc_num (dec_num (w + 1) q) E * (S * w)) with (4 * sc_num (dec_num (w + 1) q) E * S * w) by ring.
      assert ((w + 1) * (4 * (m + 4) + 1) * Dw <= w * ((4 * qq + 6) * S) * Dw) by (apply Z.mul_le_mono_nonneg_r; lia).
      replace ((4 * qq + 6) * Dw * (S * w)) with (w * ((4 * qq + 6) * S) * Dw) by ring. lia.
    - apply (Z.mul_lt_mono_pos_r S); [lia|].
      assert ((4 * (m + 4) + 1) * Dw <= (4 * qq + 6) * S * Dw) by (apply Z.mul_le_mono_nonneg_r; lia).
      replace ((4 * qq + 6) * Dw * S) with ((4 * qq + 6) * S * Dw) by ring. lia. }
  apply (cell f n' d' E qq bits L Hn' Hd' HEf ltac:(lia) Hqq2); [|exact HR].
  split.
  - apply (sc_mono_lower (dec_num w q) (dec_den q) n' d' E (4 * qq - 1) 4 Hdd Hd' ltac:(lia) Hlow LowW).
  - apply (sc_mono_upper (dec_num (if many n then w + 1 else w) q) (dec_den q) n' d' E (4 * qq + 6) 4 Hdd Hd' ltac:(lia) Hupp UppW).
Qed.

(** ** [lemire] declines only inside the table range and for a non-zero significand *)
Corollary lemire_declines_only_in_range f b n fp : lfmt_ok f = true -> 0 <= nmant n < 2 ^ 64 ->
  (many n = true -> 0 < nmant n /\ nmant n + 1 < 2 ^ 64) ->
  lemire TABLES f b n = Ok fp -> exp fp < 0 ->
  SMALLEST_POWER_OF_TEN f <= nexp n <= LARGEST_POWER_OF_TEN f /\ 0 < nmant n.
Proof.
  intros Lok Hw Hmany Hlem Hneg.
  destruct (lemire_declined_shape f b n fp Lok Hw Hmany Hlem Hneg) as (H1 & H2 & _). auto.
Qed.

(** ** The exponent of the estimate: below -64 only after an all-ones fallback of
    [compute_float] itself (at w or at w + 1) *)
Lemma rne_zero_cell f n d bits : lfmt f -> 0 < n -> 0 < d ->
  2 * sc_num n (femin f) < sc_den d (femin f) -> rne_bits f n d bits -> bits = 0.
Proof.
  intros L Hn Hd H HR. pose proof (lfmt_emax f L) as (He1 & He2 & He3 & He4 & He5).
  pose proof (lf_ms f L) as HMS.
  pose proof (sc_den_pos d (femin f) Hd) as HDn. pose proof (sc_num_pos n (femin f) Hn) as HN.
  assert (Hp : 0 < 2 ^ prec f) by (apply pow2_pos; unfold prec; lia).
  assert (HC : canon_exp f n d (femin f)).
  { unfold canon_exp. split; [lia|]. split; [nia|left; reflexivity]. }
  destruct (rne_cases f n d (femin f) bits ltac:(unfold prec; lia) Hn Hd HC HR) as [[Hge _]|(Hlt & M & HM & ->)].
  - exfalso. assert (n < 2 ^ emax f * d); [|lia].
    apply (sc_lt n d (femin f) 0 (emax f)); try lia; change (2 ^ 0) with 1; lia.
  - pose proof (nearest_bounds n d M (femin f) HM) as NB.
    assert (M = 0) by nia. subst M. unfold encode.
    pose proof (pow2_pos (MANTISSA_SIZE f) ltac:(lia)).
    replace (0 <? 2 ^ MANTISSA_SIZE f) with true by lia. reflexivity.
Qed.

Lemma pack_zero_inv f fp : lfmt f -> fields_ok f fp -> pack f fp = 0 -> fp = mkExt 0 0.
Proof.
  intros L [He Hm] H. destruct fp as [m e]. cbn [mant exp] in *. unfold pack in H. cbn [mant exp] in H.
  apply Z.lor_eq_0_iff in H. destruct H as [H1 H2].
  pose proof (pow2_pos (MANTISSA_SIZE f) ltac:(pose proof (lf_ms f L); lia)).
  f_equal; nia.
Qed.

Theorem lemire_declined_exp_ge f b n fp : lfmt_ok f = true -> rfmt_ok f = true ->
  0 <= nmant n < 2 ^ 64 ->
  (many n = true -> 2 ^ (MANTISSA_SIZE f + 3) <= nmant n /\ nmant n + 1 < 2 ^ 64) ->
  lemire TABLES f b n = Ok fp -> exp fp < 0 ->
  ~ declined_at f b (nexp n) (nmant n) -> ~ declined_at f b (nexp n) (nmant n + 1) ->
  -64 <= exp fp - INVALID_FP f.
Proof.
  intros Lok Hr Hw Hmany Hlem Hneg Hnd1 Hnd2. pose proof (lfmt_ok_spec f Lok) as L.
  pose proof (lfmt_emax f L) as (He1 & He2 & He3 & He4 & He5).
  pose proof (lf_ms f L) as HMS. pose proof (lf_sp10 f L) as Hsp. pose proof (lf_lp10 f L) as Hlp.
  pose proof (rp_bias f (rfmt_ok_props f Hr)) as Hbias.
  assert (Hmany' : many n = true -> 0 < nmant n /\ nmant n + 1 < 2 ^ 64).
  { intros Hm. destruct (Hmany Hm). pose proof (pow2_pos (MANTISSA_SIZE f + 3) ltac:(lia)). lia. }
  destruct (lemire_declined_shape f b n fp Lok Hw Hmany' Hlem Hneg)
    as (Hw0 & Hq & (lo & hi & Hlo & Hhi & Hpair & Hces) & [Hd|(Hm & fp1 & fp2 & E1 & X1 & E2 & Hne)]);
    [contradiction|].
  set (w := nmant n) in *. set (q := nexp n) in *.
  destruct (Hmany Hm) as [Hwbig Hw1]. fold w in Hwbig, Hw1.
  assert (X2 : 0 <= exp fp2).
  { destruct (Z_lt_le_dec (exp fp2) 0); [|assumption]. exfalso. apply Hnd2. exists fp2. auto. }
  pose proof (lz64_spec w ltac:(lia)) as (Hlz & Hw').
  set (lz := lz64 w) in *.
  rewrite (ces_eq f b q hi lz L ltac:(lia) Hhi Hlz) in Hces. inversion Hces as [Hfp]. clear Hces. subst fp.
  cbn [mant exp] in *.
  set (hilz := hilz_of hi) in *.
  set (e' := pw q + EXPONENT_BIAS f - hilz - lz - 62) in *.
  replace (e' + INVALID_FP f - INVALID_FP f) with e' by lia.
  destruct (Z_le_gt_dec (-64) e') as [|Hdeep]; [assumption|exfalso].
  assert (Hh : 0 <= hilz <= 1 /\ 2 ^ 63 <= hi * 2 ^ hilz < 2 ^ 64).
  { unfold hilz. destruct (hilz_cases hi Hhi) as [[H1 H]|[H1 H]]; rewrite H.
    - change (2 ^ 1) with 2. rewrite p2_63, p2_64 in *. change (2 ^ 62) with 4611686018427387904 in Hhi. lia.
    - change (2 ^ 0) with 1. lia. }
  destruct Hh as (Hh & Hmr).
  set (s := 1 - e').
  assert (HEs : femin f + qs q + lz = 128 + s - hilz).
  { unfold s, e', qs, femin, prec. lia. }
  destruct (est_core f q w lo hi s (femin f) L ltac:(lia) ltac:(lia) Hlo Hhi Hpair HEs ltac:(unfold s; lia))
    as (_ & C2 & C3).
  fold hilz in C2, C3. set (m := hi * 2 ^ hilz) in *.
  assert (HS : 2 ^ 66 <= 2 ^ s) by (apply pow2_le; unfold s; lia).
  change (2 ^ 66) with 73786976294838206464 in HS. rewrite p2_64 in Hmr.
  set (S := 2 ^ s) in *.
  assert (Hdd : 0 < dec_den q) by (rewrite dec_den_eq; apply tenD_pos).
  pose proof (sc_den_pos (dec_den q) (femin f) Hdd) as HDw.
  set (Dw := sc_den (dec_den q) (femin f)) in *.
  assert (Hw2 : 2 <= w).
  { assert (2 ^ 1 <= 2 ^ (MANTISSA_SIZE f + 3)) by (apply pow2_le; lia). change (2 ^ 1) with 2 in H. lia. }
  (* both ends round to zero *)
  assert (Z1 : 2 * sc_num (dec_num w q) (femin f) < Dw).
  { apply (Z.mul_lt_mono_pos_r (2 * S)); [lia|].
    assert ((4 * (m + 4) + 1) * Dw <= 2 * S * Dw) by (apply Z.mul_le_mono_nonneg_r; lia).
    replace (2 * sc_num (dec_num w q) (femin f) * (2 * S)) with (4 * sc_num (dec_num w q) (femin f) * S) by ring.
    replace (Dw * (2 * S)) with (2 * S * Dw) by ring. lia. }
  assert (Z2 : 2 * sc_num (dec_num (w + 1) q) (femin f) < Dw).
  { apply (Z.mul_lt_mono_pos_r (2 * S * w)); [apply Z.mul_pos_pos; lia|].
    assert ((w + 1) * (4 * (m + 4) + 1) <= 2 * S * w).
    { assert (73786976294838206464 * w <= S * w) by (apply Z.mul_le_mono_nonneg_r; lia).
      assert ((w + 1) * (4 * (m + 4) + 1) <= (w + 1) * 73786976294838206477) by (apply Z.mul_le_mono_nonneg_l; lia).
      lia. }
    assert ((w + 1) * (4 * (m + 4) + 1) * Dw <= 2 * S * w * Dw) by (apply Z.mul_le_mono_nonneg_r; lia).
    replace (2 * sc_num (dec_num (w + 1) q) (femin f) * (2 * S * w))
      with (4 * sc_num (dec_num (w + 1) q) (femin f) * S * w) by ring.
    replace (Dw * (2 * S * w)) with (2 * S * w * Dw) by ring. lia. }
  destruct (compute_float_sound_all f b q w Lok ltac:(lia)) as (fa & Ea & Sa).
  destruct (compute_float_sound_all f b q (w + 1) Lok ltac:(lia)) as (fb & Eb & Sb).
  rewrite E1 in Ea. inversion Ea; subst fa. rewrite E2 in Eb. inversion Eb; subst fb.
  destruct (Sa X1) as [Fa Ra]. destruct (Sb X2) as [Fb Rb].
  assert (Hdn : forall ww, 0 < ww -> 0 < dec_num ww q).
  { intros ww Hww. rewrite dec_num_eq. pose proof (tenN_pos q). apply Z.mul_pos_pos; lia. }
  pose proof (rne_zero_cell f _ _ _ L (Hdn w ltac:(lia)) Hdd Z1 Ra) as Pa.
  pose proof (rne_zero_cell f _ _ _ L (Hdn (w + 1) ltac:(lia)) Hdd Z2 Rb) as Pb.
  apply Hne. rewrite (pack_zero_inv f fp1 L Fa Pa), (pack_zero_inv f fp2 L Fb Pb). reflexivity.
Qed.

(** the general (weak) lower bound, and the numbers for the two formats *)
Lemma declined_exp_formula_range q lz hilz bias :
  0 <= lz <= 63 -> 0 <= hilz <= 1 ->
  pw q + bias - 126 <= pw q + bias - hilz - lz - 62 <= pw q + bias - 62.
Proof. lia. Qed.

Lemma pw_F64_range q : SMALLEST_POWER_OF_TEN F64 <= q <= LARGEST_POWER_OF_TEN F64 -> -1074 <= pw q <= 1086.
Proof.
  intros [H1 H2]. pose proof (pw_mono _ _ H1). pose proof (pw_mono _ _ H2).
  change (pw (SMALLEST_POWER_OF_TEN F64)) with (-1074) in *. change (pw (LARGEST_POWER_OF_TEN F64)) with 1086 in *. lia.
Qed.
Lemma pw_F32_range q : SMALLEST_POWER_OF_TEN F32 <= q <= LARGEST_POWER_OF_TEN F32 -> -153 <= pw q <= 189.
Proof.
  intros [H1 H2]. pose proof (pw_mono _ _ H1). pose proof (pw_mono _ _ H2).
  change (pw (SMALLEST_POWER_OF_TEN F32)) with (-153) in *. change (pw (LARGEST_POWER_OF_TEN F32)) with 189 in *. lia.
Qed.

Corollary lemire_declined_exp_range_F64 b n fp : 0 <= nmant n < 2 ^ 64 ->
  (many n = true -> 2 ^ 55 <= nmant n /\ nmant n + 1 < 2 ^ 64) ->
  lemire TABLES F64 b n = Ok fp -> exp fp < 0 ->
  -125 <= exp fp - INVALID_FP F64 <= 2099 /\ (many n = true -> -70 <= exp fp - INVALID_FP F64).
Proof.
  intros Hw Hmany Hlem Hneg.
  destruct (lemire_declined_estimate F64 b n fp lfmt_ok_F64 rfmt_ok_F64 Hw Hmany Hlem Hneg)
    as (_ & (hilz & Hh & He) & _). cbn [mant exp] in He.
  assert (Hmany' : many n = true -> 0 < nmant n /\ nmant n + 1 < 2 ^ 64).
  { intros Hm. destruct (Hmany Hm). change (2 ^ 55) with 36028797018963968 in *. lia. }
  destruct (lemire_declines_only_in_range F64 b n fp lfmt_ok_F64 Hw Hmany' Hlem Hneg) as [Hq Hw0].
  pose proof (pw_F64_range _ Hq). pose proof (lz64_spec (nmant n) ltac:(lia)) as (Hlz & Hw').
  change (EXPONENT_BIAS F64) with 1075 in He. split; [lia|].
  intros Hm. destruct (Hmany Hm) as [Hb _].
  assert (lz64 (nmant n) <= 8).
  { destruct (Z_le_gt_dec (lz64 (nmant n)) 8); [assumption|exfalso].
    assert (2 ^ 9 <= 2 ^ lz64 (nmant n)) by (apply pow2_le; lia).
    change (2 ^ 9) with 512 in *. change (2 ^ 55) with 36028797018963968 in *. rewrite p2_64 in *. nia. }
  lia.
Qed.

Corollary lemire_declined_exp_range_F32 b n fp : 0 <= nmant n < 2 ^ 64 ->
  (many n = true -> 2 ^ 26 <= nmant n /\ nmant n + 1 < 2 ^ 64) ->
  lemire TABLES F32 b n = Ok fp -> exp fp < 0 ->
  -129 <= exp fp - INVALID_FP F32 <= 277.
Proof.
  intros Hw Hmany Hlem Hneg.
  destruct (lemire_declined_estimate F32 b n fp lfmt_ok_F32 rfmt_ok_F32 Hw Hmany Hlem Hneg)
    as (_ & (hilz & Hh & He) & _). cbn [mant exp] in He.
  assert (Hmany' : many n = true -> 0 < nmant n /\ nmant n + 1 < 2 ^ 64).
  { intros Hm. destruct (Hmany Hm). change (2 ^ 26) with 67108864 in *. lia. }
  destruct (lemire_declines_only_in_range F32 b n fp lfmt_ok_F32 Hw Hmany' Hlem Hneg) as [Hq Hw0].
  pose proof (pw_F32_range _ Hq). pose proof (lz64_spec (nmant n) ltac:(lia)) as (Hlz & Hw').
  change (EXPONENT_BIAS F32) with 150 in He. lia.
Qed.

(** ** Examples *)
(** a realistic input (the 19 leading digits of half the smallest subnormal, more digits
    following) on which the estimate has exponent -64: [compute_float] answers 0 at w and the
    smallest subnormal at w + 1, so the wrapper declines *)
Example ex_declined_m64 :
  let n := mkNumber (-342) 2470328229206232720 true in
  compute_float TABLES F64 checked_build (nexp n) (nmant n) = Ok (mkExt 0 0) /\
  compute_float TABLES F64 checked_build (nexp n) (nmant n + 1) = Ok (mkExt 1 0) /\
  lemire TABLES F64 checked_build n = Ok (mkExt 18446744073709551608 (-32832)) /\
  -32832 - INVALID_FP F64 = -64 /\
  rd_bits F64 (mkExt 18446744073709551608 (-64)) = 0.
Proof. cbv zeta. repeat split; vm_compute; reflexivity. Qed.

(** the hypotheses of the main theorem on that instance *)
Example ex_declined_hyps :
  let n := mkNumber (-342) 2470328229206232720 true in
  lfmt_ok F64 = true /\ rfmt_ok F64 = true /\ 0 <= nmant n < 2 ^ 64 /\
  (many n = true -> 2 ^ (MANTISSA_SIZE F64 + 3) <= nmant n /\ nmant n + 1 < 2 ^ 64) /\
  exists fp, lemire TABLES F64 checked_build n = Ok fp /\ exp fp < 0.
Proof.
  cbv zeta. split; [exact lfmt_ok_F64|]. split; [exact rfmt_ok_F64|].
  split; [cbn [nmant]; rewrite p2_64; lia|]. split.
  - intros _. cbn [nmant]. split; [vm_compute; discriminate|rewrite p2_64; lia].
  - eexists. split; [vm_compute; reflexivity|]. cbn [exp]. lia.
Qed.

(** an ordinary declined halfway case: 9007199254740993.000... with more digits following; the
    two ends round to [rd_bits] and [rd_bits + 1] *)
Example ex_declined_tie :
  let n := mkNumber (-3) 9007199254740993000 true in
  lemire TABLES F64 checked_build n = Ok (mkExt 9223372036854776832 (-31703)) /\
  rd_bits F64 (mkExt 9223372036854776832 (-31703 - INVALID_FP F64)) = 4845873199050653696 /\
  compute_float TABLES F64 checked_build (nexp n) (nmant n) = Ok (mkExt 0 1076) /\
  compute_float TABLES F64 checked_build (nexp n) (nmant n + 1) = Ok (mkExt 1 1076) /\
  pack F64 (mkExt 0 1076) = 4845873199050653696 /\ pack F64 (mkExt 1 1076) = 4845873199050653696 + 1.
Proof. cbv zeta. repeat split; vm_compute; reflexivity. Qed.

Print Assumptions lemire_declined_estimate.
Print Assumptions lemire_declined_exp_ge.
Print Assumptions lemire_declined_shape.
Print Assumptions lemire_declines_only_in_range.
Print Assumptions lemire_declined_exp_range_F64.
