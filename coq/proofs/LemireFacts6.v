(** * LemireFacts6: accuracy of the DECLINED estimate of the Eisel-Lemire stage (what the slow
    path consumes): the correctly rounded result is the truncated estimate [rd_bits] or its
    successor. *)
From Coq Require Import ZArith List Bool Lia Znumtheory.
From Coq Require Import ZifyBool.
From ML Require Import proofs.RoundingFactsZ proofs.NumFacts proofs.SlowFacts2c.
From ML Require Import base.RustSem model.Fmt model.Num model.Number model.Lemire
  gen.Consts gen.Tables spec.RneZ proofs.TableFacts proofs.LemireFacts0 proofs.LemireFacts1
  proofs.LemireFacts2 proofs.LemireFacts3 proofs.LemireFacts4 proofs.LemireFacts5.
Import ListNotations.
Open Scope Z_scope.

Arguments Z.pow : simpl never.
Local Opaque Z.pow.

(** ** Part A: [rne_bits] of a value known to lie in (q - 1/4, q + 3/2) cells *)

Lemma sc_shift n d E1 E2 : E1 <= E2 ->
  sc_num n E1 * sc_den d E2 = sc_num n E2 * sc_den d E1 * 2 ^ (E2 - E1).
Proof.
  intros H. unfold sc_num, sc_den.
  destruct (0 <=? E1) eqn:A1; destruct (0 <=? E2) eqn:A2; try lia.
  - rewrite (pow2_split E1 E2) by lia. ring.
  - replace (E2 - E1) with (- E1 + E2) by lia. rewrite pow2_add by lia. ring.
  - rewrite (pow2_split (- E2) (- E1)) by lia. replace (- E1 - - E2) with (E2 - E1) by lia. ring.
Qed.

Lemma sc_num_pos n E : 0 < n -> 0 < sc_num n E.
Proof. intros. rewrite sc_num_eq. pose proof (p2d_pos E). nia. Qed.

Lemma canon_exp_unique f n d E1 E2 : 1 <= prec f -> 0 < n -> 0 < d ->
  canon_exp f n d E1 -> canon_exp f n d E2 -> E1 = E2.
Proof.
  intros Hp Hn Hd.
  assert (K : forall Ea Eb, Ea < Eb -> canon_exp f n d Ea -> canon_exp f n d Eb -> False).
  { intros Ea Eb Hlt (A1 & A2 & A3) (B1 & B2 & B3).
    destruct B3 as [B3|B3]; [lia|].
    pose proof (sc_shift n d Ea Eb ltac:(lia)) as S.
    pose proof (sc_den_pos d Ea Hd). pose proof (sc_den_pos d Eb Hd).
    assert (P2 : 2 ^ 1 <= 2 ^ (Eb - Ea)) by (apply pow2_le; lia). change (2 ^ 1) with 2 in P2.
    assert (PP : 2 ^ prec f = 2 * 2 ^ (prec f - 1)).
    { rewrite <- pow2_S by lia. f_equal; lia. }
    pose proof (pow2_pos (prec f - 1) ltac:(lia)).
    set (Na := sc_num n Ea) in *. set (Da := sc_den d Ea) in *.
    set (Nb := sc_num n Eb) in *. set (Db := sc_den d Eb) in *.
    set (t := 2 ^ (Eb - Ea)) in *. set (h := 2 ^ (prec f - 1)) in *.
    rewrite PP in A2.
    assert (Na * Db < 2 * h * Da * Db) by nia.
    assert (h * Db * Da * 2 <= Nb * Da * t).
    { assert (h * Db * Da <= Nb * Da) by nia. nia. }
    nia. }
  intros C1 C2. destruct (Z.lt_trichotomy E1 E2) as [H|[H|H]]; [exfalso|exact H|exfalso].
  - exact (K E1 E2 H C1 C2).
  - exact (K E2 E1 H C2 C1).
Qed.

Lemma rne_cases f n d Ec bits : 1 <= prec f -> 0 < n -> 0 < d -> canon_exp f n d Ec ->
  rne_bits f n d bits ->
  (2 ^ emax f * d <= n /\ bits = inf_bits f) \/
  (n < 2 ^ emax f * d /\ exists M, nearest_even n d M Ec /\ bits = encode f M Ec).
Proof.
  intros Hp Hn Hd HC [(H0 & _)|[(_ & H1 & H2)|(_ & H1 & M & E & C & NE & HB)]]; [lia|left; auto|].
  right. split; [exact H1|]. exists M.
  rewrite (canon_exp_unique f n d Ec E Hp Hn Hd HC C). auto.
Qed.

Lemma nearest_bounds n d M E : nearest_even n d M E ->
  2 * sc_num n E - sc_den d E <= 2 * M * sc_den d E <= 2 * sc_num n E + sc_den d E.
Proof. intros [H _]. lia. Qed.

(** transfer of a strict inequality between proportional fractions  c*N'/D' = k*N/Dn *)
Lemma ratio_gt N Dn N' D' c k a b : 0 < Dn -> 0 < D' -> 0 < k -> 0 < c ->
  c * N' * Dn = k * N * D' -> a * Dn < b * N -> a * k * D' < b * c * N'.
Proof.
  intros HDn HD' Hk Hc R H.
  apply (Z.mul_lt_mono_pos_r Dn); [exact HDn|].
  replace (b * c * N' * Dn) with (b * (c * N' * Dn)) by ring. rewrite R.
  assert (0 < k * D') by nia. nia.
Qed.
Lemma ratio_lt N Dn N' D' c k a b : 0 < Dn -> 0 < D' -> 0 < k -> 0 < c ->
  c * N' * Dn = k * N * D' -> b * N < a * Dn -> b * c * N' < a * k * D'.
Proof.
  intros HDn HD' Hk Hc R H.
  apply (Z.mul_lt_mono_pos_r Dn); [exact HDn|].
  replace (b * c * N' * Dn) with (b * (c * N' * Dn)) by ring. rewrite R.
  assert (0 < k * D') by nia. nia.
Qed.
Lemma ratio_ge N Dn N' D' c k a b : 0 < Dn -> 0 < D' -> 0 < k -> 0 < c ->
  c * N' * Dn = k * N * D' -> a * Dn <= b * N -> a * k * D' <= b * c * N'.
Proof.
  intros HDn HD' Hk Hc R H.
  apply (Z.mul_le_mono_pos_r _ _ Dn); [exact HDn|].
  replace (b * c * N' * Dn) with (b * (c * N' * Dn)) by ring. rewrite R.
  assert (0 < k * D') by nia. nia.
Qed.
