(** * DeepFallback2: [no_deep_fallback] in the vocabulary of EndToEnd4, and the end-to-end theorem
    of the non-compact configurations without the residual premise. *)
From Coq Require Import ZArith QArith List Bool Lia.
From ML Require Import base.RustSem model.Fmt model.Num model.Number model.Parse model.Lemire model.Slow model.Top
  spec.Decimal spec.Round spec.RoundFacts spec.RneZ spec.RneBridge gen.Consts gen.Tables gen.BTables gen.PowDump
  proofs.ParseFacts proofs.FastPathFacts proofs.EndToEnd proofs.EndToEnd2 proofs.EndToEnd3
  proofs.LemireFacts0 proofs.LemireFacts6 proofs.EndToEnd4 proofs.DeepFallback.
Import ListNotations.
Open Scope Z_scope.

(** the residual number-theoretic premise of [parse_float_correct_noncompact] holds *)
Theorem no_deep_fallback : forall f b n, f = F32 \/ f = F64 ->
  0 <= nmant n < 2 ^ 64 ->
  (many n = true -> 2 ^ (MANTISSA_SIZE f + 3) <= nmant n /\ nmant n + 1 < 2 ^ 64) ->
  no_deep_fallback_at f b n.
Proof.
  intros f b n Hf Hw Hmany. unfold no_deep_fallback_at.
  exact (no_deep_fallback_unfolded f b n Hf Hw Hmany).
Qed.

(** every parsed number satisfies the premise *)
Lemma no_deep_fallback_parse_spec : forall f b i fr e, f = F32 \/ f = F64 ->
  valid_inputb i fr e = true -> no_deep_fallback_at f b (parse_spec i fr e).
Proof.
  intros f b i fr e Hf V.
  destruct (parse_number_spec b i fr e V) as (n & Hn & Hm & He & S).
  assert (Hnn : n = parse_spec i fr e) by (rewrite (parse_number_exact b i fr e V) in Hn; congruence).
  subst n. clear Hn. cbv zeta in S. destruct S as (_ & _ & _ & _ & Sb & _).
  apply no_deep_fallback; [exact Hf|exact Hm|].
  intros Ht. destruct (Sb Ht) as [[Hl Hh] _]. revert Hl Hh. generalize (nmant (parse_spec i fr e)).
  intros z Hl Hh.
  assert (H18 : 2 ^ (MANTISSA_SIZE f + 3) <= 10 ^ 18) by (destruct Hf; subst f; vm_compute; discriminate).
  assert (H19 : 10 ^ 19 < 2 ^ 64) by (vm_compute; reflexivity).
  split; [exact (Z.le_trans _ _ _ H18 Hl)|].
  pose proof (Zlt_le_succ _ _ Hh) as Hs'. unfold Z.succ in Hs'. exact (Z.le_lt_trans _ _ _ Hs' H19).
Qed.

(** ** The end-to-end theorem for the non-compact configurations, no residual premise *)
Theorem parse_float_correct_noncompact_full : forall c f b BT i fr e,
  In c ALL_CONFIGS -> compact c = false -> f = F32 \/ f = F64 ->
  valid_inputb i fr e = true -> bounded_input i fr e ->
  parse_float c TABLES BT LIMITS f b i fr e = Ok (RN f (dec_value i fr e)).
Proof.
  intros c f b BT i fr e Hc Hcomp Hf V Hb.
  apply parse_float_correct_noncompact; try assumption.
  apply no_deep_fallback_parse_spec; assumption.
Qed.

(** non-vacuity: the 54-digit slow-path input of [noncompact_hyps] (EndToEnd4) *)
Example noncompact_full_hyps :
  let i := [49] in
  let fr := [48;48;48;48;48;48;48;48;48;48;48;48;48;48;48;49;49;49;48;50;50;51;48;50;52;54;50;53;49;53;54;53;52;48;52;50;51;54;51;49;54;54;56;48;57;48;56;50;48;51;49;50;53] in
  In CFG_s ALL_CONFIGS /\ compact CFG_s = false /\ valid_inputb i fr 0 = true /\ bounded_input i fr 0 /\
  parse_float CFG_s TABLES BTABLES LIMITS F64 checked_build i fr 0 = Ok 4607182418800017408.
Proof.
  cbv zeta. split; [vm_compute; tauto|]. split; [reflexivity|]. split; [vm_compute; reflexivity|].
  split; [unfold bounded_input; vm_compute; intuition discriminate|]. vm_compute. reflexivity.
Qed.

Print Assumptions no_deep_fallback.
Print Assumptions parse_float_correct_noncompact_full.
