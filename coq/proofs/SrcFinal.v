(** * SrcFinal: the end-to-end theorems restated for the definitions REGENERATED FROM THE RUST SOURCE.

    [gen/SrcParse.v]'s [rs_parse_float] is the literal translation (tools/rs2coq) of
    `minimal_lexical::parse_float` and calls the translations of every function below it
    (parse.rs, number.rs, lemire.rs / bellerophon.rs, slow.rs, bigint.rs, rounding.rs, mask.rs,
    num.rs, extended_float.rs).  The per-module equalities [rs_*_eq] (proofs/SrcEq*.v) compose into

      [rs_parse_float_eq_bytes] : rs_parse_float = the hand-written model's parse_float, for ARBITRARY
        byte lists (garbage included) shorter than 2^63, every exponent, both formats, both build modes,
        every configuration;

    and with the main theorem of the development (proofs/Final.v) into

      [rs_parse_float_correct] : the regenerated definition returns the correctly rounded value.

    The same for the four shipped copies of the string front-end ([rs_<tag>_parse_float_eq_bytes],
    [rs_<tag>_parse_float_correct]) and for the "no undefined behaviour on arbitrary bytes" theorem
    ([rs_parse_float_no_UB]).  Trusted: the translator and model/SrcLib.v, model/Vec.v (the vector
    primitives); see DESIGN.md 4.1b / 8. *)
From Coq Require Import ZArith List Bool Lia.
From ML Require Import base.RustSem model.Fmt model.FloatOps model.Num model.Number model.Top model.FrontEnd
  spec.Decimal spec.Round
  gen.Consts gen.Tables gen.BTables gen.PowDump gen.Src gen.SrcBigint gen.SrcSlow gen.SrcParse
  gen.SrcFrontSimple gen.SrcFrontEtc gen.SrcFrontFuzz gen.SrcFrontTest
  proofs.SrcEqBase proofs.SrcEqParse proofs.SrcEqSlow proofs.SrcEqFront proofs.FrontEndFacts proofs.NoUB proofs.Final.
Import ListNotations.
Open Scope Z_scope.

Lemma fmt_ok_std : forall f, f = F32 \/ f = F64 -> fmt_ok f.
Proof. intros f [-> | ->]; [apply fmt_ok_F32 | apply fmt_ok_F64]. Qed.

(** ** the library: regenerated source = model, for arbitrary bytes *)
Theorem rs_parse_float_eq_bytes : forall c f b i fr e,
  f = F32 \/ f = F64 -> zlen i + zlen fr < 2 ^ 63 ->
  rs_parse_float c TABLES BTABLES LIMITS f b i fr e = parse_float c TABLES BTABLES LIMITS f b i fr e.
Proof.
  intros c f b i fr e Hf Hlen.
  assert (H63 : 2 ^ 63 < 2 ^ 64) by reflexivity.
  apply rs_parse_float_eq_std; [lia | exact Hf |].
  intros n fp. apply rs_slow_eq_TABLES; [apply fmt_ok_std; exact Hf | exact Hlen].
Qed.

(** ** the main theorem, about the regenerated source *)
Theorem rs_parse_float_correct : forall c f b i fr e,
  In c ALL_CONFIGS -> f = F32 \/ f = F64 ->
  valid_inputb i fr e = true -> zlen i + zlen fr <= 2 ^ 28 ->
  rs_parse_float c TABLES BTABLES LIMITS f b i fr e = Ok (RN f (dec_value i fr e)).
Proof.
  intros c f b i fr e Hc Hf V Hlen.
  assert (H28 : 2 ^ 28 < 2 ^ 63) by reflexivity.
  rewrite rs_parse_float_eq_bytes by (try assumption; lia).
  apply parse_float_correct_final; assumption.
Qed.

(** arbitrary bytes never make the regenerated parse_float perform an unchecked operation outside its
    side condition (the model's [UB] outcomes: unchecked table index, write past the vector, read of
    an uninitialised cell, set_len beyond the initialised part) *)
Theorem rs_parse_float_no_UB : forall c f b i fr e k,
  f = F32 \/ f = F64 -> zlen i + zlen fr < 2 ^ 63 ->
  ub_params_ok c TABLES f = true ->
  rs_parse_float c TABLES BTABLES LIMITS f b i fr e <> UB k.
Proof.
  intros c f b i fr e k Hf Hlen Hp. rewrite rs_parse_float_eq_bytes by assumption.
  apply parse_float_no_UB. exact Hp.
Qed.

(** ** the four shipped front-end copies: regenerated source = model, for arbitrary bytes *)
Lemma pf_eq_at_std : forall c f b s, f = F32 \/ f = F64 -> zlen s < 2 ^ 63 ->
  pf_eq_at c TABLES BTABLES LIMITS f b s.
Proof.
  intros c f b s Hf Hs. apply pf_eq_at_digits. intros i fr e _ _ Hl _.
  apply rs_parse_float_eq_bytes; [exact Hf | lia].
Qed.

Section Front.
Variables (c : config) (f : format) (b : build) (s : list Z).
Hypothesis Hf : f = F32 \/ f = F64.
Hypothesis Hs : zlen s < 2 ^ 63.
Let H64 : zlen s < 2 ^ 64.
Proof. assert (2 ^ 63 < 2 ^ 64) by reflexivity. lia. Qed.

Theorem rs_simple_parse_float_eq_bytes :
  rs_simple_parse_float c TABLES BTABLES LIMITS f b s = fe_simple c TABLES BTABLES LIMITS f b s.
Proof. apply rs_simple_parse_float_eq; [exact H64 | apply pf_eq_at_std; assumption]. Qed.
Theorem rs_etc_parse_float_eq_bytes :
  rs_etc_parse_float c TABLES BTABLES LIMITS f b s = fe_simple c TABLES BTABLES LIMITS f b s.
Proof. apply rs_etc_parse_float_eq; [exact H64 | apply pf_eq_at_std; assumption]. Qed.
Theorem rs_fuzz_parse_float_eq_bytes :
  rs_fuzz_parse_float c TABLES BTABLES LIMITS f b s = fe_fuzz c TABLES BTABLES LIMITS f b s.
Proof. apply rs_fuzz_parse_float_eq; [exact H64 | apply pf_eq_at_std; assumption]. Qed.
Theorem rs_test_parse_float_eq_bytes :
  rs_test_parse_float c TABLES BTABLES LIMITS f b s = fe_fuzz c TABLES BTABLES LIMITS f b s.
Proof. apply rs_test_parse_float_eq; [exact H64 | apply pf_eq_at_std; assumption]. Qed.
End Front.

(** value + suffix of the regenerated `examples/simple.rs` front-end (and its copy under etc/) *)
Theorem rs_simple_parse_float_correct : forall c f b s,
  In c ALL_CONFIGS -> f = F32 \/ f = F64 -> zlen s <= 2 ^ 28 ->
  let x := lex s in
  rs_simple_parse_float c TABLES BTABLES LIMITS f b s =
    Ok ((let v := RN f (dec_value (lx_int x) (lx_frac x) (lx_exp x)) in
         if lx_pos x then v else f_neg f v), lx_rest x).
Proof.
  intros c f b s Hc Hf Hlen x.
  assert (H28 : 2 ^ 28 < 2 ^ 63) by reflexivity.
  rewrite rs_simple_parse_float_eq_bytes by (try assumption; lia).
  apply C19_final; assumption.
Qed.

Theorem rs_etc_parse_float_correct : forall c f b s,
  In c ALL_CONFIGS -> f = F32 \/ f = F64 -> zlen s <= 2 ^ 28 ->
  let x := lex s in
  rs_etc_parse_float c TABLES BTABLES LIMITS f b s =
    Ok ((let v := RN f (dec_value (lx_int x) (lx_frac x) (lx_exp x)) in
         if lx_pos x then v else f_neg f v), lx_rest x).
Proof.
  intros c f b s Hc Hf Hlen x.
  assert (H28 : 2 ^ 28 < 2 ^ 63) by reflexivity.
  rewrite rs_etc_parse_float_eq_bytes by (try assumption; lia).
  apply C19_final; assumption.
Qed.

(** the premises are satisfiable: a 21-digit halfway input that goes through the big-integer path *)
Example rs_parse_float_correct_example :
  let i := [57;48;48;55;49;57;57;50;53;52;55;52;48;57;57;51] in   (* "9007199254740993" *)
  let fr := [48;48;48;48;49] in                                     (* "00001" *)
  In CFG_s ALL_CONFIGS /\ valid_inputb i fr 0 = true /\ zlen i + zlen fr <= 2 ^ 28 /\
  rs_parse_float CFG_s TABLES BTABLES LIMITS F64 release_build i fr 0 = Ok 4845873199050653697.
Proof.
  cbv zeta. split; [unfold ALL_CONFIGS; simpl; tauto|].
  split; [vm_compute; reflexivity|]. split; [vm_compute; discriminate|]. vm_compute; reflexivity.
Qed.

Print Assumptions rs_parse_float_eq_bytes.
Print Assumptions rs_parse_float_correct.
Print Assumptions rs_parse_float_no_UB.
Print Assumptions rs_simple_parse_float_eq_bytes.
Print Assumptions rs_fuzz_parse_float_eq_bytes.
Print Assumptions rs_simple_parse_float_correct.
Print Assumptions rs_etc_parse_float_correct.
