(** * gen/SrcSlow.v [rs_parse_mantissa] = model/Slow.v [parse_mantissa]   (src/slow.rs)

    The Gallina text that tools/rs2coq generates from `parse_mantissa` (two labelled outer `loop`s,
    each with an inner `while`, the three `round_up_nonzero!` scans, the zero-skipping `for`) is
    equal to the hand-written state machine of the model:

      rs_parse_mantissa_eq :
        (compact c = false -> limbs_ok (SMALL_INT_POW10 T)) ->
        zlen i + zlen fr + 1 < 2 ^ 64 ->
        rs_parse_mantissa c T L b i fr maxd = parse_mantissa c T L b i fr maxd

    for ALL byte lists [i], [fr] (garbage bytes included: `c - b'0'`, `value *= 10`,
    `value += digit` panic or wrap the same way on both sides), every [maxd] (negative ones
    included), both build modes, both vector back-ends, compact or not, any [L].

    Hypotheses, and why each is there.
    - [compact c = false -> limbs_ok (SMALL_INT_POW10 T)]: the entries of the table read by
      `int_pow_fast_path(counter, 10)` are u64 values (their Rust type is `[u64; N]`).  The result
      is passed to `mul_small`; the translated `scalar_mul` computes in checked u128 arithmetic,
      the model in Z, and they only agree on u64 operands ([rs_small_mul_eq]).  Needed:
      [table_not_u64_counterexample] below.  Nothing is assumed on the *length* of the table:
      an out-of-range read is the same [UB UbIndex] on both sides.
    - [zlen i + zlen fr + 1 < 2 ^ 64]: `counter += 1` / `count += 1` are (checked / wrapping)
      `usize` additions in the source and [+ 1] on Z in the model, and the index arithmetic of
      `add_small` is exact only for vectors shorter than 2^64 ([rs_small_add_eq]).  The invariant
      [pinv] gives [count <= number of bytes consumed] and
      [length of the big integer + counter <= count], hence everything stays below
      [zlen i + zlen fr + 2].  True of all Rust slices (at most 2^63 - 1 bytes each, in one
      address space).  No counterexample can be *evaluated* (it needs 2^64 bytes).
    - nothing on [maxd]: for [0 <= maxd] the invariant [count <= maxd] shows that the model
      never reaches [PmDiverge] and that every outer iteration but the first consumes a byte, so
      the fuel [S (S (length ..))] of the outer loops and [S (length ..)] of the inner loops is
      never exhausted ([outer_gen]: exactly this fuel is needed).  For [maxd < 0] (not a `usize`)
      the source spins on an empty big integer until its fuel runs out and the model reports
      [PmDiverge]: both are [Panic PkFuel] ([parse_mantissa_neg]).  [maxd = 0] is fine as well
      (immediate `count == max_digits`).
    - nothing on [L]: `step` is 19 and `max_native` 10^19 on both sides (LIMB_BITS = 64).
    - the accumulated `value` is always a u64: it is 0 or the result of [uop b 64 _]
      ([uop64_range]); the big integer keeps [limbs_ok] ([pm_mul_add_facts]).  Both are part of the
      invariant, not hypotheses.

    Proof structure.  [rs_parse_mantissa_unfold] (by [reflexivity]) cuts the generated term into
    [inner_body], [post], [outer_body], [rs_flush_end], [rs_round_up], [rs_skip], [fin_int],
    [fin_frac].  On the model side [pm_int] and [pm_frac] are instances of one function [pm_gen]
    ([pm_int_gen], [pm_frac_gen]).  [outer_gen] relates the control point "inside the inner loop
    with fuel [ifuel], the outer loop having [ofuel] left" to [pm_gen], by induction on the
    remaining bytes. *)
From Coq Require Import ZArith List Bool Lia Znumtheory.
From Coq Require Import ZifyBool.
From ML Require Import base.RustSem model.Fmt model.Vec model.Num model.Number model.Bigint model.Slow model.SrcLib.
From ML Require Import gen.Src gen.SrcBigint gen.SrcSlow gen.Consts gen.Tables gen.PowDump.
From ML Require Import proofs.LimbVal proofs.BigintFacts1 proofs.SrcEqBase proofs.SrcEqBigintB.
Import ListNotations.
Ltac Zify.zify_post_hook ::= Z.div_mod_to_equations.
Open Scope Z_scope.
Open Scope rust_scope.
Local Opaque Z.pow.

(** ** the pieces of the generated term *)
Section PM.
Variables (c : config) (T : tables) (L : limits) (b : build) (maxd : Z).

Definition St5 := (Z * Z * list Z * vec * Z)%type.
Definition St4 := (Z * Z * list Z * Z)%type.
Definition Ret := (vec * Z)%type.

(** the inner `while counter < step && count < max_digits` ([res] = the big integer, not touched) *)
Definition inner_body (res : vec) : St4 -> outcome (ctl St4 (ctl St5 Ret)) :=
  fun '(v_count, v_counter, v_integer, v_value) =>
    if ((v_counter <? 19) && (v_count <? maxd)) then (
        let '(t1, v_integer) := iter_next v_integer in
        match t1 with Some v_c => (
            t2 <- u8_sub b v_c 48 ;;
            let v_digit := t2 in
            t3 <- u64_mul b v_value 10 ;;
            let v_value := t3 in
            t4 <- u64_add b v_value (as_u64 v_digit) ;;
            let v_value := t4 in
            t5 <- usize_add b v_counter 1 ;;
            let v_counter := t5 in
            t6 <- usize_add b v_count 1 ;;
            let v_count := t6 in
            Ok (Next (v_count, v_counter, v_integer, v_value))
        ) | None => (
            Ok (Return (Break (v_count, v_counter, v_integer, res, v_value)))
        ) end
    ) else (
        Ok (Break (v_count, v_counter, v_integer, v_value))
    ).

(** `add_temporary!(@end ..)` *)
Definition rs_flush_end (v_counter : Z) (v_result : vec) (v_value : Z) : outcome vec :=
  if (negb (v_counter =? 0)) then (
      t8 <- int_pow_fast_path c T b v_counter true ;;
      let v_small_power := t8 in
      t9 <- rs_small_mul c b v_result v_small_power ;;
      v_result <- unwrap t9 ;;
      t10 <- rs_small_add c b v_result v_value ;;
      v_result <- unwrap t10 ;;
      Ok v_result
  ) else (
      Ok v_result
  ).

(** `round_up_nonzero!` *)
Definition rs_round_up {R : Type} (l : list Z) (v_count : Z) (v_result : vec)
    : outcome ((Z * vec) + ctl R Ret) :=
  rs_for (St := (Z * vec)) l (fun '(v_count, v_result) v_digit =>
        if (negb (v_digit =? 48)) then (
            t11 <- rs_small_mul c b v_result 10 ;;
            v_result <- unwrap t11 ;;
            t12 <- rs_small_add c b v_result 1 ;;
            v_result <- unwrap t12 ;;
            t13 <- usize_add b v_count 1 ;;
            let v_count := t13 in
            Ok (Return (Return (v_result, v_count)))
        ) else (
            Ok (Next (v_count, v_result))
        ))
      (v_count, v_result).

(** what follows the inner loop in one iteration of the outer `loop`; [fin] = the scans after
    `add_temporary!(@end ..)` when `count == max_digits` *)
Definition post (fin : Z -> list Z -> vec -> outcome (ctl St5 Ret)) (v_result : vec)
    (t7 : St4 + ctl St5 Ret) : outcome (ctl St5 Ret) :=
  match t7 with
  | inr r => Ok r
  | inl (v_count, v_counter, v_integer, v_value) =>
      if (v_count =? maxd) then (
          v_result <- rs_flush_end v_counter v_result v_value ;;
          fin v_count v_integer v_result
      ) else (
          t19 <- rs_small_mul c b v_result 10000000000000000000 ;;
          v_result <- unwrap t19 ;;
          t20 <- rs_small_add c b v_result v_value ;;
          v_result <- unwrap t20 ;;
          let v_counter := 0 in
          let v_value := 0 in
          Ok (Next (v_count, v_counter, v_integer, v_result, v_value))
      )
  end.

Definition outer_body (fin : Z -> list Z -> vec -> outcome (ctl St5 Ret)) : St5 -> outcome (ctl St5 Ret) :=
  fun '(v_count, v_counter, v_integer, v_result, v_value) =>
    t7 <- rs_loop (S (length v_integer)) (inner_body v_result) (v_count, v_counter, v_integer, v_value) ;;
    post fin v_result t7.

Definition fin_int (fr : list Z) (v_count : Z) (v_integer : list Z) (v_result : vec) : outcome (ctl St5 Ret) :=
  t14 <- rs_round_up v_integer v_count v_result ;;
  match t14 with
  | inr r => Ok r
  | inl (v_count, v_result) =>
      t18 <- rs_round_up fr v_count v_result ;;
      match t18 with
      | inr r => Ok r
      | inl (v_count, v_result) => Ok (Return (v_result, v_count))
      end
  end.

Definition fin_frac (v_count : Z) (v_fraction : list Z) (v_result : vec) : outcome (ctl St5 Ret) :=
  t41 <- rs_round_up v_fraction v_count v_result ;;
  match t41 with
  | inr r => Ok r
  | inl (v_count, v_result) => Ok (Return (v_result, v_count))
  end.

(** the `for &c in &mut fraction` that skips the leading zeros *)
Definition rs_skip (v_fraction : list Z) (v_count v_counter v_value : Z) :=
  rs_for_iter (St := (Z * Z * Z)) (R := Empty_set) v_fraction (fun '(v_count, v_counter, v_value) v_c =>
        if (negb (v_c =? 48)) then (
            t22 <- u8_sub b v_c 48 ;;
            let v_digit := t22 in
            t23 <- u64_mul b v_value 10 ;;
            let v_value := t23 in
            t24 <- u64_add b v_value (as_u64 v_digit) ;;
            let v_value := t24 in
            t25 <- usize_add b v_counter 1 ;;
            let v_counter := t25 in
            t26 <- usize_add b v_count 1 ;;
            let v_count := t26 in
            Ok (Break (v_count, v_counter, v_value))
        ) else (
            Ok (Next (v_count, v_counter, v_value))
        ))
      (v_count, v_counter, v_value).

Lemma rs_parse_mantissa_unfold i fr :
  rs_parse_mantissa c T L b i fr maxd =
  (t21 <- rs_loop (S (S (length i))) (outer_body (fin_int fr)) (0, 0, i, vnew L, 0) ;;
   match t21 with
   | inr r => Ok r
   | inl (v_count, v_counter, v_integer, v_result, v_value) =>
      '(v_count, v_counter, v_fraction, v_value) <- (if (v_count =? 0) then (
          t27 <- rs_skip fr v_count v_counter v_value ;;
          let '((v_count, v_counter, v_value), v_fraction) := no_return t27 in
          Ok (v_count, v_counter, v_fraction, v_value)
      ) else (
          Ok (v_count, v_counter, fr, v_value)
      )) ;;
      t44 <- rs_loop (S (S (length v_fraction))) (outer_body fin_frac) (v_count, v_counter, v_fraction, v_result, v_value) ;;
      match t44 with
      | inr r => Ok r
      | inl (v_count, v_counter, v_fraction, v_result, v_value) =>
          v_result <- rs_flush_end v_counter v_result v_value ;;
          Ok (v_result, v_count)
      end
   end).
Proof. reflexivity. Qed.

(** ** the model side, with the same factorisation *)
Definition cond (s : pm_state) : bool := (pm_counter s <? 19) && (pm_count s <? maxd).

Fixpoint pm_gen (finm : list Z -> pm_state -> outcome Ret) (l : list Z) (s : pm_state)
    : outcome (pm_state + Ret) :=
  h <- pm_settle c maxd s ;;
  match h with
  | PmDiverge => Panic PkFuel
  | PmFinish s1 =>
      s2 <- pm_flush_end c T b s1 ;;
      r <- finm l s2 ;;
      Ok (inr r)
  | PmRead s1 =>
      match l with
      | [] => Ok (inl s1)
      | ch :: r => s2 <- pm_add_digit b ch s1 ;; pm_gen finm r s2
      end
  end.

Definition finm_int (fr l : list Z) (s2 : pm_state) : outcome Ret :=
  '(s3, hit) <- pm_round_up c l s2 ;;
  if hit then Ok (pm_result s3, pm_count s3)
  else
    '(s4, _) <- pm_round_up c fr s3 ;;
    Ok (pm_result s4, pm_count s4).

Definition finm_frac (l : list Z) (s2 : pm_state) : outcome Ret :=
  '(s3, _) <- pm_round_up c l s2 ;;
  Ok (pm_result s3, pm_count s3).

Lemma pm_int_gen fr : forall l s, pm_int c T b maxd l fr s = pm_gen (finm_int fr) l s.
Proof.
  induction l as [|ch r IH]; intros s; cbn [pm_int pm_gen].
  - apply bind_ext2; [reflexivity|]. intros [s1|s1|]; try reflexivity.
    apply bind_ext2; [reflexivity|]. intros s2. unfold finm_int. rewrite bind_assoc.
    apply bind_ext2; [reflexivity|]. intros [s3 [|]]; [reflexivity|]. rewrite bind_assoc.
    apply bind_ext2; [reflexivity|]. intros [s4 h]. reflexivity.
  - apply bind_ext2; [reflexivity|]. intros [s1|s1|]; try reflexivity.
    + apply bind_ext2; [reflexivity|]. intros s2. apply IH.
    + apply bind_ext2; [reflexivity|]. intros s2. unfold finm_int. rewrite bind_assoc.
      apply bind_ext2; [reflexivity|]. intros [s3 [|]]; [reflexivity|]. rewrite bind_assoc.
      apply bind_ext2; [reflexivity|]. intros [s4 h]. reflexivity.
Qed.

Lemma pm_frac_gen : forall l s,
  pm_frac c T b maxd l s =
  (r <- pm_gen finm_frac l s ;;
   match r with
   | inr res => Ok res
   | inl s1 => s2 <- pm_flush_end c T b s1 ;; Ok (pm_result s2, pm_count s2)
   end).
Proof.
  induction l as [|ch r IH]; intros s; cbn [pm_frac pm_gen]; rewrite bind_assoc;
    (apply bind_ext2; [reflexivity|]); intros [s1|s1|]; try reflexivity.
  - rewrite bind_assoc. apply bind_ext2; [reflexivity|]. intros s2. unfold finm_frac.
    rewrite !bind_assoc. apply bind_ext2; [reflexivity|]. intros [s3 h]. reflexivity.
  - rewrite bind_assoc. apply bind_ext2; [reflexivity|]. intros s2. apply IH.
  - rewrite bind_assoc. apply bind_ext2; [reflexivity|]. intros s2. unfold finm_frac.
    rewrite !bind_assoc. apply bind_ext2; [reflexivity|]. intros [s3 h]. reflexivity.
Qed.

(** ** ranges *)
Lemma u64_ok_B64 x : u64_ok x <-> 0 <= x < B64.
Proof. unfold u64_ok. rewrite B64_2_64. reflexivity. Qed.

Lemma u8_sub_range ch d : u8_sub b ch 48 = Ok d -> u64_ok d.
Proof.
  intros H. apply uop_range in H; [|lia]. unfold u64_ok.
  assert (2 ^ 8 < 2 ^ 64) by reflexivity. lia.
Qed.

Lemma uop64_range r a : uop b 64 r = Ok a -> u64_ok a.
Proof. apply uop_range. lia. Qed.

Lemma u64_10 : u64_ok 10. Proof. split; [lia|reflexivity]. Qed.
Lemma u64_1 : u64_ok 1. Proof. split; [lia|reflexivity]. Qed.
Lemma u64_0 : u64_ok 0. Proof. split; [lia|reflexivity]. Qed.
Lemma u64_max_native : u64_ok pm_max_native. Proof. split; [unfold pm_max_native; lia|reflexivity]. Qed.

(** the table entries are u64 values (by their Rust type `[u64; N]`) *)
Hypothesis HT : compact c = false -> limbs_ok (SMALL_INT_POW10 T).

Lemma int_pow10_u64 k sp : int_pow_fast_path c T b k true = Ok sp -> u64_ok sp.
Proof.
  unfold int_pow_fast_path. destruct (compact c).
  - apply uop_range. lia.
  - specialize (HT eq_refl). unfold index_unchecked. destruct (_ && _) eqn:E; [|discriminate].
    intros [= <-]. apply (limbs_ok_u64 _ _ HT). apply nth_In. lia.
Qed.

(** ** `mul_small(power).unwrap(); add_small(value).unwrap()` *)
Lemma small_add_facts v y v' : limbs_ok (vl v) -> u64_ok y -> small_add c v y = Some v' ->
  limbs_ok (vl v') /\ zlen (vl v') <= zlen (vl v) + 1.
Proof.
  intros Hl Hy E. apply small_add_spec in E; [|exact Hl|apply u64_ok_B64; exact Hy].
  destruct E as [_ [O [Len _]]]. split; [exact O|].
  destruct (_ <=? _) in Len; lia.
Qed.

Lemma pm_mul_add_facts r p v r' : limbs_ok (vl r) -> u64_ok p -> u64_ok v ->
  pm_mul_add c r p v = Ok r' -> limbs_ok (vl r') /\ zlen (vl r') <= zlen (vl r) + 2.
Proof.
  intros Hl Hp Hv. unfold pm_mul_add.
  destruct (small_mul c r p) as [r1|] eqn:E1; cbn [unwrap bind]; [|discriminate].
  destruct (small_mul_facts c r p r1 Hl Hp E1) as [O1 L1].
  destruct (small_add c r1 v) as [r2|] eqn:E2; cbn [unwrap]; [|discriminate].
  destruct (small_add_facts r1 v r2 O1 Hv E2) as [O2 L2].
  intros [= <-]. split; [exact O2|lia].
Qed.

Lemma rs_mul_add_k {A} r p v (k : vec -> outcome A) :
  limbs_ok (vl r) -> u64_ok p -> zlen (vl r) + 1 < 2 ^ 64 ->
  (t9 <- rs_small_mul c b r p ;; r1 <- unwrap t9 ;;
   t10 <- rs_small_add c b r1 v ;; r2 <- unwrap t10 ;; k r2)
  = (r' <- pm_mul_add c r p v ;; k r').
Proof.
  intros Hl Hp Hn. unfold pm_mul_add. rewrite rs_small_mul_eq by assumption. cbn [bind].
  destruct (small_mul c r p) as [r1|] eqn:E1; cbn [unwrap bind]; [|reflexivity].
  destruct (small_mul_facts c r p r1 Hl Hp E1) as [O1 L1].
  rewrite rs_small_add_eq by lia. cbn [bind].
  destruct (small_add c r1 v) as [r2|]; reflexivity.
Qed.

(** ** the loop invariant.  [N] bounds the number of digits that can still be counted
    ([k] of them in the other iterator) *)
Variable N : Z.
Hypothesis HN : N + 1 < 2 ^ 64.

Definition pinv (k : Z) (l : list Z) (s : pm_state) : Prop :=
  limbs_ok (vl (pm_result s)) /\
  zlen (vl (pm_result s)) + pm_counter s <= pm_count s /\
  0 <= pm_counter s /\
  pm_count s <= maxd /\
  pm_count s + zlen l + k <= N /\
  (u64_ok (pm_value s) /\ 0 <= k).

Lemma cond_count s : cond s = true -> pm_count s < maxd.
Proof. unfold cond. lia. Qed.

Lemma pinv_shorter k ch r s : pinv k (ch :: r) s -> pinv k r s.
Proof.
  unfold pinv. rewrite zlen_cons. intros (H1 & H2 & H3 & H4 & H5 & H6 & Hk).
  repeat split; try assumption; try lia; apply H6.
Qed.

(** `add_digit!` keeps the invariant (the source increments the two counters with checked `usize`
    additions and casts the digit: see [inner_read_cons], [rs_skip_eq]) *)
Lemma pinv_add_digit k ch r s s2 :
  pinv k (ch :: r) s -> pm_count s < maxd -> pm_add_digit b ch s = Ok s2 ->
  pinv k r s2 /\ pm_result s2 = pm_result s.
Proof.
  intros (H1 & H2 & H3 & H4 & H5 & H6 & Hk) Hc E. rewrite zlen_cons in H5.
  unfold pm_add_digit in E.
  destruct (u8_sub b ch 48) as [d| |]; cbn [bind] in E; try discriminate.
  destruct (u64_mul b (pm_value s) 10) as [t3| |]; cbn [bind] in E; try discriminate.
  destruct (u64_add b t3 d) as [t4| |] eqn:E4; cbn [bind] in E; try discriminate.
  injection E as <-. split; [|reflexivity]. unfold pinv. cbn [pm_result pm_counter pm_count pm_value].
  repeat split; try assumption; try lia; apply (uop64_range _ _ E4).
Qed.

(** `add_temporary!(@max ..)` *)
Lemma pinv_flush_max k l s s' :
  pinv k l s -> cond s = false -> pm_count s <> maxd -> pm_flush_max c s = Ok s' ->
  pinv k l s' /\ cond s' = true /\ pm_count s' = pm_count s.
Proof.
  intros (H1 & H2 & H3 & H4 & H5 & H6 & Hk) Hc Hne E. unfold cond in Hc.
  unfold pm_flush_max in E.
  destruct (pm_mul_add c (pm_result s) pm_max_native (pm_value s)) as [r'| |] eqn:E1;
    cbn [bind] in E; try discriminate.
  injection E as <-.
  destruct (pm_mul_add_facts _ _ _ _ H1 u64_max_native H6 E1) as [O L'].
  unfold pinv, cond. cbn [pm_result pm_counter pm_count pm_value].
  split; [|split; [lia|reflexivity]].
  repeat split; try assumption; try lia.
Qed.

(** `add_temporary!(@end ..)` *)
Lemma rs_flush_end_eq k l s :
  pinv k l s ->
  rs_flush_end (pm_counter s) (pm_result s) (pm_value s)
  = (s2 <- pm_flush_end c T b s ;; Ok (pm_result s2)).
Proof.
  intros (H1 & H2 & H3 & H4 & H5 & H6 & Hk). pose proof (zlen_nonneg l).
  unfold rs_flush_end, pm_flush_end. destruct (negb (pm_counter s =? 0)) eqn:E0; [|reflexivity].
  rewrite bind_assoc.
  destruct (int_pow_fast_path c T b (pm_counter s) true) as [sp| |] eqn:Ep; cbn [bind]; try reflexivity.
  rewrite rs_mul_add_k by (try assumption; try (exact (int_pow10_u64 _ _ Ep)); lia).
  rewrite bind_assoc. reflexivity.
Qed.

(** what the scans after `add_temporary!(@end ..)` rely on *)
Definition finv (k : Z) (l : list Z) (s : pm_state) : Prop :=
  limbs_ok (vl (pm_result s)) /\
  zlen (vl (pm_result s)) <= pm_count s + 1 /\
  0 <= pm_count s /\
  (pm_count s + zlen l + k <= N /\ 0 <= k).

Lemma pm_flush_end_facts k l s s2 :
  pinv k l s -> pm_flush_end c T b s = Ok s2 ->
  finv k l s2 /\ pm_count s2 = pm_count s /\ pm_counter s2 = pm_counter s /\ pm_value s2 = pm_value s.
Proof.
  intros (H1 & H2 & H3 & H4 & H5 & H6 & Hk) E. pose proof (zlen_nonneg (vl (pm_result s))).
  unfold pm_flush_end in E. destruct (negb (pm_counter s =? 0)) eqn:E0.
  - destruct (int_pow_fast_path c T b (pm_counter s) true) as [sp| |] eqn:Ep; cbn [bind] in E; try discriminate.
    destruct (pm_mul_add c (pm_result s) sp (pm_value s)) as [r'| |] eqn:E1; cbn [bind] in E; try discriminate.
    injection E as <-.
    destruct (pm_mul_add_facts _ _ _ _ H1 (int_pow10_u64 _ _ Ep) H6 E1) as [O L'].
    unfold finv. cbn [pm_result pm_counter pm_count pm_value].
    repeat split; try assumption; lia.
  - injection E as <-. unfold finv. repeat split; try assumption; lia.
Qed.

(** ** `round_up_nonzero!` *)
Lemma rs_for_cons {A St R} (x : A) l (body : St -> A -> outcome (ctl St R)) s :
  rs_for (x :: l) body s =
  (r <- body s x ;;
   match r with
   | Next s' => rs_for l body s'
   | Break s' => Ok (inl s')
   | Return v => Ok (inr v)
   end).
Proof.
  unfold rs_for. cbn [rs_for_iter]. rewrite bind_assoc.
  apply bind_ext2; [reflexivity|]. intros [s'|s'|v]; reflexivity.
Qed.

Lemma rs_round_up_eq {R} k : forall l s,
  finv k l s ->
  rs_round_up (R := R) l (pm_count s) (pm_result s)
  = ('(s3, hit) <- pm_round_up c l s ;;
     if hit then Ok (inr (Return (pm_result s3, pm_count s3)))
     else Ok (inl (pm_count s3, pm_result s3))).
Proof.
  unfold rs_round_up.
  induction l as [|d r IH]; intros s (H1 & H2 & H3 & H4 & Hk); [reflexivity|].
  rewrite zlen_cons in H4. pose proof (zlen_nonneg r).
  rewrite rs_for_cons. cbn [pm_round_up]. destruct (negb (d =? 48)).
  - rewrite rs_mul_add_k by (try assumption; try apply u64_10; lia).
    rewrite !bind_assoc. destruct (pm_mul_add c (pm_result s) 10 1) as [r1| |]; cbn [bind]; try reflexivity.
    rewrite usize_add_ok by (unfold u64_ok; lia). reflexivity.
  - cbn [bind]. apply IH. unfold finv. repeat split; try assumption; lia.
Qed.

(** the scan leaves the state unchanged when it finds nothing *)
Lemma pm_round_up_miss : forall l s s3, pm_round_up c l s = Ok (s3, false) -> s3 = s.
Proof.
  induction l as [|d r IH]; intros s s3; cbn [pm_round_up].
  - intros [= <-]. reflexivity.
  - destruct (negb (d =? 48)); [|apply IH].
    destruct (pm_mul_add c (pm_result s) 10 1); cbn [bind]; discriminate.
Qed.

Lemma fin_int_eq fr l counter count value res :
  finv (zlen fr) l (mkPm counter count value res) ->
  fin_int fr count l res = (r <- finm_int fr l (mkPm counter count value res) ;; Ok (Return r)).
Proof.
  intros F. pose proof F as (H1 & H2 & H3 & H4 & Hk). cbn [pm_result pm_count] in *.
  unfold fin_int, finm_int.
  rewrite (rs_round_up_eq (zlen fr) l (mkPm counter count value res) F). rewrite !bind_assoc.
  destruct (pm_round_up c l (mkPm counter count value res)) as [[s3 [|]]| |] eqn:E; cbn [bind];
    try reflexivity.
  apply pm_round_up_miss in E. subst s3. cbn [pm_result pm_count].
  pose proof (zlen_nonneg l).
  rewrite (rs_round_up_eq 0 fr (mkPm counter count value res))
    by (unfold finv; cbn [pm_result pm_count]; repeat split; try assumption; lia).
  rewrite !bind_assoc.
  destruct (pm_round_up c fr (mkPm counter count value res)) as [[s4 [|]]| |]; reflexivity.
Qed.

Lemma fin_frac_eq l counter count value res :
  finv 0 l (mkPm counter count value res) ->
  fin_frac count l res = (r <- finm_frac l (mkPm counter count value res) ;; Ok (Return r)).
Proof.
  intros F. unfold fin_frac, finm_frac.
  rewrite (rs_round_up_eq 0 l (mkPm counter count value res) F). rewrite !bind_assoc.
  destruct (pm_round_up c l (mkPm counter count value res)) as [[s3 [|]]| |]; reflexivity.
Qed.

(** ** one outer `loop` (integer or fraction) against [pm_gen] *)
Definition st_of (s : pm_state) (l : list Z) : St5 :=
  (pm_count s, pm_counter s, l, pm_result s, pm_value s).

Definition lift (o : outcome (pm_state + Ret)) : outcome (St5 + Ret) :=
  r <- o ;;
  Ok (match r with
      | inl s => inl (st_of s [])
      | inr x => inr x
      end).

Definition outer_k (fin : Z -> list Z -> vec -> outcome (ctl St5 Ret)) (ofuel : nat) (r : ctl St5 Ret)
    : outcome (St5 + Ret) :=
  match r with
  | Next s' => rs_loop ofuel (outer_body fin) s'
  | Break s' => Ok (inl s')
  | Return v => Ok (inr v)
  end.

(** control inside the inner loop (fuel [ifuel]) of an outer iteration after which the outer
    loop has fuel [ofuel] *)
Definition inner_then fin (l : list Z) (ifuel ofuel : nat) (s : pm_state) : outcome (St5 + Ret) :=
  r <- (t7 <- rs_loop ifuel (inner_body (pm_result s)) (pm_count s, pm_counter s, l, pm_value s) ;;
        post fin (pm_result s) t7) ;;
  outer_k fin ofuel r.

Lemma outer_unfold fin ofuel s l :
  rs_loop (S ofuel) (outer_body fin) (st_of s l) = inner_then fin l (S (length l)) ofuel s.
Proof. reflexivity. Qed.

(** the model side alone *)
Lemma pm_gen_unfold finm l s :
  pm_gen finm l s =
  (h <- pm_settle c maxd s ;;
   match h with
   | PmDiverge => Panic PkFuel
   | PmFinish s1 => s2 <- pm_flush_end c T b s1 ;; r <- finm l s2 ;; Ok (inr r)
   | PmRead s1 =>
       match l with
       | [] => Ok (inl s1)
       | ch :: r => s2 <- pm_add_digit b ch s1 ;; pm_gen finm r s2
       end
   end).
Proof. destruct l; reflexivity. Qed.

Lemma pm_settle_read s : cond s = true -> pm_settle c maxd s = Ok (PmRead s).
Proof. unfold cond, pm_settle, pm_step. intros ->. reflexivity. Qed.

Lemma pm_settle_finish s : cond s = false -> pm_count s = maxd -> pm_settle c maxd s = Ok (PmFinish s).
Proof.
  unfold cond, pm_settle, pm_step. intros -> E. replace (pm_count s =? maxd) with true by lia. reflexivity.
Qed.

Lemma pm_settle_flush k l s : cond s = false -> pm_count s <> maxd -> pinv k l s ->
  pm_settle c maxd s = (s' <- pm_flush_max c s ;; Ok (PmRead s')).
Proof.
  intros Hc Hm P. pose proof Hc as Hc'. unfold cond in Hc'. unfold pm_settle, pm_step. rewrite Hc'.
  replace (pm_count s =? maxd) with false by lia.
  destruct (pm_flush_max c s) as [s'| |] eqn:E; cbn [bind]; try reflexivity.
  destruct (pinv_flush_max k l s s' P Hc Hm E) as (_ & Hc2 & _). unfold cond in Hc2.
  replace (pm_count s' <? maxd) with true by lia. reflexivity.
Qed.

(** what is known when the loop is left by `break 'outer` *)
Lemma pm_gen_inl finm k : forall l s s',
  pinv k l s -> pm_gen finm l s = Ok (inl s') -> pinv k [] s' /\ cond s' = true.
Proof.
  induction l as [|ch r IH]; intros s s' P; rewrite pm_gen_unfold; destruct (cond s) eqn:Hc.
  - rewrite pm_settle_read by exact Hc. cbn [bind]. intros [= <-]. split; assumption.
  - destruct (Z.eq_dec (pm_count s) maxd) as [Hm|Hm].
    + rewrite pm_settle_finish by assumption. cbn [bind].
      destruct (pm_flush_end c T b s); cbn [bind]; try discriminate.
      destruct (finm [] _); cbn [bind]; discriminate.
    + rewrite (pm_settle_flush k [] s Hc Hm P). rewrite bind_assoc.
      destruct (pm_flush_max c s) as [s1| |] eqn:E; cbn [bind]; try discriminate.
      destruct (pinv_flush_max k [] s s1 P Hc Hm E) as (P' & Hc2 & _).
      intros [= <-]. split; assumption.
  - rewrite pm_settle_read by exact Hc. cbn [bind].
    destruct (pm_add_digit b ch s) as [s2| |] eqn:E; cbn [bind]; try discriminate.
    destruct (pinv_add_digit k ch r s s2 P (cond_count _ Hc) E) as [P2 _]. apply IH. exact P2.
  - destruct (Z.eq_dec (pm_count s) maxd) as [Hm|Hm].
    + rewrite pm_settle_finish by assumption. cbn [bind].
      destruct (pm_flush_end c T b s); cbn [bind]; try discriminate.
      destruct (finm _ _); cbn [bind]; discriminate.
    + rewrite (pm_settle_flush k (ch :: r) s Hc Hm P). rewrite bind_assoc.
      destruct (pm_flush_max c s) as [s1| |] eqn:E; cbn [bind]; try discriminate.
      destruct (pinv_flush_max k (ch :: r) s s1 P Hc Hm E) as (P' & Hc2 & _).
      destruct (pm_add_digit b ch s1) as [s2| |] eqn:E2; cbn [bind]; try discriminate.
      destruct (pinv_add_digit k ch r s1 s2 P' (cond_count _ Hc2) E2) as [P2 _]. apply IH. exact P2.
Qed.

Section Loop.
Variable fin : Z -> list Z -> vec -> outcome (ctl St5 Ret).
Variable finm : list Z -> pm_state -> outcome Ret.
Variable k : Z.
Hypothesis Hfin : forall l counter count value res,
  finv k l (mkPm counter count value res) ->
  fin count l res = (r <- finm l (mkPm counter count value res) ;; Ok (Return r)).

Lemma inner_read_nil ifuel ofuel s :
  cond s = true -> inner_then fin [] (S ifuel) ofuel s = Ok (inl (st_of s [])).
Proof.
  intros Hc. unfold cond in Hc. unfold inner_then. cbn [rs_loop inner_body]. rewrite Hc.
  reflexivity.
Qed.

Lemma inner_read_cons ch r ifuel ofuel s :
  cond s = true -> pinv k (ch :: r) s ->
  inner_then fin (ch :: r) (S ifuel) ofuel s
  = (s2 <- pm_add_digit b ch s ;; inner_then fin r ifuel ofuel s2).
Proof.
  intros Hc (H1 & H2 & H3 & H4 & H5 & H6 & Hk). unfold cond in Hc.
  rewrite zlen_cons in H5. pose proof (zlen_nonneg r). pose proof (zlen_nonneg (vl (pm_result s))).
  unfold inner_then at 1. cbn [rs_loop inner_body]. rewrite Hc. cbn [iter_next].
  unfold pm_add_digit. rewrite !bind_assoc.
  destruct (u8_sub b ch 48) as [d| |] eqn:E; cbn [bind]; try reflexivity.
  rewrite (as_u64_small d) by (exact (u8_sub_range _ _ E)). rewrite !bind_assoc.
  destruct (u64_mul b (pm_value s) 10) as [t3| |]; cbn [bind]; try reflexivity. rewrite !bind_assoc.
  destruct (u64_add b t3 d) as [t4| |]; cbn [bind]; try reflexivity.
  rewrite !usize_add_ok by (unfold u64_ok; lia). cbn [bind]. unfold inner_then.
  cbn [pm_result pm_count pm_counter pm_value]. rewrite !bind_assoc. reflexivity.
Qed.

Lemma inner_finish l ifuel ofuel s :
  cond s = false -> pm_count s = maxd -> pinv k l s ->
  inner_then fin l (S ifuel) ofuel s
  = lift (s2 <- pm_flush_end c T b s ;; r <- finm l s2 ;; Ok (inr r)).
Proof.
  intros Hc Hm P. unfold cond in Hc. unfold inner_then, lift. cbn [rs_loop inner_body]. rewrite Hc.
  cbn [bind post]. replace (pm_count s =? maxd) with true by lia.
  rewrite (rs_flush_end_eq k l s P). rewrite !bind_assoc.
  destruct (pm_flush_end c T b s) as [s2| |] eqn:E2; cbn [bind]; try reflexivity.
  destruct (pm_flush_end_facts k l s s2 P E2) as (F & F1 & F2 & F3).
  destruct s2 as [c2 n2 v2 r2]. cbn [pm_result pm_count pm_counter pm_value] in *. subst c2 n2 v2.
  rewrite (Hfin l (pm_counter s) (pm_count s) (pm_value s) r2 F). rewrite !bind_assoc.
  destruct (finm l _) as [res| |]; reflexivity.
Qed.

Lemma inner_flush l ifuel ofuel s :
  cond s = false -> pm_count s <> maxd -> pinv k l s ->
  inner_then fin l (S ifuel) (S ofuel) s
  = (s' <- pm_flush_max c s ;; inner_then fin l (S (length l)) ofuel s').
Proof.
  intros Hc Hm P. pose proof Hc as Hc'. unfold cond in Hc'.
  destruct P as (H1 & H2 & H3 & H4 & H5 & H6 & Hk). pose proof (zlen_nonneg l).
  unfold inner_then at 1.
  cbn [rs_loop inner_body]. rewrite Hc'.
  cbn [bind post]. replace (pm_count s =? maxd) with false by lia. rewrite !bind_assoc.
  change 10000000000000000000 with pm_max_native. unfold pm_flush_max, pm_mul_add.
  rewrite rs_small_mul_eq by (try assumption; apply u64_max_native). cbn [bind].
  destruct (small_mul c (pm_result s) pm_max_native) as [r1|] eqn:E1; cbn [unwrap bind]; [|reflexivity].
  destruct (small_mul_facts c _ _ r1 H1 u64_max_native E1) as [O1 L1].
  rewrite rs_small_add_eq by lia. cbn [bind].
  destruct (small_add c r1 (pm_value s)) as [r2|]; cbn [unwrap bind]; [|reflexivity].
  cbn [outer_k]. apply (outer_unfold fin ofuel (mkPm 0 (pm_count s) 0 r2) l).
Qed.

Theorem outer_gen : forall l ifuel ofuel s,
  (length l < ifuel)%nat -> (length l < ofuel)%nat -> pinv k l s ->
  inner_then fin l ifuel ofuel s = lift (pm_gen finm l s).
Proof.
  induction l as [|ch r IH]; intros ifuel ofuel s Hi Ho P;
    (destruct ifuel as [|ifuel]; [inversion Hi|]); rewrite pm_gen_unfold;
    destruct (cond s) eqn:Hc.
  - rewrite pm_settle_read by exact Hc. cbn [bind]. apply inner_read_nil. exact Hc.
  - destruct (Z.eq_dec (pm_count s) maxd) as [Hm|Hm].
    + rewrite pm_settle_finish by assumption. cbn [bind]. apply inner_finish; assumption.
    + destruct ofuel as [|ofuel]; [inversion Ho|].
      rewrite (pm_settle_flush k [] s Hc Hm P), inner_flush by assumption. rewrite bind_assoc.
      destruct (pm_flush_max c s) as [s'| |] eqn:E; cbn [bind]; try reflexivity.
      destruct (pinv_flush_max k [] s s' P Hc Hm E) as (P' & Hc2 & _).
      apply inner_read_nil. exact Hc2.
  - rewrite pm_settle_read by exact Hc. cbn [bind]. rewrite inner_read_cons by assumption.
    unfold lift. rewrite bind_assoc.
    destruct (pm_add_digit b ch s) as [s2| |] eqn:E; cbn [bind]; try reflexivity.
    destruct (pinv_add_digit k ch r s s2 P (cond_count _ Hc) E) as [P2 _].
    apply IH; cbn [length] in *; try lia; exact P2.
  - destruct (Z.eq_dec (pm_count s) maxd) as [Hm|Hm].
    + rewrite pm_settle_finish by assumption. cbn [bind]. apply inner_finish; assumption.
    + destruct ofuel as [|ofuel]; [inversion Ho|].
      rewrite (pm_settle_flush k (ch :: r) s Hc Hm P), inner_flush by assumption. rewrite bind_assoc.
      destruct (pm_flush_max c s) as [s'| |] eqn:E; cbn [bind]; try reflexivity.
      destruct (pinv_flush_max k (ch :: r) s s' P Hc Hm E) as (P' & Hc2 & _).
      rewrite inner_read_cons by assumption.
      unfold lift. rewrite bind_assoc.
      destruct (pm_add_digit b ch s') as [s2| |] eqn:E2; cbn [bind]; try reflexivity.
      destruct (pinv_add_digit k ch r s' s2 P' (cond_count _ Hc2) E2) as [P2 _].
      apply IH; cbn [length] in *; try lia; exact P2.
Qed.

(** the whole outer loop, with the fuel the translation gives it *)
Corollary outer_loop_eq l s fuel :
  (S (length l) < fuel)%nat -> pinv k l s ->
  rs_loop fuel (outer_body fin) (st_of s l) = lift (pm_gen finm l s).
Proof.
  intros Hf P. destruct fuel as [|ofuel]; [inversion Hf|].
  rewrite outer_unfold. apply outer_gen; try lia. exact P.
Qed.

End Loop.
(** ** skipping the leading zeros of the fraction *)
Lemma rs_skip_eq : forall l s,
  pinv 0 l s ->
  rs_skip l (pm_count s) (pm_counter s) (pm_value s)
  = ('(s1, l1) <- pm_skip b l s ;; Ok (inl ((pm_count s1, pm_counter s1, pm_value s1), l1))).
Proof.
  unfold rs_skip.
  induction l as [|ch r IH]; intros s P; [reflexivity|].
  cbn [rs_for_iter pm_skip]. destruct (negb (ch =? 48)).
  - destruct P as (H1 & H2 & H3 & H4 & H5 & H6 & Hk).
    rewrite zlen_cons in H5. pose proof (zlen_nonneg r). pose proof (zlen_nonneg (vl (pm_result s))).
    unfold pm_add_digit. rewrite !bind_assoc.
    destruct (u8_sub b ch 48) as [d| |] eqn:E; cbn [bind]; try reflexivity.
    rewrite (as_u64_small d) by (exact (u8_sub_range _ _ E)). rewrite !bind_assoc.
    destruct (u64_mul b (pm_value s) 10) as [t3| |]; cbn [bind]; try reflexivity. rewrite !bind_assoc.
    destruct (u64_add b t3 d) as [t4| |]; cbn [bind]; try reflexivity.
    rewrite !usize_add_ok by (unfold u64_ok; lia). reflexivity.
  - cbn [bind]. apply IH. exact (pinv_shorter 0 ch r s P).
Qed.

Lemma pm_skip_facts : forall l s s1 l1,
  pinv 0 l s -> pm_count s < maxd -> pm_skip b l s = Ok (s1, l1) ->
  pinv 0 l1 s1 /\ pm_result s1 = pm_result s.
Proof.
  induction l as [|ch r IH]; intros s s1 l1 P Hm; cbn [pm_skip].
  - intros [= <- <-]. split; [exact P|reflexivity].
  - destruct (negb (ch =? 48)).
    + destruct (pm_add_digit b ch s) as [s2| |] eqn:E; cbn [bind]; try discriminate.
      intros [= <- <-]. exact (pinv_add_digit 0 ch r s s2 P Hm E).
    + apply IH; [exact (pinv_shorter 0 ch r s P)|exact Hm].
Qed.

(** ** the fraction phase *)
Lemma frac_phase_eq l s :
  pinv 0 l s ->
  (t44 <- rs_loop (S (S (length l))) (outer_body fin_frac) (st_of s l) ;;
   match t44 with
   | inr r => Ok r
   | inl (v_count, v_counter, v_fraction, v_result, v_value) =>
       v_result <- rs_flush_end v_counter v_result v_value ;;
       Ok (v_result, v_count)
   end)
  = pm_frac c T b maxd l s.
Proof.
  intros P.
  rewrite (outer_loop_eq fin_frac finm_frac 0 fin_frac_eq l s) by (lia || exact P).
  rewrite pm_frac_gen. unfold lift. rewrite bind_assoc.
  destruct (pm_gen finm_frac l s) as [[s3|res]| |] eqn:E; cbn [bind]; try reflexivity.
  destruct (pm_gen_inl finm_frac 0 l s s3 P E) as [P3 _].
  unfold st_of. rewrite (rs_flush_end_eq 0 [] s3 P3). rewrite bind_assoc.
  destruct (pm_flush_end c T b s3) as [s4| |] eqn:E4; cbn [bind]; try reflexivity.
  destruct (pm_flush_end_facts 0 [] s3 s4 P3 E4) as (_ & -> & _). reflexivity.
Qed.

Lemma pinv_init (i fr : list Z) : 0 <= maxd -> zlen i + zlen fr <= N -> pinv (zlen fr) i (mkPm 0 0 0 (vnew L)).
Proof.
  intros Hm Hn. unfold pinv. cbn [pm_result pm_counter pm_count pm_value vnew vl].
  pose proof (zlen_nonneg fr). rewrite (@zlen_nil Z).
  repeat split; try lia; try apply limbs_ok_nil; try reflexivity.
Qed.

Theorem rs_parse_mantissa_eq_N (i fr : list Z) :
  0 <= maxd -> zlen i + zlen fr <= N ->
  rs_parse_mantissa c T L b i fr maxd = parse_mantissa c T L b i fr maxd.
Proof.
  intros Hm Hn. rewrite rs_parse_mantissa_unfold. unfold parse_mantissa. rewrite pm_int_gen.
  pose proof (pinv_init i fr Hm Hn) as P0.
  change (0, 0, i, vnew L, 0) with (st_of (mkPm 0 0 0 (vnew L)) i).
  rewrite (outer_loop_eq (fin_int fr) (finm_int fr) (zlen fr) (fin_int_eq fr) i _ (S (S (length i))) ltac:(lia) P0).
  unfold lift. rewrite bind_assoc.
  destruct (pm_gen (finm_int fr) i (mkPm 0 0 0 (vnew L))) as [[s1|res]| |] eqn:E; cbn [bind];
    try reflexivity.
  destruct (pm_gen_inl (finm_int fr) (zlen fr) i _ s1 P0 E) as [P1 Hc1].
  assert (P1' : pinv 0 fr s1).
  { destruct P1 as (H1 & H2 & H3 & H4 & H5 & H6 & Hk). rewrite zlen_nil in H5.
    pose proof (zlen_nonneg fr). unfold pinv. repeat split; try assumption; try lia; apply H6. }
  unfold st_of. destruct (pm_count s1 =? 0).
  - rewrite (rs_skip_eq fr s1 P1'). rewrite !bind_assoc.
    destruct (pm_skip b fr s1) as [[s2 fr1]| |] eqn:E2; cbn [bind no_return]; try reflexivity.
    destruct (pm_skip_facts fr s1 s2 fr1 P1' (cond_count _ Hc1) E2) as [P2 <-].
    apply (frac_phase_eq fr1 s2 P2).
  - cbn [bind]. apply (frac_phase_eq fr s1 P1').
Qed.
(** ** facts about the *result* of the model's [parse_mantissa] (for the callers of
    [rs_parse_mantissa_eq]): the limbs are u64 and the length is bounded by the number of bytes *)
Lemma pm_round_up_facts : forall l s s3 hit,
  limbs_ok (vl (pm_result s)) -> pm_round_up c l s = Ok (s3, hit) ->
  limbs_ok (vl (pm_result s3)) /\ zlen (vl (pm_result s3)) <= zlen (vl (pm_result s)) + 2.
Proof.
  induction l as [|d r IH]; intros s s3 hit Hl; cbn [pm_round_up].
  - intros [= <- <-]. split; [exact Hl|lia].
  - destruct (negb (d =? 48)); [|apply IH; exact Hl].
    destruct (pm_mul_add c (pm_result s) 10 1) as [r1| |] eqn:E; cbn [bind]; try discriminate.
    intros [= <- <-]. cbn [pm_result]. exact (pm_mul_add_facts _ _ _ _ Hl u64_10 u64_1 E).
Qed.

Definition finm_facts (finm : list Z -> pm_state -> outcome Ret) : Prop :=
  forall l s2 v cnt, limbs_ok (vl (pm_result s2)) -> finm l s2 = Ok (v, cnt) ->
  limbs_ok (vl v) /\ zlen (vl v) <= zlen (vl (pm_result s2)) + 2.

Lemma finm_int_facts fr : finm_facts (finm_int fr).
Proof.
  intros l s2 v cnt Hl. unfold finm_int.
  destruct (pm_round_up c l s2) as [[s3 hit]| |] eqn:E; cbn [bind]; try discriminate.
  destruct hit.
  - intros [= <- <-]. exact (pm_round_up_facts l s2 s3 true Hl E).
  - apply pm_round_up_miss in E. subst s3.
    destruct (pm_round_up c fr s2) as [[s4 h]| |] eqn:E2; cbn [bind]; try discriminate.
    intros [= <- <-]. exact (pm_round_up_facts fr s2 s4 h Hl E2).
Qed.

Lemma finm_frac_facts : finm_facts finm_frac.
Proof.
  intros l s2 v cnt Hl. unfold finm_frac.
  destruct (pm_round_up c l s2) as [[s3 hit]| |] eqn:E; cbn [bind]; try discriminate.
  intros [= <- <-]. exact (pm_round_up_facts l s2 s3 hit Hl E).
Qed.

Lemma pm_finish_facts finm k l s v cnt :
  finm_facts finm -> pinv k l s ->
  (s2 <- pm_flush_end c T b s ;; r <- finm l s2 ;; Ok (inr r)) = Ok (@inr pm_state Ret (v, cnt)) ->
  limbs_ok (vl v) /\ zlen (vl v) <= N + 3.
Proof.
  intros Hf P.
  destruct (pm_flush_end c T b s) as [s2| |] eqn:E2; cbn [bind]; try discriminate.
  destruct (pm_flush_end_facts k l s s2 P E2) as ((F1 & F2 & F3 & F4 & Fk) & _).
  destruct (finm l s2) as [[v' cnt']| |] eqn:E3; cbn [bind]; try discriminate.
  intros [= <- <-]. destruct (Hf l s2 v' cnt' F1 E3) as [O Len].
  pose proof (zlen_nonneg l). split; [exact O|lia].
Qed.

Lemma pm_gen_inr finm k : finm_facts finm -> forall l s v cnt,
  pinv k l s -> pm_gen finm l s = Ok (inr (v, cnt)) ->
  limbs_ok (vl v) /\ zlen (vl v) <= N + 3.
Proof.
  intros Hf.
  induction l as [|ch r IH]; intros s v cnt P; rewrite pm_gen_unfold; destruct (cond s) eqn:Hc.
  - rewrite pm_settle_read by exact Hc. cbn [bind]. discriminate.
  - destruct (Z.eq_dec (pm_count s) maxd) as [Hm|Hm].
    + rewrite pm_settle_finish by assumption. cbn [bind]. apply (pm_finish_facts finm k [] s v cnt Hf P).
    + rewrite (pm_settle_flush k [] s Hc Hm P). rewrite bind_assoc.
      destruct (pm_flush_max c s) as [s1| |] eqn:E; cbn [bind]; discriminate.
  - rewrite pm_settle_read by exact Hc. cbn [bind].
    destruct (pm_add_digit b ch s) as [s2| |] eqn:E; cbn [bind]; try discriminate.
    destruct (pinv_add_digit k ch r s s2 P (cond_count _ Hc) E) as [P2 _]. apply IH. exact P2.
  - destruct (Z.eq_dec (pm_count s) maxd) as [Hm|Hm].
    + rewrite pm_settle_finish by assumption. cbn [bind].
      apply (pm_finish_facts finm k (ch :: r) s v cnt Hf P).
    + rewrite (pm_settle_flush k (ch :: r) s Hc Hm P). rewrite bind_assoc.
      destruct (pm_flush_max c s) as [s1| |] eqn:E; cbn [bind]; try discriminate.
      destruct (pinv_flush_max k (ch :: r) s s1 P Hc Hm E) as (P' & Hc2 & _).
      destruct (pm_add_digit b ch s1) as [s2| |] eqn:E2; cbn [bind]; try discriminate.
      destruct (pinv_add_digit k ch r s1 s2 P' (cond_count _ Hc2) E2) as [P2 _]. apply IH. exact P2.
Qed.

Lemma pm_frac_facts l s v cnt :
  pinv 0 l s -> pm_frac c T b maxd l s = Ok (v, cnt) ->
  limbs_ok (vl v) /\ zlen (vl v) <= N + 3.
Proof.
  intros P. rewrite pm_frac_gen.
  destruct (pm_gen finm_frac l s) as [[s3|[v' cnt']]| |] eqn:E; cbn [bind]; try discriminate.
  - destruct (pm_gen_inl finm_frac 0 l s s3 P E) as [P3 _].
    destruct (pm_flush_end c T b s3) as [s4| |] eqn:E4; cbn [bind]; try discriminate.
    destruct (pm_flush_end_facts 0 [] s3 s4 P3 E4) as ((F1 & F2 & F3 & F4 & Fk) & _).
    intros [= <- <-]. rewrite (@zlen_nil Z) in F4. split; [exact F1|lia].
  - intros [= <- <-]. exact (pm_gen_inr finm_frac 0 finm_frac_facts l s v' cnt' P E).
Qed.

Lemma parse_mantissa_result_facts_N (i fr : list Z) v cnt :
  0 <= maxd -> zlen i + zlen fr <= N ->
  parse_mantissa c T L b i fr maxd = Ok (v, cnt) ->
  limbs_ok (vl v) /\ zlen (vl v) <= N + 3.
Proof.
  intros Hm Hn. unfold parse_mantissa. rewrite pm_int_gen.
  pose proof (pinv_init i fr Hm Hn) as P0.
  destruct (pm_gen (finm_int fr) i (mkPm 0 0 0 (vnew L))) as [[s1|[v' cnt']]| |] eqn:E; cbn [bind];
    try discriminate.
  - destruct (pm_gen_inl (finm_int fr) (zlen fr) i _ s1 P0 E) as [P1 Hc1].
    assert (P1' : pinv 0 fr s1).
    { destruct P1 as (H1 & H2 & H3 & H4 & H5 & H6 & Hk). rewrite (@zlen_nil Z) in H5.
      pose proof (zlen_nonneg fr). unfold pinv. repeat split; try assumption; try lia; apply H6. }
    destruct (pm_count s1 =? 0).
    + destruct (pm_skip b fr s1) as [[s2 fr1]| |] eqn:E2; cbn [bind]; try discriminate.
      destruct (pm_skip_facts fr s1 s2 fr1 P1' (cond_count _ Hc1) E2) as [P2 _].
      apply (pm_frac_facts fr1 s2 v cnt P2).
    + cbn [bind]. apply (pm_frac_facts fr s1 v cnt P1').
  - intros [= <- <-].
    exact (pm_gen_inr (finm_int fr) (zlen fr) (finm_int_facts fr) i _ v' cnt' P0 E).
Qed.

End PM.

(** ** a negative [maxd] (not a `usize`; for completeness): the source spins on
    `add_temporary!(@max ..)` of an empty big integer, the model reports the divergence, and both
    are [Panic PkFuel] *)
Lemma small_mul_empty c cap y : small_mul c (mkVec [] cap) y = Some (mkVec [] cap).
Proof. reflexivity. Qed.
Lemma small_add_empty_0 c cap : small_add c (mkVec [] cap) 0 = Some (mkVec [] cap).
Proof. reflexivity. Qed.

Lemma neg_spin c T b maxd fin l cap : maxd < 0 -> forall fuel,
  rs_loop fuel (outer_body c T b maxd fin) (0, 0, l, mkVec [] cap, 0) = Panic PkFuel.
Proof.
  intros Hm. induction fuel as [|fuel IH]; [reflexivity|].
  cbn [rs_loop outer_body length inner_body]. replace (0 <? maxd) with false by lia.
  rewrite andb_false_r. cbn [bind post]. replace (0 =? maxd) with false by lia.
  rewrite rs_small_mul_eq by (apply limbs_ok_nil || apply u64_max_native).
  cbn [bind]. rewrite small_mul_empty. cbn [unwrap bind].
  rewrite rs_small_add_eq by (cbn [vl]; rewrite (@zlen_nil Z); reflexivity).
  cbn [bind]. rewrite small_add_empty_0. cbn [unwrap bind]. exact IH.
Qed.

Lemma parse_mantissa_neg c T L b i fr maxd : maxd < 0 ->
  rs_parse_mantissa c T L b i fr maxd = Panic PkFuel /\
  parse_mantissa c T L b i fr maxd = Panic PkFuel.
Proof.
  intros Hm. split.
  - rewrite rs_parse_mantissa_unfold. unfold vnew. rewrite neg_spin by exact Hm. reflexivity.
  - unfold parse_mantissa.
    assert (E : pm_int c T b maxd i fr (mkPm 0 0 0 (vnew L)) = Panic PkFuel); [|rewrite E; reflexivity].
    assert (S : pm_settle c maxd (mkPm 0 0 0 (vnew L)) = Ok PmDiverge).
    { unfold pm_settle. cbn [pm_counter pm_count]. replace (0 <? maxd) with false by lia.
      rewrite andb_false_r. replace (0 =? maxd) with false by lia.
      unfold pm_flush_max, pm_mul_add, vnew. cbn [pm_result pm_value pm_count].
      rewrite small_mul_empty. cbn [unwrap bind]. rewrite small_add_empty_0. cbn [unwrap bind pm_count].
      replace (0 <? maxd) with false by lia. reflexivity. }
    destruct i; cbn [pm_int]; rewrite S; reflexivity.
Qed.

(** ** the main theorem *)
Theorem rs_parse_mantissa_eq : forall c T L b i fr maxd,
  (compact c = false -> limbs_ok (SMALL_INT_POW10 T)) ->
  zlen i + zlen fr + 1 < 2 ^ 64 ->
  rs_parse_mantissa c T L b i fr maxd = parse_mantissa c T L b i fr maxd.
Proof.
  intros c T L b i fr maxd HT HN.
  destruct (Z_lt_le_dec maxd 0) as [Hneg|Hpos].
  - destruct (parse_mantissa_neg c T L b i fr maxd Hneg) as [-> ->]. reflexivity.
  - apply (rs_parse_mantissa_eq_N c T L b maxd HT (zlen i + zlen fr) HN i fr Hpos). lia.
Qed.

(** the result of the model's [parse_mantissa] (hence, by [rs_parse_mantissa_eq], of the source's):
    u64 limbs, and at most [bytes + 3] of them *)
Lemma parse_mantissa_result_facts : forall c T L b i fr maxd v cnt,
  (compact c = false -> limbs_ok (SMALL_INT_POW10 T)) ->
  zlen i + zlen fr + 1 < 2 ^ 64 ->
  parse_mantissa c T L b i fr maxd = Ok (v, cnt) ->
  limbs_ok (vl v) /\ zlen (vl v) <= zlen i + zlen fr + 3.
Proof.
  intros c T L b i fr maxd v cnt HT HN E.
  destruct (Z_lt_le_dec maxd 0) as [Hneg|Hpos].
  - destruct (parse_mantissa_neg c T L b i fr maxd Hneg) as [_ E']. rewrite E' in E. discriminate.
  - apply (parse_mantissa_result_facts_N c T L b maxd HT (zlen i + zlen fr) i fr v cnt Hpos
             ltac:(lia) E).
Qed.

(** with the crate's tables; [2 ^ 63] is the bound that Rust slices satisfy *)
Lemma SMALL_INT_POW10_u64 : limbs_ok (SMALL_INT_POW10 TABLES).
Proof. apply limbs_ok_forallb. vm_compute. reflexivity. Qed.

Corollary rs_parse_mantissa_eq_TABLES : forall c L b i fr maxd,
  zlen i + zlen fr < 2 ^ 63 ->
  rs_parse_mantissa c TABLES L b i fr maxd = parse_mantissa c TABLES L b i fr maxd.
Proof.
  intros. apply rs_parse_mantissa_eq; [intros _; apply SMALL_INT_POW10_u64|].
  assert (2 ^ 63 + 1 < 2 ^ 64) by reflexivity. lia.
Qed.

(** the hypotheses are satisfiable, on instances that go through every part of the function:
    21 integer digits (one full chunk, `add_temporary!(@max ..)`), zeros skipped in the fraction,
    truncation at [maxd] with a non-zero rest; a garbage byte that panics / wraps *)
Example rs_parse_mantissa_example :
  (compact CFG_s = false -> limbs_ok (SMALL_INT_POW10 TABLES)) /\
  zlen (repeat 57 21%nat) + zlen [48; 49] + 1 < 2 ^ 64 /\
  rs_parse_mantissa CFG_s TABLES LIMITS checked_build (repeat 57 21%nat) [48; 49] 769
    = Ok (mkVec [200376420520689565; 5421] 62, 23) /\
  parse_mantissa CFG_s TABLES LIMITS checked_build (repeat 57 21%nat) [48; 49] 769
    = Ok (mkVec [200376420520689565; 5421] 62, 23) /\
  rs_parse_mantissa CFG_sca TABLES LIMITS release_build [] [48; 48; 49; 50; 48; 51] 2
    = Ok (mkVec [121] 62, 3) /\
  rs_parse_mantissa CFG_s TABLES LIMITS checked_build [49; 47] [] 769 = Panic PkOverflow /\
  parse_mantissa CFG_s TABLES LIMITS checked_build [49; 47] [] 769 = Panic PkOverflow /\
  rs_parse_mantissa CFG_s TABLES LIMITS release_build [49; 47] [] 769 = Ok (mkVec [265] 62, 2) /\
  parse_mantissa CFG_s TABLES LIMITS release_build [49; 47] [] 769 = Ok (mkVec [265] 62, 2) /\
  rs_parse_mantissa CFG_s TABLES LIMITS release_build [49] [50] (-1) = Panic PkFuel /\
  parse_mantissa CFG_s TABLES LIMITS release_build [49] [50] (-1) = Panic PkFuel.
Proof.
  split; [intros _; apply SMALL_INT_POW10_u64|]. split; [vm_compute; reflexivity|].
  vm_compute. repeat split.
Qed.

(** the table hypothesis is needed: with negative "u64" entries the translated `scalar_mul`
    wraps (or panics) where the model computes in Z *)
Definition TABLES_neg_pow10 : tables :=
  mkTables (SMALLEST_POWER_OF_FIVE TABLES) (LARGEST_POWER_OF_FIVE TABLES) (POWER_OF_FIVE_128 TABLES)
    (SMALL_INT_POW5 TABLES) (map Z.opp (SMALL_INT_POW10 TABLES)) (SMALL_F32_POW10 TABLES)
    (SMALL_F64_POW10 TABLES) (LARGE_POW5 TABLES) (LARGE_POW5_STEP TABLES).

Example table_not_u64_counterexample :
  rs_parse_mantissa CFG_s TABLES_neg_pow10 LIMITS release_build (repeat 49 20%nat) [] 769
    = Ok (mkVec [7335632962598440507; 18446744073709551615] 62, 20) /\
  parse_mantissa CFG_s TABLES_neg_pow10 LIMITS release_build (repeat 49 20%nat) [] 769
    = Ok (mkVec [7335632962598440507; -1] 62, 20) /\
  rs_parse_mantissa CFG_s TABLES_neg_pow10 LIMITS checked_build (repeat 49 20%nat) [] 769
    = Panic PkOverflow /\
  parse_mantissa CFG_s TABLES_neg_pow10 LIMITS checked_build (repeat 49 20%nat) [] 769
    = Ok (mkVec [7335632962598440507; -1] 62, 20).
Proof. vm_compute. repeat split. Qed.

Print Assumptions rs_parse_mantissa_eq.
Print Assumptions rs_parse_mantissa_eq_TABLES.
Print Assumptions parse_mantissa_result_facts.
