(** * gen/SrcHeapVec.v = the heap case of model/Vec.v.

    [gen/SrcHeapVec.v] is the translation (tools/rs2coq, rule 31) of the non-delegating functions of
    `impl HeapVec` in src/heapvec.rs, with the `std::vec::Vec` methods it calls given by
    model/SrcLibHeap.v.  The list-level vector model that the big-integer code (model/Bigint.v, and the
    generated gen/SrcBigint.v through model/SrcLib.v) uses for the heap back-end is the [heap = true]
    case of model/Vec.v.  The theorems below state that the two coincide, for every build mode: a
    heap `try_*` never fails, and its effect on contents and capacity is Vec.v's. *)
From Coq Require Import ZArith List Bool Lia.
From ML Require Import base.RustSem model.Fmt model.Vec model.SrcLib model.SrcLibHeap gen.SrcHeapVec.
Import ListNotations.
Open Scope Z_scope.
Open Scope rust_scope.

Theorem rs_hv_new_eq : forall L b, rs_hv_new L b = Ok (vnew L).
Proof. reflexivity. Qed.

Theorem rs_hv_len_eq : forall L b v, rs_hv_len L b v = Ok (vlen v).
Proof. reflexivity. Qed.

Theorem rs_hv_is_empty_eq : forall L b v, rs_hv_is_empty L b v = Ok (vlen v =? 0).
Proof. reflexivity. Qed.

Theorem rs_hv_capacity_eq : forall L b v, rs_hv_capacity L b v = Ok (vcap v).
Proof. reflexivity. Qed.

Theorem rs_hv_try_push_eq : forall L b v x,
  exists v', try_push true v x = Some v' /\ rs_hv_try_push L b v x = Ok (v', true).
Proof. intros. eexists. split; reflexivity. Qed.

Theorem rs_hv_pop_eq : forall L b v,
  rs_hv_pop L b v = Ok (snd (vpop v), fst (vpop v)).
Proof.
  intros. unfold rs_hv_pop, std_pop. destruct (vpop v) as [o v']. reflexivity.
Qed.

Theorem rs_hv_try_extend_eq : forall L b v s,
  exists v', try_extend true v s = Some v' /\ rs_hv_try_extend L b v s = Ok (v', true).
Proof. intros. eexists. split; reflexivity. Qed.

Theorem rs_hv_try_resize_eq : forall L b v n x,
  exists v', try_resize true v n x = Some v' /\ rs_hv_try_resize L b v n x = Ok (v', true).
Proof. intros. eexists. split; reflexivity. Qed.

Theorem rs_hv_try_from_eq : forall L b s, rs_hv_try_from L b s = Ok (try_from true L s).
Proof. reflexivity. Qed.

Theorem rs_hv_deref_eq : forall L b v, rs_hv_deref L b v = Ok (vl v).
Proof. reflexivity. Qed.

(** `set_len` (unsafe): within the initialised part it is SrcLib's [vec_set_len] (what
    `bigint::normalize` uses); the wrapper's `debug_assert!(len <= capacity)` cannot fire there when
    the length does not exceed the capacity *)
Theorem rs_hv_set_len_eq : forall L b v n,
  0 <= n <= vlen v -> vlen v <= vcap v ->
  rs_hv_set_len L b v n = vec_set_len v n.
Proof.
  intros L b v n Hn Hc. unfold rs_hv_set_len, rs_hv_capacity, std_set_len, vec_set_len, debug_assert.
  unfold vlen in *.
  assert (E1 : (n <=? vcap v) = true) by (apply Z.leb_le; lia).
  assert (E2 : ((0 <=? n) && (n <=? zlen (vl v))) = true)
    by (apply andb_true_iff; split; apply Z.leb_le; lia).
  destruct (dbg b); cbn [bind]; rewrite ?E1, ?E2; cbn [negb andb bind]; rewrite ?E2; reflexivity.
Qed.

(** the stack and the heap back-end start from the same vector and agree as long as the capacity is
    not exceeded: sanity example on concrete values *)
Example rs_hv_example :
  let L := mkLimits 4000 62 64 in
  rs_hv_try_from L release_build [1; 2; 3] = Ok (Some (mkVec [1; 2; 3] 62)) /\
  rs_hv_try_push L checked_build (mkVec [7; 8] 2) 9 = Ok (mkVec [7; 8; 9] 4, true) /\
  rs_hv_pop L release_build (mkVec [7; 8] 2) = Ok (mkVec [7] 2, Some 8) /\
  rs_hv_try_resize L release_build (mkVec [7; 8] 2) 4 5 = Ok (mkVec [7; 8; 5; 5] 4, true).
Proof. vm_compute. repeat split. Qed.

Print Assumptions rs_hv_new_eq.
Print Assumptions rs_hv_try_push_eq.
Print Assumptions rs_hv_pop_eq.
Print Assumptions rs_hv_try_extend_eq.
Print Assumptions rs_hv_try_resize_eq.
Print Assumptions rs_hv_try_from_eq.
Print Assumptions rs_hv_deref_eq.
Print Assumptions rs_hv_set_len_eq.
