(** * BellFacts4: the forward error analysis of the two multiplications (Stages C and E).

    With [x] the real value of the input ([w * 10^q], or anything in [[w, w+1) * 10^q] when digits
    were dropped), and [(x3, e3) = stage2 q w] the un-normalised product, measured in units of
    the last place of [x3]:   x3 - 1 <= x / 2^e3 <= x3 + errs - 2.
    The code counts eighths of a unit but compares the count with whole units, which leaves
    the margin the statement uses (actual error below 3 units against a count of 4 or 9;
    truncation below [2^(lz+1) + 1] units against a count of [8 * 2^(lz+1)]). *)
From Coq Require Import ZArith QArith Qreals Reals List Bool Lia Lra.
From Flocq Require Import Core.Core.
From ML Require Import base.RustSem model.Fmt model.Num model.Number model.Rounding
  model.Bellerophon gen.Consts gen.BTables proofs.RoundingFactsZ proofs.TableFacts
  proofs.BellFacts0 proofs.BellFacts1 proofs.BellFacts2 proofs.BellFacts3.
Open Scope Z_scope.
Local Arguments Z.pow : simpl never.

Notation c64 := (bpow radix2 64).

Lemma c64_IZR : IZR (2 ^ 64) = c64.
Proof. apply IZR_pow2. lia. Qed.
Lemma c63_IZR : IZR (2 ^ 63) = (c64 / 2)%R.
Proof.
  rewrite <- c64_IZR. change (2 ^ 64) with (2 * 2 ^ 63). rewrite mult_IZR. simpl (IZR 2). lra.
Qed.
Lemma c64_pos : (0 < c64)%R.
Proof. apply bpow_gt_0. Qed.
Lemma c64_inv : (/ c64 = bpow radix2 (- 64))%R.
Proof. symmetry. exact (bpow_opp radix2 64). Qed.

(** the bracket of [mul] as real numbers *)
Lemma bmul_bracket_R X Y :
  let m := (X * Y + 2 ^ 63) / 2 ^ 64 in
  (c64 * IZR m - c64 / 2 <= IZR X * IZR Y <= c64 * IZR m + c64 / 2)%R.
Proof.
  cbv zeta. pose proof (bmul_bracket X Y) as [H1 H2]. cbv zeta in H1, H2.
  apply IZR_le in H1. apply IZR_lt in H2.
  rewrite minus_IZR, mult_IZR, c64_IZR, c63_IZR, mult_IZR in H1.
  rewrite plus_IZR, !mult_IZR, c64_IZR, c63_IZR in H2. lra.
Qed.

Lemma IZR_range64 X : 0 <= X < 2 ^ 64 -> (0 <= IZR X <= c64)%R /\ (IZR X + 1 <= c64)%R.
Proof.
  intros H. rewrite <- c64_IZR. split; [split|].
  - apply IZR_le. lia.
  - apply IZR_le. lia.
  - rewrite <- plus_IZR. apply IZR_le. lia.
Qed.

(** ** the exact input: true value in units of the product's last place *)
Lemma stage2_V q w :
  0 < w < 2 ^ 64 -> 0 <= q + BIAS -> lidx q < NLARGE ->
  let x3 := fst (stage2 q w) in let e3 := snd (stage2 q w) in
  let V := (IZR w * bpow r10 q * bpow radix2 (- e3))%R in
  (IZR x3 - 1 <= V <= IZR x3 + 3)%R /\
  (2 ^ 64 <=? w * 10 ^ sidx q = false -> V <= IZR x3 + 3 / 2)%R.
Proof.
  intros Hw H0 H1. cbv zeta.
  destruct (index_facts q H0 H1) as (Hsi & Hli & Hq).
  pose proof (stage1_range q w Hw Hsi) as [R1m _].
  unfold stage2. cbn [fst snd].
  pose proof (large_entry_ok (lidx q) Hli) as HL.
  pose proof (bell_entry_range _ _ _ HL) as Hpl. apply entry_R in HL.
  set (lk := large_k (lidx q)) in *. set (el := lexp lk) in *. set (Pl := large_m (lidx q)) in *.
  set (L := tv lk el) in *.
  pose proof c64_pos as Hc.
  destruct (IZR_range64 Pl ltac:(lia)) as [BPl BPl1].
  assert (Hq10 : bpow r10 q = (bpow r10 (sidx q) * bpow r10 lk)%R).
  { rewrite <- bpow_plus. f_equal. exact Hq. }
  pose proof (bmul_bracket_R (fst (stage1 q w)) Pl) as Hb3. cbv zeta in Hb3.
  set (x3 := (fst (stage1 q w) * Pl + 2 ^ 63) / 2 ^ 64) in *.
  unfold stage1 in *. cbv zeta in *.
  destruct (2 ^ 64 <=? w * 10 ^ sidx q) eqn:Eo; cbn [fst snd] in *.
  - (* two multiplications *)
    destruct (lz64_spec w Hw) as [Hlz Hnw].
    pose proof (small_entry_ok (sidx q) Hsi) as HS.
    pose proof (bell_entry_range _ _ _ HS) as Hps. apply entry_R in HS.
    set (es := lexp (sidx q)) in *. set (Ps := small_m (sidx q)) in *.
    set (Sv := tv (sidx q) es) in *.
    set (X1 := w * 2 ^ lz64 w) in *.
    pose proof (bmul_bracket_R X1 Ps) as Hb2. cbv zeta in Hb2.
    set (x2 := (X1 * Ps + 2 ^ 63) / 2 ^ 64) in *.
    destruct (IZR_range64 X1 ltac:(lia)) as [BX1 _].
    destruct (IZR_range64 Ps ltac:(lia)) as [BPs BPs1].
    destruct (IZR_range64 x2 ltac:(lia)) as [Bx2 _].
    set (U := (IZR X1 * Sv / c64)%R).
    assert (HU : (IZR x2 - 1 / 2 - 0 <= U <= IZR x2 + 3 / 2 + 0)%R).
    { unfold U. apply (mul_step c64 (IZR X1) (IZR X1) (IZR Ps) Sv (IZR x2) 0 0); lra. }
    assert (HU0 : (0 <= U)%R).
    { unfold U. apply Rmult_le_pos; [apply Rmult_le_pos; lra|]. apply Rlt_le, Rinv_0_lt_compat, Hc. }
    assert (HV : (IZR x3 - 1 / 2 - 1 / 2 <= U * L / c64 <= IZR x3 + 3 / 2 + 3 / 2)%R).
    { apply (mul_step c64 (IZR x2) U (IZR Pl) L (IZR x3) (1 / 2) (3 / 2)); lra. }
    assert (EV : (IZR w * bpow r10 q * bpow radix2 (- (- lz64 w + es + 64 + el + 64)) = U * L / c64)%R).
    { unfold U, L, Sv, tv, X1. rewrite Hq10, mult_IZR, IZR_pow2 by lia.
      replace (- (- lz64 w + es + 64 + el + 64)) with (lz64 w + - es + -64 + - el + -64) by lia.
      rewrite !bpow_plus. unfold Rdiv. rewrite c64_inv. ring. }
    rewrite EV. split; [lra|discriminate].
  - (* exact small product, one multiplication *)
    assert (Hp10 : 0 < 10 ^ sidx q) by (apply pow10_pos; lia).
    assert (Hmm : 0 < w * 10 ^ sidx q < 2 ^ 64) by nia.
    destruct (lz64_spec _ Hmm) as [Hlz Hnm].
    set (sh := lz64 (w * 10 ^ sidx q)) in *.
    set (X1 := w * 10 ^ sidx q * 2 ^ sh) in *.
    destruct (IZR_range64 X1 ltac:(lia)) as [BX1 _].
    assert (HV : (IZR x3 - 1 / 2 - 0 <= IZR X1 * L / c64 <= IZR x3 + 3 / 2 + 0)%R).
    { apply (mul_step c64 (IZR X1) (IZR X1) (IZR Pl) L (IZR x3) 0 0); lra. }
    assert (EV : (IZR w * bpow r10 q * bpow radix2 (- (- sh + el + 64)) = IZR X1 * L / c64)%R).
    { unfold L, tv, X1. rewrite Hq10, !mult_IZR, IZR_pow2, IZR_pow10 by lia.
      replace (- (- sh + el + 64)) with (sh + - el + -64) by lia.
      rewrite !bpow_plus. unfold Rdiv. rewrite c64_inv. ring. }
    rewrite EV. split; [lra|intros _; lra].
Qed.

(** ** the bound the accuracy test is fed with *)
Theorem stage2_bound q w t (x : R) :
  0 < w < 2 ^ 64 -> 0 <= q + BIAS -> lidx q < NLARGE -> (t = true -> 2 ^ 40 <= w) ->
  (if t then (IZR w * bpow r10 q <= x < IZR (w + 1) * bpow r10 q)%R
   else x = (IZR w * bpow r10 q)%R) ->
  let x3 := fst (stage2 q w) in let e3 := snd (stage2 q w) in
  ((IZR x3 - 1) * bpow radix2 e3 <= x <= (IZR x3 + IZR (errs q w t) - 2) * bpow radix2 e3)%R.
Proof.
  intros Hw H0 H1 Ht Hx. cbv zeta.
  destruct (stage2_V q w Hw H0 H1) as [[HV1 HV2] HV3]. cbv zeta in HV1, HV2, HV3.
  destruct (index_facts q H0 H1) as (Hsi & Hli & Hq).
  destruct (stage2_range q w Hw Hsi Hli) as [[Hx3l Hx3] _].
  assert (P61 : 0 < 2 ^ 61) by (vm_compute; reflexivity).
  set (x3 := fst (stage2 q w)) in *. set (e3 := snd (stage2 q w)) in *.
  pose proof (bpow_gt_0 radix2 e3) as Pe. pose proof (bpow_gt_0 radix2 (- e3)) as Pe'.
  pose proof (bpow_opp_mul radix2 e3) as I.
  set (G := (bpow r10 q * bpow radix2 (- e3))%R) in *.
  assert (HG : (0 < G)%R) by (apply Rmult_lt_0_compat; [apply bpow_gt_0|exact Pe']).
  replace (IZR w * bpow r10 q * bpow radix2 (- e3))%R with (IZR w * G)%R in * by (unfold G; ring).
  (* it suffices to bound T = x / 2^e3 *)
  assert (Hsuff : forall T lo hi : R, (x = T * bpow radix2 e3 -> lo <= T <= hi ->
             lo * bpow radix2 e3 <= x <= hi * bpow radix2 e3)%R).
  { intros T lo hi -> [Ha Hb]. split; apply Rmult_le_compat_r; lra. }
  assert (ET : (x = x * bpow radix2 (- e3) * bpow radix2 e3)%R).
  { rewrite Rmult_assoc, (Rmult_comm (bpow radix2 (- e3))), I. ring. }
  apply (Hsuff _ _ _ ET). clear Hsuff ET.
  unfold errs. cbv zeta.
  destruct t.
  - (* digits were dropped *)
    specialize (Ht eq_refl). destruct Hx as [Hx1 Hx2].
    destruct (lz64_spec w Hw) as [Hlz Hnw].
    assert (Hlz23 : lz64 w <= 23).
    { destruct (Z_le_gt_dec (lz64 w) 23) as [|Hgt]; [assumption|exfalso].
      pose proof (pow2_le 24 (lz64 w) ltac:(lia)) as Hle.
      assert (2 ^ 40 * 2 ^ 24 = 2 ^ 64) by reflexivity. nia. }
    replace (Z.min (lz64 w + 1) 24) with (lz64 w + 1) by lia.
    set (k := lz64 w + 1) in *.
    assert (Hk : 2 ^ 64 + 2 <= (2 ^ k + 1) * w).
    { unfold k. rewrite pow2_succ by lia. change (2 ^ 64) with (2 * 2 ^ 63).
      assert (2 ^ 40 = 1099511627776) by reflexivity. nia. }
    apply IZR_le in Hk. rewrite plus_IZR, mult_IZR, plus_IZR, c64_IZR in Hk. simpl (IZR 2) in Hk. simpl (IZR 1) in Hk.
    pose proof (pow2_pos k ltac:(unfold k; lia)) as Hkp. apply IZR_lt in Hkp.
    assert (Hw0 : (0 < IZR w)%R) by (apply IZR_lt; lia).
    destruct (IZR_range64 x3 ltac:(lia)) as [_ Hx3c].
    (* G * w = V <= 2^64 + 2 <= (2^k + 1) * w *)
    assert (HGk : (G <= IZR (2 ^ k) + 1)%R).
    { apply Rmult_le_reg_r with (IZR w); [exact Hw0|]. rewrite (Rmult_comm G). lra. }
    assert (HT1 : (IZR w * G <= x * bpow radix2 (- e3))%R).
    { unfold G. rewrite <- Rmult_assoc. apply Rmult_le_compat_r; lra. }
    assert (HT2 : (x * bpow radix2 (- e3) <= IZR w * G + G)%R).
    { replace (IZR w * G + G)%R with (IZR (w + 1) * bpow r10 q * bpow radix2 (- e3))%R
        by (unfold G; rewrite plus_IZR; ring).
      apply Rmult_le_compat_r; lra. }
    split; [lra|].
    assert (HE : (IZR x3 + 3 + (IZR (2 ^ k) + 1) <=
      IZR x3 + IZR ((if 0 <? (if 2 ^ 64 <=? w * 10 ^ sidx q then 8 * 2 ^ k + 4 else 8 * 2 ^ k)
                     then (if 2 ^ 64 <=? w * 10 ^ sidx q then 8 * 2 ^ k + 4 else 8 * 2 ^ k) + 1
                     else (if 2 ^ 64 <=? w * 10 ^ sidx q then 8 * 2 ^ k + 4 else 8 * 2 ^ k)) + 4) - 2)%R).
    { assert (Hz : 2 ^ k + 6 <= (if 0 <? (if 2 ^ 64 <=? w * 10 ^ sidx q then 8 * 2 ^ k + 4 else 8 * 2 ^ k)
                     then (if 2 ^ 64 <=? w * 10 ^ sidx q then 8 * 2 ^ k + 4 else 8 * 2 ^ k) + 1
                     else (if 2 ^ 64 <=? w * 10 ^ sidx q then 8 * 2 ^ k + 4 else 8 * 2 ^ k)) + 4).
      { pose proof (pow2_pos k ltac:(unfold k; lia)).
        destruct (2 ^ 64 <=? w * 10 ^ sidx q); destruct (0 <? _) eqn:E; lia. }
      apply IZR_le in Hz. rewrite plus_IZR in Hz. simpl (IZR 6) in Hz. lra. }
    lra.
  - (* exact *)
    subst x. replace (IZR w * bpow r10 q * bpow radix2 (- e3))%R with (IZR w * G)%R by (unfold G; ring).
    split; [lra|].
    destruct (2 ^ 64 <=? w * 10 ^ sidx q) eqn:Eo.
    + change (IZR ((if 0 <? 0 + 4 then 0 + 4 + 1 else 0 + 4) + 4)) with 9%R. lra.
    + specialize (HV3 eq_refl). change (IZR ((if 0 <? 0 then 0 + 1 else 0) + 4)) with 4%R. lra.
Qed.

Print Assumptions stage2_bound.
