(** * SlowFacts2 (part A): the successor / midpoint characterisation of [rne_bits].

    For a non-negative finite pattern [x] with decoded pair (M, E) (value M * 2^E), successor
    pattern [x + 1] (the next float; +infinity after the largest finite one; the smallest
    subnormal after +0) and midpoint  mid = (2 M + 1) * 2^(E - 1):  if the correctly rounded
    pattern [w] of a positive rational n/d is known to be [x] or [x + 1], then it is [x + 1]
    exactly when  n/d > mid, or n/d = mid and M is odd.  Everything is stated over [Z] by
    cross-multiplication ([sc_num], [sc_den] of spec/RneZ.v); no real numbers are involved.

    Main statements: [rne_succ_mid_pair] (for a valid pair (M0, E0)), [rne_bits_succ_mid] and
    [rne_bits_succ_mid_cmp] (for a bit pattern, with [dec_mant] / [dec_exp] of NumFacts). *)
From Coq Require Import ZArith List Bool Lia Znumtheory.
From Coq Require Import ZifyBool.
From ML Require Import base.RustSem model.Fmt model.Num spec.RneZ proofs.NumFacts gen.Consts.
Open Scope Z_scope.
Arguments Z.pow : simpl never.

(** ** 0. Comparing fractions by cross-multiplication *)

Lemma mul_cmp_r p n m : 0 < p -> (n * p ?= m * p) = (n ?= m).
Proof. intros H. symmetry. apply Zmult_compare_compat_r. lia. Qed.

Lemma mul_cmp_l p n m : 0 < p -> (p * n ?= p * m) = (n ?= m).
Proof. intros H. symmetry. apply Zmult_compare_compat_l. lia. Qed.

Lemma cross_compare A D n' U c K :
  0 < D -> 0 < U -> A * U = n' * D -> (c * A ?= K * D) = (c * n' ?= K * U).
Proof.
  intros HD HU E.
  rewrite <- (mul_cmp_r U (c * A) (K * D)) by exact HU.
  replace (c * A * U) with (c * n' * D) by (rewrite <- !Z.mul_assoc, E; ring).
  replace (K * D * U) with (K * U * D) by ring.
  apply mul_cmp_r. exact HD.
Qed.

Lemma cross_lt A D n' U c K :
  0 < D -> 0 < U -> A * U = n' * D -> (c * A < K * D <-> c * n' < K * U).
Proof. intros HD HU E. rewrite <- !Z.compare_lt_iff, (cross_compare A D n' U c K HD HU E). tauto. Qed.

Lemma cross_le A D n' U c K :
  0 < D -> 0 < U -> A * U = n' * D -> (c * A <= K * D <-> c * n' <= K * U).
Proof. intros HD HU E. rewrite <- !Z.compare_le_iff, (cross_compare A D n' U c K HD HU E). tauto. Qed.

Lemma cross_ge A D n' U c K :
  0 < D -> 0 < U -> A * U = n' * D -> (K * D <= c * A <-> K * U <= c * n').
Proof.
  intros HD HU E. rewrite <- !Z.compare_ge_iff, (cross_compare A D n' U c K HD HU E). tauto.
Qed.

Lemma cross_eq A D n' U c K :
  0 < D -> 0 < U -> A * U = n' * D -> (c * A = K * D <-> c * n' = K * U).
Proof. intros HD HU E. rewrite <- !Z.compare_eq_iff, (cross_compare A D n' U c K HD HU E). tauto. Qed.

Lemma sc_den_pos d E : 0 < d -> 0 < sc_den d E.
Proof.
  intros Hd. unfold sc_den. destruct (0 <=? E) eqn:He; [|lia].
  apply Z.mul_pos_pos; [lia|]. apply Z.pow_pos_nonneg; lia.
Qed.

(** n/d / 2^E with the denominator normalised to  2^(E - F) * d  (F a non-positive lower bound of
    the exponents): the numerator becomes  n * 2^(-F)  for every E *)
Lemma sc_norm n d E F :
  F <= 0 -> F <= E -> sc_num n E * (2 ^ (E - F) * d) = (n * 2 ^ (- F)) * sc_den d E.
Proof.
  intros HF HE. unfold sc_num, sc_den. destruct (0 <=? E) eqn:E0.
  - replace (E - F) with (E + - F) by lia. rewrite pow2_split by lia. ring.
  - replace (- F) with (- E + (E - F)) by lia. rewrite pow2_split by lia. ring.
Qed.

(** the midpoint's exponent is one below the float's: comparing n/d with K * 2^(E-1) is comparing
    2 * (n/d) / 2^E with K *)
Lemma sc_half n d E K :
  0 < d -> (sc_num n (E - 1) ?= K * sc_den d (E - 1)) = (2 * sc_num n E ?= K * sc_den d E).
Proof.
  intros Hd. unfold sc_num, sc_den.
  destruct (0 <=? E - 1) eqn:E1; destruct (0 <=? E) eqn:E0; try lia.
  - replace E with (1 + (E - 1)) at 2 by lia. rewrite pow2_split by lia. change (2 ^ 1) with 2.
    pose proof (pow2_pos (E - 1) ltac:(lia)).
    replace (K * (d * (2 * 2 ^ (E - 1)))) with (2 * (K * (d * 2 ^ (E - 1)))) by ring.
    symmetry. apply mul_cmp_l. lia.
  - assert (E = 0) by lia. subst E. change (- (0 - 1)) with 1. change (2 ^ 1) with 2.
    change (2 ^ 0) with 1. rewrite Z.mul_1_r. rewrite (Z.mul_comm n 2). reflexivity.
  - replace (- (E - 1)) with (1 + - E) by lia. rewrite pow2_split by lia. change (2 ^ 1) with 2.
    replace (n * (2 * 2 ^ (- E))) with (2 * (n * 2 ^ (- E))) by ring. reflexivity.
Qed.

(** ** 1. The core argument over integers.

    [n'] is the value in units of the smallest subnormal times [d]; [W = 2^e * d] and
    [W0 = 2^e0 * d] are the units in the last place of the rounded result (exponent offset [e])
    and of [x] (offset [e0]), times [d]; [P = 2^MANTISSA_SIZE]. *)
Lemma core_succ_mid P W W0 e e0 M M0 n' w x :
  0 < P -> 0 < W -> 0 < W0 -> 0 <= e -> 0 <= e0 ->
  (e = e0 -> W = W0) -> (e < e0 -> 2 * W <= W0) -> (e0 < e -> 2 * W0 <= W) ->
  0 < n' ->
  n' < 2 * P * W -> (e = 0 \/ P * W <= n') ->
  (2 * M - 1) * W <= 2 * n' <= (2 * M + 1) * W ->
  (2 * n' = (2 * M + 1) * W \/ 2 * n' = (2 * M - 1) * W -> Z.even M = true) ->
  0 <= M0 < 2 * P -> (M0 < P -> e0 = 0) ->
  w = (if M <? P then M else (e + 1) * P + (M - P)) ->
  x = (if M0 <? P then M0 else (e0 + 1) * P + (M0 - P)) ->
  x <= w <= x + 1 ->
  (w = x + 1 <->
   (2 * n' > (2 * M0 + 1) * W0 \/ (2 * n' = (2 * M0 + 1) * W0 /\ Z.odd M0 = true))).
Proof.
  intros HP HW HW0 He He0 Heq Hlt Hgt Hn Hc1 Hc2 Hne Htie HM0 HM0s Hw Hx Hwx.
  assert (HM : 0 <= M <= 2 * P).
  { split.
    - destruct (Z_lt_le_dec M 0) as [Hneg|]; [exfalso|assumption].
      assert ((2 * M + 1) * W <= (-1) * W) by (apply Z.mul_le_mono_nonneg_r; lia). lia.
    - destruct (Z_lt_le_dec (2 * P) M) as [Hbig|]; [exfalso|assumption].
      assert ((4 * P + 1) * W <= (2 * M - 1) * W) by (apply Z.mul_le_mono_nonneg_r; lia). lia. }
  assert (HMn : e <> 0 -> P <= M).
  { intros Hne0. destruct Hc2 as [|Hc2]; [contradiction|].
    destruct (Z_lt_le_dec M P) as [Hs|]; [exfalso|assumption].
    assert ((2 * M + 1) * W <= (2 * P - 1) * W) by (apply Z.mul_le_mono_nonneg_r; lia). lia. }
  destruct (Z.lt_trichotomy e e0) as [L|[E|G]].
  - (* the result lies in a lower binade: it is x, and n/d is below x *)
    specialize (Hlt L).
    assert (HM0n : P <= M0) by (destruct (Z_lt_le_dec M0 P); [specialize (HM0s ltac:(lia)); lia|lia]).
    replace (M0 <? P) with false in Hx by lia.
    assert (Hle : (e + 2) * P <= (e0 + 1) * P) by (apply Z.mul_le_mono_nonneg_r; lia).
    assert (Hwle : w <= (e + 2) * P).
    { rewrite Hw. destruct (M <? P) eqn:EM; [|lia].
      assert (0 <= (e + 1) * P) by (apply Z.mul_nonneg_nonneg; lia). lia. }
    assert (Hlow : 2 * n' < (2 * M0 + 1) * W0).
    { assert (2 * P * W0 <= 2 * M0 * W0) by (apply Z.mul_le_mono_nonneg_r; lia).
      assert (2 * P * (2 * W) <= 2 * P * W0) by (apply Z.mul_le_mono_nonneg_l; lia). lia. }
    split; [intros; lia|intros [?|[? _]]; lia].
  - (* same binade *)
    specialize (Heq E). subst e0. subst W0.
    assert (Hd : w - x = M - M0).
    { rewrite Hw, Hx. destruct (M <? P) eqn:EM; destruct (M0 <? P) eqn:EM0; lia. }
    destruct (Z.eq_dec w (x + 1)) as [Hup|Hdn].
    + assert (M = M0 + 1) by lia. subst M. split; [intros _|intros; assumption].
      replace (2 * (M0 + 1) - 1) with (2 * M0 + 1) in * by ring.
      destruct (Z.eq_dec (2 * n') ((2 * M0 + 1) * W)) as [Ht|Hnt]; [right|left; lia].
      split; [exact Ht|]. specialize (Htie (or_intror Ht)).
      rewrite Z.add_1_r, Z.even_succ in Htie. exact Htie.
    + assert (M = M0) by lia. subst M. split; [intros; lia|].
      intros [Habove|[Ht Hodd]]; [lia|].
      specialize (Htie (or_introl Ht)). rewrite <- Z.negb_even, Htie in Hodd. discriminate.
  - (* the result lies in a higher binade: it is x + 1, and n/d is at least x + 1 *)
    specialize (Hgt G).
    assert (HMP : P <= M) by (apply HMn; lia).
    replace (M <? P) with false in Hw by lia.
    assert (Hge : (e0 + 2) * P <= (e + 1) * P) by (apply Z.mul_le_mono_nonneg_r; lia).
    assert (Hxlt : x < (e0 + 2) * P).
    { rewrite Hx. destruct (M0 <? P) eqn:EM0; [|lia].
      assert (0 <= e0 * P) by (apply Z.mul_nonneg_nonneg; lia). lia. }
    assert (Hhigh : 2 * n' > (2 * M0 + 1) * W0).
    { destruct Hc2 as [|Hc2]; [lia|].
      assert ((2 * M0 + 2) * W0 <= 4 * P * W0) by (apply Z.mul_le_mono_nonneg_r; lia).
      assert (P * (2 * W0) <= P * W) by (apply Z.mul_le_mono_nonneg_l; lia). lia. }
    split; [intros _; left; exact Hhigh|intros _; lia].
Qed.

(** ** 2. The characterisation for a valid (significand, exponent) pair *)
Section A.
Variable f : format.
Hypothesis OK : fmt_ok f = true.

Local Notation ms := (MANTISSA_SIZE f).

Lemma femin_nonpos : femin f <= 0.
Proof.
  destruct (fmt_ok_facts f OK). unfold femin, prec, emax.
  pose proof (pow2_pos (ewidth f - 1) ltac:(lia)). lia.
Qed.

Lemma pow2_prec_ms : 2 ^ prec f = 2 * 2 ^ ms /\ 2 ^ (prec f - 1) = 2 ^ ms /\ 0 < 2 ^ ms.
Proof.
  destruct (fmt_ok_facts f OK). unfold prec.
  replace (ms + 1 - 1) with ms by lia. rewrite pow2_split by lia. change (2 ^ 1) with 2.
  pose proof (pow2_pos ms ltac:(lia)). lia.
Qed.

(** [canon_exp] and [nearest_even] with the common numerator  n * 2^(-femin) *)
Lemma canon_exp_norm n d E :
  0 < d -> canon_exp f n d E ->
  let n' := n * 2 ^ (- femin f) in
  let W := 2 ^ (E - femin f) * d in
  femin f <= E /\ 0 < W /\ n' < 2 * 2 ^ ms * W /\ (E - femin f = 0 \/ 2 ^ ms * W <= n').
Proof.
  intros Hd (HE & Hlt & Hge). cbv zeta.
  destruct pow2_prec_ms as (P1 & P2 & P3). rewrite P1 in Hlt. rewrite P2 in Hge.
  pose proof femin_nonpos as HF.
  pose proof (sc_den_pos d E Hd) as HD.
  pose proof (pow2_pos (E - femin f) ltac:(lia)) as Hp.
  assert (HW : 0 < 2 ^ (E - femin f) * d) by (apply Z.mul_pos_pos; lia).
  pose proof (sc_norm n d E (femin f) HF HE) as EQ.
  split; [exact HE|]. split; [exact HW|]. split.
  - rewrite <- (Z.mul_1_l (sc_num n E)) in Hlt. rewrite <- (Z.mul_1_l (n * _)).
    apply (cross_lt _ _ _ _ 1 (2 * 2 ^ ms) HD HW EQ). exact Hlt.
  - destruct Hge as [->|Hge]; [left; lia|right].
    rewrite <- (Z.mul_1_l (sc_num n E)) in Hge. rewrite <- (Z.mul_1_l (n * _)).
    apply (cross_ge _ _ _ _ 1 (2 ^ ms) HD HW EQ). exact Hge.
Qed.

Lemma nearest_even_norm n d M E :
  0 < d -> femin f <= E -> nearest_even n d M E ->
  let n' := n * 2 ^ (- femin f) in
  let W := 2 ^ (E - femin f) * d in
  (2 * M - 1) * W <= 2 * n' <= (2 * M + 1) * W /\
  (2 * n' = (2 * M + 1) * W \/ 2 * n' = (2 * M - 1) * W -> Z.even M = true).
Proof.
  intros Hd HE (Hle & Htie). cbv zeta.
  pose proof femin_nonpos as HF.
  pose proof (sc_den_pos d E Hd) as HD.
  pose proof (pow2_pos (E - femin f) ltac:(lia)) as Hp.
  assert (HW : 0 < 2 ^ (E - femin f) * d) by (apply Z.mul_pos_pos; lia).
  pose proof (sc_norm n d E (femin f) HF HE) as EQ.
  set (A := sc_num n E) in *. set (D := sc_den d E) in *.
  set (n' := n * 2 ^ (- femin f)) in *. set (W := 2 ^ (E - femin f) * d) in *.
  split; [split|].
  - apply (cross_ge A D n' W 2 (2 * M - 1) HD HW EQ). lia.
  - apply (cross_le A D n' W 2 (2 * M + 1) HD HW EQ). lia.
  - intros [H|H]; apply Htie.
    + apply (cross_eq A D n' W 2 (2 * M + 1) HD HW EQ) in H. lia.
    + apply (cross_eq A D n' W 2 (2 * M - 1) HD HW EQ) in H. lia.
Qed.

Lemma encode_offset M E :
  encode f M E = if M <? 2 ^ ms then M else (E - femin f + 1) * 2 ^ ms + (M - 2 ^ ms).
Proof. reflexivity. Qed.

(** a pair (M0, E0) denoting a non-negative finite float *)
Definition valid_pair (M0 E0 : Z) : Prop :=
  femin f <= E0 <= emax f - prec f /\ 0 <= M0 < 2 ^ prec f /\ (M0 < 2 ^ ms -> E0 = femin f).

Lemma pow2_double_le a c : 0 <= a < c -> 2 * 2 ^ a <= 2 ^ c.
Proof.
  intros H. replace (2 * 2 ^ a) with (2 ^ (a + 1)) by (rewrite pow2_split by lia; change (2 ^ 1) with 2; ring).
  apply pow2_le. lia.
Qed.

Theorem rne_succ_mid_pair M0 E0 n d w :
  valid_pair M0 E0 -> 0 < n -> 0 < d ->
  rne_bits f n d w ->
  encode f M0 E0 <= w <= encode f M0 E0 + 1 ->
  (w = encode f M0 E0 + 1 <->
   (2 * sc_num n E0 > (2 * M0 + 1) * sc_den d E0 \/
    (2 * sc_num n E0 = (2 * M0 + 1) * sc_den d E0 /\ Z.odd M0 = true))).
Proof.
  intros ((HE0 & HE0max) & HM0 & HM0s) Hn Hd Hr Hwx.
  destruct pow2_prec_ms as (P1 & P2 & P3). rewrite P1 in HM0.
  pose proof femin_nonpos as HF.
  pose proof (sc_den_pos d E0 Hd) as HD0.
  pose proof (pow2_pos (E0 - femin f) ltac:(lia)) as Hp0.
  assert (HW0 : 0 < 2 ^ (E0 - femin f) * d) by (apply Z.mul_pos_pos; lia).
  pose proof (sc_norm n d E0 (femin f) HF HE0) as EQ0.
  set (n' := n * 2 ^ (- femin f)) in *. set (W0 := 2 ^ (E0 - femin f) * d) in *.
  assert (Hn' : 0 < n') by (apply Z.mul_pos_pos; [lia|apply pow2_pos; lia]).
  (* the right-hand side with the normalised numerator *)
  assert (RHS : (2 * sc_num n E0 > (2 * M0 + 1) * sc_den d E0 \/
                 (2 * sc_num n E0 = (2 * M0 + 1) * sc_den d E0 /\ Z.odd M0 = true)) <->
                (2 * n' > (2 * M0 + 1) * W0 \/ (2 * n' = (2 * M0 + 1) * W0 /\ Z.odd M0 = true))).
  { pose proof (cross_lt (sc_num n E0) (sc_den d E0) n' W0 2 (2 * M0 + 1) HD0 HW0 EQ0).
    pose proof (cross_le (sc_num n E0) (sc_den d E0) n' W0 2 (2 * M0 + 1) HD0 HW0 EQ0).
    pose proof (cross_eq (sc_num n E0) (sc_den d E0) n' W0 2 (2 * M0 + 1) HD0 HW0 EQ0).
    lia. }
  rewrite RHS. clear RHS.
  assert (Hxfin : encode f M0 E0 < inf_bits f).
  { rewrite encode_offset. unfold inf_bits.
    destruct (fmt_ok_facts f OK). pose proof (emax_double f OK) as ED.
    assert (E0 - femin f + 1 <= 2 ^ ewidth f - 2) by (unfold femin in *; lia).
    assert ((E0 - femin f + 1) * 2 ^ ms <= (2 ^ ewidth f - 2) * 2 ^ ms)
      by (apply Z.mul_le_mono_nonneg_r; lia).
    pose proof (ew_pow_ge2 f OK).
    assert (0 <= (2 ^ ewidth f - 2) * 2 ^ ms) by (apply Z.mul_nonneg_nonneg; lia).
    destruct (M0 <? 2 ^ ms) eqn:EM0; lia. }
  destruct Hr as [[Hz _]|[(_ & Hov & Hw)|(_ & Hfin & M & E & Hc & Hne & Hw)]]; [lia| |].
  - (* overflow: x is the largest finite float, and n/d >= 2^emax > mid *)
    split; [intros _; left|intros _; lia].
    (* 2^emax * 2^(-femin) * d <= n' *)
    assert (Hbig : 2 ^ emax f * 2 ^ (- femin f) * d <= n').
    { unfold n'. replace (2 ^ emax f * 2 ^ (- femin f) * d) with ((2 ^ emax f * d) * 2 ^ (- femin f)) by ring.
      apply Z.mul_le_mono_nonneg_r; [apply Z.lt_le_incl, pow2_pos; lia|exact Hov]. }
    assert (Hsplit : 2 ^ emax f * 2 ^ (- femin f) = 2 ^ prec f * 2 ^ (emax f - prec f - femin f)).
    { assert (0 <= prec f) by (unfold prec; destruct (fmt_ok_facts f OK); lia).
      assert (0 <= emax f) by (unfold emax; apply Z.lt_le_incl, pow2_pos; destruct (fmt_ok_facts f OK); lia).
      rewrite <- !pow2_split by lia. f_equal. lia. }
    rewrite P1 in Hsplit.
    assert (Hmono : 2 ^ (E0 - femin f) <= 2 ^ (emax f - prec f - femin f)) by (apply pow2_le; lia).
    assert (Hle : (2 * M0 + 1) * W0 < 2 * (2 * 2 ^ ms * 2 ^ (E0 - femin f) * d)).
    { unfold W0. assert ((2 * M0 + 1) * (2 ^ (E0 - femin f) * d) < (4 * 2 ^ ms) * (2 ^ (E0 - femin f) * d))
        by (apply Z.mul_lt_mono_pos_r; lia). lia. }
    assert (2 * 2 ^ ms * 2 ^ (E0 - femin f) * d <= 2 * 2 ^ ms * 2 ^ (emax f - prec f - femin f) * d).
    { apply Z.mul_le_mono_nonneg_r; [lia|]. apply Z.mul_le_mono_nonneg_l; lia. }
    rewrite Hsplit in Hbig. lia.
  - (* finite result *)
    destruct (canon_exp_norm n d E Hd Hc) as (HE & HW & Hc1 & Hc2).
    destruct (nearest_even_norm n d M E Hd HE Hne) as (Hne1 & Htie).
    fold n' in Hc1, Hc2, Hne1, Htie.
    apply (core_succ_mid (2 ^ ms) (2 ^ (E - femin f) * d) W0 (E - femin f) (E0 - femin f) M M0 n' w
             (encode f M0 E0)); try assumption; try lia.
    + intros He. unfold W0. rewrite He. reflexivity.
    + intros Hlt. unfold W0.
      pose proof (pow2_double_le (E - femin f) (E0 - femin f) ltac:(lia)).
      assert (2 * 2 ^ (E - femin f) * d <= 2 ^ (E0 - femin f) * d)
        by (apply Z.mul_le_mono_nonneg_r; lia). lia.
    + intros Hgt. unfold W0.
      pose proof (pow2_double_le (E0 - femin f) (E - femin f) ltac:(lia)).
      assert (2 * 2 ^ (E0 - femin f) * d <= 2 ^ (E - femin f) * d)
        by (apply Z.mul_le_mono_nonneg_r; lia). lia.
    + reflexivity.
Qed.

(** ** 3. The characterisation for a bit pattern *)

Hypothesis EW2 : 2 <= ewidth f.     (* at least one normal binade; part of [rfmt_ok] *)

(** a non-negative finite pattern is the encoding of its decoded pair, which is valid *)
Lemma finite_pattern_pair x :
  0 <= x < inf_bits f ->
  valid_pair (dec_mant f x) (dec_exp f x) /\ x = encode f (dec_mant f x) (dec_exp f x).
Proof.
  intros Hx. destruct (fmt_ok_facts f OK). destruct pow2_prec_ms as (P1 & P2 & P3).
  assert (EW : 4 <= 2 ^ ewidth f) by (change 4 with (2 ^ 2); apply pow2_le; lia).
  pose proof (emax_double f OK) as ED.
  unfold inf_bits in Hx.
  assert (Hx' : 0 <= x < 2 ^ (fbits f - 1)).
  { rewrite (sign_pow_split f OK). split; [lia|].
    assert ((2 ^ ewidth f - 1) * 2 ^ ms < 2 ^ ewidth f * 2 ^ ms) by (apply Z.mul_lt_mono_pos_r; lia). lia. }
  pose proof (nonneg_pattern_split f OK x Hx') as Px.
  pose proof (frac_field_range f OK x) as HF. pose proof (exp_field_range f OK x) as HEf.
  assert (HEfin : exp_field f x <= 2 ^ ewidth f - 2).
  { destruct (Z_le_gt_dec (exp_field f x) (2 ^ ewidth f - 2)); [assumption|exfalso].
    assert ((2 ^ ewidth f - 1) * 2 ^ ms <= exp_field f x * 2 ^ ms)
      by (apply Z.mul_le_mono_nonneg_r; lia). lia. }
  unfold valid_pair, dec_mant, dec_exp. rewrite encode_offset, P1.
  destruct (exp_field f x =? 0) eqn:E0.
  - assert (E : exp_field f x = 0) by lia. rewrite E in Px.
    replace (frac_field f x <? 2 ^ ms) with true by lia.
    split; [|lia]. unfold femin, prec in *. repeat split; lia.
  - replace (frac_field f x + 2 ^ ms <? 2 ^ ms) with false by lia.
    split.
    + unfold femin, prec in *. repeat split; lia.
    + replace (exp_field f x - EXPONENT_BIAS f - femin f + 1) with (exp_field f x)
        by (unfold femin, prec in *; lia). lia.
Qed.

Theorem rne_bits_succ_mid x n d w :
  0 <= x < inf_bits f -> 0 < n -> 0 < d ->
  rne_bits f n d w -> x <= w <= x + 1 ->
  let M := dec_mant f x in
  let e := dec_exp f x - 1 in
  (w = x + 1 <->
   (sc_num n e > (2 * M + 1) * sc_den d e \/
    (sc_num n e = (2 * M + 1) * sc_den d e /\ Z.odd M = true))).
Proof.
  intros Hx Hn Hd Hr Hwx M e.
  destruct (finite_pattern_pair x Hx) as (Hv & Hxe). fold M in Hv, Hxe.
  rewrite Hxe in Hwx. rewrite Hxe at 1.
  rewrite (rne_succ_mid_pair M (dec_exp f x) n d w Hv Hn Hd Hr Hwx).
  pose proof (sc_half n d (dec_exp f x) (2 * M + 1) Hd) as Hh. fold e in Hh.
  assert (G : sc_num n e > (2 * M + 1) * sc_den d e <->
              2 * sc_num n (dec_exp f x) > (2 * M + 1) * sc_den d (dec_exp f x)).
  { rewrite !Z.gt_lt_iff, <- !Z.compare_gt_iff, Hh. tauto. }
  assert (Q : sc_num n e = (2 * M + 1) * sc_den d e <->
              2 * sc_num n (dec_exp f x) = (2 * M + 1) * sc_den d (dec_exp f x)).
  { rewrite <- !Z.compare_eq_iff, Hh. tauto. }
  tauto.
Qed.

(** the direction chosen by the digit comparison of `negative_digit_comp` *)
Definition mid_up (ord : comparison) (is_odd : bool) : bool :=
  match ord with Gt => true | Lt => false | Eq => is_odd end.

Theorem rne_bits_succ_mid_cmp x n d w :
  0 <= x < inf_bits f -> 0 < n -> 0 < d ->
  rne_bits f n d w -> x <= w <= x + 1 ->
  let M := dec_mant f x in
  let e := dec_exp f x - 1 in
  w = x + (if mid_up (sc_num n e ?= (2 * M + 1) * sc_den d e) (Z.odd M) then 1 else 0).
Proof.
  intros Hx Hn Hd Hr Hwx M e.
  pose proof (rne_bits_succ_mid x n d w Hx Hn Hd Hr Hwx) as H. cbv zeta in H. fold M e in H.
  destruct (sc_num n e ?= (2 * M + 1) * sc_den d e) eqn:C; cbn [mid_up].
  - pose proof (proj1 (Z.compare_eq_iff _ _) C) as C'. destruct (Z.odd M); [apply H; right; auto|].
    destruct (Z.eq_dec w (x + 1)) as [Hup|]; [|lia]. apply H in Hup.
    destruct Hup as [?|[_ ?]]; [lia|discriminate].
  - pose proof (proj1 (Z.compare_lt_iff _ _) C) as C'. destruct (Z.eq_dec w (x + 1)) as [Hup|]; [|lia].
    apply H in Hup. destruct Hup as [?|[? _]]; lia.
  - pose proof (proj1 (Z.compare_gt_iff _ _) C) as C'. apply H. left. lia.
Qed.

End A.

(** ** 4. Instances and examples *)
Lemma F64_ew2 : 2 <= ewidth F64. Proof. vm_compute; congruence. Qed.
Lemma F32_ew2 : 2 <= ewidth F32. Proof. vm_compute; congruence. Qed.
Definition f64_rne_bits_succ_mid := rne_bits_succ_mid F64 F64_ok F64_ew2.
Definition f32_rne_bits_succ_mid := rne_bits_succ_mid F32 F32_ok F32_ew2.
Definition f64_rne_bits_succ_mid_cmp := rne_bits_succ_mid_cmp F64 F64_ok F64_ew2.
Definition f32_rne_bits_succ_mid_cmp := rne_bits_succ_mid_cmp F32 F32_ok F32_ew2.

(** the hypotheses are satisfiable: 1 + 2^-53 = 9007199254740993 / 2^53 is the midpoint of
    x = 1.0 (0x3ff0000000000000) and its successor; the significand of 1.0 is even, so the
    tie goes down: w = x *)
Example rne_bits_mid_ex :
  let x := 0x3ff0000000000000 in
  let n := 9007199254740993 in let d := 2 ^ 53 in
  0 <= x < inf_bits F64 /\ rne_bits F64 n d x /\
  dec_mant F64 x = 2 ^ 52 /\ dec_exp F64 x = -52 /\
  (sc_num n (-53) ?= (2 * 2 ^ 52 + 1) * sc_den d (-53)) = Eq /\ Z.odd (2 ^ 52) = false.
Proof.
  cbv zeta. split; [vm_compute; split; congruence|]. split.
  - right. right. split; [reflexivity|]. split; [vm_compute; reflexivity|].
    exists (2 ^ 52), (-52). split; [|split].
    + unfold canon_exp. vm_compute. split; [congruence|]. split; [reflexivity|right; congruence].
    + unfold nearest_even. vm_compute. split; [congruence|reflexivity].
    + vm_compute. reflexivity.
  - repeat split; vm_compute; reflexivity.
Qed.

(** the largest finite float: its successor pattern is +infinity *)
Example rne_bits_top_ex :
  let x := 0x7fefffffffffffff in
  x + 1 = inf_bits F64 /\ rne_bits F64 (2 ^ 1024) 1 (x + 1) /\
  (sc_num (2 ^ 1024) (dec_exp F64 x - 1)
     ?= (2 * dec_mant F64 x + 1) * sc_den 1 (dec_exp F64 x - 1)) = Gt.
Proof.
  cbv zeta. split; [vm_compute; reflexivity|]. split; [|vm_compute; reflexivity].
  right. left. split; [vm_compute; reflexivity|]. split; [vm_compute; congruence|vm_compute; reflexivity].
Qed.

Print Assumptions rne_succ_mid_pair.
Print Assumptions rne_bits_succ_mid.
Print Assumptions rne_bits_succ_mid_cmp.
